/-
Totality.  On a content whose names are distinct (`WFnames`) and whose dependency graph is
complete and acyclic (`Sortable`), `_create_cache` returns a cache, and with that cache
`_get_args` returns an argument table for every state and time.  No hypothesis on the
stoichiometry keys is needed: `_create_cache` never looks a compound name up.
-/
import MxlVerif.Lemmas.WFNames
namespace Mxl

theorem ok_bind {α β} (a : α) (f : α → Except Err β) : (Except.ok a >>= f) = f a := rfl

/-! ### stage 1: the sort -/

/-- a complete, acyclic graph with distinct component names is sorted (same argument as
    `C02_acyclic_sorts`) -/
theorem sortDeps_total (av : List Name) (els : List Dep)
    (hnd : (els.map (·.name)).Nodup) (hs : Sortable av els) : ∃ o, sortDeps av els = .ok o := by
  have hchk : checkSortable av els = .ok () :=
    (checkSortable_ok_iff av els).mpr (sortable_complete hs)
  obtain ⟨o, ho⟩ := sortLoop_ok (qinv_sortInv hs) els (Generated.C02.maxIterations els.length) av els none []
    els [] ⟨fun d hd => hd, hnd, fun a ha => ha, fun d hd hnd' => absurd hd hnd'⟩ (by simp)
    (by simp) (by intro x hx; cases hx) (by simpa using tri_le_cap els.length)
  exact ⟨o, by simp [sortDeps, hchk, ho, bind, Except.bind]⟩

/-! ### stages 3-5: stoichiometry split and the two dictionary reads -/

theorem calc_total (f : Fn) (env : Env) (h : ∀ a ∈ f.args, (env.lookup a).isSome) :
    ∃ v, f.calc env = .ok v := by
  obtain ⟨vs, hvs, _⟩ := lookupArgs_ok_of_bound f.args h
  exact ⟨f.fn vs, by simp [Fn.calc, hvs, bind, Except.bind, pure, Except.pure]⟩

theorem addCoef_total (apn : List Name) (dep : Env) (hb : ∀ a ∈ apn, (dep.lookup a).isSome)
    (acc : StoichAcc) (rxn cpd : Name) (factor : Coef) :
    ∃ acc', addCoef apn dep acc rxn cpd factor = .ok acc' := by
  cases factor with
  | num x => exact ⟨_, rfl⟩
  | dyn f =>
    by_cases hall : (f.args.all fun a => apn.contains a) = true
    · obtain ⟨v, hv⟩ := calc_total f dep (fun a ha => hb a (by
        have := List.all_eq_true.mp hall a ha
        simpa using this))
      exact ⟨_, by simp only [addCoef, hall, if_true, hv, bind, Except.bind]; rfl⟩
    · have hall0 : (f.args.all fun a => apn.contains a) = false := by simpa using hall
      exact ⟨_, by simp only [addCoef, hall0, Bool.false_eq_true, if_false]; rfl⟩

theorem addCoefs_total (apn : List Name) (dep : Env) (hb : ∀ a ∈ apn, (dep.lookup a).isSome)
    (rxn : Name) : ∀ (st : List (Name × Coef)) (acc : StoichAcc),
      ∃ acc', addCoefs apn dep rxn st acc = .ok acc' := by
  intro st
  induction st with
  | nil => intro acc; exact ⟨acc, rfl⟩
  | cons x xs ih =>
    intro acc
    obtain ⟨cpd, f⟩ := x
    obtain ⟨acc1, h1⟩ := addCoef_total apn dep hb acc rxn cpd f
    obtain ⟨acc2, h2⟩ := ih acc1
    exact ⟨acc2, by simp only [addCoefs, h1, bind, Except.bind]; exact h2⟩

theorem addRxns_total (apn : List Name) (dep : Env) (hb : ∀ a ∈ apn, (dep.lookup a).isSome) :
    ∀ (rs : List (Name × List (Name × Coef))) (acc : StoichAcc),
      ∃ acc', addRxns apn dep rs acc = .ok acc' := by
  intro rs
  induction rs with
  | nil => intro acc; exact ⟨acc, rfl⟩
  | cons x xs ih =>
    intro acc
    obtain ⟨rxn, st⟩ := x
    obtain ⟨acc1, h1⟩ := addCoefs_total apn dep hb rxn st acc
    obtain ⟨acc2, h2⟩ := ih acc1
    exact ⟨acc2, by simp only [addRxns, h1, bind, Except.bind]; exact h2⟩

/-- `[(k, dependent[k]) for k in keys]` cannot raise when every key is bound -/
theorem mapM_get_total (env : Env) : ∀ (keys : List Name),
    (∀ k ∈ keys, (env.lookup k).isSome) →
    ∃ out, keys.mapM (fun k => do pure (k, ← env.get k)) = .ok out := by
  intro keys
  induction keys with
  | nil => intro _; exact ⟨[], rfl⟩
  | cons k ks ih =>
    intro hb
    obtain ⟨rest, hrest⟩ := ih (fun x hx => hb x (List.mem_cons_of_mem _ hx))
    have hk := hb k (by simp)
    cases hl : List.lookup k env with
    | none => rw [hl] at hk; cases hk
    | some v =>
      refine ⟨(k, v) :: rest, ?_⟩
      rw [List.mapM_cons, hrest, get_of_lookup hl]
      rfl

/-- a sorted component that is no surrogate provides exactly its own name -/
theorem WFnames.provided_self {c : Content} (h : WFnames c) {k : Name}
    (hk : k ∈ omKeys c.toSort) (hs : k ∉ omKeys c.surs) : providedOf c.toSort k = [k] := by
  obtain ⟨comp, hc⟩ := lookup_isSome_of_mem_keys hk
  cases comp with
  | fn f => simp [providedOf, hc, Comp.provided]
  | sur s => exact absurd (mem_keys_of_mem (h.sur_of_lookup_toSort hc)) hs

/-! ### `_create_cache` returns -/

/-- **totality of `_create_cache`.**  Distinct names and a complete acyclic dependency graph
    are all it takes: the sort succeeds within its iteration cap, every component finds its
    arguments, every static computed stoichiometric coefficient finds its parameters, and the
    initial conditions and assignment-defined parameters are read back. -/
theorem createCache_total (c : Content) (h : WFnames c) (hs : Sortable c.available c.deps) :
    ∃ cache, createCache c = .ok cache := by
  have hwf := WFd_of_names c h
  have hnames : (c.deps.map (·.name)).Nodup := by
    rw [deps_eq, depsOf_names]; exact hwf.keysNodup
  obtain ⟨order, h1⟩ := sortDeps_total c.available c.deps hnames hs
  obtain ⟨hperm, hsched, _⟩ := sortDeps_ok_sched c.available c.deps hnames order h1
  rw [deps_eq, depsOf_names] at hperm
  have hschedT := sched_to_schedT c.toSort hwf.keysNodup _ _ (by rw [← deps_eq]; exact hsched)
  have hpermF := hperm.flatMap_right (providedOf c.toSort)
  obtain ⟨dependent, he, _, _, hbound⟩ := evalInOrder_consistent c.toSort hwf.surOk order
    c.available (baseEnv (plainOf c.pars) (plainOf c.vars) c.data 0) hschedT
    (fun r hr => baseEnv_lookup_some _ _ _ 0 r hr)
    (hpermF.nodup_iff.mpr hwf.provNodup)
    (fun p hp => baseEnv_lookup_none _ _ _ 0 p (hwf.provFresh p (hpermF.mem_iff.mp hp)))
  obtain ⟨S, D, A, heq, hS, _, _, _, hstat, hnew, _, _⟩ :=
    classify_spec c order [] [] (omKeys c.pars) (fun a ha => Or.inl ha)
  simp only [List.reverse_nil, List.nil_append] at heq
  -- what is bound in the time-zero environment
  have bOrd : ∀ k ∈ order, isRS c k = false → (dependent.lookup k).isSome := by
    intro k hk hrs
    apply hbound k (Or.inl ?_)
    have hkT := hperm.mem_iff.mp hk
    exact List.mem_flatMap.mpr ⟨k, hk, by
      rw [h.provided_self hkT ((isRS_false_iff c k).mp hrs).2]; simp⟩
  have bVP : ∀ k, isVP c k = true → (dependent.lookup k).isSome := by
    intro k hvp
    rcases hwf.iaSorted k hvp with h2 | h2 | h2
    · exact hbound k (Or.inr (by simp [Content.available, h2]))
    · exact hbound k (Or.inr (by simp [Content.available, h2]))
    · apply bOrd k (hperm.mem_iff.mpr h2)
      cases hrs : isRS c k with
      | false => rfl
      | true => have := hwf.rsNotVP k hrs; rw [hvp] at this; cases this
  have bS : ∀ k ∈ S, (dependent.lookup k).isSome :=
    fun k hk => bOrd k (hS.subset hk) (hstat k hk).1
  have bApn : ∀ a ∈ A ++ omKeys c.pars, (dependent.lookup a).isSome := by
    intro a ha
    rcases List.mem_append.mp ha with h2 | h2
    · exact bS a (hnew a h2).1
    · exact bVP a ((isVP_iff c a).mpr (Or.inr h2))
  obtain ⟨⟨st, dst⟩, h3⟩ := addRxns_total (A ++ omKeys c.pars) dependent bApn c.allStoich ([], [])
  obtain ⟨init, h4⟩ := mapM_get_total dependent (omKeys c.vars)
    (fun k hk => bVP k ((isVP_iff c k).mpr (Or.inl hk)))
  obtain ⟨extra, h5⟩ := mapM_get_total dependent
    (S.filter fun k => !(omKeys c.vars).contains k)
    (fun k hk => bS k (List.mem_filter.mp hk).1)
  refine ⟨{ order := order, varNames := omKeys c.vars, dynOrder := D, basePars := plainOf c.pars,
            allPars := omUnion (plainOf c.pars) extra, stoich := st, dynStoich := dst,
            init := init }, ?_⟩
  unfold createCache
  simp only [h1, ok_bind, he, heq, h3, h4, h5]
  rfl

/-! ### `_get_args` returns, and what it returns -/

/-- the construction inside `getArgs_consistent`, with the environment produced rather than
    assumed, and the freshness of the dynamic names exposed -/
theorem getArgs_core {c : Content} (hwf : WFd c) {cache : Cache}
    (hc : createCache c = .ok cache) (vars : List (Name × Rat))
    (hv : vars.map (·.1) = omKeys c.vars) (t : Rat) :
    ∃ env, getArgsEnv c cache vars t = .ok env ∧
      (∀ k ∈ cache.dynOrder, ∀ comp, c.containers.lookup k = some comp → comp.Holds k env) ∧
      (∀ n, n ∉ cache.dynOrder.flatMap (providedOf c.containers) →
        env.lookup n = (baseEnv cache.allPars vars c.data t).lookup n) ∧
      (∀ p ∈ cache.dynOrder.flatMap (providedOf c.containers),
        (baseEnv cache.allPars vars c.data t).lookup p = none) ∧
      (∀ r, r ∈ cache.dynOrder.flatMap (providedOf c.containers) ∨
          r ∈ omKeys cache.allPars ++ omKeys vars ++ omKeys c.data ++ ["time"] →
        (env.lookup r).isSome) := by
  obtain ⟨dep, _, _, _, _, _, hperm, hschedT⟩ := createCache_consistent hwf.toWFc hc
  obtain ⟨order, dependent, st, dst, init, extra, _, _, _, _, h5, hcache⟩ := createCache_ok hc
  obtain ⟨S, D, A, heq, hS, hD, hcov, hdyn, hstat, _, _, hdisj⟩ :=
    classify_spec c order [] [] (omKeys c.pars) (fun a ha => Or.inl ha)
  have horder : cache.order = order := by rw [hcache]
  rw [horder] at hperm hschedT
  have hdynO : cache.dynOrder = D := by rw [hcache, heq]; simp
  have hstatO : (classify c order [] [] (omKeys c.pars)).1 = S := by rw [heq]; simp
  have hallP : cache.allPars = omUnion (plainOf c.pars) extra := by rw [hcache]
  obtain ⟨hextraK, _⟩ := mapM_get_spec dependent _ _ h5
  rw [hstatO] at hextraK
  have hordNd : order.Nodup := hperm.nodup_iff.mpr hwf.keysNodup
  have hprovNd : (order.flatMap (providedOf c.toSort)).Nodup :=
    (hperm.flatMap_right _).nodup_iff.mpr hwf.provNodup
  have hordKeys : ∀ k ∈ order, k ∈ omKeys c.toSort := fun k hk => hperm.mem_iff.mp hk
  have hDnotVP : ∀ k ∈ D, isVP c k = false := by
    intro k hk
    rcases hdyn k hk with h1 | ⟨h1, _⟩
    · exact hwf.rsNotVP k h1
    · exact h1
  have hDlookup : ∀ k ∈ D, c.containers.lookup k = c.toSort.lookup k :=
    fun k hk => hwf.contOfNonVP k (hDnotVP k hk)
  have hSself : ∀ k ∈ S, providedOf c.toSort k = [k] := by
    intro k hk
    obtain ⟨v, hv'⟩ := lookup_isSome_of_mem_keys (hordKeys k (hS.subset hk))
    obtain ⟨hrs, hk2⟩ := hstat k hk
    rcases hk2 with hvp | ⟨d, hd, _⟩
    · simp only [providedOf, hv']
      exact hwf.vpSelf k v hvp hv'
    · by_cases hvp : isVP c k = true
      · simp only [providedOf, hv']
        exact hwf.vpSelf k v hvp hv'
      · have := hwf.derivedIn k d hd (by simpa using hvp) hrs
        simp [providedOf, this, Comp.provided]
  let av2 := omKeys cache.allPars ++ omKeys vars ++ omKeys c.data ++ ["time"]
  have hSbound : ∀ k ∈ S, k ∈ av2 := by
    intro k hk
    by_cases hkv : k ∈ omKeys c.vars
    · have : k ∈ omKeys vars := by simpa [omKeys, hv] using hkv
      simp [av2, this]
    · have : k ∈ omKeys extra := by
        simp only [omKeys]
        rw [hextraK]
        exact List.mem_filter.mpr ⟨hk, by simpa using hkv⟩
      have : k ∈ omKeys cache.allPars := by
        rw [hallP, mem_keys_omUnion]; exact Or.inr this
      simp [av2, this]
  have havail : ∀ r ∈ c.available, r ∈ av2 := by
    intro r hr
    simp only [Content.available, List.mem_append, List.mem_singleton] at hr
    rcases hr with ((h1 | h1) | h1) | h1
    · have : r ∈ omKeys cache.allPars := by rw [hallP, mem_keys_omUnion]; exact Or.inl h1
      simp [av2, this]
    · have : r ∈ omKeys vars := by
        have hsub : r ∈ omKeys c.vars := by
          simp only [omKeys, plainOf, List.mem_map, List.mem_filterMap] at h1 ⊢
          obtain ⟨kv, ⟨kv0, hkv0, hsome⟩, rfl⟩ := h1
          refine ⟨kv0, hkv0, ?_⟩
          cases hval : kv0.2 <;> simp [hval] at hsome
          rw [← hsome]
        simpa [omKeys, hv] using hsub
      simp [av2, this]
    · simp [av2, h1]
    · simp [av2, h1]
  have hfilter : order.filter (fun k => D.contains k) = D := filter_contains_of_sublist hD hordNd
  have hschedD : SchedT c.containers av2 D := by
    rw [← hfilter]
    apply schedT_filter c.toSort c.containers (fun k => D.contains k) _ _ hschedT av2
    · intro k _ hP
      exact hDlookup k (by simpa using hP)
    · intro k hk hP p hp
      have hkD : k ∉ D := by simpa using hP
      have hkS : k ∈ S := by
        rcases hcov k hk with h1 | h1 | ⟨h1, h2, h3⟩
        · exact h1
        · exact absurd h1 hkD
        · exfalso
          rcases hwf.keysKinds k (hordKeys k hk) with h4 | h4 | ⟨d, h4⟩
          · rw [h1] at h4; cases h4
          · rw [h2] at h4; cases h4
          · rw [h3] at h4; cases h4
      rw [hSself k hkS] at hp
      simp at hp; subst hp
      exact hSbound p hkS
    · exact havail
  have hprovEq : D.flatMap (providedOf c.containers) = D.flatMap (providedOf c.toSort) :=
    flatMap_congr' _ _ D (fun k hk => by simp [providedOf, hDlookup k hk])
  have hDnd : (D.flatMap (providedOf c.containers)).Nodup := by
    rw [hprovEq]
    exact (sublist_flatMap _ hD).nodup hprovNd
  have hDfresh : ∀ p ∈ D.flatMap (providedOf c.containers),
      (baseEnv cache.allPars vars c.data t).lookup p = none := by
    intro p hp
    apply baseEnv_lookup_none
    rw [hprovEq] at hp
    obtain ⟨k, hkD, hpk⟩ := List.mem_flatMap.mp hp
    have hkO : k ∈ order := hD.subset hkD
    have hpAll : p ∈ (omKeys c.toSort).flatMap (providedOf c.toSort) :=
      List.mem_flatMap.mpr ⟨k, hordKeys k hkO, hpk⟩
    have hnotAvail := hwf.provFresh p hpAll
    have hnotS : p ∉ S := by
      intro hpS
      have hpO : p ∈ order := hS.subset hpS
      have : k = p := nodup_flatMap_inj order hprovNd k hkO p hpO p hpk
        (by rw [hSself p hpS]; simp)
      subst this
      exact hdisj hordNd k hpS hkD
    have hnotVP : isVP c p = false := by
      cases hvp : isVP c p with
      | false => rfl
      | true =>
        exfalso
        rcases hwf.iaSorted p hvp with h1 | h1 | h1
        · exact hnotAvail (by simp [Content.available, h1])
        · exact hnotAvail (by simp [Content.available, h1])
        · have hpO : p ∈ order := hperm.mem_iff.mpr h1
          rcases hcov p hpO with h2 | h2 | ⟨_, h2, _⟩
          · exact hnotS h2
          · have := hDnotVP p h2
            rw [hvp] at this; cases this
          · rw [hvp] at h2; cases h2
    simp only [Content.available, List.mem_append, List.mem_singleton, not_or] at hnotAvail
    simp only [List.mem_append, List.mem_singleton, not_or]
    refine ⟨⟨⟨?_, ?_⟩, hnotAvail.1.2⟩, hnotAvail.2⟩
    · rw [hallP, mem_keys_omUnion]
      intro hmem
      rcases hmem with h1 | h1
      · exact hnotAvail.1.1.1 h1
      · simp only [omKeys] at h1
        rw [hextraK] at h1
        exact hnotS (List.mem_filter.mp h1).1
    · intro hmem
      have : p ∈ omKeys c.vars := by simpa [omKeys, hv] using hmem
      have : isVP c p = true := by
        simp [isVP, this]
      rw [hnotVP] at this; cases this
  obtain ⟨env', he, hframe, hholds, hbound⟩ := evalInOrder_consistent c.containers hwf.surOkC D av2
    (baseEnv cache.allPars vars c.data t) hschedD
    (fun r hr => baseEnv_lookup_some _ _ _ t r hr) hDnd hDfresh
  refine ⟨env', ?_, ?_, ?_, ?_, ?_⟩
  · unfold getArgsEnv
    rw [hdynO]
    exact he
  · rw [hdynO]; exact hholds
  · rw [hdynO]; exact hframe
  · rw [hdynO]; exact hDfresh
  · rw [hdynO]; exact hbound

/-- **totality of `_get_args`.**  With distinct names, a cache `_create_cache` returned, and one
    value per variable, the argument table exists for every time. -/
theorem getArgsEnv_total {c : Content} (h : WFnames c) {cache : Cache}
    (hc : createCache c = .ok cache) (vars : List (Name × Rat))
    (hv : vars.map (·.1) = omKeys c.vars) (t : Rat) :
    ∃ env, getArgsEnv c cache vars t = .ok env := by
  obtain ⟨env, he, _⟩ := getArgs_core (WFd_of_names c h) hc vars hv t
  exact ⟨env, he⟩

/-- both stages together: a well-named sortable model yields an argument table for every state
    and time -/
theorem getArgs_total (c : Content) (h : WFnames c) (hs : Sortable c.available c.deps)
    (vars : List (Name × Rat)) (hv : vars.map (·.1) = omKeys c.vars) (t : Rat) :
    ∃ cache env, createCache c = .ok cache ∧ getArgsEnv c cache vars t = .ok env := by
  obtain ⟨cache, hc⟩ := createCache_total c h hs
  obtain ⟨env, he⟩ := getArgsEnv_total h hc vars hv t
  exact ⟨cache, env, hc, he⟩

/-! ### non-vacuity: a model with every kind of component meets the hypotheses -/

/-- initial assignments on a variable and a parameter, a derived parameter, a reaction using it,
    a two-output surrogate, a data set -/
def exTotal : Content :=
  { vars := [("x", .plain 1), ("y", .ia ⟨["p"], fun _ => 0⟩)],
    pars := [("p", .plain 2), ("q", .ia ⟨["p"], fun _ => 0⟩)],
    derived := [("d", ⟨["q"], fun _ => 0⟩)],
    rxns := [("v", ⟨⟨["x", "d"], fun _ => 0⟩, [("x", .dyn ⟨["d"], fun _ => 1⟩)]⟩)],
    surs := [("s", ⟨["x"], ["o1", "o2"], fun _ => [0, 0], []⟩)],
    data := [("dat", 3)] }

theorem exTotal_wf : WFnames exTotal := by
  refine ⟨by decide, ?_⟩
  intro kv hkv vs
  simp [exTotal] at hkv
  subst hkv
  rfl

theorem exTotal_sortable : Sortable exTotal.available exTotal.deps := by
  have hd : exTotal.deps =
      [⟨"y", ["p"], ["y"]⟩, ⟨"q", ["p"], ["q"]⟩, ⟨"d", ["q"], ["d"]⟩,
       ⟨"v", ["x", "d"], ["v"]⟩, ⟨"s", ["x"], ["o1", "o2"]⟩] := by decide
  have ha : exTotal.available = ["p", "x", "dat", "time"] := by decide
  rw [hd, ha]
  refine ⟨fun n => if n = "d" then 1 else if n = "v" then 2 else 0, ?_⟩
  intro d hd r hr
  simp only [List.mem_cons, List.not_mem_nil, or_false] at hd
  rcases hd with rfl | rfl | rfl | rfl | rfl <;> simp at hr
  · subst hr; simp
  · subst hr; simp
  · subst hr; simp
  · rcases hr with rfl | rfl <;> simp
  · subst hr; simp

example : ∃ cache env, createCache exTotal = .ok cache ∧
    getArgsEnv exTotal cache [("x", 5), ("y", 7)] 3 = .ok env :=
  getArgs_total exTotal exTotal_wf exTotal_sortable _ (by decide) 3

end Mxl
