/-
C10 helper lemmas, part 8: the derivative computed from a *reported row* equals the
core's derivative at that row's state, whenever the row reports every name the
stoichiometry reads (congruence of `rhsFromArgs` in its environment).
-/
import MxlVerif.Lemmas.C10Prod
namespace Mxl.C10

/-- every name `rhsFromArgs` looks up in its environment: the fluxes, and the arguments of
    the computed coefficients -/
def rhsNames (cache : Cache) : List Name :=
  cache.stoich.flatMap (fun kv => omKeys kv.2) ++
  cache.dynStoich.flatMap (fun kv => kv.2.flatMap fun rf => rf.1 :: rf.2.args)

theorem lookupArgs_congr {e e' : Env} {args : List Name}
    (h : ∀ a ∈ args, e.get a = e'.get a) : lookupArgs e args = lookupArgs e' args := by
  unfold lookupArgs
  induction args with
  | nil => rfl
  | cons a as ih =>
    simp only [List.mapM_cons]
    rw [h a (by simp), ih (fun x hx => h x (by simp [hx]))]

theorem calc_congr {e e' : Env} {f : Fn} (h : ∀ a ∈ f.args, e.get a = e'.get a) :
    f.calc e = f.calc e' := by
  unfold Fn.calc
  rw [lookupArgs_congr h]

theorem accStatic_congr {e e' : Env} (k : Name) :
    ∀ (st : List (Name × Rat)) (d : List (Name × Rat)),
      (∀ x ∈ st, e.get x.1 = e'.get x.1) → accStatic e k st d = accStatic e' k st d := by
  intro st
  induction st with
  | nil => intro d _; rfl
  | cons x xs ih =>
    intro d h
    obtain ⟨flux, n⟩ := x
    simp only [accStatic]
    rw [h (flux, n) (by simp)]
    simp only [bind, Except.bind]
    split
    · rfl
    · split
      · rfl
      · exact ih _ (fun y hy => h y (by simp [hy]))

theorem accStaticAll_congr {e e' : Env} :
    ∀ (st : List (Name × List (Name × Rat))) (d : List (Name × Rat)),
      (∀ kv ∈ st, ∀ x ∈ kv.2, e.get x.1 = e'.get x.1) →
      accStaticAll e st d = accStaticAll e' st d := by
  intro st
  induction st with
  | nil => intro d _; rfl
  | cons kv rest ih =>
    intro d h
    obtain ⟨k, m⟩ := kv
    simp only [accStaticAll]
    rw [accStatic_congr k m d (h (k, m) (by simp))]
    simp only [bind, Except.bind]
    split
    · rfl
    · exact ih _ (fun y hy => h y (by simp [hy]))

theorem accDyn_congr {e e' : Env} (k : Name) :
    ∀ (st : List (Name × Fn)) (d : List (Name × Rat)),
      (∀ x ∈ st, e.get x.1 = e'.get x.1 ∧ ∀ a ∈ x.2.args, e.get a = e'.get a) →
      accDyn e k st d = accDyn e' k st d := by
  intro st
  induction st with
  | nil => intro d _; rfl
  | cons x xs ih =>
    intro d h
    obtain ⟨flux, dv⟩ := x
    simp only [accDyn]
    rw [calc_congr (h (flux, dv) (by simp)).2, (h (flux, dv) (by simp)).1]
    simp only [bind, Except.bind]
    split
    · rfl
    · split
      · rfl
      · split
        · rfl
        · exact ih _ (fun y hy => h y (by simp [hy]))

theorem accDynAll_congr {e e' : Env} :
    ∀ (st : List (Name × List (Name × Fn))) (d : List (Name × Rat)),
      (∀ kv ∈ st, ∀ x ∈ kv.2, e.get x.1 = e'.get x.1 ∧ ∀ a ∈ x.2.args, e.get a = e'.get a) →
      accDynAll e st d = accDynAll e' st d := by
  intro st
  induction st with
  | nil => intro d _; rfl
  | cons kv rest ih =>
    intro d h
    obtain ⟨k, m⟩ := kv
    simp only [accDynAll]
    rw [accDyn_congr k m d (h (k, m) (by simp))]
    simp only [bind, Except.bind]
    split
    · rfl
    · exact ih _ (fun y hy => h y (by simp [hy]))

/-- `rhsFromArgs` reads its environment only at `rhsNames` -/
theorem rhsFromArgs_congr {cache : Cache} {vn : List Name} {e e' : Env}
    (h : ∀ k ∈ rhsNames cache, e.get k = e'.get k) :
    rhsFromArgs cache vn e = rhsFromArgs cache vn e' := by
  unfold rhsFromArgs
  have hs : ∀ kv ∈ cache.stoich, ∀ x ∈ kv.2, e.get x.1 = e'.get x.1 := by
    intro kv hkv x hx
    apply h
    simp only [rhsNames, List.mem_append, List.mem_flatMap, omKeys, List.mem_map]
    exact .inl ⟨kv, hkv, x, hx, rfl⟩
  have hd : ∀ kv ∈ cache.dynStoich, ∀ x ∈ kv.2,
      e.get x.1 = e'.get x.1 ∧ ∀ a ∈ x.2.args, e.get a = e'.get a := by
    intro kv hkv x hx
    constructor
    · apply h
      simp only [rhsNames, List.mem_append, List.mem_flatMap]
      exact .inr ⟨kv, hkv, x, hx, by simp⟩
    · intro a ha
      apply h
      simp only [rhsNames, List.mem_append, List.mem_flatMap]
      exact .inr ⟨kv, hkv, x, hx, by simp [ha]⟩
  simp only [bind, Except.bind]
  rw [accStaticAll_congr _ _ hs]
  split
  · rfl
  · exact accDynAll_congr _ _ hd

end Mxl.C10
