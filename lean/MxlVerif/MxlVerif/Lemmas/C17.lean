/- helper lemmas for Props/C17.lean -/
import MxlVerif.Lemmas.C08
import MxlVerif.Model.C17Doc
namespace Mxl.C17
open Mxl.C08

theorem evalMathList_congr (I : Interp) (e1 e2 : VEnv) :
    ∀ cs, (∀ m ∈ cs, evalMath I e1 m = evalMath I e2 m) → evalMathList I e1 cs = evalMathList I e2 cs
  | [], _ => rfl
  | m :: ms, h => by
    simp only [evalMathList, h m List.mem_cons_self,
      evalMathList_congr I e1 e2 ms (fun x hx => h x (List.mem_cons_of_mem _ hx))]

theorem evalPieces_congr (I : Interp) (e1 e2 : VEnv) :
    ∀ cs, (∀ m ∈ cs, evalMath I e1 m = evalMath I e2 m) → evalPieces I e1 cs = evalPieces I e2 cs
  | [], _ => rfl
  | [o], h => by simp [evalPieces, h o List.mem_cons_self]
  | v :: c :: rest, h => by
    have hv := h v List.mem_cons_self
    have hc := h c (List.mem_cons_of_mem _ List.mem_cons_self)
    have hr := evalPieces_congr I e1 e2 rest
      (fun x hx => h x (List.mem_cons_of_mem _ (List.mem_cons_of_mem _ hx)))
    simp only [evalPieces, hv, hc, hr]

theorem evalAnd_congr (I : Interp) (e1 e2 : VEnv) :
    ∀ cs, (∀ m ∈ cs, evalMath I e1 m = evalMath I e2 m) → evalAnd I e1 cs = evalAnd I e2 cs
  | [], _ => rfl
  | c :: rest, h => by
    simp only [evalAnd, h c List.mem_cons_self,
      evalAnd_congr I e1 e2 rest (fun x hx => h x (List.mem_cons_of_mem _ hx))]

theorem evalOr_congr (I : Interp) (e1 e2 : VEnv) :
    ∀ cs, (∀ m ∈ cs, evalMath I e1 m = evalMath I e2 m) → evalOr I e1 cs = evalOr I e2 cs
  | [], _ => rfl
  | c :: rest, h => by
    simp only [evalOr, h c List.mem_cons_self,
      evalOr_congr I e1 e2 rest (fun x hx => h x (List.mem_cons_of_mem _ hx))]

/-- the value of a MathML tree depends on the environment only through the identifiers it mentions -/
theorem evalMath_congr (I : Interp) (e1 e2 : VEnv) :
    ∀ m, (∀ n ∈ mathNames m, e1 n = e2 n) → evalMath I e1 m = evalMath I e2 m := by
  refine (mapMath.mutual_induct
    (motive_1 := fun m => (∀ n ∈ mathNames m, e1 n = e2 n) → evalMath I e1 m = evalMath I e2 m)
    (motive_2 := fun cs => (∀ n ∈ mathNamesList cs, e1 n = e2 n) →
      ∀ m ∈ cs, evalMath I e1 m = evalMath I e2 m)
    ?ci ?app ?other ?nil ?cons).1
  case ci => intro n h; simpa [evalMath] using h n (by simp [mathNames])
  case app =>
    intro t cs ih h
    have hel := ih (by simpa [mathNames] using h)
    by_cases hl : isLazy t = true
    · cases t <;> simp [isLazy] at hl
      · simpa [evalMath] using evalPieces_congr I e1 e2 cs hel
      · simpa [evalMath] using evalAnd_congr I e1 e2 cs hel
      · simpa [evalMath] using evalOr_congr I e1 e2 cs hel
    · have hl' : isLazy t = false := by simpa using hl
      rw [evalMath_strict I e1 t cs hl', evalMath_strict I e2 t cs hl', evalMathList_congr I e1 e2 cs hel]
  case other =>
    intro m h1 h2 _
    cases m with
    | ci n => exact absurd rfl (h1 n)
    | apply t cs => exact absurd rfl (h2 t cs)
    | cn q => simp [evalMath]
    | cnInf => simp [evalMath]
    | cnNan => simp [evalMath]
    | csym s => cases s <;> simp [evalMath]
  case nil => intro _ m hm; cases hm
  case cons =>
    intro m ms ihm ihms h x hx
    have h1 : ∀ n ∈ mathNames m, e1 n = e2 n := fun n hn => h n (by simp [mathNamesList, hn])
    have h2 : ∀ n ∈ mathNamesList ms, e1 n = e2 n := fun n hn => h n (by simp [mathNamesList, hn])
    rcases List.mem_cons.mp hx with rfl | hx'
    · exact ihm h1
    · exact ihms h2 x hx'

theorem lookup_zip_self {l : List String} {n : String} (h : n ∈ l) : (l.zip l).lookup n = some n := by
  induction l with
  | nil => cases h
  | cons a l ih =>
    simp only [List.zip_cons_cons, List.lookup]
    by_cases hna : n = a
    · subst hna; simp
    · have : (n == a) = false := by simpa using hna
      simp only [this]
      exact ih (by rcases List.mem_cons.mp h with h | h; exact absurd h hna; exact h)

end Mxl.C17
