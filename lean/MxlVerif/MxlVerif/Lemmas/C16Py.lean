/-
Lemmas for the linear mapper's initial state and its evaluation at zero pools (core Lean only).
-/
import MxlVerif.Model.C16Py
import MxlVerif.Lemmas.C16Model
namespace Mxl.C16
open Mxl.C05

theorem lookup_setSlot (m : List (Slot × Rat)) (k s : Slot) (v : Rat) :
    (setSlot m k v).lookup s = if s = k then some v else m.lookup s := by
  induction m with
  | nil =>
    by_cases e : s = k
    · subst e; simp [setSlot, List.lookup]
    · have : (s == k) = false := by simpa using e
      simp [setSlot, List.lookup, this, e]
  | cons a m ih =>
    obtain ⟨k', v'⟩ := a
    simp only [setSlot]
    by_cases hk : k' = k
    · subst hk
      simp only [if_true, List.lookup]
      by_cases e : s = k'
      · subst e; simp
      · have : (s == k') = false := by simpa using e
        simp [this, e]
    · simp only [hk, if_false, List.lookup]
      by_cases e : s = k'
      · subst e
        have : s ≠ k := hk
        simp [this]
      · have : (s == k') = false := by simpa using e
        simp only [this, ih]

theorem keys_setSlot (m : List (Slot × Rat)) (k : Slot) (v : Rat) :
    (setSlot m k v).map (·.1) = if k ∈ m.map (·.1) then m.map (·.1) else m.map (·.1) ++ [k] := by
  induction m with
  | nil => simp [setSlot]
  | cons a m ih =>
    obtain ⟨k', v'⟩ := a
    simp only [setSlot]
    by_cases hk : k' = k
    · subst hk; simp
    · simp only [hk, if_false, List.map_cons, ih, List.mem_cons]
      have : ¬ k = k' := fun e => hk e.symm
      simp only [this, false_or]
      split <;> simp

/-- the inner loop `for pos in label_positions: variables[f"{c}__{pos}"] = v` -/
theorem lookup_inner (c : Name) (v : Rat) (ps : List Nat) (vs : List (Slot × Rat)) (s : Slot) :
    (ps.foldl (fun vs pos => setSlot vs (Slot.pos c pos) v) vs).lookup s
      = if s ∈ ps.map (Slot.pos c) then some v else vs.lookup s := by
  induction ps generalizing vs with
  | nil => simp
  | cons p ps ih =>
    simp only [List.foldl_cons, ih, lookup_setSlot, List.map_cons, List.mem_cons]
    by_cases h1 : s ∈ ps.map (Slot.pos c)
    · simp [h1]
    · by_cases h2 : s = Slot.pos c p
      · simp [h2]
      · simp [h1, h2]

/-- one step of reading `initial_labels` for slot `s`: an entry whose positions name `s` sets it to
    `1/len(positions)`, any other entry leaves it alone -/
def reqStep (s : Slot) (acc : Option Rat) (kp : Name × List Nat) : Option Rat :=
  if s ∈ kp.2.map (Slot.pos kp.1) then some (1 / (kp.2.length : Rat)) else acc

theorem lookup_outer (il : List (Name × List Nat)) (vs : List (Slot × Rat)) (s : Slot) :
    (il.foldl (fun vs kp =>
        kp.2.foldl (fun vs pos => setSlot vs (Slot.pos kp.1 pos) (1 / (kp.2.length : Rat))) vs) vs).lookup s
      = il.foldl (reqStep s) (vs.lookup s) := by
  induction il generalizing vs with
  | nil => rfl
  | cons kp il ih =>
    simp only [List.foldl_cons]
    rw [ih, lookup_inner]
    rfl

theorem lookup_zeros (l : List Slot) (s : Slot) :
    (l.map fun s => (s, (0 : Rat))).lookup s = if s ∈ l then some 0 else none := by
  induction l with
  | nil => rfl
  | cons a l ih =>
    simp only [List.map_cons, List.lookup, List.mem_cons]
    by_cases e : s = a
    · subst e; simp
    · have : (s == a) = false := by simpa using e
      simp only [this, ih, e, false_or]

/-- the initial state of the linear label model, slot by slot -/
theorem linInitVars_lookup (lv : List (Name × Nat)) (il : List (Name × List Nat)) (s : Slot) :
    (linInitVars lv il).lookup s
      = il.foldl (reqStep s) (if s ∈ (isosOf lv).flatMap (·.2) then some 0 else none) := by
  unfold linInitVars
  rw [lookup_outer, lookup_zeros]

theorem foldl_req_none (il : List (Name × List Nat)) (s : Slot) (acc : Option Rat)
    (h : ∀ kp ∈ il, s ∉ kp.2.map (Slot.pos kp.1)) : il.foldl (reqStep s) acc = acc := by
  induction il generalizing acc with
  | nil => rfl
  | cons kp il ih =>
    simp only [List.foldl_cons, reqStep, h kp List.mem_cons_self, if_false]
    exact ih acc (fun kp' hk => h kp' (List.mem_cons_of_mem _ hk))

theorem foldl_req_last (l1 l2 : List (Name × List Nat)) (kp : Name × List Nat) (s : Slot)
    (acc : Option Rat) (hs : s ∈ kp.2.map (Slot.pos kp.1))
    (h2 : ∀ kp' ∈ l2, s ∉ kp'.2.map (Slot.pos kp'.1)) :
    (l1 ++ kp :: l2).foldl (reqStep s) acc = some (1 / (kp.2.length : Rat)) := by
  rw [List.foldl_append, List.foldl_cons]
  simp only [reqStep, hs, if_true]
  exact foldl_req_none l2 s _ h2

/-- **dict-like `initial_labels`** (each compound once): a requested position holds `1/len`, … -/
theorem linInitVars_requested (lv : List (Name × Nat)) (il : List (Name × List Nat))
    (hnd : (il.map (·.1)).Nodup) (k : Name) (ps : List Nat) (hk : (k, ps) ∈ il) (p : Nat) (hp : p ∈ ps) :
    (linInitVars lv il).lookup (Slot.pos k p) = some (1 / (ps.length : Rat)) := by
  rw [linInitVars_lookup]
  obtain ⟨l1, l2, rfl⟩ := List.append_of_mem hk
  apply foldl_req_last l1 l2 (k, ps)
  · exact List.mem_map.mpr ⟨p, hp, rfl⟩
  · intro kp' hkp' hmem
    obtain ⟨q, _, hq⟩ := List.mem_map.mp hmem
    simp only [Slot.pos.injEq] at hq
    have hkey : kp'.1 = k := hq.1
    simp only [List.map_append, List.map_cons, List.nodup_append, List.nodup_cons] at hnd
    have : kp'.1 ∈ l2.map (·.1) := List.mem_map_of_mem (f := (·.1)) hkp'
    exact hnd.2.1.1 (hkey ▸ this)

/-- … and a slot no entry names keeps its start value: 0 for a position of a listed compound, no
    variable at all otherwise -/
theorem linInitVars_unrequested (lv : List (Name × Nat)) (il : List (Name × List Nat)) (s : Slot)
    (h : ∀ kp ∈ il, s ∉ kp.2.map (Slot.pos kp.1)) :
    (linInitVars lv il).lookup s = if s ∈ (isosOf lv).flatMap (·.2) then some 0 else none := by
  rw [linInitVars_lookup, foldl_req_none il s _ h]

/-! ### evaluation at a zero pool -/

theorem linRhsChecked_none_iff (rxs : List LinRxn) (E : Slot → Rat) (v C : Name → Rat) :
    linRhsChecked rxs E v C = none ↔ ∃ c ∈ poolsOf rxs, C c = 0 := by
  unfold linRhsChecked
  constructor
  · intro h
    split at h
    · rename_i ha
      obtain ⟨c, hc, h0⟩ := List.any_eq_true.mp ha
      exact ⟨c, hc, by simpa using h0⟩
    · cases h
  · rintro ⟨c, hc, h0⟩
    have : (poolsOf rxs).any (fun c => C c == 0) = true :=
      List.any_eq_true.mpr ⟨c, hc, by simpa using h0⟩
    simp [this]

theorem linRhsChecked_some (rxs : List LinRxn) (E : Slot → Rat) (v C : Name → Rat) (f : Slot → Rat)
    (h : linRhsChecked rxs E v C = some f) : f = linRhs rxs E v C ∧ ∀ c ∈ poolsOf rxs, C c ≠ 0 := by
  unfold linRhsChecked at h
  split at h
  · cases h
  · rename_i hn
    simp only [Option.some.injEq] at h
    refine ⟨h.symm, ?_⟩
    intro c hc h0
    exact hn (List.any_eq_true.mpr ⟨c, hc, by simpa using h0⟩)

end Mxl.C16
