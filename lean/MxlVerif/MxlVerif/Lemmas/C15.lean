import MxlVerif.Model.C15
/-! helper lemmas for Props/C15 (core Lean only) -/
namespace Mxl.C15
variable {σ : Type}

theorem iter_succ' (f : σ → σ) (n : Nat) (x : σ) : iter f (n + 1) x = f (iter f n x) := by
  induction n generalizing x with
  | zero => rfl
  | succ n ih => simp only [iter] at ih ⊢; exact ih (f x)

/-- with a copying, checking loop, success at `n` means: the first small consecutive difference is the `n`-th, and
the solver was successful at every step up to there -/
theorem ssLoop_copy_steady (step : σ → σ) (ok : σ → Bool) (small : σ → σ → Bool) :
    ∀ (fuel i : Nat) (y : σ) (n : Nat) (r : σ),
      ssLoop true true step ok small fuel i (.val y) y = .steady n r →
      ∃ m, m < fuel ∧ n = i + m + 1 ∧ r = iter step (m + 1) y ∧
        small (iter step (m + 1) y) (iter step m y) = true ∧
        (∀ j, j < m → small (iter step (j + 1) y) (iter step j y) = false) ∧
        (∀ j, j ≤ m → ok (iter step (j + 1) y) = true) := by
  intro fuel
  induction fuel with
  | zero => intro i y n r h; simp [ssLoop] at h
  | succ fuel ih =>
    intro i y n r h
    simp only [ssLoop, Bool.true_and] at h
    by_cases hk : ok (step y) = true
    · simp only [hk, Bool.not_true, Bool.false_eq_true, if_false] at h
      by_cases hs : small (step y) y = true
      · simp only [hs, if_true] at h
        injection h with h1 h2
        refine ⟨0, Nat.succ_pos _, by omega, by simp [iter, h2], by simpa [iter] using hs, by intro j hj; omega, ?_⟩
        intro j hj
        have : j = 0 := by omega
        subst this
        simpa [iter] using hk
      · simp only [hs] at h
        obtain ⟨m, hm, hn, hr, hsm, hall, hok⟩ := ih (i + 1) (step y) n r h
        refine ⟨m + 1, by omega, by omega, by simpa [iter] using hr, by simpa [iter] using hsm, ?_, ?_⟩
        · intro j hj
          cases j with
          | zero => simpa [iter] using hs
          | succ j => simpa [iter] using hall j (by omega)
        · intro j hj
          cases j with
          | zero => simpa [iter] using hk
          | succ j => simpa [iter] using hok j (by omega)
    · have hk' : ok (step y) = false := by simpa using hk
      simp [hk'] at h

theorem ssLoop_copy_none (step : σ → σ) (ok : σ → Bool) (small : σ → σ → Bool) :
    ∀ (fuel i : Nat) (y : σ),
      ssLoop true true step ok small fuel i (.val y) y = .noSteadyState ↔
      ∀ m, m < fuel → ok (iter step (m + 1) y) = true ∧ small (iter step (m + 1) y) (iter step m y) = false := by
  intro fuel
  induction fuel with
  | zero => intro i y; simp [ssLoop]
  | succ fuel ih =>
    intro i y
    simp only [ssLoop, Bool.true_and]
    by_cases hk : ok (step y) = true
    · simp only [hk, Bool.not_true, Bool.false_eq_true, if_false]
      by_cases hs : small (step y) y = true
      · simp only [hs, if_true]
        constructor
        · intro h; cases h
        · intro h; have := (h 0 (Nat.succ_pos _)).2; simp [iter, hs] at this
      · have hs' : small (step y) y = false := by simpa using hs
        simp only [hs', Bool.false_eq_true, if_false, if_true]
        rw [ih (i + 1) (step y)]
        constructor
        · intro h m hm
          cases m with
          | zero => exact ⟨by simpa [iter] using hk, by simpa [iter] using hs⟩
          | succ m => simpa [iter] using h m (by omega)
        · intro h m hm
          simpa [iter] using h (m + 1) (by omega)
    · have hk' : ok (step y) = false := by simpa using hk
      simp only [hk', Bool.not_false, if_true]
      constructor
      · intro h; cases h
      · intro h; have := (h 0 (Nat.succ_pos _)).1; simp [iter, hk'] at this

/-- the loop stops with `IntegrationFailure` exactly when the solver gives up at some step within the budget before
any consecutive difference was small -/
theorem ssLoop_copy_failure (step : σ → σ) (ok : σ → Bool) (small : σ → σ → Bool) :
    ∀ (fuel i : Nat) (y : σ),
      ssLoop true true step ok small fuel i (.val y) y = .integrationFailure ↔
      ∃ m, m < fuel ∧ ok (iter step (m + 1) y) = false ∧
        ∀ j, j < m → ok (iter step (j + 1) y) = true ∧ small (iter step (j + 1) y) (iter step j y) = false := by
  intro fuel
  induction fuel with
  | zero => intro i y; simp [ssLoop]
  | succ fuel ih =>
    intro i y
    simp only [ssLoop, Bool.true_and]
    by_cases hk : ok (step y) = true
    · simp only [hk, Bool.not_true, Bool.false_eq_true, if_false]
      by_cases hs : small (step y) y = true
      · simp only [hs, if_true]
        constructor
        · intro h; cases h
        · rintro ⟨m, hm, hko, hall⟩
          cases m with
          | zero => simp [iter, hk] at hko
          | succ m => have := (hall 0 (Nat.succ_pos _)).2; simp [iter, hs] at this
      · have hs' : small (step y) y = false := by simpa using hs
        simp only [hs', Bool.false_eq_true, if_false, if_true]
        rw [ih (i + 1) (step y)]
        constructor
        · rintro ⟨m, hm, hko, hall⟩
          refine ⟨m + 1, by omega, by simpa [iter] using hko, ?_⟩
          intro j hj
          cases j with
          | zero => exact ⟨by simpa [iter] using hk, by simpa [iter] using hs'⟩
          | succ j => simpa [iter] using hall j (by omega)
        · rintro ⟨m, hm, hko, hall⟩
          cases m with
          | zero => simp [iter, hk] at hko
          | succ m =>
            refine ⟨m, by omega, by simpa [iter] using hko, ?_⟩
            intro j hj
            simpa [iter] using hall (j + 1) (by omega)
    · have hk' : ok (step y) = false := by simpa using hk
      simp only [hk', Bool.not_false, if_true]
      constructor
      · intro _
        exact ⟨0, Nat.succ_pos _, by simpa [iter] using hk', by intro j hj; omega⟩
      · intro _; trivial

theorem vsub_add_self : ∀ (y d : List Rat), y.length = d.length →
    vsub (List.zipWith (· + ·) y d) y = d := by
  intro y
  induction y with
  | nil => intro d h; cases d <;> simp_all [vsub]
  | cons a y ih =>
    intro d h
    cases d with
    | nil => simp at h
    | cons b d =>
      simp only [List.length_cons, Nat.add_right_cancel_iff] at h
      have := ih d h
      simp only [vsub, List.zipWith_cons_cons] at this ⊢
      rw [this]
      congr 1
      grind

theorem iter_add_length (d : List Rat) : ∀ (k : Nat) (y : List Rat), y.length = d.length →
    (iter (fun y => List.zipWith (· + ·) y d) k y).length = d.length := by
  intro k
  induction k with
  | zero => intro y hy; exact hy
  | succ k ih => intro y hy; simp only [iter]; apply ih; simp [hy]

end Mxl.C15
