/-
Time-course forms are the pointwise forms, row by row.
-/
import MxlVerif.Lemmas.ArgsSel
namespace Mxl

theorem mapM_congr_fn {α β} (f g : α → Except Err β) (l : List α) (h : ∀ x ∈ l, f x = g x) :
    l.mapM f = l.mapM g := by
  induction l with
  | nil => rfl
  | cons x xs ih =>
    rw [List.mapM_cons, List.mapM_cons, h x (by simp), ih (fun y hy => h y (List.mem_cons_of_mem _ hy))]

/-- the time-course form is the pointwise form row by row -/
theorem getArgsSelTC_pointwise (c : Content) (cache : Cache) (hc : createCache c = .ok cache)
    (rows : List (Rat × List (Name × Rat))) (f : ArgFlags) :
    getArgsSelTC c rows f =
      rows.mapM (fun r => getArgsSel c (some r.2) r.1 { f with time := false }) := by
  unfold getArgsSelTC
  simp only [hc, bind, Except.bind]
  apply mapM_congr_fn
  intro r _
  obtain ⟨t, vars⟩ := r
  unfold getArgsSel
  simp only [hc, bind, Except.bind, resolveVars, Option.getD, readoutPass]

theorem getRhsQ_some (c : Content) (vars : List (Name × Rat)) (t : Rat) :
    getRhsQ c (some vars) t = getRhs c vars t := rfl

end Mxl
