/-
C14: a row of the protocol table is the step's own dict in another order, and `update_parameters` does not depend
on the order of a dict with distinct names: applying row `i` = applying step `i`'s values.
-/
import MxlVerif.Lemmas.C14Refine
namespace Mxl.C14
open Mxl.C04

theorem parsSet_comm (p : Pars) (k k' : Name) (v v' : Rat) (h : k ≠ k') :
    (parsSet p k v).bind (fun q => parsSet q k' v') = (parsSet p k' v').bind (fun q => parsSet q k v) := by
  induction p with
  | nil => simp [parsSet]
  | cons a rest ih =>
    obtain ⟨a, x⟩ := a
    by_cases h1 : a = k
    · subst h1
      have h2 : (a == k') = false := by simpa using h
      simp only [parsSet, beq_self_eq_true, if_true, h2, Bool.false_eq_true, if_false, Option.bind_some]
      cases parsSet rest k' v' <;> simp [parsSet]
    · have e1 : (a == k) = false := by simpa using h1
      by_cases h2 : a = k'
      · subst h2
        simp only [parsSet, beq_self_eq_true, if_true, e1, Bool.false_eq_true, if_false, Option.bind_some]
        cases parsSet rest k v <;> simp [parsSet, e1]
      · have e2 : (a == k') = false := by simpa using h2
        simp only [parsSet, e1, e2, Bool.false_eq_true, if_false]
        cases hA : parsSet rest k v <;> cases hB : parsSet rest k' v' <;>
          simp [hA, hB, parsSet, e1, e2] at ih ⊢
        · rw [← ih]
        · rw [ih]
        · rw [ih]

theorem parsUpdateGo_cons (p : Pars) (k : Name) (v : Rat) (rest : Upd) :
    parsUpdateGo p ((k, v) :: rest) = (parsSet p k v).bind (fun q => parsUpdateGo q rest) := by
  simp only [parsUpdateGo]
  cases parsSet p k v <;> rfl

theorem parsUpdateGo_perm {kvs kvs' : Upd} (hperm : kvs.Perm kvs') (hnd : (kvs.map (·.1)).Nodup) (p : Pars) :
    parsUpdateGo p kvs = parsUpdateGo p kvs' := by
  induction hperm generalizing p with
  | nil => rfl
  | cons x _ ih =>
    obtain ⟨k, v⟩ := x
    simp only [List.map_cons, List.nodup_cons] at hnd
    rw [parsUpdateGo_cons, parsUpdateGo_cons]
    cases parsSet p k v with
    | none => rfl
    | some q => exact ih hnd.2 q
  | swap x y l =>
    obtain ⟨k, v⟩ := x
    obtain ⟨k', v'⟩ := y
    simp only [List.map_cons, List.nodup_cons, List.mem_cons, not_or] at hnd
    have hne : k' ≠ k := hnd.1.1
    simp only [parsUpdateGo_cons]
    have hc := parsSet_comm p k' k v' v hne
    -- both sides are `(set k' ; set k) >>= go` resp. `(set k ; set k') >>= go`
    have e1 : (parsSet p k' v').bind (fun q => (parsSet q k v).bind (fun q => parsUpdateGo q l))
        = ((parsSet p k' v').bind (fun q => parsSet q k v)).bind (fun q => parsUpdateGo q l) := by
      cases parsSet p k' v' <;> rfl
    have e2 : (parsSet p k v).bind (fun q => (parsSet q k' v').bind (fun q => parsUpdateGo q l))
        = ((parsSet p k v).bind (fun q => parsSet q k' v')).bind (fun q => parsUpdateGo q l) := by
      cases parsSet p k v <;> rfl
    rw [e1, e2, hc]
  | trans h1 _ ih1 ih2 =>
    rw [ih1 hnd p]
    exact ih2 ((h1.map (·.1)).nodup_iff.mp hnd) p

theorem mem_rowDict (cols : List Name) (p : Upd) (k : Name) (v : Rat) :
    (k, v) ∈ rowDict cols p ↔ k ∈ cols ∧ p.lookup k = some v := by
  unfold rowDict
  simp only [List.mem_filterMap, Option.map_eq_some_iff, Prod.mk.injEq]
  constructor
  · rintro ⟨c, hc, w, hw, rfl, rfl⟩; exact ⟨hc, hw⟩
  · rintro ⟨hc, hw⟩; exact ⟨k, hc, v, hw, rfl, rfl⟩

theorem rowDict_nodup (cols : List Name) (p : Upd) (hc : cols.Nodup) : (rowDict cols p).Nodup := by
  induction cols with
  | nil => simp [rowDict]
  | cons c rest ih =>
    simp only [List.nodup_cons] at hc
    have hrest := ih hc.2
    unfold rowDict at hrest ⊢
    simp only [List.filterMap_cons]
    cases hl : p.lookup c with
    | none => simpa using hrest
    | some v =>
      simp only [Option.map_some, List.nodup_cons]
      refine ⟨?_, hrest⟩
      intro hmem
      have := (mem_rowDict rest p c v).mp (by unfold rowDict; exact hmem)
      exact hc.1 this.1

theorem lookup_iff_mem (p : Upd) (hp : (p.map (·.1)).Nodup) (k : Name) (v : Rat) :
    p.lookup k = some v ↔ (k, v) ∈ p := by
  induction p with
  | nil => simp
  | cons kv rest ih =>
    obtain ⟨k', v'⟩ := kv
    simp only [List.map_cons, List.nodup_cons] at hp
    by_cases h : k = k'
    · subst h
      simp only [List.lookup_cons_self, Option.some.injEq, List.mem_cons, Prod.mk.injEq, true_and]
      constructor
      · intro e; exact Or.inl e.symm
      · rintro (e | e)
        · exact e.symm
        · exact absurd (List.mem_map_of_mem (f := (·.1)) e) hp.1
    · have hb : (k == k') = false := by simpa using h
      simp only [List.lookup_cons, hb, List.mem_cons, Prod.mk.injEq, h, false_and, false_or]
      exact ih hp.2

theorem nodup_of_map_fst (p : Upd) (hp : (p.map (·.1)).Nodup) : p.Nodup := by
  unfold List.Nodup at hp ⊢
  exact (List.pairwise_map.mp hp).imp (fun h e => h (congrArg _ e))

/-- a row of the table is the step's dict in another order (when the step's names are distinct) -/
theorem rowDict_perm (cols : List Name) (p : Upd) (hp : (p.map (·.1)).Nodup) (hc : cols.Nodup)
    (hsub : ∀ k ∈ p.map (·.1), k ∈ cols) : (rowDict cols p).Perm p := by
  rw [List.perm_ext_iff_of_nodup (rowDict_nodup cols p hc) (nodup_of_map_fst p hp)]
  rintro ⟨k, v⟩
  rw [mem_rowDict, lookup_iff_mem p hp]
  constructor
  · exact fun h => h.2
  · intro h
    exact ⟨hsub k (List.mem_map_of_mem (f := (·.1)) h), h⟩

/-- applying a row of the table = applying the step's own dict -/
theorem parsUpdate_rowDict (pars : Pars) (cols : List Name) (p : Upd) (hp : (p.map (·.1)).Nodup)
    (hc : cols.Nodup) (hsub : ∀ k ∈ p.map (·.1), k ∈ cols) :
    parsUpdate pars (rowDict cols p) = parsUpdate pars p := by
  have hperm := rowDict_perm cols p hp hc hsub
  have hnd : ((rowDict cols p).map (·.1)).Nodup := (hperm.map (·.1)).nodup_iff.mpr hp
  unfold parsUpdate
  rw [parsUpdateGo_perm hperm hnd pars]

theorem columns_nodup (acc : List Name) (ps : List Upd) (h : acc.Nodup)
    (hps : ∀ p ∈ ps, (p.map (·.1)).Nodup) : (columns acc ps).Nodup := by
  induction ps generalizing acc with
  | nil => exact h
  | cons p rest ih =>
    simp only [columns]
    apply ih _ _ (fun q hq => hps q (List.mem_cons_of_mem _ hq))
    rw [List.nodup_append]
    refine ⟨h, (hps p (by simp)).sublist List.filter_sublist, ?_⟩
    intro a ha b hb hab
    subst hab
    simp only [List.mem_filter] at hb
    simp at hb
    exact hb.2 ha

/-- every step names distinct parameters (always true of Python dicts; a condition on the wire format only) -/
def distinctNames (steps : List PStep) : Bool := steps.all fun s => nodupNames (s.2.map (·.1))

/-- applying row `i` of the table is applying step `i`'s own dict: on every parameter state, `update_parameters(row)`
    and `update_parameters(step's dict)` give the same parameters and the same outcome -/
theorem parsUpdate_normSteps (steps : List PStep) (hd : distinctNames steps = true) (pars : Pars) :
    ∀ s ∈ steps, parsUpdate pars (rowDict (columns [] (steps.map (·.2))) s.2) = parsUpdate pars s.2 := by
  intro s hs
  simp only [distinctNames, List.all_eq_true, nodupNames_iff] at hd
  apply parsUpdate_rowDict pars _ s.2 (hd s hs)
  · apply columns_nodup [] _ (by simp)
    intro q hq
    obtain ⟨s', hs', rfl⟩ := List.mem_map.mp hq
    exact hd s' hs'
  · intro k hk
    have := columns_complete steps s hs k hk
    simpa using this

/-- the explicit calls with the table's rows are the explicit calls with the steps' own dicts -/
theorem runStop_expand_rows {σ} (S : Sys σ) (n : Nat) (cols : List Name) :
    ∀ (l : List PStep), (∀ pars, ∀ s ∈ l, parsUpdate pars (rowDict cols s.2) = parsUpdate pars s.2) →
    ∀ (T : Rat) (s0 : Sim σ),
      runStop S s0 (expandProtocol T n (l.map fun s => (s.1, rowDict cols s.2))) = runStop S s0 (expandProtocol T n l)
  | [], _, _, _ => rfl
  | (d, p) :: rest, h, T, s0 => by
    have hp : updPars s0 (rowDict cols p) = updPars s0 p := by
      unfold updPars; rw [h s0.pars (d, p) (by simp)]
    simp only [List.map_cons, expandProtocol, runStop, step, hp]
    rcases updPars s0 p with ⟨s1, _ | e⟩
    · simp only
      rcases simulate S s1 (T + d) (some n) with ⟨s2, _ | e⟩
      · exact runStop_expand_rows S n cols rest (fun pars s hs => h pars s (List.mem_cons_of_mem _ hs)) (T + d) s2
      · rfl
    · rfl

theorem runStop_expandTC_rows {σ} (S : Sys σ) (pts : List Rat) (cols : List Name) :
    ∀ (l : List PStep), (∀ pars, ∀ s ∈ l, parsUpdate pars (rowDict cols s.2) = parsUpdate pars s.2) →
    ∀ (T : Rat) (s0 : Sim σ),
      runStop S s0 (expandProtocolTC pts T (l.map fun s => (s.1, rowDict cols s.2)))
        = runStop S s0 (expandProtocolTC pts T l)
  | [], _, _, _ => rfl
  | (d, p) :: rest, h, T, s0 => by
    have hp : updPars s0 (rowDict cols p) = updPars s0 p := by
      unfold updPars; rw [h s0.pars (d, p) (by simp)]
    simp only [List.map_cons, expandProtocolTC, runStop, step, hp]
    rcases updPars s0 p with ⟨s1, _ | e⟩
    · simp only
      rcases timeCourse S s1 (stepPoints pts T (T + d)) with ⟨s2, _ | e⟩
      · exact runStop_expandTC_rows S pts cols rest (fun pars s hs => h pars s (List.mem_cons_of_mem _ hs)) (T + d) s2
      · rfl
    · rfl

end Mxl.C14
