/-
One readable well-formedness hypothesis: every component name (variables, parameters, derived
quantities, reactions, surrogates, surrogate outputs, data) and `time` is used once
(`Model._ids` in the Python class).  All fields of `WFc` / `WFd` follow.

Device: a duplicate-free list has `count ≤ 1` everywhere and `count` is additive over `++`, so
every disjointness fact is linear arithmetic over counts.
-/
import MxlVerif.Lemmas.Args
namespace Mxl

/-- every name the model's shared name space holds, container by container -/
def Content.names (c : Content) : List Name :=
  omKeys c.vars ++ omKeys c.pars ++ omKeys c.derived ++ omKeys c.rxns ++ omKeys c.surs ++
    c.surs.flatMap (fun kv => kv.2.outs) ++ omKeys c.data

/-- the shared name space: all names distinct and different from `time`; surrogates return one
    value per declared output -/
structure WFnames (c : Content) : Prop where
  nodup : ("time" :: c.names).Nodup
  surLen : ∀ kv ∈ c.surs, ∀ vs, (kv.2.fn vs).length = kv.2.outs.length

/-! ### generic association-list facts -/

theorem omKeys_append {β} (a b : List (Name × β)) : omKeys (a ++ b) = omKeys a ++ omKeys b := by
  simp [omKeys]

theorem omKeys_mapkv {β γ} (g : Name × β → γ) (l : List (Name × β)) :
    omKeys (l.map fun kv => (kv.1, g kv)) = omKeys l := by
  simp [omKeys, List.map_map, Function.comp_def]

/-- `a | b` is concatenation when no key occurs twice -/
theorem omUnion_eq_append {β} (a b : List (Name × β)) (h : (omKeys a ++ omKeys b).Nodup) :
    omUnion a b = a ++ b := by
  unfold omUnion
  induction b generalizing a with
  | nil => simp
  | cons x xs ih =>
    obtain ⟨k, v⟩ := x
    simp only [List.foldl_cons]
    have hfresh : ∀ kv ∈ a, kv.1 ≠ k := by
      intro kv hkv heq
      exact (List.nodup_append.mp h).2.2 kv.1 (List.mem_map.mpr ⟨kv, hkv, rfl⟩) k
        (by simp [omKeys]) heq
    rw [omInsert_fresh a k v hfresh, ih]
    · simp
    · simpa [omKeys, List.append_assoc] using h

theorem lookup_none_of_not_mem_keys {β} {l : List (Name × β)} {k : Name} (h : k ∉ omKeys l) :
    l.lookup k = none := by
  rw [List.lookup_eq_none_iff]
  intro p hp
  simp only [bne_iff_ne, ne_eq]
  intro heq
  exact h (List.mem_map.mpr ⟨p, hp, heq.symm⟩)

theorem lookup_mapkv {β γ} (g : Name × β → γ) (l : List (Name × β)) (k : Name) :
    (l.map fun kv => (kv.1, g kv)).lookup k = (l.lookup k).map (fun v => g (k, v)) := by
  induction l with
  | nil => rfl
  | cons x xs ih =>
    obtain ⟨k', v'⟩ := x
    simp only [List.map_cons, List.lookup_cons]
    by_cases hk : k = k'
    · subst hk; simp
    · have : (k == k') = false := by simpa using hk
      simp only [this]
      exact ih

theorem mem_keys_of_mem {β} {l : List (Name × β)} {k : Name} {v : β} (h : (k, v) ∈ l) :
    k ∈ omKeys l := List.mem_map.mpr ⟨(k, v), h, rfl⟩

theorem cpos {l : List Name} {k : Name} (h : k ∈ l) : 0 < l.count k := List.count_pos_iff.mpr h

theorem not_mem_of_count {l : List Name} {k : Name} (h : l.count k = 0) : k ∉ l :=
  List.count_eq_zero.mp h

theorem nodup_of_count {l : List Name} (h : ∀ k, l.count k ≤ 1) : l.Nodup :=
  List.nodup_iff_count.mpr h

/-! ### plain / assignment-defined values partition a container -/

theorem count_keys_split (m : List (Name × Val)) (k : Name) :
    (omKeys m).count k = (omKeys (plainOf m)).count k + (omKeys (iaOf m)).count k := by
  induction m with
  | nil => simp [omKeys, plainOf, iaOf]
  | cons x xs ih =>
    obtain ⟨n, v⟩ := x
    simp only [omKeys, plainOf, iaOf] at ih
    cases v <;>
      simp only [omKeys, plainOf, iaOf, List.filterMap_cons, List.map_cons, List.count_cons, ih] <;>
      omega

/-- providers of a duplicate-free component table, entry by entry -/
theorem flatMap_providedOf (ts : List (Name × Comp)) (hnd : (omKeys ts).Nodup) :
    (omKeys ts).flatMap (providedOf ts) = ts.flatMap (fun kv => kv.2.provided kv.1) := by
  simp only [omKeys, List.flatMap_map]
  apply flatMap_congr'
  intro kv hkv
  have := lookup_of_mem hnd (show (kv.1, kv.2) ∈ ts from hkv)
  simp [providedOf, this]

theorem flatMap_provided_fn {β} (g : Name × β → Fn) (l : List (Name × β)) :
    (l.map fun kv => (kv.1, Comp.fn (g kv))).flatMap (fun kv => kv.2.provided kv.1) = omKeys l := by
  induction l with
  | nil => rfl
  | cons x xs ih =>
    simp only [List.map_cons, List.flatMap_cons, Comp.provided, omKeys] at ih ⊢
    rw [ih]; rfl

theorem flatMap_provided_sur (l : List (Name × Sur)) :
    (l.map fun kv => (kv.1, Comp.sur kv.2)).flatMap (fun kv => kv.2.provided kv.1) =
      l.flatMap (fun kv => kv.2.outs) := by
  induction l with
  | nil => rfl
  | cons x xs ih =>
    simp only [List.map_cons, List.flatMap_cons, Comp.provided] at ih ⊢
    rw [ih]

/-! ### consequences of `WFnames` -/

/-- the master inequality: among `time` and the name groups, a name occurs at most once -/
theorem WFnames.count_le {c : Content} (h : WFnames c) (k : Name) :
    (if k = "time" then 1 else 0) +
      ((omKeys (plainOf c.vars)).count k + (omKeys (iaOf c.vars)).count k) +
      ((omKeys (plainOf c.pars)).count k + (omKeys (iaOf c.pars)).count k) +
      (omKeys c.derived).count k + (omKeys c.rxns).count k + (omKeys c.surs).count k +
      (c.surs.flatMap (fun kv => kv.2.outs)).count k + (omKeys c.data).count k ≤ 1 := by
  have := List.nodup_iff_count.mp h.nodup k
  simp only [Content.names, List.count_cons, List.count_append, count_keys_split c.vars,
    count_keys_split c.pars] at this
  by_cases hk : k = "time"
  · subst hk; simp at this ⊢; omega
  · have hne : ("time" == k) = false := by simpa using fun h' => hk h'.symm
    simp only [hne, hk] at this ⊢
    simp at this ⊢; omega

theorem WFnames.count_vars {c : Content} (k : Name) :
    (omKeys c.vars).count k = (omKeys (plainOf c.vars)).count k + (omKeys (iaOf c.vars)).count k :=
  count_keys_split c.vars k

theorem WFnames.count_pars {c : Content} (k : Name) :
    (omKeys c.pars).count k = (omKeys (plainOf c.pars)).count k + (omKeys (iaOf c.pars)).count k :=
  count_keys_split c.pars k

/-- `to_sort` is the plain concatenation of its five sources -/
theorem WFnames.toSort_eq {c : Content} (h : WFnames c) :
    c.toSort =
      (iaOf c.vars).map (fun kv => (kv.1, Comp.fn kv.2)) ++
      (iaOf c.pars).map (fun kv => (kv.1, Comp.fn kv.2)) ++
      c.derived.map (fun kv => (kv.1, Comp.fn kv.2)) ++
      c.rxns.map (fun kv => (kv.1, Comp.fn kv.2.rate)) ++
      c.surs.map (fun kv => (kv.1, Comp.sur kv.2)) := by
  simp only [Content.toSort]
  have e1 : omUnion (iaOf c.vars) (iaOf c.pars) = iaOf c.vars ++ iaOf c.pars :=
    omUnion_eq_append _ _ (nodup_of_count (fun k => by
      have := h.count_le k
      simp only [List.count_append]; omega))
  rw [e1, List.map_append]
  have e2 := omUnion_eq_append
    ((iaOf c.vars).map (fun kv => (kv.1, Comp.fn kv.2)) ++
      (iaOf c.pars).map (fun kv => (kv.1, Comp.fn kv.2)))
    (c.derived.map (fun kv => (kv.1, Comp.fn kv.2)))
    (nodup_of_count (fun k => by
      have := h.count_le k
      simp only [omKeys_append, List.count_append,
        omKeys_mapkv (fun kv : Name × Fn => Comp.fn kv.2)]
      omega))
  rw [e2]
  have e3 := omUnion_eq_append
    ((iaOf c.vars).map (fun kv => (kv.1, Comp.fn kv.2)) ++
      (iaOf c.pars).map (fun kv => (kv.1, Comp.fn kv.2)) ++
      c.derived.map (fun kv => (kv.1, Comp.fn kv.2)))
    (c.rxns.map (fun kv => (kv.1, Comp.fn kv.2.rate)))
    (nodup_of_count (fun k => by
      have := h.count_le k
      simp only [omKeys_append, List.count_append,
        omKeys_mapkv (fun kv : Name × Fn => Comp.fn kv.2),
        omKeys_mapkv (fun kv : Name × Rxn => Comp.fn kv.2.rate)]
      omega))
  rw [e3]
  exact omUnion_eq_append _ _ (nodup_of_count (fun k => by
      have := h.count_le k
      simp only [omKeys_append, List.count_append,
        omKeys_mapkv (fun kv : Name × Fn => Comp.fn kv.2),
        omKeys_mapkv (fun kv : Name × Rxn => Comp.fn kv.2.rate),
        omKeys_mapkv (fun kv : Name × Sur => Comp.sur kv.2)]
      omega))

/-- `self._derived | self._reactions | self._surrogates` is a plain concatenation -/
theorem WFnames.containers_eq {c : Content} (h : WFnames c) :
    c.containers =
      c.derived.map (fun kv => (kv.1, Comp.fn kv.2)) ++
      c.rxns.map (fun kv => (kv.1, Comp.fn kv.2.rate)) ++
      c.surs.map (fun kv => (kv.1, Comp.sur kv.2)) := by
  simp only [Content.containers]
  have e1 := omUnion_eq_append (c.derived.map (fun kv => (kv.1, Comp.fn kv.2)))
    (c.rxns.map (fun kv => (kv.1, Comp.fn kv.2.rate)))
    (nodup_of_count (fun k => by
      have := h.count_le k
      simp only [List.count_append,
        omKeys_mapkv (fun kv : Name × Fn => Comp.fn kv.2),
        omKeys_mapkv (fun kv : Name × Rxn => Comp.fn kv.2.rate)]
      omega))
  rw [e1]
  exact omUnion_eq_append _ _ (nodup_of_count (fun k => by
      have := h.count_le k
      simp only [omKeys_append, List.count_append,
        omKeys_mapkv (fun kv : Name × Fn => Comp.fn kv.2),
        omKeys_mapkv (fun kv : Name × Rxn => Comp.fn kv.2.rate),
        omKeys_mapkv (fun kv : Name × Sur => Comp.sur kv.2)]
      omega))

theorem WFnames.keys_toSort {c : Content} (h : WFnames c) :
    omKeys c.toSort = omKeys (iaOf c.vars) ++ omKeys (iaOf c.pars) ++ omKeys c.derived ++
      omKeys c.rxns ++ omKeys c.surs := by
  rw [h.toSort_eq]
  simp only [omKeys_append,
    omKeys_mapkv (fun kv : Name × Fn => Comp.fn kv.2),
    omKeys_mapkv (fun kv : Name × Rxn => Comp.fn kv.2.rate),
    omKeys_mapkv (fun kv : Name × Sur => Comp.sur kv.2)]

theorem WFnames.keys_containers {c : Content} (h : WFnames c) :
    omKeys c.containers = omKeys c.derived ++ omKeys c.rxns ++ omKeys c.surs := by
  rw [h.containers_eq]
  simp only [omKeys_append,
    omKeys_mapkv (fun kv : Name × Fn => Comp.fn kv.2),
    omKeys_mapkv (fun kv : Name × Rxn => Comp.fn kv.2.rate),
    omKeys_mapkv (fun kv : Name × Sur => Comp.sur kv.2)]

theorem WFnames.keysNodup {c : Content} (h : WFnames c) : (omKeys c.toSort).Nodup := by
  rw [h.keys_toSort]
  apply nodup_of_count
  intro k
  have := h.count_le k
  simp only [List.count_append]
  omega

/-- everything `to_sort` provides: component names, with surrogates replaced by their outputs -/
theorem WFnames.provided_eq {c : Content} (h : WFnames c) :
    (omKeys c.toSort).flatMap (providedOf c.toSort) =
      omKeys (iaOf c.vars) ++ omKeys (iaOf c.pars) ++ omKeys c.derived ++ omKeys c.rxns ++
        c.surs.flatMap (fun kv => kv.2.outs) := by
  rw [flatMap_providedOf _ h.keysNodup, h.toSort_eq]
  simp only [List.flatMap_append]
  rw [flatMap_provided_fn (fun kv : Name × Fn => kv.2), flatMap_provided_fn (fun kv : Name × Fn => kv.2),
    flatMap_provided_fn (fun kv : Name × Fn => kv.2),
    flatMap_provided_fn (fun kv : Name × Rxn => kv.2.rate), flatMap_provided_sur]

/-- a `to_sort` / `containers` entry that is a surrogate is a declared surrogate -/
theorem WFnames.sur_of_lookup_toSort {c : Content} (h : WFnames c) {k : Name} {s : Sur}
    (hk : c.toSort.lookup k = some (.sur s)) : (k, s) ∈ c.surs := by
  have hm := mem_of_lookup hk
  rw [h.toSort_eq] at hm
  simp only [List.mem_append, List.mem_map] at hm
  rcases hm with (((⟨kv, _, he⟩ | ⟨kv, _, he⟩) | ⟨kv, _, he⟩) | ⟨kv, _, he⟩) | ⟨kv, hkv, he⟩
  · cases he
  · cases he
  · cases he
  · cases he
  · cases he; exact hkv

theorem WFnames.sur_of_lookup_containers {c : Content} (h : WFnames c) {k : Name} {s : Sur}
    (hk : c.containers.lookup k = some (.sur s)) : (k, s) ∈ c.surs := by
  have hm := mem_of_lookup hk
  rw [h.containers_eq] at hm
  simp only [List.mem_append, List.mem_map] at hm
  rcases hm with (⟨kv, _, he⟩ | ⟨kv, _, he⟩) | ⟨kv, hkv, he⟩
  · cases he
  · cases he
  · cases he; exact hkv

theorem WFc_of_names (c : Content) (h : WFnames c) : WFc c := by
  refine ⟨h.keysNodup, ?_, ?_, ?_⟩
  · rw [h.provided_eq]
    apply nodup_of_count
    intro k
    have := h.count_le k
    simp only [List.count_append]
    omega
  · intro p hp
    rw [h.provided_eq] at hp
    have hc := cpos hp
    have := h.count_le p
    apply not_mem_of_count
    simp only [Content.available, List.count_append, List.count_cons, List.count_nil] at hc ⊢
    by_cases hpt : p = "time"
    · subst hpt; simp at this; omega
    · have hne : ("time" == p) = false := by simpa using fun h' => hpt h'.symm
      simp only [hne, hpt] at this ⊢
      simp at this ⊢; omega
  · intro k s hk vs
    exact h.surLen (k, s) (h.sur_of_lookup_toSort hk) vs

theorem isVP_iff (c : Content) (k : Name) :
    isVP c k = true ↔ k ∈ omKeys c.vars ∨ k ∈ omKeys c.pars := by
  simp [isVP]

theorem isRS_iff (c : Content) (k : Name) :
    isRS c k = true ↔ k ∈ omKeys c.rxns ∨ k ∈ omKeys c.surs := by
  simp [isRS]

theorem isVP_false_iff (c : Content) (k : Name) :
    isVP c k = false ↔ k ∉ omKeys c.vars ∧ k ∉ omKeys c.pars := by
  rw [← Bool.not_eq_true, isVP_iff]; simp

theorem isRS_false_iff (c : Content) (k : Name) :
    isRS c k = false ↔ k ∉ omKeys c.rxns ∧ k ∉ omKeys c.surs := by
  rw [← Bool.not_eq_true, isRS_iff]; simp

theorem count_zero {l : List Name} {k : Name} (h : k ∉ l) : l.count k = 0 :=
  List.count_eq_zero.mpr h

/-- a name that is no variable and no parameter has no initial assignment in `to_sort` -/
theorem WFnames.ia_lookup_none {c : Content} {k : Name} (hvp : isVP c k = false) :
    ((iaOf c.vars).map (fun kv => (kv.1, Comp.fn kv.2))).lookup k = none ∧
    ((iaOf c.pars).map (fun kv => (kv.1, Comp.fn kv.2))).lookup k = none := by
  obtain ⟨hv, hp⟩ := (isVP_false_iff c k).mp hvp
  have h1 := count_zero hv
  have h2 := count_zero hp
  rw [count_keys_split] at h1 h2
  constructor
  · apply lookup_none_of_not_mem_keys
    rw [omKeys_mapkv (fun kv : Name × Fn => Comp.fn kv.2)]
    apply not_mem_of_count; omega
  · apply lookup_none_of_not_mem_keys
    rw [omKeys_mapkv (fun kv : Name × Fn => Comp.fn kv.2)]
    apply not_mem_of_count; omega

theorem WFnames.toSort_lookup_nonVP {c : Content} (h : WFnames c) {k : Name}
    (hvp : isVP c k = false) : c.toSort.lookup k = c.containers.lookup k := by
  obtain ⟨h1, h2⟩ := WFnames.ia_lookup_none hvp
  rw [h.toSort_eq, h.containers_eq]
  simp only [List.lookup_append, h1, h2, Option.none_or]

theorem mem_keys_split {m : List (Name × Val)} {k : Name} (h : k ∈ omKeys m) :
    k ∈ omKeys (plainOf m) ∨ k ∈ omKeys (iaOf m) := by
  have := cpos h
  rw [count_keys_split] at this
  by_cases h1 : k ∈ omKeys (plainOf m)
  · exact Or.inl h1
  · right
    have := count_zero h1
    apply List.count_pos_iff.mp; omega

/-- **the shared name space discharges every structural hypothesis** used by the
    initial-resolution and per-state-resolution theorems -/
theorem WFd_of_names (c : Content) (h : WFnames c) : WFd c := by
  refine { toWFc := WFc_of_names c h, contOfNonVP := ?_, rsNotVP := ?_, vpSelf := ?_,
           derivedIn := ?_, keysKinds := ?_, surOkC := ?_, iaSorted := ?_ }
  · intro k hvp
    exact (h.toSort_lookup_nonVP hvp).symm
  · intro k hrs
    rw [isVP_false_iff]
    have := h.count_le k
    rw [isRS_iff] at hrs
    constructor <;> apply not_mem_of_count <;> rw [count_keys_split] <;>
      rcases hrs with h1 | h1 <;> have := cpos h1 <;> omega
  · intro k comp hvp hk
    cases comp with
    | fn f => rfl
    | sur s =>
      exfalso
      have hs := mem_keys_of_mem (h.sur_of_lookup_toSort hk)
      have := h.count_le k
      have := cpos hs
      rw [isVP_iff] at hvp
      rcases hvp with h1 | h1 <;> have := cpos h1 <;> rw [count_keys_split] at this <;> omega
  · intro k d hd hvp _
    obtain ⟨h1, h2⟩ := WFnames.ia_lookup_none hvp
    rw [h.toSort_eq]
    have h3 : (c.derived.map (fun kv => (kv.1, Comp.fn kv.2))).lookup k = some (.fn d) := by
      rw [lookup_mapkv (fun kv : Name × Fn => Comp.fn kv.2), hd]; rfl
    simp only [List.lookup_append, h1, h2, h3, Option.none_or, Option.some_or]
  · intro k hk
    rw [h.keys_toSort] at hk
    simp only [List.mem_append] at hk
    have sub : ∀ (m : List (Name × Val)), k ∈ omKeys (iaOf m) → k ∈ omKeys m := by
      intro m hm
      have := cpos hm
      apply List.count_pos_iff.mp
      rw [count_keys_split]; omega
    rcases hk with (((h1 | h1) | h1) | h1) | h1
    · exact Or.inr (Or.inl ((isVP_iff c k).mpr (Or.inl (sub _ h1))))
    · exact Or.inr (Or.inl ((isVP_iff c k).mpr (Or.inr (sub _ h1))))
    · exact Or.inr (Or.inr (lookup_isSome_of_mem_keys h1))
    · exact Or.inl ((isRS_iff c k).mpr (Or.inl h1))
    · exact Or.inl ((isRS_iff c k).mpr (Or.inr h1))
  · intro k s hk vs
    exact h.surLen (k, s) (h.sur_of_lookup_containers hk) vs
  · intro k hvp
    rw [isVP_iff] at hvp
    rw [h.keys_toSort]
    simp only [List.mem_append]
    rcases hvp with h1 | h1
    · rcases mem_keys_split h1 with h2 | h2
      · exact Or.inl h2
      · exact Or.inr (Or.inr (Or.inl (Or.inl (Or.inl (Or.inl h2)))))
    · rcases mem_keys_split h1 with h2 | h2
      · exact Or.inr (Or.inl h2)
      · exact Or.inr (Or.inr (Or.inl (Or.inl (Or.inl (Or.inr h2)))))

/-! ### non-vacuity: a content with every kind of component satisfies `WFnames` -/

example : WFnames
    { vars := [("x", .plain 1), ("y", .ia ⟨["p"], fun _ => 0⟩)],
      pars := [("p", .plain 2), ("q", .ia ⟨["p"], fun _ => 0⟩)],
      derived := [("d", ⟨["q"], fun _ => 0⟩)],
      rxns := [("v", ⟨⟨["x", "d"], fun _ => 0⟩, [("x", .num 1)]⟩)],
      surs := [("s", ⟨["x"], ["o1", "o2"], fun _ => [0, 0], []⟩)],
      data := [("dat", 3)] } := by
  refine ⟨by decide, ?_⟩
  intro kv hkv vs
  simp at hkv
  subst hkv
  rfl

end Mxl
