/- C12 — lookup lemmas about the ordered maps of `Core/Basic.lean` (core Lean only). -/
import MxlVerif.Model.C12
namespace Mxl.C12
open Mxl

theorem lookup_cons_eq {β} (m : List (Name × β)) (k a : Name) (v : β) :
    ((k, v) :: m).lookup a = if a = k then some v else m.lookup a := by
  simp only [List.lookup_cons]
  by_cases h : a = k
  · simp [h]
  · have : (a == k) = false := by simpa using h
    simp [this, h]

theorem nodup_reverse {α} (l : List α) (h : l.Nodup) : l.reverse.Nodup := by
  unfold List.Nodup at *
  rw [List.pairwise_reverse]
  exact h.imp (fun hab => Ne.symm hab)

theorem lookup_omInsert {β} (m : List (Name × β)) (k a : Name) (v : β) :
    (omInsert m k v).lookup a = if a = k then some v else m.lookup a := by
  induction m with
  | nil => simp [omInsert, lookup_cons_eq]
  | cons kv m ih =>
    obtain ⟨k', v'⟩ := kv
    by_cases hk : k' = k
    · subst hk
      by_cases ha : a = k' <;> simp [omInsert, lookup_cons_eq, ha]
    · by_cases ha : a = k'
      · subst ha
        simp [omInsert, lookup_cons_eq, hk]
      · simp [omInsert, lookup_cons_eq, hk, ha, ih]

theorem lookup_none_iff {β} (m : List (Name × β)) (k : Name) :
    m.lookup k = none ↔ k ∉ omKeys m := by
  induction m with
  | nil => simp [omKeys]
  | cons kv m ih =>
    obtain ⟨k', v'⟩ := kv
    simp only [List.lookup_cons, omKeys, List.map_cons, List.mem_cons]
    by_cases h : k == k'
    · have : k = k' := by simpa using h
      simp [h, this]
    · have hne : k ≠ k' := by simpa using h
      simp only [h]
      simp [omKeys] at ih
      simp [ih, hne]

theorem lookup_some_mem {β} (m : List (Name × β)) (k : Name) (v : β) (h : m.lookup k = some v) :
    (k, v) ∈ m := by
  induction m with
  | nil => simp at h
  | cons kv m ih =>
    obtain ⟨k', v'⟩ := kv
    simp only [List.lookup_cons] at h
    by_cases hk : k == k'
    · simp [hk] at h; have : k = k' := by simpa using hk
      simp [this, h]
    · simp [hk] at h; exact List.mem_cons_of_mem _ (ih h)

theorem lookup_isSome_of_mem_keys {β} (m : List (Name × β)) (k : Name) (h : k ∈ omKeys m) :
    ∃ v, m.lookup k = some v := by
  cases hl : m.lookup k with
  | none => exact absurd h ((lookup_none_iff m k).mp hl)
  | some v => exact ⟨v, rfl⟩

theorem mem_keys_of_lookup {β} (m : List (Name × β)) (k : Name) (v : β) (h : m.lookup k = some v) :
    k ∈ omKeys m := by
  have := lookup_some_mem m k v h
  exact List.mem_map.mpr ⟨(k, v), this, rfl⟩

/-- with distinct keys, membership determines the lookup -/
theorem lookup_of_mem_nodup {β} (m : List (Name × β)) (k : Name) (v : β)
    (hn : (omKeys m).Nodup) (h : (k, v) ∈ m) : m.lookup k = some v := by
  induction m with
  | nil => simp at h
  | cons kv m ih =>
    obtain ⟨k', v'⟩ := kv
    simp only [omKeys, List.map_cons, List.nodup_cons] at hn
    simp only [List.mem_cons, Prod.mk.injEq] at h
    simp only [List.lookup_cons]
    rcases h with ⟨hk, hv⟩ | h
    · simp [hk, hv]
    · have hmem : k ∈ omKeys m := List.mem_map.mpr ⟨(k, v), h, rfl⟩
      have hne : ¬ (k == k') = true := by
        intro he; have : k = k' := by simpa using he
        exact hn.1 (this ▸ hmem)
      simp [hne, ih hn.2 h]

theorem lookup_reverse {β} (m : List (Name × β)) (k : Name) (hn : (omKeys m).Nodup) :
    m.reverse.lookup k = m.lookup k := by
  cases h : m.lookup k with
  | none =>
    rw [lookup_none_iff] at h ⊢
    simpa [omKeys] using h
  | some v =>
    apply lookup_of_mem_nodup
    · simp only [omKeys, List.map_reverse]; exact nodup_reverse _ hn
    · simpa using lookup_some_mem m k v h

theorem lookup_map_val {β γ} (f : β → γ) (m : List (Name × β)) (k : Name) :
    (m.map fun kv => (kv.1, f kv.2)).lookup k = (m.lookup k).map f := by
  induction m with
  | nil => simp
  | cons kv m ih =>
    obtain ⟨k', v'⟩ := kv
    simp only [List.map_cons, lookup_cons_eq]
    by_cases h : k = k' <;> simp [h, ih]

theorem omKeys_map_val {β γ} (f : β → γ) (m : List (Name × β)) :
    omKeys (m.map fun kv => (kv.1, f kv.2)) = omKeys m := by
  simp [omKeys, List.map_map, Function.comp_def]

theorem mem_keys_omInsert {β} (m : List (Name × β)) (k a : Name) (v : β) :
    a ∈ omKeys (omInsert m k v) ↔ a = k ∨ a ∈ omKeys m := by
  constructor
  · intro h
    obtain ⟨w, hw⟩ := lookup_isSome_of_mem_keys _ _ h
    rw [lookup_omInsert] at hw
    by_cases hak : a = k
    · left; exact hak
    · right; simp [hak] at hw; exact mem_keys_of_lookup _ _ _ hw
  · intro h
    by_cases hak : a = k
    · apply mem_keys_of_lookup _ _ v; rw [lookup_omInsert]; simp [hak]
    · rcases h with h | h
      · exact absurd h hak
      · obtain ⟨w, hw⟩ := lookup_isSome_of_mem_keys _ _ h
        apply mem_keys_of_lookup _ _ w; rw [lookup_omInsert]; simp [hak, hw]

/-- `a | b`: the last binding in `b` wins, else `a`'s -/
theorem lookup_omUnion {β} (a b : List (Name × β)) (k : Name) :
    (omUnion a b).lookup k = (b.reverse.lookup k).or (a.lookup k) := by
  unfold omUnion
  induction b generalizing a with
  | nil => simp
  | cons kv b ih =>
    simp only [List.foldl_cons, List.reverse_cons, List.lookup_append]
    rw [ih, lookup_omInsert]
    cases hb : b.reverse.lookup k with
    | some v => simp
    | none =>
      obtain ⟨k', v'⟩ := kv
      simp only [Option.none_or, lookup_cons_eq, List.lookup_nil]
      by_cases hk : k = k' <;> simp [hk]

theorem mem_keys_omUnion {β} (a b : List (Name × β)) (k : Name) :
    k ∈ omKeys (omUnion a b) ↔ k ∈ omKeys a ∨ k ∈ omKeys b := by
  unfold omUnion
  induction b generalizing a with
  | nil => simp [omKeys]
  | cons kv b ih =>
    simp only [List.foldl_cons]
    rw [ih, mem_keys_omInsert]
    simp only [omKeys, List.map_cons, List.mem_cons]
    constructor
    · rintro ((h | h) | h)
      · right; left; exact h
      · left; exact h
      · right; right; exact h
    · rintro (h | h | h)
      · left; right; exact h
      · left; left; exact h
      · right; exact h

end Mxl.C12
