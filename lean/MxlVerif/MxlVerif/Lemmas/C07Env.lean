/-
Environment / sequential-evaluation lemmas for C07 (core Lean only).
-/
import MxlVerif.Model.Core
namespace Mxl

/-! ### lookups -/

theorem Env.get_of_lookup {e : Env} {k : Name} {v : Rat} (h : e.lookup k = some v) : e.get k = .ok v := by
  simp [Env.get, h]

theorem Env.get_of_none {e : Env} {k : Name} (h : e.lookup k = none) : e.get k = .error (.keyError k) := by
  simp [Env.get, h]

theorem Env.get_ok {e : Env} {k : Name} {v : Rat} (h : e.get k = .ok v) : e.lookup k = some v := by
  unfold Env.get at h
  cases hl : e.lookup k with
  | none => simp [hl] at h
  | some w => simp [hl] at h; simp [h]

theorem Env.lookup_set (e : Env) (k : Name) (v : Rat) (a : Name) :
    (e.set k v).lookup a = if a == k then some v else e.lookup a := by
  simp only [Env.set, List.lookup_cons]
  cases h : a == k <;> simp

theorem Env.setMany_eq : ∀ (kvs : List (Name × Rat)) (e : Env), e.setMany kvs = kvs.reverse ++ e := by
  intro kvs; induction kvs with
  | nil => intro e; rfl
  | cons kv rest ih => intro e; obtain ⟨k, v⟩ := kv; simp [Env.setMany, ih, Env.set]

theorem lookupArgs_congr {e1 e2 : Env} : ∀ {args : List Name},
    (∀ a ∈ args, e1.lookup a = e2.lookup a) → lookupArgs e1 args = lookupArgs e2 args := by
  intro args; induction args with
  | nil => intro _; rfl
  | cons a rest ih =>
    intro h
    have h1 : e1.get a = e2.get a := by simp [Env.get, h a List.mem_cons_self]
    have h2 := ih (fun b hb => h b (List.mem_cons_of_mem _ hb))
    simp only [lookupArgs] at h2 ⊢
    simp [List.mapM_cons, h1, h2]

theorem Fn.calc_congr {f : Fn} {e1 e2 : Env} (h : ∀ a ∈ f.args, e1.lookup a = e2.lookup a) :
    f.calc e1 = f.calc e2 := by
  simp [Fn.calc, lookupArgs_congr h]

theorem lookupArgs_ok_some {e : Env} : ∀ {args : List Name} {vs : List Rat},
    lookupArgs e args = .ok vs → ∀ a ∈ args, ∃ v, e.lookup a = some v := by
  intro args; induction args with
  | nil => intro vs _ a ha; cases ha
  | cons x rest ih =>
    intro vs h a ha
    simp only [lookupArgs, List.mapM_cons, bind, Except.bind] at h
    cases hx : e.get x with
    | error err => simp [hx] at h
    | ok v =>
      simp only [hx] at h
      cases hr : List.mapM e.get rest with
      | error err => simp [hr] at h
      | ok vs' =>
        cases List.mem_cons.mp ha with
        | inl h1 => exact ⟨v, h1 ▸ Env.get_ok hx⟩
        | inr h1 => exact ih (vs := vs') (by simpa [lookupArgs] using hr) a h1

theorem Fn.calc_ok_some {f : Fn} {e : Env} {v : Rat} (h : f.calc e = .ok v) :
    ∀ a ∈ f.args, ∃ w, e.lookup a = some w := by
  simp only [Fn.calc, bind, Except.bind] at h
  cases hl : lookupArgs e f.args with
  | error err => simp [hl] at h
  | ok vs => exact lookupArgs_ok_some hl

theorem lookupArgs_some_ok {e : Env} : ∀ {args : List Name},
    (∀ a ∈ args, ∃ v, e.lookup a = some v) → ∃ vs, lookupArgs e args = .ok vs := by
  intro args; induction args with
  | nil => intro _; exact ⟨[], rfl⟩
  | cons x rest ih =>
    intro h
    obtain ⟨v, hv⟩ := h x List.mem_cons_self
    obtain ⟨vs, hvs⟩ := ih (fun b hb => h b (List.mem_cons_of_mem _ hb))
    refine ⟨v :: vs, ?_⟩
    simp only [lookupArgs] at hvs ⊢
    simp [List.mapM_cons, Env.get_of_lookup hv, hvs, bind, Except.bind, pure, Except.pure]

theorem Fn.calc_some_ok {f : Fn} {e : Env} (h : ∀ a ∈ f.args, ∃ w, e.lookup a = some w) :
    ∃ v, f.calc e = .ok v := by
  obtain ⟨vs, hvs⟩ := lookupArgs_some_ok h
  exact ⟨f.fn vs, by simp [Fn.calc, hvs, bind, Except.bind, pure, Except.pure]⟩

/-! ### sequential evaluation of named function definitions -/

def evalSeq : List (Name × Fn) → Env → Except Err Env
  | [], env => pure env
  | (k, f) :: rest, env => do
    let v ← f.calc env
    evalSeq rest (env.set k v)

theorem evalSeq_cons_ok {k : Name} {f : Fn} {rest : List (Name × Fn)} {e e' : Env}
    (h : evalSeq ((k, f) :: rest) e = .ok e') :
    ∃ v, f.calc e = .ok v ∧ evalSeq rest (e.set k v) = .ok e' := by
  simp only [evalSeq, bind, Except.bind] at h
  cases hc : f.calc e with
  | error err => simp [hc] at h
  | ok v => exact ⟨v, rfl, by simpa [hc] using h⟩

theorem evalSeq_lookup_not_mem : ∀ {defs : List (Name × Fn)} {e e' : Env} {a : Name},
    evalSeq defs e = .ok e' → a ∉ defs.map (·.1) → e'.lookup a = e.lookup a := by
  intro defs; induction defs with
  | nil => intro e e' a h _; simp [evalSeq, pure, Except.pure] at h; simp [h]
  | cons kf rest ih =>
    intro e e' a h ha
    obtain ⟨k, f⟩ := kf
    obtain ⟨v, _, hr⟩ := evalSeq_cons_ok h
    simp only [List.map_cons, List.mem_cons, not_or] at ha
    rw [ih hr ha.2, Env.lookup_set]
    have : (a == k) = false := by simpa using ha.1
    simp [this]

/-- success depends only on which names are bound -/
theorem evalSeq_ok_of_keys : ∀ {defs : List (Name × Fn)} {e1 e1' e2 : Env},
    evalSeq defs e1 = .ok e1' → (∀ a, (∃ v, e1.lookup a = some v) → ∃ w, e2.lookup a = some w) →
    ∃ e2', evalSeq defs e2 = .ok e2' := by
  intro defs; induction defs with
  | nil => intro e1 e1' e2 _ _; exact ⟨e2, rfl⟩
  | cons kf rest ih =>
    intro e1 e1' e2 h hk
    obtain ⟨k, f⟩ := kf
    obtain ⟨v, hc, hr⟩ := evalSeq_cons_ok h
    obtain ⟨w, hw⟩ := Fn.calc_some_ok (f := f) (e := e2) (fun a ha => hk a (Fn.calc_ok_some hc a ha))
    obtain ⟨e2', he2⟩ := ih (e2 := e2.set k w) hr (by
      intro a ⟨x, hx⟩
      rw [Env.lookup_set] at hx ⊢
      cases hak : a == k with
      | true => exact ⟨w, by simp⟩
      | false => simp [hak] at hx ⊢; exact hk a ⟨x, hx⟩)
    exact ⟨e2', by simp [evalSeq, hw, he2, bind, Except.bind]⟩

/-- two runs of the same definitions agree on every "good" name, if good definitions read good names only
    and the start environments agree on good names -/
theorem evalSeq_agree_closed (good : Name → Prop) : ∀ {defs : List (Name × Fn)} {e1 e2 e1' e2' : Env},
    evalSeq defs e1 = .ok e1' → evalSeq defs e2 = .ok e2' →
    (∀ kf ∈ defs, good kf.1 → ∀ a ∈ kf.2.args, good a) →
    (∀ a, good a → e1.lookup a = e2.lookup a) →
    ∀ a, good a → e1'.lookup a = e2'.lookup a := by
  intro defs; induction defs with
  | nil =>
    intro e1 e2 e1' e2' h1 h2 _ hag
    simp [evalSeq, pure, Except.pure] at h1 h2; subst h1; subst h2; exact hag
  | cons kf rest ih =>
    intro e1 e2 e1' e2' h1 h2 hcl hag
    obtain ⟨k, f⟩ := kf
    obtain ⟨v1, hc1, hr1⟩ := evalSeq_cons_ok h1
    obtain ⟨v2, hc2, hr2⟩ := evalSeq_cons_ok h2
    refine ih hr1 hr2 (fun kf hkf => hcl kf (List.mem_cons_of_mem _ hkf)) ?_
    intro a ha
    rw [Env.lookup_set, Env.lookup_set]
    cases hak : a == k with
    | false => simp; exact hag a ha
    | true =>
      have : a = k := by simpa using hak
      subst this
      have hargs := hcl (a, f) List.mem_cons_self ha
      have : f.calc e1 = f.calc e2 := Fn.calc_congr (fun b hb => hag b (hargs b hb))
      rw [hc1, hc2] at this
      simp at this; simp [this]

/-- success of a run that skips some definitions whose names are already bound -/
theorem evalSeq_ok_filter (keep : Name → Bool) : ∀ {defs : List (Name × Fn)} {e1 e1' e2 : Env},
    evalSeq defs e1 = .ok e1' → (∀ a, (∃ v, e1.lookup a = some v) → ∃ w, e2.lookup a = some w) →
    (∀ kf ∈ defs, keep kf.1 = false → ∃ w, e2.lookup kf.1 = some w) →
    ∃ e2', evalSeq (defs.filter fun kf => keep kf.1) e2 = .ok e2' := by
  intro defs; induction defs with
  | nil => intro e1 e1' e2 _ _ _; exact ⟨e2, rfl⟩
  | cons kf rest ih =>
    intro e1 e1' e2 h hk hdrop
    obtain ⟨k, f⟩ := kf
    obtain ⟨v, hc, hr⟩ := evalSeq_cons_ok h
    cases hkeep : keep k with
    | false =>
      have hfil : ((k, f) :: rest).filter (fun kf => keep kf.1) = rest.filter (fun kf => keep kf.1) := by
        simp [List.filter_cons, hkeep]
      rw [hfil]
      refine ih hr ?_ (fun kf hkf hkp => hdrop kf (List.mem_cons_of_mem _ hkf) hkp)
      intro a ⟨x, hx⟩
      rw [Env.lookup_set] at hx
      cases hak : a == k with
      | true =>
        have : a = k := by simpa using hak
        subst this
        exact hdrop (a, f) List.mem_cons_self hkeep
      | false => simp [hak] at hx; exact hk a ⟨x, hx⟩
    | true =>
      have hfil : ((k, f) :: rest).filter (fun kf => keep kf.1) = (k, f) :: rest.filter (fun kf => keep kf.1) := by
        simp [List.filter_cons, hkeep]
      rw [hfil]
      obtain ⟨w, hw⟩ := Fn.calc_some_ok (f := f) (e := e2) (fun a ha => hk a (Fn.calc_ok_some hc a ha))
      obtain ⟨e2', he2⟩ := ih (e2 := e2.set k w) hr (by
        intro a ⟨x, hx⟩
        rw [Env.lookup_set] at hx ⊢
        cases hak : a == k with
        | true => exact ⟨w, by simp⟩
        | false => simp [hak] at hx ⊢; exact hk a ⟨x, hx⟩) (by
        intro kf hkf hkp
        obtain ⟨x, hx⟩ := hdrop kf (List.mem_cons_of_mem _ hkf) hkp
        rw [Env.lookup_set]
        cases hak : kf.1 == k with
        | true => exact ⟨w, by simp⟩
        | false => exact ⟨x, by simp [hx]⟩)
      exact ⟨e2', by simp [evalSeq, hw, he2, bind, Except.bind]⟩

/-- agreement on good names when the second run skips definitions that are not good -/
theorem evalSeq_agree_closed_filter (good : Name → Prop) (keep : Name → Bool) :
    ∀ {defs : List (Name × Fn)} {e1 e2 e1' e2' : Env},
    evalSeq defs e1 = .ok e1' → evalSeq (defs.filter fun kf => keep kf.1) e2 = .ok e2' →
    (∀ kf ∈ defs, good kf.1 → keep kf.1 = true ∧ ∀ a ∈ kf.2.args, good a) →
    (∀ a, good a → e1.lookup a = e2.lookup a) →
    ∀ a, good a → e1'.lookup a = e2'.lookup a := by
  intro defs; induction defs with
  | nil =>
    intro e1 e2 e1' e2' h1 h2 _ hag
    simp [evalSeq, pure, Except.pure] at h1 h2; subst h1; subst h2; exact hag
  | cons kf rest ih =>
    intro e1 e2 e1' e2' h1 h2 hcl hag
    obtain ⟨k, f⟩ := kf
    obtain ⟨v1, hc1, hr1⟩ := evalSeq_cons_ok h1
    have hcl' : ∀ kf ∈ rest, good kf.1 → keep kf.1 = true ∧ ∀ a ∈ kf.2.args, good a :=
      fun kf hkf => hcl kf (List.mem_cons_of_mem _ hkf)
    cases hkeep : keep k with
    | false =>
      have hfil : ((k, f) :: rest).filter (fun kf => keep kf.1) = rest.filter (fun kf => keep kf.1) := by
        simp [List.filter_cons, hkeep]
      rw [hfil] at h2
      refine ih hr1 h2 hcl' ?_
      intro a ha
      rw [Env.lookup_set]
      cases hak : a == k with
      | false => simp; exact hag a ha
      | true =>
        have : a = k := by simpa using hak
        subst this
        have := (hcl (a, f) List.mem_cons_self ha).1
        rw [hkeep] at this; cases this
    | true =>
      have hfil : ((k, f) :: rest).filter (fun kf => keep kf.1) = (k, f) :: rest.filter (fun kf => keep kf.1) := by
        simp [List.filter_cons, hkeep]
      rw [hfil] at h2
      obtain ⟨v2, hc2, hr2⟩ := evalSeq_cons_ok h2
      refine ih hr1 hr2 hcl' ?_
      intro a ha
      rw [Env.lookup_set, Env.lookup_set]
      cases hak : a == k with
      | false => simp; exact hag a ha
      | true =>
        have : a = k := by simpa using hak
        subst this
        have hargs := (hcl (a, f) List.mem_cons_self ha).2
        have : f.calc e1 = f.calc e2 := Fn.calc_congr (fun b hb => hag b (hargs b hb))
        rw [hc1, hc2] at this
        simp at this; simp [this]

/-- One pass over all definitions vs. a pass over the non-static ones in an environment that already
    holds the final values of the static ones. -/
theorem evalSeq_agree_sub (stat : Name → Bool) : ∀ {defs : List (Name × Fn)} {e1 e2 e1' : Env},
    evalSeq defs e1 = .ok e1' →
    (defs.map (·.1)).Nodup →
    (∀ kf ∈ defs, e1.lookup kf.1 = none) →
    (∀ a, (∀ kf ∈ defs, stat kf.1 = true → kf.1 ≠ a) → e1.lookup a = e2.lookup a) →
    (∀ kf ∈ defs, stat kf.1 = true → e2.lookup kf.1 = e1'.lookup kf.1) →
    ∃ e2', evalSeq (defs.filter fun kf => !stat kf.1) e2 = .ok e2' ∧ ∀ a, e1'.lookup a = e2'.lookup a := by
  intro defs; induction defs with
  | nil =>
    intro e1 e2 e1' h _ _ hag _
    simp [evalSeq, pure, Except.pure] at h; subst h
    exact ⟨e2, rfl, fun a => hag a (by intro kf hkf; cases hkf)⟩
  | cons kf rest ih =>
    intro e1 e2 e1' h hnd hnone hag hst
    obtain ⟨k, f⟩ := kf
    obtain ⟨v, hc, hr⟩ := evalSeq_cons_ok h
    simp only [List.map_cons, List.nodup_cons] at hnd
    have hk_final : e1'.lookup k = some v := by
      rw [evalSeq_lookup_not_mem hr hnd.1, Env.lookup_set]; simp
    have hnone' : ∀ kf ∈ rest, (e1.set k v).lookup kf.1 = none := by
      intro kf hkf
      rw [Env.lookup_set]
      have hne : kf.1 ≠ k := by
        intro heq; exact hnd.1 (heq ▸ List.mem_map_of_mem hkf)
      have : (kf.1 == k) = false := by simpa using hne
      rw [this]; exact hnone kf (List.mem_cons_of_mem _ hkf)
    cases hs : stat k with
    | true =>
      have hfil : ((k, f) :: rest).filter (fun kf => !stat kf.1) = rest.filter (fun kf => !stat kf.1) := by
        simp [List.filter_cons, hs]
      rw [hfil]
      refine ih hr hnd.2 hnone' ?_ (fun kf hkf hsk => hst kf (List.mem_cons_of_mem _ hkf) hsk)
      intro a ha
      rw [Env.lookup_set]
      cases hak : a == k with
      | true =>
        have : a = k := by simpa using hak
        subst this
        simp; rw [hst (a, f) List.mem_cons_self hs, hk_final]
      | false =>
        simp
        refine hag a ?_
        intro kf hkf hsk
        cases List.mem_cons.mp hkf with
        | inl h1 =>
          subst h1; intro heq
          have : a = k := heq.symm
          simp [this] at hak
        | inr h1 => exact ha kf h1 hsk
    | false =>
      have hfil : ((k, f) :: rest).filter (fun kf => !stat kf.1) = (k, f) :: rest.filter (fun kf => !stat kf.1) := by
        simp [List.filter_cons, hs]
      rw [hfil]
      have hc2 : f.calc e2 = .ok v := by
        rw [← hc]; symm
        apply Fn.calc_congr
        intro a ha
        refine hag a ?_
        intro kf hkf _ heq
        obtain ⟨w, hw⟩ := Fn.calc_ok_some hc a ha
        rw [← heq, hnone kf hkf] at hw; cases hw
      obtain ⟨e2', he2, hfin⟩ := ih (e2 := e2.set k v) hr hnd.2 hnone' (by
        intro a ha
        rw [Env.lookup_set, Env.lookup_set]
        cases hak : a == k with
        | true => simp
        | false =>
          simp
          refine hag a ?_
          intro kf hkf hsk
          cases List.mem_cons.mp hkf with
          | inl h1 => subst h1; simp [hs] at hsk
          | inr h1 => exact ha kf h1 hsk) (by
        intro kf hkf hsk
        rw [Env.lookup_set]
        have hne : kf.1 ≠ k := by
          intro heq; exact hnd.1 (heq ▸ List.mem_map_of_mem hkf)
        have : (kf.1 == k) = false := by simpa using hne
        rw [this]; exact hst kf (List.mem_cons_of_mem _ hkf) hsk)
      exact ⟨e2', by simp [evalSeq, hc2, he2, bind, Except.bind], hfin⟩


/-- Like `evalSeq_agree_closed_filter`, but a dropped definition may be `good`: then the second environment
    already holds its final value (a parameter defined by an initial assignment, written as a constant), the
    first does not know it before it is defined, and kept good definitions read good names only. -/
theorem evalSeq_agree_closed_filter2 (good : Name → Prop) (keep : Name → Bool) (e1' : Env) :
    ∀ {defs : List (Name × Fn)} {e1 e2 e2' : Env},
    (defs.map (·.1)).Nodup →
    evalSeq defs e1 = .ok e1' → evalSeq (defs.filter fun kf => keep kf.1) e2 = .ok e2' →
    (∀ kf ∈ defs, good kf.1 → keep kf.1 = true → ∀ a ∈ kf.2.args, good a) →
    (∀ kf ∈ defs, good kf.1 → keep kf.1 = false → e1.lookup kf.1 = none ∧ e2.lookup kf.1 = e1'.lookup kf.1) →
    (∀ a, good a → (∀ kf ∈ defs, keep kf.1 = false → kf.1 ≠ a) → e1.lookup a = e2.lookup a) →
    ∀ a, good a → e1'.lookup a = e2'.lookup a := by
  intro defs; induction defs with
  | nil =>
    intro e1 e2 e2' _ h1 h2 _ _ hag a ha
    simp [evalSeq, pure, Except.pure] at h1 h2; subst h1; subst h2
    exact hag a ha (by intro kf hkf; cases hkf)
  | cons kf rest ih =>
    intro e1 e2 e2' hnd h1 h2 hcl hpend hag
    obtain ⟨k, f⟩ := kf
    obtain ⟨v1, hc1, hr1⟩ := evalSeq_cons_ok h1
    simp only [List.map_cons, List.nodup_cons] at hnd
    have hk_final : e1'.lookup k = some v1 := by
      rw [evalSeq_lookup_not_mem hr1 hnd.1, Env.lookup_set]; simp
    have hne : ∀ kf ∈ rest, (kf.1 == k) = false := by
      intro kf hkf
      have : kf.1 ≠ k := fun heq => hnd.1 (heq ▸ List.mem_map_of_mem hkf)
      simpa using this
    have hcl' : ∀ kf ∈ rest, good kf.1 → keep kf.1 = true → ∀ a ∈ kf.2.args, good a :=
      fun kf hkf => hcl kf (List.mem_cons_of_mem _ hkf)
    cases hkeep : keep k with
    | false =>
      have hfil : ((k, f) :: rest).filter (fun kf => keep kf.1) = rest.filter (fun kf => keep kf.1) := by
        simp [List.filter_cons, hkeep]
      rw [hfil] at h2
      refine ih hnd.2 hr1 h2 hcl' ?_ ?_
      · intro kf hkf hg hk
        obtain ⟨p1, p2⟩ := hpend kf (List.mem_cons_of_mem _ hkf) hg hk
        rw [Env.lookup_set, hne kf hkf]
        exact ⟨p1, p2⟩
      · intro a ha hnp
        rw [Env.lookup_set]
        cases hak : a == k with
        | true =>
          have : a = k := by simpa using hak
          subst this
          simp only [if_true]
          rw [(hpend (a, f) List.mem_cons_self ha hkeep).2, hk_final]
        | false =>
          simp only [Bool.false_eq_true, if_false]
          refine hag a ha ?_
          intro kf hkf hk
          cases List.mem_cons.mp hkf with
          | inl h =>
            subst h; intro heq
            have hk' : k = a := heq
            subst hk'; simp at hak
          | inr h => exact hnp kf h hk
    | true =>
      have hfil : ((k, f) :: rest).filter (fun kf => keep kf.1) = (k, f) :: rest.filter (fun kf => keep kf.1) := by
        simp [List.filter_cons, hkeep]
      rw [hfil] at h2
      obtain ⟨v2, hc2, hr2⟩ := evalSeq_cons_ok h2
      refine ih hnd.2 hr1 hr2 hcl' ?_ ?_
      · intro kf hkf hg hk
        obtain ⟨p1, p2⟩ := hpend kf (List.mem_cons_of_mem _ hkf) hg hk
        rw [Env.lookup_set, Env.lookup_set, hne kf hkf]
        exact ⟨p1, p2⟩
      · intro a ha hnp
        have hnp' : ∀ b, b ≠ k → (∀ kf ∈ rest, keep kf.1 = false → kf.1 ≠ b) →
            ∀ kf ∈ (k, f) :: rest, keep kf.1 = false → kf.1 ≠ b := by
          intro b hb hr kf hkf hk
          cases List.mem_cons.mp hkf with
          | inl h => subst h; rw [hkeep] at hk; cases hk
          | inr h => exact hr kf h hk
        rw [Env.lookup_set, Env.lookup_set]
        cases hak : a == k with
        | true =>
          have : a = k := by simpa using hak
          subst this
          simp only [if_true]
          have hargs := hcl (a, f) List.mem_cons_self ha hkeep
          have hsome := Fn.calc_ok_some hc1
          have : f.calc e1 = f.calc e2 := Fn.calc_congr (fun b hb => by
            refine hag b (hargs b hb) ?_
            intro kf hkf hk heq
            obtain ⟨w, hw⟩ := hsome b hb
            have := (hpend kf hkf (heq ▸ hargs b hb) hk).1
            rw [heq, hw] at this; cases this)
          rw [hc1, hc2] at this
          simp at this; simp [this]
        | false =>
          simp only [Bool.false_eq_true, if_false]
          have hak' : a ≠ k := by simpa using hak
          exact hag a ha (hnp' a hak' hnp)

end Mxl
