/-
Basic facts about lookup environments, `Env.set`, `Env.setMany`, `lookupArgs`.
-/
import MxlVerif.Model.Core
namespace Mxl

theorem lookupArgs_nil (env : Env) : lookupArgs env [] = .ok [] := rfl

theorem lookupArgs_cons (env : Env) (a : Name) (as : List Name) :
    lookupArgs env (a :: as) =
      (match env.get a with
       | .error e => .error e
       | .ok v => match lookupArgs env as with
         | .error e => .error e
         | .ok vs => .ok (v :: vs)) := by
  simp only [lookupArgs, List.mapM_cons, bind, Except.bind, pure, Except.pure]
  cases env.get a with
  | error e => rfl
  | ok v =>
    simp only
    cases List.mapM env.get as <;> rfl

theorem get_ok_iff (env : Env) (k : Name) (v : Rat) :
    env.get k = .ok v ↔ env.lookup k = some v := by
  unfold Env.get
  cases h : List.lookup k env with
  | none => simp
  | some w => simp

theorem get_of_lookup {env : Env} {k : Name} {v : Rat} (h : env.lookup k = some v) :
    env.get k = .ok v := (get_ok_iff env k v).mpr h

theorem lookup_set (env : Env) (k n : Name) (v : Rat) :
    (env.set k v).lookup n = if n = k then some v else env.lookup n := by
  unfold Env.set
  rw [List.lookup_cons]
  by_cases h : n = k
  · subst h; simp
  · have : (n == k) = false := by simpa using h
    simp [this, h]

theorem lookup_set_ne (env : Env) {k n : Name} (v : Rat) (h : n ≠ k) :
    (env.set k v).lookup n = env.lookup n := by
  rw [lookup_set]; simp [h]

theorem lookup_set_self (env : Env) (k : Name) (v : Rat) :
    (env.set k v).lookup k = some v := by
  rw [lookup_set]; simp

/-- names untouched by a bulk update keep their binding -/
theorem lookup_setMany_frame (kvs : List (Name × Rat)) :
    ∀ (env : Env) (n : Name), n ∉ kvs.map (·.1) → (env.setMany kvs).lookup n = env.lookup n := by
  induction kvs with
  | nil => intro env n _; rfl
  | cons kv rest ih =>
    intro env n hn
    obtain ⟨k, v⟩ := kv
    simp only [List.map_cons, List.mem_cons, not_or] at hn
    simp only [Env.setMany]
    rw [ih _ n hn.2, lookup_set_ne _ _ hn.1]

/-- with distinct keys every pair of a bulk update is what lookup returns -/
theorem lookup_setMany_mem (kvs : List (Name × Rat)) :
    ∀ (env : Env), (kvs.map (·.1)).Nodup → ∀ kv ∈ kvs, (env.setMany kvs).lookup kv.1 = some kv.2 := by
  induction kvs with
  | nil => intro env _ kv h; cases h
  | cons x rest ih =>
    intro env hnd kv hkv
    obtain ⟨k, v⟩ := x
    simp only [List.map_cons, List.nodup_cons] at hnd
    simp only [Env.setMany]
    rcases List.mem_cons.mp hkv with rfl | h
    · rw [lookup_setMany_frame rest _ _ hnd.1, lookup_set_self]
    · exact ih _ hnd.2 kv h

/-- `lookupArgs` only looks at the bindings of the names it is given -/
theorem lookupArgs_congr {env env' : Env} :
    ∀ (args : List Name), (∀ a ∈ args, env'.lookup a = env.lookup a) →
      lookupArgs env' args = lookupArgs env args := by
  intro args
  induction args with
  | nil => intro _; rfl
  | cons a as ih =>
    intro h
    rw [lookupArgs_cons, lookupArgs_cons, ih (fun x hx => h x (List.mem_cons_of_mem _ hx))]
    have : env'.get a = env.get a := by
      unfold Env.get; rw [h a (by simp)]
    rw [this]

/-- `lookupArgs` succeeds when every name is bound -/
theorem lookupArgs_ok_of_bound {env : Env} :
    ∀ (args : List Name), (∀ a ∈ args, (env.lookup a).isSome) →
      ∃ vs, lookupArgs env args = .ok vs ∧ vs.length = args.length := by
  intro args
  induction args with
  | nil => intro _; exact ⟨[], rfl, rfl⟩
  | cons a as ih =>
    intro h
    obtain ⟨vs, hvs, hlen⟩ := ih (fun x hx => h x (List.mem_cons_of_mem _ hx))
    have ha := h a (by simp)
    cases hl : List.lookup a env with
    | none => rw [hl] at ha; cases ha
    | some v =>
      refine ⟨v :: vs, ?_, by simp [hlen]⟩
      rw [lookupArgs_cons, get_of_lookup hl, hvs]

theorem map_some_inj : ∀ (a b : List Rat), a.map some = b.map some → a = b := by
  intro a
  induction a with
  | nil => intro b h; cases b with
    | nil => rfl
    | cons _ _ => simp at h
  | cons x xs ih =>
    intro b h
    cases b with
    | nil => simp at h
    | cons y ys =>
      simp only [List.map_cons, List.cons.injEq, Option.some.injEq] at h
      rw [h.1, ih ys h.2]

/-- the values `lookupArgs` returns are the bindings of the names, position by position -/
theorem lookupArgs_ok_iff {env : Env} :
    ∀ (args : List Name) (vs : List Rat),
      lookupArgs env args = .ok vs ↔ args.map (fun a => env.lookup a) = vs.map some := by
  intro args
  induction args with
  | nil =>
    intro vs
    rw [lookupArgs_nil]
    cases vs <;> simp
  | cons a as ih =>
    intro vs
    rw [lookupArgs_cons]
    cases hl : List.lookup a env with
    | none =>
      have : env.get a = .error (.keyError a) := by unfold Env.get; rw [hl]
      rw [this]
      cases vs <;> simp [hl]
    | some v =>
      rw [get_of_lookup hl]
      cases hr : lookupArgs env as with
      | error e =>
        cases vs with
        | nil => simp
        | cons w ws =>
          simp only [List.map_cons, List.cons.injEq, hl, reduceCtorEq, false_iff, not_and]
          intro _ h
          have := (ih ws).mpr h
          rw [hr] at this; cases this
      | ok ws' =>
        have h' := (ih ws').mp hr
        cases vs with
        | nil => simp
        | cons w ws =>
          simp only [List.map_cons, List.cons.injEq, hl, Except.ok.injEq, Option.some.injEq]
          constructor
          · rintro ⟨rfl, rfl⟩; exact ⟨rfl, h'⟩
          · rintro ⟨rfl, h2⟩
            refine ⟨rfl, ?_⟩
            have := h'.symm.trans h2
            exact map_some_inj _ _ this

end Mxl
