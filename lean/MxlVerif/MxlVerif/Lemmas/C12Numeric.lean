/- C12 — numeric-side lemmas: `evalInOrder`, `classify` (core Lean only). -/
import MxlVerif.Lemmas.C12WF
namespace Mxl.C12
open Mxl

theorem evalInOrder_inv (ts : List (Name × Comp)) (P : Env → Prop) :
    ∀ (order : List Name) (E E' : Env),
      (∀ k ∈ order, ∀ comp E1 E2, ts.lookup k = some comp → P E1 → comp.calcInpl k E1 = .ok E2 → P E2) →
      P E → evalInOrder ts order E = .ok E' → P E' := by
  intro order
  induction order with
  | nil => intro E E' _ hP h; simp [evalInOrder] at h; subst h; exact hP
  | cons k ks ih =>
    intro E E' hstep hP h
    simp only [evalInOrder] at h
    cases hl : ts.lookup k with
    | none => simp [hl] at h
    | some comp =>
      simp only [hl, bind, Except.bind] at h
      cases hc : comp.calcInpl k E with
      | error err => simp [hc] at h
      | ok E1 =>
        simp only [hc] at h
        exact ih E1 E' (fun k' hk' => hstep k' (List.mem_cons_of_mem _ hk'))
          (hstep k (List.mem_cons_self) comp E E1 hl hP hc) h

theorem evalInOrder_defined (ts : List (Name × Comp)) :
    ∀ (order : List Name) (E E' : Env), evalInOrder ts order E = .ok E' →
      ∀ k ∈ order, ∃ comp, ts.lookup k = some comp := by
  intro order
  induction order with
  | nil => intro _ _ _ k hk; simp at hk
  | cons k ks ih =>
    intro E E' h k' hk'
    simp only [evalInOrder] at h
    cases hl : ts.lookup k with
    | none => simp [hl] at h
    | some comp =>
      simp only [hl, bind, Except.bind] at h
      cases hc : comp.calcInpl k E with
      | error err => simp [hc] at h
      | ok E1 =>
        simp only [hc] at h
        rcases List.mem_cons.mp hk' with h1 | h1
        · exact ⟨comp, h1 ▸ hl⟩
        · exact ih E1 E' h k' h1

theorem calcInpl_fn (k : Name) (fn : Fn) (E E' : Env) (h : (Comp.fn fn).calcInpl k E = .ok E') :
    ∃ v, fn.calc E = .ok v ∧ E' = (k, v) :: E := by
  simp only [Comp.calcInpl, bind, Except.bind] at h
  cases hv : fn.calc E with
  | error err => simp [hv] at h
  | ok v => simp [hv, pure, Except.pure, Env.set] at h; exact ⟨v, rfl, h.symm⟩

theorem agreeOn_set (A : Name → Prop) (T : Symbols) (ρ : Name → Rat) (E : Env) (k : Name) (v : Rat)
    (hA : AgreeOn A T ρ E) (hk : A k → ∀ e, T.lookup k = some e → evalS ρ e = v) :
    AgreeOn A T ρ ((k, v) :: E) := by
  intro k' hk' e v' he hv'
  rw [lookup_cons_eq] at hv'
  by_cases h : k' = k
  · subst h; simp at hv'; subst hv'; exact hk hk' e he
  · simp [h] at hv'; exact hA k' hk' e v' he hv'

/-- the one-pass classification: `apn` only grows, what it gains are derived quantities all of
    whose arguments are in it, and the static order holds variables, parameters and those -/
theorem classify_spec (c : Content) :
    ∀ (order st dy apn so dyo apnF : List Name), classify c order st dy apn = (so, dyo, apnF) →
      (∀ a ∈ apn, a ∈ apnF) ∧
      (∀ k ∈ apnF, k ∈ apn ∨ ∃ f, c.derived.lookup k = some f ∧ ∀ a ∈ f.args, a ∈ apnF) ∧
      (∀ k ∈ so, k ∈ st ∨ (k ∈ order ∧ k ∉ omKeys c.rxns ∧
        (k ∈ omKeys c.vars ∨ k ∈ omKeys c.pars ∨ k ∈ apnF))) := by
  intro order
  induction order with
  | nil =>
    intro st dy apn so dyo apnF h
    simp [classify] at h
    obtain ⟨h1, _, h3⟩ := h
    subst h1 h3
    exact ⟨fun _ h => h, fun _ h => Or.inl h, fun k hk => Or.inl (by simpa using hk)⟩
  | cons k ks ih =>
    intro st dy apn so dyo apnF h
    simp only [classify] at h
    split at h
    · -- reaction or surrogate
      obtain ⟨h1, h2, h3⟩ := ih _ _ _ _ _ _ h
      refine ⟨h1, h2, ?_⟩
      intro k' hk'
      rcases h3 k' hk' with h' | ⟨ho, hr⟩
      · exact Or.inl h'
      · exact Or.inr ⟨List.mem_cons_of_mem _ ho, hr⟩
    · rename_i hnr
      split at h
      · rename_i hvp
        obtain ⟨h1, h2, h3⟩ := ih _ _ _ _ _ _ h
        refine ⟨h1, h2, ?_⟩
        intro k' hk'
        rcases h3 k' hk' with h' | ⟨ho, hr⟩
        · rcases List.mem_cons.mp h' with h'' | h''
          · right
            subst h''
            simp only [Bool.or_eq_true, List.contains_iff_mem, not_or] at hnr hvp
            refine ⟨List.mem_cons_self, hnr.1, ?_⟩
            rcases hvp with hv | hp
            · exact Or.inl hv
            · exact Or.inr (Or.inl hp)
          · exact Or.inl h''
        · exact Or.inr ⟨List.mem_cons_of_mem _ ho, hr⟩
      · split at h
        · obtain ⟨h1, h2, h3⟩ := ih _ _ _ _ _ _ h
          refine ⟨h1, h2, ?_⟩
          intro k' hk'
          rcases h3 k' hk' with h' | ⟨ho, hr⟩
          · exact Or.inl h'
          · exact Or.inr ⟨List.mem_cons_of_mem _ ho, hr⟩
        · rename_i d hd
          split at h
          · rename_i hall
            obtain ⟨h1, h2, h3⟩ := ih _ _ _ _ _ _ h
            refine ⟨fun a ha => h1 a (List.mem_cons_of_mem _ ha), ?_, ?_⟩
            · intro k' hk'
              rcases h2 k' hk' with h' | h'
              · rcases List.mem_cons.mp h' with h'' | h''
                · right
                  subst h''
                  refine ⟨d, hd, ?_⟩
                  intro a ha
                  simp only [List.all_eq_true, List.contains_iff_mem] at hall
                  exact h1 a (List.mem_cons_of_mem _ (hall a ha))
                · exact Or.inl h''
              · exact Or.inr h'
            · intro k' hk'
              rcases h3 k' hk' with h' | ⟨ho, hr⟩
              · rcases List.mem_cons.mp h' with h'' | h''
                · right
                  subst h''
                  simp only [Bool.or_eq_true, List.contains_iff_mem, not_or] at hnr
                  exact ⟨List.mem_cons_self, hnr.1, Or.inr (Or.inr (h1 k' List.mem_cons_self))⟩
                · exact Or.inl h''
              · exact Or.inr ⟨List.mem_cons_of_mem _ ho, hr⟩
          · obtain ⟨h1, h2, h3⟩ := ih _ _ _ _ _ _ h
            refine ⟨h1, h2, ?_⟩
            intro k' hk'
            rcases h3 k' hk' with h' | ⟨ho, hr⟩
            · exact Or.inl h'
            · exact Or.inr ⟨List.mem_cons_of_mem _ ho, hr⟩

end Mxl.C12
