import Mathlib.Analysis.Real.Sqrt
import Mathlib.Analysis.SpecialFunctions.Log.Basic
import Mathlib.Algebra.Order.Field.Basic
import Mathlib.Tactic.Linarith
import MxlVerif.Generated.C20Losses
/-! Lemmas for Props/C20: the number-type instances at ℝ, and sums / means of non-negative lists over any
linearly ordered field (so that the same lemma serves ℝ and the driver's `Rat`). -/
set_option linter.unusedSectionVars false
namespace Mxl.C20

noncomputable instance : HasAbs ℝ := ⟨fun x => |x|⟩
noncomputable instance : HasSqrt ℝ := ⟨Real.sqrt⟩
noncomputable instance : HasLog ℝ := ⟨Real.log⟩

/-- the driver's absolute value on `Rat` is the absolute value -/
theorem ratAbs_eq (x : ℚ) : (HasAbs.abs x : ℚ) = |x| := by
  show (if x < 0 then -x else x) = |x|
  split
  · rename_i h; rw [abs_of_neg h]
  · rename_i h; rw [abs_of_nonneg (le_of_not_gt h)]

section field
variable {α : Type} [Field α] [LinearOrder α] [IsStrictOrderedRing α]

theorem vsum_nil : vsum ([] : List α) = 0 := by simp [vsum]
theorem vsum_cons (x : α) (l : List α) : vsum (x :: l) = x + vsum l := by simp [vsum]

theorem vsum_nonneg (l : List α) (h : ∀ x ∈ l, 0 ≤ x) : 0 ≤ vsum l := by
  induction l with
  | nil => simp [vsum_nil]
  | cons x l ih =>
    rw [vsum_cons]
    exact add_nonneg (h x (by simp)) (ih fun y hy => h y (by simp [hy]))

theorem vsum_eq_zero_iff (l : List α) (h : ∀ x ∈ l, 0 ≤ x) : vsum l = 0 ↔ ∀ x ∈ l, x = 0 := by
  induction l with
  | nil => simp [vsum_nil]
  | cons x l ih =>
    have hx := h x (by simp)
    have hl : ∀ y ∈ l, 0 ≤ y := fun y hy => h y (by simp [hy])
    have hs := vsum_nonneg l hl
    rw [vsum_cons]
    constructor
    · intro e
      have e1 : x = 0 := by linarith
      have e2 : vsum l = 0 := by linarith
      intro y hy
      rcases List.mem_cons.mp hy with rfl | hy
      · exact e1
      · exact (ih hl).mp e2 y hy
    · intro e
      rw [e x (by simp), (ih hl).mpr fun y hy => e y (by simp [hy])]
      simp

theorem vsum_vsub_self (d : List α) : vsum (vsub d d) = 0 := by
  induction d with
  | nil => simp [vsub, vsum_nil]
  | cons x d ih => simp only [vsub, List.zipWith_cons_cons, vsum_cons] at *; rw [ih]; simp

theorem vmean_nonneg (l : List α) (h : ∀ x ∈ l, 0 ≤ x) : 0 ≤ vmean l := by
  unfold vmean
  exact div_nonneg (vsum_nonneg l h) (Nat.cast_nonneg _)

theorem vmean_eq_zero_iff (l : List α) (h : ∀ x ∈ l, 0 ≤ x) : vmean l = 0 ↔ ∀ x ∈ l, x = 0 := by
  unfold vmean
  cases l with
  | nil => simp
  | cons x l =>
    have hne : ((((x :: l).length : ℕ) : α)) ≠ 0 := Nat.cast_ne_zero.mpr (by simp)
    rw [div_eq_zero_iff]
    simp only [hne, or_false]
    exact vsum_eq_zero_iff _ h

/-- lists of equal length are equal iff an elementwise "is zero iff equal" measure vanishes everywhere -/
theorem zipWith_all_zero_iff (g : α → α → α) (Qa Qb : α → Prop)
    (hz : ∀ x y, Qa x → Qb y → (g x y = 0 ↔ x = y)) :
    ∀ (a b : List α), a.length = b.length → (∀ x ∈ a, Qa x) → (∀ y ∈ b, Qb y) →
      ((∀ z ∈ List.zipWith g a b, z = 0) ↔ a = b) := by
  intro a
  induction a with
  | nil => intro b hl _ _; cases b <;> simp_all
  | cons x a ih =>
    intro b hl ha hb
    cases b with
    | nil => simp at hl
    | cons y b =>
      simp only [List.length_cons, Nat.add_right_cancel_iff] at hl
      have := ih b hl (fun z hz' => ha z (by simp [hz'])) (fun z hz' => hb z (by simp [hz']))
      simp only [List.zipWith_cons_cons, List.mem_cons, forall_eq_or_imp, List.cons.injEq]
      rw [this, hz x y (ha x (by simp)) (hb y (by simp))]

theorem zipWith_nonneg (g : α → α → α) (hn : ∀ x y, 0 ≤ g x y) :
    ∀ (a b : List α), ∀ z ∈ List.zipWith g a b, 0 ≤ z := by
  intro a
  induction a with
  | nil => intro b z hz; simp at hz
  | cons x a ih =>
    intro b z hz
    cases b with
    | nil => simp at hz
    | cons y b =>
      simp only [List.zipWith_cons_cons, List.mem_cons] at hz
      rcases hz with rfl | hz
      · exact hn x y
      · exact ih b z hz

/-- a mean of elementwise discrepancies: non-negative, and zero exactly when the two lists coincide -/
theorem sep_loss (g : α → α → α) (Qa Qb : α → Prop) (hn : ∀ x y, 0 ≤ g x y)
    (hz : ∀ x y, Qa x → Qb y → (g x y = 0 ↔ x = y))
    (a b : List α) (hl : a.length = b.length) (ha : ∀ x ∈ a, Qa x) (hb : ∀ y ∈ b, Qb y) :
    0 ≤ vmean (List.zipWith g a b) ∧ (vmean (List.zipWith g a b) = 0 ↔ a = b) := by
  have hnn : ∀ z ∈ List.zipWith g a b, 0 ≤ z := zipWith_nonneg g hn a b
  refine ⟨vmean_nonneg _ hnn, ?_⟩
  rw [vmean_eq_zero_iff _ hnn]
  exact zipWith_all_zero_iff g Qa Qb hz a b hl ha hb

theorem zipWith_zipWith_right (f g : α → α → α) :
    ∀ (a b : List α), List.zipWith f (List.zipWith g a b) b = List.zipWith (fun x y => f (g x y) y) a b := by
  intro a
  induction a with
  | nil => intro b; simp
  | cons x a ih =>
    intro b
    cases b with
    | nil => simp
    | cons y b => simp [ih b]


end field

theorem vsum_vsquare_scale {α : Type} [Field α] (lam : α) (d : List α) :
    vsum (vsquare (vmap (lam * ·) d)) = lam * lam * vsum (vsquare d) := by
  induction d with
  | nil => simp [vmap, vsquare, vsum]
  | cons x d ih =>
    simp only [vmap, vsquare, List.map_cons, vsum, List.foldr_cons] at *
    rw [ih]; ring

theorem zip_fst_snd {β γ : Type} (l : List (β × γ)) : (l.map (·.1)).zip (l.map (·.2)) = l := by
  induction l with
  | nil => rfl
  | cons a l ih => simp [ih]

/-- one shipped loss at ℝ with the domain on which it is a discrepancy measure (data side, prediction side;
predicates on the whole vector) -/
structure LossSpec where
  fn : List ℝ → List ℝ → ℝ
  domD : List ℝ → Prop
  domP : List ℝ → Prop

/-- the generated definitions, by the name they have in fit/losses.py -/
noncomputable def lossReal : String → Option LossSpec
  | "mean" => some ⟨Gen.mean, fun _ => True, fun _ => True⟩
  | "mean_squared" => some ⟨Gen.mean_squared, fun _ => True, fun _ => True⟩
  | "rmse" => some ⟨Gen.rmse, fun _ => True, fun _ => True⟩
  | "mae" => some ⟨Gen.mae, fun _ => True, fun _ => True⟩
  | "mean_absolute_percentage" => some ⟨Gen.mean_absolute_percentage, fun d => ∀ x ∈ d, x ≠ 0, fun _ => True⟩
  | "mean_squared_logarithmic" =>
    some ⟨Gen.mean_squared_logarithmic, fun d => ∀ x ∈ d, -1 < x, fun p => ∀ y ∈ p, -1 < y⟩
  | "cosine_similarity" => some ⟨Gen.cosine_similarity, fun d => ∃ x ∈ d, x ≠ 0, fun p => ∃ y ∈ p, y ≠ 0⟩
  | _ => none

/-- zero-based discrepancy measure (as called by `_Settings.loss`), on its natural domain: never negative, and
zero exactly when the prediction reproduces the data -/
def GoodLoss (name : String) : Prop :=
  ∃ (L : List ℝ → List ℝ → ℝ) (domD domP : List ℝ → Prop), lossReal name = some ⟨L, domD, domP⟩ ∧
    ∀ d p : List ℝ, d.length = p.length → domD d → domP p →
      0 ≤ L d p ∧ (L d p = 0 ↔ p = d)

/-- the property's first clause for one shipped loss: on its domain no prediction scores below the prediction
that reproduces the data -/
def MinimalAtData (name : String) : Prop :=
  ∃ (L : List ℝ → List ℝ → ℝ) (domD domP : List ℝ → Prop), lossReal name = some ⟨L, domD, domP⟩ ∧
    ∀ d p : List ℝ, d.length = p.length → domD d → domP p → L d d ≤ L d p

/-- a zero-based discrepancy measure is minimal at the data (when the data lie in the prediction domain too) -/
theorem GoodLoss.minimal {name : String} (h : GoodLoss name)
    (hdom : ∀ L domD domP, lossReal name = some ⟨L, domD, domP⟩ → ∀ d, domD d → domP d) : MinimalAtData name := by
  obtain ⟨L, domD, domP, hL, hg⟩ := h
  refine ⟨L, domD, domP, hL, fun d p hl hd hp => ?_⟩
  have h1 := (hg d d rfl hd (hdom L domD domP hL d hd)).2.mpr rfl
  rw [h1]
  exact (hg d p hl hd hp).1

end Mxl.C20
