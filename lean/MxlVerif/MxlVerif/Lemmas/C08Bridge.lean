/- the document `write` produces, read by C17's document semantics (bridge between the two properties) -/
import MxlVerif.Lemmas.C08Full
import MxlVerif.Model.C17Doc
namespace Mxl.C08
open Gen Mxl.C17

theorem expandOnce_nil :
    (∀ m : MathML, expandOnce [] m = m) ∧ (∀ ms : List MathML, expandOnceList [] ms = ms) := by
  refine ⟨fun m => ?_, fun ms => ?_⟩
  · induction m using MathML.rec (motive_2 := fun ms => expandOnceList [] ms = ms) with
    | ci n => simp [expandOnce]
    | cn q => simp [expandOnce]
    | cnInf => simp [expandOnce]
    | cnNan => simp [expandOnce]
    | csym c => simp [expandOnce]
    | apply t cs ih =>
      by_cases ht : t = .function
      · subst ht
        simp only [expandOnce, ih]
        cases cs with
        | nil => rfl
        | cons c rest =>
          cases c <;> simp [findFun]
      · cases t <;> simp_all [expandOnce]
    | nil => simp [expandOnceList]
    | cons m ms ihm ihms => simp [expandOnceList, ihm, ihms]
  · induction ms with
    | nil => simp [expandOnceList]
    | cons m ms ih =>
      simp only [expandOnceList, ih]
      congr
      exact (by
        induction m using MathML.rec (motive_2 := fun ms => expandOnceList [] ms = ms) with
        | ci n => simp [expandOnce]
        | cn q => simp [expandOnce]
        | cnInf => simp [expandOnce]
        | cnNan => simp [expandOnce]
        | csym c => simp [expandOnce]
        | apply t cs ih =>
          by_cases ht : t = .function
          · subst ht
            simp only [expandOnce, ih]
            cases cs with
            | nil => rfl
            | cons c rest => cases c <;> simp [findFun]
          · cases t <;> simp_all [expandOnce]
        | nil => simp [expandOnceList]
        | cons m ms ihm ihms => simp [expandOnceList, ihm, ihms])
end Mxl.C08

namespace Mxl.C08
open Gen Mxl.C17

theorem expandFns_nil (m : MathML) : expandFns [] m = m := by
  simp [expandFns, iter, expandOnce_nil.1]

/-- the written document as a document of C17's subset: compartments, species with their attributes, no function definitions -/
def toC17 (dc : SDocC) : Mxl.C17.Doc :=
  { comps := dc.compartments
    species := (dc.doc.species.zip dc.species).map fun p =>
      { id := p.1.1, comp := p.2.compartment, init := p.1.2, isAmount := p.2.initAmount, hosu := p.2.hosu }
    params := dc.doc.params
    fundefs := []
    inits := dc.doc.inits
    rules := dc.doc.rules
    rxns := dc.doc.rxns }

theorem zip_map_self {α β} (l : List α) (f : α → β) : l.zip (l.map f) = l.map fun a => (a, f a) := by
  induction l with
  | nil => rfl
  | cons a as ih => simp [ih]

/-- **document-level bridge to the import side**: C17's flattening (`toSDoc`: what `docInit17 / docVal17 / docRhs17` read) of the
    document `write` produces is the written `SDoc` itself with the compartments added as constant parameters — whatever the
    compartments and their sizes (the species are amounts with hasOnlySubstanceUnits) -/
theorem symInit_amount (d : Mxl.C17.Doc) (s : Mxl.C17.Species) (hh : s.hosu = true) (ha : s.isAmount = true) :
    symInit d s = s.init := by
  cases hi : s.init <;> simp [symInit, symOfAmount, hh, ha, hi]

theorem species_bridge (d : Mxl.C17.Doc) (c : String) : ∀ (l : List (String × Option Rat)),
    (((l.zip (speciesAttrs (some c) l)).map fun p =>
        ({ id := p.1.1, comp := p.2.compartment, init := p.1.2, isAmount := p.2.initAmount, hosu := p.2.hosu } : Mxl.C17.Species)).map
      fun s => (s.id, symInit d s)) = l := by
  have h1 : speciesHosu = true := rfl
  have h2 : speciesInitAmount = true := rfl
  intro l
  induction l with
  | nil => simp [speciesAttrs]
  | cons kv rest ih =>
    have hrest : speciesAttrs (some c) (kv :: rest) = ⟨kv.1, c, speciesHosu, speciesInitAmount⟩ :: speciesAttrs (some c) rest := by
      simp [speciesAttrs]
    rw [hrest]
    simp only [List.zip_cons_cons, List.map_cons, ih]
    rw [symInit_amount d _ (by simp [h1]) (by simp [h2])]

theorem toSDoc_written (m : PyModel) (o : Option (List (String × Rat))) (dc : SDocC) (hv : m.vars ≠ [])
    (h : writeModel m o = .ok dc) :
    Mxl.C17.toSDoc (toC17 dc) =
      { dc.doc with params := dc.doc.params ++ dc.compartments.map (fun kv => (kv.1, some kv.2)) } := by
  obtain ⟨cs, _, he⟩ := writeModel_ok h
  obtain ⟨_, _, comp, hcomp, hsp⟩ := exportModelC_doc he
  have h1 : speciesHosu = true := rfl
  have h2 : speciesInitAmount = true := rfl
  obtain ⟨c, rfl⟩ : ∃ c, comp = some c := by
    cases hvars : m.escArgs.vars with
    | nil => exact absurd ((escArgs_vars_nil m).mp hvars) hv
    | cons v vs => rw [hvars] at hcomp; exact speciesCompartment_some hcomp
  have hspecies : ((toC17 dc).species.map fun s => (s.id, symInit (toC17 dc) s)) = dc.doc.species := by
    have := species_bridge (toC17 dc) c dc.doc.species
    simpa [toC17, hsp] using this
  simp only [toSDoc, hspecies]
  simp [toC17, expandFns_nil]

theorem toC17_species_attrs (m : PyModel) (o : Option (List (String × Rat))) (dc : SDocC) (h : writeModel m o = .ok dc) :
    ∀ s ∈ (toC17 dc).species, s.hosu = true ∧ s.fixed = false := by
  obtain ⟨cs, _, he⟩ := writeModel_ok h
  obtain ⟨_, _, comp, _, hsp⟩ := exportModelC_doc he
  have h1 : speciesHosu = true := rfl
  intro s hs
  simp only [toC17, List.mem_map] at hs
  obtain ⟨p, hp, rfl⟩ := hs
  have hp2 := (List.of_mem_zip hp).2
  rw [hsp] at hp2
  cases comp with
  | none => simp [speciesAttrs] at hp2
  | some c =>
    simp only [speciesAttrs, List.mem_map] at hp2
    obtain ⟨kv, _, hkv⟩ := hp2
    refine ⟨?_, rfl⟩
    rw [← hkv]; exact h1

/-- the whole reading: d amount / dt of C17's semantics on the written document = `docRhs` of the written `SDoc` with the
    compartments as constant parameters, at the same amounts (species are amounts: the state needs no conversion) -/
theorem docRhs17_written (I : Interp) (m : PyModel) (o : Option (List (String × Rat))) (dc : SDocC) (hv : m.vars ≠ [])
    (h : writeModel m o = .ok dc) (amounts : List (String × Rat)) (x : String) :
    docRhs17 I (toC17 dc) amounts x =
      docRhs I { dc.doc with params := dc.doc.params ++ dc.compartments.map (fun kv => (kv.1, some kv.2)) } amounts x := by
  have hattr := toC17_species_attrs m o dc h
  have hstate : symState (toC17 dc) amounts = amounts := by
    unfold symState
    have hpt : ∀ kv ∈ amounts, (match findSpecies (toC17 dc) kv.1 with
        | some s => (kv.1, symOfAmount (toC17 dc) s kv.2) | none => kv) = id kv := by
      intro kv _
      cases hf : findSpecies (toC17 dc) kv.1 with
      | none => rfl
      | some s =>
        have hm : s ∈ (toC17 dc).species := List.mem_of_find?_eq_some hf
        simp [symOfAmount, (hattr s hm).1]
    exact (List.map_congr_left hpt).trans (by simp)
  unfold docRhs17
  rw [hstate, toSDoc_written m o dc hv h]
  cases hf : findSpecies (toC17 dc) x with
  | none => rfl
  | some s =>
    have hm : s ∈ (toC17 dc).species := List.mem_of_find?_eq_some hf
    simp [(hattr s hm).2]
end Mxl.C08
