/- C06: the generated tables satisfy `TablesOk` (re-checked on every run against the current source_tools.py). -/
import MxlVerif.Lemmas.C06Main
import MxlVerif.Generated.C06Tables
namespace Mxl.C06

/-- Boolean form of `TablesOk.knownFns` -/
def knownFnsCheck (l : List (String × String)) : Bool :=
  l.all fun ks =>
    match symMeaning ks.2 with
    | none => true
    | some m => !(isExactFn m || isOpaqueFn m) || pyMeaning ks.1 == some m

theorem knownFnsCheck_generated : knownFnsCheck Generated.knownFns = true := by decide

theorem knownFns_of_check {l : List (String × String)} (h : knownFnsCheck l = true) :
    ∀ k s m, (k, s) ∈ l → symMeaning s = some m → (isExactFn m = true ∨ isOpaqueFn m = true) →
      pyMeaning k = some m := by
  intro k s m hmem hs hex
  unfold knownFnsCheck at h
  rw [List.all_eq_true] at h
  have := h (k, s) hmem
  simp only [hs] at this
  rcases hex with hex | hex <;> simpa [hex] using this

/-! ### `_check_branch` as read from the source is `branchOk` -/

theorem assignOnly_eq_plain : ∀ b : List PyStmt, assignOnly b = (!b.isEmpty && b.all isPlainAssign)
  | [] => by simp [assignOnly]
  | [s] => by cases s <;> simp [assignOnly, isPlainAssign]
  | s :: s2 :: rest => by
    have ih := assignOnly_eq_plain (s2 :: rest)
    cases s <;> simp_all [assignOnly, isPlainAssign]

theorem lastAssigned_plain : ∀ b : List PyStmt, b.all isPlainAssign = true →
    lastAssigned b = match b.getLast? with
      | some (.assign x _) => some x
      | _ => none
  | [], _ => by simp [lastAssigned]
  | [s], h => by cases s <;> simp_all [lastAssigned, isPlainAssign]
  | s :: s2 :: rest, h => by
    have h2 : (s2 :: rest).all isPlainAssign = true := by simp_all
    have ih := lastAssigned_plain (s2 :: rest) h2
    have hlast : (s :: s2 :: rest).getLast? = (s2 :: rest).getLast? := by simp [List.getLast?_cons_cons]
    rw [hlast, ← ih]
    cases hr : lastAssigned (s2 :: rest) with
    | some y => simp only [lastAssigned] at hr ⊢; rw [hr]
    | none =>
      exfalso
      rw [ih] at hr
      have hmem : ∀ t ∈ (s2 :: rest), isPlainAssign t = true := by simpa using h2
      cases hg : (s2 :: rest).getLast? with
      | none => simp at hg
      | some t =>
        have ht := hmem t (List.mem_of_getLast? hg)
        rw [hg] at hr
        cases t <;> simp_all [isPlainAssign]

end Mxl.C06
