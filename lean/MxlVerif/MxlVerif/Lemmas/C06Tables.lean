/- C06: the generated tables satisfy `TablesOk` (re-checked on every run against the current source_tools.py). -/
import MxlVerif.Lemmas.C06Main
import MxlVerif.Generated.C06Tables
namespace Mxl.C06

/-- Boolean form of `TablesOk.knownFns` -/
def knownFnsCheck (l : List (String × String)) : Bool :=
  l.all fun ks =>
    match symMeaning ks.2 with
    | none => true
    | some m => !(isExactFn m || isOpaqueFn m) || pyMeaning ks.1 == some m

theorem knownFnsCheck_generated : knownFnsCheck Generated.knownFns = true := by decide

theorem knownFns_of_check {l : List (String × String)} (h : knownFnsCheck l = true) :
    ∀ k s m, (k, s) ∈ l → symMeaning s = some m → (isExactFn m = true ∨ isOpaqueFn m = true) →
      pyMeaning k = some m := by
  intro k s m hmem hs hex
  unfold knownFnsCheck at h
  rw [List.all_eq_true] at h
  have := h (k, s) hmem
  simp only [hs] at this
  rcases hex with hex | hex <;> simpa [hex] using this

end Mxl.C06
