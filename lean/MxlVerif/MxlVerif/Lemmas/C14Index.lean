/-
C14: the index produced by a whole time-course protocol call on the specification machine.
-/
import MxlVerif.Lemmas.C14Refine
namespace Mxl.C14
open Mxl.C04

/-- the points the steps ask for, in order -/
def allStepPoints (pts : List Rat) : Rat → List PStep → List Rat
  | _, [] => []
  | T, (d, _) :: rest => stepPoints pts T (T + d) ++ allStepPoints pts (T + d) rest

/-- cumulative ends -/
def boundaries : Rat → List PStep → List Rat
  | _, [] => []
  | T, (d, _) :: rest => (T + d) :: boundaries (T + d) rest

def totalEnd : Rat → List PStep → Rat
  | T, [] => T
  | T, (d, _) :: rest => totalEnd (T + d) rest

/-- what is on the axis before the call as far as the call is concerned -/
def axisBase {σ} (a : Spec σ) : List Rat :=
  match a.segs with
  | none => [a.now]
  | some _ => times a.segs

theorem totalEnd_ge (T : Rat) (steps : List PStep) (hpos : steps.all (fun s => decide (0 < s.1)) = true) :
    T ≤ totalEnd T steps := by
  induction steps generalizing T with
  | nil => exact Rat.le_refl
  | cons s rest ih =>
    obtain ⟨d, p⟩ := s
    simp only [List.all_cons, Bool.and_eq_true, decide_eq_true_eq] at hpos
    have := ih (T + d) hpos.2
    simp only [totalEnd]
    grind

/-- partition of `(T, T_end]` into the half-open step intervals -/
theorem mem_allStepPoints (pts : List Rat) (T : Rat) (steps : List PStep)
    (hpos : steps.all (fun s => decide (0 < s.1)) = true) (t : Rat) :
    t ∈ allStepPoints pts T steps ↔
      (t ∈ pts ∧ T < t ∧ t ≤ totalEnd T steps) ∨ t ∈ boundaries T steps := by
  induction steps generalizing T with
  | nil =>
    simp only [allStepPoints, boundaries, totalEnd, List.not_mem_nil, or_false, false_iff, not_and]
    intro _ h1 h2; grind
  | cons s rest ih =>
    obtain ⟨d, p⟩ := s
    simp only [List.all_cons, Bool.and_eq_true, decide_eq_true_eq] at hpos
    have hge := totalEnd_ge (T + d) rest hpos.2
    simp only [allStepPoints, boundaries, totalEnd, List.mem_append, List.mem_cons,
      mem_stepPoints pts T (T + d) t (by grind), ih (T + d) hpos.2]
    constructor
    · rintro ((⟨h1, h2, h3⟩ | h) | (⟨h1, h2, h3⟩ | h))
      · left; exact ⟨h1, h2, by grind⟩
      · right; left; exact h
      · left; exact ⟨h1, by grind, h3⟩
      · right; right; exact h
    · rintro (⟨h1, h2, h3⟩ | h | h)
      · by_cases hc : t ≤ T + d
        · left; left; exact ⟨h1, h2, hc⟩
        · right; left; exact ⟨h1, by grind, h3⟩
      · left; right; exact h
      · right; right; exact h

/-- a time course all of whose points are later than `now`, when accepted, appends exactly them -/
theorem Spec.timeCourse_all_later {σ} (S : Sys σ) (a : Spec σ) (sp : List Rat) (last : Rat)
    (hf : a.failed = false) (hl : sp.getLast? = some last) (hgt : ∀ t ∈ sp, a.now < t)
    (hacc : (Spec.timeCourse S a sp).2 = none) :
    (Spec.timeCourse S a sp).1 = Spec.record S a (a.now :: sp) last := by
  have hlt : ¬ last ≤ a.now := by
    have := hgt last (List.mem_of_getLast? hl); grind
  have hfilter : sp.filter (a.now ≤ ·) = sp := by
    rw [List.filter_eq_self]
    intro t ht
    have := hgt t ht
    simp; grind
  have hhead : (sp.head? == some a.now) = false := by
    cases sp with
    | nil => rfl
    | cons x xs =>
      have := hgt x (by simp)
      have hne : x ≠ a.now := by grind
      simpa using hne
  revert hacc
  unfold Spec.timeCourse
  simp only [hf, Bool.false_eq_true, if_false, hl, hlt, hfilter, hhead]
  split
  · intro h; cases h
  · intro _; rfl

theorem Spec.protocolTC_times {σ} (S : Sys σ) (pts : List Rat) : ∀ (steps : List PStep) (a : Spec σ),
    a.failed = false → steps.all (fun s => decide (0 < s.1)) = true →
    (Spec.runStop S a (expandProtocolTC pts a.now steps)).2 = none →
    times (Spec.runStop S a (expandProtocolTC pts a.now steps)).1.segs =
      (if steps.isEmpty then times a.segs else axisBase a ++ allStepPoints pts a.now steps) ∧
    (Spec.runStop S a (expandProtocolTC pts a.now steps)).1.now = totalEnd a.now steps
  | [], a, _, _, _ => ⟨rfl, rfl⟩
  | (d, p) :: rest, a, hf, hpos, hacc => by
    have hpos' := hpos
    simp only [List.all_cons, Bool.and_eq_true, decide_eq_true_eq] at hpos'
    simp only [expandProtocolTC, Spec.runStop, Spec.step] at hacc ⊢
    -- the parameter update
    rcases hup : Spec.updPars a p with ⟨a1, _ | e⟩
    · rw [hup] at hacc
      simp only at hacc ⊢
      have ha1 : a1 = { a with pars := (parsUpdate a.pars p).1 } := by
        have := congrArg Prod.fst hup
        simpa [Spec.updPars] using this.symm
      have hnow1 : a1.now = a.now := by rw [ha1]
      have hsegs1 : a1.segs = a.segs := by rw [ha1]
      have hf1 : a1.failed = false := by rw [ha1]; exact hf
      -- the time course of this step
      rcases htc : Spec.timeCourse S a1 (stepPoints pts a.now (a.now + d)) with ⟨a2, _ | e⟩
      · rw [htc] at hacc
        simp only at hacc ⊢
        have hlast := stepPoints_getLast pts a.now (a.now + d) (by grind)
        have hgt : ∀ t ∈ stepPoints pts a.now (a.now + d), a1.now < t := by
          intro t ht
          rw [hnow1]
          rcases (mem_stepPoints pts a.now (a.now + d) t (by grind)).mp ht with ⟨_, h, _⟩ | h
          · exact h
          · grind
        have hrec := Spec.timeCourse_all_later S a1 _ (a.now + d) hf1 hlast hgt (by rw [htc])
        rw [htc] at hrec
        simp only at hrec
        have hnow2 : a2.now = a.now + d := by rw [hrec]; rfl
        have hf2 : a2.failed = false := by rw [hrec]; exact hf1
        have htimes2 : times a2.segs = axisBase a ++ stepPoints pts a.now (a.now + d) := by
          rw [hrec, times_record, hsegs1, hnow1]
          unfold axisBase
          cases a.segs <;> rfl
        have hsome2 : ∃ l, a2.segs = some l := by rw [hrec]; exact ⟨_, rfl⟩
        have hbase2 : axisBase a2 = times a2.segs := by
          obtain ⟨l, hl⟩ := hsome2
          simp [axisBase, hl]
        have ih := Spec.protocolTC_times S pts rest a2 hf2 hpos'.2 (by rw [hnow2]; exact hacc)
        rw [hnow2] at ih
        refine ⟨?_, ?_⟩
        · rw [ih.1]
          simp only [List.isEmpty_cons, Bool.false_eq_true, if_false, allStepPoints]
          cases rest with
          | nil => simp [allStepPoints, htimes2]
          | cons s' rest' =>
            simp only [List.isEmpty_cons, Bool.false_eq_true, if_false]
            rw [hbase2, htimes2, List.append_assoc]
        · rw [ih.2]; rfl
      · rw [htc] at hacc; simp at hacc
    · rw [hup] at hacc; simp at hacc

end Mxl.C14
