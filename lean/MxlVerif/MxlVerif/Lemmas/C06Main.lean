/- C06 helper lemmas, part 4: the soundness induction. -/
import MxlVerif.Lemmas.C06Imp
namespace Mxl.C06

theorem All2.imp {α β} {R S : α → β → Prop} (h : ∀ a b, R a b → S a b) :
    ∀ {as : List α} {bs : List β}, All2 R as bs → All2 S as bs
  | _, _, .nil => .nil
  | _, _, .cons hab hr => .cons (h _ _ hab) (All2.imp h hr)

theorem evalExpr_cmp_bool (P : Prog) (g : Nat) (G L env l ops rs) (cv : Val)
    (h : evalExpr P g G L env (.cmp l ops rs) = some cv) : ∃ b, cv = .bool b := by
  cases g with
  | zero => simp [evalExpr] at h
  | succ g =>
    rw [evalExpr] at h
    split at h
    · split at h
      · cases h
      · exact cmpFold_bool _ _ _ _ _ h
    · cases h

theorem args_vals (P : Prog) (G L env) (ρ : SEnv) : ∀ (g : Nat) (es : List PyExpr) (ss : List SExpr) (vs : List Val),
    All2 (fun e s => ∀ f2 v, evalExpr P f2 G L env e = some v → evalS ρ s = some v) es ss →
    evalArgs P g G L env es = some vs → All2 (fun s v => evalS ρ s = some v) ss vs
  | 0, _, _, _, _, h => by simp [evalArgs] at h
  | g+1, [], _, vs, .nil, h => by
    simp [evalArgs] at h; subst h; exact .nil
  | g+1, a :: as, _, vs, .cons ha hr, h => by
    rw [evalArgs] at h
    cases h1 : evalExpr P g G L env a with
    | none => simp [h1] at h
    | some v1 =>
      cases h2 : evalArgs P g G L env as with
      | none => simp [h1, h2] at h
      | some v2 =>
        simp [h1, h2] at h
        subst h
        exact .cons (ha _ _ h1) (args_vals P G L env ρ g as _ v2 hr h2)

/-- the statements proved together, for translator fuel `f` -/
structure Sound (T : Tables) (P : Prog) (f : Nat) : Prop where
  expr : ∀ G I L ctx env ρ e s, trExpr T P f G I ctx e = .ok s → Agree ctx env ρ → DomL ctx L → ImpOk I env L →
    ∀ f2 v, evalExpr P f2 G L env e = some v → evalS ρ s = some v
  args : ∀ G I L ctx env ρ es ss, trArgs T P f G I ctx es = .ok ss → Agree ctx env ρ → DomL ctx L → ImpOk I env L →
    All2 (fun e s => ∀ f2 v, evalExpr P f2 G L env e = some v → evalS ρ s = some v) es ss
  loop : ∀ G I L body pieces rem isElif ctx env ρ s ctx',
    trLoop T P f G I body pieces rem isElif ctx = .ok (s, ctx') →
    Agree ctx env ρ → DomL ctx L → ImpOk I env L → (∀ x ∈ bodyAssigned rem, L.contains x = true) →
    (∀ p ∈ pieces, evalS ρ p.2 = some (.bool false)) →
    ∀ f2 v, execBody P f2 G L env rem = some (.ret v) → evalS ρ s = some v
  /-- a body of plain assignments that falls through: the result is the last assigned name's value and the final
  context describes the final environment -/
  fall : ∀ G I L body rem isElif ctx env ρ s ctx',
    trLoop T P f G I body [] rem isElif ctx = .ok (s, ctx') → allAssign rem = true →
    Agree ctx env ρ → DomL ctx L → ImpOk I env L → (∀ x ∈ bodyAssigned rem, L.contains x = true) →
    ∀ f2 env', execBody P f2 G L env rem = some (.fall env') →
    Agree ctx' env' ρ ∧ ∃ n, lastAssigned body = some n ∧ List.lookup n ctx' = some s
  fnPlain : ∀ d margs s, fnToSympy T P f d margs = .ok s → (margs = none ∨ margs = some []) →
    ∀ f2 vs v, callFn P f2 d vs = some v →
    ∀ ρ : SEnv, (∀ n x, List.lookup n (d.params.zip vs) = some x → ρ n = some x) → evalS ρ s = some v
  fnSubst : ∀ d m ms s, fnToSympy T P f d (some (m :: ms)) = .ok s →
    ∀ f2 vs v, callFn P f2 d vs = some v →
    ∀ ρ' : SEnv, All2 (fun m x => evalS ρ' m = some x) (m :: ms) vs → evalS ρ' s = some v

theorem sound_zero (T : Tables) (P : Prog) : Sound T P 0 := by
  constructor <;> intros <;> simp_all [trExpr, trArgs, trLoop, fnToSympy]

theorem find_mem (P : Prog) (g : String) (d : FnDef) (h : P.find g = some d) : d ∈ P := by
  unfold Prog.find at h
  exact List.mem_of_find?_eq_some h

theorem knownCall_ok {T : Tables} {key : String} {sargs : List SExpr} {s : SExpr}
    (h : knownCall T key sargs = .ok s) :
    ∃ sname m, (key, sname) ∈ T.knownFns ∧ symMeaning sname = some m ∧
      (isExactFn m = true ∨ isOpaqueFn m = true) ∧
      ((∃ a, sargs = [a] ∧ s = .app1 m a) ∨ (∃ a b, sargs = [a, b] ∧ s = .app2 m a b)) := by
  unfold knownCall at h
  cases hl : List.lookup key T.knownFns with
  | none => simp [hl] at h
  | some sname =>
    rw [hl] at h
    simp only at h
    cases hm : symMeaning sname with
    | none => simp [hm] at h
    | some m =>
      rw [hm] at h
      simp only at h
      split at h
      · cases h
      · have shape : ∀ e : SExpr,
            (if isExactFn m = true then
                match evalS emptyEnv e with
                | some (Val.num _) => (Except.ok e : TR SExpr)
                | _ => Except.error (TErr.refused "TypeError: Float() of a non-number")
              else if isOpaqueFn m = true then Except.ok e
              else Except.error (TErr.refused "sympy function that does not evaluate on numbers")) = Except.ok s →
            s = e ∧ (isExactFn m = true ∨ isOpaqueFn m = true) := by
          intro e he
          split at he
          · rename_i hex
            split at he
            · cases he; exact ⟨rfl, Or.inl hex⟩
            · cases he
          · split at he
            · rename_i hop
              cases he; exact ⟨rfl, Or.inr hop⟩
            · cases he
        refine ⟨sname, m, lookup_mem _ _ _ hl, hm, ?_⟩
        match sargs, h with
        | [a], h =>
          simp only at h
          obtain ⟨h1, h2⟩ := shape _ h
          exact ⟨h2, Or.inl ⟨a, rfl, h1⟩⟩
        | [a, b], h =>
          simp only at h
          obtain ⟨h1, h2⟩ := shape _ h
          exact ⟨h2, Or.inr ⟨a, b, rfl, h1⟩⟩
        | [], h => simp at h
        | _ :: _ :: _ :: _, h => simp at h

section step
variable {T : Tables} {P : Prog} {f : Nat}

theorem sound_expr (hT : TablesOk T) (ih : Sound T P f) :
    ∀ G I L ctx env ρ e s, trExpr T P (f+1) G I ctx e = .ok s → Agree ctx env ρ → DomL ctx L → ImpOk I env L →
    ∀ f2 v, evalExpr P f2 G L env e = some v → evalS ρ s = some v := by
  intro G I L ctx env ρ e s h hag hdl hi f2 v hpy
  cases f2 with
  | zero => simp [evalExpr] at hpy
  | succ g =>
  cases e with
  | num q =>
    rw [trExpr] at h; rw [evalExpr] at hpy
    cases h; cases hpy; simp [evalS]
  | name n =>
    rw [trExpr] at h; rw [evalExpr] at hpy
    cases hc : List.lookup n ctx with
    | some s0 =>
      rw [hc] at h
      cases h
      have hL := hdl n _ hc
      rw [if_pos hL] at hpy
      split at hpy
      · cases hpy
      · rename_i hno
        rcases hag n v hpy with ⟨g, hg⟩ | ⟨s', hs', hv⟩
        · subst hg; exact absurd hpy (hno g)
        · rw [hc] at hs'; cases hs'; exact hv
    | none =>
      rw [hc] at h
      by_cases hL : L.contains n = true
      · rw [if_pos hL] at hpy
        split at hpy
        · cases hpy
        · rename_i hno
          rcases hag n v hpy with ⟨g, hg⟩ | ⟨s', hs', _⟩
          · subst hg; exact absurd hpy (hno g)
          · rw [hc] at hs'; cases hs'
      · rw [if_neg hL] at hpy
        cases hg : List.lookup n G with
        | none => simp [hg] at h
        | some gv =>
          rw [hg] at h hpy
          cases gv <;> simp at h hpy <;> subst h <;> subst hpy <;> simp [evalS]
  | attr p =>
    rw [trExpr] at h; rw [evalExpr] at hpy
    cases hg : pyAttr G L env p with
    | none => simp [hg] at hpy
    | some gv =>
      rw [pyAttr_tr hi hg] at h
      rw [hg] at hpy
      cases gv <;> simp at h hpy <;> subst h <;> subst hpy <;> simp [evalS]
  | un op a =>
    rw [trExpr] at h; rw [evalExpr] at hpy
    rw [bind_ok] at h
    obtain ⟨sa, hsa, h⟩ := h
    cases ha : evalExpr P g G L env a with
    | none => simp [ha] at hpy
    | some va =>
      have hva := ih.expr _ _ _ _ _ _ _ _ hsa hag hdl hi _ _ ha
      rw [ha] at hpy
      cases va with
      | bool _ => simp at hpy
      | obj _ => simp at hpy
      | num x =>
        simp only at hpy
        cases hl : List.lookup op T.unops with
        | none => simp [hl] at h
        | some sop =>
          rw [hl] at h
          simp only at h
          split at h
          · cases h
            cases hp : pyUn op x with
            | none => simp [hp] at hpy
            | some r =>
              simp [hp] at hpy
              subst hpy
              simp [evalS, hva, hT.unops op sop (lookup_mem _ _ _ hl) x r hp]
          · cases h
  | bin op a b =>
    rw [trExpr] at h; rw [evalExpr] at hpy
    rw [bind_ok] at h
    obtain ⟨sa, hsa, h⟩ := h
    rw [bind_ok] at h
    obtain ⟨sb, hsb, h⟩ := h
    cases ha : evalExpr P g G L env a with
    | none => simp [ha] at hpy
    | some va =>
      cases hb : evalExpr P g G L env b with
      | none => rw [ha, hb] at hpy; cases va <;> simp at hpy
      | some vb =>
        have hva := ih.expr _ _ _ _ _ _ _ _ hsa hag hdl hi _ _ ha
        have hvb := ih.expr _ _ _ _ _ _ _ _ hsb hag hdl hi _ _ hb
        rw [ha, hb] at hpy
        cases va with
        | bool _ => simp at hpy
        | obj _ => simp at hpy
        | num x =>
          cases vb with
          | bool _ => simp at hpy
          | obj _ => simp at hpy
          | num y =>
            simp only at hpy
            cases hl : List.lookup op T.binops with
            | none => simp [hl] at h
            | some sop =>
              rw [hl] at h
              simp only at h
              split at h
              · cases h
                cases hp : pyBin op x y with
                | none => simp [hp] at hpy
                | some r =>
                  simp [hp] at hpy
                  subst hpy
                  simp [evalS, hva, hvb, hT.binops op sop (lookup_mem _ _ _ hl) x y r hp]
              · cases h
  | cmp l ops rs =>
    rw [trExpr] at h; rw [evalExpr] at hpy
    rw [bind_ok] at h
    obtain ⟨left, hleft, h⟩ := h
    rw [bind_ok] at h
    obtain ⟨rights, hrights, h⟩ := h
    rw [bind_ok] at h
    obtain ⟨cs, hcs, h⟩ := h
    cases hl : evalExpr P g G L env l with
    | none => simp [hl] at hpy
    | some vl =>
      have hvl := ih.expr _ _ _ _ _ _ _ _ hleft hag hdl hi _ _ hl
      rw [hl] at hpy
      cases vl with
      | bool _ => simp at hpy
      | obj _ => simp at hpy
      | num x =>
        simp only at hpy
        split at hpy
        · cases hpy
        · rename_i hne
          have hall := ih.args _ _ _ _ _ _ _ _ hrights hag hdl hi
          have hall' : All2 (fun e s => ∀ v, evalExpr P g G L env e = some v → evalS ρ s = some v) rs rights :=
            All2.imp (fun e s hh v hv => hh g v hv) hall
          obtain ⟨c, cs', hcs', hres⟩ := cmp_sound hT ρ _ ops rs rights left x cs v hall' hvl
            (by simpa using hne) hcs hpy
          subst hcs'
          simp only at h
          cases h
          exact hres
  | ife c t e =>
    rw [trExpr] at h; rw [evalExpr] at hpy
    rw [bind_ok] at h
    obtain ⟨cond, hcond, h⟩ := h
    rw [hT.testsBool] at h
    split at h
    · cases h
    rename_i hbs
    have hbs' : isBoolSorted cond = true := by simpa using hbs
    rw [bind_ok] at h
    obtain ⟨tt, htt, h⟩ := h
    rw [bind_ok] at h
    obtain ⟨ee, hee, h⟩ := h
    have hs := mkPiecewise_ok h
    subst hs
    cases hc : evalExpr P g G L env c with
    | none => simp [hc] at hpy
    | some cv =>
      have hvc := ih.expr _ _ _ _ _ _ _ _ hcond hag hdl hi _ _ hc
      rw [hc] at hpy
      simp only at hpy
      obtain ⟨b, hb⟩ := boolSorted_val hbs' hvc
      subst hb
      cases b with
      | true =>
        simp only [truthy, ↓reduceIte] at hpy
        rw [evalS_pwOf_hit ρ _ _ _ hvc]
        exact ih.expr _ _ _ _ _ _ _ _ htt hag hdl hi _ _ hpy
      | false =>
        simp only [truthy, Bool.false_eq_true, ↓reduceIte] at hpy
        have := evalS_pwOf_skip ρ [(tt, cond)] [(ee, .boolLit true)] (by simpa using hvc)
        simp only [List.cons_append, List.nil_append] at this
        rw [this, evalS_pwOf_hit ρ _ _ _ (by simp [evalS])]
        exact ih.expr _ _ _ _ _ _ _ _ hee hag hdl hi _ _ hpy
  | call tgt args =>
    rw [trExpr] at h; rw [evalExpr] at hpy
    rw [bind_ok] at h
    obtain ⟨sargs, hsargs, h⟩ := h
    cases ha : evalArgs P g G L env args with
    | none => simp [ha] at hpy
    | some vs =>
      rw [ha] at hpy
      simp only at hpy
      have hall := ih.args _ _ _ _ _ _ _ _ hsargs hag hdl hi
      have hvals := args_vals P G L env ρ g args sargs vs hall ha
      by_cases hres : pyResolve G L env tgt = .unresolved
      · rw [hres] at hpy; simp at hpy
      rw [pyResolve_tr hi hres] at h
      generalize pyResolve G L env tgt = tgt' at h hpy
      cases tgt' with
      | unresolved => simp at h
      | known key =>
        simp only at h hpy
        obtain ⟨sname, m, hmem, hsm, hex, hshape⟩ := knownCall_ok h
        have hpm := hT.knownFns key sname m hmem hsm hex
        rw [hpm] at hpy
        simp only at hpy
        rcases hshape with ⟨a, ha', hs⟩ | ⟨a, b, ha', hs⟩
        · subst ha' hs
          cases hvals with
          | cons hav hr =>
            cases hr
            simp [evalS, hav, hpy]
        · subst ha' hs
          cases hvals with
          | cons hav hr =>
            cases hr with
            | cons hbv hr2 =>
              cases hr2
              simp [evalS, hav, hbv, hpy]
      | user g' =>
        simp only at h hpy
        cases hfind : P.find g' with
        | none => simp [hfind] at h
        | some d =>
          rw [hfind] at h hpy
          simp only at h hpy
          cases sargs with
          | nil =>
            cases hvals
            refine ih.fnPlain d (some []) s h (Or.inr rfl) g [] v hpy ρ ?_
            intro n x hn
            simp at hn
          | cons m ms =>
            exact ih.fnSubst d m ms s h g vs v hpy ρ hvals
  | callKw tgt args =>
    rw [evalExpr] at hpy; cases hpy
  | unsupported =>
    rw [trExpr] at h; cases h

theorem sound_args (ih : Sound T P f) :
    ∀ G I L ctx env ρ es ss, trArgs T P (f+1) G I ctx es = .ok ss → Agree ctx env ρ → DomL ctx L → ImpOk I env L →
    All2 (fun e s => ∀ f2 v, evalExpr P f2 G L env e = some v → evalS ρ s = some v) es ss := by
  intro G I L ctx env ρ es ss h hag hdl hi
  cases es with
  | nil => rw [trArgs] at h; cases h; exact .nil
  | cons a as =>
    rw [trArgs] at h
    rw [bind_ok] at h
    obtain ⟨s, hs, h⟩ := h
    rw [bind_ok] at h
    obtain ⟨ss', hss, h⟩ := h
    rw [pure_ok] at h
    subst h
    exact .cons (fun f2 v hv => ih.expr _ _ _ _ _ _ _ _ hs hag hdl hi f2 v hv)
      (ih.args _ _ _ _ _ _ _ _ hss hag hdl hi)

theorem contains_of_mem {L : List String} {x : String} (h : x ∈ L) : L.contains x = true := by
  simpa using h

theorem exec_single_cons (P : Prog) {g : Nat} {G L env} {st : PyStmt} {rest : List PyStmt} {r o : Outcome}
    (h1 : execBody P g G L env [st] = some r)
    (h2 : match r with
          | .ret v' => o = .ret v'
          | .fall env' => execBody P (g+1) G L env' rest = some o) :
    execBody P (g+2) G L env (st :: rest) = some o := by
  cases g with
  | zero => simp [execBody] at h1
  | succ g =>
    rw [execBody] at h1
    rw [execBody]
    cases hs : execStmt P g G L env st with
    | none => simp [hs] at h1
    | some o1 =>
      rw [hs] at h1
      have hs' : execStmt P (g+1+1) G L env st = some o1 := execStmt_mono P (by omega) hs
      rw [hs']
      cases o1 with
      | ret v' =>
        simp only at h1 ⊢
        cases h1
        simp only at h2
        rw [h2]
      | fall env1 =>
        simp only at h1 ⊢
        cases g with
        | zero => simp [execBody] at h1
        | succ g =>
          rw [execBody] at h1
          cases h1
          simp only at h2
          exact h2

theorem pw_hit_after (ρ : SEnv) (pieces more : List (SExpr × SExpr)) (ifE cond : SExpr)
    (hpf : ∀ p ∈ pieces, evalS ρ p.2 = some (.bool false)) (hc : evalS ρ cond = some (.bool true)) :
    evalS ρ (pwOf (pieces ++ [(ifE, cond)] ++ more)) = evalS ρ ifE := by
  rw [List.append_assoc, evalS_pwOf_skip ρ pieces _ hpf]
  simp only [List.cons_append, List.nil_append]
  exact evalS_pwOf_hit ρ _ _ _ hc

theorem ret_name_val {P : Prog} {G : List (String × GVal)} {L : List String} {env : PyEnv} {n : String} {v : Val}
    (hL : L.contains n = true) :
    ∀ g, execBody P g G L env [.ret (.name n)] = some (.ret v) → List.lookup n env = some v ∧ NotObj v := by
  intro g h
  cases g with
  | zero => simp [execBody] at h
  | succ g =>
    rw [execBody] at h
    cases g with
    | zero => simp [execStmt] at h
    | succ g =>
      rw [execStmt] at h
      cases g with
      | zero => simp [evalExpr] at h
      | succ g =>
        rw [evalExpr] at h
        rw [if_pos hL] at h
        cases hl : List.lookup n env with
        | none => simp [hl] at h
        | some w =>
          rw [hl] at h
          cases w with
          | obj g' => simp at h
          | num q => simp at h; subst h; exact ⟨rfl, notObj_num q⟩
          | bool b => simp at h; subst h; exact ⟨rfl, notObj_bool b⟩

/-- the value a translated branch contributes is the value the function returns when Python takes the branch:
either the branch returns it, or it falls through and the accepted continuation returns it -/
theorem branch_value (ih : Sound T P f) {G : List (String × GVal)} {I : Imps} {L : List String}
    {b rest : List PyStmt} {ctx ctxB : Syms} {env : PyEnv} {ρ : SEnv} {bE : SExpr} {g : Nat} {o : Outcome} {v : Val}
    (hb : trLoop T P f G I b [] b false ctx = .ok (bE, ctxB)) (hbo : branchOk rest b = true)
    (hag : Agree ctx env ρ) (hdl : DomL ctx L) (hi : ImpOk I env L) (hsub : ∀ x ∈ bodyAssigned b, L.contains x = true)
    (hex : execBody P g G L env b = some o)
    (hcont : match o with
             | .ret v' => v' = v
             | .fall env' => ∃ g2, execBody P g2 G L env' rest = some (.ret v)) :
    evalS ρ bE = some v := by
  cases o with
  | ret v' =>
    simp only at hcont
    subst hcont
    exact ih.loop G I L b [] b false ctx env ρ bE ctxB hb hag hdl hi hsub (by simp) g v' hex
  | fall env' =>
    simp only at hcont
    obtain ⟨g2, hrest⟩ := hcont
    unfold branchOk at hbo
    simp only [Bool.or_eq_true, Bool.and_eq_true] at hbo
    rcases hbo with hret | ⟨hao, hm⟩
    · exact absurd hex ((no_fall P g).1 _ _ _ _ _ hret)
    · obtain ⟨hag', n', hn', hlook⟩ :=
        ih.fall G I L b b false ctx env ρ bE ctxB hb (allAssign_of_assignOnly b hao) hag hdl hi hsub g env' hex
      split at hm
      · -- nothing follows: the continuation cannot return
        cases g2 <;> simp [execBody] at hrest
      · rename_i n x hla
        have hnx : n = x := by simpa using hm
        rw [hnx] at hrest
        rw [hla] at hn'
        have hxn : x = n' := Option.some.inj hn'
        rw [← hxn] at hlook
        have hL : L.contains x = true := hsub x (lastAssigned_mem b x hla)
        obtain ⟨hv, hnov⟩ := ret_name_val hL g2 hrest
        rcases hag' x v hv with ⟨g', hg'⟩ | ⟨s', hs', hev⟩
        · exact absurd hg' (hnov g')
        · rw [hlook] at hs'
          cases hs'
          exact hev
      · cases hm

theorem sound_fall (ih : Sound T P f) :
    ∀ G I L body rem isElif ctx env ρ s ctx',
    trLoop T P (f+1) G I body [] rem isElif ctx = .ok (s, ctx') → allAssign rem = true →
    Agree ctx env ρ → DomL ctx L → ImpOk I env L → (∀ x ∈ bodyAssigned rem, L.contains x = true) →
    ∀ f2 env', execBody P f2 G L env rem = some (.fall env') →
    Agree ctx' env' ρ ∧ ∃ n, lastAssigned body = some n ∧ List.lookup n ctx' = some s := by
  intro G I L body rem isElif ctx env ρ s ctx' h hall hag hdl hi hsub f2 env' hpy
  cases f2 with
  | zero => simp [execBody] at hpy
  | succ g =>
  cases rem with
  | nil =>
    rw [execBody] at hpy
    cases hpy
    simp only [trLoop, List.isEmpty_nil, Bool.not_true, Bool.false_eq_true, ↓reduceIte] at h
    cases hla : lastAssigned body with
    | none => simp [hla] at h
    | some x =>
      rw [hla] at h
      simp only at h
      cases hl : List.lookup x ctx with
      | none => simp [hl] at h
      | some s0 =>
        rw [hl] at h
        cases h
        exact ⟨hag, x, rfl, hl⟩
  | cons st rest =>
    rw [execBody] at hpy
    rw [bodyAssigned_cons] at hsub
    cases st with
    | assign x e =>
      simp only [allAssign] at hall
      simp only [trLoop] at h
      rw [bind_ok] at h
      obtain ⟨se, hse, h⟩ := h
      cases g with
      | zero => simp [execStmt] at hpy
      | succ g =>
        rw [execStmt] at hpy
        cases he : evalExpr P g G L env e with
        | none => simp [he] at hpy
        | some ve =>
          rw [he] at hpy
          simp only at hpy
          have hve := ih.expr _ _ _ _ _ _ _ _ hse hag hdl hi _ _ he
          exact ih.fall _ _ _ _ _ _ _ _ _ _ _ h hall (hag.cons x se ve hve)
            (hdl.cons x se (hsub x (by simp [stmtAssigned]))) (hi.cons x ve (evalExpr_notObj he))
            (fun y hy => hsub y (by simp [hy])) _ _ hpy
    | tupleAssign _ _ => simp [allAssign] at hall
    | augAssign _ _ _ => simp [allAssign] at hall
    | ifs _ _ _ => simp [allAssign] at hall
    | ret _ => simp [allAssign] at hall
    | retNone => simp [allAssign] at hall
    | skip => simp [allAssign] at hall
    | unhandled => simp [allAssign] at hall
    | multiAssign _ _ => simp [allAssign] at hall
    | unpackAssign _ _ => simp [allAssign] at hall
    | importS _ => simp [allAssign] at hall

theorem sound_loop (hT : TablesOk T) (ih : Sound T P f) :
    ∀ G I L body pieces rem isElif ctx env ρ s ctx',
    trLoop T P (f+1) G I body pieces rem isElif ctx = .ok (s, ctx') →
    Agree ctx env ρ → DomL ctx L → ImpOk I env L → (∀ x ∈ bodyAssigned rem, L.contains x = true) →
    (∀ p ∈ pieces, evalS ρ p.2 = some (.bool false)) →
    ∀ f2 v, execBody P f2 G L env rem = some (.ret v) → evalS ρ s = some v := by
  intro G I L body pieces rem isElif ctx env ρ s ctx' h hag hdl hi hsub hpf f2 v hpy
  cases f2 with
  | zero => simp [execBody] at hpy
  | succ g =>
  cases rem with
  | nil => rw [execBody] at hpy; cases hpy
  | cons st rest =>
    rw [execBody] at hpy
    rw [bodyAssigned_cons] at hsub
    have hsubst : ∀ x ∈ stmtAssigned st, L.contains x = true := fun x hx => hsub x (by simp [hx])
    have hsubrest : ∀ x ∈ bodyAssigned rest, L.contains x = true := fun x hx => hsub x (by simp [hx])
    cases g with
    | zero => simp [execStmt] at hpy
    | succ g =>
    cases st with
    | assign x e =>
      simp only [trLoop] at h
      rw [bind_ok] at h
      obtain ⟨se, hse, h⟩ := h
      rw [execStmt] at hpy
      cases he : evalExpr P g G L env e with
      | none => simp [he] at hpy
      | some ve =>
        rw [he] at hpy
        simp only at hpy
        have hve := ih.expr _ _ _ _ _ _ _ _ hse hag hdl hi _ _ he
        exact ih.loop _ _ _ _ _ _ _ _ _ _ _ _ h (hag.cons x se ve hve)
          (hdl.cons x se (hsubst x (by simp [stmtAssigned]))) (hi.cons x ve (evalExpr_notObj he)) hsubrest hpf _ _ hpy
    | tupleAssign xs es =>
      simp only [trLoop] at h
      rw [execStmt] at hpy
      split at h
      · cases h
      · rename_i hlen
        rw [hT.tupleSim] at h
        simp only [↓reduceIte] at h
        rw [bind_ok] at h
        obtain ⟨ss, hss, h⟩ := h
        simp only [hlen, ↓reduceIte] at hpy
        cases hes : evalArgs P g G L env es with
        | none => simp [hes] at hpy
        | some vs =>
          rw [hes] at hpy
          simp only at hpy
          have hall := ih.args _ _ _ _ _ _ _ _ hss hag hdl hi
          have hvals := args_vals P G L env ρ g es ss vs hall hes
          exact ih.loop _ _ _ _ _ _ _ _ _ _ _ _ h (agree_bindAll xs ss vs ctx env hag hvals)
            (domL_bindAll xs ss ctx hdl (fun x hx => hsubst x (by simpa [stmtAssigned] using hx)))
            (impOk_setAll xs vs env hi (evalArgs_notObj hes)) hsubrest hpf _ _ hpy
    | augAssign x op e =>
      simp only [trLoop] at h
      rw [hT.stmtRefused] at h
      simp at h
    | unhandled =>
      simp only [trLoop] at h
      rw [hT.stmtRefused] at h
      simp at h
    | multiAssign xs e =>
      simp only [trLoop] at h
      rw [bind_ok] at h
      obtain ⟨se, hse, h⟩ := h
      rw [hT.chainAll] at h
      simp only [↓reduceIte] at h
      rw [execStmt] at hpy
      cases he : evalExpr P g G L env e with
      | none => simp [he] at hpy
      | some ve =>
        rw [he] at hpy
        simp only at hpy
        have hve := ih.expr _ _ _ _ _ _ _ _ hse hag hdl hi _ _ he
        exact ih.loop _ _ _ _ _ _ _ _ _ _ _ _ h (agree_bindAll xs _ _ ctx env hag (all2_replicate hve xs))
          (domL_bindAll xs _ ctx hdl (fun x hx => hsubst x (by simpa [stmtAssigned] using hx)))
          (impOk_setAll xs _ env hi (fun w hw => by
            obtain ⟨_, _, rfl⟩ := List.mem_map.mp hw
            exact evalExpr_notObj he)) hsubrest hpf _ _ hpy
    | unpackAssign xs e =>
      simp only [trLoop] at h
      rw [hT.unpackRefused] at h
      simp at h
    | importS items =>
      simp only [trLoop] at h
      rw [bind_ok] at h
      obtain ⟨⟨c2, I2⟩, himp, h⟩ := h
      simp only at h
      rw [execStmt] at hpy
      simp only at hpy
      obtain ⟨a1, d1, i1⟩ := impAll_inv hT.importsStrict items ctx c2 I I2 env himp hag hdl hi
        (fun x hx => hsubst x (by simpa [stmtAssigned] using hx))
      exact ih.loop _ _ _ _ _ _ _ _ _ _ _ _ h a1 d1 i1 hsubrest hpf _ _ hpy
    | retNone => simp [trLoop] at h
    | skip =>
      simp only [trLoop] at h
      rw [execStmt] at hpy
      simp only at hpy
      exact ih.loop _ _ _ _ _ _ _ _ _ _ _ _ h hag hdl hi hsubrest hpf _ _ hpy
    | ret e =>
      simp only [trLoop] at h
      rw [bind_ok] at h
      obtain ⟨se, hse, h⟩ := h
      rw [execStmt] at hpy
      cases he : evalExpr P g G L env e with
      | none => simp [he] at hpy
      | some ve =>
        rw [he] at hpy
        simp only [Option.some.injEq, Outcome.ret.injEq] at hpy
        subst hpy
        have hve := ih.expr _ _ _ _ _ _ _ _ hse hag hdl hi _ _ he
        split at h
        · rw [pure_ok] at h
          cases h
          exact hve
        · rw [bind_ok] at h
          obtain ⟨r, hr, h⟩ := h
          rw [pure_ok] at h
          cases h
          rw [mkPiecewise_ok hr, evalS_pwOf_skip ρ pieces _ hpf, evalS_pwOf_hit ρ _ _ _ (by simp [evalS])]
          exact hve
    | ifs c t e =>
      have hsub_t : ∀ x ∈ bodyAssigned t, L.contains x = true :=
        fun x hx => hsubst x (by simp [stmtAssigned, hx])
      have hsub_e : ∀ x ∈ bodyAssigned e, L.contains x = true :=
        fun x hx => hsubst x (by simp [stmtAssigned, hx])
      obtain ⟨cond, ifE, ctxB, hcond, htb, hft, hb, hcases⟩ := trLoop_ifs_inv h
      have hbs := htb hT.testsBool
      have hbo_t := hft hT.fallChecked
      rw [hT.branchCopies] at hcases
      simp only [↓reduceIte] at hcases
      rw [execStmt] at hpy
      cases hc : evalExpr P g G L env c with
      | none => simp [hc] at hpy
      | some cv =>
        rw [hc] at hpy
        simp only at hpy
        have hvc := ih.expr _ _ _ _ _ _ _ _ hcond hag hdl hi _ _ hc
        obtain ⟨b, hbv⟩ := boolSorted_val hbs hvc
        subst hbv
        cases b with
        | true =>
          simp only [truthy, ↓reduceIte] at hpy
          cases ht : execBody P g G L env t with
          | none => simp [ht] at hpy
          | some o =>
            rw [ht] at hpy
            have hife : evalS ρ ifE = some v := by
              refine branch_value ih hb hbo_t hag hdl hi hsub_t ht ?_
              cases o with
              | ret v' => simpa using hpy
              | fall env' => exact ⟨_, hpy⟩
            have hne1 : pieces ++ [(ifE, cond)] ≠ [] := by simp
            rcases hcases with ⟨_, h'⟩ | ⟨c2, t2, e2, _, h'⟩ | ⟨_, _, _, elseE, ctxE, _, hr⟩
            · obtain ⟨more, hm⟩ := trLoop_shape T P _ _ _ _ _ _ _ _ _ _ hne1 h'
              rw [hm, pw_hit_after ρ pieces more ifE cond hpf hvc]
              exact hife
            · obtain ⟨more, hm⟩ := trLoop_shape T P _ _ _ _ _ _ _ _ _ _ hne1 h'
              rw [hm, pw_hit_after ρ pieces more ifE cond hpf hvc]
              exact hife
            · cases hr
              rw [pw_hit_after ρ pieces _ ifE cond hpf hvc]
              exact hife
        | false =>
          simp only [truthy, Bool.false_eq_true, ↓reduceIte] at hpy
          have hpf1 : ∀ p ∈ pieces ++ [(ifE, cond)], evalS ρ p.2 = some (.bool false) := by
            intro p hp
            rcases List.mem_append.mp hp with hp | hp
            · exact hpf p hp
            · simp only [List.mem_singleton] at hp
              subst hp
              exact hvc
          rcases hcases with ⟨he, h'⟩ | ⟨c2, t2, e2, he, h'⟩ | ⟨_, _, hfe, elseE, ctxE, hb2, hr⟩
          · subst he
            cases g with
            | zero => simp [execBody] at hpy
            | succ g =>
              rw [execBody] at hpy
              simp only at hpy
              exact ih.loop _ _ _ _ _ _ _ _ _ _ _ _ h' hag hdl hi hsubrest hpf1 _ _ hpy
          · subst he
            cases hx : execBody P g G L env [PyStmt.ifs c2 t2 e2] with
            | none => simp [hx] at hpy
            | some o =>
              rw [hx] at hpy
              have hfull : execBody P (g+2) G L env (PyStmt.ifs c2 t2 e2 :: rest) = some (.ret v) := by
                refine exec_single_cons P hx ?_
                cases o with
                | ret v' => simp only at hpy ⊢; cases hpy; rfl
                | fall env' => simp only at hpy ⊢; exact hpy
              have hsub2 : ∀ x ∈ bodyAssigned (PyStmt.ifs c2 t2 e2 :: rest), L.contains x = true := by
                intro x hx2
                rw [bodyAssigned_cons] at hx2
                rcases List.mem_append.mp hx2 with hx2 | hx2
                · exact hsub_e x (by rw [bodyAssigned_cons]; exact List.mem_append_left _ hx2)
                · exact hsubrest x hx2
              exact ih.loop _ _ _ _ _ _ _ _ _ _ _ _ h' hag hdl hi hsub2 hpf1 _ _ hfull
          · cases he : execBody P g G L env e with
            | none => simp [he] at hpy
            | some o =>
              rw [he] at hpy
              have helse : evalS ρ elseE = some v := by
                refine branch_value ih hb2 (hfe hT.fallChecked) hag hdl hi hsub_e he ?_
                cases o with
                | ret v' => simpa using hpy
                | fall env' => exact ⟨_, hpy⟩
              cases hr
              rw [evalS_pwOf_skip ρ _ _ hpf1, evalS_pwOf_hit ρ _ _ _ (by simp [evalS])]
              exact helse

theorem lookup_zip_val {β} (n : String) : ∀ (ps : List String) (vs : List β) {x : β},
    List.lookup n (ps.zip vs) = some x → x ∈ vs
  | [], _, _, h => by simp at h
  | _ :: _, [], _, h => by simp at h
  | p :: ps, v :: vs, x, h => by
    simp only [List.zip_cons_cons, lookup_cons] at h
    by_cases hn : n = p
    · simp only [hn, ↓reduceIte, Option.some.injEq] at h
      simp [h]
    · simp only [hn, ↓reduceIte] at h
      exact List.mem_cons_of_mem _ (lookup_zip_val n ps vs h)

theorem callFn_exec {P : Prog} {f2 : Nat} {d : FnDef} {vs : List Val} {v : Val} (h : callFn P f2 d vs = some v) :
    (∃ g, execBody P g d.globals d.locals (d.params.zip vs) d.body = some (.ret v)) ∧ (∀ w ∈ vs, NotObj w) := by
  cases f2 with
  | zero => simp [callFn] at h
  | succ g =>
    rw [callFn] at h
    split at h
    · cases h
    · rename_i hcond
      refine ⟨⟨g, ?_⟩, ?_⟩
      · split at h
        · rename_i v' hv
          cases h
          exact hv
        · cases h
      · intro w hw g' hg'
        subst hg'
        apply hcond
        simp only [Bool.or_eq_true]
        exact Or.inr (List.any_eq_true.mpr ⟨_, hw, rfl⟩)

theorem sound_fnPlain_core (ih : Sound T P f) (d : FnDef) (e : SExpr) (c' : Syms)
    (he : trLoop T P f d.globals [] d.body [] d.body false (d.params.map (fun p => (p, SExpr.sym p))) = .ok (e, c'))
    (f2 : Nat) (vs : List Val) (v : Val) (hpy : callFn P f2 d vs = some v)
    (ρ : SEnv) (hρ : ∀ n x, List.lookup n (d.params.zip vs) = some x → ρ n = some x) : evalS ρ e = some v := by
  obtain ⟨⟨g, hex⟩, hno⟩ := callFn_exec hpy
  refine ih.loop d.globals [] d.locals d.body [] d.body false _ (d.params.zip vs) ρ e c' he ?_ ?_ ?_ ?_
    (by simp) g v hex
  · intro n x hn
    have hmem := lookup_zip_mem n d.params vs hn
    exact Or.inr ⟨.sym n, lookup_map_sym_of_mem n d.params hmem, by simpa [evalS] using hρ n x hn⟩
  · intro n s hn
    obtain ⟨_, hmem⟩ := lookup_map_sym n d.params hn
    exact contains_of_mem (by simp [FnDef.locals, hmem])
  · refine ⟨?_, by intro p g hp; simp at hp⟩
    intro p g hp
    exact absurd rfl (hno _ (lookup_zip_val p d.params vs hp) g)
  · intro x hx
    exact contains_of_mem (by simp [FnDef.locals, hx])

theorem fnToSympy_inv (hT : TablesOk T) {d : FnDef} {margs : Option (List SExpr)} {s : SExpr}
    (h : fnToSympy T P (f+1) d margs = .ok s) :
    ∃ e c', trLoop T P f d.globals [] d.body [] d.body false (d.params.map (fun p => (p, SExpr.sym p))) = .ok (e, c') ∧
      ((margs = none ∨ margs = some []) → s = e) ∧
      (∀ m ms, margs = some (m :: ms) → (m :: ms).length = d.params.length ∧ s = applySubst T (d.params.zip (m :: ms)) e) := by
  rw [fnToSympy] at h
  rw [hT.sigStrict] at h
  simp only [Bool.true_and, ↓reduceIte] at h
  split at h
  · cases h
  · rw [bind_ok] at h
    obtain ⟨⟨e, c'⟩, he, h⟩ := h
    refine ⟨e, c', he, ?_, ?_⟩
    · intro hm
      rcases hm with hm | hm <;> subst hm <;> simp only [pure_ok] at h <;> exact h.symm
    · intro m ms hm
      subst hm
      simp only at h
      split at h
      · cases h
      · rename_i hlen
        rw [pure_ok] at h
        exact ⟨by simpa using hlen, h.symm⟩

theorem sound_fnPlain (hT : TablesOk T) (ih : Sound T P f) :
    ∀ d margs s, fnToSympy T P (f+1) d margs = .ok s → (margs = none ∨ margs = some []) →
    ∀ f2 vs v, callFn P f2 d vs = some v →
    ∀ ρ : SEnv, (∀ n x, List.lookup n (d.params.zip vs) = some x → ρ n = some x) → evalS ρ s = some v := by
  intro d margs s h hm f2 vs v hpy ρ hρ
  obtain ⟨e, c', he, hplain, _⟩ := fnToSympy_inv hT h
  have hs : s = e := hplain hm
  subst hs
  exact sound_fnPlain_core ih d s c' he f2 vs v hpy ρ hρ

theorem sound_fnSubst (hT : TablesOk T) (ih : Sound T P f) :
    ∀ d m ms s, fnToSympy T P (f+1) d (some (m :: ms)) = .ok s →
    ∀ f2 vs v, callFn P f2 d vs = some v →
    ∀ ρ' : SEnv, All2 (fun m x => evalS ρ' m = some x) (m :: ms) vs → evalS ρ' s = some v := by
  intro d m ms s h f2 vs v hpy ρ' hall
  obtain ⟨e, c', he, _, hsub⟩ := fnToSympy_inv hT h
  obtain ⟨_, hs⟩ := hsub m ms rfl
  · subst hs
    unfold applySubst
    rw [hT.substSim]
    simp only [↓reduceIte]
    rw [evalS_substSim]
    refine sound_fnPlain_core ih d e c' he f2 vs v hpy _ ?_
    intro n x hn
    obtain ⟨m', hm', hx⟩ := lookup_zip_all2 d.params (m :: ms) vs hall n x hn
    simp only [substEnv, hm']
    exact hx

end step

/-- soundness of the translator model at every fuel -/
theorem sound_all {T : Tables} {P : Prog} (hT : TablesOk T) : ∀ f, Sound T P f := by
  intro f
  induction f with
  | zero => exact sound_zero T P
  | succ f ih =>
    exact ⟨sound_expr hT ih, sound_args ih, sound_loop hT ih, sound_fall ih, sound_fnPlain hT ih, sound_fnSubst hT ih⟩

end Mxl.C06
