/- C06 helper lemmas, part 4: the soundness induction. -/
import MxlVerif.Lemmas.C06Sound
namespace Mxl.C06

theorem All2.imp {α β} {R S : α → β → Prop} (h : ∀ a b, R a b → S a b) :
    ∀ {as : List α} {bs : List β}, All2 R as bs → All2 S as bs
  | _, _, .nil => .nil
  | _, _, .cons hab hr => .cons (h _ _ hab) (All2.imp h hr)

theorem evalExpr_cmp_bool (P : Prog) (g : Nat) (G L env l ops rs) (cv : Val)
    (h : evalExpr P g G L env (.cmp l ops rs) = some cv) : ∃ b, cv = .bool b := by
  cases g with
  | zero => simp [evalExpr] at h
  | succ g =>
    rw [evalExpr] at h
    split at h
    · split at h
      · cases h
      · exact cmpFold_bool _ _ _ _ _ h
    · cases h

theorem args_vals (P : Prog) (G L env) (ρ : SEnv) : ∀ (g : Nat) (es : List PyExpr) (ss : List SExpr) (vs : List Val),
    All2 (fun e s => ∀ f2 v, evalExpr P f2 G L env e = some v → evalS ρ s = some v) es ss →
    evalArgs P g G L env es = some vs → All2 (fun s v => evalS ρ s = some v) ss vs
  | 0, _, _, _, _, h => by simp [evalArgs] at h
  | g+1, [], _, vs, .nil, h => by
    simp [evalArgs] at h; subst h; exact .nil
  | g+1, a :: as, _, vs, .cons ha hr, h => by
    rw [evalArgs] at h
    cases h1 : evalExpr P g G L env a with
    | none => simp [h1] at h
    | some v1 =>
      cases h2 : evalArgs P g G L env as with
      | none => simp [h1, h2] at h
      | some v2 =>
        simp [h1, h2] at h
        subst h
        exact .cons (ha _ _ h1) (args_vals P G L env ρ g as _ v2 hr h2)

/-- the statements proved together, for translator fuel `f` -/
structure Sound (T : Tables) (P : Prog) (k : Nat) (f : Nat) : Prop where
  expr : ∀ G L ctx env ρ e s, trExpr T P f G ctx e = .ok s → Agree ctx env ρ → DomL ctx L → exprOk G e = true →
    ∀ f2 v, evalExpr P f2 G L env e = some v → evalS ρ s = some v
  args : ∀ G L ctx env ρ es ss, trArgs T P f G ctx es = .ok ss → Agree ctx env ρ → DomL ctx L → exprsOk G es = true →
    All2 (fun e s => ∀ f2 v, evalExpr P f2 G L env e = some v → evalS ρ s = some v) es ss
  loop : ∀ G L body pieces rem isElif ctx env ρ bound j s ctx',
    trLoop T P f G body pieces rem isElif ctx = .ok (s, ctx') →
    okLoop Checks.all j G bound rem = true →
    Agree ctx env ρ → DomL ctx L → DomB env bound → (∀ x ∈ bodyAssigned rem, L.contains x = true) →
    (∀ p ∈ pieces, evalS ρ p.2 = some (.bool false)) →
    ∀ f2 v, execBody P f2 G L env rem = some (.ret v) → evalS ρ s = some v
  fnPlain : ∀ d margs s, fnToSympy T P f d margs = .ok s → (margs = none ∨ margs = some []) → fnOk k d = true →
    ∀ f2 vs v, callFn P f2 d vs = some v →
    ∀ ρ : SEnv, (∀ n x, List.lookup n (d.params.zip vs) = some x → ρ n = some x) → evalS ρ s = some v
  fnSubst : ∀ d m ms s, fnToSympy T P f d (some (m :: ms)) = .ok s → fnOk k d = true →
    ∀ f2 vs v, callFn P f2 d vs = some v →
    ∀ ρ' : SEnv, All2 (fun m x => evalS ρ' m = some x) (m :: ms) vs → evalS ρ' s = some v

theorem sound_zero (T : Tables) (P : Prog) (k : Nat) : Sound T P k 0 := by
  constructor <;> intros <;> simp_all [trExpr, trArgs, trLoop, fnToSympy]

theorem find_mem (P : Prog) (g : String) (d : FnDef) (h : P.find g = some d) : d ∈ P := by
  unfold Prog.find at h
  exact List.mem_of_find?_eq_some h

theorem knownCall_ok {T : Tables} {key : String} {sargs : List SExpr} {s : SExpr}
    (h : knownCall T key sargs = .ok s) :
    ∃ sname m, (key, sname) ∈ T.knownFns ∧ symMeaning sname = some m ∧
      (isExactFn m = true ∨ isOpaqueFn m = true) ∧
      ((∃ a, sargs = [a] ∧ s = .app1 m a) ∨ (∃ a b, sargs = [a, b] ∧ s = .app2 m a b)) := by
  unfold knownCall at h
  cases hl : List.lookup key T.knownFns with
  | none => simp [hl] at h
  | some sname =>
    rw [hl] at h
    simp only at h
    cases hm : symMeaning sname with
    | none => simp [hm] at h
    | some m =>
      rw [hm] at h
      simp only at h
      split at h
      · cases h
      · have shape : ∀ e : SExpr,
            (if isExactFn m = true then
                match evalS emptyEnv e with
                | some (Val.num _) => (Except.ok e : TR SExpr)
                | _ => Except.error (TErr.refused "TypeError: Float() of a non-number")
              else if isOpaqueFn m = true then Except.ok e
              else Except.error (TErr.refused "sympy function that does not evaluate on numbers")) = Except.ok s →
            s = e ∧ (isExactFn m = true ∨ isOpaqueFn m = true) := by
          intro e he
          split at he
          · rename_i hex
            split at he
            · cases he; exact ⟨rfl, Or.inl hex⟩
            · cases he
          · split at he
            · rename_i hop
              cases he; exact ⟨rfl, Or.inr hop⟩
            · cases he
        refine ⟨sname, m, lookup_mem _ _ _ hl, hm, ?_⟩
        match sargs, h with
        | [a], h =>
          simp only at h
          obtain ⟨h1, h2⟩ := shape _ h
          exact ⟨h2, Or.inl ⟨a, rfl, h1⟩⟩
        | [a, b], h =>
          simp only at h
          obtain ⟨h1, h2⟩ := shape _ h
          exact ⟨h2, Or.inr ⟨a, b, rfl, h1⟩⟩
        | [], h => simp at h
        | _ :: _ :: _ :: _, h => simp at h

section step
variable {T : Tables} {P : Prog} {k f : Nat}

theorem sound_expr (hT : TablesOk T) (hP : ∀ d ∈ P, fnOk k d = true) (ih : Sound T P k f) :
    ∀ G L ctx env ρ e s, trExpr T P (f+1) G ctx e = .ok s → Agree ctx env ρ → DomL ctx L → exprOk G e = true →
    ∀ f2 v, evalExpr P f2 G L env e = some v → evalS ρ s = some v := by
  intro G L ctx env ρ e s h hag hdl hok f2 v hpy
  cases f2 with
  | zero => simp [evalExpr] at hpy
  | succ g =>
  cases e with
  | num q =>
    rw [trExpr] at h; rw [evalExpr] at hpy
    cases h; cases hpy; simp [evalS]
  | name n =>
    rw [trExpr] at h; rw [evalExpr] at hpy
    cases hc : List.lookup n ctx with
    | some s0 =>
      rw [hc] at h
      cases h
      have hL := hdl n _ hc
      rw [if_pos hL] at hpy
      obtain ⟨s', hs', hv⟩ := hag n v hpy
      rw [hc] at hs'; cases hs'; exact hv
    | none =>
      rw [hc] at h
      by_cases hL : L.contains n = true
      · rw [if_pos hL] at hpy
        obtain ⟨s', hs', _⟩ := hag n v hpy
        rw [hc] at hs'; cases hs'
      · rw [if_neg hL] at hpy
        cases hg : List.lookup n G with
        | none => simp [hg] at h
        | some gv =>
          rw [hg] at h hpy
          cases gv <;> simp at h hpy <;> subst h <;> subst hpy <;> simp [evalS]
  | attr p =>
    rw [trExpr] at h; rw [evalExpr] at hpy
    simp only [exprOk] at hok
    cases hg : List.lookup p G with
    | none => simp [hg] at h
    | some gv =>
      rw [hg] at h hpy hok
      cases gv <;> simp at h hpy hok <;> subst h <;> subst hpy <;> simp [evalS]
  | un op a =>
    rw [trExpr] at h; rw [evalExpr] at hpy
    simp only [exprOk] at hok
    rw [bind_ok] at h
    obtain ⟨sa, hsa, h⟩ := h
    cases ha : evalExpr P g G L env a with
    | none => simp [ha] at hpy
    | some va =>
      have hva := ih.expr _ _ _ _ _ _ _ hsa hag hdl hok _ _ ha
      rw [ha] at hpy
      cases va with
      | bool _ => simp at hpy
      | num x =>
        simp only at hpy
        cases hl : List.lookup op T.unops with
        | none => simp [hl] at h
        | some sop =>
          rw [hl] at h
          simp only at h
          split at h
          · cases h
            cases hp : pyUn op x with
            | none => simp [hp] at hpy
            | some r =>
              simp [hp] at hpy
              subst hpy
              simp [evalS, hva, hT.unops op sop (lookup_mem _ _ _ hl) x r hp]
          · cases h
  | bin op a b =>
    rw [trExpr] at h; rw [evalExpr] at hpy
    simp only [exprOk, Bool.and_eq_true] at hok
    rw [bind_ok] at h
    obtain ⟨sa, hsa, h⟩ := h
    rw [bind_ok] at h
    obtain ⟨sb, hsb, h⟩ := h
    cases ha : evalExpr P g G L env a with
    | none => simp [ha] at hpy
    | some va =>
      cases hb : evalExpr P g G L env b with
      | none => rw [ha, hb] at hpy; cases va <;> simp at hpy
      | some vb =>
        have hva := ih.expr _ _ _ _ _ _ _ hsa hag hdl hok.1 _ _ ha
        have hvb := ih.expr _ _ _ _ _ _ _ hsb hag hdl hok.2 _ _ hb
        rw [ha, hb] at hpy
        cases va with
        | bool _ => simp at hpy
        | num x =>
          cases vb with
          | bool _ => simp at hpy
          | num y =>
            simp only at hpy
            cases hl : List.lookup op T.binops with
            | none => simp [hl] at h
            | some sop =>
              rw [hl] at h
              simp only at h
              split at h
              · cases h
                cases hp : pyBin op x y with
                | none => simp [hp] at hpy
                | some r =>
                  simp [hp] at hpy
                  subst hpy
                  simp [evalS, hva, hvb, hT.binops op sop (lookup_mem _ _ _ hl) x y r hp]
              · cases h
  | cmp l ops rs =>
    rw [trExpr] at h; rw [evalExpr] at hpy
    simp only [exprOk, Bool.and_eq_true] at hok
    rw [bind_ok] at h
    obtain ⟨left, hleft, h⟩ := h
    rw [bind_ok] at h
    obtain ⟨rights, hrights, h⟩ := h
    rw [bind_ok] at h
    obtain ⟨cs, hcs, h⟩ := h
    cases hl : evalExpr P g G L env l with
    | none => simp [hl] at hpy
    | some vl =>
      have hvl := ih.expr _ _ _ _ _ _ _ hleft hag hdl hok.1 _ _ hl
      rw [hl] at hpy
      cases vl with
      | bool _ => simp at hpy
      | num x =>
        simp only at hpy
        split at hpy
        · cases hpy
        · rename_i hne
          have hall := ih.args _ _ _ _ _ _ _ hrights hag hdl hok.2
          have hall' : All2 (fun e s => ∀ v, evalExpr P g G L env e = some v → evalS ρ s = some v) rs rights :=
            All2.imp (fun e s hh v hv => hh g v hv) hall
          obtain ⟨c, cs', hcs', hres⟩ := cmp_sound hT ρ _ ops rs rights left x cs v hall' hvl
            (by simpa using hne) hcs hpy
          subst hcs'
          simp only at h
          cases h
          exact hres
  | ife c t e =>
    rw [trExpr] at h; rw [evalExpr] at hpy
    simp only [exprOk, Bool.and_eq_true] at hok
    obtain ⟨⟨⟨hcmp, hokc⟩, hokt⟩, hoke⟩ := hok
    rw [bind_ok] at h
    obtain ⟨cond, hcond, h⟩ := h
    rw [bind_ok] at h
    obtain ⟨tt, htt, h⟩ := h
    rw [bind_ok] at h
    obtain ⟨ee, hee, h⟩ := h
    have hs := mkPiecewise_ok h
    subst hs
    cases hc : evalExpr P g G L env c with
    | none => simp [hc] at hpy
    | some cv =>
      have hvc := ih.expr _ _ _ _ _ _ _ hcond hag hdl hokc _ _ hc
      rw [hc] at hpy
      simp only at hpy
      have hb : ∃ b, cv = .bool b := by
        cases c <;> simp [isCmp] at hcmp
        exact evalExpr_cmp_bool P g G L env _ _ _ cv hc
      obtain ⟨b, hb⟩ := hb
      subst hb
      cases b with
      | true =>
        simp only [truthy, ↓reduceIte] at hpy
        rw [evalS_pwOf_hit ρ _ _ _ hvc]
        exact ih.expr _ _ _ _ _ _ _ htt hag hdl hokt _ _ hpy
      | false =>
        simp only [truthy, Bool.false_eq_true, ↓reduceIte] at hpy
        have := evalS_pwOf_skip ρ [(tt, cond)] [(ee, .boolLit true)] (by simpa using hvc)
        simp only [List.cons_append, List.nil_append] at this
        rw [this, evalS_pwOf_hit ρ _ _ _ (by simp [evalS])]
        exact ih.expr _ _ _ _ _ _ _ hee hag hdl hoke _ _ hpy
  | call tgt args =>
    rw [trExpr] at h; rw [evalExpr] at hpy
    simp only [exprOk] at hok
    rw [bind_ok] at h
    obtain ⟨sargs, hsargs, h⟩ := h
    cases ha : evalArgs P g G L env args with
    | none => simp [ha] at hpy
    | some vs =>
      rw [ha] at hpy
      simp only at hpy
      have hall := ih.args _ _ _ _ _ _ _ hsargs hag hdl hok
      have hvals := args_vals P G L env ρ g args sargs vs hall ha
      by_cases hL : L.contains tgt = true
      · rw [if_pos hL] at hpy; cases hpy
      rw [if_neg hL] at hpy
      generalize resolveCall G tgt = tgt' at h hpy
      cases tgt' with
      | unresolved => simp at h
      | known key =>
        simp only at h hpy
        obtain ⟨sname, m, hmem, hsm, hex, hshape⟩ := knownCall_ok h
        have hpm := hT.knownFns key sname m hmem hsm hex
        rw [hpm] at hpy
        simp only at hpy
        rcases hshape with ⟨a, ha', hs⟩ | ⟨a, b, ha', hs⟩
        · subst ha' hs
          cases hvals with
          | cons hav hr =>
            cases hr
            simp [evalS, hav, hpy]
        · subst ha' hs
          cases hvals with
          | cons hav hr =>
            cases hr with
            | cons hbv hr2 =>
              cases hr2
              simp [evalS, hav, hbv, hpy]
      | user g' =>
        simp only at h hpy
        cases hfind : P.find g' with
        | none => simp [hfind] at h
        | some d =>
          rw [hfind] at h hpy
          simp only at h hpy
          have hd := hP d (find_mem P g' d hfind)
          cases sargs with
          | nil =>
            cases hvals
            refine ih.fnPlain d (some []) s h (Or.inr rfl) hd g [] v hpy ρ ?_
            intro n x hn
            simp at hn
          | cons m ms =>
            exact ih.fnSubst d m ms s h hd g vs v hpy ρ hvals
  | callKw tgt args =>
    rw [evalExpr] at hpy; cases hpy
  | unsupported =>
    rw [trExpr] at h; cases h

theorem sound_args (ih : Sound T P k f) :
    ∀ G L ctx env ρ es ss, trArgs T P (f+1) G ctx es = .ok ss → Agree ctx env ρ → DomL ctx L → exprsOk G es = true →
    All2 (fun e s => ∀ f2 v, evalExpr P f2 G L env e = some v → evalS ρ s = some v) es ss := by
  intro G L ctx env ρ es ss h hag hdl hok
  cases es with
  | nil => rw [trArgs] at h; cases h; exact .nil
  | cons a as =>
    rw [trArgs] at h
    simp only [exprsOk, Bool.and_eq_true] at hok
    rw [bind_ok] at h
    obtain ⟨s, hs, h⟩ := h
    rw [bind_ok] at h
    obtain ⟨ss', hss, h⟩ := h
    rw [pure_ok] at h
    subst h
    exact .cons (fun f2 v hv => ih.expr _ _ _ _ _ _ _ hs hag hdl hok.1 f2 v hv)
      (ih.args _ _ _ _ _ _ _ hss hag hdl hok.2)

theorem contains_of_mem {L : List String} {x : String} (h : x ∈ L) : L.contains x = true := by
  simpa using h

theorem disjoint_not_mem {a b : List String} (h : disjoint a b = true) {n : String} (hb : n ∈ b) : n ∉ a := by
  intro ha
  unfold disjoint at h
  rw [List.all_eq_true] at h
  have := h n ha
  simp [hb] at this

/-- a branch body was translated from `ctx`: the context afterwards still describes `env` -/
theorem agree_frame {ctx ctx1 : Syms} {env : PyEnv} {ρ : SEnv} {bound : List String} {t : List PyStmt}
    (hag : Agree ctx env ρ) (hdb : DomB env bound) (hdis : disjoint (bodyAssigned t) bound = true)
    (hfr : ∀ n, n ∉ bodyAssigned t → List.lookup n ctx1 = List.lookup n ctx) : Agree ctx1 env ρ := by
  intro n v hn
  have hnb := hdb n v hn
  rw [hfr n (disjoint_not_mem hdis hnb)]
  exact hag n v hn

theorem domL_frame {ctx ctx1 : Syms} {L : List String} {t : List PyStmt}
    (hdl : DomL ctx L) (hsub : ∀ x ∈ bodyAssigned t, L.contains x = true)
    (hfr : ∀ n, n ∉ bodyAssigned t → List.lookup n ctx1 = List.lookup n ctx) : DomL ctx1 L := by
  intro n s hn
  by_cases hm : n ∈ bodyAssigned t
  · exact hsub n hm
  · rw [hfr n hm] at hn
    exact hdl n s hn

theorem exec_single_cons (P : Prog) {g : Nat} {G L env} {st : PyStmt} {rest : List PyStmt} {r o : Outcome}
    (h1 : execBody P g G L env [st] = some r)
    (h2 : match r with
          | .ret v' => o = .ret v'
          | .fall env' => execBody P (g+1) G L env' rest = some o) :
    execBody P (g+2) G L env (st :: rest) = some o := by
  cases g with
  | zero => simp [execBody] at h1
  | succ g =>
    rw [execBody] at h1
    rw [execBody]
    cases hs : execStmt P g G L env st with
    | none => simp [hs] at h1
    | some o1 =>
      rw [hs] at h1
      have hs' : execStmt P (g+1+1) G L env st = some o1 := execStmt_mono P (by omega) hs
      rw [hs']
      cases o1 with
      | ret v' =>
        simp only at h1 ⊢
        cases h1
        simp only at h2
        rw [h2]
      | fall env1 =>
        simp only at h1 ⊢
        cases g with
        | zero => simp [execBody] at h1
        | succ g =>
          rw [execBody] at h1
          cases h1
          simp only at h2
          exact h2

theorem pw_hit_after (ρ : SEnv) (pieces more : List (SExpr × SExpr)) (ifE cond : SExpr)
    (hpf : ∀ p ∈ pieces, evalS ρ p.2 = some (.bool false)) (hc : evalS ρ cond = some (.bool true)) :
    evalS ρ (pwOf (pieces ++ [(ifE, cond)] ++ more)) = evalS ρ ifE := by
  rw [List.append_assoc, evalS_pwOf_skip ρ pieces _ hpf]
  simp only [List.cons_append, List.nil_append]
  exact evalS_pwOf_hit ρ _ _ _ hc

theorem sound_loop (hT : TablesOk T) (ih : Sound T P k f) :
    ∀ G L body pieces rem isElif ctx env ρ bound j s ctx',
    trLoop T P (f+1) G body pieces rem isElif ctx = .ok (s, ctx') →
    okLoop Checks.all j G bound rem = true →
    Agree ctx env ρ → DomL ctx L → DomB env bound → (∀ x ∈ bodyAssigned rem, L.contains x = true) →
    (∀ p ∈ pieces, evalS ρ p.2 = some (.bool false)) →
    ∀ f2 v, execBody P f2 G L env rem = some (.ret v) → evalS ρ s = some v := by
  intro G L body pieces rem isElif ctx env ρ bound j s ctx' h hok hag hdl hdb hsub hpf f2 v hpy
  cases f2 with
  | zero => simp [execBody] at hpy
  | succ g =>
  cases j with
  | zero => simp [okLoop] at hok
  | succ j =>
  cases rem with
  | nil => rw [execBody] at hpy; cases hpy
  | cons st rest =>
    rw [execBody] at hpy
    rw [bodyAssigned_cons] at hsub
    have hsubst : ∀ x ∈ stmtAssigned st, L.contains x = true := fun x hx => hsub x (by simp [hx])
    have hsubrest : ∀ x ∈ bodyAssigned rest, L.contains x = true := fun x hx => hsub x (by simp [hx])
    cases g with
    | zero => simp [execStmt] at hpy
    | succ g =>
    cases st with
    | assign x e =>
      simp only [trLoop] at h
      simp only [okLoop, Checks.all, Bool.not_true, Bool.false_or, Bool.and_eq_true] at hok
      rw [bind_ok] at h
      obtain ⟨se, hse, h⟩ := h
      rw [execStmt] at hpy
      cases he : evalExpr P g G L env e with
      | none => simp [he] at hpy
      | some ve =>
        rw [he] at hpy
        simp only at hpy
        have hve := ih.expr _ _ _ _ _ _ _ hse hag hdl hok.1 _ _ he
        exact ih.loop _ _ _ _ _ _ _ _ _ (x :: bound) j _ _ h hok.2 (hag.cons x se ve hve)
          (hdl.cons x se (hsubst x (by simp [stmtAssigned]))) (hdb.cons x ve) hsubrest hpf _ _ hpy
    | tupleAssign xs es =>
      simp only [trLoop] at h
      simp only [okLoop, Checks.all, Bool.not_true, Bool.false_or, Bool.and_eq_true] at hok
      rw [execStmt] at hpy
      split at h
      · cases h
      · rename_i hlen
        rw [hT.tupleSim] at h
        simp only [↓reduceIte] at h
        rw [bind_ok] at h
        obtain ⟨ss, hss, h⟩ := h
        simp only [hlen, ↓reduceIte] at hpy
        cases hes : evalArgs P g G L env es with
        | none => simp [hes] at hpy
        | some vs =>
          rw [hes] at hpy
          simp only at hpy
          have hall := ih.args _ _ _ _ _ _ _ hss hag hdl hok.1
          have hvals := args_vals P G L env ρ g es ss vs hall hes
          exact ih.loop _ _ _ _ _ _ _ _ _ (xs ++ bound) j _ _ h hok.2 (agree_bindAll xs ss vs ctx env hag hvals)
            (domL_bindAll xs ss ctx hdl (fun x hx => hsubst x (by simpa [stmtAssigned] using hx)))
            (domB_setAll xs vs env bound hdb) hsubrest hpf _ _ hpy
    | augAssign x op e =>
      simp only [trLoop] at h
      rw [hT.stmtRefused] at h
      simp at h
    | unhandled =>
      simp only [trLoop] at h
      rw [hT.stmtRefused] at h
      simp at h
    | retNone => simp [trLoop] at h
    | skip =>
      simp only [trLoop] at h
      simp only [okLoop] at hok
      rw [execStmt] at hpy
      simp only at hpy
      exact ih.loop _ _ _ _ _ _ _ _ _ bound j _ _ h hok hag hdl hdb hsubrest hpf _ _ hpy
    | ret e =>
      simp only [trLoop] at h
      simp only [okLoop, Checks.all, Bool.not_true, Bool.false_or] at hok
      rw [bind_ok] at h
      obtain ⟨se, hse, h⟩ := h
      rw [execStmt] at hpy
      cases he : evalExpr P g G L env e with
      | none => simp [he] at hpy
      | some ve =>
        rw [he] at hpy
        simp only [Option.some.injEq, Outcome.ret.injEq] at hpy
        subst hpy
        have hve := ih.expr _ _ _ _ _ _ _ hse hag hdl hok _ _ he
        split at h
        · rw [pure_ok] at h
          cases h
          exact hve
        · rw [bind_ok] at h
          obtain ⟨r, hr, h⟩ := h
          rw [pure_ok] at h
          cases h
          rw [mkPiecewise_ok hr, evalS_pwOf_skip ρ pieces _ hpf, evalS_pwOf_hit ρ _ _ _ (by simp [evalS])]
          exact hve
    | ifs c t e =>
      have hsub_t : ∀ x ∈ bodyAssigned t, L.contains x = true :=
        fun x hx => hsubst x (by simp [stmtAssigned, hx])
      have hsub_e : ∀ x ∈ bodyAssigned e, L.contains x = true :=
        fun x hx => hsubst x (by simp [stmtAssigned, hx])
      simp only [trLoop] at h
      simp only [okLoop, Checks.all, Bool.not_true, Bool.false_or, Bool.and_eq_true] at hok
      obtain ⟨⟨⟨⟨⟨hcmp, hokc⟩, hret_t⟩, hdis_t⟩, hok_t⟩, hok_e⟩ := hok
      rw [bind_ok] at h
      obtain ⟨cond, hcond, h⟩ := h
      rw [bind_ok] at h
      obtain ⟨⟨ifE, ctx1⟩, hb, h⟩ := h
      simp only at h
      rw [execStmt] at hpy
      cases hc : evalExpr P g G L env c with
      | none => simp [hc] at hpy
      | some cv =>
        rw [hc] at hpy
        simp only at hpy
        have hvc := ih.expr _ _ _ _ _ _ _ hcond hag hdl hokc _ _ hc
        have hbool : ∃ b, cv = .bool b := by
          cases c <;> simp [isCmp] at hcmp
          exact evalExpr_cmp_bool P g G L env _ _ _ cv hc
        obtain ⟨b, hbv⟩ := hbool
        subst hbv
        have hfr : ∀ n, n ∉ bodyAssigned t → List.lookup n ctx1 = List.lookup n ctx :=
          fun n hn => trLoop_frame T P n f G t [] t false ctx ifE ctx1 hb hn
        have hag1 : Agree ctx1 env ρ := agree_frame hag hdb hdis_t hfr
        have hdl1 : DomL ctx1 L := domL_frame hdl hsub_t hfr
        cases b with
        | true =>
          simp only [truthy, ↓reduceIte] at hpy
          cases ht : execBody P g G L env t with
          | none => simp [ht] at hpy
          | some o =>
            rw [ht] at hpy
            cases o with
            | fall env' => exact absurd ht ((no_fall P g).1 _ _ _ _ _ hret_t)
            | ret v' =>
              simp only [Option.some.injEq, Outcome.ret.injEq] at hpy
              subst hpy
              have hife : evalS ρ ifE = some v' :=
                ih.loop G L t [] t false ctx env ρ bound j ifE ctx1 hb hok_t hag hdl hdb hsub_t (by simp) g v' ht
              have hne1 : pieces ++ [(ifE, cond)] ≠ [] := by simp
              split at h
              · split at h
                · cases h
                · obtain ⟨more, hm⟩ := trLoop_shape T P _ _ _ _ _ _ _ _ _ hne1 h
                  rw [hm, pw_hit_after ρ pieces more ifE cond hpf hvc]
                  exact hife
              · obtain ⟨more, hm⟩ := trLoop_shape T P _ _ _ _ _ _ _ _ _ hne1 h
                rw [hm, pw_hit_after ρ pieces more ifE cond hpf hvc]
                exact hife
              · rw [bind_ok] at h
                obtain ⟨⟨elseE, ctx2⟩, _, h⟩ := h
                rw [bind_ok] at h
                obtain ⟨r, hr, h⟩ := h
                rw [pure_ok] at h
                cases h
                rw [mkPiecewise_ok hr, pw_hit_after ρ pieces _ ifE cond hpf hvc]
                exact hife
        | false =>
          simp only [truthy, Bool.false_eq_true, ↓reduceIte] at hpy
          have hpf1 : ∀ p ∈ pieces ++ [(ifE, cond)], evalS ρ p.2 = some (.bool false) := by
            intro p hp
            rcases List.mem_append.mp hp with hp | hp
            · exact hpf p hp
            · simp only [List.mem_singleton] at hp
              subst hp
              exact hvc
          split at h
          · -- no else
            simp only at hok_e
            cases g with
            | zero => simp [execBody] at hpy
            | succ g =>
              rw [execBody] at hpy
              simp only at hpy
              split at h
              · cases h
              · exact ih.loop _ _ _ _ _ _ _ _ _ bound j _ _ h hok_e hag1 hdl1 hdb hsubrest hpf1 _ _ hpy
          · -- elif
            rename_i c2 t2 e2
            simp only at hok_e
            cases hx : execBody P g G L env [PyStmt.ifs c2 t2 e2] with
            | none => simp [hx] at hpy
            | some o =>
              rw [hx] at hpy
              have hfull : execBody P (g+2) G L env (PyStmt.ifs c2 t2 e2 :: rest) = some (.ret v) := by
                refine exec_single_cons P hx ?_
                cases o with
                | ret v' => simp only at hpy ⊢; cases hpy; rfl
                | fall env' => simp only at hpy ⊢; exact hpy
              have hsub2 : ∀ x ∈ bodyAssigned (PyStmt.ifs c2 t2 e2 :: rest), L.contains x = true := by
                intro x hx2
                rw [bodyAssigned_cons] at hx2
                rcases List.mem_append.mp hx2 with hx2 | hx2
                · exact hsub_e x (by rw [bodyAssigned_cons]; exact List.mem_append_left _ hx2)
                · exact hsubrest x hx2
              exact ih.loop _ _ _ _ _ _ _ _ _ bound j _ _ h hok_e hag1 hdl1 hdb hsub2 hpf1 _ _ hfull
          · -- a proper else
            rename_i hne_nil hne_elif
            have hok_e' : (bodyReturns e = true ∧ disjoint (bodyAssigned e) bound = true) ∧
                okLoop Checks.all j G bound e = true := by
              split at hok_e
              · exact absurd rfl hne_nil
              · exact absurd rfl (hne_elif _ _ _)
              · simpa [Checks.all, Bool.and_eq_true] using hok_e
            obtain ⟨⟨hret_e, hdis_e⟩, hok_e2⟩ := hok_e'
            rw [bind_ok] at h
            obtain ⟨⟨elseE, ctx2⟩, hb2, h⟩ := h
            rw [bind_ok] at h
            obtain ⟨r, hr, h⟩ := h
            rw [pure_ok] at h
            cases h
            cases he : execBody P g G L env e with
            | none => simp [he] at hpy
            | some o =>
              rw [he] at hpy
              cases o with
              | fall env' => exact absurd he ((no_fall P g).1 _ _ _ _ _ hret_e)
              | ret v' =>
                simp only [Option.some.injEq, Outcome.ret.injEq] at hpy
                subst hpy
                have helse : evalS ρ elseE = some v' :=
                  ih.loop G L e [] e false ctx1 env ρ bound j elseE ctx2 hb2 hok_e2 hag1 hdl1 hdb hsub_e (by simp) g v' he
                rw [mkPiecewise_ok hr, evalS_pwOf_skip ρ _ _ hpf1, evalS_pwOf_hit ρ _ _ _ (by simp [evalS])]
                exact helse

theorem callFn_exec {P : Prog} {f2 : Nat} {d : FnDef} {vs : List Val} {v : Val} (h : callFn P f2 d vs = some v) :
    ∃ g, execBody P g d.globals d.locals (d.params.zip vs) d.body = some (.ret v) := by
  cases f2 with
  | zero => simp [callFn] at h
  | succ g =>
    rw [callFn] at h
    split at h
    · cases h
    · refine ⟨g, ?_⟩
      split at h
      · rename_i v' hv
        cases h
        exact hv
      · cases h

theorem sound_fnPlain_core (ih : Sound T P k f) (d : FnDef) (e : SExpr) (c' : Syms)
    (he : trLoop T P f d.globals d.body [] d.body false (d.params.map (fun p => (p, SExpr.sym p))) = .ok (e, c'))
    (hd : fnOk k d = true) (f2 : Nat) (vs : List Val) (v : Val) (hpy : callFn P f2 d vs = some v)
    (ρ : SEnv) (hρ : ∀ n x, List.lookup n (d.params.zip vs) = some x → ρ n = some x) : evalS ρ e = some v := by
  obtain ⟨g, hex⟩ := callFn_exec hpy
  refine ih.loop d.globals d.locals d.body [] d.body false _ (d.params.zip vs) ρ d.params k e c' he hd ?_ ?_ ?_ ?_
    (by simp) g v hex
  · intro n x hn
    have hmem := lookup_zip_mem n d.params vs hn
    exact ⟨.sym n, lookup_map_sym_of_mem n d.params hmem, by simpa [evalS] using hρ n x hn⟩
  · intro n s hn
    obtain ⟨_, hmem⟩ := lookup_map_sym n d.params hn
    exact contains_of_mem (by simp [FnDef.locals, hmem])
  · intro n x hn
    exact lookup_zip_mem n d.params vs hn
  · intro x hx
    exact contains_of_mem (by simp [FnDef.locals, hx])

theorem sound_fnPlain (ih : Sound T P k f) :
    ∀ d margs s, fnToSympy T P (f+1) d margs = .ok s → (margs = none ∨ margs = some []) → fnOk k d = true →
    ∀ f2 vs v, callFn P f2 d vs = some v →
    ∀ ρ : SEnv, (∀ n x, List.lookup n (d.params.zip vs) = some x → ρ n = some x) → evalS ρ s = some v := by
  intro d margs s h hm hd f2 vs v hpy ρ hρ
  rw [fnToSympy] at h
  rw [bind_ok] at h
  obtain ⟨⟨e, c'⟩, he, h⟩ := h
  have hs : s = e := by
    rcases hm with hm | hm <;> subst hm <;> simp only [pure_ok] at h <;> exact h.symm
  subst hs
  exact sound_fnPlain_core ih d s c' he hd f2 vs v hpy ρ hρ

theorem sound_fnSubst (hT : TablesOk T) (ih : Sound T P k f) :
    ∀ d m ms s, fnToSympy T P (f+1) d (some (m :: ms)) = .ok s → fnOk k d = true →
    ∀ f2 vs v, callFn P f2 d vs = some v →
    ∀ ρ' : SEnv, All2 (fun m x => evalS ρ' m = some x) (m :: ms) vs → evalS ρ' s = some v := by
  intro d m ms s h hd f2 vs v hpy ρ' hall
  rw [fnToSympy] at h
  rw [bind_ok] at h
  obtain ⟨⟨e, c'⟩, he, h⟩ := h
  simp only at h
  split at h
  · cases h
  · rw [pure_ok] at h
    subst h
    unfold applySubst
    rw [hT.substSim]
    simp only [↓reduceIte]
    rw [evalS_substSim]
    refine sound_fnPlain_core ih d e c' he hd f2 vs v hpy _ ?_
    intro n x hn
    obtain ⟨m', hm', hx⟩ := lookup_zip_all2 d.params (m :: ms) vs hall n x hn
    simp only [substEnv, hm']
    exact hx

end step

/-- soundness of the translator model at every fuel -/
theorem sound_all {T : Tables} {P : Prog} {k : Nat} (hT : TablesOk T) (hP : ∀ d ∈ P, fnOk k d = true) :
    ∀ f, Sound T P k f := by
  intro f
  induction f with
  | zero => exact sound_zero T P k
  | succ f ih =>
    exact ⟨sound_expr hT hP ih, sound_args ih, sound_loop hT ih, sound_fnPlain ih, sound_fnSubst hT ih⟩

end Mxl.C06
