/-
`get_args` with its `include_*` flags and the readout pass (`getArgsSel`, `evalReadouts`,
`getArgNames`): what the selected table holds.
-/
import MxlVerif.Lemmas.Init
import MxlVerif.Lemmas.Sort
import MxlVerif.Model.Queries
namespace Mxl

/-! ### the data sets removed from the dict -/

theorem lookup_filter_key (p : Name → Bool) (env : Env) (k : Name) (hp : p k = true) :
    (env.filter (fun kv => p kv.1)).lookup k = env.lookup k := by
  induction env with
  | nil => rfl
  | cons kv rest ih =>
    obtain ⟨k', v'⟩ := kv
    cases hk' : p k' with
    | true =>
      rw [List.filter_cons_of_pos (by exact hk'), List.lookup_cons, List.lookup_cons, ih]
    | false =>
      rw [List.filter_cons_of_neg (by simp [hk']), List.lookup_cons, ih]
      have hne : (k == k') = false := by
        simpa using fun h : k = k' => by rw [h, hk'] at hp; cases hp
      simp [hne]

theorem lookup_filter_key_false (p : Name → Bool) (env : Env) (k : Name) (hp : p k = false) :
    (env.filter (fun kv => p kv.1)).lookup k = none := by
  induction env with
  | nil => rfl
  | cons kv rest ih =>
    obtain ⟨k', v'⟩ := kv
    cases hk' : p k' with
    | true =>
      rw [List.filter_cons_of_pos (by exact hk'), List.lookup_cons, ih]
      have hne : (k == k') = false := by
        simpa using fun h : k = k' => by rw [h, hk'] at hp; cases hp
      simp [hne]
    | false =>
      rw [List.filter_cons_of_neg (by simp [hk']), ih]

theorem dropData_lookup (dataKeys : List Name) (env : Env) (k : Name) (hk : k ∉ dataKeys) :
    (dropData dataKeys env).lookup k = env.lookup k :=
  lookup_filter_key (fun n => !dataKeys.contains n) env k (by simpa using hk)

theorem dropData_lookup_data (dataKeys : List Name) (env : Env) (k : Name) (hk : k ∈ dataKeys) :
    (dropData dataKeys env).lookup k = none :=
  lookup_filter_key_false (fun n => !dataKeys.contains n) env k (by simpa using hk)

theorem dropData_get (dataKeys : List Name) (env : Env) (k : Name) (hk : k ∉ dataKeys) :
    (dropData dataKeys env).get k = env.get k := by
  unfold Env.get
  rw [dropData_lookup dataKeys env k hk]

/-! ### the readout pass -/

/-- **what the readout pass computes.**  With distinct readout names, if the pass returns `raw'`
    there is a final scope `scope'` such that nothing but the readouts changed (in the scope and in
    the returned dict), the returned dict holds for every readout the scope's value, and every readout
    none of whose arguments is itself or a readout declared after it holds in the final scope: its
    value is its function applied to the values its arguments have there. -/
theorem evalReadouts_spec : ∀ (ros : List (Name × Fn)) (scope raw raw' : Env),
    (omKeys ros).Nodup → evalReadouts ros scope raw = .ok raw' →
    ∃ scope' : Env,
      (∀ n, n ∉ omKeys ros → scope'.lookup n = scope.lookup n ∧ raw'.lookup n = raw.lookup n) ∧
      (∀ k ∈ omKeys ros, raw'.lookup k = scope'.lookup k ∧ (scope'.lookup k).isSome) ∧
      (∀ pre k ro suf, ros = pre ++ (k, ro) :: suf →
        (∀ a ∈ ro.args, a ≠ k ∧ a ∉ omKeys suf) → (Comp.fn ro).Holds k scope') := by
  intro ros
  induction ros with
  | nil =>
    intro scope raw raw' _ h
    simp only [evalReadouts, pure, Except.pure, Except.ok.injEq] at h
    subst h
    refine ⟨scope, fun n _ => ⟨rfl, rfl⟩, fun k hk => absurd hk (by simp [omKeys]), ?_⟩
    intro pre k ro suf h
    cases pre <;> cases h
  | cons x rest ih =>
    obtain ⟨k0, f0⟩ := x
    intro scope raw raw' hnd h
    simp only [omKeys, List.map_cons, List.nodup_cons] at hnd
    unfold evalReadouts at h
    obtain ⟨v, hv, h⟩ := bind_ok h
    obtain ⟨scope', hfr, hro, hholds⟩ := ih (scope.set k0 v) (raw.set k0 v) raw' hnd.2 h
    have hk0 : scope'.lookup k0 = some v ∧ raw'.lookup k0 = some v := by
      obtain ⟨h1, h2⟩ := hfr k0 hnd.1
      rw [h1, h2, lookup_set_self, lookup_set_self]; exact ⟨rfl, rfl⟩
    refine ⟨scope', ?_, ?_, ?_⟩
    · intro n hn
      simp only [omKeys, List.map_cons, List.mem_cons, not_or] at hn
      obtain ⟨h1, h2⟩ := hfr n hn.2
      rw [h1, h2, lookup_set_ne _ _ hn.1, lookup_set_ne _ _ hn.1]; exact ⟨rfl, rfl⟩
    · intro k hk
      simp only [omKeys, List.map_cons, List.mem_cons] at hk
      rcases hk with rfl | hk
      · rw [hk0.1, hk0.2]; exact ⟨rfl, rfl⟩
      · exact hro k hk
    · intro pre k ro suf heq hargs
      cases pre with
      | nil =>
        simp only [List.nil_append, List.cons.injEq, Prod.mk.injEq] at heq
        obtain ⟨⟨rfl, rfl⟩, rfl⟩ := heq
        unfold Fn.calc at hv
        obtain ⟨vs, hvs, hv⟩ := bind_ok hv
        simp only [pure, Except.pure, Except.ok.injEq] at hv
        subst hv
        refine ⟨vs, ?_, hk0.1⟩
        rw [← hvs]
        apply lookupArgs_congr
        intro a ha
        obtain ⟨hne, hns⟩ := hargs a ha
        rw [(hfr a hns).1, lookup_set_ne _ _ hne]
      | cons y pre' =>
        simp only [List.cons_append, List.cons.injEq] at heq
        exact hholds pre' k ro suf heq.2 hargs

/-! ### the readouts in dependency order -/

theorem mapM_lookup_spec (tbl : List (Name × Fn)) :
    ∀ (order : List Name) (ros : List (Name × Fn)),
      order.mapM (fun k => match tbl.lookup k with
        | some f => (pure (k, f) : Except Err (Name × Fn))
        | none => .error (.keyError k)) = .ok ros →
      omKeys ros = order ∧ ∀ kv ∈ ros, tbl.lookup kv.1 = some kv.2 := by
  intro order
  induction order with
  | nil =>
    intro ros h
    simp only [List.mapM_nil, pure, Except.pure, Except.ok.injEq] at h
    subst h; exact ⟨rfl, fun kv hkv => by cases hkv⟩
  | cons k ks ih =>
    intro ros h
    rw [List.mapM_cons] at h
    obtain ⟨kv, h1, h⟩ := bind_ok h
    obtain ⟨rest, h2, h⟩ := bind_ok h
    simp only [pure, Except.pure, Except.ok.injEq] at h
    subst h
    obtain ⟨ihk, ihv⟩ := ih rest h2
    cases hl : tbl.lookup k with
    | none => rw [hl] at h1; cases h1
    | some f =>
      rw [hl] at h1
      simp only [pure, Except.pure, Except.ok.injEq] at h1
      subst h1
      refine ⟨by simp [omKeys] at ihk ⊢; exact ihk, ?_⟩
      intro kv hkv
      rcases List.mem_cons.mp hkv with rfl | hkv
      · exact hl
      · exact ihv kv hkv

/-- `_sorted_readouts` returns every readout once, each with its own function, in an order in
    which `_sort_dependencies` found each one ready -/
theorem sortedReadouts_spec {c : Content} {scope : Env} {ros : List (Name × Fn)}
    (hro : (omKeys c.readouts).Nodup) (h : sortedReadouts c scope = .ok ros) :
    (omKeys ros).Perm (omKeys c.readouts) ∧ (omKeys ros).Nodup ∧
    (∀ kv ∈ ros, c.readouts.lookup kv.1 = some kv.2) ∧
    Sched (c.readouts.map fun kv => { name := kv.1, required := kv.2.args, provided := [kv.1] })
      (scope.map (·.1)) (omKeys ros) := by
  unfold sortedReadouts at h
  obtain ⟨order, h1, h2⟩ := bind_ok h
  obtain ⟨hk, hv⟩ := mapM_lookup_spec c.readouts order ros h2
  have hnames : ((c.readouts.map fun kv =>
      ({ name := kv.1, required := kv.2.args, provided := [kv.1] } : Dep)).map (·.name)) =
      omKeys c.readouts := by simp [omKeys, List.map_map, Function.comp_def]
  obtain ⟨hperm, hsched, _⟩ := sortDeps_ok_sched _ _ (by rw [hnames]; exact hro) order h1
  rw [hnames] at hperm
  rw [hk]
  exact ⟨hperm, hperm.nodup_iff.mpr hro, hv, hsched⟩

/-! ### the selected table -/

/-- the stages of `get_args(variables, time, **flags)` -/
theorem getArgsSel_ok {c : Content} {vars : Option (List (Name × Rat))} {t : Rat} {f : ArgFlags}
    {l : List (Name × Rat)} (h : getArgsSel c vars t f = .ok l) :
    ∃ cache env raw, createCache c = .ok cache ∧
      getArgsEnv c cache (resolveVars cache vars) t = .ok env ∧
      readoutPass c f (dropData (omKeys c.data) env) = .ok raw ∧
      l.map (·.1) = getArgNames c cache f ∧ ∀ kv ∈ l, raw.lookup kv.1 = some kv.2 := by
  unfold getArgsSel at h
  obtain ⟨cache, h1, h⟩ := bind_ok h
  obtain ⟨env, h2, h⟩ := bind_ok h
  obtain ⟨raw, h3, h⟩ := bind_ok h
  obtain ⟨hk, hv⟩ := mapM_get_spec raw _ _ h
  exact ⟨cache, env, raw, h1, h2, h3, hk, hv⟩

theorem lookup_append_left {env env' : Env} {k : Name} {v : Rat} (h : env.lookup k = some v) :
    (env ++ env').lookup k = some v := by
  rw [List.lookup_append, h]; rfl

theorem lookup_append_none {env env' : Env} {k : Name} (h : env.lookup k = none) :
    (env ++ env').lookup k = env'.lookup k := by
  rw [List.lookup_append, h]; rfl

/-- `get_fluxes` is `get_args` with the reaction and surrogate-flux groups only -/
theorem getFluxes_eq_getArgsSel (c : Content) (vars : Option (List (Name × Rat))) (t : Rat)
    (hflux : ∀ k ∈ c.fluxNames, k ∉ omKeys c.data) :
    getArgsSel c vars t fluxFlags = getFluxes c vars t := by
  unfold getArgsSel getFluxes
  cases hc : createCache c with
  | error e => rfl
  | ok cache =>
    simp only [bind, Except.bind]
    cases he : getArgsEnv c cache (resolveVars cache vars) t with
    | error e => rfl
    | ok env =>
      have hnames : getArgNames c cache fluxFlags = c.fluxNames := by
        simp [getArgNames, fluxFlags, Content.fluxNames, surrogateReactionNames]
      simp only [readoutPass, fluxFlags, Bool.false_eq_true, if_false, pure, Except.pure]
      have hnames' : getArgNames c cache
          { time := false, variables := false, parameters := false, derivedVariables := false,
            derivedParameters := false, reactions := true, surrogateVariables := false,
            surrogateFluxes := true, readouts := false } = c.fluxNames := hnames
      rw [hnames']
      have : ∀ (ks : List Name), (∀ k ∈ ks, k ∉ omKeys c.data) →
          ks.mapM (fun k => (do pure (k, ← (dropData (omKeys c.data) env).get k) : Except Err _)) =
          ks.mapM (fun k => (do pure (k, ← env.get k) : Except Err _)) := by
        intro ks
        induction ks with
        | nil => intro _; rfl
        | cons k ks ih =>
          intro hks
          rw [List.mapM_cons, List.mapM_cons, ih (fun x hx => hks x (List.mem_cons_of_mem _ hx)),
            dropData_get _ _ _ (hks k (by simp))]
      exact this c.fluxNames hflux

/-! ### vocabulary for the tie to `get_arg_names`' source (Generated/C01Cache.lean) -/

/-- the value of the keyword flag called `name` -/
def flagVal (f : ArgFlags) : String → Bool
  | "include_time" => f.time
  | "include_variables" => f.variables
  | "include_parameters" => f.parameters
  | "include_derived_variables" => f.derivedVariables
  | "include_derived_parameters" => f.derivedParameters
  | "include_reactions" => f.reactions
  | "include_surrogate_variables" => f.surrogateVariables
  | "include_surrogate_fluxes" => f.surrogateFluxes
  | "include_readouts" => f.readouts
  | _ => false

/-- the names of one group of `get_arg_names` -/
def groupNames (c : Content) (cache : Cache) : String → List Name
  | "time" => ["time"]
  | "variables" => omKeys c.vars
  | "parameters" => omKeys c.pars
  | "derived_variables" => (omKeys c.derived).filter (fun k => !(omKeys cache.allPars).contains k)
  | "derived_parameters" => (omKeys c.derived).filter (fun k => (omKeys cache.allPars).contains k)
  | "reactions" => omKeys c.rxns
  | "surrogate_variables" => surrogateOutputNames c false
  | "surrogate_fluxes" => surrogateReactionNames c
  | "readouts" => omKeys c.readouts
  | _ => []

def argGroup (c : Content) (cache : Cache) (f : ArgFlags) (p : String × String) : List Name :=
  if flagVal f p.1 then groupNames c cache p.2 else []

/-- lookup-list form of the dict union `a | b` (bindings of `b` shadow those of `a`) -/
def envUnion (a b : Env) : Env := b ++ a

end Mxl
