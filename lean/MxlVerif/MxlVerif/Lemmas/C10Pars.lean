/-
C10 helper lemmas, part 3: `update_parameters` — re-applying a snapshot that lists every
plain parameter erases whatever values the shared model held before.
-/
import MxlVerif.Lemmas.C10Basic
namespace Mxl.C10

theorem All₂.map₂ {α β γ δ} {R : α → β → Prop} {S : γ → δ → Prop} {l : List α} {m : List β}
    (f : α → γ) (g : β → δ) (h : All₂ R l m) (hs : ∀ a b, R a b → S (f a) (g b)) :
    All₂ S (l.map f) (m.map g) := by
  induction h with
  | nil => exact .nil
  | cons hab _ ih => exact .cons (hs _ _ hab) ih

theorem All₂.imp_mem {α β} {R S : α → β → Prop} {l : List α} {m : List β}
    (h : All₂ R l m) (hs : ∀ a b, a ∈ l → R a b → S a b) : All₂ S l m := by
  induction h with
  | nil => exact .nil
  | cons hab _ ih =>
    exact .cons (hs _ _ (by simp) hab) (ih fun a b ha => hs a b (by simp [ha]))

theorem All₂.map_right_mem {α β δ} {R : α → β → Prop} {S : α → δ → Prop} {l : List α}
    {m : List β} (g : β → δ) (h : All₂ R l m) (hs : ∀ a b, a ∈ l → R a b → S a (g b)) :
    All₂ S l (m.map g) := by
  induction h with
  | nil => exact .nil
  | cons hab _ ih =>
    exact .cons (hs _ _ (by simp) hab) (ih fun a b ha => hs a b (by simp [ha]))

theorem All₂.eq_of_eq {α} {l m : List α} (h : All₂ (fun a b => a = b) l m) : l = m := by
  induction h with
  | nil => rfl
  | cons hab _ ih => rw [hab, ih]

theorem All₂.refl {α} {R : α → α → Prop} (hr : ∀ a, R a a) (l : List α) : All₂ R l l := by
  induction l with
  | nil => exact .nil
  | cons a as ih => exact .cons (hr a) ih

def _root_.Mxl.Val.isPlain : Val → Prop
  | .plain _ => True
  | .ia _ => False

/-- two parameter entries: same name, and either the same value or both plain numbers -/
def ParRel (a b : Name × Val) : Prop :=
  a.1 = b.1 ∧ (a.2 = b.2 ∨ (a.2.isPlain ∧ b.2.isPlain))

/-- `c'` is `c` with (possibly) other numbers in its plain parameters: what
    `update_parameters` with numeric values can do to a model -/
structure PlainEq (c c' : Content) : Prop where
  vars : c.vars = c'.vars
  derived : c.derived = c'.derived
  readouts : c.readouts = c'.readouts
  rxns : c.rxns = c'.rxns
  surs : c.surs = c'.surs
  data : c.data = c'.data
  pars : All₂ ParRel c.pars c'.pars

theorem PlainEq.refl (c : Content) : PlainEq c c :=
  ⟨rfl, rfl, rfl, rfl, rfl, rfl, All₂.refl (fun _ => ⟨rfl, .inl rfl⟩) _⟩

theorem All₂_keys {R : Name × Val → Name × Val → Prop} {l m : List (Name × Val)}
    (h : All₂ R l m) (hk : ∀ a b, R a b → a.1 = b.1) : omKeys l = omKeys m := by
  induction h with
  | nil => rfl
  | cons hab _ ih => simp [omKeys] at ih ⊢; exact ⟨hk _ _ hab, ih⟩

theorem PlainEq.keys {c c' : Content} (h : PlainEq c c') : omKeys c.pars = omKeys c'.pars :=
  All₂_keys h.pars fun _ _ r => r.1

/-- every plain parameter of `m0` is listed in the snapshot -/
def Covers (m0 : Content) (p : Pars) : Prop :=
  ∀ a ∈ m0.pars, a.2.isPlain → a.1 ∈ omKeys p

/-- the snapshot names no assignment-defined parameter of `m0` -/
def PlainOnly (m0 : Content) (p : Pars) : Prop :=
  ∀ a ∈ m0.pars, a.1 ∈ omKeys p → a.2.isPlain

theorem omKeys_setPar (ps : List (Name × Val)) (k : Name) (v : Rat) :
    omKeys (setPar ps k v) = omKeys ps := by
  induction ps with
  | nil => rfl
  | cons a as ih =>
    simp only [setPar, omKeys, List.map_cons, List.map_map] at ih ⊢
    rw [ih]
    congr 1
    split <;> rfl

private def AuxRel (ks : List Name) (a b : Name × Val) : Prop :=
  a.1 = b.1 ∧ (a.2 = b.2 ∨ (a.1 ∈ ks ∧ a.2.isPlain ∧ b.2.isPlain))

private theorem absorb_aux (p : Pars) : ∀ (c c' : Content),
    c.vars = c'.vars → c.derived = c'.derived → c.readouts = c'.readouts → c.rxns = c'.rxns →
    c.surs = c'.surs → c.data = c'.data →
    All₂ (AuxRel (omKeys p)) c.pars c'.pars → withPars c p = withPars c' p := by
  induction p with
  | nil =>
    intro c c' h1 h2 h3 h4 h5 h6 hp
    have : c.pars = c'.pars := by
      apply All₂.eq_of_eq
      apply hp.mono
      intro a b ⟨hk, hv⟩
      rcases hv with hv | ⟨hm, _⟩
      · exact Prod.ext hk hv
      · simp [omKeys] at hm
    have : c = c' := by
      cases c; cases c'; simp_all
    rw [this]
  | cons kv rest ih =>
    obtain ⟨k, v⟩ := kv
    intro c c' h1 h2 h3 h4 h5 h6 hp
    have hkeys : omKeys c.pars = omKeys c'.pars := All₂_keys hp fun _ _ r => r.1
    unfold withPars updatePar
    rw [← hkeys]
    by_cases hk : k ∈ omKeys c.pars
    · simp only [hk, if_true]
      apply ih <;> try assumption
      simp only [setPar]
      apply hp.map₂
      intro a b ⟨hab, hv⟩
      by_cases hak : a.1 = k
      · have hbk : b.1 = k := hab ▸ hak
        simp only [hak, hbk, if_true]
        exact ⟨rfl, .inl rfl⟩
      · have hbk : ¬ b.1 = k := hab ▸ hak
        simp only [hak, hbk, if_false]
        refine ⟨hab, ?_⟩
        rcases hv with hv | ⟨hm, hpa, hpb⟩
        · exact .inl hv
        · right
          refine ⟨?_, hpa, hpb⟩
          simp [omKeys] at hm ⊢
          rcases hm with hm | hm
          · exact absurd hm hak
          · exact hm
    · simp [hk]

/-- **absorption**: whatever numbers the shared model holds in its plain parameters,
    applying a snapshot that lists all of them gives the same model -/
theorem withPars_absorb {m0 c : Content} {p : Pars} (h : PlainEq m0 c) (hc : Covers m0 p) :
    withPars c p = withPars m0 p := by
  symm
  apply absorb_aux p m0 c h.vars h.derived h.readouts h.rxns h.surs h.data
  apply h.pars.imp_mem
  intro a b ha ⟨hk, hv⟩
  refine ⟨hk, ?_⟩
  rcases hv with hv | ⟨hpa, hpb⟩
  · exact .inl hv
  · exact .inr ⟨hc a ha hpa, hpa, hpb⟩

theorem updatePar_plainEq {m0 c c1 : Content} {k : Name} {v : Rat} (h : PlainEq m0 c)
    (hk : ∀ a ∈ m0.pars, a.1 = k → a.2.isPlain) (hu : updatePar c k v = .ok c1) :
    PlainEq m0 c1 := by
  unfold updatePar at hu
  split at hu
  · cases hu
    refine ⟨h.vars, h.derived, h.readouts, h.rxns, h.surs, h.data, ?_⟩
    simp only [setPar]
    apply h.pars.map_right_mem
    intro a b ha ⟨hab, hv⟩
    by_cases hbk : b.1 = k
    · simp only [hbk, if_true]
      exact ⟨hab.trans hbk, .inr ⟨hk a ha (hab.trans hbk), trivial⟩⟩
    · simp only [hbk, if_false]
      exact ⟨hab, hv⟩
  · cases hu

theorem withPars_plainEq {m0 : Content} {p : Pars} (hpo : PlainOnly m0 p) :
    ∀ {c c1 : Content}, PlainEq m0 c → withPars c p = .ok c1 → PlainEq m0 c1 := by
  induction p with
  | nil => intro c c1 h hw; simp [withPars] at hw; subst hw; exact h
  | cons kv rest ih =>
    obtain ⟨k, v⟩ := kv
    intro c c1 h hw
    unfold withPars at hw
    split at hw
    · cases hw
    · rename_i c' hu
      have h' : PlainEq m0 c' :=
        updatePar_plainEq h (fun a ha hak => hpo a ha (by simp [omKeys, hak])) hu
      exact ih (fun a ha hm => hpo a ha (by simp [omKeys] at hm ⊢; exact .inr hm)) h' hw

end Mxl.C10
