/- C12 — what calling the simulator's Jacobian closure returns (core Lean only). -/
import MxlVerif.Lemmas.C12Free
namespace Mxl.C12
open Mxl

theorem map_map_congr {α β} (f g : α → β) (m : List (List α))
    (h : ∀ row ∈ m, ∀ a ∈ row, f a = g a) :
    (m.map fun row => row.map f) = (m.map fun row => row.map g) := by
  apply List.map_congr_left
  intro row hrow
  apply List.map_congr_left
  intro a ha
  exact h row hrow a ha

/-- calling the closure the simulator hands to the integrator returns `D` of the model's
    equations, evaluated at the state it is called with and the model's parameter values -/
theorem jacfn_sound (sc : SContent) (hwf : sc.wf = true) (t : Rat) (xs : List Rat)
    (J : List (List Rat)) (h : callJac sc t xs = .ok (some J)) :
    ∃ cache es, createCache sc.toContent = .ok cache ∧ toSymbolic sc = .ok es ∧
      J = (jacobianOf es cache.varNames).map fun row => row.map (evalS (symEnv sc cache xs)) := by
  have w := wf_facts sc hwf
  unfold callJac at h
  cases hsj : simJacobian sc with
  | none => simp [hsj] at h
  | some f =>
    simp only [hsj, bind, Except.bind] at h
    unfold simJacobian at hsj
    cases hs : toSymbolic sc with
    | error err => simp [hs] at hsj
    | ok es =>
      cases hja : jacArgs sc with
      | error err => simp [hs, hja] at hsj
      | ok args =>
        obtain ⟨vn, pn, pv⟩ := args
        simp only [hs, hja, Option.some.injEq] at hsj
        subst hsj
        simp only [hja] at h
        split at h
        · simp at h
        · split at h
          · simp at h
          · rename_i hunb
            simp only [pure, Except.pure, Except.ok.injEq, Option.some.injEq] at h
            obtain ⟨cache, hc, hvn, hpn, hpv⟩ := jacArgs_inv sc vn pn pv hja
            subst hvn hpn hpv
            refine ⟨cache, es, hc, rfl, ?_⟩
            rw [← h]
            apply map_map_congr
            intro row hrow e he
            apply evalS_congr_syms
            intro n hn
            -- `n` is bound by the compiled function …
            have hb : n ∈ JacFn.bound ⟨cache.varNames, omKeys cache.basePars, jacobianOf es cache.varNames⟩ := by
              have := List.find?_eq_none.mp hunb n
                (List.mem_flatMap.mpr ⟨row, hrow, List.mem_flatMap.mpr ⟨e, he, hn⟩⟩)
              simpa using this
            -- … and is a symbol of the equations
            obtain ⟨cache', hc', hsyms⟩ := toSymbolic_syms sc es hs
            rw [hc] at hc'
            have hcc : cache' = cache := by injection hc' with h'; exact h'.symm
            rw [hcc] at hsyms
            unfold jacobianOf at hrow
            obtain ⟨ei, hei, hrow'⟩ := List.mem_map.mp hrow
            subst hrow'
            obtain ⟨x, _, hex⟩ := List.mem_map.mp he
            subst hex
            have hn' := hsyms ei hei n (freeSyms_D x ei n hn)
            obtain ⟨hVar, hBase⟩ := cache_facts sc cache hc
            have hInit : omKeys cache.init = omKeys sc.vars := by
              obtain ⟨_, dependent, _, _, _, _, _, init, _, _, _, _, _, hinit, _, hcc'⟩ := createCache_inv _ _ hc
              rw [hcc']; simp only; rw [(pairs_mapM dependent _ _ hinit).1, keys_vars]
            have hsubp : ∀ k, k ∈ omKeys cache.basePars → k ∈ omKeys sc.pars := by
              intro k hk; rw [hBase] at hk
              have := mem_keys_plainOf _ _ hk; rwa [keys_pars] at this
            unfold JacFn.bound at hb
            simp only [List.mem_cons] at hb
            rcases hb with hb | hb
            · exfalso
              subst hb
              rcases hn' with h1 | h1 | h1
              · rw [hInit] at h1; exact w.time_v h1
              · exact w.time_p (hsubp _ h1)
              · exact w.time_data h1
            · exact lamEnv_aligned sc hwf cache hc _ t xs n hb

end Mxl.C12
