/-
One readable hypothesis (`WFnames`: all component names distinct, surrogates well-shaped)
implies every auxiliary hypothesis used by the end-to-end theorems.
-/
import MxlVerif.Lemmas.WFNames
import MxlVerif.Lemmas.Final
import MxlVerif.Lemmas.StaticHolds
import MxlVerif.Lemmas.ClassifyComplete
namespace Mxl

theorem names_sublist_nodup {c : Content} (h : WFnames c) : c.names.Nodup := by
  have := h.nodup
  simp only [List.nodup_cons] at this
  exact this.2

theorem ParNamesDistinct_of_names {c : Content} (h : WFnames c) : ParNamesDistinct c := by
  have hnd := h.nodup
  simp only [List.nodup_cons] at hnd
  obtain ⟨htime, hnames⟩ := hnd
  unfold Content.names at hnames htime
  simp only [List.mem_append, not_or] at htime
  have h1 := List.nodup_append.mp hnames
  have h2 := List.nodup_append.mp h1.1
  have h3 := List.nodup_append.mp h2.1
  have h4 := List.nodup_append.mp h3.1
  have h5 := List.nodup_append.mp h4.1
  have h6 := List.nodup_append.mp h5.1
  refine ⟨h6.2.1, ?_, ?_, htime.1.1.1.1.1.2⟩
  · intro k hk hv
    exact h6.2.2 k hv k hk rfl
  · intro k hk hd
    exact h1.2.2 k (by simp [hk]) k hd rfl

theorem DerivedDistinct_of_names {c : Content} (h : WFnames c) : DerivedDistinct c := by
  intro k d hd
  have hk : k ∈ omKeys c.derived := mem_keys_of_mem (mem_of_lookup hd)
  have hc := h.count_le k
  have hpos := cpos hk
  have hv := WFnames.count_vars (c := c) k
  have hp := WFnames.count_pars (c := c) k
  rw [isRS_false_iff, isVP_false_iff]
  refine ⟨⟨?_, ?_⟩, ⟨?_, ?_⟩⟩ <;> intro hmem <;> have := cpos hmem <;> omega

end Mxl
