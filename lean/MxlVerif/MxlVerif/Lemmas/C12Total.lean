/- C12 — whether `Model.__call__` returns or raises depends on NAMES only, never on the state values (core Lean only):
   for a surrogate-free model, if the numeric right-hand side is defined at one state it is defined at every state of
   the same length.  Used to discharge the hypothesis "`callRhs` succeeds along the coordinate" of the `HasDerivAt`
   statement about the Jacobian. -/
import MxlVerif.Lemmas.C12JacRhs
namespace Mxl.C12
open Mxl

/-- the two environments bind the same names in the same order -/
def SameKeys {β γ} (e : List (Name × β)) (e' : List (Name × γ)) : Prop := e.map (·.1) = e'.map (·.1)

theorem SameKeys.refl {β} (e : List (Name × β)) : SameKeys e e := rfl

theorem lookup_some_of_sameKeys {β γ} : ∀ (e : List (Name × β)) (e' : List (Name × γ)) (k : Name) (v : β),
    SameKeys e e' → e.lookup k = some v → ∃ v', e'.lookup k = some v' := by
  intro e
  induction e with
  | nil => intro e' k v _ h; simp [List.lookup] at h
  | cons a e ih =>
    intro e' k v hs h
    cases e' with
    | nil => simp [SameKeys] at hs
    | cons a' e' =>
      obtain ⟨ka, va⟩ := a
      obtain ⟨ka', va'⟩ := a'
      simp only [SameKeys, List.map_cons, List.cons.injEq] at hs
      obtain ⟨hk, ht⟩ := hs
      subst hk
      simp only [List.lookup] at h ⊢
      cases hb : k == ka with
      | true => exact ⟨va', by simp⟩
      | false =>
        simp only [hb] at h ⊢
        exact ih e' k v ht h

theorem get_ok_of_sameKeys (e e' : Env) (k : Name) (v : Rat) (hs : SameKeys e e') (h : e.get k = .ok v) :
    ∃ v', e'.get k = .ok v' := by
  unfold Env.get at h ⊢
  cases hl : e.lookup k with
  | none => simp [hl] at h
  | some x =>
    obtain ⟨v', hv'⟩ := lookup_some_of_sameKeys e e' k x hs hl
    exact ⟨v', by simp [hv']⟩

theorem lookupArgs_ok_of_sameKeys (e e' : Env) (hs : SameKeys e e') : ∀ (args : List Name) (vs : List Rat),
    lookupArgs e args = .ok vs → ∃ vs', lookupArgs e' args = .ok vs' := by
  intro args
  induction args with
  | nil => intro vs _; exact ⟨[], rfl⟩
  | cons a args ih =>
    intro vs h
    unfold lookupArgs at h ⊢
    simp only [List.mapM_cons, bind, Except.bind] at h ⊢
    cases hg : e.get a with
    | error err => simp [hg] at h
    | ok x =>
      simp only [hg] at h
      obtain ⟨x', hx'⟩ := get_ok_of_sameKeys e e' a x hs hg
      simp only [hx']
      cases hr : List.mapM e.get args with
      | error err => simp [hr] at h
      | ok rest =>
        obtain ⟨rest', hrest'⟩ := ih rest hr
        unfold lookupArgs at hrest'
        simp only [hrest']
        exact ⟨x' :: rest', rfl⟩

theorem calc_ok_of_sameKeys (f : Fn) (e e' : Env) (hs : SameKeys e e') (v : Rat) (h : f.calc e = .ok v) :
    ∃ v', f.calc e' = .ok v' := by
  unfold Fn.calc at h ⊢
  simp only [bind, Except.bind] at h ⊢
  cases hl : lookupArgs e f.args with
  | error err => simp [hl] at h
  | ok vs =>
    obtain ⟨vs', hvs'⟩ := lookupArgs_ok_of_sameKeys e e' hs f.args vs hl
    simp only [hvs']
    exact ⟨_, rfl⟩

/-- every component that can be looked up is a plain function (no surrogate) -/
def AllFn (ts : List (Name × Comp)) : Prop := ∀ k c, ts.lookup k = some c → ∃ f, c = Comp.fn f

theorem evalInOrder_ok_of_sameKeys (ts : List (Name × Comp)) (hts : AllFn ts) : ∀ (ks : List Name) (e e' r : Env),
    SameKeys e e' → evalInOrder ts ks e = .ok r → ∃ r', evalInOrder ts ks e' = .ok r' ∧ SameKeys r r' := by
  intro ks
  induction ks with
  | nil =>
    intro e e' r hs h
    simp only [evalInOrder, Except.ok.injEq] at h
    subst h
    exact ⟨e', rfl, hs⟩
  | cons k ks ih =>
    intro e e' r hs h
    simp only [evalInOrder] at h ⊢
    cases hl : ts.lookup k with
    | none => simp [hl] at h
    | some c =>
      obtain ⟨f, hf⟩ := hts k c hl
      subst hf
      simp only [hl, Comp.calcInpl, bind, Except.bind] at h ⊢
      cases hc : f.calc e with
      | error err => simp [hc] at h
      | ok v =>
        obtain ⟨v', hv'⟩ := calc_ok_of_sameKeys f e e' hs v hc
        simp only [hc, hv', pure, Except.pure] at h ⊢
        exact ih (e.set k v) (e'.set k v') r (by
          simp only [SameKeys, Env.set, List.map_cons] at hs ⊢
          rw [hs]) h

theorem keys_omInsert_of_sameKeys {β γ} : ∀ (m : List (Name × β)) (m' : List (Name × γ)) (k : Name) (v : β) (v' : γ),
    SameKeys m m' → SameKeys (omInsert m k v) (omInsert m' k v') := by
  intro m
  induction m with
  | nil =>
    intro m' k v v' hs
    cases m' with
    | nil => simp [SameKeys, omInsert]
    | cons _ _ => simp [SameKeys] at hs
  | cons a m ih =>
    intro m' k v v' hs
    cases m' with
    | nil => simp [SameKeys] at hs
    | cons a' m' =>
      obtain ⟨ka, va⟩ := a
      obtain ⟨ka', va'⟩ := a'
      simp only [SameKeys, List.map_cons, List.cons.injEq] at hs
      obtain ⟨hk, ht⟩ := hs
      subst hk
      simp only [omInsert]
      cases hb : ka == k with
      | true => simp only [if_true, SameKeys, List.map_cons, List.cons.injEq, true_and]; exact ht
      | false =>
        simp only [Bool.false_eq_true, if_false, SameKeys, List.map_cons, List.cons.injEq, true_and]
        exact ih m' k v v' ht

theorem accumulate_ok (d d' : List (Name × Rat)) (k : Name) (v v' : Rat) (r : List (Name × Rat))
    (hs : SameKeys d d') (h : accumulate d k v = .ok r) :
    ∃ r', accumulate d' k v' = .ok r' ∧ SameKeys r r' := by
  unfold accumulate at h ⊢
  cases hl : d.lookup k with
  | none => simp [hl] at h
  | some old =>
    obtain ⟨old', hold'⟩ := lookup_some_of_sameKeys d d' k old hs hl
    simp only [hl, hold', pure, Except.pure, Except.ok.injEq] at h ⊢
    subst h
    exact ⟨_, rfl, keys_omInsert_of_sameKeys d d' k _ _ hs⟩

theorem accStatic_ok (dep dep' : Env) (hdep : SameKeys dep dep') (k : Name) : ∀ (st : List (Name × Rat))
    (d d' r : List (Name × Rat)), SameKeys d d' → accStatic dep k st d = .ok r →
    ∃ r', accStatic dep' k st d' = .ok r' ∧ SameKeys r r' := by
  intro st
  induction st with
  | nil =>
    intro d d' r hs h
    simp only [accStatic, pure, Except.pure, Except.ok.injEq] at h
    subst h
    exact ⟨d', rfl, hs⟩
  | cons a st ih =>
    intro d d' r hs h
    obtain ⟨flux, n⟩ := a
    simp only [accStatic, bind, Except.bind] at h ⊢
    cases hg : dep.get flux with
    | error err => simp [hg] at h
    | ok fv =>
      obtain ⟨fv', hfv'⟩ := get_ok_of_sameKeys dep dep' flux fv hdep hg
      simp only [hg, hfv'] at h ⊢
      cases ha : accumulate d k (n * fv) with
      | error err => simp [ha] at h
      | ok d1 =>
        obtain ⟨d1', hd1', hs1⟩ := accumulate_ok d d' k (n * fv) (n * fv') d1 hs ha
        simp only [ha, hd1'] at h ⊢
        exact ih d1 d1' r hs1 h

theorem accStaticAll_ok (dep dep' : Env) (hdep : SameKeys dep dep') : ∀ (all : List (Name × List (Name × Rat)))
    (d d' r : List (Name × Rat)), SameKeys d d' → accStaticAll dep all d = .ok r →
    ∃ r', accStaticAll dep' all d' = .ok r' ∧ SameKeys r r' := by
  intro all
  induction all with
  | nil =>
    intro d d' r hs h
    simp only [accStaticAll, pure, Except.pure, Except.ok.injEq] at h
    subst h
    exact ⟨d', rfl, hs⟩
  | cons a all ih =>
    intro d d' r hs h
    obtain ⟨k, st⟩ := a
    simp only [accStaticAll, bind, Except.bind] at h ⊢
    cases ha : accStatic dep k st d with
    | error err => simp [ha] at h
    | ok d1 =>
      obtain ⟨d1', hd1', hs1⟩ := accStatic_ok dep dep' hdep k st d d' d1 hs ha
      simp only [ha, hd1'] at h ⊢
      exact ih d1 d1' r hs1 h

theorem accDyn_ok (dep dep' : Env) (hdep : SameKeys dep dep') (k : Name) : ∀ (st : List (Name × Fn))
    (d d' r : List (Name × Rat)), SameKeys d d' → accDyn dep k st d = .ok r →
    ∃ r', accDyn dep' k st d' = .ok r' ∧ SameKeys r r' := by
  intro st
  induction st with
  | nil =>
    intro d d' r hs h
    simp only [accDyn, pure, Except.pure, Except.ok.injEq] at h
    subst h
    exact ⟨d', rfl, hs⟩
  | cons a st ih =>
    intro d d' r hs h
    obtain ⟨flux, dv⟩ := a
    simp only [accDyn, bind, Except.bind] at h ⊢
    cases hn : dv.calc dep with
    | error err => simp [hn] at h
    | ok n =>
      obtain ⟨n', hn'⟩ := calc_ok_of_sameKeys dv dep dep' hdep n hn
      simp only [hn, hn'] at h ⊢
      cases hg : dep.get flux with
      | error err => simp [hg] at h
      | ok fv =>
        obtain ⟨fv', hfv'⟩ := get_ok_of_sameKeys dep dep' flux fv hdep hg
        simp only [hg, hfv'] at h ⊢
        cases ha : accumulate d k (n * fv) with
        | error err => simp [ha] at h
        | ok d1 =>
          obtain ⟨d1', hd1', hs1⟩ := accumulate_ok d d' k (n * fv) (n' * fv') d1 hs ha
          simp only [ha, hd1'] at h ⊢
          exact ih d1 d1' r hs1 h

theorem accDynAll_ok (dep dep' : Env) (hdep : SameKeys dep dep') : ∀ (all : List (Name × List (Name × Fn)))
    (d d' r : List (Name × Rat)), SameKeys d d' → accDynAll dep all d = .ok r →
    ∃ r', accDynAll dep' all d' = .ok r' ∧ SameKeys r r' := by
  intro all
  induction all with
  | nil =>
    intro d d' r hs h
    simp only [accDynAll, pure, Except.pure, Except.ok.injEq] at h
    subst h
    exact ⟨d', rfl, hs⟩
  | cons a all ih =>
    intro d d' r hs h
    obtain ⟨k, st⟩ := a
    simp only [accDynAll, bind, Except.bind] at h ⊢
    cases ha : accDyn dep k st d with
    | error err => simp [ha] at h
    | ok d1 =>
      obtain ⟨d1', hd1', hs1⟩ := accDyn_ok dep dep' hdep k st d d' d1 hs ha
      simp only [ha, hd1'] at h ⊢
      exact ih d1 d1' r hs1 h

theorem mapM_get_ok (d d' : List (Name × Rat)) (hs : SameKeys d d') : ∀ (ks : List Name) (vs : List Rat),
    ks.mapM (fun k => Env.get d k) = .ok vs → ∃ vs', ks.mapM (fun k => Env.get d' k) = .ok vs' := by
  intro ks vs h
  exact lookupArgs_ok_of_sameKeys d d' hs ks vs h

theorem zip_sameKeys : ∀ (l : List Name) (xs xs' : List Rat), xs.length = xs'.length →
    SameKeys (l.zip xs) (l.zip xs') := by
  intro l
  induction l with
  | nil => intro xs xs' _; simp [SameKeys]
  | cons a l ih =>
    intro xs xs' hl
    cases xs with
    | nil =>
      cases xs' with
      | nil => simp [SameKeys]
      | cons _ _ => simp at hl
    | cons x xs =>
      cases xs' with
      | nil => simp at hl
      | cons x' xs' =>
        simp only [List.zip_cons_cons, SameKeys, List.map_cons, List.cons.injEq, true_and]
        exact ih xs xs' (by simpa using hl)

theorem getArgsEnv_ok (c : Content) (hfn : AllFn c.containers) (cache : Cache) (t : Rat) (xs xs' : List Rat)
    (hlen : xs'.length = xs.length) (dep : Env) (h : getArgsEnv c cache (cache.varNames.zip xs) t = .ok dep) :
    ∃ dep', getArgsEnv c cache (cache.varNames.zip xs') t = .ok dep' ∧ SameKeys dep dep' := by
  unfold getArgsEnv at h ⊢
  refine evalInOrder_ok_of_sameKeys c.containers hfn cache.dynOrder _ _ dep ?_ h
  have hz := zip_sameKeys cache.varNames xs xs' hlen.symm
  simp only [SameKeys, List.map_cons, List.map_append, List.map_reverse] at hz ⊢
  rw [hz]

theorem rhsFromArgs_ok (cache : Cache) (dep dep' : Env) (hsd : SameKeys dep dep') (d : List (Name × Rat))
    (h : rhsFromArgs cache cache.varNames dep = .ok d) :
    ∃ d', rhsFromArgs cache cache.varNames dep' = .ok d' ∧ SameKeys d d' := by
  unfold rhsFromArgs at h ⊢
  simp only [bind, Except.bind] at h ⊢
  cases h1 : accStaticAll dep cache.stoich (cache.varNames.map fun k => (k, (0 : Rat))) with
  | error err => simp [h1] at h
  | ok d1 =>
    obtain ⟨d1', hd1', hs1⟩ := accStaticAll_ok dep dep' hsd cache.stoich _ _ d1 (SameKeys.refl _) h1
    simp only [h1, hd1'] at h ⊢
    exact accDynAll_ok dep dep' hsd cache.dynStoich d1 d1' d hs1 h

/-- **names only**: for a model whose components are plain functions, `Model.__call__` returns at every state of the same
    length as one at which it returns -/
theorem callRhs_total (c : Content) (hfn : AllFn c.containers) (t : Rat) (xs xs' ds : List Rat)
    (hlen : xs'.length = xs.length) (h : callRhs c t xs = .ok ds) : ∃ ds', callRhs c t xs' = .ok ds' := by
  unfold callRhs at h ⊢
  cases hc : createCache c with
  | error err => simp [hc, bind, Except.bind] at h
  | ok cache =>
    simp only [hc, bind, Except.bind] at h ⊢
    by_cases hne : (xs.length != cache.varNames.length) = true
    · simp [hne] at h
    · have hne' : (xs'.length != cache.varNames.length) = false := by rw [hlen]; simpa using hne
      have hne2 : (xs.length != cache.varNames.length) = false := by simpa using hne
      simp only [hne2, hne', Bool.false_eq_true, if_false] at h ⊢
      cases hd : getArgsEnv c cache (cache.varNames.zip xs) t with
      | error err => simp [hd] at h
      | ok dep =>
        obtain ⟨dep', hdep', hsd⟩ := getArgsEnv_ok c hfn cache t xs xs' hlen dep hd
        simp only [hd, hdep'] at h ⊢
        cases hr : rhsFromArgs cache cache.varNames dep with
        | error err => simp [hr] at h
        | ok d =>
          obtain ⟨d', hd', hs2⟩ := rhsFromArgs_ok cache dep dep' hsd d hr
          simp only [hr, hd'] at h ⊢
          exact mapM_get_ok d d' hs2 cache.varNames ds h

/-- a well-formed (surrogate-free) symbolic content has plain functions only -/
theorem allFn_of_wf (sc : SContent) (hwf : sc.wf = true) : AllFn sc.toContent.containers := by
  intro k comp hl
  rcases containers_lookup sc (wf_facts sc hwf) k comp hl with ⟨r, _, hcomp⟩ | ⟨_, f, _, hcomp⟩
  · exact ⟨_, hcomp⟩
  · exact ⟨_, hcomp⟩

end Mxl.C12
