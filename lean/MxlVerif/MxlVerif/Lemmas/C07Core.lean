/-
Facts about the shared core model (`Model/Core.lean`) that C07 needs: lookups in ordered-map unions,
`evalInOrder` as sequential evaluation of function definitions when there are no surrogates and no
initial assignments, what `createCache` returns.  Core Lean only.
-/
import MxlVerif.Lemmas.C07Env
import MxlVerif.Lemmas.C07Sort
namespace Mxl

/-! ### ordered maps -/

theorem lookup_cons_eq {β} (k : Name) (v : β) (rest : List (Name × β)) (a : Name) :
    ((k, v) :: rest).lookup a = if a = k then some v else rest.lookup a := by
  simp only [List.lookup_cons]
  by_cases h : a = k
  · subst h; simp
  · have : (a == k) = false := by simpa using h
    simp [this, h]

theorem lookup_omInsert {β} : ∀ (m : List (Name × β)) (k : Name) (v : β) (a : Name),
    (omInsert m k v).lookup a = if a = k then some v else m.lookup a := by
  intro m; induction m with
  | nil => intro k v a; simp [omInsert, lookup_cons_eq]
  | cons kv rest ih =>
    intro k v a
    obtain ⟨k', v'⟩ := kv
    simp only [omInsert]
    by_cases hk : k' = k
    · subst hk
      simp only [beq_self_eq_true, if_true, lookup_cons_eq]
      by_cases h : a = k' <;> simp [h]
    · have hk' : (k' == k) = false := by simpa using hk
      simp only [hk', Bool.false_eq_true, if_false]
      rw [lookup_cons_eq, lookup_cons_eq, ih]
      by_cases h : a = k'
      · subst h; simp [hk]
      · simp [h]

theorem lookup_some_mem_keys {β} : ∀ {m : List (Name × β)} {a : Name} {v : β},
    m.lookup a = some v → a ∈ m.map (·.1) := by
  intro m; induction m with
  | nil => intro a v h; simp at h
  | cons kv rest ih =>
    intro a v h
    obtain ⟨k, w⟩ := kv
    rw [lookup_cons_eq] at h
    by_cases hak : a = k
    · subst hak; simp
    · simp [hak] at h; exact List.mem_cons_of_mem _ (ih h)

theorem lookup_none_of_not_mem {β} : ∀ {m : List (Name × β)} {a : Name},
    a ∉ m.map (·.1) → m.lookup a = none := by
  intro m a h
  cases hl : m.lookup a with
  | none => rfl
  | some v => exact absurd (lookup_some_mem_keys hl) h

theorem lookup_some_of_mem_keys {β} : ∀ {m : List (Name × β)} {a : Name},
    a ∈ m.map (·.1) → ∃ v, m.lookup a = some v := by
  intro m; induction m with
  | nil => intro a h; cases h
  | cons kv rest ih =>
    intro a h
    obtain ⟨k, w⟩ := kv
    rw [lookup_cons_eq]
    by_cases hak : a = k
    · exact ⟨w, by simp [hak]⟩
    · simp only [List.map_cons, List.mem_cons] at h
      cases h with
      | inl h1 => exact absurd h1 hak
      | inr h1 => simpa [hak] using ih h1

theorem lookup_omUnion {β} : ∀ (b a : List (Name × β)) (x : Name), (b.map (·.1)).Nodup →
    (omUnion a b).lookup x = match b.lookup x with | some v => some v | none => a.lookup x := by
  intro b; induction b with
  | nil => intro a x _; simp [omUnion]
  | cons kv rest ih =>
    intro a x hnd
    obtain ⟨k, v⟩ := kv
    simp only [List.map_cons, List.nodup_cons] at hnd
    have : omUnion a ((k, v) :: rest) = omUnion (omInsert a k v) rest := by simp [omUnion]
    rw [this, ih _ _ hnd.2, lookup_omInsert, lookup_cons_eq]
    by_cases hx : x = k
    · subst hx
      simp [lookup_none_of_not_mem hnd.1]
    · simp [hx]

theorem lookup_map_snd {β γ} (g : β → γ) : ∀ (m : List (Name × β)) (a : Name),
    (m.map fun kv => (kv.1, g kv.2)).lookup a = (m.lookup a).map g := by
  intro m; induction m with
  | nil => intro a; rfl
  | cons kv rest ih =>
    intro a; obtain ⟨k, v⟩ := kv
    simp only [List.map_cons, lookup_cons_eq, ih]
    by_cases h : a = k <;> simp [h]

theorem keys_map_snd {β γ} (g : β → γ) (m : List (Name × β)) :
    (m.map fun kv => (kv.1, g kv.2)).map (·.1) = m.map (·.1) := by
  simp [List.map_map, Function.comp_def]

theorem keys_omInsert_nodup {β} : ∀ (m : List (Name × β)) (k : Name) (v : β),
    (m.map (·.1)).Nodup → ((omInsert m k v).map (·.1)).Nodup ∧
      ∀ a, a ∈ (omInsert m k v).map (·.1) ↔ (a = k ∨ a ∈ m.map (·.1)) := by
  intro m; induction m with
  | nil => intro k v _; simp [omInsert]
  | cons kv rest ih =>
    intro k v hnd
    obtain ⟨k', v'⟩ := kv
    simp only [List.map_cons, List.nodup_cons] at hnd
    simp only [omInsert]
    by_cases hk : k' = k
    · subst hk
      simp only [beq_self_eq_true, if_true, List.map_cons, List.nodup_cons, List.mem_cons]
      exact ⟨hnd, fun a => by constructor <;> intro h <;> rcases h with h | h <;> simp_all⟩
    · have hk' : (k' == k) = false := by simpa using hk
      simp only [hk', Bool.false_eq_true, if_false, List.map_cons, List.nodup_cons, List.mem_cons]
      obtain ⟨h1, h2⟩ := ih k v hnd.2
      refine ⟨⟨?_, h1⟩, ?_⟩
      · intro hmem
        rcases (h2 k').mp hmem with h | h
        · exact hk h
        · exact hnd.1 h
      · intro a
        rw [h2 a]
        constructor
        · rintro (h | h | h) <;> simp_all
        · rintro (h | h | h) <;> simp_all

theorem keys_omUnion_nodup {β} : ∀ (b a : List (Name × β)),
    (a.map (·.1)).Nodup → ((omUnion a b).map (·.1)).Nodup ∧
      ∀ x, x ∈ (omUnion a b).map (·.1) ↔ (x ∈ a.map (·.1) ∨ x ∈ b.map (·.1)) := by
  intro b; induction b with
  | nil => intro a h; simp [omUnion, h]
  | cons kv rest ih =>
    intro a h
    obtain ⟨k, v⟩ := kv
    have e : omUnion a ((k, v) :: rest) = omUnion (omInsert a k v) rest := by simp [omUnion]
    obtain ⟨h1, h2⟩ := keys_omInsert_nodup a k v h
    obtain ⟨h3, h4⟩ := ih (omInsert a k v) h1
    rw [e]
    refine ⟨h3, fun x => ?_⟩
    rw [h4 x, h2 x]
    simp only [List.map_cons, List.mem_cons]
    constructor
    · rintro ((h | h) | h) <;> simp_all
    · rintro (h | h | h) <;> simp_all

theorem lookup_isSome_iff {β} {m : List (Name × β)} {a : Name} :
    (∃ v, m.lookup a = some v) ↔ a ∈ m.map (·.1) :=
  ⟨fun ⟨_, h⟩ => lookup_some_mem_keys h, lookup_some_of_mem_keys⟩

theorem lookup_reverse_nodup {β} : ∀ (m : List (Name × β)) (a : Name), (m.map (·.1)).Nodup →
    m.reverse.lookup a = m.lookup a := by
  intro m; induction m with
  | nil => intro a _; rfl
  | cons kv rest ih =>
    intro a hnd
    obtain ⟨k, v⟩ := kv
    simp only [List.map_cons, List.nodup_cons] at hnd
    rw [List.reverse_cons, List.lookup_append, ih a hnd.2, lookup_cons_eq, lookup_cons_eq]
    by_cases hak : a = k
    · subst hak
      simp [lookup_none_of_not_mem hnd.1]
    · simp [hak]

theorem lookup_some_mem_pair {β} : ∀ {m : List (Name × β)} {a : Name} {v : β},
    m.lookup a = some v → (a, v) ∈ m := by
  intro m; induction m with
  | nil => intro a v h; simp at h
  | cons kv rest ih =>
    intro a v h
    obtain ⟨k, w⟩ := kv
    rw [lookup_cons_eq] at h
    by_cases hak : a = k
    · subst hak; simp at h; subst h; exact List.mem_cons_self
    · simp [hak] at h; exact List.mem_cons_of_mem _ (ih h)

theorem mem_omInsert {β} : ∀ (m : List (Name × β)) (k : Name) (v : β) (x : Name × β),
    x ∈ omInsert m k v → x ∈ m ∨ x = (k, v) := by
  intro m; induction m with
  | nil => intro k v x h; simp [omInsert] at h; exact Or.inr h
  | cons kv rest ih =>
    intro k v x h
    obtain ⟨k', v'⟩ := kv
    simp only [omInsert] at h
    split at h
    · cases List.mem_cons.mp h with
      | inl h1 => exact Or.inr h1
      | inr h1 => exact Or.inl (List.mem_cons_of_mem _ h1)
    · cases List.mem_cons.mp h with
      | inl h1 => exact Or.inl (h1 ▸ List.mem_cons_self)
      | inr h1 =>
        cases ih k v x h1 with
        | inl h2 => exact Or.inl (List.mem_cons_of_mem _ h2)
        | inr h2 => exact Or.inr h2

/-- `[(k, ← e.get k) for k in l]` -/
theorem mapM_getPairs {e : Env} : ∀ {l : List Name} {r : List (Name × Rat)},
    l.mapM (fun k => (do pure (k, ← e.get k) : Except Err (Name × Rat))) = .ok r →
    r.map (·.1) = l ∧ ∀ a, a ∈ l → r.lookup a = e.lookup a := by
  intro l; induction l with
  | nil => intro r h; simp [List.mapM_nil, pure, Except.pure] at h; subst h; simp
  | cons k ks ih =>
    intro r h
    simp only [List.mapM_cons, bind, Except.bind, pure, Except.pure] at h
    cases hg : e.get k with
    | error err => simp [hg] at h
    | ok v =>
      simp only [hg] at h
      cases hr : ks.mapM (fun k => (do pure (k, ← e.get k) : Except Err (Name × Rat))) with
      | error err => simp only [bind, Except.bind, pure, Except.pure] at hr; simp [hr] at h
      | ok r' =>
        have hr' := hr
        simp only [bind, Except.bind, pure, Except.pure] at hr'
        simp only [hr', Except.ok.injEq] at h
        subst h
        obtain ⟨h1, h2⟩ := ih hr
        refine ⟨by simp [h1], fun a ha => ?_⟩
        rw [lookup_cons_eq]
        by_cases hak : a = k
        · subst hak; simp [Env.get_ok hg]
        · simp [hak]
          cases List.mem_cons.mp ha with
          | inl h3 => exact absurd h3 hak
          | inr h3 => exact h2 a h3

/-! ### contents without initial assignments -/

def plainVal : Val → Rat
  | .plain v => v
  | .ia _ => 0

def noIAB (m : List (Name × Val)) : Bool :=
  m.all fun kv => match kv.2 with | .plain _ => true | .ia _ => false

theorem plainOf_noIA : ∀ {m : List (Name × Val)}, noIAB m = true →
    plainOf m = m.map (fun kv => (kv.1, plainVal kv.2)) ∧ iaOf m = [] := by
  intro m; induction m with
  | nil => intro _; exact ⟨rfl, rfl⟩
  | cons kv rest ih =>
    intro h
    obtain ⟨k, v⟩ := kv
    simp only [noIAB, List.all_cons, Bool.and_eq_true] at h
    obtain ⟨h1, h2⟩ := ih (by simpa [noIAB] using h.2)
    cases v with
    | plain q =>
      simp only [plainOf, iaOf, List.filterMap_cons, List.map_cons, plainVal] at h1 h2 ⊢
      exact ⟨by rw [h1], h2⟩
    | ia f => simp at h

/-- the function attached to a derived / reaction name -/
def defOf (c : Content) (k : Name) : Option Fn :=
  match c.rxns.lookup k with
  | some r => some r.rate
  | none => c.derived.lookup k

theorem evalInOrder_eq_evalSeq (ts : List (Name × Comp)) (D : Name → Option Fn)
    (h : ∀ k, ts.lookup k = (D k).map Comp.fn) : ∀ (o : List Name) (env : Env),
    evalInOrder ts o env = match o.mapM (fun k => (D k).map fun f => (k, f)) with
      | some defs => evalSeq defs env
      | none => evalInOrder ts o env := by
  intro o; induction o with
  | nil => intro env; simp [evalInOrder, evalSeq, pure, Except.pure]
  | cons k ks ih =>
    intro env
    cases hD : D k with
    | none => simp [List.mapM_cons, hD]
    | some f =>
      cases hm : ks.mapM (fun k => (D k).map fun f => (k, f)) with
      | none => simp [List.mapM_cons, hD, hm]
      | some defs =>
        simp only [List.mapM_cons, hD, hm, Option.map_some, Option.pure_def, Option.bind_eq_bind, Option.bind_some]
        simp only [evalInOrder, h k, hD, Option.map_some, Comp.calcInpl, evalSeq, bind, Except.bind]
        cases hc : f.calc env with
        | error e => rfl
        | ok v =>
          simp only [pure, Except.pure]
          have := ih (env.set k v)
          rw [hm] at this
          exact this

/-! ### `classify`: static / dynamic split as filters by the final parameter-name set -/

/-- `classify` when the order may contain names of (initial-assignment) variables and parameters: both are
    static; the parameters are in the parameter-name set from the start, the variables never enter it -/
theorem classify_specP (c : Content) (hs : c.surs = []) : ∀ (o st0 dy0 apn0 : List Name),
    o.Nodup →
    (∀ a ∈ omKeys c.pars, a ∈ apn0) →
    (∀ k ∈ o, k ∈ apn0 → k ∈ omKeys c.pars) →
    (∀ k ∈ o, k ∈ omKeys c.vars ∨ k ∈ omKeys c.pars → k ∉ omKeys c.rxns) →
    (∀ k ∈ o, k ∈ omKeys c.vars → k ∉ omKeys c.pars) →
    (∀ k ∈ o, k ∈ omKeys c.rxns ∨ k ∈ omKeys c.vars ∨ k ∈ omKeys c.pars ∨ ∃ d, c.derived.lookup k = some d) →
    ∃ apn', classify c o st0 dy0 apn0
        = (st0.reverse ++ o.filter (fun k => (omKeys c.vars).contains k || apn'.contains k),
           dy0.reverse ++ o.filter (fun k => !((omKeys c.vars).contains k || apn'.contains k)), apn')
      ∧ (∀ a, a ∈ apn0 → a ∈ apn')
      ∧ (∀ a, a ∈ apn' → a ∈ apn0 ∨ (a ∈ o ∧ a ∉ omKeys c.vars ∧ a ∉ omKeys c.pars))
      ∧ (∀ k ∈ o, k ∈ apn' → k ∈ omKeys c.pars ∨ (k ∉ omKeys c.rxns ∧ k ∉ omKeys c.vars ∧
            ∃ d, c.derived.lookup k = some d ∧ ∀ a ∈ d.args, a ∈ apn')) := by
  intro o; induction o with
  | nil =>
    intro st0 dy0 apn0 _ _ _ _ _ _
    exact ⟨apn0, by simp [classify], fun a h => h, fun a h => Or.inl h, fun k hk => by cases hk⟩
  | cons k ks ih =>
    intro st0 dy0 apn0 hnd hsub hdis hvr hvp hkind
    simp only [List.nodup_cons] at hnd
    have hdis' : ∀ k' ∈ ks, k' ∈ apn0 → k' ∈ omKeys c.pars :=
      fun k' hk' => hdis k' (List.mem_cons_of_mem _ hk')
    have hvr' : ∀ k' ∈ ks, k' ∈ omKeys c.vars ∨ k' ∈ omKeys c.pars → k' ∉ omKeys c.rxns :=
      fun k' hk' => hvr k' (List.mem_cons_of_mem _ hk')
    have hvp' : ∀ k' ∈ ks, k' ∈ omKeys c.vars → k' ∉ omKeys c.pars :=
      fun k' hk' => hvp k' (List.mem_cons_of_mem _ hk')
    have hkind' : ∀ k' ∈ ks, k' ∈ omKeys c.rxns ∨ k' ∈ omKeys c.vars ∨ k' ∈ omKeys c.pars
        ∨ ∃ d, c.derived.lookup k' = some d :=
      fun k' hk' => hkind k' (List.mem_cons_of_mem _ hk')
    have hsur : k ∉ omKeys c.surs := by simp [hs, omKeys]
    -- outcomes that leave the parameter-name set unchanged
    have same_apn : ∀ (isStatic : Bool), (isStatic = true → k ∈ omKeys c.vars ∨ k ∈ omKeys c.pars) →
        (isStatic = false → k ∉ omKeys c.vars ∧ k ∉ omKeys c.pars) →
        classify c (k :: ks) st0 dy0 apn0 =
          (if isStatic then classify c ks (k :: st0) dy0 apn0 else classify c ks st0 (k :: dy0) apn0) →
        ∃ apn', classify c (k :: ks) st0 dy0 apn0
          = (st0.reverse ++ (k :: ks).filter (fun k => (omKeys c.vars).contains k || apn'.contains k),
             dy0.reverse ++ (k :: ks).filter (fun k => !((omKeys c.vars).contains k || apn'.contains k)), apn')
        ∧ (∀ a, a ∈ apn0 → a ∈ apn')
        ∧ (∀ a, a ∈ apn' → a ∈ apn0 ∨ (a ∈ k :: ks ∧ a ∉ omKeys c.vars ∧ a ∉ omKeys c.pars))
        ∧ (∀ k' ∈ k :: ks, k' ∈ apn' → k' ∈ omKeys c.pars ∨ (k' ∉ omKeys c.rxns ∧ k' ∉ omKeys c.vars ∧
              ∃ d, c.derived.lookup k' = some d ∧ ∀ a ∈ d.args, a ∈ apn')) := by
      intro isStatic hst hdy heq
      cases isStatic with
      | true =>
        simp only [if_true] at heq
        obtain ⟨apn', h1, h2, h3, h4⟩ := ih (k :: st0) dy0 apn0 hnd.2 hsub hdis' hvr' hvp' hkind'
        have hk4 : k ∈ apn' → k ∈ omKeys c.pars := by
          intro hm; rcases h3 k hm with h | h
          · exact hdis k List.mem_cons_self h
          · exact absurd h.1 hnd.1
        have hflag : ((omKeys c.vars).contains k || apn'.contains k) = true := by
          rcases hst rfl with h | h
          · simp [h]
          · simp [h2 k (hsub k h)]
        refine ⟨apn', ?_, h2, fun a ha => (h3 a ha).imp id (fun h => ⟨List.mem_cons_of_mem _ h.1, h.2⟩), ?_⟩
        · rw [heq, h1]
          simp only [List.filter_cons, hflag, if_true, Bool.not_true, Bool.false_eq_true, if_false,
            List.reverse_cons, List.append_assoc, List.singleton_append]
        · intro k' hk'mem hk'apn
          cases List.mem_cons.mp hk'mem with
          | inl h => subst h; exact Or.inl (hk4 hk'apn)
          | inr h => exact h4 k' h hk'apn
      | false =>
        obtain ⟨hkv, hkp⟩ := hdy rfl
        simp only [Bool.false_eq_true, if_false] at heq
        obtain ⟨apn', h1, h2, h3, h4⟩ := ih st0 (k :: dy0) apn0 hnd.2 hsub hdis' hvr' hvp' hkind'
        have hk' : k ∉ apn' := by
          intro hm; rcases h3 k hm with h | h
          · exact hkp (hdis k List.mem_cons_self h)
          · exact hnd.1 h.1
        refine ⟨apn', ?_, h2, fun a ha => (h3 a ha).imp id (fun h => ⟨List.mem_cons_of_mem _ h.1, h.2⟩), ?_⟩
        · rw [heq, h1]; simp [List.filter_cons, hkv, hk']
        · intro k' hk'mem hk'apn
          cases List.mem_cons.mp hk'mem with
          | inl h => subst h; exact absurd hk'apn hk'
          | inr h => exact h4 k' h hk'apn
    by_cases hr : k ∈ omKeys c.rxns
    · have hnv : k ∉ omKeys c.vars := fun hv => hvr k List.mem_cons_self (Or.inl hv) hr
      have hnp : k ∉ omKeys c.pars := fun hp => hvr k List.mem_cons_self (Or.inr hp) hr
      exact same_apn false (fun h => by cases h) (fun _ => ⟨hnv, hnp⟩) (by simp [classify, hr])
    · by_cases hv : k ∈ omKeys c.vars
      · exact same_apn true (fun _ => Or.inl hv) (fun h => by cases h) (by simp [classify, hr, hsur, hv])
      · by_cases hp : k ∈ omKeys c.pars
        · exact same_apn true (fun _ => Or.inr hp) (fun h => by cases h) (by simp [classify, hr, hsur, hp])
        · obtain ⟨d, hd⟩ := (((hkind k List.mem_cons_self).resolve_left hr).resolve_left hv).resolve_left hp
          have hk0 : k ∉ apn0 := fun h => hp (hdis k List.mem_cons_self h)
          by_cases hall : ∀ a ∈ d.args, a ∈ apn0
          · have heq : classify c (k :: ks) st0 dy0 apn0 = classify c ks (k :: st0) dy0 (k :: apn0) := by
              simp [classify, hr, hsur, hv, hp, hd]
              intro x hx hnx; exact absurd (hall x hx) hnx
            obtain ⟨apn', h1, h2, h3, h4⟩ := ih (k :: st0) dy0 (k :: apn0) hnd.2
              (fun a ha => List.mem_cons_of_mem _ (hsub a ha))
              (fun k' hk' hm => by
                cases List.mem_cons.mp hm with
                | inl h => exact absurd (h ▸ hk') hnd.1
                | inr h => exact hdis' k' hk' h) hvr' hvp' hkind'
            have hkin : k ∈ apn' := h2 k List.mem_cons_self
            refine ⟨apn', ?_, fun a ha => h2 a (List.mem_cons_of_mem _ ha), ?_, ?_⟩
            · rw [heq, h1]; simp [List.filter_cons, hkin]
            · intro a ha
              rcases h3 a ha with h | h
              · cases List.mem_cons.mp h with
                | inl h' => exact Or.inr ⟨h' ▸ List.mem_cons_self, h' ▸ hv, h' ▸ hp⟩
                | inr h' => exact Or.inl h'
              · exact Or.inr ⟨List.mem_cons_of_mem _ h.1, h.2⟩
            · intro k' hk'mem hk'apn
              cases List.mem_cons.mp hk'mem with
              | inl h =>
                subst h
                exact Or.inr ⟨hr, hv, d, hd, fun a ha => h2 a (List.mem_cons_of_mem _ (hall a ha))⟩
              | inr h => exact h4 k' h hk'apn
          · exact same_apn false (fun h => by cases h) (fun _ => ⟨hv, hp⟩)
              (by simp [classify, hr, hsur, hv, hp, hd, hall])

/-! ### lookups in a map filtered by key, union with fresh keys -/

theorem lookup_filter_key {β} (p : Name → Bool) : ∀ (m : List (Name × β)) (a : Name),
    (m.filter fun kv => p kv.1).lookup a = if p a then m.lookup a else none := by
  intro m; induction m with
  | nil => intro a; simp
  | cons kv rest ih =>
    intro a
    obtain ⟨k, v⟩ := kv
    simp only [List.filter_cons]
    cases hp : p k with
    | true =>
      simp only [if_true, lookup_cons_eq, ih]
      by_cases hak : a = k
      · subst hak; simp [hp]
      · simp [hak]
    | false =>
      simp only [Bool.false_eq_true, if_false, lookup_cons_eq, ih]
      by_cases hak : a = k
      · subst hak; simp [hp]
      · simp [hak]

theorem keys_filter_key {β} (p : Name → Bool) (m : List (Name × β)) :
    (m.filter fun kv => p kv.1).map (·.1) = (m.map (·.1)).filter p := by
  induction m with
  | nil => rfl
  | cons kv rest ih =>
    obtain ⟨k, v⟩ := kv
    simp only [List.filter_cons, List.map_cons]
    cases hp : p k <;> simp [ih]

theorem omInsert_fresh {β} : ∀ (acc : List (Name × β)) (k : Name) (v : β), k ∉ acc.map (·.1) →
    omInsert acc k v = acc ++ [(k, v)] := by
  intro acc; induction acc with
  | nil => intro k v _; rfl
  | cons kv' acc' iha =>
    intro k v hk
    obtain ⟨k', v'⟩ := kv'
    simp only [List.map_cons, List.mem_cons, not_or] at hk
    have : (k' == k) = false := by simpa using fun h => hk.1 h.symm
    simp [omInsert, this, iha k v hk.2]

theorem omUnion_fresh {β} : ∀ (l acc : List (Name × β)),
    (l.map (·.1)).Nodup → (∀ a ∈ l.map (·.1), a ∉ acc.map (·.1)) → omUnion acc l = acc ++ l := by
  intro l; induction l with
  | nil => intro acc _ _; simp [omUnion]
  | cons kv rest ih =>
    intro acc hnd hdis
    obtain ⟨k, v⟩ := kv
    simp only [List.map_cons, List.nodup_cons] at hnd
    have hk : k ∉ acc.map (·.1) := hdis k (by simp)
    have : omUnion acc ((k, v) :: rest) = omUnion (omInsert acc k v) rest := by simp [omUnion]
    rw [this, omInsert_fresh acc k v hk, ih (acc ++ [(k, v)]) hnd.2 (by
      intro a ha
      simp only [List.map_append, List.map_cons, List.map_nil, List.mem_append, List.mem_singleton, not_or]
      exact ⟨hdis a (by simp [ha]), fun hak => hnd.1 (hak ▸ ha)⟩)]
    simp

/-! ### what a successful `createCache` consists of -/

theorem bind_ok {α β} {x : Except Err α} {f : α → Except Err β} {b : β}
    (h : (x >>= f) = .ok b) : ∃ a, x = .ok a ∧ f a = .ok b := by
  cases x with
  | error e => simp [bind, Except.bind] at h
  | ok a => exact ⟨a, rfl, by simpa [bind, Except.bind] using h⟩

theorem createCache_ok {c : Content} {cache : Cache} (h : createCache c = .ok cache) :
    ∃ (order : List Name) (dependent : Env) (st dy apn : List Name)
      (stoich : List (Name × List (Name × Rat))) (dst : List (Name × List (Name × Fn)))
      (init extra : List (Name × Rat)),
      sortDeps c.available c.deps = .ok order ∧
      evalInOrder c.toSort order (baseEnv (plainOf c.pars) (plainOf c.vars) c.data 0) = .ok dependent ∧
      classify c order [] [] (omKeys c.pars) = (st, dy, apn) ∧
      addRxns apn dependent c.allStoich ([], []) = .ok (stoich, dst) ∧
      (omKeys c.vars).mapM (fun k => (do pure (k, ← dependent.get k) : Except Err (Name × Rat))) = .ok init ∧
      (st.filter fun k => !(omKeys c.vars).contains k).mapM
        (fun k => (do pure (k, ← dependent.get k) : Except Err (Name × Rat))) = .ok extra ∧
      cache = { order, varNames := omKeys c.vars, dynOrder := dy, basePars := plainOf c.pars,
                allPars := omUnion (plainOf c.pars) extra, stoich, dynStoich := dst, init } := by
  unfold createCache at h
  obtain ⟨order, h1, h⟩ := bind_ok h
  obtain ⟨dependent, h2, h⟩ := bind_ok h
  generalize hcl : classify c order [] [] (omKeys c.pars) = cl at h
  obtain ⟨st, dy, apn⟩ := cl
  simp only at h
  obtain ⟨sd, h3, h⟩ := bind_ok h
  obtain ⟨stoich, dst⟩ := sd
  simp only at h
  obtain ⟨init, h4, h⟩ := bind_ok h
  obtain ⟨extra, h5, h⟩ := bind_ok h
  simp only [pure, Except.pure, Except.ok.injEq] at h
  exact ⟨order, dependent, st, dy, apn, stoich, dst, init, extra, h1, h2, hcl, h3, h4, h5, h.symm⟩

end Mxl
