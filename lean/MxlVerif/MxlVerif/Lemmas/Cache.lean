/-
Decomposition of `createCache` / `getArgsEnv` results into their stages.
-/
import MxlVerif.Lemmas.Eval
import MxlVerif.Lemmas.SortMissing
namespace Mxl

theorem bind_ok {α β} {x : Except Err α} {f : α → Except Err β} {b : β}
    (h : (x >>= f) = .ok b) : ∃ a, x = .ok a ∧ f a = .ok b := by
  cases x with
  | error e => simp [bind, Except.bind] at h
  | ok a => exact ⟨a, rfl, by simpa [bind, Except.bind] using h⟩

/-- the stages of `_create_cache` -/
theorem createCache_ok {c : Content} {cache : Cache} (h : createCache c = .ok cache) :
    ∃ order dependent st dst init extra,
      sortDeps c.available c.deps = .ok order ∧
      evalInOrder c.toSort order (baseEnv (plainOf c.pars) (plainOf c.vars) c.data 0) = .ok dependent ∧
      addRxns (classify c order [] [] (omKeys c.pars)).2.2 dependent c.allStoich ([], []) = .ok (st, dst) ∧
      (omKeys c.vars).mapM (fun k => do pure (k, ← dependent.get k)) = .ok init ∧
      (((classify c order [] [] (omKeys c.pars)).1.filter fun k => !(omKeys c.vars).contains k).mapM
        fun k => do pure (k, ← dependent.get k)) = .ok extra ∧
      cache = { order := order, varNames := omKeys c.vars,
                dynOrder := (classify c order [] [] (omKeys c.pars)).2.1,
                basePars := plainOf c.pars, allPars := omUnion (plainOf c.pars) extra,
                stoich := st, dynStoich := dst, init := init } := by
  unfold createCache at h
  obtain ⟨order, h1, h⟩ := bind_ok h
  obtain ⟨dependent, h2, h⟩ := bind_ok h
  simp only at h
  obtain ⟨⟨st, dst⟩, h3, h⟩ := bind_ok h
  obtain ⟨init, h4, h⟩ := bind_ok h
  obtain ⟨extra, h5, h⟩ := bind_ok h
  simp only [pure, Except.pure, Except.ok.injEq] at h
  exact ⟨order, dependent, st, dst, init, extra, h1, h2, h3, h4, h5, h.symm⟩

end Mxl
