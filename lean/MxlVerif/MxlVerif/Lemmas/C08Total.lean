/- helper lemmas: the exporter is total on its language (Model/C08Language.lean) -/
import MxlVerif.Model.C08Language
import MxlVerif.Lemmas.C08Sound
namespace Mxl.C08
open Gen

theorem knownCall_names {f : String} {n : Nat} (h : knownCall f n = true) :
    f ∈ ["abs", "ceil", "floor", "max", "min", "remainder", "power", "log", "log10", "log2", "sqrt", "exp", "sin", "cos", "tan", "arcsin", "arccos", "arctan", "sinh", "cosh", "tanh", "arcsinh", "arccosh", "arctanh"] := by
  by_cases h0 : f = "abs"
  · subst h0; decide
  by_cases h1 : f = "ceil"
  · subst h1; decide
  by_cases h2 : f = "floor"
  · subst h2; decide
  by_cases h3 : f = "max"
  · subst h3; decide
  by_cases h4 : f = "min"
  · subst h4; decide
  by_cases h5 : f = "remainder"
  · subst h5; decide
  by_cases h6 : f = "power"
  · subst h6; decide
  by_cases h7 : f = "log"
  · subst h7; decide
  by_cases h8 : f = "log10"
  · subst h8; decide
  by_cases h9 : f = "log2"
  · subst h9; decide
  by_cases h10 : f = "sqrt"
  · subst h10; decide
  by_cases h11 : f = "exp"
  · subst h11; decide
  by_cases h12 : f = "sin"
  · subst h12; decide
  by_cases h13 : f = "cos"
  · subst h13; decide
  by_cases h14 : f = "tan"
  · subst h14; decide
  by_cases h15 : f = "arcsin"
  · subst h15; decide
  by_cases h16 : f = "arccos"
  · subst h16; decide
  by_cases h17 : f = "arctan"
  · subst h17; decide
  by_cases h18 : f = "sinh"
  · subst h18; decide
  by_cases h19 : f = "cosh"
  · subst h19; decide
  by_cases h20 : f = "tanh"
  · subst h20; decide
  by_cases h21 : f = "arcsinh"
  · subst h21; decide
  by_cases h22 : f = "arccosh"
  · subst h22; decide
  by_cases h23 : f = "arctanh"
  · subst h23; decide
  exfalso
  simp [knownCall, pySem, h0, h1, h2, h3, h4, h5, h6, h7, h8, h9, h10, h11, h12, h13, h14, h15, h16, h17, h18, h19, h20, h21, h22, h23] at h

theorem callKind_total {f : String} {isMath : Bool} {n : Nat} (hk : knownCall f n = true)
    (hr : refusedFns.contains f = false) (hm : isMath = true → ["remainder", "power"].contains f = false) :
    isErr (callKind (some f) isMath n) = false := by
  have hmem := knownCall_names hk
  simp only [List.mem_cons, List.mem_nil_iff, or_false] at hmem
  rcases hmem with rfl | rfl | rfl | rfl | rfl | rfl | rfl | rfl | rfl | rfl | rfl | rfl | rfl | rfl | rfl | rfl |
    rfl | rfl | rfl | rfl | rfl | rfl | rfl | rfl
  all_goals first
    | (exfalso; revert hr; decide)
    | (have hn : n = 1 := by simpa [knownCall, pySem, Sem.arity] using hk
       subst hn; cases isMath <;> decide)
    | (have hn : n = 2 := by simpa [knownCall, pySem, Sem.arity] using hk
       subst hn
       cases isMath with
       | false => decide
       | true => exfalso; have := hm rfl; revert this; decide)
    | (cases isMath <;> simp +decide [callKind, unaryTable, binaryTable, naryTable, List.lookup, binaryNumpyOnly, isErr])

theorem ok_of_not_err {ε α : Type} {x : Except ε α} (h : isErr x = false) : ∃ a, x = .ok a := by
  cases x with
  | error e => simp [isErr] at h
  | ok a => exact ⟨a, rfl⟩

theorem convert_total :
    ∀ e, hasUnsupported e = false → usesRefused e = false → isErr (convert e) = false := by
  refine (renameExpr.mutual_induct
    (motive_1 := fun e => hasUnsupported e = false → usesRefused e = false → isErr (convert e) = false)
    (motive_2 := fun es => hasUnsupportedList es = false → usesRefusedList es = false → isErr (convertList es) = false)
    (motive_3 := fun rest => hasUnsupportedLinks rest = false → usesRefusedLinks rest = false →
        ∀ pm, isErr (convertLinks pm rest) = false)
    ?name ?const ?unary ?binop ?compare ?ifexp ?call ?attr ?attrDeep ?boolop ?callKw ?other
    ?lnil ?lcons ?nil ?cons).1
  case name => intro id _ _; simp [convert, isErr]
  case const =>
    intro c h _
    cases c with
    | bool b => cases b <;> simp [convert, convertConst, isErr]
    | num q => simp [convert, convertConst, isErr]
    | other => simp [hasUnsupported, unsupportedNode] at h
  case unary =>
    intro op e ih h hr
    simp only [hasUnsupported, usesRefused, Bool.or_eq_false_iff] at h hr
    obtain ⟨m, hm⟩ := ok_of_not_err (ih h.2 hr.2)
    cases op <;> simp [unsupportedNode, refusedNode] at h hr <;>
      simp [convert, hm, bind, Except.bind, lookupE, unaryOpTable_lookup, isErr, pure, Except.pure]
  case binop =>
    intro op l r ihl ihr h hr
    simp only [hasUnsupported, usesRefused, Bool.or_eq_false_iff] at h hr
    obtain ⟨a, ha⟩ := ok_of_not_err (ihl h.1.2 hr.1.2)
    obtain ⟨b, hb⟩ := ok_of_not_err (ihr h.2 hr.2)
    cases op <;> simp +decide [unsupportedNode, refusedNode] at h hr <;>
      simp [convert, ha, hb, bind, Except.bind, lookupE, binOpTable_lookup, isErr, pure, Except.pure]
  case compare =>
    intro l op r rest ihl ihr ihrest h hr
    simp only [hasUnsupported, usesRefused, Bool.or_eq_false_iff] at h hr
    obtain ⟨a, ha⟩ := ok_of_not_err (ihl h.1.1.2 hr.1.1)
    obtain ⟨b, hb⟩ := ok_of_not_err (ihr h.1.2 hr.1.2)
    obtain ⟨tl, htl⟩ := ok_of_not_err (ihrest h.2 hr.2 b)
    cases op <;> simp +decide [unsupportedNode] at h <;>
      (cases tl <;> simp [convert, ha, hb, htl, bind, Except.bind, lookupE, cmpOpTable_lookup, isErr, pure, Except.pure])
  case ifexp =>
    intro t b o iht ihb iho h hr
    simp only [hasUnsupported, usesRefused, Bool.or_eq_false_iff] at h hr
    obtain ⟨c, hc⟩ := ok_of_not_err (iht h.1.1 hr.1.1)
    obtain ⟨x, hx⟩ := ok_of_not_err (ihb h.1.2 hr.1.2)
    obtain ⟨y, hy⟩ := ok_of_not_err (iho h.2 hr.2)
    simp [convert, hc, hx, hy, bind, Except.bind, isErr, pure, Except.pure]
  case call =>
    intro f args ih h hr
    simp only [hasUnsupported, usesRefused, Bool.or_eq_false_iff] at h hr
    obtain ⟨ms, hms⟩ := ok_of_not_err (ih h.2 hr.2)
    have hu := h.1
    have hrn := hr.1
    cases f with
    | direct fn =>
      simp only [unsupportedNode, Bool.not_eq_false'] at hu
      simp only [refusedNode] at hrn
      have hck := callKind_total (isMath := false) hu hrn (by intro hh; cases hh)
      obtain ⟨r, hr'⟩ := ok_of_not_err hck
      obtain ⟨t, k, u⟩ := r
      obtain ⟨rfl, _⟩ := callKind_ok hr'
      simp [convert, calleeName, calleeIsMath, hr', hms, bind, Except.bind, isErr, pure, Except.pure]
    | lib p a =>
      simp only [unsupportedNode, Bool.not_eq_false', Bool.and_eq_true] at hu
      simp only [refusedNode, Bool.or_eq_false_iff] at hrn
      have hp : libParents.contains p = true := by
        have : libParents = pyLibs := by decide
        rw [this]; exact hu.1
      have hck := callKind_total (isMath := (p == "math")) hu.2 hrn.1 (by
        intro hh
        have := hrn.2
        rw [hh] at this
        simpa using this)
      obtain ⟨r, hr'⟩ := ok_of_not_err hck
      obtain ⟨t, k, u⟩ := r
      obtain ⟨rfl, _⟩ := callKind_ok hr'
      have hp' : p ∈ libParents := by simpa using hp
      simp [convert, calleeName, calleeIsMath, hp', hr', hms, bind, Except.bind, isErr, pure, Except.pure]
    | libDeep => simp [unsupportedNode] at hu
    | other => simp [unsupportedNode] at hu
  case attr =>
    intro p a h _
    simp only [hasUnsupported, unsupportedNode, Bool.not_eq_false', Bool.and_eq_true] at h
    have hp : libParents.contains p = true := by
      have : libParents = pyLibs := by decide
      rw [this]; exact h.1
    have ha := h.2
    simp only [List.contains_eq_mem, List.mem_cons, List.mem_nil_iff, or_false, decide_eq_true_eq] at ha
    have hp' : p ∈ libParents := by simpa using hp
    rcases ha with rfl | rfl | rfl | rfl <;> simp +decide [convert, convertAttr, hp', isErr, attrConstTable, List.lookup]
  case attrDeep => intro h; simp [hasUnsupported, unsupportedNode] at h
  case boolop => intro a vals _ h; simp [hasUnsupported, unsupportedNode] at h
  case callKw => intro h; simp [hasUnsupported, unsupportedNode] at h
  case other => intro h; simp [hasUnsupported, unsupportedNode] at h
  case lnil => intro _ _ pm; simp [convertLinks, isErr]
  case lcons =>
    intro op e rest ihe ihrest h hr pm
    simp only [hasUnsupportedLinks, usesRefusedLinks, Bool.or_eq_false_iff] at h hr
    obtain ⟨b, hb⟩ := ok_of_not_err (ihe h.1.2 hr.1)
    obtain ⟨tl, htl⟩ := ok_of_not_err (ihrest h.2 hr.2 b)
    have hop := h.1.1
    cases op <;> simp +decide at hop <;>
      simp [convertLinks, hb, htl, bind, Except.bind, lookupE, cmpOpTable_lookup, isErr, pure, Except.pure]
  case nil => intro _ _; simp [convertList, isErr]
  case cons =>
    intro e es ihe ihes h hr
    simp only [hasUnsupportedList, usesRefusedList, Bool.or_eq_false_iff] at h hr
    obtain ⟨m, hm⟩ := ok_of_not_err (ihe h.1 hr.1)
    obtain ⟨ms, hms⟩ := ok_of_not_err (ihes h.2 hr.2)
    simp [convertList, hm, hms, bind, Except.bind, isErr, pure, Except.pure]

/-- `IdentifierReplacer` touches identifiers only: when no parameter is used as a function / module name, the renamed
    expression uses a refused construct iff the original does -/
theorem usesRefused_rename (ps as : List String) :
    ∀ e, calleeFree ps e = true → usesRefused (renameExpr (ps.zip as) e) = usesRefused e := by
  refine (renameExpr.mutual_induct
    (motive_1 := fun e => calleeFree ps e = true → usesRefused (renameExpr (ps.zip as) e) = usesRefused e)
    (motive_2 := fun es => calleeFreeList ps es = true →
      usesRefusedList (renameList (ps.zip as) es) = usesRefusedList es)
    (motive_3 := fun rest => calleeFreeLinks ps rest = true →
      usesRefusedLinks (renameLinks (ps.zip as) rest) = usesRefusedLinks rest)
    ?name ?const ?unary ?binop ?compare ?ifexp ?call ?attr ?attrDeep ?boolop ?callKw ?other
    ?lnil ?lcons ?nil ?cons).1
  case name => intro id _; simp [renameExpr, usesRefused]
  case const => intro c _; simp [renameExpr]
  case unary =>
    intro op e ih hf
    simp only [calleeFree] at hf
    cases op <;> simp [renameExpr, usesRefused, refusedNode, ih hf]
  case binop =>
    intro op l r ihl ihr hf
    simp only [calleeFree, Bool.and_eq_true] at hf
    cases op <;> simp [renameExpr, usesRefused, refusedNode, ihl hf.1, ihr hf.2]
  case compare =>
    intro l op r rest ihl ihr ihrest hf
    simp only [calleeFree, Bool.and_eq_true] at hf
    simp [renameExpr, usesRefused, ihl hf.1.1, ihr hf.1.2, ihrest hf.2]
  case ifexp =>
    intro t b o iht ihb iho hf
    simp only [calleeFree, Bool.and_eq_true] at hf
    simp [renameExpr, usesRefused, iht hf.1.1, ihb hf.1.2, iho hf.2]
  case call =>
    intro f args ih hf
    simp only [calleeFree, Bool.and_eq_true] at hf
    have hc : renameCallee (ps.zip as) f = f := by
      cases f with
      | direct f' =>
        simp only [calleeOk, Bool.not_eq_true'] at hf
        simp [renameCallee, renameId_free hf.1]
      | lib p a =>
        simp only [calleeOk, Bool.not_eq_true'] at hf
        simp [renameCallee, renameId_free hf.1]
      | libDeep => rfl
      | other => rfl
    simp only [renameExpr, usesRefused, hc, ih hf.2]
    cases f <;> simp [refusedNode]
  case attr => intro p a _; simp [renameExpr, usesRefused]
  case attrDeep => intro _; simp [renameExpr]
  case boolop => intro b vals _ _; simp [renameExpr, usesRefused]
  case callKw => intro _; simp [renameExpr]
  case other => intro _; simp [renameExpr]
  case lnil => intro _; simp [renameLinks]
  case lcons =>
    intro op e rest ihe ihrest hf
    simp only [calleeFreeLinks, Bool.and_eq_true] at hf
    simp [renameLinks, usesRefusedLinks, ihe hf.1, ihrest hf.2]
  case nil => intro _; simp [renameList]
  case cons =>
    intro e es ihe ihes hf
    simp only [calleeFreeList, Bool.and_eq_true] at hf
    simp [renameList, usesRefusedList, ihe hf.1, ihes hf.2]

theorem zipStrict_total : ∀ (ps as : List String), ps.length = as.length → zipStrict ps as = .ok (ps.zip as)
  | [], [], _ => rfl
  | [], _ :: _, h => by simp at h
  | _ :: _, [], h => by simp at h
  | p :: ps, a :: as, h => by
    have := zipStrict_total ps as (by simpa using h)
    simp [zipStrict, this, bind, Except.bind, pure, Except.pure]

end Mxl.C08
