/-
C10 helper lemmas, part 4: what `get_arg_names` reads from the cache (the split of the
derived components into parameters and variables) does not depend on the numbers held
in plain parameters.
-/
import MxlVerif.Lemmas.C10Pars
namespace Mxl.C10

theorem mapM_keys {F : Name → Except Err (Name × Rat)} {l : List Name}
    {out : List (Name × Rat)} (hF : ∀ k b, F k = .ok b → b.1 = k)
    (h : List.mapM F l = .ok out) : omKeys out = l := by
  induction l generalizing out with
  | nil => simp [pure, Except.pure] at h; subst h; rfl
  | cons a as ih =>
    simp only [List.mapM_cons, bind, Except.bind] at h
    split at h
    · cases h
    · rename_i b hb
      split at h
      · cases h
      · rename_i bs hbs
        simp only [pure, Except.pure] at h
        cases h
        simp only [omKeys, List.map_cons] at ih ⊢
        rw [ih hbs, hF a b hb]

theorem omKeys_omInsert {β} (m : List (Name × β)) (k : Name) (v : β) :
    omKeys (omInsert m k v) = if k ∈ omKeys m then omKeys m else omKeys m ++ [k] := by
  induction m with
  | nil => simp [omInsert, omKeys]
  | cons a as ih =>
    obtain ⟨k', v'⟩ := a
    simp only [omInsert]
    by_cases hk : k' = k
    · subst hk; simp [omKeys]
    · have hk' : (k' == k) = false := by simpa using hk
      simp only [hk', Bool.false_eq_true, if_false]
      simp only [omKeys, List.map_cons] at ih ⊢
      rw [ih]
      have : ¬ k = k' := fun e => hk e.symm
      by_cases hm : k ∈ List.map (fun x => x.1) as <;> simp [hm, this]

theorem omKeys_omUnion {β} (a b b' : List (Name × β)) (a' : List (Name × β))
    (ha : omKeys a = omKeys a') (hb : omKeys b = omKeys b') :
    omKeys (omUnion a b) = omKeys (omUnion a' b') := by
  unfold omUnion
  induction b generalizing a a' b' with
  | nil =>
    cases b' with
    | nil => simpa using ha
    | cons _ _ => simp [omKeys] at hb
  | cons x xs ih =>
    cases b' with
    | nil => simp [omKeys] at hb
    | cons y ys =>
      simp only [List.foldl_cons]
      simp only [omKeys, List.map_cons, List.cons.injEq] at hb
      apply ih
      · rw [omKeys_omInsert, omKeys_omInsert, ha, hb.1]
      · exact hb.2

theorem plainOf_keys {l m : List (Name × Val)} (h : All₂ ParRel l m) :
    omKeys (plainOf l) = omKeys (plainOf m) := by
  induction h with
  | nil => rfl
  | @cons a b as bs hab _ ih =>
    obtain ⟨ka, va⟩ := a
    obtain ⟨kb, vb⟩ := b
    obtain ⟨hk, hv⟩ := hab
    simp only at hk hv
    subst hk
    simp only [plainOf, omKeys] at ih ⊢
    rcases hv with rfl | ⟨hpa, hpb⟩
    · cases va <;> simp [ih]
    · cases va <;> cases vb <;> simp [Val.isPlain] at hpa hpb
      simp [ih]

theorem iaOf_eq {l m : List (Name × Val)} (h : All₂ ParRel l m) : iaOf l = iaOf m := by
  induction h with
  | nil => rfl
  | @cons a b as bs hab _ ih =>
    obtain ⟨ka, va⟩ := a
    obtain ⟨kb, vb⟩ := b
    obtain ⟨hk, hv⟩ := hab
    simp only at hk hv
    subst hk
    simp only [iaOf] at ih ⊢
    rcases hv with rfl | ⟨hpa, hpb⟩
    · cases va <;> simp [ih]
    · cases va <;> cases vb <;> simp [Val.isPlain] at hpa hpb
      simp [ih]

theorem classify_plainEq {c c' : Content} (h : PlainEq c c') :
    ∀ (l st dy apn : List Name), classify c' l st dy apn = classify c l st dy apn := by
  intro l
  induction l with
  | nil => intro st dy apn; simp [classify]
  | cons k ks ih =>
    intro st dy apn
    simp only [classify, ← h.rxns, ← h.surs, ← h.vars, ← h.keys, ← h.derived, ih]

/-- the pieces of a successfully created cache that `get_arg_names` depends on -/
theorem createCache_anatomy {c : Content} {k : Cache} (h : createCache c = .ok k) :
    ∃ order extra, sortDeps c.available c.deps = .ok order ∧
      k.allPars = omUnion (plainOf c.pars) extra ∧
      omKeys extra = (classify c order [] [] (omKeys c.pars)).1.filter
        (fun k => !(omKeys c.vars).contains k) := by
  unfold createCache at h
  simp only [bind, Except.bind] at h
  split at h
  · cases h
  · rename_i order ho
    split at h
    · cases h
    · split at h
      · cases h
      · split at h
        · cases h
        · split at h
          · cases h
          · rename_i extra he
            simp only [pure, Except.pure] at h
            cases h
            refine ⟨order, extra, ho, rfl, mapM_keys ?_ he⟩
            intro k b hb
            split at hb
            · cases hb
            · simp only [pure, Except.pure] at hb; cases hb; rfl

/-- **shape lemma**: other numbers in plain parameters, same parameter / variable split of
    the derived components -/
theorem allPars_keys_plainEq {c c' : Content} {k k' : Cache} (h : PlainEq c c')
    (hk : createCache c = .ok k) (hk' : createCache c' = .ok k') :
    omKeys k.allPars = omKeys k'.allPars := by
  obtain ⟨o, ex, ho, ha, he⟩ := createCache_anatomy hk
  obtain ⟨o', ex', ho', ha', he'⟩ := createCache_anatomy hk'
  have hav : c'.available = c.available := by
    simp only [Content.available, ← h.vars, ← h.data, plainOf_keys h.pars]
  have hdeps : c'.deps = c.deps := by
    simp only [Content.deps, Content.toSort, ← h.vars, ← h.derived, ← h.rxns, ← h.surs,
      iaOf_eq h.pars]
  rw [hav, hdeps, ho] at ho'
  cases ho'
  rw [ha, ha']
  apply omKeys_omUnion
  · exact plainOf_keys h.pars
  · rw [he, he', classify_plainEq h, ← h.keys, ← h.vars]

theorem argNames_plainEq {c c' : Content} {k k' : Cache} (h : PlainEq c c')
    (hk : createCache c = .ok k) (hk' : createCache c' = .ok k') (f : Flags) :
    argNames c' k' f = argNames c k f := by
  have := allPars_keys_plainEq h hk hk'
  simp only [argNames, derivedVarNames, derivedParNames, surVarNames, surFluxNames, ← h.vars,
    ← h.keys, ← h.derived, ← h.rxns, ← h.surs, ← h.readouts, this]

/-- names that need no cache -/
theorem argNames_nocache {c c' : Content} (h : PlainEq c c') (k k' : Cache) (f : Flags)
    (hf : (f.dvars || f.dpars) = false) : argNames c' k' f = argNames c k f := by
  simp only [Bool.or_eq_false_iff] at hf
  simp [argNames, hf.1, hf.2, surVarNames, surFluxNames, ← h.vars,
    ← h.keys, ← h.rxns, ← h.surs, ← h.readouts]

/-- `_select_data` picks the same names whatever numbers the model's plain parameters hold -/
theorem selectNames_plainEq {c c' : Content} (h : PlainEq c c') (f : Flags) {n n' : List Name}
    (hn : selectNames c f = .ok n) (hn' : selectNames c' f = .ok n') : n' = n := by
  unfold selectNames at hn hn'
  by_cases hf : (f.dvars || f.dpars) = true
  · simp only [hf, if_true] at hn hn'
    split at hn
    · cases hn
    · split at hn'
      · cases hn'
      · rename_i k hk _ k' hk'
        cases hn; cases hn'
        exact argNames_plainEq h hk hk' f
  · simp only [hf] at hn hn'
    cases hn; cases hn'
    exact argNames_nocache h _ _ f (by simpa using hf)

end Mxl.C10
