/-
C10 helper lemmas, part 2: `_normalise_split_results` — the three branches and the
`start`/`end` slicing of the per-row branch.
-/
import MxlVerif.Lemmas.C10Basic
namespace Mxl.C10

theorem divRow_ok {f : Rat} {r r' : Rat × Row} (h : divRow f r = .ok r') :
    f ≠ 0 ∧ r' = scaleRow f r := by
  unfold divRow at h
  split at h
  · cases h
  · rename_i hf; cases h; exact ⟨hf, rfl⟩

theorem divTable_ok {f : Rat} {t t' : Table} (h : divTable f t = .ok t') :
    t' = t.map (scaleRow f) ∧ (f ≠ 0 ∨ t = []) := by
  unfold divTable at h
  have h2 := (mapE_ok_iff _ _ _).1 h
  clear h
  induction h2 with
  | nil => exact ⟨rfl, .inr rfl⟩
  | cons hab _ ih =>
    obtain ⟨hf, rfl⟩ := divRow_ok hab
    exact ⟨by simp [ih.1], .inl hf⟩

theorem divRows_ok {t : Table} {fs : List Rat} {t' : Table} (h : divRows t fs = .ok t') :
    t' = List.zipWith scaleRow fs t ∧ t.length ≤ fs.length ∧ ∀ f ∈ fs.take t.length, f ≠ 0 := by
  induction t generalizing fs t' with
  | nil => simp [divRows] at h; subst h; simp
  | cons r rs ih =>
    cases fs with
    | nil => simp [divRows] at h
    | cons f fs =>
      unfold divRows at h
      split at h
      · cases h
      · rename_i r' hr
        split at h
        · cases h
        · rename_i rs' hrs
          cases h
          obtain ⟨hf, rfl⟩ := divRow_ok hr
          obtain ⟨h1, h2, h3⟩ := ih hrs
          refine ⟨by simp [h1], by simp; omega, ?_⟩
          intro g hg
          simp at hg
          rcases hg with rfl | hg
          · exact hf
          · exact h3 g hg

theorem perSegment_ok {tabs : List Table} {fs : List Rat} {out : List Table}
    (h : perSegment tabs fs = .ok out) :
    out = List.zipWith (fun f t => t.map (scaleRow f)) fs tabs ∧ fs.length = tabs.length ∧
      ∀ tf ∈ tabs.zip fs, tf.2 ≠ 0 ∨ tf.1 = [] := by
  induction tabs generalizing fs out with
  | nil =>
    cases fs with
    | nil => simp [perSegment] at h; subst h; simp
    | cons f fs => simp [perSegment] at h
  | cons t ts ih =>
    cases fs with
    | nil => simp [perSegment] at h
    | cons f fs =>
      unfold perSegment at h
      split at h
      · cases h
      · rename_i t' ht
        split at h
        · cases h
        · rename_i ts' hts
          cases h
          obtain ⟨rfl, hz⟩ := divTable_ok ht
          obtain ⟨h1, h2, h3⟩ := ih hts
          refine ⟨by simp [h1], by simp [h2], ?_⟩
          intro tf htf
          simp at htf
          rcases htf with rfl | htf
          · exact hz
          · exact h3 tf htf

theorem zipWith_append_of_length {α β γ} (f : α → β → γ) (a a' : List α) (b b' : List β)
    (h : a.length = b.length) :
    List.zipWith f (a ++ a') (b ++ b') = List.zipWith f a b ++ List.zipWith f a' b' := by
  induction a generalizing b with
  | nil => cases b with
    | nil => simp
    | cons _ _ => simp at h
  | cons x xs ih => cases b with
    | nil => simp at h
    | cons y ys => simp at h; simp [ih ys h]

/-- the per-row loop divides global row `r` (counted across segments from `start`) by
    `fs[start + r]`, and keeps the segment lengths -/
theorem perRow_ok {tabs : List Table} {fs : List Rat} {start : Nat} {out : List Table}
    (h : perRow tabs fs start = .ok out) :
    out.map List.length = tabs.map List.length ∧
      out.flatten = List.zipWith scaleRow (fs.drop start) tabs.flatten ∧
      start + totalRows tabs ≤ max start fs.length ∧
      ∀ f ∈ (fs.drop start).take (totalRows tabs), f ≠ 0 := by
  induction tabs generalizing start out with
  | nil => simp [perRow] at h; subst h; simp [totalRows]; omega
  | cons t ts ih =>
    unfold perRow at h
    simp only at h
    split at h
    · cases h
    · rename_i hlen
      simp only [ne_eq, Decidable.not_not] at hlen
      split at h
      · cases h
      · rename_i t' ht
        split at h
        · cases h
        · rename_i ts' hts
          cases h
          obtain ⟨ht1, _, ht3⟩ := divRows_ok ht
          obtain ⟨h1, h2, h3, h4⟩ := ih hts
          have hsplit : fs.drop start = (fs.drop start).take t.length ++ fs.drop (start + t.length) := by
            rw [← List.drop_drop, List.take_append_drop]
          have hlen' : t.length ≤ (fs.drop start).length := by
            rw [← hlen]; simp [List.length_take]; omega
          refine ⟨?_, ?_, ?_, ?_⟩
          · simp [h1, ht1, hlen]
          · simp only [List.flatten_cons]
            rw [hsplit, zipWith_append_of_length _ _ _ _ _ hlen, ← ht1, h2]
          · simp [totalRows] at h3 ⊢
            simp at hlen'
            omega
          · intro f hf
            have : (fs.drop start).take (totalRows (t :: ts)) =
                (fs.drop start).take t.length ++ (fs.drop (start + t.length)).take (totalRows ts) := by
              have e : totalRows (t :: ts) = t.length + totalRows ts := by simp [totalRows]
              rw [e, List.take_add, List.drop_drop]
            rw [this] at hf
            rcases List.mem_append.1 hf with hf | hf
            · apply ht3 f
              rw [List.take_take]; simpa using hf
            · exact h4 f hf

/-! ### cutting a flat list back into segments -/

theorem unflatten_flatten {α} (l : List (List α)) : unflatten (l.map List.length) l.flatten = l := by
  induction l with
  | nil => rfl
  | cons x xs ih => simp [unflatten, ih]

theorem unflatten_of_lengths {α} (out l : List (List α)) (flat : List α)
    (hl : out.map List.length = l.map List.length) (hf : out.flatten = flat) :
    unflatten (l.map List.length) flat = out := by
  rw [← hl, ← hf]; exact unflatten_flatten out

theorem zipWith_replicate {α β γ} (g : α → β → γ) (a : α) (l : List β) :
    List.zipWith g (List.replicate l.length a) l = l.map (g a) := by
  induction l with
  | nil => rfl
  | cons x xs ih => simp [List.replicate_succ, ih]

theorem totalRows_eq (tabs : List Table) : totalRows tabs = tabs.flatten.length := by
  induction tabs with
  | nil => rfl
  | cons t ts ih => simp [totalRows] at ih ⊢; try omega

theorem zipWith_take_left {α β γ} (g : α → β → γ) (a : List α) (b : List β) :
    List.zipWith g (a.take b.length) b = List.zipWith g a b := by
  induction a generalizing b with
  | nil => simp
  | cons x xs ih => cases b with
    | nil => simp
    | cons y ys => simp [ih]

theorem perSeg_flat (tabs : List Table) (fs : List Rat) (h : fs.length = tabs.length) :
    (List.zipWith (fun f t => t.map (scaleRow f)) fs tabs).flatten =
      List.zipWith scaleRow ((tabs.zip fs).flatMap fun tf => List.replicate tf.1.length tf.2)
        tabs.flatten := by
  induction tabs generalizing fs with
  | nil => simp
  | cons t ts ih =>
    cases fs with
    | nil => simp at h
    | cons f fs =>
      simp only [List.zipWith_cons_cons, List.flatten_cons, List.zip_cons_cons, List.flatMap_cons]
      rw [zipWith_append_of_length _ _ _ _ _ (by simp), zipWith_replicate, ih fs (by simpa using h)]

theorem perSeg_lengths (tabs : List Table) (fs : List Rat) (h : fs.length = tabs.length) :
    (List.zipWith (fun f t => t.map (scaleRow f)) fs tabs).map List.length =
      tabs.map List.length := by
  induction tabs generalizing fs with
  | nil => simp
  | cons t ts ih =>
    cases fs with
    | nil => simp at h
    | cons f fs => simp [ih fs (by simpa using h)]

/-- the loop-and-slice implementation computes the "one factor per global row" specification -/
theorem normSplit_spec {tabs : List Table} {n : Norm} {out : List Table}
    (h : normSplit tabs n = .ok out) : specNorm tabs n = .ok out := by
  cases n with
  | none => simp [normSplit] at h; subst h; simp [specNorm, specFactors]
  | scalar f =>
    simp only [normSplit] at h
    have h2 := (mapE_ok_iff _ _ _).1 h
    have key : out = tabs.map (fun t => t.map (scaleRow f)) ∧ (f ≠ 0 ∨ totalRows tabs = 0) := by
      clear h
      induction h2 with
      | nil => exact ⟨rfl, .inr rfl⟩
      | cons hab _ ih =>
        obtain ⟨rfl, hz⟩ := divTable_ok hab
        refine ⟨by simp [ih.1], ?_⟩
        rcases hz with hz | hz
        · exact .inl hz
        · rcases ih.2 with h' | h'
          · exact .inl h'
          · right; subst hz; simpa [totalRows] using h'
    obtain ⟨rfl, hz⟩ := key
    simp only [specNorm, specFactors]
    have hany : (List.replicate (totalRows tabs) f).any (fun x => decide (x = 0)) = false := by
      rcases hz with hz | hz
      · simp [hz]
      · simp [hz]
    rw [if_neg (by simp [hany])]
    congr 1
    apply unflatten_of_lengths
    · simp
    · rw [totalRows_eq, zipWith_replicate]; simp [List.map_flatten]
  | list fs =>
    simp only [normSplit] at h
    split at h
    · rename_i hl
      obtain ⟨rfl, _, hz⟩ := perSegment_ok h
      simp only [specNorm, specFactors, if_pos hl]
      have hany : ((tabs.zip fs).flatMap fun tf => List.replicate tf.1.length tf.2).any
          (fun x => decide (x = 0)) = false := by
        rw [List.any_eq_false]
        intro x hx
        simp only [List.mem_flatMap, List.mem_replicate] at hx
        obtain ⟨tf, htf, hne, rfl⟩ := hx
        rcases hz tf htf with h' | h'
        · simpa using h'
        · simp [h'] at hne
      rw [if_neg (by simp [hany])]
      congr 1
      apply unflatten_of_lengths
      · exact perSeg_lengths tabs fs hl
      · exact perSeg_flat tabs fs hl
    · rename_i hl
      obtain ⟨h1, h2, h3, h4⟩ := perRow_ok h
      simp only [Nat.zero_add, List.drop_zero, Nat.zero_max] at h2 h3 h4
      simp only [specNorm, specFactors, if_neg hl, if_neg (Nat.not_lt.2 h3)]
      have hany : (fs.take (totalRows tabs)).any (fun x => decide (x = 0)) = false := by
        rw [List.any_eq_false]
        intro x hx
        simpa using h4 x hx
      rw [if_neg (by simp [hany])]
      congr 1
      apply unflatten_of_lengths _ _ _ h1
      rw [h2, totalRows_eq, zipWith_take_left]

end Mxl.C10
