/-
C03 — the future of a model depends only on its content, ids and function signatures: two states that agree on these
and whose caches are both valid (empty or `= buildCache`) answer every query alike, accept / reject every mutator
alike, and stay in that relation.  Also: no mutator touches the signatures of the stored functions (`step_sigs`).
-/
import MxlVerif.Lemmas.C03Ids
namespace Mxl.C03
open Mxl

/-! ### no sub-step writes `sigs` (mechanical copy of the `ToNone` section of `C03Cache.lean`) -/

section sigs
variable {σ : List (Name × Gen.Sig)}

def KeepSigs (σ : List (Name × Gen.Sig)) (f : State → State × Res) : Prop := ∀ s, s.sigs = σ → (f s).1.sigs = σ

theorem andThen_sigs {a : State × Res} {f : State → State × Res}
    (ha : a.1.sigs = σ) (hf : KeepSigs σ f) : (andThen a f).1.sigs = σ := by
  unfold andThen
  split
  · exact hf _ ha
  · exact ha

theorem keepSigs_comp {f g : State → State × Res} (hf : KeepSigs σ f) (hg : KeepSigs σ g) :
    KeepSigs σ (fun s => andThen (f s) g) := fun s h => andThen_sigs (hf s h) hg

theorem insertId_keepSigs (n k) : KeepSigs σ (insertId n k) := by
  intro s h; unfold insertId fail ok; split <;> (try split) <;> simp [h]

theorem removeId_keepSigs (n) : KeepSigs σ (removeId n) := by
  intro s h; unfold removeId fail ok; split <;> simp [h]

theorem insertIds_keepSigs (k) (l) : KeepSigs σ (insertIds k l) := by
  induction l with
  | nil => intro s h; simpa [insertIds, ok] using h
  | cons a rest ih => intro s h; simp only [insertIds]; exact andThen_sigs (insertId_keepSigs a k s h) ih

theorem removeIds_keepSigs (l) : KeepSigs σ (removeIds l) := by
  induction l with
  | nil => intro s h; simpa [removeIds, ok] using h
  | cons a rest ih => intro s h; simp only [removeIds]; exact andThen_sigs (removeId_keepSigs a s h) ih

theorem putG_keepSigs {β} (L : Lens β) (n v) : KeepSigs σ (putG L n v) := by
  intro s h; simp [putG, ok, h]

theorem popG_keepSigs {β} (L : Lens β) (n) : KeepSigs σ (popG L n) := by
  intro s h; unfold popG fail ok; split <;> simp [h]

theorem addG_keepSigs {β} (m) (L : Lens β) (k n v) : KeepSigs σ (addG m L k n v) := by
  intro s h; unfold addG
  split
  · exact andThen_sigs (insertId_keepSigs n k s h) (putG_keepSigs L n v)
  · exact andThen_sigs (putG_keepSigs L n v s h) (insertId_keepSigs n k)

theorem removeG_keepSigs {β} (m) (L : Lens β) (n) : KeepSigs σ (removeG m L n) := by
  intro s h; unfold removeG
  split
  · exact andThen_sigs (popG_keepSigs L n s h) (removeId_keepSigs n)
  · exact andThen_sigs (removeId_keepSigs n s h) (popG_keepSigs L n)

theorem inval_keeps_sigs (m) {s : State} (h : s.sigs = σ) : (inval m s).sigs = σ := by
  unfold inval; split <;> simp [h]

theorem stripStep_keepSigs (n rs) : KeepSigs σ (stripStep n rs) := by
  intro s h; unfold stripStep ok; split <;> simp [h]

theorem setStoich_keepSigs (n f v) : KeepSigs σ (setStoich n f v) := by
  intro s h; unfold setStoich fail ok; dsimp only; split
  · simp [h]
  · split <;> simp [h]

theorem setStoichs_keepSigs (n l) : KeepSigs σ (setStoichs n l) := by
  induction l with
  | nil => intro s h; simpa [setStoichs, ok] using h
  | cons a rest ih =>
    intro s h; obtain ⟨f, v⟩ := a; simp only [setStoichs]
    exact andThen_sigs (setStoich_keepSigs n f v s h) ih

theorem putSur_keepSigs (n su) : KeepSigs σ (putSur n su) := by
  intro s h; simp [putSur, ok, h]

theorem popSur_keepSigs (n) : KeepSigs σ (popSur n) := by
  intro s h; unfold popSur fail ok; split <;> simp [h]

/-! every public mutator, whatever the table says, leaves an empty cache empty -/

theorem addParameter_keepSigs (n v) : KeepSigs σ (addParameter n v) :=
  fun _ h => addG_keepSigs _ _ _ _ _ _ (inval_keeps_sigs _ h)
theorem addVariable_keepSigs (n v) : KeepSigs σ (addVariable n v) :=
  fun _ h => addG_keepSigs _ _ _ _ _ _ (inval_keeps_sigs _ h)
theorem addDerived_keepSigs (n v) : KeepSigs σ (addDerived n v) :=
  fun _ h => addG_keepSigs _ _ _ _ _ _ (inval_keeps_sigs _ h)
theorem addReaction_keepSigs (n v) : KeepSigs σ (addReaction n v) :=
  fun _ h => addG_keepSigs _ _ _ _ _ _ (inval_keeps_sigs _ h)
theorem addReadout_keepSigs (n v) : KeepSigs σ (addReadout n v) :=
  fun _ h => addG_keepSigs _ _ _ _ _ _ (inval_keeps_sigs _ h)
theorem addData_keepSigs (n v) : KeepSigs σ (addData n v) :=
  fun _ h => addG_keepSigs _ _ _ _ _ _ (inval_keeps_sigs _ h)
theorem removeParameter_keepSigs (n) : KeepSigs σ (removeParameter n) :=
  fun _ h => removeG_keepSigs _ _ _ _ (inval_keeps_sigs _ h)
theorem removeDerived_keepSigs (n) : KeepSigs σ (removeDerived n) :=
  fun _ h => removeG_keepSigs _ _ _ _ (inval_keeps_sigs _ h)
theorem removeReaction_keepSigs (n) : KeepSigs σ (removeReaction n) :=
  fun _ h => removeG_keepSigs _ _ _ _ (inval_keeps_sigs _ h)
theorem removeReadout_keepSigs (n) : KeepSigs σ (removeReadout n) :=
  fun _ h => removeG_keepSigs _ _ _ _ (inval_keeps_sigs _ h)
theorem removeData_keepSigs (n) : KeepSigs σ (removeData n) :=
  fun _ h => removeG_keepSigs _ _ _ _ (inval_keeps_sigs _ h)

theorem updateParameter_keepSigs (n v) : KeepSigs σ (updateParameter n v) := by
  intro s h
  have h0 := inval_keeps_sigs .update_parameter h
  unfold updateParameter
  simp only
  split
  · split
    · simpa [ok] using h0
    · exact putG_keepSigs _ _ _ _ h0
  · simpa [fail] using h0

theorem updateVariable_keepSigs (n v) : KeepSigs σ (updateVariable n v) := by
  intro s h
  have h0 := inval_keeps_sigs .update_variable h
  unfold updateVariable
  simp only
  split
  · exact putG_keepSigs _ _ _ _ h0
  · simpa [fail] using h0

theorem removeVariable_keepSigs (n rs) : KeepSigs σ (removeVariable n rs) := by
  intro s h
  have h0 := inval_keeps_sigs .remove_variable h
  unfold removeVariable
  simp only
  split
  · exact andThen_sigs (stripStep_keepSigs n rs _ h0) (removeG_keepSigs _ _ _)
  · exact andThen_sigs (removeG_keepSigs _ _ _ _ h0) (stripStep_keepSigs n rs)

theorem updateDerived_keepSigs (n fn args) : KeepSigs σ (updateDerived n fn args) := by
  intro s h
  have h0 := inval_keeps_sigs .update_derived h
  unfold updateDerived
  simp only
  split
  · simpa [fail] using h0
  · exact putG_keepSigs _ _ _ _ h0

theorem updateReaction_keepSigs (n fn args st) : KeepSigs σ (updateReaction n fn args st) := by
  intro s h
  have h0 := inval_keeps_sigs .update_reaction h
  unfold updateReaction
  simp only
  split
  · simpa [fail] using h0
  · exact putG_keepSigs _ _ _ _ h0

theorem updateData_keepSigs (n v) : KeepSigs σ (updateData n v) := by
  intro s h
  have h0 := inval_keeps_sigs .update_data h
  unfold updateData
  simp only
  split
  · simpa [fail] using h0
  · exact putG_keepSigs _ _ _ _ h0

theorem addSurrogate_keepSigs (n su) : KeepSigs σ (addSurrogate n su) := by
  intro s h
  have h0 := inval_keeps_sigs .add_surrogate h
  unfold addSurrogate
  simp only
  split
  · simpa [fail] using h0
  · exact andThen_sigs (insertId_keepSigs _ _ _ h0)
      (keepSigs_comp (insertIds_keepSigs _ _) (putSur_keepSigs _ _))

theorem updateSurrogate_keepSigs (n u) : KeepSigs σ (updateSurrogate n u) := by
  intro s h
  have h0 := inval_keeps_sigs .update_surrogate h
  unfold updateSurrogate
  simp only
  split
  · simpa [fail] using h0
  · split
    · simpa [fail] using h0
    · exact andThen_sigs (removeIds_keepSigs _ _ h0)
        (keepSigs_comp (insertIds_keepSigs _ _) (putSur_keepSigs _ _))

theorem removeSurrogate_keepSigs (n) : KeepSigs σ (removeSurrogate n) := by
  intro s h
  have h0 := inval_keeps_sigs .remove_surrogate h
  unfold removeSurrogate
  simp only
  split
  · exact andThen_sigs (popSur_keepSigs _ _ h0) (keepSigs_comp (removeId_keepSigs _) (removeIds_keepSigs _))
  · exact andThen_sigs (removeId_keepSigs _ _ h0) (keepSigs_comp (popSur_keepSigs _) (removeIds_keepSigs _))

theorem makeParameterDynamic_sigsCore (n iv st) (s : State)
    (h0 : (inval .make_parameter_dynamic s).sigs = σ) :
    (makeParameterDynamic n iv st s).1.sigs = σ := by
  unfold makeParameterDynamic
  simp only
  split
  · simpa [fail] using h0
  · split
    · simpa [fail] using h0
    · exact andThen_sigs (removeParameter_keepSigs _ _ h0)
        (keepSigs_comp (addVariable_keepSigs _ _) (setStoichs_keepSigs _ _))

theorem makeParameterDynamic_keepSigs (n iv st) : KeepSigs σ (makeParameterDynamic n iv st) :=
  fun s h => makeParameterDynamic_sigsCore n iv st s (inval_keeps_sigs _ h)

theorem ensureCache_sigs (s : State) : (ensureCache s).1.sigs = s.sigs := by
  unfold ensureCache; split
  · rfl
  · split <;> rfl

theorem scaledValue_sigs (n f) (s : State) : (scaledValue n f s).1.sigs = s.sigs := by
  unfold scaledValue
  split
  · rfl
  · rfl
  · have h1 := ensureCache_sigs s
    split
    · rename_i s1 e heq; rw [heq] at h1; exact h1
    · rename_i s1 c heq
      rw [heq] at h1
      split <;> exact h1

theorem scaledValues_sigs (l : List (Name × Rat)) : ∀ s : State, (scaledValues l s).1.sigs = s.sigs := by
  induction l with
  | nil => intro s; rfl
  | cons a rest ih =>
    intro s
    obtain ⟨n, f⟩ := a
    have h1 := scaledValue_sigs n f s
    simp only [scaledValues]
    split
    · rename_i s1 e heq; rw [heq] at h1; exact h1
    · rename_i s1 v heq
      rw [heq] at h1
      have h2 := ih s1
      split
      · rename_i s2 e heq2; rw [heq2] at h2; exact h2.trans h1
      · rename_i s2 vs heq2; rw [heq2] at h2; exact h2.trans h1

theorem foldOps_keepSigs {α} (f : α → State → State × Res) (hf : ∀ a, KeepSigs σ (f a)) (l : List α) :
    KeepSigs σ (foldOps f l) := by
  induction l with
  | nil => intro s h; simpa [foldOps, ok] using h
  | cons a rest ih => intro s h; simp only [foldOps]; exact andThen_sigs (hf a s h) ih

theorem pluralOp_keepSigs {α} (m chk) (f : α → State → State × Res) (hf : ∀ a, KeepSigs σ (f a)) (l : List α) :
    KeepSigs σ (pluralOp m chk f l) := by
  intro s h
  have h0 := inval_keeps_sigs m h
  unfold pluralOp
  simp only
  split
  · simpa [fail] using h0
  · exact foldOps_keepSigs f hf l _ h0

theorem scaleParameter_keepSigs (n f) : KeepSigs σ (scaleParameter n f) := by
  intro s h
  have h0 := inval_keeps_sigs .scale_parameter h
  have h1 := scaledValue_sigs n f (inval .scale_parameter s)
  unfold scaleParameter
  simp only
  split
  · rename_i s1 e heq; rw [heq] at h1; exact h1.trans h0
  · rename_i s1 v heq; rw [heq] at h1
    exact updateParameter_keepSigs _ _ _ (h1.trans h0)

theorem scaleParameters_keepSigs (l) : KeepSigs σ (scaleParameters l) := by
  intro s h
  have h0 := inval_keeps_sigs .scale_parameters h
  have h1 := scaledValues_sigs l (inval .scale_parameters s)
  unfold scaleParameters
  simp only
  split
  · split
    · rename_i s1 e heq; rw [heq] at h1; exact h1.trans h0
    · rename_i s1 vs heq; rw [heq] at h1
      exact pluralOp_keepSigs _ _ _ (fun a => updateParameter_keepSigs _ _) _ _ (h1.trans h0)
  · exact foldOps_keepSigs _ (fun a => scaleParameter_keepSigs a.1 a.2) l _ h0

theorem makeVariableStatic_keepSigs (n v) : KeepSigs σ (makeVariableStatic n v) := by
  intro s h
  have h0 := inval_keeps_sigs .make_variable_static h
  unfold makeVariableStatic
  simp only
  split
  · simpa [fail] using h0
  · exact andThen_sigs (removeVariable_keepSigs _ _ _ h0) (addParameter_keepSigs _ _)

end sigs

/-- no public mutator touches the signatures of the stored functions (only `stepS` records the ones passed) -/
theorem step_sigs (s : State) (op : Op) : (step s op).1.sigs = s.sigs := by
  cases op with
  | add_parameter n v => exact addParameter_keepSigs n v s rfl
  | remove_parameter n => exact removeParameter_keepSigs n s rfl
  | update_parameter n v => exact updateParameter_keepSigs n v s rfl
  | scale_parameter n f => exact scaleParameter_keepSigs n f s rfl
  | make_parameter_dynamic n iv st => exact makeParameterDynamic_keepSigs n iv st s rfl
  | add_parameters l => exact pluralOp_keepSigs _ _ _ (fun a => addParameter_keepSigs _ _) l s rfl
  | remove_parameters l => exact pluralOp_keepSigs _ _ _ (fun a => removeParameter_keepSigs _) l s rfl
  | update_parameters l => exact pluralOp_keepSigs _ _ _ (fun a => updateParameter_keepSigs _ _) l s rfl
  | scale_parameters l => exact scaleParameters_keepSigs l s rfl
  | add_variable n v => exact addVariable_keepSigs n v s rfl
  | remove_variable n rs => exact removeVariable_keepSigs n rs s rfl
  | update_variable n v => exact updateVariable_keepSigs n v s rfl
  | make_variable_static n v => exact makeVariableStatic_keepSigs n v s rfl
  | add_variables l => exact pluralOp_keepSigs _ _ _ (fun a => addVariable_keepSigs _ _) l s rfl
  | remove_variables l rs => exact pluralOp_keepSigs _ _ _ (fun a => removeVariable_keepSigs _ _) l s rfl
  | update_variables l => exact pluralOp_keepSigs _ _ _ (fun a => updateVariable_keepSigs _ _) l s rfl
  | add_derived n f => exact addDerived_keepSigs n f s rfl
  | update_derived n fn args => exact updateDerived_keepSigs n fn args s rfl
  | remove_derived n => exact removeDerived_keepSigs n s rfl
  | add_reaction n r => exact addReaction_keepSigs n r s rfl
  | update_reaction n fn args st => exact updateReaction_keepSigs n fn args st s rfl
  | remove_reaction n => exact removeReaction_keepSigs n s rfl
  | add_readout n f => exact addReadout_keepSigs n f s rfl
  | remove_readout n => exact removeReadout_keepSigs n s rfl
  | add_surrogate n su => exact addSurrogate_keepSigs n su s rfl
  | add_surrogate_kw n su u => exact addSurrogate_keepSigs n (u.over su) s rfl
  | update_surrogate n u => exact updateSurrogate_keepSigs n u s rfl
  | remove_surrogate n => exact removeSurrogate_keepSigs n s rfl
  | add_data n v => exact addData_keepSigs n v s rfl
  | update_data n v => exact updateData_keepSigs n v s rfl
  | remove_data n => exact removeData_keepSigs n s rfl


/-! ### determinism modulo the cache -/

/-- the part of the state a user's edits define: everything but the memoised cache -/
def forget (s : State) : State := { s with cache := none }

theorem forget_eq_iff {s t : State} :
    forget s = forget t ↔ s.content = t.content ∧ s.ids = t.ids ∧ s.sigs = t.sigs := by
  cases s; cases t; simp [forget]

theorem inval_forget (m) (s : State) : forget (inval m s) = forget s := by
  unfold inval; split <;> rfl

theorem inval_eq_forget {m} (hm : Gen.invalidates m = true) (s : State) : inval m s = forget s := by
  simp [inval, hm, forget]

/-- A mutator that carries `@_invalidate_cache` does not see the cache at all: from two states with the same
    content, ids and signatures it produces the SAME state and outcome. -/
theorem step_strong (op : Op) (hm : Gen.invalidates op.mut = true) (s t : State) (h : forget s = forget t) :
    step s op = step t op := by
  cases op <;>
    (simp only [Op.mut] at hm
     simp only [step, addParameter, removeParameter, updateParameter, scaleParameter, makeParameterDynamic,
       addParameters, removeParameters, updateParameters, scaleParameters, addVariable, removeVariable,
       updateVariable, makeVariableStatic, addVariables, removeVariables, updateVariables, addDerived,
       updateDerived, removeDerived, addReaction, updateReaction, removeReaction, addReadout, removeReadout,
       addSurrogate, addSurrogateKw, updateSurrogate, removeSurrogate, addData, updateData, removeData, pluralOp,
       inval_eq_forget hm, h])

/-- the relation: same content, ids, signatures; both caches valid -/
def Sim (s t : State) : Prop := forget s = forget t ∧ CacheOK s ∧ CacheOK t

theorem Sim.refl' {s : State} (h : CacheOK s) : Sim s s := ⟨rfl, h, h⟩
theorem Sim.symm {s t : State} (h : Sim s t) : Sim t s := ⟨h.1.symm, h.2.2, h.2.1⟩
theorem Sim.trans {a b c : State} (h1 : Sim a b) (h2 : Sim b c) : Sim a c := ⟨h1.1.trans h2.1, h1.2.1, h2.2.2⟩

/-- same outcome, same state up to the cache -/
def Agree {ρ} (a b : State × ρ) : Prop := a.2 = b.2 ∧ forget a.1 = forget b.1

theorem agree_of_eq {ρ} {a b : State × ρ} (h : a = b) : Agree a b := by rw [h]; exact ⟨rfl, rfl⟩

theorem ensureCache_det {s t : State} (h : forget s = forget t) (hs : CacheOK s) (ht : CacheOK t) :
    Agree (ensureCache s) (ensureCache t) := by
  obtain ⟨hc, hi, hg⟩ := forget_eq_iff.mp h
  have hb2 : buildCache s.sigs s.content = buildCache t.sigs t.content := by rw [hc, hg]
  have key : ∀ c : Cache, forget { s with cache := some c } = forget { t with cache := some c } :=
    fun c => forget_eq_iff.mpr ⟨hc, hi, hg⟩
  unfold Agree ensureCache
  rcases hs with hs | ⟨c, hb, hs⟩ <;> rcases ht with ht | ⟨c', hb', ht⟩
  · simp only [hs, ht, hb2]
    cases buildCache t.sigs t.content with
    | ok c => exact ⟨rfl, key c⟩
    | error e => exact ⟨rfl, h⟩
  · simp only [hs, ht, hb2, hb']
    exact ⟨trivial, forget_eq_iff.mpr ⟨hc, hi, hg⟩⟩
  · have hb3 := hb2.symm.trans hb
    simp only [hs, ht, hb3]
    exact ⟨trivial, forget_eq_iff.mpr ⟨hc, hi, hg⟩⟩
  · have : c = c' := by
      rw [hb2, hb'] at hb
      cases hb; rfl
    subst this
    simp only [hs, ht]
    exact ⟨trivial, h⟩

theorem scaledValue_det (n f) {s t : State} (h : forget s = forget t) (hs : CacheOK s) (ht : CacheOK t) :
    Agree (scaledValue n f s) (scaledValue n f t) := by
  obtain ⟨hc, _, _⟩ := forget_eq_iff.mp h
  have he := ensureCache_det h hs ht
  unfold Agree at he ⊢
  unfold scaledValue
  rw [hc]
  cases t.content.pars.lookup n with
  | none => exact ⟨rfl, h⟩
  | some pv =>
    cases pv with
    | plain old => exact ⟨rfl, h⟩
    | ia a =>
      rcases hes : ensureCache s with ⟨s1, r1⟩
      rcases het : ensureCache t with ⟨t1, r2⟩
      rw [hes, het] at he
      simp only at he ⊢
      obtain ⟨e2, e1⟩ := he
      subst e2
      cases r1 with
      | error e => exact ⟨rfl, e1⟩
      | ok cache =>
        simp only
        cases cache.allPars.lookup n with
        | none => exact ⟨rfl, e1⟩
        | some v => exact ⟨rfl, e1⟩

theorem scaledValues_det (l : List (Name × Rat)) : ∀ {s t : State}, forget s = forget t → CacheOK s → CacheOK t →
    Agree (scaledValues l s) (scaledValues l t) := by
  induction l with
  | nil => intro s t h _ _; exact ⟨rfl, h⟩
  | cons a rest ih =>
    intro s t h hs ht
    obtain ⟨n, f⟩ := a
    have h1 := scaledValue_det n f h hs ht
    have c1 := scaledValue_cacheOK n f hs
    have c2 := scaledValue_cacheOK n f ht
    unfold Agree at h1 ⊢
    simp only [scaledValues]
    rcases e1 : scaledValue n f s with ⟨s1, r1⟩
    rcases e2 : scaledValue n f t with ⟨t1, r2⟩
    rw [e1] at h1 c1
    rw [e2] at h1 c2
    simp only at h1 c1 c2 ⊢
    obtain ⟨hr, hf⟩ := h1
    subst hr
    cases r1 with
    | error e => exact ⟨rfl, hf⟩
    | ok v =>
      simp only
      have h2 := ih hf c1 c2
      unfold Agree at h2
      rcases e3 : scaledValues rest s1 with ⟨s2, r3⟩
      rcases e4 : scaledValues rest t1 with ⟨t2, r4⟩
      rw [e3, e4] at h2
      simp only at h2 ⊢
      obtain ⟨hr2, hf2⟩ := h2
      subst hr2
      cases r3 with
      | error e => exact ⟨rfl, hf2⟩
      | ok vs => exact ⟨rfl, hf2⟩

theorem pluralOp_det {α} (m) (chk : State → Except Err Unit) (f : α → State → State × Res)
    (hchk : ∀ s t, forget s = forget t → chk s = chk t)
    (hf : ∀ a s t, forget s = forget t → f a s = f a t) (l : List α) {s t : State} (h : forget s = forget t) :
    Agree (pluralOp m chk f l s) (pluralOp m chk f l t) := by
  have h0 : forget (inval m s) = forget (inval m t) := by rw [inval_forget, inval_forget, h]
  unfold Agree pluralOp
  simp only
  rw [hchk _ _ h0]
  split
  · exact ⟨rfl, h0⟩
  · cases l with
    | nil => exact ⟨rfl, h0⟩
    | cons a rest =>
      simp only [foldOps]
      rw [hf a _ _ h0]
      exact ⟨rfl, rfl⟩

theorem ids_of_forget {s t : State} (h : forget s = forget t) : s.ids = t.ids := (forget_eq_iff.mp h).2.1
theorem content_of_forget {s t : State} (h : forget s = forget t) : s.content = t.content := (forget_eq_iff.mp h).1
theorem sigs_of_forget {s t : State} (h : forget s = forget t) : s.sigs = t.sigs := (forget_eq_iff.mp h).2.2

/-- Every public mutator, from two states that agree up to (valid) caches: same outcome, same state up to the
    cache.  The decorated ones by `step_strong`; the delegating ones (plural / scale_ / make_variable_static) through
    their callees. -/
theorem step_det (op : Op) {s t : State} (h : forget s = forget t) (hs : CacheOK s) (ht : CacheOK t) :
    Agree (step s op) (step t op) := by
  have T := table_invalidates
  by_cases hm : Gen.invalidates op.mut = true
  · exact agree_of_eq (step_strong op hm s t h)
  · have sp := fun n v => step_strong (.add_parameter n v) (T .add_parameter rfl)
    have rp := fun n => step_strong (.remove_parameter n) (T .remove_parameter rfl)
    have up := fun n v => step_strong (.update_parameter n v) (T .update_parameter rfl)
    have sv := fun n v => step_strong (.add_variable n v) (T .add_variable rfl)
    have rv := fun n rs => step_strong (.remove_variable n rs) (T .remove_variable rfl)
    have uv := fun n v => step_strong (.update_variable n v) (T .update_variable rfl)
    cases op with
    | add_parameters l =>
      exact pluralOp_det _ _ _ (fun s t h => by simp only [ids_of_forget h]) (fun a => sp a.1 a.2) l h
    | remove_parameters l =>
      exact pluralOp_det _ _ _ (fun s t h => by simp only [content_of_forget h]) (fun a => rp a) l h
    | update_parameters l =>
      exact pluralOp_det _ _ _ (fun s t h => by simp only [content_of_forget h]) (fun a => up a.1 (some a.2)) l h
    | add_variables l =>
      exact pluralOp_det _ _ _ (fun s t h => by simp only [ids_of_forget h]) (fun a => sv a.1 a.2) l h
    | remove_variables l rs =>
      exact pluralOp_det _ _ _ (fun s t h => by simp only [content_of_forget h]) (fun a => rv a rs) l h
    | update_variables l =>
      exact pluralOp_det _ _ _ (fun s t h => by simp only [content_of_forget h]) (fun a => uv a.1 a.2) l h
    | scale_parameter n f =>
      have h0 : forget (inval .scale_parameter s) = forget (inval .scale_parameter t) := by
        rw [inval_forget, inval_forget, h]
      have h1 := scaledValue_det n f h0 (inval_cacheOK _ hs) (inval_cacheOK _ ht)
      unfold Agree at h1 ⊢
      simp only [step, scaleParameter]
      rcases e1 : scaledValue n f (inval .scale_parameter s) with ⟨s1, r1⟩
      rcases e2 : scaledValue n f (inval .scale_parameter t) with ⟨t1, r2⟩
      rw [e1, e2] at h1
      simp only at h1 ⊢
      obtain ⟨hr, hf⟩ := h1
      subst hr
      cases r1 with
      | error e => exact ⟨rfl, hf⟩
      | ok v => exact agree_of_eq (up n (some (.plain v)) s1 t1 hf)
    | scale_parameters l =>
      have h0 : forget (inval .scale_parameters s) = forget (inval .scale_parameters t) := by
        rw [inval_forget, inval_forget, h]
      have h1 := scaledValues_det l h0 (inval_cacheOK _ hs) (inval_cacheOK _ ht)
      unfold Agree at h1 ⊢
      simp only [step, scaleParameters]
      rw [if_pos table_scale_parameters_delegates, if_pos table_scale_parameters_delegates]
      rcases e1 : scaledValues l (inval .scale_parameters s) with ⟨s1, r1⟩
      rcases e2 : scaledValues l (inval .scale_parameters t) with ⟨t1, r2⟩
      rw [e1, e2] at h1
      simp only at h1 ⊢
      obtain ⟨hr, hf⟩ := h1
      subst hr
      cases r1 with
      | error e => exact ⟨rfl, hf⟩
      | ok vs =>
        exact pluralOp_det _ _ _ (fun s t h => by simp only [content_of_forget h]) (fun a => up a.1 (some a.2)) vs hf
    | make_variable_static n v =>
      have h0 : forget (inval .make_variable_static s) = forget (inval .make_variable_static t) := by
        rw [inval_forget, inval_forget, h]
      unfold Agree
      simp only [step, makeVariableStatic]
      rw [content_of_forget h0]
      cases (inval .make_variable_static t).content.vars.lookup n with
      | none => exact ⟨rfl, h0⟩
      | some iv =>
        simp only
        have e : removeVariable n true (inval .make_variable_static s)
            = removeVariable n true (inval .make_variable_static t) := rv n true _ _ h0
        rw [e]
        exact ⟨rfl, rfl⟩
    | _ => exact absurd (T _ rfl) hm

theorem eqFresh_true (s : State) : eqFresh s = true := by
  unfold eqFresh
  have : Gen.eqFields = ["_ids", "_variables", "_parameters", "_derived", "_readouts", "_reactions", "_surrogates",
      "_data"] := rfl
  rw [this]
  rfl

theorem stepS_det (op : Op) (given) {s t : State} (h : forget s = forget t) (hs : CacheOK s) (ht : CacheOK t) :
    Agree (stepS s op given) (stepS t op given) := by
  have h1 := step_det op h hs ht
  unfold Agree at h1 ⊢
  unfold stepS
  simp only
  obtain ⟨hr, hf⟩ := h1
  rw [hr]
  obtain ⟨hc, hi, hg⟩ := forget_eq_iff.mp hf
  cases (step t op).2 with
  | error e => exact ⟨rfl, hf⟩
  | ok u =>
    cases u
    simp only
    exact ⟨trivial, forget_eq_iff.mpr ⟨hc, hi, by simp only [hg]⟩⟩

theorem query_det (q : Query) {s t : State} (h : forget s = forget t) (hs : CacheOK s) (ht : CacheOK t) :
    Agree (query s q) (query t q) := by
  have he := ensureCache_det h hs ht
  unfold Agree at he ⊢
  unfold query
  split
  · simp only [eqFresh_true]
    exact ⟨trivial, h⟩
  · split
    · rcases e1 : ensureCache s with ⟨s1, r1⟩
      rcases e2 : ensureCache t with ⟨t1, r2⟩
      rw [e1, e2] at he
      simp only at he ⊢
      obtain ⟨hr, hf⟩ := he
      subst hr
      cases r1 with
      | error e => exact ⟨rfl, hf⟩
      | ok cache => exact ⟨by simp only [content_of_forget hf], hf⟩
    · exact ⟨by simp only [content_of_forget h], h⟩

theorem stepH_sim (o : HOp) {s t : State} (h : Sim s t) : Sim (stepH s o) (stepH t o) := by
  obtain ⟨hf, hs, ht⟩ := h
  cases o with
  | edit op given => exact ⟨(stepS_det op given hf hs ht).2, stepS_cacheOK s op given hs, stepS_cacheOK t op given ht⟩
  | ask q => exact ⟨(query_det q hf hs ht).2, query_cacheOK s q hs, query_cacheOK t q ht⟩
  | fork => exact ⟨hf, hs, ht⟩

theorem run_sim (h : List HOp) : ∀ {s t : State}, Sim s t → Sim (run s h) (run t h) := by
  induction h with
  | nil => intro s t hst; exact hst
  | cons o rest ih => intro s t hst; simp only [run, List.foldl_cons]; exact ih (stepH_sim o hst)

theorem run_append (s : State) (h1 h2 : List HOp) : run s (h1 ++ h2) = run (run s h1) h2 := by
  simp [run, List.foldl_append]

/-- a rejected call leaves a state that cannot be told from the one before -/
theorem rejected_sim {s : State} (hs : CacheOK s) (he : Exact s) (op : Op) (given) (e : Err)
    (hr : (stepS s op given).2 = .error e) : Sim (stepS s op given).1 s := by
  have hr' : (step s op).2 = .error e := by rw [← stepS_snd s op given]; exact hr
  have hsame := (step_good op s he).2 e hr'
  have h1 : (stepS s op given).1 = (step s op).1 := by
    unfold stepS; simp only [hr']
  refine ⟨?_, stepS_cacheOK s op given hs, hs⟩
  rw [h1]
  exact forget_eq_iff.mpr ⟨hsame.1, hsame.2, step_sigs s op⟩

/-- what `Sim` means for a user: same content, ids, signatures, every query answers alike, every mutator call is
    accepted / rejected alike -/
theorem sim_obs {s t : State} (h : Sim s t) :
    s.content = t.content ∧ s.ids = t.ids ∧ s.sigs = t.sigs ∧
    (∀ q, (query s q).2 = (query t q).2) ∧ (∀ op given, (stepS s op given).2 = (stepS t op given).2) := by
  obtain ⟨hf, hs, ht⟩ := h
  obtain ⟨hc, hi, hg⟩ := forget_eq_iff.mp hf
  exact ⟨hc, hi, hg, fun q => (query_det q hf hs ht).1, fun op given => (stepS_det op given hf hs ht).1⟩

end Mxl.C03
