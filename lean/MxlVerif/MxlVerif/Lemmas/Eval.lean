/-
Evaluating components along any valid schedule yields an environment in which every
component's value is its function applied to the values its named arguments have
(`Comp.Holds`), and leaves every other binding alone.  This is the order-free content
of "each component sees the finished values of everything it names".
-/
import MxlVerif.Lemmas.Env
namespace Mxl

def providedOf (ts : List (Name × Comp)) (k : Name) : List Name :=
  match ts.lookup k with
  | some c => c.provided k
  | none => []

/-- `o` is a valid evaluation order for the components `ts` when `av` is bound initially. -/
inductive SchedT (ts : List (Name × Comp)) : List Name → List Name → Prop
  | nil (av : List Name) : SchedT ts av []
  | cons (av : List Name) (k : Name) (c : Comp) (rest : List Name) :
      ts.lookup k = some c → (∀ r ∈ c.args, r ∈ av) →
      SchedT ts (c.provided k ++ av) rest → SchedT ts av (k :: rest)

/-- the component's value(s) in `env` are its function applied to its arguments' values in `env` -/
def Comp.Holds (k : Name) (c : Comp) (env : Env) : Prop :=
  match c with
  | .fn f => ∃ vs, lookupArgs env f.args = .ok vs ∧ env.lookup k = some (f.fn vs)
  | .sur s => ∃ vs, lookupArgs env s.args = .ok vs ∧ (s.fn vs).length = s.outs.length ∧
      ∀ kv ∈ s.outs.zip (s.fn vs), env.lookup kv.1 = some kv.2

/-- surrogates return one value per declared output (otherwise Python's strict `zip` raises) -/
def SurOk (ts : List (Name × Comp)) : Prop :=
  ∀ k s, ts.lookup k = some (.sur s) → ∀ vs, (s.fn vs).length = s.outs.length

theorem Comp.Holds_frame {k : Name} {c : Comp} {env env' : Env}
    (hargs : ∀ a ∈ c.args, env'.lookup a = env.lookup a)
    (hprov : ∀ p ∈ c.provided k, env'.lookup p = env.lookup p)
    (h : c.Holds k env) : c.Holds k env' := by
  cases c with
  | fn f =>
    obtain ⟨vs, h1, h2⟩ := h
    refine ⟨vs, ?_, ?_⟩
    · rw [lookupArgs_congr f.args hargs]; exact h1
    · rw [hprov k (by simp [Comp.provided])]; exact h2
  | sur s =>
    obtain ⟨vs, h1, h2, h3⟩ := h
    refine ⟨vs, ?_, h2, ?_⟩
    · rw [lookupArgs_congr s.args hargs]; exact h1
    · intro kv hkv
      rw [hprov kv.1 (by
        simp only [Comp.provided]
        exact (List.of_mem_zip hkv).1)]
      exact h3 kv hkv

theorem zip_keys {α β} (l : List α) (m : List β) (h : m.length = l.length) :
    (l.zip m).map (·.1) = l := by
  induction l generalizing m with
  | nil => simp
  | cons x xs ih =>
    cases m with
    | nil => simp at h
    | cons y ys => simp at h; simp [ih ys h]

/-- one `calculate_inpl` step -/
theorem calcInpl_step (ts : List (Name × Comp)) (hs : SurOk ts) (k : Name) (c : Comp) (env : Env)
    (hk : ts.lookup k = some c)
    (hbound : ∀ a ∈ c.args, (env.lookup a).isSome)
    (hfresh : ∀ p ∈ c.provided k, env.lookup p = none)
    (hnd : (c.provided k).Nodup) :
    ∃ env1, c.calcInpl k env = .ok env1 ∧
      (∀ n, n ∉ c.provided k → env1.lookup n = env.lookup n) ∧
      c.Holds k env1 ∧ (∀ p ∈ c.provided k, (env1.lookup p).isSome) := by
  have hdisj : ∀ a ∈ c.args, a ∉ c.provided k := by
    intro a ha hp
    have := hbound a ha
    rw [hfresh a hp] at this; cases this
  obtain ⟨vs, hvs, _⟩ := lookupArgs_ok_of_bound c.args hbound
  cases c with
  | fn f =>
    simp only [Comp.args] at hvs hdisj
    simp only [Comp.provided, List.mem_singleton, forall_eq] at hfresh hdisj ⊢
    refine ⟨env.set k (f.fn vs), ?_, ?_, ?_, ?_⟩
    · simp [Comp.calcInpl, Fn.calc, hvs, bind, Except.bind, pure, Except.pure]
    · intro n hn; exact lookup_set_ne _ _ hn
    · refine ⟨vs, ?_, lookup_set_self _ _ _⟩
      rw [lookupArgs_congr f.args (fun a ha => lookup_set_ne _ _ (fun h => hdisj a ha h))]
      exact hvs
    · rw [lookup_set_self]; rfl
  | sur s =>
    simp only [Comp.args] at hvs hdisj
    simp only [Comp.provided] at hfresh hdisj hnd ⊢
    have hlen := hs k s hk vs
    have hkeys := zip_keys s.outs (s.fn vs) hlen
    refine ⟨env.setMany (s.outs.zip (s.fn vs)), ?_, ?_, ?_, ?_⟩
    · simp [Comp.calcInpl, hvs, hlen, bind, Except.bind, pure, Except.pure]
    · intro n hn
      exact lookup_setMany_frame _ _ _ (by rw [hkeys]; exact hn)
    · refine ⟨vs, ?_, hlen, ?_⟩
      · rw [lookupArgs_congr s.args (fun a ha =>
          lookup_setMany_frame _ _ _ (by rw [hkeys]; exact hdisj a ha))]
        exact hvs
      · intro kv hkv
        exact lookup_setMany_mem _ _ (by rw [hkeys]; exact hnd) kv hkv
    · intro p hp
      have : p ∈ (s.outs.zip (s.fn vs)).map (·.1) := by rw [hkeys]; exact hp
      obtain ⟨kv, hkv, rfl⟩ := List.mem_map.mp this
      rw [lookup_setMany_mem _ _ (by rw [hkeys]; exact hnd) kv hkv]; rfl

theorem evalInOrder_consistent (ts : List (Name × Comp)) (hs : SurOk ts) :
    ∀ (o av : List Name) (env : Env), SchedT ts av o →
      (∀ r ∈ av, (env.lookup r).isSome) →
      (o.flatMap (providedOf ts)).Nodup →
      (∀ p ∈ o.flatMap (providedOf ts), env.lookup p = none) →
      ∃ env', evalInOrder ts o env = .ok env' ∧
        (∀ n, n ∉ o.flatMap (providedOf ts) → env'.lookup n = env.lookup n) ∧
        (∀ k ∈ o, ∀ c, ts.lookup k = some c → c.Holds k env') ∧
        (∀ r, r ∈ o.flatMap (providedOf ts) ∨ r ∈ av → (env'.lookup r).isSome) := by
  intro o av env hsched
  induction hsched generalizing env with
  | nil av =>
    intro hb _ _
    refine ⟨env, rfl, fun _ _ => rfl, ?_, ?_⟩
    · intro k hk; cases hk
    · intro r hr
      rcases hr with h | h
      · cases h
      · exact hb r h
  | cons av k c rest hk hargs _ ih =>
    intro hb hnd hfresh
    have hprov : providedOf ts k = c.provided k := by simp [providedOf, hk]
    simp only [List.flatMap_cons, hprov] at hnd hfresh
    have hnd' := List.nodup_append.mp hnd
    obtain ⟨env1, he1, hframe1, hholds1, hbound1⟩ := calcInpl_step ts hs k c env hk
      (fun a ha => hb a (hargs a ha))
      (fun p hp => hfresh p (List.mem_append_left _ hp)) hnd'.1
    have hdisj : ∀ p ∈ rest.flatMap (providedOf ts), p ∉ c.provided k := by
      intro p hp hp'
      exact hnd'.2.2 p hp' p hp rfl
    obtain ⟨env', he', hframe', hholds', hbound'⟩ := ih env1
      (by
        intro r hr
        rcases List.mem_append.mp hr with h | h
        · exact hbound1 r h
        · have hbr := hb r h
          have : r ∉ c.provided k := by
            intro hp
            rw [hfresh r (List.mem_append_left _ hp)] at hbr; cases hbr
          rw [hframe1 r this]; exact hbr)
      hnd'.2.1
      (by
        intro p hp
        rw [hframe1 p (hdisj p hp)]
        exact hfresh p (List.mem_append_right _ hp))
    refine ⟨env', ?_, ?_, ?_, ?_⟩
    · simp [evalInOrder, hk, he1, he', bind, Except.bind]
    · intro n hn
      simp only [List.flatMap_cons, hprov, List.mem_append, not_or] at hn
      rw [hframe' n hn.2, hframe1 n hn.1]
    · intro k' hk' c' hc'
      rcases List.mem_cons.mp hk' with rfl | hk''
      · rw [hk] at hc'; cases hc'
        refine Comp.Holds_frame ?_ ?_ hholds1
        · intro a ha
          apply hframe'
          intro hmem
          have hba := hb a (hargs a ha)
          rw [hfresh a (List.mem_append_right _ hmem)] at hba; cases hba
        · intro p hp
          apply hframe'
          intro hmem
          exact hdisj p hmem hp
      · exact hholds' k' hk'' c' hc'
    · intro r hr
      simp only [List.flatMap_cons, hprov, List.mem_append] at hr
      apply hbound'
      rcases hr with (h | h) | h
      · exact Or.inr (List.mem_append_left _ h)
      · exact Or.inl h
      · exact Or.inr (List.mem_append_right _ h)

end Mxl
