/-
C03 — the cache invariant: every public mutator keeps "`_cache` is empty or equals `createCache content`".
The only place where the generated table (`Gen.invalidates`) enters is `table_invalidates`.
-/
import MxlVerif.Model.C03
namespace Mxl.C03
open Mxl

/-- the invariant of `_cache`: empty, or exactly what `_create_cache` builds from the current content
    (sanity checks on the functions' signatures included) -/
def CacheOK (s : State) : Prop :=
  s.cache = none ∨ ∃ c, buildCache s.sigs s.content = .ok c ∧ s.cache = some c

/-- a sub-step that never fills the cache -/
def ToNone (f : State → State × Res) : Prop := ∀ s, s.cache = none → (f s).1.cache = none

theorem andThen_none {a : State × Res} {f : State → State × Res}
    (ha : a.1.cache = none) (hf : ToNone f) : (andThen a f).1.cache = none := by
  unfold andThen
  split
  · exact hf _ ha
  · exact ha

theorem toNone_comp {f g : State → State × Res} (hf : ToNone f) (hg : ToNone g) :
    ToNone (fun s => andThen (f s) g) := fun s h => andThen_none (hf s h) hg

theorem insertId_toNone (n k) : ToNone (insertId n k) := by
  intro s h; unfold insertId fail ok; split <;> (try split) <;> simp [h]

theorem removeId_toNone (n) : ToNone (removeId n) := by
  intro s h; unfold removeId fail ok; split <;> simp [h]

theorem insertIds_toNone (k) (l) : ToNone (insertIds k l) := by
  induction l with
  | nil => intro s h; simpa [insertIds, ok] using h
  | cons a rest ih => intro s h; simp only [insertIds]; exact andThen_none (insertId_toNone a k s h) ih

theorem removeIds_toNone (l) : ToNone (removeIds l) := by
  induction l with
  | nil => intro s h; simpa [removeIds, ok] using h
  | cons a rest ih => intro s h; simp only [removeIds]; exact andThen_none (removeId_toNone a s h) ih

theorem putG_toNone {β} (L : Lens β) (n v) : ToNone (putG L n v) := by
  intro s h; simp [putG, ok, h]

theorem popG_toNone {β} (L : Lens β) (n) : ToNone (popG L n) := by
  intro s h; unfold popG fail ok; split <;> simp [h]

theorem addG_toNone {β} (m) (L : Lens β) (k n v) : ToNone (addG m L k n v) := by
  intro s h; unfold addG
  split
  · exact andThen_none (insertId_toNone n k s h) (putG_toNone L n v)
  · exact andThen_none (putG_toNone L n v s h) (insertId_toNone n k)

theorem removeG_toNone {β} (m) (L : Lens β) (n) : ToNone (removeG m L n) := by
  intro s h; unfold removeG
  split
  · exact andThen_none (popG_toNone L n s h) (removeId_toNone n)
  · exact andThen_none (removeId_toNone n s h) (popG_toNone L n)

theorem inval_keeps_none (m) {s : State} (h : s.cache = none) : (inval m s).cache = none := by
  unfold inval; split <;> simp [h]

theorem inval_none {m} (hm : Gen.invalidates m = true) (s : State) : (inval m s).cache = none := by
  simp [inval, hm]

theorem inval_content (m) (s : State) : (inval m s).content = s.content := by
  unfold inval; split <;> rfl

theorem inval_ids (m) (s : State) : (inval m s).ids = s.ids := by
  unfold inval; split <;> rfl

theorem cacheOK_of_none {s : State} (h : s.cache = none) : CacheOK s := Or.inl h


theorem stripStep_toNone (n rs) : ToNone (stripStep n rs) := by
  intro s h; unfold stripStep ok; split <;> simp [h]

theorem setStoich_toNone (n f v) : ToNone (setStoich n f v) := by
  intro s h; unfold setStoich fail ok; dsimp only; split
  · simp [h]
  · split <;> simp [h]

theorem setStoichs_toNone (n l) : ToNone (setStoichs n l) := by
  induction l with
  | nil => intro s h; simpa [setStoichs, ok] using h
  | cons a rest ih =>
    intro s h; obtain ⟨f, v⟩ := a; simp only [setStoichs]
    exact andThen_none (setStoich_toNone n f v s h) ih

theorem putSur_toNone (n su) : ToNone (putSur n su) := by
  intro s h; simp [putSur, ok, h]

theorem popSur_toNone (n) : ToNone (popSur n) := by
  intro s h; unfold popSur fail ok; split <;> simp [h]

/-! every public mutator, whatever the table says, leaves an empty cache empty -/

theorem addParameter_toNone (n v) : ToNone (addParameter n v) :=
  fun _ h => addG_toNone _ _ _ _ _ _ (inval_keeps_none _ h)
theorem addVariable_toNone (n v) : ToNone (addVariable n v) :=
  fun _ h => addG_toNone _ _ _ _ _ _ (inval_keeps_none _ h)
theorem addDerived_toNone (n v) : ToNone (addDerived n v) :=
  fun _ h => addG_toNone _ _ _ _ _ _ (inval_keeps_none _ h)
theorem addReaction_toNone (n v) : ToNone (addReaction n v) :=
  fun _ h => addG_toNone _ _ _ _ _ _ (inval_keeps_none _ h)
theorem addReadout_toNone (n v) : ToNone (addReadout n v) :=
  fun _ h => addG_toNone _ _ _ _ _ _ (inval_keeps_none _ h)
theorem addData_toNone (n v) : ToNone (addData n v) :=
  fun _ h => addG_toNone _ _ _ _ _ _ (inval_keeps_none _ h)
theorem removeParameter_toNone (n) : ToNone (removeParameter n) :=
  fun _ h => removeG_toNone _ _ _ _ (inval_keeps_none _ h)
theorem removeDerived_toNone (n) : ToNone (removeDerived n) :=
  fun _ h => removeG_toNone _ _ _ _ (inval_keeps_none _ h)
theorem removeReaction_toNone (n) : ToNone (removeReaction n) :=
  fun _ h => removeG_toNone _ _ _ _ (inval_keeps_none _ h)
theorem removeReadout_toNone (n) : ToNone (removeReadout n) :=
  fun _ h => removeG_toNone _ _ _ _ (inval_keeps_none _ h)
theorem removeData_toNone (n) : ToNone (removeData n) :=
  fun _ h => removeG_toNone _ _ _ _ (inval_keeps_none _ h)

theorem updateParameter_toNone (n v) : ToNone (updateParameter n v) := by
  intro s h
  have h0 := inval_keeps_none .update_parameter h
  unfold updateParameter
  simp only
  split
  · split
    · simpa [ok] using h0
    · exact putG_toNone _ _ _ _ h0
  · simpa [fail] using h0

theorem updateVariable_toNone (n v) : ToNone (updateVariable n v) := by
  intro s h
  have h0 := inval_keeps_none .update_variable h
  unfold updateVariable
  simp only
  split
  · exact putG_toNone _ _ _ _ h0
  · simpa [fail] using h0

theorem removeVariable_toNone (n rs) : ToNone (removeVariable n rs) := by
  intro s h
  have h0 := inval_keeps_none .remove_variable h
  unfold removeVariable
  simp only
  split
  · exact andThen_none (stripStep_toNone n rs _ h0) (removeG_toNone _ _ _)
  · exact andThen_none (removeG_toNone _ _ _ _ h0) (stripStep_toNone n rs)

theorem updateDerived_toNone (n fn args) : ToNone (updateDerived n fn args) := by
  intro s h
  have h0 := inval_keeps_none .update_derived h
  unfold updateDerived
  simp only
  split
  · simpa [fail] using h0
  · exact putG_toNone _ _ _ _ h0

theorem updateReaction_toNone (n fn args st) : ToNone (updateReaction n fn args st) := by
  intro s h
  have h0 := inval_keeps_none .update_reaction h
  unfold updateReaction
  simp only
  split
  · simpa [fail] using h0
  · exact putG_toNone _ _ _ _ h0

theorem updateData_toNone (n v) : ToNone (updateData n v) := by
  intro s h
  have h0 := inval_keeps_none .update_data h
  unfold updateData
  simp only
  split
  · simpa [fail] using h0
  · exact putG_toNone _ _ _ _ h0

theorem addSurrogate_toNone (n su) : ToNone (addSurrogate n su) := by
  intro s h
  have h0 := inval_keeps_none .add_surrogate h
  unfold addSurrogate
  simp only
  split
  · simpa [fail] using h0
  · exact andThen_none (insertId_toNone _ _ _ h0)
      (toNone_comp (insertIds_toNone _ _) (putSur_toNone _ _))

theorem updateSurrogate_toNone (n u) : ToNone (updateSurrogate n u) := by
  intro s h
  have h0 := inval_keeps_none .update_surrogate h
  unfold updateSurrogate
  simp only
  split
  · simpa [fail] using h0
  · split
    · simpa [fail] using h0
    · exact andThen_none (removeIds_toNone _ _ h0)
        (toNone_comp (insertIds_toNone _ _) (putSur_toNone _ _))

theorem removeSurrogate_toNone (n) : ToNone (removeSurrogate n) := by
  intro s h
  have h0 := inval_keeps_none .remove_surrogate h
  unfold removeSurrogate
  simp only
  split
  · exact andThen_none (popSur_toNone _ _ h0) (toNone_comp (removeId_toNone _) (removeIds_toNone _))
  · exact andThen_none (removeId_toNone _ _ h0) (toNone_comp (popSur_toNone _) (removeIds_toNone _))

theorem makeParameterDynamic_core (n iv st) (s : State)
    (h0 : (inval .make_parameter_dynamic s).cache = none) :
    (makeParameterDynamic n iv st s).1.cache = none := by
  unfold makeParameterDynamic
  simp only
  split
  · simpa [fail] using h0
  · split
    · simpa [fail] using h0
    · exact andThen_none (removeParameter_toNone _ _ h0)
        (toNone_comp (addVariable_toNone _ _) (setStoichs_toNone _ _))

theorem makeParameterDynamic_toNone (n iv st) : ToNone (makeParameterDynamic n iv st) :=
  fun s h => makeParameterDynamic_core n iv st s (inval_keeps_none _ h)


/-! ### the generated-table obligation -/

/-- the mutators whose own body writes something `createCache` reads: everything except the plural / scale_ /
    make_variable_static forms, which only delegate.  Justified from the source by `C03_table_must_invalidate`
    (`writesItself m → mustInvalidate m`, and `_create_cache` reads all seven dictionaries). -/
def mustInvalidate : Gen.Mut → Bool
  | .add_parameter | .remove_parameter | .update_parameter | .make_parameter_dynamic
  | .add_variable | .remove_variable | .update_variable
  | .add_derived | .update_derived | .remove_derived
  | .add_reaction | .update_reaction | .remove_reaction
  | .add_readout | .remove_readout
  | .add_surrogate | .update_surrogate | .remove_surrogate
  | .add_data | .update_data | .remove_data => true
  | _ => false

/-- a mutator whose OWN body writes one of the model's dictionaries or a component object stored in one (as read
    from the source: an own-container write or a component write among its events) -/
def writesItself (m : Gen.Mut) : Bool :=
  (Gen.script m).any fun e => match e with
    | .cwrite _ _ => true
    | .write => true
    | _ => false

theorem table_invalidates (m : Gen.Mut) (h : mustInvalidate m = true) : Gen.invalidates m = true := by
  cases m <;> first | rfl | (simp [mustInvalidate] at h)

theorem inval_idem (m) (s : State) : inval m (inval m s) = inval m s := by
  unfold inval; split <;> simp

theorem addParameter_none (hm : Gen.invalidates .add_parameter = true) (n v s) :
    (addParameter n v s).1.cache = none := by
  have : addParameter n v s = addParameter n v (inval .add_parameter s) := by simp [addParameter, inval_idem]
  rw [this]; exact addParameter_toNone _ _ _ (inval_none hm s)
theorem removeParameter_none (hm : Gen.invalidates .remove_parameter = true) (n s) :
    (removeParameter n s).1.cache = none := by
  have : removeParameter n s = removeParameter n (inval .remove_parameter s) := by simp [removeParameter, inval_idem]
  rw [this]; exact removeParameter_toNone _ _ (inval_none hm s)
theorem updateParameter_none (hm : Gen.invalidates .update_parameter = true) (n v s) :
    (updateParameter n v s).1.cache = none := by
  have : updateParameter n v s = updateParameter n v (inval .update_parameter s) := by simp [updateParameter, inval_idem]
  rw [this]; exact updateParameter_toNone _ _ _ (inval_none hm s)
theorem makeParameterDynamic_none (hm : Gen.invalidates .make_parameter_dynamic = true) (n iv st s) :
    (makeParameterDynamic n iv st s).1.cache = none :=
  makeParameterDynamic_core n iv st s (inval_none hm s)
theorem addVariable_none (hm : Gen.invalidates .add_variable = true) (n v s) :
    (addVariable n v s).1.cache = none := by
  have : addVariable n v s = addVariable n v (inval .add_variable s) := by simp [addVariable, inval_idem]
  rw [this]; exact addVariable_toNone _ _ _ (inval_none hm s)
theorem removeVariable_none (hm : Gen.invalidates .remove_variable = true) (n rs s) :
    (removeVariable n rs s).1.cache = none := by
  have : removeVariable n rs s = removeVariable n rs (inval .remove_variable s) := by simp [removeVariable, inval_idem]
  rw [this]; exact removeVariable_toNone _ _ _ (inval_none hm s)
theorem updateVariable_none (hm : Gen.invalidates .update_variable = true) (n v s) :
    (updateVariable n v s).1.cache = none := by
  have : updateVariable n v s = updateVariable n v (inval .update_variable s) := by simp [updateVariable, inval_idem]
  rw [this]; exact updateVariable_toNone _ _ _ (inval_none hm s)
theorem addDerived_none (hm : Gen.invalidates .add_derived = true) (n v s) :
    (addDerived n v s).1.cache = none := by
  have : addDerived n v s = addDerived n v (inval .add_derived s) := by simp [addDerived, inval_idem]
  rw [this]; exact addDerived_toNone _ _ _ (inval_none hm s)
theorem updateDerived_none (hm : Gen.invalidates .update_derived = true) (n fn args s) :
    (updateDerived n fn args s).1.cache = none := by
  have : updateDerived n fn args s = updateDerived n fn args (inval .update_derived s) := by simp [updateDerived, inval_idem]
  rw [this]; exact updateDerived_toNone _ _ _ _ (inval_none hm s)
theorem removeDerived_none (hm : Gen.invalidates .remove_derived = true) (n s) :
    (removeDerived n s).1.cache = none := by
  have : removeDerived n s = removeDerived n (inval .remove_derived s) := by simp [removeDerived, inval_idem]
  rw [this]; exact removeDerived_toNone _ _ (inval_none hm s)
theorem addReaction_none (hm : Gen.invalidates .add_reaction = true) (n v s) :
    (addReaction n v s).1.cache = none := by
  have : addReaction n v s = addReaction n v (inval .add_reaction s) := by simp [addReaction, inval_idem]
  rw [this]; exact addReaction_toNone _ _ _ (inval_none hm s)
theorem updateReaction_none (hm : Gen.invalidates .update_reaction = true) (n fn args st s) :
    (updateReaction n fn args st s).1.cache = none := by
  have : updateReaction n fn args st s = updateReaction n fn args st (inval .update_reaction s) := by
    simp [updateReaction, inval_idem]
  rw [this]; exact updateReaction_toNone _ _ _ _ _ (inval_none hm s)
theorem removeReaction_none (hm : Gen.invalidates .remove_reaction = true) (n s) :
    (removeReaction n s).1.cache = none := by
  have : removeReaction n s = removeReaction n (inval .remove_reaction s) := by simp [removeReaction, inval_idem]
  rw [this]; exact removeReaction_toNone _ _ (inval_none hm s)
theorem addSurrogate_none (hm : Gen.invalidates .add_surrogate = true) (n su s) :
    (addSurrogate n su s).1.cache = none := by
  have : addSurrogate n su s = addSurrogate n su (inval .add_surrogate s) := by simp [addSurrogate, inval_idem]
  rw [this]; exact addSurrogate_toNone _ _ _ (inval_none hm s)
theorem updateSurrogate_none (hm : Gen.invalidates .update_surrogate = true) (n u s) :
    (updateSurrogate n u s).1.cache = none := by
  have : updateSurrogate n u s = updateSurrogate n u (inval .update_surrogate s) := by simp [updateSurrogate, inval_idem]
  rw [this]; exact updateSurrogate_toNone _ _ _ (inval_none hm s)
theorem removeSurrogate_none (hm : Gen.invalidates .remove_surrogate = true) (n s) :
    (removeSurrogate n s).1.cache = none := by
  have : removeSurrogate n s = removeSurrogate n (inval .remove_surrogate s) := by simp [removeSurrogate, inval_idem]
  rw [this]; exact removeSurrogate_toNone _ _ (inval_none hm s)
theorem addData_none (hm : Gen.invalidates .add_data = true) (n v s) :
    (addData n v s).1.cache = none := by
  have : addData n v s = addData n v (inval .add_data s) := by simp [addData, inval_idem]
  rw [this]; exact addData_toNone _ _ _ (inval_none hm s)
theorem updateData_none (hm : Gen.invalidates .update_data = true) (n v s) :
    (updateData n v s).1.cache = none := by
  have : updateData n v s = updateData n v (inval .update_data s) := by simp [updateData, inval_idem]
  rw [this]; exact updateData_toNone _ _ _ (inval_none hm s)
theorem removeData_none (hm : Gen.invalidates .remove_data = true) (n s) :
    (removeData n s).1.cache = none := by
  have : removeData n s = removeData n (inval .remove_data s) := by simp [removeData, inval_idem]
  rw [this]; exact removeData_toNone _ _ (inval_none hm s)

/-! ### readouts: the sanity checks of `_create_cache` read them, so these two need the decorator as well -/

theorem addReadout_none (hm : Gen.invalidates .add_readout = true) (n v s) :
    (addReadout n v s).1.cache = none := by
  have : addReadout n v s = addReadout n v (inval .add_readout s) := by simp [addReadout, inval_idem]
  rw [this]; exact addReadout_toNone _ _ _ (inval_none hm s)

theorem removeReadout_none (hm : Gen.invalidates .remove_readout = true) (n s) :
    (removeReadout n s).1.cache = none := by
  have : removeReadout n s = removeReadout n (inval .remove_readout s) := by simp [removeReadout, inval_idem]
  rw [this]; exact removeReadout_toNone _ _ (inval_none hm s)

/-! ### `rhsFromArgs2` with one environment is the shared core's `rhsFromArgs` -/

theorem accDyn2_same (e : Env) (k : Name) : ∀ (l : List (Name × Fn)) (d : List (Name × Rat)),
    accDyn2 e e k l d = accDyn e k l d := by
  intro l
  induction l with
  | nil => intro d; rfl
  | cons a rest ih =>
    intro d
    obtain ⟨flux, dv⟩ := a
    simp only [accDyn2, accDyn]
    cases dv.calc e with
    | error x => rfl
    | ok n =>
      simp only [bind, Except.bind]
      cases Env.get e flux with
      | error x => rfl
      | ok fv =>
        simp only
        cases accumulate d k (n * fv) with
        | error x => rfl
        | ok d' => exact ih d'

theorem accDynAll2_same (e : Env) : ∀ (l : List (Name × List (Name × Fn))) (d : List (Name × Rat)),
    accDynAll2 e e l d = accDynAll e l d := by
  intro l
  induction l with
  | nil => intro d; rfl
  | cons a rest ih =>
    intro d
    obtain ⟨k, st⟩ := a
    simp only [accDynAll2, accDynAll, accDyn2_same]
    cases accDyn e k st d with
    | error x => rfl
    | ok d' => exact ih d'

theorem rhsFromArgs2_same (cache : Cache) (vn : List Name) (e : Env) :
    rhsFromArgs2 cache vn e e = rhsFromArgs cache vn e := by
  unfold rhsFromArgs2 rhsFromArgs
  simp only [accDynAll2_same]

/-! ### composites and plural forms -/

def PresOK (f : State → State × Res) : Prop := ∀ s, CacheOK s → CacheOK (f s).1

theorem foldOps_presOK {α} (f : α → State → State × Res) (hf : ∀ a, PresOK (f a)) (l : List α) :
    PresOK (foldOps f l) := by
  induction l with
  | nil => intro s h; simpa [foldOps, ok] using h
  | cons a rest ih =>
    intro s h
    simp only [foldOps]
    have h1 := hf a s h
    unfold andThen
    split
    · rename_i s1 heq
      rw [heq] at h1
      exact ih s1 h1
    · rename_i s1 e heq
      rw [heq] at h1
      exact h1

theorem inval_cacheOK (m) {s : State} (h : CacheOK s) : CacheOK (inval m s) := by
  unfold inval; split
  · exact Or.inl rfl
  · exact h

theorem ensureCache_cacheOK {s : State} (h : CacheOK s) : CacheOK (ensureCache s).1 := by
  unfold ensureCache
  split
  · exact h
  · split
    · rename_i c hc
      exact Or.inr ⟨c, hc, rfl⟩
    · exact h

theorem ensureCache_ok {s s1 : State} {c : Cache} (h : CacheOK s) (he : ensureCache s = (s1, .ok c)) :
    buildCache s.sigs s.content = .ok c ∧ s1.content = s.content ∧ s1.ids = s.ids := by
  unfold ensureCache at he
  split at he
  · rename_i c0 hc0
    simp at he
    obtain ⟨rfl, rfl⟩ := he
    rcases h with h | ⟨c', h1, h2⟩
    · rw [h] at hc0; cases hc0
    · rw [h2] at hc0; cases hc0; exact ⟨h1, rfl, rfl⟩
  · split at he
    · rename_i c0 hc0
      simp at he
      obtain ⟨rfl, rfl⟩ := he
      exact ⟨hc0, rfl, rfl⟩
    · simp at he

theorem scaledValue_cacheOK (n f) {s : State} (h : CacheOK s) : CacheOK (scaledValue n f s).1 := by
  unfold scaledValue
  split
  · exact h
  · exact h
  · have h1 := ensureCache_cacheOK h
    split
    · rename_i s1 e heq
      rw [heq] at h1; exact h1
    · rename_i s1 c heq
      rw [heq] at h1
      split <;> exact h1

theorem scaledValues_cacheOK (l : List (Name × Rat)) : ∀ {s : State}, CacheOK s → CacheOK (scaledValues l s).1 := by
  induction l with
  | nil => intro s h; exact h
  | cons a rest ih =>
    intro s h
    obtain ⟨n, f⟩ := a
    have h1 := scaledValue_cacheOK n f h
    simp only [scaledValues]
    split
    · rename_i s1 e heq; rw [heq] at h1; exact h1
    · rename_i s1 v heq
      rw [heq] at h1
      have h2 := ih h1
      split
      · rename_i s2 e heq2; rw [heq2] at h2; exact h2
      · rename_i s2 vs heq2; rw [heq2] at h2; exact h2

theorem scaleParameter_presOK (hm : Gen.invalidates .update_parameter = true) (n f) :
    PresOK (scaleParameter n f) := by
  intro s h
  have h0 := scaledValue_cacheOK n f (inval_cacheOK .scale_parameter h)
  unfold scaleParameter
  simp only
  split
  · rename_i s1 e heq; rw [heq] at h0; exact h0
  · exact Or.inl (updateParameter_none hm _ _ _)

theorem pluralOp_presOK {α} (m chk) (f : α → State → State × Res) (hf : ∀ a, PresOK (f a)) (l : List α) :
    PresOK (pluralOp m chk f l) := by
  intro s h
  have h0 := inval_cacheOK m h
  unfold pluralOp
  simp only
  split
  · simpa [fail] using h0
  · exact foldOps_presOK f hf l _ h0

theorem updateParameters_presOK (hm : Gen.invalidates .update_parameter = true) (l) :
    PresOK (updateParameters l) :=
  pluralOp_presOK _ _ _ (fun _ _ _ => Or.inl (updateParameter_none hm _ _ _)) l

theorem scaleParameters_presOK (hm : Gen.invalidates .update_parameter = true) (l) :
    PresOK (scaleParameters l) := by
  intro s h
  have h0 := inval_cacheOK .scale_parameters h
  unfold scaleParameters
  simp only
  split
  · have h1 := scaledValues_cacheOK l h0
    split
    · rename_i s1 e heq; rw [heq] at h1; exact h1
    · rename_i s1 vs heq
      rw [heq] at h1
      exact updateParameters_presOK hm vs s1 h1
  · exact foldOps_presOK _ (fun a => scaleParameter_presOK hm a.1 a.2) l _ h0

theorem makeVariableStatic_presOK (hm : Gen.invalidates .remove_variable = true) (n v) :
    PresOK (makeVariableStatic n v) := by
  intro s h
  have h0 := inval_cacheOK .make_variable_static h
  unfold makeVariableStatic
  simp only
  split
  · simpa [fail] using h0
  · exact Or.inl (andThen_none (removeVariable_none hm _ _ _) (addParameter_toNone _ _))

/-- the inductive step of `C03_cache_valid`: every public mutator keeps the cache invariant.  For the
    mutators in `mustInvalidate` this is where the generated table is consulted. -/
theorem step_cacheOK (s : State) (op : Op) (h : CacheOK s) : CacheOK (step s op).1 := by
  have T := table_invalidates
  cases op with
  | add_parameter n v => exact Or.inl (addParameter_none (T .add_parameter rfl) _ _ _)
  | remove_parameter n => exact Or.inl (removeParameter_none (T .remove_parameter rfl) _ _)
  | update_parameter n v => exact Or.inl (updateParameter_none (T .update_parameter rfl) _ _ _)
  | scale_parameter n f => exact scaleParameter_presOK (T .update_parameter rfl) n f s h
  | make_parameter_dynamic n iv st =>
    exact Or.inl (makeParameterDynamic_none (T .make_parameter_dynamic rfl) _ _ _ _)
  | add_parameters l =>
    exact pluralOp_presOK _ _ _ (fun a s _ => Or.inl (addParameter_none (T .add_parameter rfl) _ _ _)) l s h
  | remove_parameters l =>
    exact pluralOp_presOK _ _ _ (fun a s _ => Or.inl (removeParameter_none (T .remove_parameter rfl) _ _)) l s h
  | update_parameters l => exact updateParameters_presOK (T .update_parameter rfl) l s h
  | scale_parameters l => exact scaleParameters_presOK (T .update_parameter rfl) l s h
  | add_variable n v => exact Or.inl (addVariable_none (T .add_variable rfl) _ _ _)
  | remove_variable n rs => exact Or.inl (removeVariable_none (T .remove_variable rfl) _ _ _)
  | update_variable n v => exact Or.inl (updateVariable_none (T .update_variable rfl) _ _ _)
  | make_variable_static n v => exact makeVariableStatic_presOK (T .remove_variable rfl) n v s h
  | add_variables l =>
    exact pluralOp_presOK _ _ _ (fun a s _ => Or.inl (addVariable_none (T .add_variable rfl) _ _ _)) l s h
  | remove_variables l rs =>
    exact pluralOp_presOK _ _ _ (fun a s _ => Or.inl (removeVariable_none (T .remove_variable rfl) _ _ _)) l s h
  | update_variables l =>
    exact pluralOp_presOK _ _ _ (fun a s _ => Or.inl (updateVariable_none (T .update_variable rfl) _ _ _)) l s h
  | add_derived n f => exact Or.inl (addDerived_none (T .add_derived rfl) _ _ _)
  | update_derived n fn args => exact Or.inl (updateDerived_none (T .update_derived rfl) _ _ _ _)
  | remove_derived n => exact Or.inl (removeDerived_none (T .remove_derived rfl) _ _)
  | add_reaction n r => exact Or.inl (addReaction_none (T .add_reaction rfl) _ _ _)
  | update_reaction n fn args st => exact Or.inl (updateReaction_none (T .update_reaction rfl) _ _ _ _ _)
  | remove_reaction n => exact Or.inl (removeReaction_none (T .remove_reaction rfl) _ _)
  | add_readout n f => exact Or.inl (addReadout_none (T .add_readout rfl) _ _ _)
  | remove_readout n => exact Or.inl (removeReadout_none (T .remove_readout rfl) _ _)
  | add_surrogate n su => exact Or.inl (addSurrogate_none (T .add_surrogate rfl) _ _ _)
  | add_surrogate_kw n su u => exact Or.inl (addSurrogate_none (T .add_surrogate rfl) _ _ _)
  | update_surrogate n u => exact Or.inl (updateSurrogate_none (T .update_surrogate rfl) _ _ _)
  | remove_surrogate n => exact Or.inl (removeSurrogate_none (T .remove_surrogate rfl) _ _)
  | add_data n v => exact Or.inl (addData_none (T .add_data rfl) _ _ _)
  | update_data n v => exact Or.inl (updateData_none (T .update_data rfl) _ _ _)
  | remove_data n => exact Or.inl (removeData_none (T .remove_data rfl) _ _)

/-! ### the signatures written by `stepS` -/

theorem foldOps_cache_none {α} (f : α → State → State × Res) (hn : ∀ a s, (f a s).1.cache = none)
    (a : α) (rest : List α) (s : State) : (foldOps f (a :: rest) s).1.cache = none := by
  induction rest generalizing a s with
  | nil =>
    simp only [foldOps]
    unfold andThen
    split
    · rename_i s1 heq
      have := hn a s; rw [heq] at this; simpa [ok] using this
    · rename_i s1 e heq
      have := hn a s; rw [heq] at this; exact this
  | cons b rest ih =>
    simp only [foldOps]
    unfold andThen
    split
    · rename_i s1 heq
      exact ih b s1
    · rename_i s1 e heq
      have := hn a s; rw [heq] at this; exact this

theorem pluralOp_cache_none {α} (m chk) (f : α → State → State × Res) (hn : ∀ a s, (f a s).1.cache = none)
    (l : List α) (hl : l ≠ []) (s : State) (hok : (pluralOp m chk f l s).2 = .ok ()) :
    (pluralOp m chk f l s).1.cache = none := by
  unfold pluralOp at hok ⊢
  simp only at hok ⊢
  split
  · rename_i e heq; rw [heq] at hok; simp [fail] at hok
  · cases l with
    | nil => exact absurd rfl hl
    | cons a rest => exact foldOps_cache_none f hn a rest _

/-- a call that passes function objects leaves the cache empty when it returns normally (so the signatures
    `stepS` records cannot disagree with a kept cache) -/
theorem step_fn_cache_none (s : State) (op : Op) (hne : op.fnNames ≠ []) (hok : (step s op).2 = .ok ()) :
    (step s op).1.cache = none := by
  have T := table_invalidates
  cases op with
  | add_parameter n v => exact addParameter_none (T .add_parameter rfl) _ _ _
  | update_parameter n v => exact updateParameter_none (T .update_parameter rfl) _ _ _
  | add_variable n v => exact addVariable_none (T .add_variable rfl) _ _ _
  | update_variable n v => exact updateVariable_none (T .update_variable rfl) _ _ _
  | add_derived n f => exact addDerived_none (T .add_derived rfl) _ _ _
  | update_derived n fn args => exact updateDerived_none (T .update_derived rfl) _ _ _ _
  | add_reaction n r => exact addReaction_none (T .add_reaction rfl) _ _ _
  | update_reaction n fn args st => exact updateReaction_none (T .update_reaction rfl) _ _ _ _ _
  | add_readout n f => exact addReadout_none (T .add_readout rfl) _ _ _
  | add_parameters l =>
    exact pluralOp_cache_none _ _ _ (fun a s => addParameter_none (T .add_parameter rfl) _ _ _) l
      (by simpa [Op.fnNames] using hne) s hok
  | update_parameters l =>
    exact pluralOp_cache_none _ _ _ (fun a s => updateParameter_none (T .update_parameter rfl) _ _ _) l
      (by simpa [Op.fnNames] using hne) s hok
  | add_variables l =>
    exact pluralOp_cache_none _ _ _ (fun a s => addVariable_none (T .add_variable rfl) _ _ _) l
      (by simpa [Op.fnNames] using hne) s hok
  | update_variables l =>
    exact pluralOp_cache_none _ _ _ (fun a s => updateVariable_none (T .update_variable rfl) _ _ _) l
      (by simpa [Op.fnNames] using hne) s hok
  | _ => exact absurd rfl hne

theorem stepS_cacheOK (s : State) (op : Op) (given) (h : CacheOK s) : CacheOK (stepS s op given).1 := by
  have h1 := step_cacheOK s op h
  unfold stepS
  simp only
  split
  · rename_i hok
    by_cases hne : op.fnNames = []
    · have hf : (given.filter fun g => op.fnNames.contains g.1) = [] := by
        rw [hne]; exact List.filter_eq_nil_iff.mpr (fun g _ => by simp)
      rw [hf]
      exact h1
    · exact Or.inl (step_fn_cache_none s op hne hok)
  · exact h1

/-- a query leaves the state alone or fills the cache — nothing else -/
theorem query_fst (s : State) (q : Query) : (query s q).1 = s ∨ (query s q).1 = (ensureCache s).1 := by
  unfold query
  split
  · exact Or.inl rfl
  · split
    · right
      split <;> (rename_i heq; rw [heq])
    · exact Or.inl rfl

theorem query_cacheOK (s : State) (q : Query) (h : CacheOK s) : CacheOK (query s q).1 := by
  rcases query_fst s q with h1 | h1 <;> rw [h1]
  · exact h
  · exact ensureCache_cacheOK h

end Mxl.C03
