/-
Uniqueness of consistent environments.  Along a valid schedule, an environment in which every
component holds (`Comp.Holds`) is determined by the bindings of the initially available names.
Consequently the time-zero environment of `_create_cache` — and with it every initial value —
does not depend on the order in which `_sort_dependencies` happened to emit the components, nor
on the declaration order of the containers: value-level order independence.
-/
import MxlVerif.Lemmas.Args
namespace Mxl

theorem lookupArgs_eq_of_agree {e1 e2 : Env} {args : List Name} {v1 v2 : List Rat}
    (hag : ∀ a ∈ args, e1.lookup a = e2.lookup a)
    (h1 : lookupArgs e1 args = .ok v1) (h2 : lookupArgs e2 args = .ok v2) : v1 = v2 := by
  rw [lookupArgs_congr args hag] at h1
  rw [h1] at h2
  cases h2; rfl

theorem exists_zip_of_mem {α β} : ∀ (l : List α) (m : List β), m.length = l.length →
    ∀ p ∈ l, ∃ kv ∈ l.zip m, kv.1 = p := by
  intro l
  induction l with
  | nil => intro m _ p hp; cases hp
  | cons x xs ih =>
    intro m hlen p hp
    cases m with
    | nil => simp at hlen
    | cons y ys =>
      simp only [List.length_cons, Nat.add_right_cancel_iff] at hlen
      rcases List.mem_cons.mp hp with rfl | hp'
      · exact ⟨(p, y), by simp, rfl⟩
      · obtain ⟨kv, hkv, hkv1⟩ := ih ys hlen p hp'
        exact ⟨kv, by simp only [List.zip_cons_cons]; exact List.mem_cons_of_mem _ hkv, hkv1⟩

/-- one component: if two environments agree on its arguments and it holds in both, they agree
    on everything it provides -/
theorem Comp.Holds_unique {k : Name} {c : Comp} {e1 e2 : Env}
    (hag : ∀ a ∈ c.args, e1.lookup a = e2.lookup a)
    (h1 : c.Holds k e1) (h2 : c.Holds k e2) :
    ∀ p ∈ c.provided k, e1.lookup p = e2.lookup p := by
  cases c with
  | fn f =>
    obtain ⟨v1, ha1, hv1⟩ := h1
    obtain ⟨v2, ha2, hv2⟩ := h2
    have : v1 = v2 := lookupArgs_eq_of_agree hag ha1 ha2
    subst this
    intro p hp
    simp only [Comp.provided, List.mem_singleton] at hp
    subst hp
    rw [hv1, hv2]
  | sur s =>
    obtain ⟨v1, ha1, hl1, hv1⟩ := h1
    obtain ⟨v2, ha2, _, hv2⟩ := h2
    have : v1 = v2 := lookupArgs_eq_of_agree hag ha1 ha2
    subst this
    intro p hp
    simp only [Comp.provided] at hp
    obtain ⟨kv, hkv, rfl⟩ := exists_zip_of_mem s.outs (s.fn v1) hl1 p hp
    rw [hv1 kv hkv, hv2 kv hkv]

/-- **uniqueness of consistent environments.**  Two environments in which every scheduled
    component holds and which agree on the initially available names agree on every name the
    schedule provides. -/
theorem holds_unique (ts : List (Name × Comp)) :
    ∀ (av o : List Name), SchedT ts av o → ∀ e1 e2 : Env,
      (∀ k ∈ o, ∀ c, ts.lookup k = some c → c.Holds k e1) →
      (∀ k ∈ o, ∀ c, ts.lookup k = some c → c.Holds k e2) →
      (∀ r ∈ av, e1.lookup r = e2.lookup r) →
      ∀ r, (r ∈ o.flatMap (providedOf ts) ∨ r ∈ av) → e1.lookup r = e2.lookup r := by
  intro av o hs
  induction hs with
  | nil av =>
    intro e1 e2 _ _ hav r hr
    rcases hr with h | h
    · cases h
    · exact hav r h
  | cons av k c rest hk hargs _ ih =>
    intro e1 e2 h1 h2 hav r hr
    have hprov : providedOf ts k = c.provided k := by simp [providedOf, hk]
    have hnew : ∀ p ∈ c.provided k, e1.lookup p = e2.lookup p :=
      Comp.Holds_unique (fun a ha => hav a (hargs a ha))
        (h1 k (by simp) c hk) (h2 k (by simp) c hk)
    apply ih e1 e2
      (fun x hx => h1 x (List.mem_cons_of_mem _ hx))
      (fun x hx => h2 x (List.mem_cons_of_mem _ hx))
    · intro p hp
      rcases List.mem_append.mp hp with h | h
      · exact hnew p h
      · exact hav p h
    · simp only [List.flatMap_cons, hprov, List.mem_append] at hr
      rcases hr with (h | h) | h
      · exact Or.inr (List.mem_append_left _ h)
      · exact Or.inl h
      · exact Or.inr (List.mem_append_right _ h)

theorem mem_keys_iff_lookup {β} (l : List (Name × β)) (k : Name) :
    k ∈ omKeys l ↔ ∃ v, l.lookup k = some v := by
  constructor
  · exact lookup_isSome_of_mem_keys
  · rintro ⟨v, hv⟩
    exact List.mem_map.mpr ⟨(k, v), mem_of_lookup hv, rfl⟩

theorem providedOf_congr {ts ts' : List (Name × Comp)} (h : ∀ k, ts'.lookup k = ts.lookup k)
    (k : Name) : providedOf ts' k = providedOf ts k := by
  simp [providedOf, h k]

theorem mem_provided_congr {ts ts' : List (Name × Comp)} (h : ∀ k, ts'.lookup k = ts.lookup k)
    (p : Name) :
    p ∈ (omKeys ts').flatMap (providedOf ts') ↔ p ∈ (omKeys ts).flatMap (providedOf ts) := by
  simp only [List.mem_flatMap]
  constructor
  · rintro ⟨k, hk, hp⟩
    refine ⟨k, ?_, by rw [← providedOf_congr h k]; exact hp⟩
    rw [mem_keys_iff_lookup] at hk ⊢
    rw [← h k]; exact hk
  · rintro ⟨k, hk, hp⟩
    refine ⟨k, ?_, by rw [providedOf_congr h k]; exact hp⟩
    rw [mem_keys_iff_lookup] at hk ⊢
    rw [h k]; exact hk

/-- **the time-zero environment is order independent.**  Two contents with the same component
    table (as a lookup function — declaration order and shadowed duplicates are irrelevant), the
    same base bindings and the same set of initially available names evaluate, whenever both
    caches build, to environments that agree on *every* name. -/
theorem createCache_env_unique {c c' : Content}
    (hts : ∀ k, c'.toSort.lookup k = c.toSort.lookup k)
    (hbase : ∀ n, (baseEnv (plainOf c'.pars) (plainOf c'.vars) c'.data 0).lookup n =
      (baseEnv (plainOf c.pars) (plainOf c.vars) c.data 0).lookup n)
    (hav : ∀ r, r ∈ c'.available ↔ r ∈ c.available)
    (hwf : WFc c) (hwf' : WFc c') {cache cache' : Cache}
    (h : createCache c = .ok cache) (h' : createCache c' = .ok cache')
    {dep dep' : Env}
    (he : evalInOrder c.toSort cache.order
      (baseEnv (plainOf c.pars) (plainOf c.vars) c.data 0) = .ok dep)
    (he' : evalInOrder c'.toSort cache'.order
      (baseEnv (plainOf c'.pars) (plainOf c'.vars) c'.data 0) = .ok dep') :
    ∀ n, dep'.lookup n = dep.lookup n := by
  obtain ⟨d, hholds, hframe, _, _, hev, hperm, hsched⟩ := createCache_consistent hwf h
  obtain ⟨d', hholds', hframe', _, _, hev', _, _⟩ := createCache_consistent hwf' h'
  rw [he] at hev; cases hev
  rw [he'] at hev'; cases hev'
  intro n
  by_cases hp : n ∈ (omKeys c.toSort).flatMap (providedOf c.toSort)
  · have hpo : n ∈ cache.order.flatMap (providedOf c.toSort) :=
      (hperm.flatMap_right _).mem_iff.mpr hp
    refine (holds_unique c.toSort _ _ hsched dep dep' (fun k _ comp hk => hholds k comp hk)
      (fun k _ comp hk => hholds' k comp (by rw [hts k]; exact hk)) ?_ n (Or.inl hpo)).symm
    intro r hr
    have hn1 : r ∉ (omKeys c.toSort).flatMap (providedOf c.toSort) :=
      fun hm => hwf.provFresh r hm hr
    have hn2 : r ∉ (omKeys c'.toSort).flatMap (providedOf c'.toSort) :=
      fun hm => hwf'.provFresh r hm ((hav r).mpr hr)
    rw [hframe r hn1, hframe' r hn2, hbase r]
  · have hp' : n ∉ (omKeys c'.toSort).flatMap (providedOf c'.toSort) :=
      fun hm => hp ((mem_provided_congr hts n).mp hm)
    rw [hframe n hp, hframe' n hp', hbase n]

/-- **initial values are order independent.**  Under the hypotheses of
    `createCache_env_unique`, every variable gets the same initial value from both caches. -/
theorem createCache_init_unique {c c' : Content}
    (hts : ∀ k, c'.toSort.lookup k = c.toSort.lookup k)
    (hbase : ∀ n, (baseEnv (plainOf c'.pars) (plainOf c'.vars) c'.data 0).lookup n =
      (baseEnv (plainOf c.pars) (plainOf c.vars) c.data 0).lookup n)
    (hav : ∀ r, r ∈ c'.available ↔ r ∈ c.available)
    (hwf : WFc c) (hwf' : WFc c') {cache cache' : Cache}
    (h : createCache c = .ok cache) (h' : createCache c' = .ok cache') :
    ∀ kv ∈ cache.init, ∀ kv' ∈ cache'.init, kv.1 = kv'.1 → kv.2 = kv'.2 := by
  obtain ⟨dep, _, _, _, hinit, hev, _, _⟩ := createCache_consistent hwf h
  obtain ⟨dep', _, _, _, hinit', hev', _, _⟩ := createCache_consistent hwf' h'
  have hall := createCache_env_unique hts hbase hav hwf hwf' h h' hev hev'
  intro kv hkv kv' hkv' hname
  have h1 := hinit kv hkv
  have h2 := hinit' kv' hkv'
  rw [hall, ← hname, h1] at h2
  exact Option.some.inj h2

end Mxl
