/- renaming the identifiers of a flat document with a function that is injective on them commutes with the
   document semantics (`docInit`, `docValue`, `docRhs` of Model/C08Doc.lean) -/
import MxlVerif.Lemmas.C17Names
namespace Mxl.C17
open Mxl.C08

/-- `f` is injective on the identifiers that satisfy `D` -/
def InjOn (f : String → String) (D : String → Prop) : Prop := ∀ a b, D a → D b → f a = f b → a = b

theorem lookup_rename {β γ : Type} (f : String → String) (g : β → γ) {D : String → Prop} (hinj : InjOn f D)
    (l : List (String × β)) (n : String) (hk : ∀ kv ∈ l, D kv.1) (hn : D n) :
    (l.map fun kv => (f kv.1, g kv.2)).lookup (f n) = (l.lookup n).map g := by
  induction l with
  | nil => rfl
  | cons kv rest ih =>
    obtain ⟨k, v⟩ := kv
    have hD : D k := hk (k, v) List.mem_cons_self
    have ih' := ih (fun kv h => hk kv (List.mem_cons_of_mem _ h))
    simp only [List.map_cons, List.lookup]
    by_cases e : n = k
    · subst e; simp
    · have h1 : (n == k) = false := by simpa using e
      have h2 : (f n == f k) = false := by
        have : f n ≠ f k := fun h => e (hinj n k hn hD h)
        simpa using this
      simp only [h1, h2]
      exact ih'

theorem lookupLast_rename {β γ : Type} (f : String → String) (g : β → γ) {D : String → Prop} (hinj : InjOn f D)
    (l : List (String × β)) (n : String) (hk : ∀ kv ∈ l, D kv.1) (hn : D n) :
    lookupLast (l.map fun kv => (f kv.1, g kv.2)) (f n) = (lookupLast l n).map g := by
  unfold lookupLast
  rw [← List.map_reverse]
  exact lookup_rename f g hinj l.reverse n (fun kv h => hk kv (List.mem_reverse.mp h)) hn

theorem mem_of_lookupLast {β : Type} {l : List (String × β)} {k : String} {v : β} (h : lookupLast l k = some v) :
    (k, v) ∈ l := List.mem_reverse.mp (mem_of_lookup h)

def mapRxn (f : String → String) (r : SRxn) : SRxn :=
  { id := f r.id, reactants := r.reactants.map (SRef.mapNames f), products := r.products.map (SRef.mapNames f),
    law := mapMath f r.law }

theorem findSRxn_rename (f : String → String) {D : String → Prop} (hinj : InjOn f D) (rxns : List SRxn) (n : String)
    (hk : ∀ r ∈ rxns, D r.id) (hn : D n) :
    findSRxn (rxns.map (mapRxn f)) (f n) = (findSRxn rxns n).map (mapRxn f) := by
  unfold findSRxn
  induction rxns with
  | nil => rfl
  | cons r rest ih =>
    have hD : D r.id := hk r List.mem_cons_self
    have ih' := ih (fun r h => hk r (List.mem_cons_of_mem _ h))
    simp only [List.map_cons, List.find?]
    by_cases e : r.id = n
    · have h1 : (r.id == n) = true := by simpa using e
      have h2 : ((mapRxn f r).id == f n) = true := by simp [mapRxn, e]
      simp [h1, h2]
    · have h1 : (r.id == n) = false := by simpa using e
      have h2 : ((mapRxn f r).id == f n) = false := by
        have : f r.id ≠ f n := fun h => e (hinj _ _ hD hn h)
        simpa [mapRxn] using this
      simp only [h1, h2]
      exact ih'

/-- every identifier the document defines or mentions satisfies `D` -/
structure DocIn (d : SDoc) (D : String → Prop) : Prop where
  params : ∀ kv ∈ d.params, D kv.1
  species : ∀ kv ∈ d.species, D kv.1
  inits : ∀ kv ∈ d.inits, D kv.1 ∧ ∀ n ∈ mathNames kv.2, D n
  rules : ∀ kv ∈ d.rules, D kv.1 ∧ ∀ n ∈ mathNames kv.2, D n
  rxns : ∀ r ∈ d.rxns, D r.id ∧ ∀ n ∈ mathNames r.law, D n

theorem mapNames_eq (f : String → String) (d : SDoc) :
    d.mapNames f =
      { params := d.params.map fun kv => (f kv.1, id kv.2)
        species := d.species.map fun kv => (f kv.1, id kv.2)
        inits := d.inits.map fun kv => (f kv.1, mapMath f kv.2)
        rules := d.rules.map fun kv => (f kv.1, mapMath f kv.2)
        rxns := d.rxns.map (mapRxn f) } := rfl

theorem fuel_mapNames (f : String → String) (d : SDoc) : (d.mapNames f).fuel = d.fuel := by
  simp [mapNames_eq, SDoc.fuel]

theorem docInit_rename (I : Interp) (f : String → String) {D : String → Prop} (hinj : InjOn f D) (d : SDoc)
    (hd : DocIn d D) :
    ∀ (fuel : Nat) (n : String), D n → docInit I (d.mapNames f) fuel (f n) = docInit I d fuel n := by
  intro fuel
  induction fuel with
  | zero => intro n _; rfl
  | succ fuel ih =>
    intro n hn
    have hmath : ∀ m : MathML, (∀ x ∈ mathNames m, D x) →
        evalMath I (docInit I (d.mapNames f) fuel) (mapMath f m) = evalMath I (docInit I d fuel) m :=
      fun m hm => evalMath_rename I f _ _ m (fun x hx => ih x (hm x hx))
    simp only [docInit, mapNames_eq]
    rw [lookupLast_rename f (mapMath f) hinj d.inits n (fun kv h => (hd.inits kv h).1) hn]
    cases hi : lookupLast d.inits n with
    | some m =>
      simp only [Option.map_some]
      rw [← mapNames_eq]
      exact hmath m (hd.inits _ (mem_of_lookupLast hi)).2
    | none =>
      simp only [Option.map_none]
      rw [lookup_rename f id hinj d.species n hd.species hn]
      cases hs : d.species.lookup n with
      | some v => simp
      | none =>
        simp only [Option.map_none]
        rw [lookup_rename f id hinj d.params n hd.params hn]
        cases hp : d.params.lookup n with
        | some v => simp
        | none =>
          simp only [Option.map_none]
          rw [lookupLast_rename f (mapMath f) hinj d.rules n (fun kv h => (hd.rules kv h).1) hn]
          cases hr : lookupLast d.rules n with
          | some m =>
            simp only [Option.map_some]
            rw [← mapNames_eq]
            exact hmath m (hd.rules _ (mem_of_lookupLast hr)).2
          | none =>
            simp only [Option.map_none]
            rw [findSRxn_rename f hinj d.rxns n (fun r h => (hd.rxns r h).1) hn]
            cases hx : findSRxn d.rxns n with
            | none => rfl
            | some r =>
              simp only [Option.map_some, mapRxn]
              rw [← mapNames_eq]
              have hmem : r ∈ d.rxns := List.mem_of_find?_eq_some hx
              exact hmath r.law (hd.rxns r hmem).2

end Mxl.C17
