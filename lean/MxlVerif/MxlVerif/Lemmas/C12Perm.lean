/- C12 — well-formedness and convertibility do not depend on declaration order (core Lean only). -/
import MxlVerif.Lemmas.C12Conv
import MxlVerif.Lemmas.C12Jac
namespace Mxl.C12
open Mxl

/-- the same declarations, possibly in another declaration order (per container) -/
structure SContent.SameDecls (c c' : SContent) : Prop where
  vars : c'.vars.Perm c.vars
  pars : c'.pars.Perm c.pars
  derived : c'.derived.Perm c.derived
  rxns : c'.rxns.Perm c.rxns
  data : c'.data.Perm c.data
  surs : c'.surs = c.surs

theorem keys_perm {β} {a b : List (Name × β)} (h : a.Perm b) : (omKeys a).Perm (omKeys b) := h.map _

theorem wf_perm (c c' : SContent) (h : c.SameDecls c') (hwf : c.wf = true) : c'.wf = true := by
  unfold SContent.wf at hwf ⊢
  simp only [Bool.and_eq_true, decide_eq_true_eq, List.isEmpty_iff, List.all_eq_true] at hwf ⊢
  obtain ⟨⟨hn, hs⟩, hst⟩ := hwf
  refine ⟨⟨?_, by rw [h.surs]; exact hs⟩, ?_⟩
  · have : c'.names.Perm c.names := by
      unfold SContent.names
      exact ((((keys_perm h.vars).append (keys_perm h.pars)).append (keys_perm h.data)).append
        (keys_perm h.derived)).append (keys_perm h.rxns) |>.append (List.Perm.refl _)
    exact this.nodup_iff.mpr hn
  · intro kv hkv; exact hst kv (h.rxns.mem_iff.mp hkv)

theorem plainOf_perm {a b : List (Name × Val)} (h : a.Perm b) : (plainOf a).Perm (plainOf b) :=
  h.filterMap _

theorem symNames_perm (c c' : SContent) (h : c.SameDecls c') (a : Name) :
    a ∈ c'.symNames ↔ a ∈ c.symNames := by
  have hp : (omKeys (plainOf c'.toContent.pars)).Perm (omKeys (plainOf c.toContent.pars)) := by
    apply keys_perm; apply plainOf_perm
    exact h.pars.map _
  unfold SContent.symNames
  simp only [List.mem_append]
  rw [(keys_perm h.vars).mem_iff, hp.mem_iff, (keys_perm h.data).mem_iff, (keys_perm h.derived).mem_iff]

theorem convertible_perm (c c' : SContent) (h : c.SameDecls c') (hc : c.convertible = true) :
    c'.convertible = true := by
  unfold SContent.convertible at hc ⊢
  simp only [Bool.and_eq_true, List.all_eq_true, List.contains_iff_mem, List.any_eq_true] at hc ⊢
  obtain ⟨⟨⟨h1, h2⟩, h3⟩, h4⟩ := hc
  refine ⟨⟨⟨?_, ?_⟩, ?_⟩, ?_⟩
  · intro kv hkv a ha
    exact (symNames_perm c c' h a).mpr (h1 kv (h.derived.mem_iff.mp hkv) a ha)
  · intro kv hkv a ha
    exact (symNames_perm c c' h a).mpr (h2 kv (h.rxns.mem_iff.mp hkv) a ha)
  · intro kv hkv; exact h3 kv (h.rxns.mem_iff.mp hkv)
  · intro v hv
    obtain ⟨kv, hkv, hin⟩ := h4 v ((keys_perm h.vars).mem_iff.mp hv)
    exact ⟨kv, h.rxns.mem_iff.mpr hkv, hin⟩

end Mxl.C12
