/-
C12 — lemmas about `SExpr`: substitution, and the second-order expansion that
characterises the formal derivative `D` (core Lean only; `grind` closes the field
identities over `Rat`).
-/
import MxlVerif.Model.C12Sym
namespace Mxl.C12

theorem evalS_substArgs (ρ : Name → Rat) (es : List SExpr) (b : BExpr) :
    evalS ρ (substArgs es b) = evalB (es.map (evalS ρ)) b := by
  induction b with
  | arg i =>
    simp only [substArgs, evalB, List.getD_eq_getElem?_getD, List.getElem?_map]
    cases es[i]? <;> simp [evalS]
  | _ => simp_all [substArgs, evalS, evalB]

theorem evalS_substSym (ρ : Name → Rat) (σ : Name → SExpr) (e : SExpr) :
    evalS ρ (substSym σ e) = evalS (fun n => evalS ρ (σ n)) e := by
  induction e <;> simp_all [substSym, evalS]

/-- an expression only looks at the symbols it mentions -/
theorem evalS_congr_syms (ρ ρ' : Name → Rat) (e : SExpr)
    (h : ∀ n ∈ freeSyms e, ρ n = ρ' n) : evalS ρ e = evalS ρ' e := by
  induction e with
  | sym n => exact h n (by simp [freeSyms])
  | const q => rfl
  | add a b iha ihb | sub a b iha ihb | mul a b iha ihb | div a b iha ihb =>
    simp only [freeSyms, List.mem_append] at h
    simp only [evalS, iha (fun n hn => h n (Or.inl hn)), ihb (fun n hn => h n (Or.inr hn))]
  | neg a iha => simp only [freeSyms] at h; simp only [evalS, iha h]
  | pow a n iha => simp only [freeSyms] at h; simp only [evalS, iha h]

theorem evalS_dPow (ρ x) (a : SExpr) (n : Nat) :
    evalS ρ (D x (.pow a n)) = dPowV (evalS ρ a) (evalS ρ (D x a)) n := by
  cases n <;> simp [D, evalS, dPowV]

theorem pow_taylor (a0 a1 ra h ah : Rat) (ha : ah = a0 + h * a1 + h * h * ra) (n : Nat) :
    ah ^ n = a0 ^ n + h * dPowV a0 a1 n + h * h * remPow a0 a1 ra h n := by
  induction n with
  | zero => simp [dPowV, remPow]; grind
  | succ n ih =>
    rw [Rat.pow_succ, ih, ha]
    cases n with
    | zero => simp [dPowV, remPow]; grind
    | succ m =>
      simp only [dPowV, remPow, Rat.pow_succ]
      have : ((m + 1 + 1 : Nat) : Rat) = ((m + 1 : Nat) : Rat) + 1 := by simp
      rw [this]
      grind

/-- second-order expansion along the symbol `x`, with the explicit remainder `remV` -/
theorem taylor2 (ρ : Name → Rat) (x : Name) (h : Rat) (e : SExpr)
    (h0 : DenOK ρ e) (h1 : DenOK (upd ρ x (ρ x + h)) e) :
    evalS (upd ρ x (ρ x + h)) e
      = evalS ρ e + h * evalS ρ (D x e) + h * h * remV ρ x h e := by
  induction e with
  | sym n =>
    simp only [evalS, D, remV, upd]
    by_cases hn : n == x
    · simp [hn, evalS]; simp at hn; subst hn; grind
    · simp [hn, evalS]; grind
  | const q => simp [evalS, D, remV]; grind
  | add a b iha ihb =>
    simp only [DenOK] at h0 h1; simp only [evalS, D, remV, iha h0.1 h1.1, ihb h0.2 h1.2]; grind
  | sub a b iha ihb =>
    simp only [DenOK] at h0 h1; simp only [evalS, D, remV, iha h0.1 h1.1, ihb h0.2 h1.2]; grind
  | mul a b iha ihb =>
    simp only [DenOK] at h0 h1; simp only [evalS, D, remV, iha h0.1 h1.1, ihb h0.2 h1.2]; grind
  | neg a iha => simp only [DenOK] at h0 h1; simp only [evalS, D, remV, iha h0 h1]; grind
  | pow a n iha =>
    simp only [DenOK] at h0 h1
    simp only [evalS, remV, evalS_dPow]
    exact pow_taylor _ _ _ _ _ (iha h0 h1) n
  | div a b iha ihb =>
    simp only [DenOK] at h0 h1
    have hb0 := h0.2.2
    have hbh := h1.2.2
    have ea := iha h0.1 h1.1
    have eb := ihb h0.2.1 h1.2.1
    simp only [evalS, D, remV]
    rw [ea]
    generalize evalS (upd ρ x (ρ x + h)) b = bh at *
    generalize evalS ρ a = a0 at *
    generalize evalS ρ b = b0 at *
    generalize evalS ρ (D x a) = a1 at *
    generalize evalS ρ (D x b) = b1 at *
    generalize remV ρ x h a = ra at *
    generalize remV ρ x h b = rb at *
    clear iha ihb h0 h1 ea
    subst eb
    have hne : b0 * b0 * (b0 + h * b1 + h * h * rb) ≠ 0 := by
      intro hz
      rcases Rat.mul_eq_zero.mp hz with h1 | h1
      · rcases Rat.mul_eq_zero.mp h1 with h2 | h2 <;> exact hb0 h2
      · exact hbh h1
    grind

theorem denOKb_iff (ρ : Name → Rat) (e : SExpr) : denOKb ρ e = true ↔ DenOK ρ e := by
  induction e <;> simp_all [denOKb, DenOK, and_assoc]

end Mxl.C12
