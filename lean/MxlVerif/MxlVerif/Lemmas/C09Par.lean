/- helper lemmas for the `parallelise` part of Props/C09 (core Lean only) -/
import MxlVerif.Model.C09Par
import MxlVerif.Lemmas.C09
namespace Mxl.C09

/-- SPECIFICATION vocabulary: `map` with the first exception propagating -/
def mapE {α β : Type} (f : α → Except Err β) : List α → Except Err (List β)
  | [] => .ok []
  | x :: xs =>
    match f x with
    | .error e => .error e
    | .ok y =>
      match mapE f xs with
      | .error e => .error e
      | .ok ys => .ok (y :: ys)

/-- what ONE input yields, given the cache directory as it was before the call: the stored result if there is
    one, else `fn`'s -/
def specRow {α β : Type} (fn : α → Except Err β) (st0 : Option (Store β)) (kv : Label × α) : Except Err (Label × β) :=
  match st0.bind (·.lookup kv.1) with
  | some r => .ok (kv.1, r)
  | none =>
    match fn kv.2 with
    | .ok r => .ok (kv.1, r)
    | .error e => .error e

/-- the inputs that are left when the tasks at the positions `T` time out (input order kept) -/
def keepFrom {γ : Type} (T : List Nat) : Nat → List γ → List γ
  | _, [] => []
  | i, x :: xs => if T.contains i then keepFrom T (i + 1) xs else x :: keepFrom T (i + 1) xs

theorem loadOrRun_fst {α β : Type} (fn : α → Except Err β) (st : Option (Store β)) (kv : Label × α) :
    (loadOrRun fn st kv).1 = specRow fn st kv := by
  unfold loadOrRun specRow
  cases st with
  | none => simp only [Option.bind]; cases fn kv.2 <;> rfl
  | some s =>
    simp only [Option.bind]
    cases s.lookup kv.1 with
    | some r => rfl
    | none => simp only; cases fn kv.2 <;> rfl

theorem zip_range_from {γ δ : Type} (g : Nat → γ → δ) : ∀ (xs : List γ) (i : Nat),
    ((List.range' i xs.length).zip xs).map (fun p => g p.1 p.2) = (List.zipIdx xs i).map (fun p => g p.2 p.1) := by
  intro xs
  induction xs with
  | nil => intro i; rfl
  | cons x rest ih =>
    intro i
    simp only [List.length_cons, List.range'_succ, List.zip_cons_cons, List.map_cons, List.zipIdx_cons]
    rw [ih (i + 1)]

/-- the parent's loop over the pool's outcomes = the specification over the inputs that did not time out -/
theorem drain_outcomes {α β : Type} (T : List Nat) (fn : α → Except Err β) (st0 : Option (Store β)) :
    ∀ (inputs : List (Label × α)) (i : Nat),
      drain (((List.zipIdx inputs i).map fun (p : (Label × α) × Nat) => poolTask T fn st0 p.2 p.1).map (·.1))
        = mapE (specRow fn st0) (keepFrom T i inputs) := by
  intro inputs
  induction inputs with
  | nil => intro i; rfl
  | cons kv rest ih =>
    intro i
    simp only [List.zipIdx_cons, List.map_cons, keepFrom]
    by_cases hT : T.contains i = true
    · have hp : poolTask T fn st0 i kv = (Outcome.timedOut, none) := by unfold poolTask; rw [if_pos hT]
      simp only [hp, hT, if_true, drain]
      exact ih (i + 1)
    · have h1 := loadOrRun_fst fn st0 kv
      have hp : poolTask T fn st0 i kv = asOutcome (loadOrRun fn st0 kv) := by unfold poolTask; rw [if_neg hT]
      simp only [hp, hT, Bool.false_eq_true, if_false, asOutcome]
      generalize loadOrRun fn st0 kv = lr at h1
      obtain ⟨r, w⟩ := lr
      simp only at h1
      subst h1
      simp only [mapE]
      cases specRow fn st0 kv with
      | error e => rfl
      | ok r' =>
        simp only [drain]
        rw [ih (i + 1)]
        cases mapE (specRow fn st0) (keepFrom T (i + 1) rest) <;> rfl

theorem keepFrom_nil {γ : Type} : ∀ (xs : List γ) (i : Nat), keepFrom [] i xs = xs := by
  intro xs
  induction xs with
  | nil => intro i; rfl
  | cons x rest ih => intro i; simp [keepFrom, ih]

theorem keepFrom_sublist {γ : Type} (T : List Nat) : ∀ (xs : List γ) (i : Nat), (keepFrom T i xs).Sublist xs := by
  intro xs
  induction xs with
  | nil => intro i; exact List.Sublist.slnil
  | cons x rest ih =>
    intro i
    simp only [keepFrom]
    split
    · exact List.Sublist.cons _ (ih (i + 1))
    · exact List.Sublist.cons_cons _ (ih (i + 1))

/-- pool mode under ANY schedule: the specification over the inputs that did not time out -/
theorem pool_spec {α β : Type} (s : Sched) (hn : 0 < s.n) (fn : α → Except Err β) (st0 : Option (Store β))
    (inputs : List (Label × α)) :
    drain ((poolOutcomes s fn st0 inputs).map (·.1)) = mapE (specRow fn st0) (keepFrom s.timedOut 0 inputs) := by
  unfold poolOutcomes
  rw [schedMap_eq_map s.assign s.n hn]
  have := zip_range_from (fun (i : Nat) (kv : Label × α) => poolTask s.timedOut fn st0 i kv) inputs 0
  rw [List.range_eq_range']
  rw [this]
  exact drain_outcomes s.timedOut fn st0 inputs 0

/-! ### sequential mode -/

theorem lookup_append_ne {β : Type} (s : Store β) (k k' : Label) (r : β) (h : k' ≠ k) :
    (s ++ [(k, r)]).lookup k' = s.lookup k' := by
  induction s with
  | nil =>
    have : (k' == k) = false := by simpa using h
    simp [List.lookup, this]
  | cons e rest ih =>
    obtain ⟨k0, r0⟩ := e
    simp only [List.cons_append, List.lookup]
    cases (k' == k0) <;> simp [ih]

theorem distinctKeys_cons (k : Label) (rest : List Label) (h : distinctKeys (k :: rest) = true) :
    k ∉ rest ∧ distinctKeys rest = true := by
  simp only [distinctKeys, Bool.and_eq_true, Bool.not_eq_true', List.contains_eq_mem, decide_eq_false_iff_not] at h
  exact h

/-- two directories that agree on the keys still to come -/
def AgreeOn {β : Type} (st st0 : Option (Store β)) (keys : List Label) : Prop :=
  ∀ k, k ∈ keys → st.bind (·.lookup k) = st0.bind (·.lookup k)

theorem specRow_agree {α β : Type} (fn : α → Except Err β) (st st0 : Option (Store β)) (kv : Label × α)
    (h : st.bind (·.lookup kv.1) = st0.bind (·.lookup kv.1)) : specRow fn st kv = specRow fn st0 kv := by
  unfold specRow
  rw [h]

theorem addFile_agree {β : Type} (st st0 : Option (Store β)) (k : Label) (w : Option (Label × β)) (rest : List Label)
    (hw : ∀ e, w = some e → e.1 = k) (hk : k ∉ rest) (h : AgreeOn st st0 (k :: rest)) :
    AgreeOn (addFile st w) st0 rest := by
  intro k' hk'
  have hne : k' ≠ k := fun e => hk (e ▸ hk')
  rw [← h k' (List.mem_cons_of_mem _ hk')]
  cases st with
  | none => cases w <;> rfl
  | some s =>
    cases w with
    | none => rfl
    | some e =>
      obtain ⟨ke, re⟩ := e
      have : ke = k := hw (ke, re) rfl
      subst this
      simp only [addFile, Option.bind]
      exact lookup_append_ne s ke k' re hne

theorem loadOrRun_writes_own_key {α β : Type} (fn : α → Except Err β) (st : Option (Store β)) (kv : Label × α) :
    ∀ e, (loadOrRun fn st kv).2 = some e → e.1 = kv.1 := by
  intro e h
  unfold loadOrRun at h
  cases st with
  | none => simp only at h; cases hf : fn kv.2 <;> rw [hf] at h <;> cases h
  | some s =>
    simp only at h
    cases hl : s.lookup kv.1 with
    | some r => rw [hl] at h; cases h
    | none =>
      rw [hl] at h
      simp only at h
      cases hf : fn kv.2 with
      | error e' => rw [hf] at h; cases h
      | ok r => rw [hf] at h; cases h; rfl

/-- sequential mode: the same specification, as long as no key occurs twice (or there is no cache) -/
theorem seqMap_spec {α β : Type} (fn : α → Except Err β) (st0 : Option (Store β)) :
    ∀ (inputs : List (Label × α)) (st : Option (Store β)),
      distinctKeys (inputs.map (·.1)) = true → AgreeOn st st0 (inputs.map (·.1)) →
      (seqMap fn st inputs).1 = mapE (specRow fn st0) inputs := by
  intro inputs
  induction inputs with
  | nil => intro st _ _; rfl
  | cons kv rest ih =>
    intro st hd ha
    simp only [List.map_cons] at hd ha
    obtain ⟨hk, hd'⟩ := distinctKeys_cons _ _ hd
    unfold seqMap
    simp only [mapE]
    have h1 := loadOrRun_fst fn st kv
    have h2 := loadOrRun_writes_own_key fn st kv
    generalize loadOrRun fn st kv = lr at h1 h2
    obtain ⟨r, w⟩ := lr
    simp only at h1 h2
    rw [← specRow_agree fn st st0 kv (ha kv.1 List.mem_cons_self), ← h1]
    cases r with
    | error e => rfl
    | ok r' =>
      simp only
      have := ih (addFile st w) hd' (addFile_agree st st0 kv.1 w _ h2 hk ha)
      generalize seqMap fn (addFile st w) rest = sm at this
      obtain ⟨x, st'⟩ := sm
      simp only at this
      subst this
      cases mapE (specRow fn st0) rest <;> rfl

/-- without a cache there is nothing to agree on: duplicate keys are fine -/
theorem seqMap_spec_nocache {α β : Type} (fn : α → Except Err β) :
    ∀ (inputs : List (Label × α)), (seqMap fn none inputs).1 = mapE (specRow fn none) inputs := by
  intro inputs
  induction inputs with
  | nil => rfl
  | cons kv rest ih =>
    unfold seqMap
    simp only [mapE]
    have h1 := loadOrRun_fst fn none kv
    have h2 : (loadOrRun fn none kv).2 = none := by
      unfold loadOrRun; simp only; cases fn kv.2 <;> rfl
    generalize loadOrRun fn none kv = lr at h1 h2
    obtain ⟨r, w⟩ := lr
    simp only at h1 h2
    subst h2
    rw [← h1]
    cases r with
    | error e => rfl
    | ok r' =>
      simp only [addFile]
      generalize seqMap fn none rest = sm at ih
      obtain ⟨x, st'⟩ := sm
      simp only at ih
      subst ih
      cases mapE (specRow fn none) rest <;> rfl

theorem mapE_labels {α β : Type} (f : Label × α → Except Err (Label × β)) (hf : ∀ kv r, f kv = .ok r → r.1 = kv.1) :
    ∀ (xs : List (Label × α)) (res : List (Label × β)), mapE f xs = .ok res → res.map (·.1) = xs.map (·.1) := by
  intro xs
  induction xs with
  | nil => intro res h; simp [mapE] at h; subst h; rfl
  | cons x rest ih =>
    intro res h
    unfold mapE at h
    cases hx : f x with
    | error e => rw [hx] at h; cases h
    | ok y =>
      rw [hx] at h
      simp only at h
      cases hr : mapE f rest with
      | error e => rw [hr] at h; cases h
      | ok ys =>
        rw [hr] at h
        cases h
        simp [hf x y hx, ih ys hr]

theorem specRow_label {α β : Type} (fn : α → Except Err β) (st0 : Option (Store β)) (kv : Label × α) (r : Label × β)
    (h : specRow fn st0 kv = .ok r) : r.1 = kv.1 := by
  unfold specRow at h
  split at h
  · cases h; rfl
  · split at h
    · cases h; rfl
    · cases h

theorem mapE_getElem {α β : Type} (f : α → Except Err β) :
    ∀ (xs : List α) (res : List β), mapE f xs = .ok res →
      res.length = xs.length ∧ ∀ (i : Nat) (x : α), xs[i]? = some x → ∃ y, res[i]? = some y ∧ f x = .ok y := by
  intro xs
  induction xs with
  | nil => intro res h; simp [mapE] at h; subst h; exact ⟨rfl, by intro i x hx; simp at hx⟩
  | cons x rest ih =>
    intro res h
    unfold mapE at h
    cases hx : f x with
    | error e => rw [hx] at h; cases h
    | ok y =>
      rw [hx] at h
      simp only at h
      cases hr : mapE f rest with
      | error e => rw [hr] at h; cases h
      | ok ys =>
        rw [hr] at h
        cases h
        obtain ⟨hl, hp⟩ := ih ys hr
        refine ⟨by simp [hl], ?_⟩
        intro i x' hi
        cases i with
        | zero => simp at hi; subst hi; exact ⟨y, by simp, hx⟩
        | succ j => simp at hi; obtain ⟨y', h1, h2⟩ := hp j x' hi; exact ⟨y', by simpa using h1, h2⟩

theorem mapE_eq_mapM {α β : Type} (f : α → Except Err β) : ∀ (xs : List α), mapE f xs = xs.mapM f := by
  intro xs
  induction xs with
  | nil => rfl
  | cons x rest ih =>
    simp only [mapE, List.mapM_cons, bind, Except.bind]
    cases f x with
    | error e => rfl
    | ok y =>
      simp only
      rw [ih]
      cases rest.mapM f <;> rfl

theorem mapE_congr {α β : Type} (f g : α → Except Err β) : ∀ (xs : List α), (∀ x, x ∈ xs → f x = g x) →
    mapE f xs = mapE g xs := by
  intro xs
  induction xs with
  | nil => intro _; rfl
  | cons x rest ih =>
    intro h
    simp only [mapE]
    rw [h x List.mem_cons_self, ih (fun y hy => h y (List.mem_cons_of_mem _ hy))]

/-! ### the scan drivers through `parallelise` -/

theorem seqScanCache_nocache (cf : Bool) (w : Worker) (cell : Nat) :
    ∀ (rows : List (Label × Row)) (h : Heap),
      seqScanCache cf w h cell none rows = (seqScanWith cf w h cell rows, none) := by
  intro rows
  induction rows with
  | nil => intro h; rfl
  | cons lr rest ih =>
    intro h
    unfold seqScanCache seqScanWith
    simp only [Option.bind]
    cases rowTask cf w h cell lr.2 with
    | error e => rfl
    | ok r =>
      obtain ⟨h1, s⟩ := r
      simp only
      rw [ih h1]
      cases seqScanWith cf w h1 cell rest with
      | error e => rfl
      | ok r2 => rfl

theorem specRow_none_eq {α β : Type} (fn : α → Except Err β) (lr : Label × α) :
    specRow fn none lr = match fn lr.2 with | .error e => Except.error e | .ok p => .ok (lr.1, p) := by
  unfold specRow
  simp only [Option.bind]
  cases fn lr.2 <;> rfl

theorem collect_mapE (f : Row → Except Err Pickled) :
    ∀ (xs : List (Label × Row)) (h : Heap),
      collect h (xs.map fun lr => (lr.1, f lr.2)) =
        match mapE (specRow f none) xs with
        | .error e => .error e
        | .ok ps => .ok (placeAll h ps) := by
  intro xs
  induction xs with
  | nil => intro h; simp [collect, placeAll, placeFrom, mapE]
  | cons lr rest ih =>
    intro h
    simp only [List.map_cons, collect, mapE]
    rw [specRow_none_eq]
    cases f lr.2 with
    | error e => rfl
    | ok p =>
      simp only
      rw [ih (h ++ [p.content])]
      cases mapE (specRow f none) rest with
      | error e => rfl
      | ok ps => simp [placeAll, placeFrom]

theorem scanPar_nocache (cf : Bool) (s : Sched) (hn : 0 < s.n) (hT : s.timedOut = []) (w : Worker) (h : Heap) (cell : Nat)
    (rows : List (Label × Row)) :
    (scanPar cf s w h cell rows none).1 = parScanWith cf s.assign s.n w h cell rows := by
  unfold scanPar parScanWith
  cases h.read cell with
  | error e => rfl
  | ok c =>
    simp only
    rw [schedMap_eq_map s.assign s.n hn, collect_mapE (childTask cf w c) rows h]
    unfold parallelise
    simp only [Option.isSome_none, Bool.false_and, Bool.false_eq_true, if_false, if_true]
    rw [pool_spec s hn, hT, keepFrom_nil]
    cases mapE (specRow (childTask cf w c) none) rows <;> rfl

theorem pickleSim_placeOne (h : Heap) (p : Pickled) :
    pickleSim (placeOne h p).1 (placeOne h p).2 = .ok p := by
  simp [pickleSim, placeOne, Heap.read]

theorem agree_tail {β : Type} (st st0 : Option (Store β)) (k : Label) (rest : List Label)
    (h : AgreeOn st st0 (k :: rest)) : AgreeOn st st0 rest :=
  fun k' hk' => h k' (List.mem_cons_of_mem _ hk')

/-- sequential scan WITH a cache, shipped row task: the specification over the directory as it was before the call -/
theorem seqScanCache_spec (w : Worker) (c : Content) (cell : Nat) (st0 : Store Pickled) :
    ∀ (rows : List (Label × Row)) (h : Heap) (st : Store Pickled), h.read cell = .ok c →
      distinctKeys (rows.map (·.1)) = true → AgreeOn (some st) (some st0) (rows.map (·.1)) →
      (seqScanCache true w h cell (some st) rows).1 =
        match mapE (specRow (rowPure w c) (some st0)) rows with
        | .error e => .error e
        | .ok ps => .ok (placeAll h ps) := by
  intro rows
  induction rows with
  | nil => intro h st _ _ _; simp [seqScanCache, mapE, placeAll, placeFrom]
  | cons lr rest ih =>
    intro h st hc hd ha
    simp only [List.map_cons] at hd ha
    obtain ⟨hk, hd'⟩ := distinctKeys_cons _ _ hd
    have hlook : st.lookup lr.1 = st0.lookup lr.1 := by
      have := ha lr.1 List.mem_cons_self
      simpa [Option.bind] using this
    unfold seqScanCache
    simp only [mapE, specRow, Option.bind]
    rw [hlook]
    cases hl : st0.lookup lr.1 with
    | some p =>
      simp only
      have := ih (h ++ [p.content]) st (read_append hc _) hd' (agree_tail _ _ _ _ ha)
      generalize seqScanCache true w (h ++ [p.content]) cell (some st) rest = r at this ⊢
      obtain ⟨x, st'⟩ := r
      simp only at this
      subst this
      cases mapE (specRow (rowPure w c) (some st0)) rest with
      | error e => rfl
      | ok ps => simp [placeAll, placeFrom]
    | none =>
      simp only
      rw [rowTask_copy w h cell lr.2 c hc]
      cases hp : rowPure w c lr.2 with
      | error e => rfl
      | ok p =>
        simp only
        rw [pickleSim_placeOne]
        simp only [placeOne]
        have hag : AgreeOn (some (st ++ [(lr.1, p)])) (some st0) (rest.map (·.1)) := by
          have := addFile_agree (some st) (some st0) lr.1 (some (lr.1, p)) (rest.map (·.1)) (fun e he => by cases he; rfl) hk ha
          simpa [addFile] using this
        have := ih (h ++ [p.content]) (st ++ [(lr.1, p)]) (read_append hc _) hd' hag
        generalize seqScanCache true w (h ++ [p.content]) cell (some (st ++ [(lr.1, p)])) rest = r at this ⊢
        obtain ⟨x, st'⟩ := r
        simp only at this
        subst this
        cases mapE (specRow (rowPure w c) (some st0)) rest with
        | error e => rfl
        | ok ps => simp [placeAll, placeFrom]

theorem scanPar_spec (s : Sched) (hn : 0 < s.n) (hT : s.timedOut = []) (w : Worker) (h : Heap) (cell : Nat) (c : Content)
    (hc : h.read cell = .ok c) (rows : List (Label × Row)) (st0 : Store Pickled)
    (hd : distinctKeys (rows.map (·.1)) = true) :
    (scanPar true s w h cell rows (some st0)).1 =
      match mapE (specRow (rowPure w c) (some st0)) rows with
      | .error e => .error e
      | .ok ps => .ok (placeAll h ps) := by
  unfold scanPar
  rw [hc]
  simp only
  have hf : childTask true w c = rowPure w c := funext (childTask_copy w c)
  rw [hf]
  unfold parallelise
  simp only [hd, Option.isSome_some, Bool.not_true, Bool.and_false, Bool.false_eq_true, if_false, if_true]
  rw [pool_spec s hn, hT, keepFrom_nil]
  cases mapE (specRow (rowPure w c) (some st0)) rows <;> rfl

theorem pureRows_mapE (w : Worker) (c : Content) : ∀ (rows : List (Label × Row)),
    pureRows w c rows = mapE (specRow (rowPure w c) none) rows := by
  intro rows
  induction rows with
  | nil => rfl
  | cons lr rest ih =>
    simp only [pureRows, mapE]
    rw [specRow_none_eq, ih]
    cases rowPure w c lr.2 with
    | error e => rfl
    | ok p => simp only; cases mapE (specRow (rowPure w c) none) rest <;> rfl

/-! ### a filled directory -/

/-- whatever `fn` is: an input whose key the directory holds yields the stored result -/
theorem specRow_hit {α β : Type} (fn : α → Except Err β) (st : Store β) (kv : Label × α) (r : β)
    (h : st.lookup kv.1 = some r) : specRow fn (some st) kv = .ok (kv.1, r) := by
  simp [specRow, Option.bind, h]

theorem lookup_append_self {β : Type} (s : Store β) (k : Label) (r : β) (h : s.lookup k = none) :
    (s ++ [(k, r)]).lookup k = some r := by
  induction s with
  | nil => simp [List.lookup]
  | cons e rest ih =>
    obtain ⟨k0, r0⟩ := e
    simp only [List.cons_append, List.lookup] at h ⊢
    cases hk : (k == k0) with
    | true => rw [hk] at h; cases h
    | false => rw [hk] at h; simp only; exact ih h

theorem lookup_append_some {β : Type} (s t : Store β) (k : Label) (r : β) (h : s.lookup k = some r) :
    (s ++ t).lookup k = some r := by
  induction s with
  | nil => simp [List.lookup] at h
  | cons e rest ih =>
    obtain ⟨k0, r0⟩ := e
    simp only [List.cons_append, List.lookup] at h ⊢
    cases hk : (k == k0) with
    | true => rw [hk] at h; simpa using h
    | false => rw [hk] at h; simp only; exact ih h

/-- SEQUENTIAL mode fills the directory: after a call that returned, every returned pair can be looked up -/
theorem seqMap_fills {α β : Type} (fn : α → Except Err β) :
    ∀ (inputs : List (Label × α)) (st : Store β) (res : List (Label × β)) (st' : Option (Store β)),
      seqMap fn (some st) inputs = (.ok res, st') →
      ∃ s', st' = some s' ∧ (∀ k r, st.lookup k = some r → s'.lookup k = some r) ∧
        (distinctKeys (inputs.map (·.1)) = true → ∀ kr, kr ∈ res → s'.lookup kr.1 = some kr.2) := by
  intro inputs
  induction inputs with
  | nil =>
    intro st res st' h
    simp only [seqMap, Prod.mk.injEq, Except.ok.injEq] at h
    obtain ⟨h1, h2⟩ := h
    subst h1 h2
    exact ⟨st, rfl, fun _ _ h => h, fun _ kr hkr => by cases hkr⟩
  | cons kv rest ih =>
    intro st res st' h
    unfold seqMap at h
    have h1 := loadOrRun_fst fn (some st) kv
    have hw := loadOrRun_writes_own_key fn (some st) kv
    -- what the call wrote
    have hwr : ∀ r, (loadOrRun fn (some st) kv).1 = .ok r →
        (∃ s1, addFile (some st) (loadOrRun fn (some st) kv).2 = some s1 ∧ s1.lookup kv.1 = some r.2 ∧ r.1 = kv.1 ∧
          ∀ k r', st.lookup k = some r' → s1.lookup k = some r') := by
      intro r hr
      unfold loadOrRun at hr ⊢
      simp only at hr ⊢
      cases hl : st.lookup kv.1 with
      | some r0 =>
        rw [hl] at hr
        simp only [Except.ok.injEq] at hr ⊢
        subst hr
        exact ⟨st, rfl, hl, rfl, fun _ _ h => h⟩
      | none =>
        rw [hl] at hr
        simp only at hr ⊢
        cases hf : fn kv.2 with
        | error e => rw [hf] at hr; simp at hr
        | ok r1 =>
          rw [hf] at hr
          simp only [Except.ok.injEq] at hr ⊢
          subst hr
          exact ⟨st ++ [(kv.1, r1)], rfl, lookup_append_self st kv.1 r1 hl, rfl,
            fun k r' h => lookup_append_some st _ k r' h⟩
    generalize loadOrRun fn (some st) kv = lr at h h1 hw hwr
    obtain ⟨x, w⟩ := lr
    cases x with
    | error e => simp at h
    | ok r =>
      simp only at h hwr
      obtain ⟨s1, hs1, hl1, hr1, hmono1⟩ := hwr r rfl
      rw [hs1] at h
      generalize hsm : seqMap fn (some s1) rest = sm at h
      obtain ⟨y, st2⟩ := sm
      cases y with
      | error e => simp at h
      | ok rs =>
        simp only [Prod.mk.injEq, Except.ok.injEq] at h
        obtain ⟨hres, hst⟩ := h
        subst hres hst
        obtain ⟨s', hs', hmono, hall⟩ := ih s1 rs st2 hsm
        refine ⟨s', hs', fun k r' hk => hmono k r' (hmono1 k r' hk), ?_⟩
        intro hd kr hkr
        simp only [List.map_cons] at hd
        obtain ⟨_, hd'⟩ := distinctKeys_cons _ _ hd
        cases hkr with
        | head => rw [hr1]; exact hmono kv.1 r.2 hl1
        | tail _ hm => exact hall hd' kr hm

theorem mapE_of_pointwise {α β : Type} (f : α → Except Err β) :
    ∀ (xs : List α) (res : List β), res.length = xs.length →
      (∀ (i : Nat) (x : α), xs[i]? = some x → ∃ y, res[i]? = some y ∧ f x = .ok y) → mapE f xs = .ok res := by
  intro xs
  induction xs with
  | nil => intro res hl _; cases res with | nil => rfl | cons _ _ => simp at hl
  | cons x rest ih =>
    intro res hl hp
    cases res with
    | nil => simp at hl
    | cons y ys =>
      obtain ⟨y', h1, h2⟩ := hp 0 x (by simp)
      simp at h1
      subst h1
      simp only [mapE, h2]
      rw [ih ys (by simpa using hl) (fun i x' hi => by
        obtain ⟨y'', h3, h4⟩ := hp (i + 1) x' (by simpa using hi)
        exact ⟨y'', by simpa using h3, h4⟩)]

/-- a directory that a sequential call over these inputs has filled answers ANY later call over the same inputs — either
    mode, any schedule, any function (it is never called) — with the first call's results -/
theorem warm_cache_loads {α β : Type} (fn fn' : α → Except Err β) (inputs : List (Label × α)) (st : Store β)
    (res : List (Label × β)) (st' : Option (Store β)) (hd : distinctKeys (inputs.map (·.1)) = true)
    (h : seqMap fn (some st) inputs = (.ok res, st')) :
    mapE (specRow fn' st') inputs = .ok res := by
  obtain ⟨s', hs', _, hall⟩ := seqMap_fills fn inputs st res st' h
  subst hs'
  have hspec : mapE (specRow fn (some st)) inputs = .ok res := by
    rw [← seqMap_spec fn (some st) inputs (some st) hd (fun _ _ => rfl), h]
  obtain ⟨hlen, hpt⟩ := mapE_getElem _ inputs res hspec
  apply mapE_of_pointwise _ inputs res hlen
  intro i kv hi
  obtain ⟨r, hr1, hr2⟩ := hpt i kv hi
  refine ⟨r, hr1, ?_⟩
  have hlab : r.1 = kv.1 := specRow_label fn (some st) kv r hr2
  have hmem : r ∈ res := List.mem_of_getElem? hr1
  have := hall hd r hmem
  rw [hlab] at this
  rw [specRow_hit fn' s' kv r.2 this, ← hlab]

/-- the child of the shipped code IS the nested independent runs: every inner row on its own copy of the sample's model -/
theorem mcScanChild_char (w : Worker) (inner : List (Label × Row)) (c : Content) (sample : Row) :
    mcScanChild true w inner c sample =
      match applyRow c sample with
      | .error e => .error e
      | .ok c1 =>
        match pureRows w c1 inner with
        | .error e => .error e
        | .ok ps => .ok (placeAll [c, c1] ps) := by
  unfold mcScanChild
  cases applyRow c sample with
  | error e => rfl
  | ok c1 =>
    simp only [if_true]
    have := seqScan_char w c1 1 inner [c, c1] (by rfl)
    unfold seqScan at this
    rw [shippedCopyFirst_eq] at this
    exact this

theorem placeFrom_shift (k : Nat) : ∀ (ps : List (Label × Pickled)) (n : Nat),
    (placeFrom n ps).map (fun ls => (ls.1, { ls.2 with cell := ls.2.cell + k })) = placeFrom (n + k) ps := by
  intro ps
  induction ps with
  | nil => intro n; rfl
  | cons p rest ih =>
    intro n
    simp only [placeFrom, List.map_cons]
    rw [ih (n + 1)]
    have : n + 1 + k = n + k + 1 := by omega
    rw [this]

open Mxl.Generated.C09 in
theorem protoSteps_eq (steps : Nat) : ∀ (proto : Protocol) (t0 : Rat),
    protoSteps linspace steps t0 (proto.map (·.1)) = protoIndex steps t0 false proto := by
  intro proto
  induction proto with
  | nil => intro t0; rfl
  | cons s rest ih =>
    intro t0
    simp only [List.map_cons, protoSteps, protoIndex, protoPoints, protoDrop, ih s.1]
    rfl

end Mxl.C09
