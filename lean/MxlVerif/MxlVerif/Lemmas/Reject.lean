/-
A rejected dependency graph is rejected at every public entry point, with the error of `_sort_dependencies`.
-/
import MxlVerif.Lemmas.PermInvariant
namespace Mxl

/-- a rejected graph is rejected by every entry point with the same error: no numbers -/
theorem queries_reject {c : Content} {e : Err} (h : createCache c = .error e) :
    getInit c = .error e ∧ getParameterValues c = .error e ∧ getClasses c = .error e ∧
    (∀ vars t, getArgs c vars t = .error e) ∧ (∀ vars t, getFluxes c vars t = .error e) ∧
    (∀ vars t, getRhsQ c vars t = .error e) ∧ (∀ t xs, callRhs c t xs = .error e) ∧
    (∀ vars t, getStoich c vars t = .error e) ∧
    (∀ vars t f, getArgsSel c vars t f = .error e) := by
  refine ⟨?_, ?_, ?_, ?_, ?_, ?_, ?_, ?_, ?_⟩ <;> intros <;>
    simp [getInit, getParameterValues, getClasses, getArgs, getFluxes, getRhsQ, callRhs, getStoich,
      getArgsSel, h, bind, Except.bind]

/-- the missing-dependency error of `_create_cache` lists, per offending component in declaration
    order, exactly the names it requires that nothing provides -/
theorem createCache_missing_exact {c : Content} (hn : WFnames c)
    (hmiss : Incomplete c.available c.deps) :
    createCache c = .error (.missing
      (c.deps.filterMap fun d =>
        if ready (allAvailable c.available c.deps) d then none
        else some (d.name, missingOf (allAvailable c.available c.deps) d))) := by
  rw [createCache_error_iff hn]
  have hnd : (c.deps.map (·.name)).Nodup := by rw [deps_eq, depsOf_names]; exact hn.keysNodup
  have hns := notSolvable_eq_filterMap c.available c.deps hnd
  obtain ⟨d, hd, r, hr, hnot⟩ := hmiss
  have hne : (c.deps.filterMap fun d =>
        if ready (allAvailable c.available c.deps) d then none
        else some (d.name, missingOf (allAvailable c.available c.deps) d)) ≠ [] := by
    intro hnil
    have hmem : (d.name, missingOf (allAvailable c.available c.deps) d) ∈
        c.deps.filterMap (fun d => if ready (allAvailable c.available c.deps) d then none
          else some (d.name, missingOf (allAvailable c.available c.deps) d)) := by
      refine List.mem_filterMap.mpr ⟨d, hd, ?_⟩
      have : ready (allAvailable c.available c.deps) d = false :=
        (ready_false_iff _ d).mpr ⟨r, hr, hnot⟩
      simp [this]
    rw [hnil] at hmem; cases hmem
  unfold sortDeps checkSortable
  rw [hns]
  cases hh : (c.deps.filterMap fun d =>
        if ready (allAvailable c.available c.deps) d then none
        else some (d.name, missingOf (allAvailable c.available c.deps) d)) with
  | nil => exact absurd hh hne
  | cons x xs => simp [bind, Except.bind]

end Mxl
