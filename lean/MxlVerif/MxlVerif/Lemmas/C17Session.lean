/- helper lemmas for Model/C17Session.lean: dictionary assignment, one `read` preserves what earlier reads left -/
import MxlVerif.Model.C17Session
namespace Mxl.C17
open Mxl.C17.GenSession

theorem lookup_filter_ne (l : List (String × String)) (k k' : String) (h : k' ≠ k) :
    (l.filter (fun kv => kv.1 != k)).lookup k' = l.lookup k' := by
  induction l with
  | nil => rfl
  | cons kv rest ih =>
    by_cases hk : kv.1 = k
    · have hne : (k' == k) = false := beq_false_of_ne h
      simp [List.filter, hk, List.lookup, hne, ih]
    · have hk' : (kv.1 != k) = true := by simpa using hk
      simp only [List.filter, hk', List.lookup]
      cases hb : (k' == kv.1) with
      | true => rfl
      | false => exact ih

theorem lookup_setKey_self (l : List (String × String)) (k v : String) : (setKey l k v).lookup k = some v := by
  simp [setKey, List.lookup]

theorem lookup_setKey_ne (l : List (String × String)) (k v k' : String) (h : k' ≠ k) :
    (setKey l k v).lookup k' = l.lookup k' := by
  have hne : (k' == k) = false := beq_false_of_ne h
  simp only [setKey, List.lookup, hne]
  exact lookup_filter_ne l k k' h

theorem outName_eq (d : ReadIn) : outName d = moduleName d.stem d.digest := by
  simp [outName, moduleNameParts, moduleName, String.append_assoc]

/-- what `read` of `b` leaves under the name `n` -/
theorem readDoc_frame (s : Session) (b : ReadIn) (n : String) (h : n ≠ outName b) :
    sourceOf (readDoc s b).1 n = sourceOf s n ∧ loadedOf (readDoc s b).1 n = loadedOf s n := by
  simp only [readDoc, sourceOf, loadedOf]
  exact ⟨lookup_setKey_ne _ _ _ _ h, lookup_setKey_ne _ _ _ _ h⟩

theorem readDoc_own (s : Session) (b : ReadIn) :
    (readDoc s b).2 = outName b ∧ sourceOf (readDoc s b).1 (outName b) = some b.code ∧
    loadedOf (readDoc s b).1 (outName b) = some b.code := by
  simp [readDoc, sourceOf, loadedOf, lookup_setKey_self]

theorem readAll_preserves (a : ReadIn) (n : String) :
    ∀ (bs : List ReadIn) (s : Session), (∀ b ∈ bs, outName b = n → b.code = a.code) →
      sourceOf s n = some a.code → loadedOf s n = some a.code →
      sourceOf (readAll s bs).1 n = some a.code ∧ loadedOf (readAll s bs).1 n = some a.code := by
  intro bs
  induction bs with
  | nil => intro s _ h1 h2; exact ⟨h1, h2⟩
  | cons b rest ih =>
    intro s hb h1 h2
    simp only [readAll]
    apply ih
    · intro b' hb'; exact hb b' (List.mem_cons_of_mem _ hb')
    · by_cases hn : n = outName b
      · have := (readDoc_own s b).2.1
        rw [hn, this, hb b (List.mem_cons_self ..) hn.symm]
      · rw [(readDoc_frame s b n hn).1]; exact h1
    · by_cases hn : n = outName b
      · have := (readDoc_own s b).2.2
        rw [hn, this, hb b (List.mem_cons_self ..) hn.symm]
      · rw [(readDoc_frame s b n hn).2]; exact h2

theorem readAll_handles : ∀ (ds : List ReadIn) (s : Session), (readAll s ds).2 = ds.map outName := by
  intro ds
  induction ds with
  | nil => intro s; rfl
  | cons d rest ih => intro s; simp only [readAll, List.map, ih]; rw [(readDoc_own s d).1]

end Mxl.C17
