/-
The derivative vector does not depend on declaration order (as a map variable ↦ derivative).
-/
import MxlVerif.Lemmas.PermArgs
import MxlVerif.Props.C01Main
namespace Mxl

theorem stoichSum_congr {env env' : Env} (h : ∀ n, env'.lookup n = env.lookup n) (x flux : Name) :
    ∀ st, stoichSum env' x flux st = stoichSum env x flux st := by
  intro st
  induction st with
  | nil => rfl
  | cons e r ih =>
    obtain ⟨cpd, coef⟩ := e
    have hv : valOf env' flux = valOf env flux := by simp [valOf, h]
    have hc : coefVal env' coef = coefVal env coef := by
      cases coef with
      | num q => rfl
      | dyn f => exact coefOf_congr f (fun a _ => h a)
    simp only [stoichSum, ih, hv, hc]

theorem totalOf_congr {env env' : Env} (h : ∀ n, env'.lookup n = env.lookup n) (x : Name) :
    ∀ l, totalOf env' x l = totalOf env x l := by
  intro l
  induction l with
  | nil => rfl
  | cons e r ih =>
    obtain ⟨flux, st⟩ := e
    simp only [totalOf, ih, stoichSum_congr h]

theorem totalOf_perm (env : Env) (x : Name) {l l' : List (Name × List (Name × Coef))}
    (hp : l'.Perm l) : totalOf env x l' = totalOf env x l := by
  induction hp with
  | nil => rfl
  | cons e _ ih => obtain ⟨flux, st⟩ := e; simp only [totalOf, ih]
  | swap a b l =>
    obtain ⟨f1, s1⟩ := a; obtain ⟨f2, s2⟩ := b
    simp only [totalOf]
    grind
  | trans _ _ ih1 ih2 => rw [ih1, ih2]

theorem SameContent.allStoich_perm {c c' : Content} (h : SameContent c' c) :
    c'.allStoich.Perm c.allStoich := by
  unfold Content.allStoich
  exact (h.rxns.map _).append (h.surs.flatMap_right _)

theorem lookup_zip_map (keys : List Name) (f : Name → Rat) (x : Name) :
    (keys.zip (keys.map f)).lookup x = if x ∈ keys then some (f x) else none := by
  induction keys with
  | nil => simp
  | cons k ks ih =>
    simp only [List.map_cons, List.zip_cons_cons, List.lookup_cons, List.mem_cons]
    by_cases hx : x = k
    · subst hx; simp
    · have : (x == k) = false := by simpa using hx
      simp [this, hx, ih]

/-- **the derivatives do not depend on declaration order.**  The same state (as a map) and time
    give, for a well-named content and any re-declaration of it in another order, the same
    derivative for every variable. -/
theorem callRhs_perm_invariant {c c' : Content} (hn : WFnames c) (hsame : SameContent c' c)
    (hflux : (omKeys c.allStoich).Nodup)
    (hcpd : ∀ flux s, (flux, s) ∈ c.allStoich → (omKeys s).Nodup)
    {t : Rat} {xs xs' d d' : List Rat}
    (hstate : ∀ k, ((omKeys c'.vars).zip xs').lookup k = ((omKeys c.vars).zip xs).lookup k)
    (h : callRhs c t xs = .ok d) (h' : callRhs c' t xs' = .ok d') :
    ∀ x, ((omKeys c'.vars).zip d').lookup x = ((omKeys c.vars).zip d).lookup x := by
  have hn' := hsame.wf hn
  have hperm := hsame.allStoich_perm
  have hflux' : (omKeys c'.allStoich).Nodup := (omKeys_perm hperm).nodup_iff.mpr hflux
  have hcpd' : ∀ flux s, (flux, s) ∈ c'.allStoich → (omKeys s).Nodup :=
    fun flux s hm => hcpd flux s (hperm.mem_iff.mp hm)
  obtain ⟨cache, env, hc, he, hd, _⟩ := C01.C01_rhs_is_Nv hn hflux hcpd h
  obtain ⟨cache', env', hc', he', hd', _⟩ := C01.C01_rhs_is_Nv hn' hflux' hcpd' h'
  have hvn : cache.varNames = omKeys c.vars := by
    obtain ⟨_, _, _, _, _, _, _, _, _, _, _, hcache⟩ := createCache_ok hc; rw [hcache]
  have hvn' : cache'.varNames = omKeys c'.vars := by
    obtain ⟨_, _, _, _, _, _, _, _, _, _, _, hcache⟩ := createCache_ok hc'; rw [hcache]
  have hlen : xs.length = (omKeys c.vars).length := by
    unfold callRhs at h
    simp only [hc, bind, Except.bind] at h
    by_cases hne : (xs.length != cache.varNames.length) = true
    · simp [hne] at h
    · rw [← hvn]; simpa using hne
  have hlen' : xs'.length = (omKeys c'.vars).length := by
    unfold callRhs at h'
    simp only [hc', bind, Except.bind] at h'
    by_cases hne : (xs'.length != cache'.varNames.length) = true
    · simp [hne] at h'
    · rw [← hvn']; simpa using hne
  rw [hvn] at he; rw [hvn'] at he'
  obtain ⟨cache'', hc'', _, hpars, hdyn, _⟩ := createCache_perm_invariant hn hsame hc
  rw [hc'] at hc''; cases hc''
  have henv := getArgsEnv_perm_invariant hn hsame hc hc' hpars hdyn _ _
    (zip_keys _ _ hlen) (zip_keys _ _ hlen') hstate t he he'
  intro x
  rw [hd, hd', lookup_zip_map, lookup_zip_map]
  have hmem : x ∈ omKeys c'.vars ↔ x ∈ omKeys c.vars := (omKeys_perm hsame.vars).mem_iff
  by_cases hx : x ∈ omKeys c.vars
  · rw [if_pos hx, if_pos (hmem.mpr hx), totalOf_congr henv, totalOf_perm env x hperm]
  · rw [if_neg hx, if_neg (fun hm => hx (hmem.mp hm))]

end Mxl
