/- C12 — alignment of the compiled Jacobian's arguments (core Lean only). -/
import MxlVerif.Lemmas.C12Main
namespace Mxl.C12
open Mxl

theorem zip_keys_vals {β} (l : List (Name × β)) : (omKeys l).zip (l.map (·.2)) = l := by
  induction l with
  | nil => rfl
  | cons kv l ih => simp [omKeys] at ih ⊢; exact ih

theorem jacArgs_inv (sc : SContent) (vn pn : List Name) (pv : List Rat)
    (h : jacArgs sc = .ok (vn, pn, pv)) :
    ∃ cache, createCache sc.toContent = .ok cache ∧ vn = cache.varNames ∧
      pn = omKeys cache.basePars ∧ pv = cache.basePars.map (·.2) := by
  unfold jacArgs at h
  cases hc : createCache sc.toContent with
  | error err => simp [hc, bind, Except.bind] at h
  | ok cache =>
    simp [hc, bind, Except.bind, pure, Except.pure] at h
    exact ⟨cache, rfl, h.1.symm, h.2.1.symm, h.2.2.symm⟩

theorem cache_facts (sc : SContent) (cache : Cache) (h : createCache sc.toContent = .ok cache) :
    cache.varNames = omKeys sc.vars ∧ cache.basePars = plainOf sc.toContent.pars := by
  obtain ⟨_, _, _, _, _, _, _, _, _, _, _, _, _, _, _, hc⟩ := createCache_inv _ _ h
  rw [hc]; exact ⟨keys_vars sc, rfl⟩

/-- the compiled Jacobian reads every variable and parameter symbol at the value that
    `symEnv` (the environment of `eqs_sound`) gives it -/
theorem lamEnv_aligned (sc : SContent) (hwf : sc.wf = true) (cache : Cache)
    (hc : createCache sc.toContent = .ok cache) (J : List (List SExpr)) (t : Rat) (xs : List Rat)
    (n : Name) (hn : n ∈ cache.varNames ++ omKeys cache.basePars) :
    lamEnv { varNames := cache.varNames, parNames := omKeys cache.basePars, jac := J } t xs
        (cache.basePars.map (·.2)) n
      = symEnv sc cache xs n := by
  have w := wf_facts sc hwf
  obtain ⟨hVar, hBase⟩ := cache_facts sc cache hc
  have hbN : (omKeys cache.basePars).Nodup := by
    rw [hBase]; exact nodup_keys_plainOf _ (by rw [keys_pars]; exact w.pN)
  have hsub : ∀ k, k ∈ omKeys cache.basePars → k ∈ omKeys sc.pars := by
    intro k hk; rw [hBase] at hk
    have := mem_keys_plainOf _ _ hk; rwa [keys_pars] at this
  unfold lamEnv symEnv symEnvL
  simp only [zip_keys_vals]
  rw [List.lookup_append, List.lookup_append, List.lookup_append, List.lookup_append]
  rcases List.mem_append.mp hn with hv | hp
  · rw [hVar] at hv
    have h1 : cache.basePars.reverse.lookup n = none :=
      lookup_reverse_none _ _ (fun hk => w.v_p n hv (hsub n hk))
    have h2 : sc.data.reverse.lookup n = none := lookup_reverse_none _ _ (w.v_data n hv)
    have h3 : [("time", t)].lookup n = none := by
      rw [lookup_cons_eq]
      have : n ≠ "time" := by rintro rfl; exact w.time_v hv
      simp [this]
    rw [h1, h2, h3]
  · have hpp := hsub n hp
    obtain ⟨v, hv⟩ := lookup_isSome_of_mem_keys _ _ hp
    have h1 : cache.basePars.reverse.lookup n = some v := by rw [lookup_reverse _ _ hbN]; exact hv
    have h2 : sc.data.reverse.lookup n = none := lookup_reverse_none _ _ (w.p_data n hpp)
    have h3 : (cache.varNames.zip xs).reverse.lookup n = none :=
      lookup_reverse_none _ _ (fun hz => w.v_p n (hVar ▸ mem_keys_zip _ xs n hz) hpp)
    rw [h1, h2, h3]; simp

end Mxl.C12
