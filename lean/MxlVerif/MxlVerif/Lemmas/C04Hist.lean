/-
C04: helper lemmas about the last call of a history (used by Props/C04.lean).
-/
import MxlVerif.Lemmas.C04Spec
namespace Mxl.C04

/-- state of the implementation machine after a history on a fresh `Simulator` -/
def after {σ} (S : Sys σ) (p : Pars) (y0 : σ) (ops : List Op) : Sim σ := (run S (Sim.init p y0) ops).1
/-- state of the specification machine after the same history -/
def specAfter {σ} (S : Sys σ) (p : Pars) (y0 : σ) (ops : List Op) : Spec σ :=
  (Spec.run S (Spec.init p y0) ops).1

theorem run_snoc {σ} (S : Sys σ) : ∀ (ops : List Op) (s : Sim σ) (op : Op),
    (run S s (ops ++ [op])).1 = (step S (run S s ops).1 op).1 ∧
    (run S s (ops ++ [op])).2 = (run S s ops).2 ++ [(step S (run S s ops).1 op).2]
  | [], _, _ => ⟨rfl, rfl⟩
  | o :: rest, s, op => by
    have := run_snoc S rest (step S s o).1 op
    simp only [List.cons_append, run]
    exact ⟨this.1, by rw [this.2]⟩

theorem specRun_snoc {σ} (S : Sys σ) : ∀ (ops : List Op) (a : Spec σ) (op : Op),
    (Spec.run S a (ops ++ [op])).1 = (Spec.step S (Spec.run S a ops).1 op).1
  | [], _, _ => rfl
  | o :: rest, a, op => by
    simp only [List.cons_append, Spec.run]
    exact specRun_snoc S rest _ op

/-- everything the theorems below need about the last call of a history -/
theorem last_step {σ} (S : Sys σ) (p : Pars) (y0 : σ) (ops : List Op) (op : Op) :
    Rel (after S p y0 ops) (specAfter S p y0 ops) ∧
      (step S (after S p y0 ops) op).2 = (Spec.step S (specAfter S p y0 ops) op).2 ∧
      Rel (after S p y0 (ops ++ [op])) (specAfter S p y0 (ops ++ [op])) ∧
      after S p y0 (ops ++ [op]) = (step S (after S p y0 ops) op).1 ∧
      specAfter S p y0 (ops ++ [op]) = (Spec.step S (specAfter S p y0 ops) op).1 ∧
      Spec.Axis (specAfter S p y0 ops) := by
  have r := (run_refines S ops _ _ (Rel.init p y0)).2
  obtain ⟨he, r'⟩ := step_refines S r op
  have hax := Spec.run_axis S ops _ (Spec.Axis.init p y0)
  refine ⟨r, he, ?_, (run_snoc S ops _ _).1, specRun_snoc S ops _ _, hax⟩
  unfold after specAfter
  rw [(run_snoc S ops _ _).1, specRun_snoc]
  exact r'

theorem live_of {σ} {s : Sim σ} {a : Spec σ} (r : Rel s a) (hl : s.errors = 0) :
    a.failed = false := by
  have := r.failed; rw [hl] at this; simpa using this.symm

theorem now_of {σ} {s : Sim σ} {a : Spec σ} (r : Rel s a) (T : Rat)
    (hT : reached? s.segs = .ok T) : T = a.now := by
  have := r.reached; rw [hT] at this; cases this; rfl

/-- an accepted simulate / time course on a live simulator is a continuation of the spec machine -/
theorem continues_of {σ} (S : Sys σ) (a : Spec σ) (op : Op)
    (hop : (∃ t n, op = .simulate t n) ∨ (∃ pts, op = .timeCourse pts))
    (hf : a.failed = false) (hout : (Spec.step S a op).2 = none) :
    ∃ g' tEnd, Continues S a g' tEnd (Spec.step S a op).1 ∧
      (∀ pts, op = .timeCourse pts → ∀ t, t ∈ g' ↔ (t ∈ pts ∧ a.now < t)) ∧
      (∀ t n, op = .simulate t n → tEnd = t) := by
  rcases hop with ⟨t, n, rfl⟩ | ⟨pts, rfl⟩
  · rcases Spec.simulate_cases S a t n with ⟨_, h | h⟩ | ⟨g', _, _, c⟩
    · exact absurd hout h
    · rw [hf] at h; cases h
    · exact ⟨g', t, c, (by intro pts h; cases h), (by intro t' n' h; cases h; rfl)⟩
  · rcases Spec.timeCourse_cases S a pts with ⟨_, h | h⟩ | ⟨g', last, _, _, hmem, c⟩
    · exact absurd hout h
    · rw [hf] at h; cases h
    · exact ⟨g', last, c, (by intro pts' h; cases h; exact hmem), (by intro t' n' h; cases h)⟩

theorem parsUpdate_err (p : Pars) (kvs : Upd) (e : Exc) (h : (parsUpdate p kvs).2 = some e) : (parsUpdate p kvs).1 = p := by
  unfold parsUpdate at h ⊢
  split <;> simp_all


/-! ### `scaledValues` -/

theorem scaledValues_some (p : Pars) : ∀ (kvs u : Upd), scaledValues p kvs = some u →
    u.length = kvs.length ∧
    ∀ i (h : i < kvs.length) (h' : i < u.length), u[i].1 = kvs[i].1 ∧
      ∃ v, p.lookup kvs[i].1 = some v ∧ u[i].2 = v * kvs[i].2
  | [], u, h => by
    simp only [scaledValues, Option.some.injEq] at h
    subst h
    exact ⟨rfl, fun i h => by simp at h⟩
  | (k, f) :: rest, u, h => by
    simp only [scaledValues] at h
    cases hl : p.lookup k with
    | none => simp [hl] at h
    | some v =>
      simp only [hl] at h
      cases hr : scaledValues p rest with
      | none => simp [hr] at h
      | some r =>
        simp only [hr, Option.some.injEq] at h
        subst h
        obtain ⟨hlen, hall⟩ := scaledValues_some p rest r hr
        refine ⟨by simp [hlen], ?_⟩
        intro i hi hi'
        cases i with
        | zero => exact ⟨rfl, v, hl, rfl⟩
        | succ i =>
          simp only [List.getElem_cons_succ]
          exact hall i (by simpa using hi) (by simpa using hi')

theorem scaledValues_none (p : Pars) : ∀ (kvs : Upd), scaledValues p kvs = none →
    ∃ kf ∈ kvs, p.lookup kf.1 = none
  | [], h => by simp [scaledValues] at h
  | (k, f) :: rest, h => by
    simp only [scaledValues] at h
    cases hl : p.lookup k with
    | none => exact ⟨(k, f), by simp, hl⟩
    | some v =>
      simp only [hl] at h
      cases hr : scaledValues p rest with
      | none =>
        obtain ⟨kf, hm, hk⟩ := scaledValues_none p rest hr
        exact ⟨kf, List.mem_cons_of_mem _ hm, hk⟩
      | some r => simp [hr] at h

end Mxl.C04
