/-
C10 helper lemmas, part 5: the lazily filled argument tables refine the pointwise
specification; the state invariant of a `Simulation` object.
-/
import MxlVerif.Lemmas.C10Norm
import MxlVerif.Lemmas.C10Cache
namespace Mxl.C10

theorem All₂.comp {α β γ} {R : α → β → Prop} {S : β → γ → Prop} {l : List α} {m : List β}
    {n : List γ} (h1 : All₂ R l m) (h2 : All₂ S m n) :
    All₂ (fun a c => ∃ b, R a b ∧ S b c) l n := by
  induction h1 generalizing n with
  | nil => cases h2; exact .nil
  | cons hab _ ih =>
    cases h2 with
    | cons hbc hrest => exact .cons ⟨_, hab, hbc⟩ (ih hrest)

theorem All₂.map_fst_eq {α β γ} {R : α → β → Prop} {l : List α} {m : List β}
    (f : α → γ) (g : β → γ) (h : All₂ R l m) (hr : ∀ a b, R a b → f a = g b) :
    l.map f = m.map g := by
  induction h with
  | nil => rfl
  | cons hab _ ih => simp [hr _ _ hab, ih]

/-- the per-row function the specification maps over a segment -/
def specRowFn (c : Content) (r : Rat × Row) : Except Err (Rat × Row) :=
  match pointRow c r.1 r.2 with
  | .error e => .error e
  | .ok row => .ok (r.1, row)

theorem specSegArgs_eq (m0 : Content) (tbl : Table) (p : Pars) :
    specSegArgs m0 tbl p =
      match withPars m0 p with
      | .error e => .error e
      | .ok c => mapE (specRowFn c) tbl := rfl

/-- `get_args_time_course` on rows with distinct times is the pointwise row function
    mapped over the rows -/
theorem argsTimeCourse_spec {c : Content} {tbl a : Table} (hn : (tbl.map (·.1)).Nodup)
    (h : argsTimeCourse c tbl = .ok a) : mapE (specRowFn c) tbl = .ok a := by
  unfold argsTimeCourse at h
  split at h
  · cases h
  · rename_i cache hc
    split at h
    · cases h
    · rename_i rows hrows
      simp only at h
      split at h
      · cases h
      · have h1 := (mapE_ok_iff _ _ _).1 hrows
        have htimes : tbl.map (·.1) = rows.map (·.1) := by
          apply h1.map_fst_eq
          intro r o hro
          split at hro
          · cases hro
          · cases hro; rfl
        rw [byTime_nodup rows (htimes ▸ hn)] at h
        have h2 := (mapE_ok_iff _ _ _).1 h
        apply (mapE_ok_iff _ _ _).2
        apply (h1.comp h2).mono
        intro r o ⟨b, hb, ho⟩
        unfold specRowFn pointRow
        rw [hc]
        simp only
        split at hb
        · cases hb
        · rename_i env henv
          cases hb
          exact ho

/-- what the theorems assume about a result object and the model content `m0` it was
    made from: every snapshot lists exactly the plain parameters, times are distinct
    within a segment -/
structure WF (res : Res) (m0 : Content) : Prop where
  covers : ∀ p ∈ res.rawPars, Covers m0 p
  plainOnly : ∀ p ∈ res.rawPars, PlainOnly m0 p
  nodup : ∀ tbl ∈ res.rawVars, (tbl.map (·.1)).Nodup

theorem computeLoop_spec {m0 : Content} :
    ∀ (tabs : List Table) (ps : List Pars) (c : Content) (T : List Table) (c' : Content),
      PlainEq m0 c → (∀ p ∈ ps, Covers m0 p) → (∀ p ∈ ps, PlainOnly m0 p) →
      (∀ tbl ∈ tabs, (tbl.map (·.1)).Nodup) →
      computeLoop c tabs ps = .ok (T, c') →
      zipWithE (specSegArgs m0) tabs ps = .ok T ∧ PlainEq m0 c' := by
  intro tabs
  induction tabs with
  | nil =>
    intro ps c T c' hc _ _ _ h
    cases ps with
    | nil => simp [computeLoop] at h; obtain ⟨rfl, rfl⟩ := h; exact ⟨rfl, hc⟩
    | cons p ps => simp [computeLoop] at h
  | cons tbl ts ih =>
    intro ps c T c' hc hcov hpo hnd h
    cases ps with
    | nil => simp [computeLoop] at h
    | cons p ps =>
      unfold computeLoop at h
      split at h
      · cases h
      · rename_i c1 hw
        split at h
        · cases h
        · rename_i a ha
          split at h
          · cases h
          · rename_i rest c2 hrest
            cases h
            have hc1 : PlainEq m0 c1 := withPars_plainEq (hpo p (by simp)) hc hw
            have hw0 : withPars m0 p = .ok c1 := by
              rw [← withPars_absorb hc (hcov p (by simp))]; exact hw
            obtain ⟨hz, hc2⟩ := ih ps c1 rest c' hc1
              (fun q hq => hcov q (by simp [hq])) (fun q hq => hpo q (by simp [hq]))
              (fun t ht => hnd t (by simp [ht])) hrest
            refine ⟨?_, hc2⟩
            unfold zipWithE
            rw [specSegArgs_eq, hw0]
            simp only
            rw [argsTimeCourse_spec (hnd tbl (by simp)) ha]
            simp only
            rw [hz]

/-- the invariant of a `Simulation` object whose shared model was created from content
    `m0` and has since only had numbers written into its plain parameters: the memo cell is
    empty or holds the specified tables -/
structure Inv (res : Res) (m0 : Content) (st : St) : Prop where
  model : PlainEq m0 st.model
  memo : st.memo = [] ∨ specAllArgs res m0 = .ok st.memo

theorem Inv.fresh (res : Res) (m0 : Content) : Inv res m0 { model := m0, memo := [] } :=
  ⟨PlainEq.refl m0, .inl rfl⟩

theorem computeArgs_spec {res : Res} {m0 : Content} {st st1 : St} {T : List Table}
    (wf : WF res m0) (hi : Inv res m0 st) (h : computeArgs res st = .ok (T, st1)) :
    specAllArgs res m0 = .ok T ∧ Inv res m0 st1 ∧ st1.memo = T ∧ st1.model = st.model := by
  unfold computeArgs at h
  split at h
  · rename_i hne
    cases h
    rcases hi.memo with hm | hm
    · simp [hm] at hne
    · exact ⟨hm, hi, rfl, rfl⟩
  · split at h
    · cases h
    · rename_i tabs c hl
      cases h
      obtain ⟨hz, _⟩ := computeLoop_spec res.rawVars res.rawPars st.model T c hi.model
        wf.covers wf.plainOnly wf.nodup hl
      exact ⟨hz, ⟨hi.model, .inr hz⟩, rfl, rfl⟩

/-- changing the model only: the invariant survives any numeric update of plain parameters -/
theorem Inv.setPars {res : Res} {m0 : Content} {st : St} {p : Pars} {c : Content}
    (hi : Inv res m0 st) (hp : PlainOnly m0 p) (hw : withPars st.model p = .ok c) :
    Inv res m0 { st with model := c } :=
  ⟨withPars_plainEq hp hi.model hw, hi.memo⟩

theorem selectData_spec {m0 c : Content} {f : Flags} {T sel : List Table} {k0 : Cache}
    (hm0 : createCache m0 = .ok k0) (hc : PlainEq m0 c) (h : selectData c f T = .ok sel) :
    ∃ names, selectNames m0 f = .ok names ∧ mapE (selectTable names) T = .ok sel := by
  unfold selectData at h
  split at h
  · cases h
  · rename_i names hn
    have : ∃ n0, selectNames m0 f = .ok n0 := by
      unfold selectNames
      split
      · rw [hm0]; exact ⟨_, rfl⟩
      · exact ⟨_, rfl⟩
    obtain ⟨n0, hn0⟩ := this
    have := selectNames_plainEq hc f hn0 hn
    subst this
    exact ⟨_, hn0, h⟩

theorem adjust_spec {tabs : List Table} {n : Norm} {cc : Bool} {v : View}
    (h : adjust tabs n cc = .ok v) : specAdjust tabs n cc = .ok v := by
  unfold adjust at h
  split at h
  · cases h
  · rename_i tabs' hn
    unfold specAdjust
    rw [normSplit_spec hn]
    exact h

theorem getArgsV_spec {res : Res} {m0 : Content} {k0 : Cache} {st st' : St} {f : Flags}
    {n : Norm} {cc : Bool} {v : View}
    (wf : WF res m0) (hm0 : createCache m0 = .ok k0) (hi : Inv res m0 st)
    (h : getArgsV res f n cc st = .ok (v, st')) :
    specArgsView res m0 f n cc = .ok v ∧ Inv res m0 st' ∧ st'.model = st.model := by
  unfold getArgsV at h
  split at h
  · cases h
  · rename_i T st1 hca
    obtain ⟨hs, hi1, _, hmod⟩ := computeArgs_spec wf hi hca
    split at h
    · cases h
    · rename_i sel hsel
      split at h
      · cases h
      · rename_i v' hv
        cases h
        obtain ⟨names, hn, hm⟩ := selectData_spec hm0 hi1.model hsel
        refine ⟨?_, hi1, hmod⟩
        unfold specArgsView specSelected
        rw [hs]; simp only
        rw [hn]; simp only
        rw [hm]; simp only
        exact adjust_spec hv

end Mxl.C10
