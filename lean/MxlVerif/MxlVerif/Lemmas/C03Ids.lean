/-
C03 — the name-space invariant: `_ids` holds exactly the declared names (as a multiset), no name twice, never
"time"; every public mutator keeps it, and a rejected mutator (singular, composite or plural) leaves content and ids untouched.
The generated table enters through `table_add_order`, `table_remove_order`, `table_*_checks`,
`table_remove_variable_first`, `table_plural_checks`, `table_scale_parameters_delegates`.
-/
import MxlVerif.Lemmas.C03Cache
namespace Mxl.C03
open Mxl

@[simp] theorem omKeys_nil {β} : omKeys ([] : List (Name × β)) = [] := rfl
@[simp] theorem omKeys_cons {β} (a : Name × β) (m) : omKeys (a :: m) = a.1 :: omKeys m := rfl
@[simp] theorem omKeys_append {β} (a b : List (Name × β)) : omKeys (a ++ b) = omKeys a ++ omKeys b := by
  simp [omKeys]

theorem omKeys_omInsert_of_mem {β} (m : List (Name × β)) (k : Name) (v : β)
    (h : k ∈ omKeys m) : omKeys (omInsert m k v) = omKeys m := by
  induction m with
  | nil => simp at h
  | cons a rest ih =>
    simp only [omInsert]
    by_cases h1 : a.1 = k
    · simp [h1]
    · have h2 : (a.1 == k) = false := by simpa using h1
      simp only [h2]
      simp at h
      rcases h with h | h
      · exact absurd h.symm h1
      · simp [ih h]

theorem omKeys_omInsert_of_not_mem {β} (m : List (Name × β)) (k : Name) (v : β)
    (h : k ∉ omKeys m) : omKeys (omInsert m k v) = omKeys m ++ [k] := by
  induction m with
  | nil => simp [omInsert]
  | cons a rest ih =>
    simp at h
    simp only [omInsert]
    have h1 : (a.1 == k) = false := by simpa using (Ne.symm h.1)
    simp [h1, ih h.2]

theorem count_omKeys_omErase {β} (m : List (Name × β)) (k a : Name) :
    (omKeys (omErase m k)).count a = if a = k then 0 else (omKeys m).count a := by
  induction m with
  | nil => simp [omErase]
  | cons x rest ih =>
    simp only [omErase] at *
    by_cases h1 : x.1 = k
    · simp [h1, ih, List.count_cons]
      split
      · rfl
      · rename_i h2; simp [Ne.symm h2]
    · have : (x.1 != k) = true := by simpa using h1
      simp [this, ih, List.count_cons]
      split
      · rename_i h2; subst h2; simp [h1]
      · rfl

theorem count_omKeys_omInsert {β} (m : List (Name × β)) (k a : Name) (v : β) :
    (omKeys (omInsert m k v)).count a =
      (omKeys m).count a + (if a = k ∧ k ∉ omKeys m then 1 else 0) := by
  by_cases h : k ∈ omKeys m
  · simp [omKeys_omInsert_of_mem m k v h, h]
  · by_cases hk : a = k
    · subst hk; simp [omKeys_omInsert_of_not_mem m a v h, h, List.count_append]
    · have : ¬ k = a := fun e => hk e.symm
      simp [omKeys_omInsert_of_not_mem m k v h, hk, this, List.count_append]

/-! ### state-level facts -/

def idc (s : State) (a : Name) : Nat := (omKeys s.ids).count a
def cc (s : State) (a : Name) : Nat := (contentNames s.content).count a

/-- ids are exactly the declared names (as multisets), no name twice, `time` never -/
def Exact (s : State) : Prop :=
  (∀ a, idc s a = cc s a) ∧ (∀ a, idc s a ≤ 1) ∧ idc s "time" = 0

/-- same content and ids (the cache may differ) -/
def Same (s s' : State) : Prop := s'.content = s.content ∧ s'.ids = s.ids

theorem Same.refl (s : State) : Same s s := ⟨rfl, rfl⟩
theorem Same.trans {a b c : State} (h1 : Same a b) (h2 : Same b c) : Same a c :=
  ⟨h2.1.trans h1.1, h2.2.trans h1.2⟩

theorem exact_of_same {s s' : State} (h : Same s s') (hs : Exact s) : Exact s' := by
  obtain ⟨h1, h2⟩ := h
  unfold Exact idc cc at *
  rw [h1, h2]; exact hs

theorem inval_same (m) (s : State) : Same s (inval m s) := by
  unfold inval; split <;> exact ⟨rfl, rfl⟩

structure LensLaw {β} (L : Lens β) : Prop where
  get_set : ∀ c x, L.get (L.set c x) = x
  names : ∀ c x a, (contentNames (L.set c x)).count a + (omKeys (L.get c)).count a
            = (contentNames c).count a + (omKeys x).count a

theorem LensLaw.sub {β} {L : Lens β} (hL : LensLaw L) (c : Content) (a : Name) :
    (omKeys (L.get c)).count a ≤ (contentNames c).count a := by
  have := hL.names c [] a
  simp at this
  omega

theorem varsL_law : LensLaw varsL := by
  constructor
  · intro c x; rfl
  · intro c x a; simp [varsL, contentNames, surOuts, List.count_append]; omega
theorem parsL_law : LensLaw parsL := by
  constructor
  · intro c x; rfl
  · intro c x a; simp [parsL, contentNames, surOuts, List.count_append]; omega
theorem derivedL_law : LensLaw derivedL := by
  constructor
  · intro c x; rfl
  · intro c x a; simp [derivedL, contentNames, surOuts, List.count_append]; omega
theorem readoutsL_law : LensLaw readoutsL := by
  constructor
  · intro c x; rfl
  · intro c x a; simp [readoutsL, contentNames, surOuts, List.count_append]; omega
theorem rxnsL_law : LensLaw rxnsL := by
  constructor
  · intro c x; rfl
  · intro c x a; simp [rxnsL, contentNames, surOuts, List.count_append]; omega
theorem dataL_law : LensLaw dataL := by
  constructor
  · intro c x; rfl
  · intro c x a; simp [dataL, contentNames, surOuts, List.count_append]; omega

/-! ### closed forms of the generic bodies -/

theorem insertId_closed (n k) (s : State) :
    insertId n k s =
      if n = "time" then (s, .error (.keyError "time"))
      else if n ∈ omKeys s.ids then (s, .error (.nameError n))
      else ({ s with ids := s.ids ++ [(n, k)] }, .ok ()) := by
  unfold insertId fail ok
  by_cases h1 : n = "time"
  · simp [h1]
  · by_cases h2 : n ∈ omKeys s.ids <;> simp [h1, h2]

theorem removeId_closed (n) (s : State) :
    removeId n s =
      if n ∈ omKeys s.ids then ({ s with ids := omErase s.ids n }, .ok ())
      else (s, .error (.keyError n)) := by
  unfold removeId fail ok
  by_cases h2 : n ∈ omKeys s.ids <;> simp [h2]

theorem addG_closed {β} {m} (hm : Gen.idOrder m = .idFirst) (L : Lens β) (k n v) (s : State) :
    addG m L k n v s =
      if n = "time" then (s, .error (.keyError "time"))
      else if n ∈ omKeys s.ids then (s, .error (.nameError n))
      else ({ s with ids := s.ids ++ [(n, k)],
                     content := L.set s.content (omInsert (L.get s.content) n v) }, .ok ()) := by
  unfold addG
  rw [hm]
  simp only [insertId_closed]
  by_cases h1 : n = "time"
  · simp [h1, andThen]
  · by_cases h2 : n ∈ omKeys s.ids <;> simp [h1, h2, andThen, putG, ok]

theorem exact_add {β} {L : Lens β} (hL : LensLaw L) {s : State} (hs : Exact s) {n : Name} (k) (v : β)
    (h1 : n ≠ "time") (h2 : n ∉ omKeys s.ids) :
    Exact { s with ids := s.ids ++ [(n, k)],
                   content := L.set s.content (omInsert (L.get s.content) n v) } := by
  obtain ⟨he, hle, ht⟩ := hs
  have hn0 : idc s n = 0 := List.count_eq_zero.mpr h2
  have hnk : n ∉ omKeys (L.get s.content) := by
    intro hmem
    have h3 := List.count_pos_iff.mpr hmem
    have h4 := hL.sub s.content n
    have h5 := he n
    unfold idc cc at *
    omega
  have key : ∀ a, (contentNames (L.set s.content (omInsert (L.get s.content) n v))).count a
      = cc s a + (if a = n then 1 else 0) := by
    intro a
    have h3 := hL.names s.content (omInsert (L.get s.content) n v) a
    rw [count_omKeys_omInsert] at h3
    unfold cc
    by_cases ha : a = n <;> simp [ha, hnk] at h3 ⊢ <;> omega
  have keyi : ∀ a, (omKeys (s.ids ++ [(n, k)])).count a = idc s a + (if a = n then 1 else 0) := by
    intro a
    unfold idc
    by_cases ha : a = n
    · subst ha; simp [List.count_append]
    · have : ¬ n = a := fun e => ha e.symm
      simp [List.count_append, ha, this]
  refine ⟨fun a => ?_, fun a => ?_, ?_⟩
  · show (omKeys (s.ids ++ [(n, k)])).count a = (contentNames _).count a
    rw [key, keyi, he]
  · show (omKeys (s.ids ++ [(n, k)])).count a ≤ 1
    rw [keyi]
    by_cases ha : a = n
    · subst ha; simp [hn0]
    · simp [ha]; exact hle a
  · show (omKeys (s.ids ++ [(n, k)])).count "time" = 0
    rw [keyi]
    have : ¬ "time" = n := fun e => h1 e.symm
    simp [this]; exact ht


theorem mem_ids_of_mem_keys {β} {L : Lens β} (hL : LensLaw L) {s : State} (hs : Exact s) {n : Name}
    (h : n ∈ omKeys (L.get s.content)) : n ∈ omKeys s.ids := by
  have h3 := List.count_pos_iff.mpr h
  have h4 := hL.sub s.content n
  have h5 := hs.1 n
  unfold idc cc at h5
  exact List.count_pos_iff.mp (by omega)

theorem removeG_closed {β} {m} (hm : Gen.idOrder m = .containerFirst) {L : Lens β} (hL : LensLaw L)
    (n) {s : State} (hs : Exact s) :
    removeG m L n s =
      if n ∈ omKeys (L.get s.content) then
        ({ s with ids := omErase s.ids n,
                  content := L.set s.content (omErase (L.get s.content) n) }, .ok ())
      else (s, .error (.keyError n)) := by
  unfold removeG
  rw [hm]
  simp only [popG, fail, ok]
  by_cases h : n ∈ omKeys (L.get s.content)
  · have h2 : n ∈ omKeys s.ids := mem_ids_of_mem_keys hL hs h
    simp [h, andThen, removeId_closed, h2]
  · simp [h, andThen]

theorem exact_remove {β} {L : Lens β} (hL : LensLaw L) {s : State} (hs : Exact s) {n : Name}
    (hmem : n ∈ omKeys (L.get s.content)) :
    Exact { s with ids := omErase s.ids n,
                   content := L.set s.content (omErase (L.get s.content) n) } := by
  obtain ⟨he, hle, ht⟩ := hs
  have key : ∀ a, (contentNames (L.set s.content (omErase (L.get s.content) n))).count a
      = if a = n then cc s a - (omKeys (L.get s.content)).count a else cc s a := by
    intro a
    have h3 := hL.names s.content (omErase (L.get s.content) n) a
    have h4 := hL.sub s.content a
    rw [count_omKeys_omErase] at h3
    unfold cc at *
    by_cases ha : a = n <;> simp [ha] at h3 ⊢ <;> omega
  refine ⟨fun a => ?_, fun a => ?_, ?_⟩
  · show (omKeys (omErase s.ids n)).count a = (contentNames _).count a
    rw [key, count_omKeys_omErase]
    by_cases ha : a = n
    · subst ha
      simp
      -- count in the container is at most, hence exactly, the total count (≤ 1)
      have h4 := hL.sub s.content a
      have h5 := he a
      have h6 := hle a
      unfold idc cc at *
      have := List.count_pos_iff.mpr hmem; omega
    · simp [ha]; exact he a
  · show (omKeys (omErase s.ids n)).count a ≤ 1
    rw [count_omKeys_omErase]
    split
    · omega
    · exact hle a
  · show (omKeys (omErase s.ids n)).count "time" = 0
    rw [count_omKeys_omErase]
    split
    · rfl
    · exact ht


theorem exact_put_mem {β} {L : Lens β} (hL : LensLaw L) {s : State} (hs : Exact s) {n : Name} (v : β)
    (hmem : n ∈ omKeys (L.get s.content)) :
    Exact { s with content := L.set s.content (omInsert (L.get s.content) n v) } := by
  have key : ∀ a, (contentNames (L.set s.content (omInsert (L.get s.content) n v))).count a = cc s a := by
    intro a
    have h3 := hL.names s.content (omInsert (L.get s.content) n v) a
    rw [omKeys_omInsert_of_mem _ _ _ hmem] at h3
    unfold cc; omega
  obtain ⟨he, hle, ht⟩ := hs
  refine ⟨fun a => ?_, hle, ht⟩
  show idc s a = (contentNames _).count a
  rw [key]; exact he a

/-- what each public mutator owes: exactness is kept, and a rejected call leaves content and ids alone -/
def Good (f : State → State × Res) : Prop :=
  ∀ s, Exact s → Exact (f s).1 ∧ ∀ e, (f s).2 = .error e → Same s (f s).1

theorem good_pre_inval (m) {g : State → State × Res} (hg : Good g) : Good (fun s => g (inval m s)) := by
  intro s hs
  have h1 := hg (inval m s) (exact_of_same (inval_same m s) hs)
  exact ⟨h1.1, fun e he => (inval_same m s).trans (h1.2 e he)⟩

theorem addG_good {β} {m} (hm : Gen.idOrder m = .idFirst) {L : Lens β} (hL : LensLaw L) (k n v) :
    Good (addG m L k n v) := by
  intro s hs
  rw [addG_closed hm]
  by_cases h1 : n = "time"
  · simp [h1, hs, Same.refl]
  · by_cases h2 : n ∈ omKeys s.ids
    · simp [h1, h2, hs, Same.refl]
    · simp only [h1, h2, if_false]
      exact ⟨exact_add hL hs k v h1 h2, fun e he => by cases he⟩

theorem removeG_good {β} {m} (hm : Gen.idOrder m = .containerFirst) {L : Lens β} (hL : LensLaw L) (n) :
    Good (removeG m L n) := by
  intro s hs
  rw [removeG_closed hm hL n hs]
  by_cases h : n ∈ omKeys (L.get s.content)
  · simp only [h, if_true]
    exact ⟨exact_remove hL hs h, fun e he => by cases he⟩
  · simp [h, hs, Same.refl]

/-! ### the generated-table obligations for the order of id and container updates -/

theorem table_add_order (m : Gen.Mut)
    (h : m ∈ [Gen.Mut.add_parameter, .add_variable, .add_derived, .add_reaction, .add_readout, .add_data]) :
    Gen.idOrder m = .idFirst := by
  simp at h
  rcases h with h | h | h | h | h | h <;> subst h <;> rfl

theorem table_remove_order (m : Gen.Mut)
    (h : m ∈ [Gen.Mut.remove_parameter, .remove_variable, .remove_derived, .remove_reaction, .remove_readout,
              .remove_data, .remove_surrogate]) :
    Gen.idOrder m = .containerFirst := by
  simp at h
  rcases h with h | h | h | h | h | h | h <;> subst h <;> rfl

theorem table_remove_variable_first : Gen.firstWrite .remove_variable = .container := rfl
theorem table_update_data_checks : Gen.checksBeforeWrites .update_data ≥ 1 := by decide
theorem table_add_surrogate_checks : Gen.checksBeforeWrites .add_surrogate ≥ 1 := by decide
theorem table_update_surrogate_checks : Gen.checksBeforeWrites .update_surrogate ≥ 2 := by decide
theorem table_make_parameter_dynamic_checks : Gen.checksBeforeWrites .make_parameter_dynamic ≥ 1 := by decide

theorem addParameter_good (n v) : Good (addParameter n v) :=
  good_pre_inval _ (addG_good (table_add_order _ (by simp)) parsL_law _ n v)
theorem addVariable_good (n v) : Good (addVariable n v) :=
  good_pre_inval _ (addG_good (table_add_order _ (by simp)) varsL_law _ n v)
theorem addDerived_good (n v) : Good (addDerived n v) :=
  good_pre_inval _ (addG_good (table_add_order _ (by simp)) derivedL_law _ n v)
theorem addReaction_good (n v) : Good (addReaction n v) :=
  good_pre_inval _ (addG_good (table_add_order _ (by simp)) rxnsL_law _ n v)
theorem addReadout_good (n v) : Good (addReadout n v) :=
  good_pre_inval _ (addG_good (table_add_order _ (by simp)) readoutsL_law _ n v)
theorem addData_good (n v) : Good (addData n v) :=
  good_pre_inval _ (addG_good (table_add_order _ (by simp)) dataL_law _ n v)
theorem removeParameter_good (n) : Good (removeParameter n) :=
  good_pre_inval _ (removeG_good (table_remove_order _ (by simp)) parsL_law n)
theorem removeDerived_good (n) : Good (removeDerived n) :=
  good_pre_inval _ (removeG_good (table_remove_order _ (by simp)) derivedL_law n)
theorem removeReaction_good (n) : Good (removeReaction n) :=
  good_pre_inval _ (removeG_good (table_remove_order _ (by simp)) rxnsL_law n)
theorem removeReadout_good (n) : Good (removeReadout n) :=
  good_pre_inval _ (removeG_good (table_remove_order _ (by simp)) readoutsL_law n)
theorem removeData_good (n) : Good (removeData n) :=
  good_pre_inval _ (removeG_good (table_remove_order _ (by simp)) dataL_law n)


theorem good_guard_put {β} {L : Lens β} (hL : LensLaw L) (n : Name) (v : β) (s : State) (hs : Exact s)
    (hmem : n ∈ omKeys (L.get s.content)) :
    Exact (putG L n v s).1 ∧ ∀ e, (putG L n v s).2 = .error e → Same s (putG L n v s).1 := by
  simp only [putG, ok]
  exact ⟨exact_put_mem hL hs v hmem, fun e he => by cases he⟩

theorem updateParameter_good (n v) : Good (updateParameter n v) := by
  intro s hs
  have hs0 := exact_of_same (inval_same .update_parameter s) hs
  have hsame := inval_same .update_parameter s
  unfold updateParameter
  simp only
  by_cases h : n ∈ omKeys (inval .update_parameter s).content.pars
  · simp only [List.contains_iff_mem, h, if_true]
    cases v with
    | none => exact ⟨hs0, fun e he => by cases he⟩
    | some v =>
      have := good_guard_put parsL_law n v _ hs0 h
      exact ⟨this.1, fun e he => hsame.trans (this.2 e he)⟩
  · simp only [List.contains_iff_mem, h, if_false, fail]
    exact ⟨hs0, fun e _ => hsame⟩

theorem updateVariable_good (n v) : Good (updateVariable n v) := by
  intro s hs
  have hs0 := exact_of_same (inval_same .update_variable s) hs
  have hsame := inval_same .update_variable s
  unfold updateVariable
  simp only
  by_cases h : n ∈ omKeys (inval .update_variable s).content.vars
  · simp only [List.contains_iff_mem, h, if_true]
    have := good_guard_put varsL_law n v _ hs0 h
    exact ⟨this.1, fun e he => hsame.trans (this.2 e he)⟩
  · simp only [List.contains_iff_mem, h, if_false, fail]
    exact ⟨hs0, fun e _ => hsame⟩

theorem mem_omKeys_of_lookup {β} {m : List (Name × β)} {n : Name} {v : β}
    (h : m.lookup n = some v) : n ∈ omKeys m := by
  induction m with
  | nil => simp at h
  | cons a rest ih =>
    obtain ⟨k, x⟩ := a
    simp only [List.lookup] at h
    by_cases hk : n = k
    · subst hk; simp
    · have : (n == k) = false := by simpa using hk
      simp only [this] at h
      simp [ih h]

theorem updateDerived_good (n fn args) : Good (updateDerived n fn args) := by
  intro s hs
  have hs0 := exact_of_same (inval_same .update_derived s) hs
  have hsame := inval_same .update_derived s
  unfold updateDerived
  simp only
  split
  · exact ⟨hs0, fun e _ => hsame⟩
  · rename_i d hd
    have := good_guard_put derivedL_law n { fn := fn.getD d.fn, args := args.getD d.args } _ hs0
      (mem_omKeys_of_lookup hd)
    exact ⟨this.1, fun e he => hsame.trans (this.2 e he)⟩

theorem updateReaction_good (n fn args st) : Good (updateReaction n fn args st) := by
  intro s hs
  have hs0 := exact_of_same (inval_same .update_reaction s) hs
  have hsame := inval_same .update_reaction s
  unfold updateReaction
  simp only
  split
  · exact ⟨hs0, fun e _ => hsame⟩
  · rename_i r hr
    have := good_guard_put rxnsL_law n
      { rate := { fn := fn.getD r.rate.fn, args := args.getD r.rate.args }, stoich := st.getD r.stoich } _ hs0
      (mem_omKeys_of_lookup hr)
    exact ⟨this.1, fun e he => hsame.trans (this.2 e he)⟩

theorem updateData_good (n v) : Good (updateData n v) := by
  intro s hs
  have hs0 := exact_of_same (inval_same .update_data s) hs
  have hsame := inval_same .update_data s
  unfold updateData
  simp only
  have hc : decide (Gen.checksBeforeWrites .update_data ≥ 1) = true := by
    simpa using table_update_data_checks
  by_cases h : n ∈ omKeys (inval .update_data s).content.data
  · rw [if_neg (by simp [h])]
    have := good_guard_put dataL_law n v _ hs0 h
    exact ⟨this.1, fun e he => hsame.trans (this.2 e he)⟩
  · rw [if_pos (by simp [hc, h])]
    exact ⟨hs0, fun e _ => hsame⟩


theorem contentNames_stripStoich (n : Name) (c : Content) :
    contentNames (stripStoich n c) = contentNames c := by
  simp [contentNames, stripStoich, surOuts, omKeys, List.map_map, List.flatMap_map, Function.comp_def]

theorem exact_strip {s : State} (hs : Exact s) (n : Name) :
    Exact { s with content := stripStoich n s.content } := by
  obtain ⟨he, hle, ht⟩ := hs
  refine ⟨fun a => ?_, hle, ht⟩
  show idc s a = (contentNames (stripStoich n s.content)).count a
  rw [contentNames_stripStoich]; exact he a

/-- closed form of `remove_variable` under the table facts -/
theorem removeVariable_closed (n rs) {s : State} (hs : Exact s) :
    removeVariable n rs s =
      let s0 := inval .remove_variable s
      if n ∈ omKeys s0.content.vars then
        let s1 : State := { s0 with ids := omErase s0.ids n,
                                    content := { s0.content with vars := omErase s0.content.vars n } }
        (if rs then { s1 with content := stripStoich n s1.content } else s1, .ok ())
      else (s0, .error (.keyError n)) := by
  have hs0 := exact_of_same (inval_same .remove_variable s) hs
  unfold removeVariable
  simp only [table_remove_variable_first]
  rw [removeG_closed (table_remove_order _ (by simp)) varsL_law n hs0]
  by_cases h : n ∈ omKeys (inval .remove_variable s).content.vars
  · have h' : n ∈ omKeys (varsL.get (inval .remove_variable s).content) := h
    simp only [h, h', if_true, andThen, stripStep, ok]
    rfl
  · have h' : ¬ n ∈ omKeys (varsL.get (inval .remove_variable s).content) := h
    simp only [h, h', if_false, andThen]

theorem removeVariable_good (n rs) : Good (removeVariable n rs) := by
  intro s hs
  have hs0 := exact_of_same (inval_same .remove_variable s) hs
  rw [removeVariable_closed n rs hs]
  simp only
  by_cases h : n ∈ omKeys (inval .remove_variable s).content.vars
  · simp only [h, if_true]
    have h1 : Exact _ := exact_remove varsL_law hs0 (n := n) h
    refine ⟨?_, fun e he => by cases he⟩
    cases rs
    · exact h1
    · exact exact_strip h1 n
  · simp only [h, if_false]
    exact ⟨hs0, fun e _ => inval_same _ s⟩

/-! ### plural forms keep exactness (but may stop half way) -/

theorem foldOps_exact {α} (f : α → State → State × Res) (hf : ∀ a, Good (f a)) (l : List α) :
    ∀ s, Exact s → Exact (foldOps f l s).1 := by
  induction l with
  | nil => intro s hs; simpa [foldOps, ok] using hs
  | cons a rest ih =>
    intro s hs
    simp only [foldOps]
    have h1 := (hf a s hs).1
    unfold andThen
    split
    · rename_i s1 heq; rw [heq] at h1; exact ih s1 h1
    · rename_i s1 e heq; rw [heq] at h1; exact h1

/-- if the first element is rejected, a plural form is a no-op -/
theorem foldOps_head_rejected {α} (f : α → State → State × Res) (hf : ∀ a, Good (f a)) (a : α) (rest : List α)
    (s : State) (hs : Exact s) (e : Err) (h : (f a s).2 = .error e) :
    (foldOps f (a :: rest) s).2 = .error e ∧ Same s (foldOps f (a :: rest) s).1 := by
  have h2 := (hf a s hs).2 e h
  simp only [foldOps, andThen]
  split
  · rename_i s1 heq; rw [heq] at h; cases h
  · rename_i s1 e1 heq
    rw [heq] at h h2
    simp at h
    subst h
    exact ⟨rfl, h2⟩


theorem ensureCache_same (s : State) : Same s (ensureCache s).1 := by
  unfold ensureCache
  split
  · exact Same.refl s
  · split <;> exact ⟨rfl, rfl⟩

theorem scaledValue_same (n f) (s : State) : Same s (scaledValue n f s).1 := by
  unfold scaledValue
  split
  · exact Same.refl s
  · exact Same.refl s
  · have h1 := ensureCache_same s
    split
    · rename_i s1 e heq; rw [heq] at h1; exact h1
    · rename_i s1 c heq
      rw [heq] at h1
      split <;> exact h1

theorem scaleParameter_good (n f) : Good (scaleParameter n f) := by
  intro s hs
  have hsame := inval_same .scale_parameter s
  have h1 := scaledValue_same n f (inval .scale_parameter s)
  have hs1 := exact_of_same (hsame.trans h1) hs
  unfold scaleParameter
  simp only
  split
  · rename_i s1 e heq
    rw [heq] at h1 hs1
    exact ⟨hs1, fun e _ => hsame.trans h1⟩
  · rename_i s1 v heq
    rw [heq] at h1 hs1
    have := updateParameter_good n (some (.plain v)) s1 hs1
    exact ⟨this.1, fun e he => (hsame.trans h1).trans (this.2 e he)⟩

theorem omInsert_of_not_mem {β} {m : List (Name × β)} {n : Name} (v : β) (h : n ∉ omKeys m) :
    omInsert m n v = m ++ [(n, v)] := by
  induction m with
  | nil => rfl
  | cons a rest ih =>
    simp [omKeys] at h
    have h1 : (a.1 == n) = false := by simpa using (Ne.symm h.1)
    simp only [omInsert, h1]
    have : n ∉ omKeys rest := by simpa [omKeys] using h.2
    simp [ih this]

theorem count_flatMap_omInsert_mem {β} (f : β → List Name) {m : List (Name × β)} {n : Name} {old : β}
    (new : β) (a : Name) (hl : m.lookup n = some old) :
    ((omInsert m n new).flatMap (fun kv => f kv.2)).count a + (f old).count a
      = (m.flatMap (fun kv => f kv.2)).count a + (f new).count a := by
  induction m with
  | nil => simp at hl
  | cons x rest ih =>
    obtain ⟨k, v⟩ := x
    simp only [List.lookup] at hl
    by_cases hk : n = k
    · subst hk
      simp at hl
      subst hl
      simp [omInsert, List.count_append]
      omega
    · have h1 : (n == k) = false := by simpa using hk
      have h2 : (k == n) = false := by simpa using (Ne.symm hk)
      simp only [h1] at hl
      have := ih hl
      simp only [omInsert, h2, List.flatMap_cons, List.count_append]
      simp only [Bool.false_eq_true, if_false, List.flatMap_cons, List.count_append]
      omega

theorem count_le_flatMap_of_lookup {β} (f : β → List Name) {m : List (Name × β)} {n : Name} {old : β}
    (a : Name) (hl : m.lookup n = some old) :
    (f old).count a ≤ (m.flatMap (fun kv => f kv.2)).count a := by
  induction m with
  | nil => simp at hl
  | cons x rest ih =>
    obtain ⟨k, v⟩ := x
    simp only [List.lookup] at hl
    by_cases hk : n = k
    · subst hk; simp at hl; subst hl; simp [List.count_append]
    · have h1 : (n == k) = false := by simpa using hk
      simp only [h1] at hl
      have := ih hl
      simp [List.count_append]; omega

theorem count_flatMap_omErase {β} (f : β → List Name) {m : List (Name × β)} {n : Name} {old : β}
    (a : Name) (hu : (omKeys m).count n ≤ 1) (hl : m.lookup n = some old) :
    ((omErase m n).flatMap (fun kv => f kv.2)).count a + (f old).count a
      = (m.flatMap (fun kv => f kv.2)).count a := by
  induction m with
  | nil => simp at hl
  | cons x rest ih =>
    obtain ⟨k, v⟩ := x
    simp only [List.lookup] at hl
    by_cases hk : n = k
    · subst hk
      simp at hl
      subst hl
      have hrest : n ∉ omKeys rest := by
        intro hmem
        have h3 := List.count_pos_iff.mpr hmem
        have h4 : (omKeys ((n, v) :: rest)).count n = (omKeys rest).count n + 1 := by
          show (n :: omKeys rest).count n = _
          exact List.count_cons_self
        omega
      have herase : omErase rest n = rest := by
        simp only [omErase]
        apply List.filter_eq_self.mpr
        intro kv hkv
        have : kv.1 ≠ n := by
          intro e
          apply hrest
          simp only [omKeys, List.mem_map]
          exact ⟨kv, hkv, e⟩
        simpa using this
      simp only [omErase] at herase ⊢
      simp [herase, List.count_append]
      omega
    · have h1 : (n == k) = false := by simpa using hk
      have h2 : (k != n) = true := by simpa using (Ne.symm hk)
      simp only [h1] at hl
      have hu' : (omKeys rest).count n ≤ 1 := by
        have h4 : (omKeys ((k, v) :: rest)).count n = (omKeys rest).count n := by
          show (k :: omKeys rest).count n = _
          exact List.count_cons_of_ne (Ne.symm hk)
        omega
      have := ih hu' hl
      simp only [omErase] at this ⊢
      simp [h2, List.count_append]
      omega

/-! ### runs of id insertions / removals -/

theorem checkNewIds_ok_iff (taken l : List Name) :
    checkNewIds taken l = .ok () ↔ (∀ x ∈ l, x ≠ "time" ∧ x ∉ taken) ∧ l.Nodup := by
  induction l generalizing taken with
  | nil => simp [checkNewIds]
  | cons n rest ih =>
    simp only [checkNewIds]
    by_cases h1 : n = "time"
    · simp [h1]
    · by_cases h2 : n ∈ taken
      · simp [h1, h2]
      · simp only [beq_iff_eq, h1, if_false, List.contains_iff_mem, h2]
        rw [ih]
        simp only [List.mem_cons, List.nodup_cons]
        constructor
        · rintro ⟨h3, h4⟩
          refine ⟨?_, ?_, h4⟩
          · intro x hx
            rcases hx with rfl | hx
            · exact ⟨h1, h2⟩
            · exact ⟨(h3 x hx).1, fun hm => (h3 x hx).2 (Or.inr hm)⟩
          · intro hm
            exact (h3 n hm).2 (Or.inl rfl)
        · rintro ⟨h3, h4, h5⟩
          refine ⟨?_, h5⟩
          intro x hx
          refine ⟨(h3 x (Or.inr hx)).1, ?_⟩
          rintro (rfl | hm)
          · exact h4 hx
          · exact (h3 x (Or.inr hx)).2 hm

theorem checkNewIds_error_or_ok (taken l : List Name) :
    checkNewIds taken l = .ok () ∨ ∃ e, checkNewIds taken l = .error e := by
  cases h : checkNewIds taken l with
  | ok u => exact Or.inl rfl
  | error e => exact Or.inr ⟨e, rfl⟩

theorem insertIds_spec (k : Kind) (l : List Name) : ∀ (s : State),
    (∀ x ∈ l, x ≠ "time" ∧ x ∉ omKeys s.ids) → l.Nodup →
    ∃ s', insertIds k l s = (s', .ok ()) ∧ s'.content = s.content ∧
      ∀ a, idc s' a = idc s a + l.count a := by
  induction l with
  | nil => intro s _ _; exact ⟨s, rfl, rfl, fun a => by simp⟩
  | cons n rest ih =>
    intro s h hnd
    have hn := h n (by simp)
    simp only [List.nodup_cons] at hnd
    simp only [insertIds, insertId_closed, hn.1, hn.2, if_false, andThen]
    have hrest : ∀ x ∈ rest, x ≠ "time" ∧ x ∉ omKeys ({ s with ids := s.ids ++ [(n, k)] } : State).ids := by
      intro x hx
      refine ⟨(h x (by simp [hx])).1, ?_⟩
      simp only [omKeys_append, omKeys_cons, omKeys_nil, List.mem_append, List.mem_singleton]
      rintro (hm | rfl)
      · exact (h x (by simp [hx])).2 hm
      · exact hnd.1 hx
    obtain ⟨s', h1, h2, h3⟩ := ih _ hrest hnd.2
    refine ⟨s', h1, h2, fun a => ?_⟩
    rw [h3 a]
    unfold idc
    simp only [omKeys_append, omKeys_cons, omKeys_nil, List.count_append, List.count_cons, List.count_nil]
    by_cases ha : n = a <;> simp [ha] <;> omega

/-- `_insert_id(name, ctx=k0)` followed by the loop over the outputs with `ctx=k1` -/
theorem insertId_insertIds_spec (k0 k1 : Kind) (n : Name) (rest : List Name) (s : State)
    (h : ∀ x ∈ n :: rest, x ≠ "time" ∧ x ∉ omKeys s.ids) (hnd : (n :: rest).Nodup) :
    ∃ s', andThen (insertId n k0 s) (insertIds k1 rest) = (s', .ok ()) ∧ s'.content = s.content ∧
      ∀ a, idc s' a = idc s a + (n :: rest).count a := by
  have hn := h n (by simp)
  simp only [List.nodup_cons] at hnd
  simp only [insertId_closed, hn.1, hn.2, if_false, andThen]
  have hrest : ∀ x ∈ rest, x ≠ "time" ∧ x ∉ omKeys ({ s with ids := s.ids ++ [(n, k0)] } : State).ids := by
    intro x hx
    refine ⟨(h x (by simp [hx])).1, ?_⟩
    simp only [omKeys_append, omKeys_cons, omKeys_nil, List.mem_append, List.mem_singleton]
    rintro (hm | rfl)
    · exact (h x (by simp [hx])).2 hm
    · exact hnd.1 hx
  obtain ⟨s', h1, h2, h3⟩ := insertIds_spec k1 rest _ hrest hnd.2
  refine ⟨s', h1, h2, fun a => ?_⟩
  rw [h3 a]
  unfold idc
  simp only [omKeys_append, omKeys_cons, omKeys_nil, List.count_append, List.count_cons, List.count_nil]
  by_cases ha : n = a <;> simp [ha] <;> omega

theorem removeIds_spec (l : List Name) : ∀ (s : State),
    (∀ x ∈ l, x ∈ omKeys s.ids) → l.Nodup →
    ∃ s', removeIds l s = (s', .ok ()) ∧ s'.content = s.content ∧
      ∀ a, idc s' a = if a ∈ l then 0 else idc s a := by
  induction l with
  | nil => intro s _ _; exact ⟨s, rfl, rfl, fun a => by simp⟩
  | cons n rest ih =>
    intro s h hnd
    have hn := h n (by simp)
    simp only [List.nodup_cons] at hnd
    simp only [removeIds, removeId_closed, hn, if_true, andThen]
    have hrest : ∀ x ∈ rest, x ∈ omKeys ({ s with ids := omErase s.ids n } : State).ids := by
      intro x hx
      have hx1 := h x (by simp [hx])
      have hne : x ≠ n := fun e => hnd.1 (e ▸ hx)
      have := count_omKeys_omErase s.ids n x
      simp only [hne, if_false] at this
      exact List.count_pos_iff.mp (by rw [this]; exact List.count_pos_iff.mpr hx1)
    obtain ⟨s', h1, h2, h3⟩ := ih _ hrest hnd.2
    refine ⟨s', h1, h2, fun a => ?_⟩
    rw [h3 a]
    unfold idc
    simp only [count_omKeys_omErase, List.mem_cons]
    by_cases ha : a = n
    · simp [ha]
    · simp [ha]


/-! ### surrogates -/

theorem names_surs (c : Content) (x : List (Name × Sur)) (a : Name) :
    (contentNames (setSurs c x)).count a + (omKeys c.surs).count a + (surOuts c).count a
      = (contentNames c).count a + (omKeys x).count a + (x.flatMap (fun kv => kv.2.outs)).count a := by
  simp [contentNames, setSurs, surOuts, List.count_append]; omega

theorem andThen_assoc (a : State × Res) (f g : State → State × Res) :
    andThen (andThen a f) g = andThen a (fun s => andThen (f s) g) := by
  obtain ⟨s, r⟩ := a
  cases r with
  | ok u => cases u; rfl
  | error e => rfl

theorem keys_surs_le (s : State) (a : Name) : (omKeys s.content.surs).count a ≤ cc s a := by
  unfold cc contentNames; simp [List.count_append]; omega

theorem surOuts_le (s : State) (a : Name) : (surOuts s.content).count a ≤ cc s a := by
  unfold cc contentNames; simp [List.count_append]; omega

theorem addSurrogate_good (n su) : Good (addSurrogate n su) := by
  intro s hs
  have hsame := inval_same .add_surrogate s
  have hs0 := exact_of_same hsame hs
  unfold addSurrogate
  simp only [table_add_surrogate_checks, if_true]
  generalize hS : inval Gen.Mut.add_surrogate s = s0 at *
  rcases checkNewIds_error_or_ok (omKeys s0.ids) (n :: su.outs) with hc | ⟨e, hc⟩
  · rw [hc]
    simp only
    obtain ⟨hfresh, hnd⟩ := (checkNewIds_ok_iff _ _).mp hc
    obtain ⟨s', h1, h2, h3⟩ := insertId_insertIds_spec (ctxOf .add_surrogate 0) (ctxOf .add_surrogate 1)
      n su.outs s0 hfresh hnd
    have hexp : andThen (insertId n (ctxOf .add_surrogate 0) s0)
        (fun s => andThen (insertIds (ctxOf .add_surrogate 1) su.outs s) (putSur n su))
        = andThen (andThen (insertId n (ctxOf .add_surrogate 0) s0) (insertIds (ctxOf .add_surrogate 1) su.outs))
            (putSur n su) := by
      rw [andThen_assoc]
    rw [hexp, h1]
    simp only [andThen, putSur, ok]
    refine ⟨?_, fun e he => by cases he⟩
    obtain ⟨he, hle, ht⟩ := hs0
    have hn_ids : idc s0 n = 0 := List.count_eq_zero.mpr (hfresh n (by simp)).2
    have hn_surs : n ∉ omKeys s0.content.surs := by
      intro hm
      have h4 := List.count_pos_iff.mpr hm
      have h5 := keys_surs_le s0 n
      have h6 := he n
      omega
    have hcc : ∀ a, (contentNames (setSurs s'.content (omInsert s'.content.surs n su))).count a
        = cc s0 a + (n :: su.outs).count a := by
      intro a
      rw [h2]
      have h4 := names_surs s0.content (omInsert s0.content.surs n su) a
      rw [omInsert_of_not_mem su hn_surs] at h4 ⊢
      simp only [omKeys_append, omKeys_cons, omKeys_nil, List.flatMap_append, List.flatMap_cons,
        List.flatMap_nil, List.append_nil, List.count_append] at h4
      have h5 : (surOuts s0.content).count a
          = (s0.content.surs.flatMap (fun kv => kv.2.outs)).count a := rfl
      unfold cc
      simp only [List.count_cons, List.count_nil] at h4 ⊢
      omega
    refine ⟨fun a => ?_, fun a => ?_, ?_⟩
    · show idc s' a = _
      rw [h3 a, he a]; exact (hcc a).symm
    · show idc s' a ≤ 1
      rw [h3 a, hnd.count]
      by_cases hm : a ∈ n :: su.outs
      · have : idc s0 a = 0 := List.count_eq_zero.mpr (hfresh a hm).2
        simp [hm, this]
      · simp only [hm, if_false]; exact hle a
    · show idc s' "time" = 0
      rw [h3, hnd.count]
      have : "time" ∉ n :: su.outs := fun hm => (hfresh "time" hm).1 rfl
      simp only [this, if_false]; exact ht
  · rw [hc]
    simp only [fail]
    exact ⟨hs0, fun e _ => hsame⟩


theorem old_outs_facts {s0 : State} (hs0 : Exact s0) {n : Name} {old : Sur}
    (hl : s0.content.surs.lookup n = some old) :
    (∀ x ∈ old.outs, x ∈ omKeys s0.ids) ∧ old.outs.Nodup ∧
      ∀ a, old.outs.count a ≤ (surOuts s0.content).count a := by
  obtain ⟨he, hle, _⟩ := hs0
  have hsub : ∀ a, old.outs.count a ≤ (surOuts s0.content).count a := fun a =>
    count_le_flatMap_of_lookup (fun su : Sur => su.outs) a hl
  refine ⟨fun x hx => ?_, ?_, hsub⟩
  · have h1 := List.count_pos_iff.mpr hx
    have h2 := hsub x
    have h3 := surOuts_le s0 x
    have h4 := he x
    exact List.count_pos_iff.mp (by unfold idc at h4; omega)
  · rw [List.nodup_iff_count]
    intro a
    have h2 := hsub a
    have h3 := surOuts_le s0 a
    have h4 := he a
    have h5 := hle a
    omega

theorem updateSurrogate_good (n u) : Good (updateSurrogate n u) := by
  intro s hs
  have hsame := inval_same .update_surrogate s
  have hs0 := exact_of_same hsame hs
  unfold updateSurrogate
  simp only [table_update_surrogate_checks, if_true]
  generalize hS : inval Gen.Mut.update_surrogate s = s0 at *
  split
  · exact ⟨hs0, fun e _ => hsame⟩
  · rename_i old hl
    rcases checkNewIds_error_or_ok ((omKeys s0.ids).filter (fun i => !old.outs.contains i))
      (u.apply old).outs with hc | ⟨e, hc⟩
    · rw [hc]
      simp only
      obtain ⟨hfresh, hnd⟩ := (checkNewIds_ok_iff _ _).mp hc
      obtain ⟨hold_in, hold_nd, hold_sub⟩ := old_outs_facts hs0 hl
      obtain ⟨s1, h1, h1c, h1i⟩ := removeIds_spec old.outs s0 hold_in hold_nd
      have hfresh1 : ∀ x ∈ (u.apply old).outs, x ≠ "time" ∧ x ∉ omKeys s1.ids := by
        intro x hx
        refine ⟨(hfresh x hx).1, fun hm => ?_⟩
        have h2 := List.count_pos_iff.mpr hm
        have h3 := h1i x
        unfold idc at h3
        by_cases ho : x ∈ old.outs
        · simp [ho] at h3; omega
        · simp only [ho, if_false] at h3
          apply (hfresh x hx).2
          refine List.mem_filter.mpr ⟨List.count_pos_iff.mp (by omega), by simpa using ho⟩
      obtain ⟨s2, h2, h2c, h2i⟩ := insertIds_spec (ctxOf .update_surrogate 0) (u.apply old).outs s1 hfresh1 hnd
      rw [h1]
      simp only [andThen]
      rw [h2]
      simp only [putSur, ok]
      refine ⟨?_, fun e he => by cases he⟩
      obtain ⟨he, hle, ht⟩ := hs0
      have hmem : n ∈ omKeys s0.content.surs := mem_omKeys_of_lookup hl
      have hcc : ∀ a, (contentNames (setSurs s2.content (omInsert s2.content.surs n (u.apply old)))).count a
          + old.outs.count a = cc s0 a + (u.apply old).outs.count a := by
        intro a
        rw [h2c, h1c]
        have h4 := names_surs s0.content (omInsert s0.content.surs n (u.apply old)) a
        rw [omKeys_omInsert_of_mem _ _ _ hmem] at h4
        have h5 : ((omInsert s0.content.surs n (u.apply old)).flatMap (fun kv => kv.2.outs)).count a
            + old.outs.count a
            = (s0.content.surs.flatMap (fun kv => kv.2.outs)).count a + (u.apply old).outs.count a :=
          count_flatMap_omInsert_mem (fun su : Sur => su.outs) (u.apply old) a hl
        have h6 : (surOuts s0.content).count a
            = (s0.content.surs.flatMap (fun kv => kv.2.outs)).count a := rfl
        unfold cc
        omega
      have hidc : ∀ a, idc s2 a = (if a ∈ old.outs then 0 else idc s0 a) + (u.apply old).outs.count a := by
        intro a; rw [h2i a, h1i a]
      refine ⟨fun a => ?_, fun a => ?_, ?_⟩
      · show idc s2 a = (contentNames
          (setSurs s2.content (omInsert s2.content.surs n (u.apply old)))).count a
        have h7 := hcc a
        rw [hidc a]
        by_cases ho : a ∈ old.outs
        · have h8 : old.outs.count a = 1 := by rw [hold_nd.count]; simp [ho]
          have h9 := hold_sub a
          have h10 := surOuts_le s0 a
          have h11 := he a
          have h12 := hle a
          simp only [ho, if_true]
          omega
        · have h8 : old.outs.count a = 0 := List.count_eq_zero.mpr ho
          have h11 := he a
          simp only [ho, if_false]
          omega
      · show idc s2 a ≤ 1
        rw [hidc a, hnd.count]
        by_cases hn : a ∈ (u.apply old).outs
        · simp only [hn, if_true]
          by_cases ho : a ∈ old.outs
          · simp [ho]
          · simp only [ho, if_false]
            have : a ∉ omKeys s0.ids := by
              intro hm
              apply (hfresh a hn).2
              simp [List.mem_filter, hm, ho]
            have : idc s0 a = 0 := List.count_eq_zero.mpr this
            omega
        · simp only [hn, if_false]
          by_cases ho : a ∈ old.outs
          · simp [ho]
          · simp only [ho, if_false]; exact hle a
      · show idc s2 "time" = 0
        rw [hidc, hnd.count]
        have hn : "time" ∉ (u.apply old).outs := fun hm => (hfresh "time" hm).1 rfl
        simp only [hn, if_false]
        by_cases ho : "time" ∈ old.outs
        · simp [ho]
        · simp only [ho, if_false]; exact ht
    · rw [hc]
      simp only [fail]
      exact ⟨hs0, fun e _ => hsame⟩


theorem andThen_ok (s : State) (f : State → State × Res) : andThen (s, .ok ()) f = f s := rfl
theorem andThen_err (s : State) (e : Err) (f : State → State × Res) :
    andThen (s, .error e) f = (s, .error e) := rfl

theorem lookup_of_mem_omKeys {β} {m : List (Name × β)} {n : Name} (h : n ∈ omKeys m) :
    ∃ v, m.lookup n = some v := by
  induction m with
  | nil => simp at h
  | cons a rest ih =>
    obtain ⟨k, x⟩ := a
    by_cases hk : n = k
    · subst hk; exact ⟨x, by simp [List.lookup]⟩
    · have h1 : (n == k) = false := by simpa using hk
      simp at h
      rcases h with h | h
      · exact absurd h hk
      · obtain ⟨v, hv⟩ := ih h
        exact ⟨v, by simp [List.lookup, h1, hv]⟩

theorem lookup_none_of_not_mem {β} {m : List (Name × β)} {n : Name} (h : n ∉ omKeys m) :
    m.lookup n = none := by
  cases hl : m.lookup n with
  | none => rfl
  | some v => exact absurd (mem_omKeys_of_lookup hl) h

theorem removeSurrogate_ok_spec (n) {s : State} (hs : Exact s)
    (hmem0 : n ∈ omKeys s.content.surs) :
    ∃ s3, removeSurrogate n s = (s3, .ok ()) ∧ Exact s3 ∧ n ∉ omKeys s3.ids := by
  have hsame := inval_same .remove_surrogate s
  have hs0 := exact_of_same hsame hs
  unfold removeSurrogate
  simp only [table_remove_order .remove_surrogate (by simp)]
  have hmem : n ∈ omKeys (inval Gen.Mut.remove_surrogate s).content.surs := by rw [inval_content]; exact hmem0
  generalize hS : inval Gen.Mut.remove_surrogate s = s0 at *
  obtain ⟨old, hl⟩ := lookup_of_mem_omKeys hmem
  obtain ⟨hold_in, hold_nd, hold_sub⟩ := old_outs_facts hs0 hl
  obtain ⟨he, hle, ht⟩ := hs0
  have hkeys1 : (omKeys s0.content.surs).count n ≥ 1 := List.count_pos_iff.mpr hmem
  have hn_notin : n ∉ old.outs := by
    intro hm
    have h1 := List.count_pos_iff.mpr hm
    have h2 := hold_sub n
    have h3 : (omKeys s0.content.surs).count n + (surOuts s0.content).count n ≤ cc s0 n := by
      unfold cc contentNames; simp [List.count_append]; omega
    have h4 := he n
    have h5 := hle n
    omega
  have hn_ids : n ∈ omKeys s0.ids := by
    have h3 := keys_surs_le s0 n
    have h4 := he n
    exact List.count_pos_iff.mp (by unfold idc at h4; omega)
  simp only [hl, Option.map_some, Option.getD_some, popSur, List.contains_iff_mem, hmem, if_true, ok,
    andThen_ok]
  have hnd : (n :: old.outs).Nodup := List.nodup_cons.mpr ⟨hn_notin, hold_nd⟩
  obtain ⟨s3, h3, h3c, h3i⟩ := removeIds_spec (n :: old.outs)
    ({ s0 with content := setSurs s0.content (omErase s0.content.surs n) } : State)
    (by
      intro x hx
      rcases List.mem_cons.mp hx with rfl | hx
      · exact hn_ids
      · exact hold_in x hx) hnd
  have hexp : andThen (removeId n { s0 with content := setSurs s0.content (omErase s0.content.surs n) })
      (removeIds old.outs)
      = removeIds (n :: old.outs) { s0 with content := setSurs s0.content (omErase s0.content.surs n) } := rfl
  rw [hexp, h3]
  refine ⟨s3, rfl, ?_, ?_⟩
  rotate_left
  · have := h3i n
    simp only [List.mem_cons, true_or, if_true] at this
    exact fun hm => by have := List.count_pos_iff.mpr hm; unfold idc at *; omega
  have hidc : ∀ a, idc s3 a = if a ∈ n :: old.outs then 0 else idc s0 a := h3i
  have hcc : ∀ a, (contentNames s3.content).count a + (if a = n then 1 else 0) + old.outs.count a
      = cc s0 a := by
    intro a
    rw [h3c]
    show (contentNames (setSurs s0.content (omErase s0.content.surs n))).count a + _ + _ = _
    have h4 := names_surs s0.content (omErase s0.content.surs n) a
    rw [count_omKeys_omErase] at h4
    have h5 : ((omErase s0.content.surs n).flatMap (fun kv => kv.2.outs)).count a + old.outs.count a
        = (s0.content.surs.flatMap (fun kv => kv.2.outs)).count a :=
      count_flatMap_omErase (fun su : Sur => su.outs) a
        (by have := keys_surs_le s0 n; have := he n; have := hle n; omega) hl
    have h6 : (surOuts s0.content).count a
        = (s0.content.surs.flatMap (fun kv => kv.2.outs)).count a := rfl
    have h7 := keys_surs_le s0 a
    have h8 := he a
    have h9 := hle a
    unfold cc at *
    by_cases ha : a = n
    · subst ha
      simp only [if_true] at h4 ⊢
      omega
    · simp only [ha, if_false] at h4 ⊢
      omega
  refine ⟨fun a => ?_, fun a => ?_, ?_⟩
  · show idc s3 a = (contentNames s3.content).count a
    have h7 := hcc a
    rw [hidc a]
    have h8 := he a
    have h9 := hle a
    by_cases ha : a = n
    · subst ha
      have : old.outs.count a = 0 := List.count_eq_zero.mpr hn_notin
      simp only [List.mem_cons, true_or, if_true] at h7 ⊢
      omega
    · by_cases ho : a ∈ old.outs
      · have : old.outs.count a = 1 := by rw [hold_nd.count]; simp [ho]
        simp only [List.mem_cons, ha, ho, or_true, if_true, if_false] at h7 ⊢
        omega
      · have : old.outs.count a = 0 := List.count_eq_zero.mpr ho
        simp only [List.mem_cons, ha, ho, or_false, if_false] at h7 ⊢
        omega
  · show idc s3 a ≤ 1
    rw [hidc a]
    split
    · omega
    · exact hle a
  · show idc s3 "time" = 0
    rw [hidc]
    split
    · rfl
    · exact ht

theorem removeSurrogate_good (n) : Good (removeSurrogate n) := by
  intro s hs
  by_cases hmem : n ∈ omKeys s.content.surs
  · obtain ⟨s3, h3, hs3, _⟩ := removeSurrogate_ok_spec n hs hmem
    rw [h3]
    exact ⟨hs3, fun e he => by cases he⟩
  · have hsame := inval_same .remove_surrogate s
    have hs0 := exact_of_same hsame hs
    unfold removeSurrogate
    simp only [table_remove_order .remove_surrogate (by simp)]
    have hmem' : n ∉ omKeys (inval Gen.Mut.remove_surrogate s).content.surs := by rw [inval_content]; exact hmem
    generalize hS : inval Gen.Mut.remove_surrogate s = s0 at *
    have hl := lookup_none_of_not_mem hmem'
    simp only [hl, popSur, List.contains_iff_mem, hmem', if_false, fail, andThen_err]
    exact ⟨hs0, fun e _ => hsame⟩

theorem removeSurrogate_rejected (n) {s : State} (hmem : n ∉ omKeys s.content.surs) :
    ∃ e, (removeSurrogate n s).2 = .error e := by
  unfold removeSurrogate
  simp only [table_remove_order .remove_surrogate (by simp)]
  have hmem' : n ∉ omKeys (inval Gen.Mut.remove_surrogate s).content.surs := by rw [inval_content]; exact hmem
  have hl := lookup_none_of_not_mem hmem'
  simp only [hl, popSur, List.contains_iff_mem, hmem', if_false, fail, andThen_err]
  exact ⟨_, rfl⟩

/-! ### composites: `make_variable_static`, `make_parameter_dynamic` -/

theorem ne_time_of_mem_ids {s : State} (hs : Exact s) {n : Name} (h : n ∈ omKeys s.ids) : n ≠ "time" := by
  intro e
  subst e
  have := List.count_pos_iff.mpr h
  have := hs.2.2
  unfold idc at *
  omega

theorem removeVariable_ok_spec (n rs) {s : State} (hs : Exact s) (hmem : n ∈ omKeys s.content.vars) :
    ∃ s1, removeVariable n rs s = (s1, .ok ()) ∧ Exact s1 ∧ n ∉ omKeys s1.ids := by
  have hg := removeVariable_good n rs s hs
  have hc := removeVariable_closed n rs hs
  have hmem0 : n ∈ omKeys (inval .remove_variable s).content.vars := by
    rw [inval_content]; exact hmem
  simp only [hmem0, if_true] at hc
  rw [hc] at hg
  refine ⟨_, hc, hg.1, ?_⟩
  intro hm
  have h1 := List.count_pos_iff.mpr hm
  have h2 := count_omKeys_omErase (inval .remove_variable s).ids n n
  cases rs <;> simp_all

theorem removeParameter_ok_spec (n) {s : State} (hs : Exact s) (hmem : n ∈ omKeys s.content.pars) :
    ∃ s1, removeParameter n s = (s1, .ok ()) ∧ Exact s1 ∧ n ∉ omKeys s1.ids ∧
      s1.content.rxns = s.content.rxns ∧ s1.content.surs = s.content.surs := by
  have hs0 := exact_of_same (inval_same .remove_parameter s) hs
  have hg := removeParameter_good n s hs
  have hc : removeParameter n s = _ :=
    removeG_closed (table_remove_order .remove_parameter (by simp)) parsL_law n hs0
  have hmem0 : n ∈ omKeys (parsL.get (inval .remove_parameter s).content) := by
    rw [inval_content]; exact hmem
  simp only [hmem0, if_true] at hc
  rw [hc] at hg
  refine ⟨_, hc, hg.1, ?_, ?_, ?_⟩
  · intro hm
    have h1 := List.count_pos_iff.mpr hm
    have h2 := count_omKeys_omErase (inval .remove_parameter s).ids n n
    simp_all
  · show (inval .remove_parameter s).content.rxns = _
    rw [inval_content]
  · show (inval .remove_parameter s).content.surs = _
    rw [inval_content]

theorem addParameter_ok_spec (n v) {s : State} (hs : Exact s) (h1 : n ≠ "time") (h2 : n ∉ omKeys s.ids) :
    ∃ s2, addParameter n v s = (s2, .ok ()) ∧ Exact s2 := by
  have hg := addParameter_good n v s hs
  have hc : addParameter n v s = _ :=
    addG_closed (table_add_order .add_parameter (by simp)) parsL "parameter" n v (inval .add_parameter s)
  have h2' : n ∉ omKeys (inval .add_parameter s).ids := by rw [inval_ids]; exact h2
  simp only [h1, h2', if_false] at hc
  rw [hc] at hg
  exact ⟨_, hc, hg.1⟩

theorem addVariable_ok_spec (n v) {s : State} (hs : Exact s) (h1 : n ≠ "time") (h2 : n ∉ omKeys s.ids) :
    ∃ s2, addVariable n v s = (s2, .ok ()) ∧ Exact s2 ∧
      s2.content.rxns = s.content.rxns ∧ s2.content.surs = s.content.surs := by
  have hg := addVariable_good n v s hs
  have hc : addVariable n v s = _ :=
    addG_closed (table_add_order .add_variable (by simp)) varsL "variable" n v (inval .add_variable s)
  have h2' : n ∉ omKeys (inval .add_variable s).ids := by rw [inval_ids]; exact h2
  simp only [h1, h2', if_false] at hc
  rw [hc] at hg
  refine ⟨_, hc, hg.1, ?_, ?_⟩
  · show (inval .add_variable s).content.rxns = _
    rw [inval_content]
  · show (inval .add_variable s).content.surs = _
    rw [inval_content]

theorem makeVariableStatic_tail (n value) {s s0 : State} (_hsame : Same s s0) (hs0 : Exact s0)
    (hmem : n ∈ omKeys s0.content.vars) :
    Exact (andThen (removeVariable n true s0) (addParameter n value)).1 ∧
    ∀ e, (andThen (removeVariable n true s0) (addParameter n value)).2 = .error e →
      Same s (andThen (removeVariable n true s0) (addParameter n value)).1 := by
  have hids : n ∈ omKeys s0.ids := mem_ids_of_mem_keys varsL_law hs0 hmem
  have hnt := ne_time_of_mem_ids hs0 hids
  obtain ⟨s1, h1, hs1, hn1⟩ := removeVariable_ok_spec n true hs0 hmem
  rw [h1, andThen_ok]
  obtain ⟨s2, h2, hs2⟩ := addParameter_ok_spec n value hs1 hnt hn1
  rw [h2]
  exact ⟨hs2, fun e he => by cases he⟩

theorem makeVariableStatic_good (n v) : Good (makeVariableStatic n v) := by
  intro s hs
  have hsame := inval_same .make_variable_static s
  have hs0 := exact_of_same hsame hs
  unfold makeVariableStatic
  simp only
  generalize hS : inval Gen.Mut.make_variable_static s = s0 at *
  split
  · exact ⟨hs0, fun e _ => hsame⟩
  · rename_i iv hl
    exact makeVariableStatic_tail n _ hsame hs0 (mem_omKeys_of_lookup hl)

theorem flatMap_congr' {α β} {l : List α} {f g : α → List β} (h : ∀ x ∈ l, f x = g x) :
    l.flatMap f = l.flatMap g := by
  induction l with
  | nil => rfl
  | cons a r ih =>
    simp only [List.flatMap_cons, h a (by simp), ih (fun x hx => h x (by simp [hx]))]

theorem lookup_omInsert_ne {β} (m : List (Name × β)) {k g : Name} (v : β) (h : g ≠ k) :
    (omInsert m k v).lookup g = m.lookup g := by
  induction m with
  | nil =>
    have : (g == k) = false := by simpa using h
    simp [omInsert, List.lookup, this]
  | cons a rest ih =>
    obtain ⟨k', x⟩ := a
    simp only [omInsert]
    by_cases hk : k' = k
    · subst hk
      have : (g == k') = false := by simpa using h
      simp [List.lookup, this]
    · have h1 : (k' == k) = false := by simpa using hk
      simp only [h1]
      by_cases hg : g = k'
      · subst hg; simp [List.lookup]
      · have : (g == k') = false := by simpa using hg
        simp [List.lookup, this, ih]

theorem lookup_omInsert_self {β} (m : List (Name × β)) (k : Name) (v : β) :
    (omInsert m k v).lookup k = some v := by
  induction m with
  | nil => simp [omInsert, List.lookup]
  | cons a rest ih =>
    obtain ⟨k', x⟩ := a
    simp only [omInsert]
    by_cases hk : k' = k
    · subst hk; simp [List.lookup]
    · have h1 : (k' == k) = false := by simpa using hk
      have h2 : (k == k') = false := by simpa using (Ne.symm hk)
      simp [h1, List.lookup, h2, ih]

theorem omInsert_ne_nil {β} (m : List (Name × β)) (k : Name) (v : β) : (omInsert m k v).isEmpty = false := by
  cases m with
  | nil => rfl
  | cons a rest => simp only [omInsert]; split <;> rfl

theorem surHasFlux_setSurStoich (n f : Name) (v : Rat) (su : Sur) (g : Name)
    (h : surHasFlux g su = true) : surHasFlux g (setSurStoich n f v su) = true := by
  unfold surHasFlux setSurStoich at *
  by_cases hg : g = f
  · subst hg
    simp [lookup_omInsert_self, omInsert_ne_nil]
  · simp only [lookup_omInsert_ne _ _ hg]
    exact h

/-- one round of the stoichiometry loop: cannot fail on a known flux, keeps exactness, ids and fluxes -/
theorem setStoich_spec (n f : Name) (v : Rat) {s : State} (hs : Exact s) (hf : isFlux s.content f = true) :
    ∃ s', setStoich n f v s = (s', .ok ()) ∧ Exact s' ∧ (∀ g, isFlux s.content g = true → isFlux s'.content g = true) := by
  unfold setStoich
  dsimp only
  cases hl : s.content.rxns.lookup f with
  | some r =>
    simp only [ok]
    refine ⟨_, rfl, ?_, ?_⟩
    · exact exact_put_mem rxnsL_law hs _ (mem_omKeys_of_lookup hl)
    · intro g hg
      unfold isFlux at *
      have hk : omKeys (omInsert s.content.rxns f { r with stoich := omInsert r.stoich n (Coef.num v) })
          = omKeys s.content.rxns := omKeys_omInsert_of_mem _ _ _ (mem_omKeys_of_lookup hl)
      simp only [hk]
      exact hg
  | none =>
    have hnr : (omKeys s.content.rxns).contains f = false := by
      cases hc : (omKeys s.content.rxns).contains f with
      | false => rfl
      | true =>
        obtain ⟨r, hr⟩ := lookup_of_mem_omKeys (List.contains_iff_mem.mp hc)
        rw [hr] at hl; cases hl
    have hany : s.content.surs.any (fun kv => surHasFlux f kv.2) = true := by
      unfold isFlux at hf
      rw [hnr] at hf
      simpa using hf
    simp only [hany, if_true, ok]
    refine ⟨_, rfl, ?_, ?_⟩
    · obtain ⟨he, hle, ht⟩ := hs
      refine ⟨fun a => ?_, hle, ht⟩
      show idc s a = (contentNames _).count a
      rw [he a]
      unfold cc
      congr 1
      simp only [contentNames, surOuts, omKeys, List.map_map, List.flatMap_map]
      congr 2
      · congr 1
        apply List.map_congr_left
        intro kv _
        simp only [Function.comp]
        split <;> rfl
      · apply flatMap_congr'
        intro kv _
        split
        · rfl
        · rfl
    · intro g hg
      unfold isFlux at *
      simp only [Bool.or_eq_true] at hg ⊢
      rcases hg with hg | hg
      · exact Or.inl hg
      · right
        simp only [List.any_map, List.any_eq_true] at hg ⊢
        obtain ⟨kv, hkv, h2⟩ := hg
        refine ⟨kv, hkv, ?_⟩
        simp only [Function.comp]
        split
        · exact surHasFlux_setSurStoich n f v kv.2 g h2
        · exact h2

theorem setStoichs_spec (n : Name) (fl : List (Name × Rat)) : ∀ {s : State}, Exact s →
    (∀ fv ∈ fl, isFlux s.content fv.1 = true) →
    ∃ s', setStoichs n fl s = (s', .ok ()) ∧ Exact s' := by
  induction fl with
  | nil => intro s hs _; exact ⟨s, rfl, hs⟩
  | cons a rest ih =>
    intro s hs hfl
    obtain ⟨f, v⟩ := a
    obtain ⟨s1, h1, hs1, hkeep⟩ := setStoich_spec n f v hs (hfl (f, v) (by simp))
    simp only [setStoichs, h1, andThen_ok]
    exact ih hs1 (fun fv hfv => hkeep _ (hfl fv (by simp [hfv])))

theorem makeParameterDynamic_tail (n value) (fl : List (Name × Rat)) {s0 : State} (hs0 : Exact s0)
    (hmem : n ∈ omKeys s0.content.pars) (hfl : ∀ fv ∈ fl, isFlux s0.content fv.1 = true) :
    ∃ s3, (andThen (removeParameter n s0) fun s => andThen (addVariable n value s) (setStoichs n fl))
        = (s3, .ok ()) ∧ Exact s3 := by
  have hids : n ∈ omKeys s0.ids := mem_ids_of_mem_keys parsL_law hs0 hmem
  have hnt := ne_time_of_mem_ids hs0 hids
  obtain ⟨s1, h1, hs1, hn1, hr1, hu1⟩ := removeParameter_ok_spec n hs0 hmem
  obtain ⟨s2, h2, hs2, hr2, hu2⟩ := addVariable_ok_spec n value hs1 hnt hn1
  have hfl2 : ∀ fv ∈ fl, isFlux s2.content fv.1 = true := by
    intro fv hfv
    have := hfl fv hfv
    unfold isFlux at *
    rw [hr2, hr1, hu2, hu1]
    exact this
  obtain ⟨s3, h3, hs3⟩ := setStoichs_spec n fl hs2 hfl2
  refine ⟨s3, ?_, hs3⟩
  rw [h1, andThen_ok, h2, andThen_ok, h3]

theorem makeParameterDynamic_good (n iv st) : Good (makeParameterDynamic n iv st) := by
  intro s hs
  have hsame := inval_same .make_parameter_dynamic s
  have hs0 := exact_of_same hsame hs
  unfold makeParameterDynamic
  simp only
  generalize hS : inval Gen.Mut.make_parameter_dynamic s = s0 at *
  split
  · exact ⟨hs0, fun e _ => hsame⟩
  · rename_i pv hl
    have hc : decide (Gen.checksBeforeWrites .make_parameter_dynamic ≥ 1) = true := by
      simpa using table_make_parameter_dynamic_checks
    by_cases hall : (st.getD []).all (fun fv => isFlux s0.content fv.1) = true
    · rw [if_neg (by simp [hall])]
      obtain ⟨s3, h3, hs3⟩ := makeParameterDynamic_tail n _ (st.getD []) hs0 (mem_omKeys_of_lookup hl)
        (fun fv hfv => (List.all_eq_true.mp hall) fv hfv)
      rw [h3]
      exact ⟨hs3, fun e he => by cases he⟩
    · rw [if_pos (by simp only [hc, Bool.true_and]; simpa using hall)]
      exact ⟨hs0, fun e _ => hsame⟩

/-! ### all ops -/

/-! ### plural forms: validate every name, then apply — a rejected call changes nothing -/

theorem checkKnown_ok_iff (keys seen l : List Name) :
    checkKnown keys seen l = .ok () ↔ (∀ x ∈ l, x ∈ keys ∧ x ∉ seen) ∧ l.Nodup := by
  induction l generalizing seen with
  | nil => simp [checkKnown]
  | cons n rest ih =>
    simp only [checkKnown]
    by_cases h1 : n ∈ keys
    · by_cases h2 : n ∈ seen
      · simp [h1, h2]
      · have hc : (!keys.contains n || seen.contains n) = false := by simp [h1, h2]
        simp only [hc, Bool.false_eq_true, if_false]
        rw [ih]
        simp only [List.mem_cons, List.nodup_cons]
        constructor
        · rintro ⟨h3, h4⟩
          refine ⟨?_, ?_, h4⟩
          · intro x hx
            rcases hx with rfl | hx
            · exact ⟨h1, h2⟩
            · exact ⟨(h3 x hx).1, fun hm => (h3 x hx).2 (Or.inr hm)⟩
          · intro hm
            exact (h3 n hm).2 (Or.inl rfl)
        · rintro ⟨h3, h4, h5⟩
          refine ⟨?_, h5⟩
          intro x hx
          refine ⟨(h3 x (Or.inr hx)).1, ?_⟩
          rintro (rfl | hm)
          · exact h4 hx
          · exact (h3 x (Or.inr hx)).2 hm
    · simp [h1]

theorem except_unit_cases (r : Except Err Unit) : r = .ok () ∨ ∃ e, r = .error e := by
  cases r with
  | ok u => exact Or.inl rfl
  | error e => exact Or.inr ⟨e, rfl⟩

/-- a loop whose every round is accepted as long as an invariant `P` of (remaining elements, state) holds -/
theorem foldOps_ok {α} (f : α → State → State × Res) (P : List α → State → Prop)
    (hstep : ∀ a rest s, P (a :: rest) s → (f a s).2 = .ok () ∧ P rest (f a s).1) :
    ∀ l s, P l s → ∃ s', foldOps f l s = (s', .ok ()) ∧ P [] s' := by
  intro l
  induction l with
  | nil => intro s h; exact ⟨s, rfl, h⟩
  | cons a rest ih =>
    intro s h
    obtain ⟨h1, hp1⟩ := hstep a rest s h
    obtain ⟨s', h2, hp2⟩ := ih _ hp1
    have h1' : f a s = ((f a s).1, .ok ()) := by
      rw [← h1]
    exact ⟨s', by simp only [foldOps]; rw [h1', andThen_ok, h2], hp2⟩

theorem pluralOp_good {α} {m : Gen.Mut} (hm : Gen.checksBeforeWrites m ≥ 1) (chk : State → Except Err Unit)
    (f : α → State → State × Res) (l : List α)
    (hok : ∀ s0, Exact s0 → chk s0 = .ok () → ∃ s', foldOps f l s0 = (s', .ok ()) ∧ Exact s') :
    Good (pluralOp m chk f l) := by
  intro s hs
  have hsame := inval_same m s
  have hs0 := exact_of_same hsame hs
  unfold pluralOp
  simp only [hm, if_true]
  rcases except_unit_cases (chk (inval m s)) with hc | ⟨e, hc⟩
  · rw [hc]
    obtain ⟨s', h1, h2⟩ := hok _ hs0 hc
    simp only [h1]
    exact ⟨h2, fun e he => by cases he⟩
  · rw [hc]
    simp only [fail]
    exact ⟨hs0, fun e _ => hsame⟩

theorem table_plural_checks (m : Gen.Mut)
    (h : m ∈ [Gen.Mut.add_parameters, .remove_parameters, .update_parameters, .add_variables, .remove_variables,
              .update_variables]) : Gen.checksBeforeWrites m ≥ 1 := by
  simp at h
  rcases h with h | h | h | h | h | h <;> subst h <;> decide

theorem table_scale_parameters_delegates : Gen.delegates .scale_parameters = [.update_parameters] := rfl

/-- the adds of one container after `_check_new_ids` accepted all names -/
theorem addMany_ok {β} {m : Gen.Mut} (hm : Gen.idOrder m = .idFirst) {L : Lens β} (hL : LensLaw L) (k : Kind)
    (l : List (Name × β)) (s0 : State) (hs0 : Exact s0)
    (hc : checkNewIds (omKeys s0.ids) (l.map (·.1)) = .ok ()) :
    ∃ s', foldOps (fun kv s => addG m L k kv.1 kv.2 (inval m s)) l s0 = (s', .ok ()) ∧ Exact s' := by
  obtain ⟨hfresh, hnd⟩ := (checkNewIds_ok_iff _ _).mp hc
  have := foldOps_ok (fun (kv : Name × β) s => addG m L k kv.1 kv.2 (inval m s))
    (fun (l : List (Name × β)) s =>
      Exact s ∧ (∀ x ∈ l.map (·.1), x ≠ "time" ∧ x ∉ omKeys s.ids) ∧ (l.map (·.1)).Nodup)
    (by
      intro a rest s ⟨hs, hf, hn⟩
      have ha := hf a.1 (by simp)
      simp only [List.map_cons, List.nodup_cons] at hn
      have hs1 := exact_of_same (inval_same m s) hs
      have h2' : a.1 ∉ omKeys (inval m s).ids := by rw [inval_ids]; exact ha.2
      show (addG m L k a.1 a.2 (inval m s)).2 = .ok () ∧ _
      rw [addG_closed hm]
      simp only [ha.1, h2', if_false]
      refine ⟨trivial, ?_, ?_, hn.2⟩
      · exact exact_add hL hs1 k a.2 ha.1 h2'
      · intro x hx
        refine ⟨(hf x (by simp [hx])).1, ?_⟩
        show x ∉ omKeys ((inval m s).ids ++ [(a.1, k)])
        rw [inval_ids]
        simp only [omKeys_append, omKeys_cons, omKeys_nil, List.mem_append, List.mem_singleton]
        rintro (hm2 | rfl)
        · exact (hf x (by simp [hx])).2 hm2
        · exact hn.1 hx)
    l s0 ⟨hs0, hfresh, hnd⟩
  obtain ⟨s', h1, h2⟩ := this
  exact ⟨s', h1, h2.1⟩

theorem addParameters_good (l) : Good (addParameters l) :=
  pluralOp_good (table_plural_checks _ (by simp)) _ _ l
    (fun s0 hs0 hc => addMany_ok (table_add_order .add_parameter (by simp)) parsL_law "parameter" l s0 hs0 hc)

theorem addVariables_good (l) : Good (addVariables l) :=
  pluralOp_good (table_plural_checks _ (by simp)) _ _ l
    (fun s0 hs0 hc => addMany_ok (table_add_order .add_variable (by simp)) varsL_law "variable" l s0 hs0 hc)

theorem mem_omKeys_omErase {β} (m : List (Name × β)) {x n : Name} (hne : x ≠ n) (hx : x ∈ omKeys m) :
    x ∈ omKeys (omErase m n) := by
  have := count_omKeys_omErase m n x
  simp only [hne, if_false] at this
  exact List.count_pos_iff.mp (by rw [this]; exact List.count_pos_iff.mpr hx)

theorem removeParameters_good (l) : Good (removeParameters l) := by
  refine pluralOp_good (table_plural_checks _ (by simp)) _ _ l ?_
  intro s0 hs0 hc
  obtain ⟨hin, hnd⟩ := (checkKnown_ok_iff _ _ _).mp hc
  have := foldOps_ok removeParameter
    (fun l s => Exact s ∧ (∀ x ∈ l, x ∈ omKeys s.content.pars) ∧ l.Nodup)
    (by
      intro a rest s ⟨hs, hf, hn⟩
      simp only [List.nodup_cons] at hn
      have hs1 := exact_of_same (inval_same .remove_parameter s) hs
      have hmem : a ∈ omKeys (parsL.get (inval .remove_parameter s).content) := by
        rw [inval_content]; exact hf a (by simp)
      have hc : removeParameter a s = _ :=
        removeG_closed (table_remove_order .remove_parameter (by simp)) parsL_law a hs1
      simp only [hmem, if_true] at hc
      rw [hc]
      refine ⟨rfl, exact_remove parsL_law hs1 hmem, ?_, hn.2⟩
      intro x hx
      show x ∈ omKeys (omErase (inval .remove_parameter s).content.pars a)
      rw [inval_content]
      exact mem_omKeys_omErase _ (fun e => hn.1 (e ▸ hx)) (hf x (by simp [hx])))
    l s0 ⟨hs0, fun x hx => (hin x hx).1, hnd⟩
  obtain ⟨s', h1, h2⟩ := this
  exact ⟨s', h1, h2.1⟩

theorem removeVariables_good (l rs) : Good (removeVariables l rs) := by
  refine pluralOp_good (table_plural_checks _ (by simp)) _ _ l ?_
  intro s0 hs0 hc
  obtain ⟨hin, hnd⟩ := (checkKnown_ok_iff _ _ _).mp hc
  have := foldOps_ok (fun n => removeVariable n rs)
    (fun l s => Exact s ∧ (∀ x ∈ l, x ∈ omKeys s.content.vars) ∧ l.Nodup)
    (by
      intro a rest s ⟨hs, hf, hn⟩
      simp only [List.nodup_cons] at hn
      have hmem : a ∈ omKeys (inval .remove_variable s).content.vars := by
        rw [inval_content]; exact hf a (by simp)
      have hc := removeVariable_closed a rs hs
      simp only [hmem, if_true] at hc
      have hg := (removeVariable_good a rs s hs).1
      rw [hc] at hg ⊢
      refine ⟨rfl, hg, ?_, hn.2⟩
      intro x hx
      have hx1 : x ∈ omKeys (omErase (inval .remove_variable s).content.vars a) := by
        rw [inval_content]
        exact mem_omKeys_omErase _ (fun e => hn.1 (e ▸ hx)) (hf x (by simp [hx]))
      cases rs
      · exact hx1
      · exact hx1)
    l s0 ⟨hs0, fun x hx => (hin x hx).1, hnd⟩
  obtain ⟨s', h1, h2⟩ := this
  exact ⟨s', h1, h2.1⟩

theorem updateParameters_good (l) : Good (updateParameters l) := by
  refine pluralOp_good (table_plural_checks _ (by simp)) _ _ l ?_
  intro s0 hs0 hc
  obtain ⟨hin, _⟩ := (checkKnown_ok_iff _ _ _).mp hc
  have := foldOps_ok (fun kv : Name × Val => updateParameter kv.1 (some kv.2))
    (fun l s => Exact s ∧ ∀ x ∈ l.map (·.1), x ∈ omKeys s.content.pars)
    (by
      intro a rest s ⟨hs, hf⟩
      have hs1 := exact_of_same (inval_same .update_parameter s) hs
      have hmem : a.1 ∈ omKeys (inval .update_parameter s).content.pars := by
        rw [inval_content]; exact hf a.1 (by simp)
      have hu : updateParameter a.1 (some a.2) s = putG parsL a.1 a.2 (inval .update_parameter s) := by
        unfold updateParameter
        simp only [List.contains_iff_mem, hmem, if_true]
      rw [hu]
      refine ⟨rfl, ?_, ?_⟩
      · exact exact_put_mem parsL_law hs1 a.2 hmem
      · intro x hx
        show x ∈ omKeys (omInsert (inval .update_parameter s).content.pars a.1 a.2)
        rw [omKeys_omInsert_of_mem _ _ _ hmem, inval_content]
        exact hf x (by simp at hx ⊢; exact Or.inr hx))
    l s0 ⟨hs0, fun x hx => (hin x hx).1⟩
  obtain ⟨s', h1, h2⟩ := this
  exact ⟨s', h1, h2.1⟩

theorem updateVariables_good (l) : Good (updateVariables l) := by
  refine pluralOp_good (table_plural_checks _ (by simp)) _ _ l ?_
  intro s0 hs0 hc
  obtain ⟨hin, _⟩ := (checkKnown_ok_iff _ _ _).mp hc
  have := foldOps_ok (fun kv : Name × Val => updateVariable kv.1 kv.2)
    (fun l s => Exact s ∧ ∀ x ∈ l.map (·.1), x ∈ omKeys s.content.vars)
    (by
      intro a rest s ⟨hs, hf⟩
      have hs1 := exact_of_same (inval_same .update_variable s) hs
      have hmem : a.1 ∈ omKeys (inval .update_variable s).content.vars := by
        rw [inval_content]; exact hf a.1 (by simp)
      have hu : updateVariable a.1 a.2 s = putG varsL a.1 a.2 (inval .update_variable s) := by
        unfold updateVariable
        simp only [List.contains_iff_mem, hmem, if_true]
      rw [hu]
      refine ⟨rfl, ?_, ?_⟩
      · exact exact_put_mem varsL_law hs1 a.2 hmem
      · intro x hx
        show x ∈ omKeys (omInsert (inval .update_variable s).content.vars a.1 a.2)
        rw [omKeys_omInsert_of_mem _ _ _ hmem, inval_content]
        exact hf x (by simp at hx ⊢; exact Or.inr hx))
    l s0 ⟨hs0, fun x hx => (hin x hx).1⟩
  obtain ⟨s', h1, h2⟩ := this
  exact ⟨s', h1, h2.1⟩

theorem scaledValues_same (l : List (Name × Rat)) : ∀ (s : State), Same s (scaledValues l s).1 := by
  induction l with
  | nil => intro s; exact Same.refl s
  | cons a rest ih =>
    intro s
    obtain ⟨n, f⟩ := a
    have h1 := scaledValue_same n f s
    simp only [scaledValues]
    split
    · rename_i s1 e heq; rw [heq] at h1; exact h1
    · rename_i s1 v heq
      rw [heq] at h1
      have h2 := ih s1
      split
      · rename_i s2 e heq2; rw [heq2] at h2; exact h1.trans h2
      · rename_i s2 vs heq2; rw [heq2] at h2; exact h1.trans h2

theorem scaleParameters_good (l) : Good (scaleParameters l) := by
  intro s hs
  have hsame := inval_same .scale_parameters s
  have h1 := scaledValues_same l (inval .scale_parameters s)
  have hs1 := exact_of_same (hsame.trans h1) hs
  unfold scaleParameters
  simp only [table_scale_parameters_delegates, if_true]
  split
  · rename_i s1 e heq
    rw [heq] at h1 hs1
    exact ⟨hs1, fun e _ => hsame.trans h1⟩
  · rename_i s1 vs heq
    rw [heq] at h1 hs1
    have := updateParameters_good vs s1 hs1
    exact ⟨this.1, fun e he => (hsame.trans h1).trans (this.2 e he)⟩

/-! ### all ops -/

theorem step_good (op : Op) : Good (fun s => step s op) := by
  cases op with
  | add_parameter n v => exact addParameter_good n v
  | remove_parameter n => exact removeParameter_good n
  | update_parameter n v => exact updateParameter_good n v
  | scale_parameter n f => exact scaleParameter_good n f
  | make_parameter_dynamic n iv st => exact makeParameterDynamic_good n iv st
  | add_parameters l => exact addParameters_good l
  | remove_parameters l => exact removeParameters_good l
  | update_parameters l => exact updateParameters_good l
  | scale_parameters l => exact scaleParameters_good l
  | add_variable n v => exact addVariable_good n v
  | remove_variable n rs => exact removeVariable_good n rs
  | update_variable n v => exact updateVariable_good n v
  | make_variable_static n v => exact makeVariableStatic_good n v
  | add_variables l => exact addVariables_good l
  | remove_variables l rs => exact removeVariables_good l rs
  | update_variables l => exact updateVariables_good l
  | add_derived n f => exact addDerived_good n f
  | update_derived n fn args => exact updateDerived_good n fn args
  | remove_derived n => exact removeDerived_good n
  | add_reaction n r => exact addReaction_good n r
  | update_reaction n fn args st => exact updateReaction_good n fn args st
  | remove_reaction n => exact removeReaction_good n
  | add_readout n f => exact addReadout_good n f
  | remove_readout n => exact removeReadout_good n
  | add_surrogate n su => exact addSurrogate_good n su
  | add_surrogate_kw n su u => exact addSurrogate_good n (u.over su)
  | update_surrogate n u => exact updateSurrogate_good n u
  | remove_surrogate n => exact removeSurrogate_good n
  | add_data n v => exact addData_good n v
  | update_data n v => exact updateData_good n v
  | remove_data n => exact removeData_good n

theorem step_exact (s : State) (op : Op) (hs : Exact s) : Exact (step s op).1 :=
  (step_good op s hs).1

/-- `stepS` adds signatures to what `step` did: content, ids, cache and outcome are those of `step` -/
theorem stepS_same (s : State) (op : Op) (given) : Same (step s op).1 (stepS s op given).1 := by
  unfold stepS; simp only; split <;> exact ⟨rfl, rfl⟩

theorem stepS_snd (s : State) (op : Op) (given) : (stepS s op given).2 = (step s op).2 := by
  unfold stepS; simp only; split
  · rename_i h; exact h.symm
  · rename_i e h; exact h.symm

theorem query_same (s : State) (q : Query) : Same s (query s q).1 := by
  rcases query_fst s q with h1 | h1 <;> rw [h1]
  · exact Same.refl s
  · exact ensureCache_same s

theorem exact_init : Exact init := by
  refine ⟨fun a => ?_, fun a => ?_, ?_⟩ <;> simp [idc, cc, init, contentNames, surOuts]

end Mxl.C03
