/- `exported_of_export` / `exported_species_key` of Lemmas/C08Roundtrip.lean for ANY initial set of taken names that contains
   the model's names (`exportModelFrom`, Model/C08Compartment.lean): the species references then avoid the compartment ids too -/
import MxlVerif.Lemmas.C08Roundtrip
import MxlVerif.Model.C08Compartment
import MxlVerif.Lemmas.C08Compartment
namespace Mxl.C08
open Gen

theorem exported_of_exportFrom {m : PyModel} {d : SDoc} {t0 : List String} (hsub : ∀ n ∈ m.names, n ∈ t0)
    (hw : wellNamed m = true) (h : exportModelFrom t0 m = .ok d) :
    Exported m d := by
  have hw' := hw
  simp only [wellNamed, Bool.and_eq_true, List.all_eq_true] at hw'
  obtain ⟨⟨⟨⟨⟨⟨hplain, hnd⟩, hrok⟩, _⟩, _⟩, _⟩, _⟩ := hw'
  have hnames := nodupB_sound hnd
  unfold PyModel.names at hnames hplain
  obtain ⟨hPVD, hX, hdX⟩ := List.nodup_append.mp hnames
  obtain ⟨hPV', hD, hdD⟩ := List.nodup_append.mp hPVD
  obtain ⟨hP, hV, hdV⟩ := List.nodup_append.mp hPV'
  have plainP : ∀ kv ∈ m.params, isPlainName kv.1 = true := fun kv hk =>
    hplain kv.1 (by simp only [List.mem_append]; exact .inl (.inl (.inl (List.mem_map.mpr ⟨kv, hk, rfl⟩))))
  have plainV : ∀ kv ∈ m.vars, isPlainName kv.1 = true := fun kv hk =>
    hplain kv.1 (by simp only [List.mem_append]; exact .inl (.inl (.inr (List.mem_map.mpr ⟨kv, hk, rfl⟩))))
  have plainD : ∀ kv ∈ m.derived, isPlainName kv.1 = true := fun kv hk =>
    hplain kv.1 (by simp only [List.mem_append]; exact .inl (.inr (List.mem_map.mpr ⟨kv, hk, rfl⟩)))
  -- the four folds
  unfold exportModelFrom at h
  obtain ⟨d1, h1, h⟩ := except_bind_ok h
  obtain ⟨d2, h2, h⟩ := except_bind_ok h
  obtain ⟨d3, h3, h⟩ := except_bind_ok h
  obtain ⟨⟨t4, d4⟩, h4, h⟩ := except_bind_ok h
  simp only [pure, Except.pure, Except.ok.injEq] at h
  subst h
  obtain ⟨e1, ok1⟩ := foldParams m.params _ d1 plainP h1
  obtain ⟨e2, ok2⟩ := foldDerived m.derived d1 d2 plainD h2
  obtain ⟨e3, ok3⟩ := foldVars m.vars d2 d3 plainV h3
  obtain ⟨R, rs, e4, fr, ndR, rel⟩ := foldReactions m.rxns t0 t4 d3 d4 (fun rx hr => rxnOk_of_B (hrok rx hr)) h4
  have hdp : d4.params = m.params.map initEntry := by rw [e4, e3, e2, e1]; simp [SDoc.empty]
  have hds : d4.species = m.vars.map initEntry := by rw [e4, e3, e2, e1]; simp [SDoc.empty]
  have hdi : d4.inits = (iaFns m.params).map ruleEntry ++ (iaFns m.vars).map ruleEntry := by
    rw [e4, e3, e2, e1]; simp [SDoc.empty]
  have hdr : d4.rules = m.derived.map ruleEntry ++ R := by rw [e4, e3, e2, e1]; simp [SDoc.empty]
  have hdx : d4.rxns = rs := by rw [e4, e3, e2, e1]; simp [SDoc.empty]
  -- names
  have freshR : ∀ k ∈ R.map (·.1), k ∉ m.names := fun k hk hmem => (fr k hk).1 (hsub k hmem)
  have memP : ∀ {n v}, m.params.lookup n = some v → n ∈ m.params.map (·.1) := fun h => mem_keys_of_lookup_some h
  have memV : ∀ {n v}, m.vars.lookup n = some v → n ∈ m.vars.map (·.1) := fun h => mem_keys_of_lookup_some h
  have iaKeysP : ∀ n, n ∈ (iaFns m.params).map (·.1) → ∃ f, m.params.lookup n = some (.ia f) := by
    intro n hn
    obtain ⟨⟨n', f⟩, hmem, rfl⟩ := List.mem_map.mp hn
    exact ⟨f, lookup_of_mem_nodup (mem_iaFns.mp hmem) hP⟩
  have iaKeysV : ∀ n, n ∈ (iaFns m.vars).map (·.1) → ∃ f, m.vars.lookup n = some (.ia f) := by
    intro n hn
    obtain ⟨⟨n', f⟩, hmem, rfl⟩ := List.mem_map.mp hn
    exact ⟨f, lookup_of_mem_nodup (mem_iaFns.mp hmem) hV⟩
  have initKeys : d4.inits.map (·.1) = (iaFns m.params).map (·.1) ++ (iaFns m.vars).map (·.1) := by
    rw [hdi, List.map_append, keys_ruleEntry, keys_ruleEntry]
  have initNodup : (d4.inits.map (·.1)).Nodup := by
    rw [initKeys, List.nodup_append]
    refine ⟨List.Pairwise.sublist (iaFns_keys_sublist _) hP, List.Pairwise.sublist (iaFns_keys_sublist _) hV, ?_⟩
    intro a ha b hb
    exact hdV a ((iaFns_keys_sublist _).subset ha) b ((iaFns_keys_sublist _).subset hb)
  have ruleKeys : d4.rules.map (·.1) = m.derived.map (·.1) ++ R.map (·.1) := by
    rw [hdr, List.map_append, keys_ruleEntry]
  have derInNames : ∀ n, n ∈ m.derived.map (·.1) → n ∈ m.names := by
    intro n hn
    unfold PyModel.names
    simp only [List.mem_append]
    exact .inl (.inr hn)
  have ruleNodup : (d4.rules.map (·.1)).Nodup := by
    rw [ruleKeys, List.nodup_append]
    refine ⟨hD, ndR, ?_⟩
    intro a ha b hb e
    subst e
    exact freshR a hb (derInNames a ha)
  have initNone : ∀ n, (∀ f, m.params.lookup n ≠ some (.ia f)) → (∀ f, m.vars.lookup n ≠ some (.ia f)) →
      lookupLast d4.inits n = none := by
    intro n hp hv
    apply lookupLast_none_of_not_mem
    rw [initKeys]
    intro hm
    rcases List.mem_append.mp hm with hm | hm
    · obtain ⟨f, hf⟩ := iaKeysP n hm; exact hp f hf
    · obtain ⟨f, hf⟩ := iaKeysV n hm; exact hv f hf
  have initSome : ∀ n f, (n, f) ∈ iaFns m.params ∨ (n, f) ∈ iaFns m.vars → lookupLast d4.inits n = some (mathOf f) := by
    intro n f hm
    apply lookupLast_of_mem_nodup _ initNodup
    rw [hdi]
    rcases hm with hm | hm
    · exact List.mem_append_left _ (List.mem_map.mpr ⟨(n, f), hm, rfl⟩)
    · exact List.mem_append_right _ (List.mem_map.mpr ⟨(n, f), hm, rfl⟩)
  refine
    { par_val := ?_, par_ia := ?_, par_none := ?_, var_val := ?_, var_ia := ?_, var_none := ?_,
      init_none := ?_, der := ?_, der_none := ?_, rxns := ?_, fuel := ?_ }
  · intro n q hl
    refine ⟨by rw [hdp, lookup_initEntry, hl]; rfl, initNone n (by intro f hf; rw [hl] at hf; cases hf) ?_⟩
    intro f hf
    exact hdV n (memP hl) n (memV hf) rfl
  · intro n f hl
    refine ⟨by rw [hdp, lookup_initEntry, hl]; rfl,
      initSome n f (.inl (mem_iaFns.mpr (mem_of_lookup_some hl))), ?_⟩
    exact ok1 (n, f) (mem_iaFns.mpr (mem_of_lookup_some hl))
  · intro n hl
    rw [hdp, lookup_initEntry, hl]; rfl
  · intro n q hl
    refine ⟨by rw [hds, lookup_initEntry, hl]; rfl, initNone n ?_ (by intro f hf; rw [hl] at hf; cases hf)⟩
    intro f hf
    exact hdV n (memP hf) n (memV hl) rfl
  · intro n f hl
    exact ⟨initSome n f (.inr (mem_iaFns.mpr (mem_of_lookup_some hl))),
      ok3 (n, f) (mem_iaFns.mpr (mem_of_lookup_some hl))⟩
  · intro n hl
    rw [hds, lookup_initEntry, hl]; rfl
  · intro n hv hp
    exact initNone n (by intro f hf; rw [hp] at hf; cases hf) (by intro f hf; rw [hv] at hf; cases hf)
  · intro n f hl
    have hmem := mem_of_lookup_some hl
    refine ⟨?_, ok2 (n, f) hmem⟩
    apply lookupLast_of_mem_nodup _ ruleNodup
    rw [hdr]
    exact List.mem_append_left _ (List.mem_map.mpr ⟨(n, f), hmem, rfl⟩)
  · intro n hn hl
    apply lookupLast_none_of_not_mem
    rw [ruleKeys]
    intro hm
    rcases List.mem_append.mp hm with hm | hm
    · exact not_mem_keys_of_lookup_none hl hm
    · exact freshR n hm hn
  · rw [hdx]
    refine Forall2.imp_mem rel ?_
    intro rx hrx r hrel
    have hk := rxnOk_of_B (hrok rx hrx)
    have ruleOf : ∀ rid mth, (rid, mth) ∈ R → lookupLast d4.rules rid = some mth := by
      intro rid mth hm
      apply lookupLast_of_mem_nodup _ ruleNodup
      rw [hdr]
      exact List.mem_append_right _ hm
    refine ⟨hrel.id, hrel.law, ?_, ?_, ?_, ?_⟩
    · intro s hs i hi
      obtain ⟨⟨i', mth⟩, hm, rfl⟩ := List.mem_map.mp (hrel.ids s hs i hi)
      rw [ruleOf i' mth hm]; rfl
    · intro env x hl
      exact hrel.absent env x (not_mem_keys_of_lookup_none hl)
    · intro env x q hl
      exact hrel.num env x q (mem_of_lookup_some hl)
    · intro env x f hl
      obtain ⟨h1', rid, hm, hn⟩ := hrel.computed env x f (mem_of_lookup_some hl)
      exact ⟨h1', rid, ruleOf rid _ hm, freshR rid (List.mem_map.mpr ⟨_, hm, rfl⟩), hn⟩
  · have hlen := Forall2.length_eq rel
    simp only [PyModel.fuel, SDoc.fuel, hdp, hds, hdr, hdx, List.length_map, List.length_append]
    omega


/-- the species list of the document is the variable list of the model -/
theorem exported_species_keyFrom {m : PyModel} {d : SDoc} {t0 : List String} (hw : wellNamed m = true)
    (h : exportModelFrom t0 m = .ok d) :
    ∀ n ∈ m.vars.map (·.1), n ∈ d.species.map (·.1) := by
  simp only [wellNamed, Bool.and_eq_true, List.all_eq_true] at hw
  obtain ⟨⟨⟨⟨⟨⟨hplain, _⟩, hrok⟩, _⟩, _⟩, _⟩, _⟩ := hw
  unfold PyModel.names at hplain
  have plainP : ∀ kv ∈ m.params, isPlainName kv.1 = true := fun kv hk =>
    hplain kv.1 (by simp only [List.mem_append]; exact .inl (.inl (.inl (List.mem_map.mpr ⟨kv, hk, rfl⟩))))
  have plainV : ∀ kv ∈ m.vars, isPlainName kv.1 = true := fun kv hk =>
    hplain kv.1 (by simp only [List.mem_append]; exact .inl (.inl (.inr (List.mem_map.mpr ⟨kv, hk, rfl⟩))))
  have plainD : ∀ kv ∈ m.derived, isPlainName kv.1 = true := fun kv hk =>
    hplain kv.1 (by simp only [List.mem_append]; exact .inl (.inr (List.mem_map.mpr ⟨kv, hk, rfl⟩)))
  unfold exportModelFrom at h
  obtain ⟨d1, h1, h⟩ := except_bind_ok h
  obtain ⟨d2, h2, h⟩ := except_bind_ok h
  obtain ⟨d3, h3, h⟩ := except_bind_ok h
  obtain ⟨⟨t4, d4⟩, h4, h⟩ := except_bind_ok h
  simp only [pure, Except.pure, Except.ok.injEq] at h
  subst h
  obtain ⟨e1, _⟩ := foldParams m.params _ d1 plainP h1
  obtain ⟨e2, _⟩ := foldDerived m.derived d1 d2 plainD h2
  obtain ⟨e3, _⟩ := foldVars m.vars d2 d3 plainV h3
  obtain ⟨R, rs, e4, _, _, _⟩ := foldReactions m.rxns t0 t4 d3 d4 (fun rx hr => rxnOk_of_B (hrok rx hr)) h4
  have hds : d4.species = m.vars.map initEntry := by rw [e4, e3, e2, e1]; simp [SDoc.empty]
  intro n hn
  rw [hds]
  simpa [initEntry, Function.comp_def] using hn

/-! ### on a well-named model the declared ids are the names: `escArgs` is the identity -/

theorem idOf_plain {m : PyModel} (hp : ∀ n ∈ m.names, isPlainName n = true) (n : String) : idOf m n = n := by
  have mem : ∀ {l : List String}, l.contains n = true → n ∈ l := by intro l h; simpa using h
  unfold idOf
  by_cases h1 : (m.params.map (·.1)).contains n = true
  · have hn : isPlainName n = true := hp n (by unfold PyModel.names; simp only [List.mem_append]; exact .inl (.inl (.inl (mem h1))))
    simp [h1, escapeId_plain _ hn]
    split <;> rfl
  · by_cases h2 : (m.vars.map (·.1)).contains n = true
    · have hn : isPlainName n = true := hp n (by unfold PyModel.names; simp only [List.mem_append]; exact .inl (.inl (.inr (mem h2))))
      simp [h1, h2, escapeId_plain _ hn]
      split <;> rfl
    · by_cases h3 : (m.derived.map (·.1)).contains n = true
      · have hn : isPlainName n = true := hp n (by unfold PyModel.names; simp only [List.mem_append]; exact .inl (.inr (mem h3)))
        simp [h1, h2, h3, escapeId_plain _ hn]
        split <;> rfl
      · by_cases h4 : (m.rxns.map (·.name)).contains n = true
        · have hn : isPlainName n = true := hp n (by unfold PyModel.names; simp only [List.mem_append]; exact .inr (mem h4))
          simp [h1, h2, h3, h4, escapeId_plain _ hn]
          split <;> rfl
        · rw [if_neg h1, if_neg h2, if_neg h3, if_neg h4]

theorem escArgs_of_wellNamed {m : PyModel} (hw : wellNamed m = true) : m.escArgs = m := by
  have hw' := hw
  simp only [wellNamed, Bool.and_eq_true, List.all_eq_true] at hw'
  obtain ⟨⟨⟨⟨⟨⟨hplain, _⟩, _⟩, _⟩, _⟩, _⟩, _⟩ := hw'
  have hid : idOf m = fun n => n := funext (idOf_plain hplain)
  unfold PyModel.escArgs
  split
  · cases m with
    | mk ps vs ds rs =>
      simp [hid, PyInit.mapArgs_id, PyFn.mapArgs_id, PyCoef.mapArgs_id]
  · rfl

end Mxl.C08
