import Mathlib.Topology.MetricSpace.Pseudo.Defs
import Mathlib.Tactic.Linarith
import MxlVerif.Lemmas.C15
namespace Mxl.C15

theorem iter_add_single (d : Rat) : ∀ (m : Nat) (y : Rat),
    iter (fun y => List.zipWith (· + ·) y [d]) m [y] = [y + (m : Rat) * d] := by
  intro m
  induction m with
  | zero => intro y; simp [iter]
  | succ m ih =>
    intro y
    simp only [iter, List.zipWith_cons_cons, List.zipWith_nil_right]
    rw [ih (y + d)]
    congr 1
    push_cast
    ring

/-- one accumulating variable under the relative criterion: the step from `a > 0` to `a + d` (d > 0) is "small" exactly
when `d < tol * a` -/
theorem smallRel_single (tol a d : Rat) (ha : 0 < a) (hd : 0 < d) (ht : 0 < tol) :
    smallRel tol [a + d] [a] = decide (d < tol * a) := by
  have hne : a ≠ 0 := ne_of_gt ha
  have hany : ([a].any (· == 0)) = false := by simp [hne]
  simp only [smallRel, hany, vdiv, vsub, normSq, List.zipWith_cons_cons, List.zipWith_nil_right, List.map_cons,
    List.map_nil, List.foldl_cons, List.foldl_nil, ht, decide_true, Bool.true_and]
  have hq : a + d - a = d := by ring
  rw [hq]
  have hpos : 0 < d / a := div_pos hd ha
  simp only [Bool.false_eq_true, if_false, zero_add]
  rw [decide_eq_decide]
  constructor
  · intro h
    have h' : d / a < tol := by
      by_contra hcon
      have hge : tol ≤ d / a := not_lt.mp hcon
      have : tol * tol ≤ d / a * (d / a) := mul_le_mul hge hge (le_of_lt ht) (le_of_lt hpos)
      linarith
    have := (div_lt_iff₀ ha).mp h'
    linarith
  · intro h
    have h' : d / a < tol := (div_lt_iff₀ ha).mpr (by linarith)
    have : d / a * (d / a) < tol * tol := mul_lt_mul'' h' h' (le_of_lt hpos) (le_of_lt hpos)
    linarith

/-- one accumulating variable `y ↦ y + d` (d > 0) from `y0 > 0`, relative criterion: the copying loop with a budget of
`K + 1` steps fails exactly when the relative step is still at or above the tolerance at the LAST comparison -/
theorem rel_accumulation_none_iff (d y0 tol : Rat) (hd : 0 < d) (hy : 0 < y0) (ht : 0 < tol) (K : Nat) :
    ssRun true true (fun y => List.zipWith (· + ·) y [d]) (fun _ => true) (smallRel tol) (K + 1) [y0]
        = .noSteadyState ↔
      tol * (y0 + (K : Rat) * d) ≤ d := by
  unfold ssRun
  rw [ssLoop_copy_none]
  have key : ∀ m : Nat, smallRel tol (iter (fun y => List.zipWith (· + ·) y [d]) (m + 1) [y0])
      (iter (fun y => List.zipWith (· + ·) y [d]) m [y0]) = decide (d < tol * (y0 + (m : Rat) * d)) := by
    intro m
    rw [iter_succ', iter_add_single]
    have hm : (0 : Rat) ≤ (m : Rat) := by exact_mod_cast Nat.zero_le m
    have ha : 0 < y0 + (m : Rat) * d := by nlinarith
    simpa using smallRel_single tol (y0 + (m : Rat) * d) d ha hd ht
  constructor
  · intro h
    have := (h K (Nat.lt_succ_self K)).2
    rw [key] at this
    simpa using this
  · intro h m hm
    refine ⟨rfl, ?_⟩
    rw [key]
    have hmK : (m : Rat) ≤ (K : Rat) := by exact_mod_cast Nat.lt_succ_iff.mp hm
    have : tol * (y0 + (m : Rat) * d) ≤ tol * (y0 + (K : Rat) * d) := by
      apply mul_le_mul_of_nonneg_left _ (le_of_lt ht)
      nlinarith
    simp only [decide_eq_false_iff_not, not_lt]
    linarith

end Mxl.C15
