/-
Whole-model refinement: the integer-map entry points (`buildModelI`, `linearBuildI`) on maps whose
indices lie inside their reaction's padded positions are the natural-number models (`buildModel`,
`linearBuild`) of the front-counted maps, so the model-level theorems apply to what the driver
runs.  Core Lean only.
-/
import MxlVerif.Lemmas.C16Int
namespace Mxl.C05

theorem buildRxnI_eq_nat (lv : List (Name × Nat)) (maps : List (Name × List Int))
    (nmaps : List (Name × List Nat)) (r : BRxn)
    (h0 : maps.lookup r.name = none → nmaps.lookup r.name = none)
    (hn : ∀ lm, maps.lookup r.name = some lm →
      ∃ lm', normMap (max (nSub lv r) (nProd lv r)) lm = .ok lm' ∧ nmaps.lookup r.name = some lm') :
    buildRxnI lv maps r = buildRxn lv nmaps r := by
  unfold buildRxnI buildRxn
  cases hl : maps.lookup r.name with
  | none => rw [h0 hl]
  | some lm =>
    obtain ⟨lm', hnm, hl'⟩ := hn lm hl
    rw [hl']
    simp only []
    rw [isotopomerReactionsI_eq, hnm]
    split
    · rename_i hs
      rw [isotopomerReactions_eq, if_pos (by rw [normMap_length hnm]; exact hs)]
    · rfl

/-- **whole model**: integer maps inside their reactions' positions ⇒ `buildModelI` is `buildModel`
    of the front-counted maps -/
theorem buildModelI_eq_nat (b : Base) (lv : List (Name × Nat)) (maps : List (Name × List Int))
    (nmaps : List (Name × List Nat)) (il : List (Name × List Nat))
    (h0 : ∀ r ∈ b.rxns, maps.lookup r.name = none → nmaps.lookup r.name = none)
    (hn : ∀ r ∈ b.rxns, ∀ lm, maps.lookup r.name = some lm →
      ∃ lm', normMap (max (nSub lv r) (nProd lv r)) lm = .ok lm' ∧ nmaps.lookup r.name = some lm') :
    buildModelI b lv maps il = buildModel b lv nmaps il := by
  unfold buildModelI buildModel
  rw [mapM_congr_mem (buildRxnI lv maps) (buildRxn lv nmaps) b.rxns
    (fun r hr => buildRxnI_eq_nat lv maps nmaps r (h0 r hr) (hn r hr))]

end Mxl.C05

namespace Mxl.C16
open Mxl.C05

theorem mapM_linRxnsOfI_eq (isos : List (Name × List Slot)) (baseRxns : List (Name × List (Name × Int)))
    (maps : List (Name × List Int)) (nmaps : List (Name × List Nat))
    (h : Fa2 (fun km nkm => nkm.1 = km.1 ∧ normMap (padLen isos baseRxns km.1) km.2 = .ok nkm.2) maps nmaps) :
    (maps.mapM fun km => linRxnsOfI isos baseRxns km.1 km.2)
      = nmaps.mapM fun km => linRxnsOf isos baseRxns km.1 km.2 := by
  induction h with
  | nil => rfl
  | cons hxy _ ih =>
    rw [List.mapM_cons, List.mapM_cons, ih, linRxnsOfI_eq _ _ _ _ _ hxy.2, hxy.1]

/-- **whole model**: `label_maps` entries with indices inside their reaction's padded positions ⇒
    `linearBuildI` is `linearBuild` of the front-counted maps (same order) -/
theorem linearBuildI_eq_nat (baseRxns : List (Name × List (Name × Int))) (lv : List (Name × Nat))
    (maps : List (Name × List Int)) (nmaps : List (Name × List Nat)) (il : List (Name × List Nat))
    (h : Fa2 (fun km nkm => nkm.1 = km.1 ∧
      normMap (padLen (isosOf lv) baseRxns km.1) km.2 = .ok nkm.2) maps nmaps) :
    linearBuildI baseRxns lv maps il = linearBuild baseRxns lv nmaps il := by
  unfold linearBuildI linearBuild
  cases hi : (lv.mapM fun kn => do pure (kn.1, ← isotopeLabels kn.1 kn.2)) with
  | error e => rfl
  | ok isos =>
    obtain ⟨_, rfl⟩ := isos_mapM_ok hi
    simp only [bind, Except.bind]
    rw [mapM_linRxnsOfI_eq _ _ _ _ h]

end Mxl.C16
