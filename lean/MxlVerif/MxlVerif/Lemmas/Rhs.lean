/-
`__call__` / `_get_right_hand_side`: the in-place accumulation over the static and the
dynamic coefficient tables computes, for every variable, the sum of coefficient × flux.
Uses associativity/commutativity of `+` on `Rat` (not a statement about float rounding).
-/
import MxlVerif.Lemmas.Init
namespace Mxl

/-- value bound to a name (0 if unbound; every use below is under a hypothesis that the
    Python lookup succeeded) -/
def valOf (dep : Env) (k : Name) : Rat := (dep.lookup k).getD 0

def rowS (dep : Env) : List (Name × Rat) → Rat
  | [] => 0
  | (flux, n) :: r => n * valOf dep flux + rowS dep r

def coefOf (dep : Env) (f : Fn) : Rat := f.fn (f.args.map (valOf dep))

def rowD (dep : Env) : List (Name × Fn) → Rat
  | [] => 0
  | (flux, f) :: r => coefOf dep f * valOf dep flux + rowD dep r

/-- contribution of the static table to variable `x` -/
def contribS (dep : Env) (x : Name) : List (Name × List (Name × Rat)) → Rat
  | [] => 0
  | (k, st) :: rest => (if k = x then rowS dep st else 0) + contribS dep x rest

def contribD (dep : Env) (x : Name) : List (Name × List (Name × Fn)) → Rat
  | [] => 0
  | (k, st) :: rest => (if k = x then rowD dep st else 0) + contribD dep x rest

theorem lookup_omInsert {β} (m : List (Name × β)) (k x : Name) (v : β) :
    (omInsert m k v).lookup x = if x = k then some v else m.lookup x := by
  induction m with
  | nil =>
    simp only [omInsert, List.lookup_cons, List.lookup_nil]
    by_cases h : x = k
    · subst h; simp
    · have : (x == k) = false := by simpa using h
      simp [this, h]
  | cons y ys ih =>
    obtain ⟨k', v'⟩ := y
    unfold omInsert
    by_cases hk : k' = k
    · subst hk
      simp only [beq_self_eq_true, if_true, List.lookup_cons]
      by_cases h : x = k'
      · subst h; simp
      · have : (x == k') = false := by simpa using h
        simp [this, h]
    · have hkk : (k' == k) = false := by simpa using hk
      simp only [hkk, Bool.false_eq_true, if_false, List.lookup_cons]
      by_cases h : x = k'
      · subst h
        have : x ≠ k := hk
        simp [this]
      · have : (x == k') = false := by simpa using h
        simp only [this]
        exact ih

theorem accumulate_lookup {dxdt dxdt' : List (Name × Rat)} {k : Name} {v : Rat}
    (h : accumulate dxdt k v = .ok dxdt') (x : Name) :
    dxdt'.lookup x = (dxdt.lookup x).map (fun old => if x = k then old + v else old) := by
  unfold accumulate at h
  cases hl : dxdt.lookup k with
  | none => rw [hl] at h; cases h
  | some old =>
    rw [hl] at h
    simp only [pure, Except.pure, Except.ok.injEq] at h
    subst h
    rw [lookup_omInsert]
    by_cases hx : x = k
    · subst hx; simp [hl]
    · simp only [hx, if_false]
      cases dxdt.lookup x <;> simp

theorem lookupArgs_valOf {dep : Env} {args : List Name} {vs : List Rat}
    (h : lookupArgs dep args = .ok vs) : vs = args.map (valOf dep) := by
  have := (lookupArgs_ok_iff args vs).mp h
  induction args generalizing vs with
  | nil => cases vs <;> simp_all
  | cons a as ih =>
    cases vs with
    | nil => simp at this
    | cons w ws =>
      simp only [List.map_cons, List.cons.injEq] at this
      have h2 : lookupArgs dep as = .ok ws := (lookupArgs_ok_iff as ws).mpr this.2
      simp only [List.map_cons, List.cons.injEq]
      exact ⟨by simp [valOf, this.1], ih h2 this.2⟩

theorem accStatic_lookup (dep : Env) (k : Name) :
    ∀ (st : List (Name × Rat)) (dxdt dxdt' : List (Name × Rat)),
      accStatic dep k st dxdt = .ok dxdt' → ∀ x,
      dxdt'.lookup x = (dxdt.lookup x).map (fun old => if x = k then old + rowS dep st else old) := by
  intro st
  induction st with
  | nil =>
    intro dxdt dxdt' h x
    simp only [accStatic, pure, Except.pure, Except.ok.injEq] at h
    subst h
    cases dxdt.lookup x <;> simp [rowS, Rat.add_zero]
  | cons e rest ih =>
    intro dxdt dxdt' h x
    obtain ⟨flux, n⟩ := e
    simp only [accStatic] at h
    obtain ⟨fv, h1, h⟩ := bind_ok h
    obtain ⟨d1, h2, h⟩ := bind_ok h
    rw [ih d1 dxdt' h x, accumulate_lookup h2 x]
    have hfv : fv = valOf dep flux := by
      have := (get_ok_iff dep flux fv).mp h1
      simp [valOf, this]
    cases dxdt.lookup x with
    | none => rfl
    | some old =>
      simp only [Option.map_some, rowS]
      by_cases hx : x = k
      · simp only [hx, if_true, hfv]
        congr 1
        rw [Rat.add_assoc]
      · simp [hx]

theorem accStaticAll_lookup (dep : Env) :
    ∀ (tbl : List (Name × List (Name × Rat))) (dxdt dxdt' : List (Name × Rat)),
      accStaticAll dep tbl dxdt = .ok dxdt' → ∀ x,
      dxdt'.lookup x = (dxdt.lookup x).map (fun old => old + contribS dep x tbl) := by
  intro tbl
  induction tbl with
  | nil =>
    intro dxdt dxdt' h x
    simp only [accStaticAll, pure, Except.pure, Except.ok.injEq] at h
    subst h
    cases dxdt.lookup x <;> simp [contribS, Rat.add_zero]
  | cons e rest ih =>
    intro dxdt dxdt' h x
    obtain ⟨k, st⟩ := e
    simp only [accStaticAll] at h
    obtain ⟨d1, h1, h⟩ := bind_ok h
    rw [ih d1 dxdt' h x, accStatic_lookup dep k st dxdt d1 h1 x]
    cases dxdt.lookup x with
    | none => rfl
    | some old =>
      simp only [Option.map_some, contribS]
      by_cases hx : x = k
      · subst hx; simp only [if_true]; congr 1; rw [Rat.add_assoc]
      · have : ¬ k = x := fun h => hx h.symm
        simp only [hx, this, if_false]; congr 1; rw [Rat.zero_add]

theorem accDyn_lookup (dep : Env) (k : Name) :
    ∀ (st : List (Name × Fn)) (dxdt dxdt' : List (Name × Rat)),
      accDyn dep k st dxdt = .ok dxdt' → ∀ x,
      dxdt'.lookup x = (dxdt.lookup x).map (fun old => if x = k then old + rowD dep st else old) := by
  intro st
  induction st with
  | nil =>
    intro dxdt dxdt' h x
    simp only [accDyn, pure, Except.pure, Except.ok.injEq] at h
    subst h
    cases dxdt.lookup x <;> simp [rowD, Rat.add_zero]
  | cons e rest ih =>
    intro dxdt dxdt' h x
    obtain ⟨flux, f⟩ := e
    simp only [accDyn] at h
    obtain ⟨n, h0, h⟩ := bind_ok h
    obtain ⟨fv, h1, h⟩ := bind_ok h
    obtain ⟨d1, h2, h⟩ := bind_ok h
    rw [ih d1 dxdt' h x, accumulate_lookup h2 x]
    have hfv : fv = valOf dep flux := by
      have := (get_ok_iff dep flux fv).mp h1
      simp [valOf, this]
    have hn : n = coefOf dep f := by
      unfold Fn.calc at h0
      obtain ⟨vs, hvs, h0⟩ := bind_ok h0
      simp only [pure, Except.pure, Except.ok.injEq] at h0
      rw [← h0, lookupArgs_valOf hvs]; rfl
    cases dxdt.lookup x with
    | none => rfl
    | some old =>
      simp only [Option.map_some, rowD]
      by_cases hx : x = k
      · simp only [hx, if_true, hfv, hn]
        congr 1
        rw [Rat.add_assoc]
      · simp [hx]

theorem accDynAll_lookup (dep : Env) :
    ∀ (tbl : List (Name × List (Name × Fn))) (dxdt dxdt' : List (Name × Rat)),
      accDynAll dep tbl dxdt = .ok dxdt' → ∀ x,
      dxdt'.lookup x = (dxdt.lookup x).map (fun old => old + contribD dep x tbl) := by
  intro tbl
  induction tbl with
  | nil =>
    intro dxdt dxdt' h x
    simp only [accDynAll, pure, Except.pure, Except.ok.injEq] at h
    subst h
    cases dxdt.lookup x <;> simp [contribD, Rat.add_zero]
  | cons e rest ih =>
    intro dxdt dxdt' h x
    obtain ⟨k, st⟩ := e
    simp only [accDynAll] at h
    obtain ⟨d1, h1, h⟩ := bind_ok h
    rw [ih d1 dxdt' h x, accDyn_lookup dep k st dxdt d1 h1 x]
    cases dxdt.lookup x with
    | none => rfl
    | some old =>
      simp only [Option.map_some, contribD]
      by_cases hx : x = k
      · subst hx; simp only [if_true]; congr 1; rw [Rat.add_assoc]
      · have : ¬ k = x := fun h => hx h.symm
        simp only [hx, this, if_false]; congr 1; rw [Rat.zero_add]

theorem zeros_lookup (vn : List Name) (x : Name) :
    (vn.map fun k => (k, (0 : Rat))).lookup x = if x ∈ vn then some 0 else none := by
  induction vn with
  | nil => simp
  | cons k ks ih =>
    simp only [List.map_cons, List.lookup_cons, List.mem_cons]
    by_cases h : x = k
    · subst h; simp
    · have : (x == k) = false := by simpa using h
      simp only [this, ih, h, false_or]

/-- after `rhsFromArgs`, each variable's entry is the sum of its static and dynamic
    coefficient × flux terms; names that are not variables have no entry -/
theorem rhsFromArgs_lookup {cache : Cache} {vn : List Name} {dep : Env}
    {dxdt : List (Name × Rat)} (h : rhsFromArgs cache vn dep = .ok dxdt) (x : Name) :
    dxdt.lookup x =
      if x ∈ vn then some (contribS dep x cache.stoich + contribD dep x cache.dynStoich)
      else none := by
  unfold rhsFromArgs at h
  obtain ⟨d1, h1, h2⟩ := bind_ok h
  rw [accDynAll_lookup dep _ d1 dxdt h2 x, accStaticAll_lookup dep _ _ d1 h1 x, zeros_lookup]
  by_cases hx : x ∈ vn
  · simp [hx, Rat.zero_add]
  · simp [hx]

end Mxl
