/- C12 — state-dependent coefficients in the cache are the ones the model declares (core Lean only). -/
import MxlVerif.Lemmas.C12Chain
namespace Mxl.C12
open Mxl

theorem mem_omInsert {β} (m : List (Name × β)) (k a : Name) (v b : β) (h : (a, b) ∈ omInsert m k v) :
    (a = k ∧ b = v) ∨ (a, b) ∈ m := by
  induction m with
  | nil => simp [omInsert] at h; exact Or.inl h
  | cons kv m ih =>
    obtain ⟨k', v'⟩ := kv
    by_cases hk : k' = k
    · subst hk
      simp [omInsert] at h
      rcases h with h | h
      · exact Or.inl h
      · exact Or.inr (List.mem_cons_of_mem _ h)
    · have hb : (k' == k) = false := by simpa using hk
      simp only [omInsert, hb, Bool.false_eq_true, if_false, List.mem_cons] at h
      rcases h with h | h
      · exact Or.inr (by simp [h])
      · rcases ih h with h' | h'
        · exact Or.inl h'
        · exact Or.inr (List.mem_cons_of_mem _ h')

/-- the state-dependent coefficient `dv` of `cpd` in `rxn` is declared by the model -/
def Src (all : List (Name × List (Name × Coef))) (cpd rxn : Name) (dv : Fn) : Prop :=
  ∃ stl, (rxn, stl) ∈ all ∧ (cpd, Coef.dyn dv) ∈ stl

def DynInv (all : List (Name × List (Name × Coef))) (d : List (Name × List (Name × Fn))) : Prop :=
  ∀ cpd m rxn dv, (cpd, m) ∈ d → (rxn, dv) ∈ m → Src all cpd rxn dv

theorem dynInv_setNested (all) (d : List (Name × List (Name × Fn))) (cpd rxn : Name) (f : Fn)
    (hd : DynInv all d) (hs : Src all cpd rxn f) : DynInv all (setNested d cpd rxn f) := by
  intro cpd' m' rxn' dv' hm hr
  unfold setNested at hm
  rcases mem_omInsert _ _ _ _ _ hm with ⟨hc, hmm⟩ | hm'
  · subst hc hmm
    rcases mem_omInsert _ _ _ _ _ hr with ⟨h1, h2⟩ | hr'
    · subst h1 h2; exact hs
    · cases hl : d.lookup cpd' with
      | none => simp [hl] at hr'
      | some old =>
        simp [hl] at hr'
        exact hd cpd' old rxn' dv' (lookup_some_mem _ _ _ hl) hr'
  · exact hd cpd' m' rxn' dv' hm' hr

theorem addCoef_dyn (all) (apn : List Name) (dep : Env) (acc acc' : StoichAcc) (rxn cpd : Name)
    (factor : Coef) (h : addCoef apn dep acc rxn cpd factor = .ok acc')
    (hs : ∀ f, factor = .dyn f → Src all cpd rxn f) (hd : DynInv all acc.2) : DynInv all acc'.2 := by
  unfold addCoef at h
  cases factor with
  | num c => simp [pure, Except.pure] at h; subst h; exact hd
  | dyn f =>
    simp only at h
    split at h
    · simp only [bind, Except.bind] at h
      cases hv : f.calc dep with
      | error err => simp [hv] at h
      | ok v => simp [hv, pure, Except.pure] at h; subst h; exact hd
    · simp [pure, Except.pure] at h; subst h
      exact dynInv_setNested all _ _ _ _ hd (hs f rfl)

theorem addCoefs_dyn (all) (apn : List Name) (dep : Env) (rxn : Name) (stl : List (Name × Coef))
    (hstl : (rxn, stl) ∈ all) :
    ∀ (rest : List (Name × Coef)) (acc acc' : StoichAcc), (∀ x ∈ rest, x ∈ stl) →
      addCoefs apn dep rxn rest acc = .ok acc' → DynInv all acc.2 → DynInv all acc'.2 := by
  intro rest
  induction rest with
  | nil => intro acc acc' _ h hd; simp [addCoefs, pure, Except.pure] at h; subst h; exact hd
  | cons cf rest ih =>
    obtain ⟨cpd, f⟩ := cf
    intro acc acc' hsub h hd
    simp only [addCoefs, bind, Except.bind] at h
    cases ha : addCoef apn dep acc rxn cpd f with
    | error err => simp [ha] at h
    | ok acc1 =>
      simp only [ha] at h
      refine ih acc1 acc' (fun x hx => hsub x (List.mem_cons_of_mem _ hx)) h ?_
      apply addCoef_dyn all apn dep acc acc1 rxn cpd f ha _ hd
      intro f' hf'
      subst hf'
      exact ⟨stl, hstl, hsub _ List.mem_cons_self⟩

theorem addRxns_dyn (all) (apn : List Name) (dep : Env) :
    ∀ (rest : List (Name × List (Name × Coef))) (acc acc' : StoichAcc), (∀ x ∈ rest, x ∈ all) →
      addRxns apn dep rest acc = .ok acc' → DynInv all acc.2 → DynInv all acc'.2 := by
  intro rest
  induction rest with
  | nil => intro acc acc' _ h hd; simp [addRxns, pure, Except.pure] at h; subst h; exact hd
  | cons rs rest ih =>
    obtain ⟨rxn, stl⟩ := rs
    intro acc acc' hsub h hd
    simp only [addRxns, bind, Except.bind] at h
    cases ha : addCoefs apn dep rxn stl acc with
    | error err => simp [ha] at h
    | ok acc1 =>
      simp only [ha] at h
      exact ih acc1 acc' (fun x hx => hsub x (List.mem_cons_of_mem _ hx)) h
        (addCoefs_dyn all apn dep rxn stl (hsub _ List.mem_cons_self) stl acc acc1 (fun _ hx => hx) ha hd)

/-- in a well-formed model, what the cache stores as state-dependent coefficient of `k` in
    `flux` is the function whose body `dynBody` finds -/
theorem dynLinked_of_inv (sc : SContent) (w : WFacts sc) (dst : List (Name × List (Name × Fn)))
    (hd : DynInv sc.toContent.allStoich dst) (k : Name) (st : List (Name × Fn)) (hm : (k, st) ∈ dst) :
    DynLinked sc k st := by
  intro flux dv hfd f hb
  obtain ⟨stl, hstl, hcoef⟩ := hd k st flux dv hm hfd
  unfold Content.allStoich at hstl
  have hs : sc.toContent.surs = [] := w.surs
  simp only [hs, List.flatMap_nil, List.append_nil] at hstl
  obtain ⟨⟨k1, rx1⟩, hm1, he1⟩ := List.mem_map.mp hstl
  simp at he1
  obtain ⟨hk1, hst1⟩ := he1
  subst hk1
  -- rx1 is the numeric image of a symbolic reaction
  have : (k1, rx1) ∈ sc.rxns.map fun kv => (kv.1, kv.2.toRxn) := hm1
  obtain ⟨⟨k2, r⟩, hm2, he2⟩ := List.mem_map.mp this
  simp at he2
  obtain ⟨hk2, hr2⟩ := he2
  subst hk2 hr2
  have hlr : sc.rxns.lookup k2 = some r := lookup_of_mem_nodup _ _ _ w.rN hm2
  rw [← hst1] at hcoef
  simp only [SRxn.toRxn] at hcoef
  obtain ⟨⟨k3, co⟩, hm3, he3⟩ := List.mem_map.mp hcoef
  simp at he3
  obtain ⟨hk3, hco⟩ := he3
  subst hk3
  have hlc : r.stoich.lookup k3 = some co := lookup_of_mem_nodup _ _ _ (w.stN _ hm2) hm3
  unfold dynBody at hb
  rw [hlr] at hb
  simp only [hlc] at hb
  cases co with
  | num c => simp at hb
  | dyn f' =>
    simp at hb
    subst hb
    simp [SCoef.toCoef] at hco
    exact hco.symm

end Mxl.C12
