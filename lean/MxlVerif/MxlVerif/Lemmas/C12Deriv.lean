/- C12 — the formal derivative `D` is the derivative (Mathlib's `HasDerivAt` over the normed field ℚ).

`Model/C12Sym.lean`'s `evalS` computes in core `Rat`; Mathlib's field structure on `ℚ` is built from the very
same operations, so `HasDerivAt` (Fréchet derivative in one variable, `𝕜 = ℚ` with its absolute value) can be
stated about the model's own evaluator.  The proof is one structural induction over `SExpr` using the sum /
product / quotient / power rules of `Mathlib.Analysis.Calculus.Deriv.*`.  -/
import Mathlib.Analysis.Calculus.Deriv.Add
import Mathlib.Analysis.Calculus.Deriv.Mul
import Mathlib.Analysis.Calculus.Deriv.Inv
import Mathlib.Analysis.Calculus.Deriv.Pow
import MxlVerif.Lemmas.C12JacRhs
import MxlVerif.Lemmas.C12Total
namespace Mxl.C12
open Mxl

/-- along the symbol `x`, at ANY base value `a` at which no denominator of `e` vanishes, the function
    `v ↦ e[x := v]` has derivative `(D x e)[x := a]` -/
theorem hasDerivAt_evalS (ρ : Name → Rat) (x : Name) (a : Rat) (e : SExpr)
    (hd : DenOK (upd ρ x a) e) :
    HasDerivAt (fun v : ℚ => evalS (upd ρ x v) e) (evalS (upd ρ x a) (D x e)) a := by
  induction e with
  | sym n =>
    by_cases hn : (n == x) = true
    · have h1 : (fun v : ℚ => evalS (upd ρ x v) (.sym n)) = fun v => v := by
        funext v; simp [evalS, upd, hn]
      have h2 : evalS (upd ρ x a) (D x (.sym n)) = 1 := by simp [D, hn, evalS]
      rw [h1, h2]; exact hasDerivAt_id a
    · have hn' : (n == x) = false := by simpa using hn
      have h1 : (fun v : ℚ => evalS (upd ρ x v) (.sym n)) = fun _ => ρ n := by
        funext v; simp [evalS, upd, hn']
      have h2 : evalS (upd ρ x a) (D x (.sym n)) = 0 := by simp [D, hn', evalS]
      rw [h1, h2]; exact hasDerivAt_const a (ρ n)
  | const q =>
    show HasDerivAt (fun _ : ℚ => q) 0 a
    exact hasDerivAt_const a q
  | add p q ihp ihq =>
    exact (ihp hd.1).fun_add (ihq hd.2)
  | sub p q ihp ihq =>
    exact (ihp hd.1).fun_sub (ihq hd.2)
  | mul p q ihp ihq =>
    exact (ihp hd.1).fun_mul (ihq hd.2)
  | div p q ihp ihq =>
    have h := (ihp hd.1).fun_div (ihq hd.2.1) hd.2.2
    have e2 : evalS (upd ρ x a) (D x (.div p q)) =
        (evalS (upd ρ x a) (D x p) * evalS (upd ρ x a) q - evalS (upd ρ x a) p * evalS (upd ρ x a) (D x q))
          / evalS (upd ρ x a) q ^ 2 := by
      show _ / (evalS (upd ρ x a) q * evalS (upd ρ x a) q) = _
      rw [sq]; rfl
    rw [e2]; exact h
  | neg p ihp =>
    exact (ihp hd).fun_neg
  | pow p n ihp =>
    cases n with
    | zero =>
      have h1 : (fun v : ℚ => evalS (upd ρ x v) (.pow p 0)) = fun _ => 1 := by
        funext v; simp [evalS]
      rw [h1]
      show HasDerivAt (fun _ : ℚ => (1 : ℚ)) 0 a
      exact hasDerivAt_const a 1
    | succ n =>
      have h := (ihp hd).fun_pow (n + 1)
      simpa [D, evalS] using h

/-- the same at the base environment itself (`ρ[x := ρ x] = ρ`) -/
theorem hasDerivAt_evalS_self (ρ : Name → Rat) (x : Name) (e : SExpr) (hd : DenOK ρ e) :
    HasDerivAt (fun v : ℚ => evalS (upd ρ x v) e) (evalS ρ (D x e)) (ρ x) := by
  have hself : upd ρ x (ρ x) = ρ := by
    funext n; unfold upd; by_cases h : (n == x) = true
    · have : n = x := by simpa using h
      simp [this]
    · simp [h]
  have := hasDerivAt_evalS ρ x (ρ x) e (by rw [hself]; exact hd)
  rwa [hself] at this

/-- row `i`, column `j` of the symbolic Jacobian is the derivative (`HasDerivAt`) of component `i` of the numeric
    right-hand side with respect to the `j`-th state value.  `F v` is what `Model.__call__` returns when the
    `j`-th state value is `v` and the others are those of `xs`. -/
theorem jac_hasDerivAt (sc : SContent) (hwf : sc.wf = true) (t : Rat) (xs : List Rat) (j : Nat)
    (es : List SExpr) (hj : j < xs.length) (hs : toSymbolic sc = .ok es)
    (F : Rat → List Rat) (hF : ∀ v, callRhs sc.toContent t (xs.set j v) = .ok (F v)) :
    ∃ cache x, createCache sc.toContent = .ok cache ∧ cache.varNames[j]? = some x ∧
      ∀ (i : Nat) (e : SExpr), es[i]? = some e → DenOK (symEnv sc cache xs) e →
        HasDerivAt (fun v : ℚ => (F v).getD i 0) (evalS (symEnv sc cache xs) (D x e)) xs[j] := by
  have h0 : callRhs sc.toContent t xs = .ok (F xs[j]) := by
    have := hF xs[j]; rwa [List.set_getElem_self] at this
  obtain ⟨cache, hc, _⟩ := eqs_sound sc hwf t xs es (F xs[j]) hs h0
  have hlen := callRhs_len _ _ _ _ _ hc h0
  have hjv : j < cache.varNames.length := hlen ▸ hj
  refine ⟨cache, cache.varNames[j], hc, by simp [hjv], ?_⟩
  intro i e hie hd
  have hρx : symEnv sc cache xs cache.varNames[j] = xs[j] := symEnv_var sc hwf cache hc xs j hlen hjv
  have hfun : (fun v : ℚ => (F v).getD i 0) =
      fun v => evalS (upd (symEnv sc cache xs) cache.varNames[j] v) e := by
    funext v
    obtain ⟨cache', hc', hv⟩ := eqs_sound sc hwf t _ es (F v) hs (hF v)
    rw [hc] at hc'
    have hcc : cache' = cache := by injection hc' with h'; exact h'.symm
    rw [hcc, symEnv_set sc hwf cache hc xs j v hlen hjv] at hv
    rw [← hv]
    simp [List.getD, List.getElem?_map, hie]
  rw [hfun, ← hρx]
  exact hasDerivAt_evalS_self _ _ e hd

/-- what `Model.__call__` returns with the `j`-th state value set to `v` (`[]` if it raised — it does not, see below) -/
def rhsAlong (sc : SContent) (t : Rat) (xs : List Rat) (j : Nat) (v : Rat) : List Rat :=
  match callRhs sc.toContent t (xs.set j v) with
  | .ok ds => ds
  | .error _ => []

/-- the same without any assumption about other states: being defined at `xs` is enough (`callRhs_total`) -/
theorem jac_hasDerivAt_total (sc : SContent) (hwf : sc.wf = true) (t : Rat) (xs ds : List Rat) (j : Nat)
    (es : List SExpr) (hj : j < xs.length) (hs : toSymbolic sc = .ok es) (h0 : callRhs sc.toContent t xs = .ok ds) :
    ∃ cache x, createCache sc.toContent = .ok cache ∧ cache.varNames[j]? = some x ∧
      ∀ (i : Nat) (e : SExpr), es[i]? = some e → DenOK (symEnv sc cache xs) e →
        HasDerivAt (fun v : ℚ => (rhsAlong sc t xs j v).getD i 0) (evalS (symEnv sc cache xs) (D x e)) xs[j] := by
  apply jac_hasDerivAt sc hwf t xs j es hj hs (rhsAlong sc t xs j)
  intro v
  obtain ⟨ds', hds'⟩ := callRhs_total sc.toContent (allFn_of_wf sc hwf) t xs (xs.set j v) ds (by simp) h0
  unfold rhsAlong
  rw [hds']

end Mxl.C12
