/-
C07, generalisation to variables defined by initial assignments: the sort elements are the assignment
functions of such variables, the derived quantities and the reactions; the generated program skips the first
kind (variables are inputs).  Core Lean only.
-/
import MxlVerif.Lemmas.C07Main
namespace Mxl.C07
open Mxl

/-! ### plain and assignment-defined parts of a container -/

theorem keys_plainOf_sub : ∀ (m : List (Name × Val)) (a : Name), a ∈ (plainOf m).map (·.1) → a ∈ omKeys m := by
  intro m; induction m with
  | nil => intro a h; cases h
  | cons kv rest ih =>
    intro a h
    obtain ⟨k, v⟩ := kv
    cases v with
    | plain q =>
      simp only [plainOf, List.filterMap_cons, List.map_cons, List.mem_cons] at h
      rcases h with h | h
      · simp [omKeys, h]
      · exact List.mem_cons_of_mem _ (ih a h)
    | ia f =>
      simp only [plainOf, List.filterMap_cons] at h
      exact List.mem_cons_of_mem _ (ih a h)

theorem keys_iaOf_sub : ∀ (m : List (Name × Val)) (a : Name), a ∈ (iaOf m).map (·.1) → a ∈ omKeys m := by
  intro m; induction m with
  | nil => intro a h; cases h
  | cons kv rest ih =>
    intro a h
    obtain ⟨k, v⟩ := kv
    cases v with
    | ia f =>
      simp only [iaOf, List.filterMap_cons, List.map_cons, List.mem_cons] at h
      rcases h with h | h
      · simp [omKeys, h]
      · exact List.mem_cons_of_mem _ (ih a h)
    | plain q =>
      simp only [iaOf, List.filterMap_cons] at h
      exact List.mem_cons_of_mem _ (ih a h)

theorem keys_iaOf_nodup : ∀ (m : List (Name × Val)), (omKeys m).Nodup → ((iaOf m).map (·.1)).Nodup := by
  intro m; induction m with
  | nil => intro _; simp [iaOf]
  | cons kv rest ih =>
    intro h
    obtain ⟨k, v⟩ := kv
    simp only [omKeys, List.map_cons, List.nodup_cons] at h
    cases v with
    | ia f =>
      simp only [iaOf, List.filterMap_cons, List.map_cons, List.nodup_cons]
      exact ⟨fun hm => h.1 (keys_iaOf_sub rest k hm), ih h.2⟩
    | plain q =>
      simp only [iaOf, List.filterMap_cons]
      exact ih h.2

theorem keys_plainOf_nodup : ∀ (m : List (Name × Val)), (omKeys m).Nodup → ((plainOf m).map (·.1)).Nodup := by
  intro m; induction m with
  | nil => intro _; simp [plainOf]
  | cons kv rest ih =>
    intro h
    obtain ⟨k, v⟩ := kv
    simp only [omKeys, List.map_cons, List.nodup_cons] at h
    cases v with
    | plain q =>
      simp only [plainOf, List.filterMap_cons, List.map_cons, List.nodup_cons]
      exact ⟨fun hm => h.1 (keys_plainOf_sub rest k hm), ih h.2⟩
    | ia f =>
      simp only [plainOf, List.filterMap_cons]
      exact ih h.2

/-! ### sort elements -/

/-- the function attached to a sort element: reaction rate, derived function, or a variable's assignment -/
def defOfE (c : Content) (k : Name) : Option Fn :=
  match c.rxns.lookup k with
  | some r => some r.rate
  | none => match c.derived.lookup k with
    | some f => some f
    | none => (iaOf c.vars).lookup k

def defsE (c : Content) (o : List Name) : List (Name × Fn) :=
  o.filterMap fun k => (defOfE c k).map fun f => (k, f)

theorem toSort_eqV {c : Content} (h : OkV c) :
    c.toSort = omUnion (omUnion ((iaOf c.vars).map fun kv => (kv.1, Comp.fn kv.2))
        (c.derived.map fun kv => (kv.1, Comp.fn kv.2)))
      (c.rxns.map fun kv => (kv.1, Comp.fn kv.2.rate)) := by
  have h2 := (plainOf_noIA h.iaP).2
  simp [Content.toSort, h2, h.surs, omUnion_nil_right]

theorem toSort_lookupV {c : Content} (h : OkV c) (k : Name) :
    c.toSort.lookup k = (defOfE c k).map Comp.fn := by
  have hn := h.names
  rw [toSort_eqV h, lookup_omUnion _ _ _ (by rw [keys_map_snd (fun r : Rxn => Comp.fn r.rate)]; exact hn.rNd),
    lookup_omUnion _ _ _ (by rw [keys_map_snd Comp.fn]; exact hn.dNd)]
  rw [lookup_map_snd (fun r : Rxn => Comp.fn r.rate), lookup_map_snd Comp.fn, lookup_map_snd Comp.fn]
  unfold defOfE
  cases c.rxns.lookup k <;> cases c.derived.lookup k <;> simp

theorem toSort_keysV {c : Content} (h : OkV c) :
    (c.toSort.map (·.1)).Nodup ∧ ∀ x, x ∈ c.toSort.map (·.1) ↔
      (x ∈ (iaOf c.vars).map (·.1) ∨ x ∈ omKeys c.derived ∨ x ∈ omKeys c.rxns) := by
  rw [toSort_eqV h]
  have h0 : (((iaOf c.vars).map fun kv => (kv.1, Comp.fn kv.2)).map (·.1)).Nodup := by
    rw [keys_map_snd Comp.fn]; exact keys_iaOf_nodup _ h.names.vNd
  obtain ⟨h1, h2⟩ := keys_omUnion_nodup (c.derived.map fun kv => (kv.1, Comp.fn kv.2)) _ h0
  obtain ⟨h3, h4⟩ := keys_omUnion_nodup (c.rxns.map fun kv => (kv.1, Comp.fn kv.2.rate)) _ h1
  refine ⟨h3, fun x => ?_⟩
  rw [h4 x, h2 x, keys_map_snd (fun r : Rxn => Comp.fn r.rate), keys_map_snd Comp.fn, keys_map_snd Comp.fn]
  simp [omKeys, or_assoc]

theorem order_factsV {c : Content} (h : OkV c) {order : List Name}
    (hs : sortDeps c.available c.deps = .ok order) :
    order.Nodup ∧ (∀ k, k ∈ order ↔
      (k ∈ (iaOf c.vars).map (·.1) ∨ k ∈ omKeys c.derived ∨ k ∈ omKeys c.rxns)) := by
  have hp := sortDeps_perm hs
  have hnames : c.deps.map (·.name) = c.toSort.map (·.1) := by
    simp [Content.deps, List.map_map, Function.comp_def]
  rw [hnames] at hp
  obtain ⟨h1, h2⟩ := toSort_keysV h
  exact ⟨hp.nodup_iff.mpr h1, fun k => by rw [hp.mem_iff, h2 k]⟩

theorem defOfE_some_of_mem {c : Content} (h : OkV c) {k : Name}
    (hk : k ∈ (iaOf c.vars).map (·.1) ∨ k ∈ omKeys c.derived ∨ k ∈ omKeys c.rxns) :
    ∃ f, defOfE c k = some f := by
  have hn := h.names
  unfold defOfE
  rcases hk with hk | hk | hk
  · have hv : k ∈ omKeys c.vars := keys_iaOf_sub _ _ hk
    rw [lookup_none_of_not_mem (hn.vr k hv), lookup_none_of_not_mem (hn.vd k hv)]
    exact lookup_some_of_mem_keys hk
  · rw [lookup_none_of_not_mem (hn.dr k hk)]
    obtain ⟨f, hf⟩ := lookup_some_of_mem_keys (m := c.derived) hk
    exact ⟨f, by rw [hf]⟩
  · obtain ⟨r, hr⟩ := lookup_some_of_mem_keys (m := c.rxns) hk
    exact ⟨r.rate, by rw [hr]⟩

theorem mapM_defOfE {c : Content} (h : OkV c) : ∀ {o : List Name},
    (∀ k ∈ o, k ∈ (iaOf c.vars).map (·.1) ∨ k ∈ omKeys c.derived ∨ k ∈ omKeys c.rxns) →
    o.mapM (fun k => (defOfE c k).map fun f => (k, f)) = some (defsE c o) ∧ (defsE c o).map (·.1) = o := by
  intro o; induction o with
  | nil => intro _; exact ⟨rfl, rfl⟩
  | cons k ks ih =>
    intro ho
    obtain ⟨f, hf⟩ := defOfE_some_of_mem h (ho k List.mem_cons_self)
    obtain ⟨h1, h2⟩ := ih (fun k' hk' => ho k' (List.mem_cons_of_mem _ hk'))
    constructor
    · simp [List.mapM_cons, hf, h1, defsE]
    · simp only [defsE, List.filterMap_cons, hf, Option.map_some, List.map_cons] at h2 ⊢
      rw [h2]

theorem evalInOrder_defsE {c : Content} (h : OkV c) {o : List Name}
    (ho : ∀ k ∈ o, k ∈ (iaOf c.vars).map (·.1) ∨ k ∈ omKeys c.derived ∨ k ∈ omKeys c.rxns) (env : Env) :
    evalInOrder c.toSort o env = evalSeq (defsE c o) env := by
  have := evalInOrder_eq_evalSeq c.toSort (defOfE c) (toSort_lookupV h) o env
  rw [(mapM_defOfE h ho).1] at this
  exact this

/-- the generated body = the sort elements without the variables -/
theorem defsOf_eq_filter {c : Content} (h : OkV c) : ∀ (o : List Name),
    defsOf c o = (defsE c o).filter fun kf => !(omKeys c.vars).contains kf.1 := by
  have hn := h.names
  intro o; induction o with
  | nil => rfl
  | cons k ks ih =>
    simp only [defsOf, defsE, List.filterMap_cons] at ih ⊢
    by_cases hv : k ∈ omKeys c.vars
    · have hd : defOf c k = none := by
        simp [defOf, lookup_none_of_not_mem (hn.vr k hv), lookup_none_of_not_mem (hn.vd k hv)]
      rw [hd]
      cases he : defOfE c k with
      | none => simpa using ih
      | some f =>
        have hc : (omKeys c.vars).contains k = true := by simpa using hv
        simp only [Option.map_some, Option.map_none, List.filter_cons, hc, Bool.not_true, Bool.false_eq_true, if_false]
        exact ih
    · have hd : defOfE c k = defOf c k := by
        unfold defOfE defOf
        cases c.rxns.lookup k with
        | some r => rfl
        | none =>
          cases c.derived.lookup k with
          | some f => rfl
          | none => exact lookup_none_of_not_mem (fun hm => hv (keys_iaOf_sub _ _ hm))
      rw [hd]
      cases defOf c k with
      | none => simpa using ih
      | some f =>
        have hc : (omKeys c.vars).contains k = false := by simpa using hv
        simp only [Option.map_some, List.filter_cons, hc, Bool.not_false, if_true]
        rw [ih]

end Mxl.C07
