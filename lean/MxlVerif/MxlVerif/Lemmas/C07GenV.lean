/-
C07, generalisation to variables defined by initial assignments: the sort elements are the assignment
functions of such variables, the derived quantities and the reactions; the generated program skips the first
kind (variables are inputs).  Core Lean only.
-/
import MxlVerif.Lemmas.C07Main
namespace Mxl.C07
open Mxl

/-! ### plain and assignment-defined parts of a container -/

theorem keys_plainOf_sub : ∀ (m : List (Name × Val)) (a : Name), a ∈ (plainOf m).map (·.1) → a ∈ omKeys m := by
  intro m; induction m with
  | nil => intro a h; cases h
  | cons kv rest ih =>
    intro a h
    obtain ⟨k, v⟩ := kv
    cases v with
    | plain q =>
      simp only [plainOf, List.filterMap_cons, List.map_cons, List.mem_cons] at h
      rcases h with h | h
      · simp [omKeys, h]
      · exact List.mem_cons_of_mem _ (ih a h)
    | ia f =>
      simp only [plainOf, List.filterMap_cons] at h
      exact List.mem_cons_of_mem _ (ih a h)

theorem keys_iaOf_sub : ∀ (m : List (Name × Val)) (a : Name), a ∈ (iaOf m).map (·.1) → a ∈ omKeys m := by
  intro m; induction m with
  | nil => intro a h; cases h
  | cons kv rest ih =>
    intro a h
    obtain ⟨k, v⟩ := kv
    cases v with
    | ia f =>
      simp only [iaOf, List.filterMap_cons, List.map_cons, List.mem_cons] at h
      rcases h with h | h
      · simp [omKeys, h]
      · exact List.mem_cons_of_mem _ (ih a h)
    | plain q =>
      simp only [iaOf, List.filterMap_cons] at h
      exact List.mem_cons_of_mem _ (ih a h)

theorem keys_iaOf_nodup : ∀ (m : List (Name × Val)), (omKeys m).Nodup → ((iaOf m).map (·.1)).Nodup := by
  intro m; induction m with
  | nil => intro _; simp [iaOf]
  | cons kv rest ih =>
    intro h
    obtain ⟨k, v⟩ := kv
    simp only [omKeys, List.map_cons, List.nodup_cons] at h
    cases v with
    | ia f =>
      simp only [iaOf, List.filterMap_cons, List.map_cons, List.nodup_cons]
      exact ⟨fun hm => h.1 (keys_iaOf_sub rest k hm), ih h.2⟩
    | plain q =>
      simp only [iaOf, List.filterMap_cons]
      exact ih h.2

theorem keys_plainOf_nodup : ∀ (m : List (Name × Val)), (omKeys m).Nodup → ((plainOf m).map (·.1)).Nodup := by
  intro m; induction m with
  | nil => intro _; simp [plainOf]
  | cons kv rest ih =>
    intro h
    obtain ⟨k, v⟩ := kv
    simp only [omKeys, List.map_cons, List.nodup_cons] at h
    cases v with
    | plain q =>
      simp only [plainOf, List.filterMap_cons, List.map_cons, List.nodup_cons]
      exact ⟨fun hm => h.1 (keys_plainOf_sub rest k hm), ih h.2⟩
    | ia f =>
      simp only [plainOf, List.filterMap_cons]
      exact ih h.2

theorem keys_split : ∀ (m : List (Name × Val)) (a : Name), a ∈ omKeys m →
    a ∈ (plainOf m).map (·.1) ∨ a ∈ (iaOf m).map (·.1) := by
  intro m; induction m with
  | nil => intro a h; cases h
  | cons kv rest ih =>
    intro a h
    obtain ⟨k, v⟩ := kv
    simp only [omKeys, List.map_cons, List.mem_cons] at h
    cases v with
    | plain q =>
      simp only [plainOf, iaOf, List.filterMap_cons, List.map_cons, List.mem_cons]
      rcases h with h | h
      · exact Or.inl (Or.inl h)
      · exact (ih a h).imp (fun x => Or.inr x) id
    | ia f =>
      simp only [plainOf, iaOf, List.filterMap_cons, List.map_cons, List.mem_cons]
      rcases h with h | h
      · exact Or.inr (Or.inl h)
      · exact (ih a h).imp id (fun x => Or.inr x)

theorem plain_ia_disjoint : ∀ (m : List (Name × Val)) (a : Name), (omKeys m).Nodup →
    a ∈ (plainOf m).map (·.1) → a ∉ (iaOf m).map (·.1) := by
  intro m; induction m with
  | nil => intro a _ h; cases h
  | cons kv rest ih =>
    intro a hnd h
    obtain ⟨k, v⟩ := kv
    simp only [omKeys, List.map_cons, List.nodup_cons] at hnd
    cases v with
    | plain q =>
      simp only [plainOf, iaOf, List.filterMap_cons, List.map_cons, List.mem_cons] at h ⊢
      rcases h with h | h
      · subst h; exact fun hm => hnd.1 (keys_iaOf_sub rest a hm)
      · exact ih a hnd.2 h
    | ia f =>
      simp only [plainOf, iaOf, List.filterMap_cons, List.map_cons, List.mem_cons, not_or] at h ⊢
      exact ⟨fun hak => hnd.1 (hak ▸ keys_plainOf_sub rest a h), ih a hnd.2 h⟩

/-! ### sort elements -/

/-- `initial_assignments`: of the variables, then of the parameters -/
def iasOf (c : Content) : List (Name × Fn) := omUnion (iaOf c.vars) (iaOf c.pars)

/-- a name the dependency sort places: a variable or a parameter defined by an initial assignment, a derived
    quantity, a reaction -/
def IsElem (c : Content) (k : Name) : Prop :=
  k ∈ (iaOf c.vars).map (·.1) ∨ k ∈ (iaOf c.pars).map (·.1) ∨ k ∈ omKeys c.derived ∨ k ∈ omKeys c.rxns

theorem iasOf_keys {c : Content} (h : OkV c) :
    ((iasOf c).map (·.1)).Nodup ∧ ∀ x, x ∈ (iasOf c).map (·.1) ↔
      (x ∈ (iaOf c.vars).map (·.1) ∨ x ∈ (iaOf c.pars).map (·.1)) :=
  keys_omUnion_nodup (iaOf c.pars) (iaOf c.vars) (keys_iaOf_nodup _ h.names.vNd)

theorem iasOf_sub {c : Content} (h : OkV c) {x : Name} (hx : x ∈ (iasOf c).map (·.1)) :
    x ∈ omKeys c.vars ∨ x ∈ omKeys c.pars :=
  ((iasOf_keys h).2 x).mp hx |>.imp (keys_iaOf_sub _ _) (keys_iaOf_sub _ _)

/-- the function attached to a sort element: reaction rate, derived function, or an initial assignment -/
def defOfE (c : Content) (k : Name) : Option Fn :=
  match c.rxns.lookup k with
  | some r => some r.rate
  | none => match c.derived.lookup k with
    | some f => some f
    | none => (iasOf c).lookup k

def defsE (c : Content) (o : List Name) : List (Name × Fn) :=
  o.filterMap fun k => (defOfE c k).map fun f => (k, f)

theorem toSort_eqV {c : Content} (h : OkV c) :
    c.toSort = omUnion (omUnion ((iasOf c).map fun kv => (kv.1, Comp.fn kv.2))
        (c.derived.map fun kv => (kv.1, Comp.fn kv.2)))
      (c.rxns.map fun kv => (kv.1, Comp.fn kv.2.rate)) := by
  simp [Content.toSort, iasOf, h.surs, omUnion_nil_right]

theorem toSort_lookupV {c : Content} (h : OkV c) (k : Name) :
    c.toSort.lookup k = (defOfE c k).map Comp.fn := by
  have hn := h.names
  rw [toSort_eqV h, lookup_omUnion _ _ _ (by rw [keys_map_snd (fun r : Rxn => Comp.fn r.rate)]; exact hn.rNd),
    lookup_omUnion _ _ _ (by rw [keys_map_snd Comp.fn]; exact hn.dNd)]
  rw [lookup_map_snd (fun r : Rxn => Comp.fn r.rate), lookup_map_snd Comp.fn, lookup_map_snd Comp.fn]
  unfold defOfE
  cases c.rxns.lookup k <;> cases c.derived.lookup k <;> simp

theorem toSort_keysV {c : Content} (h : OkV c) :
    (c.toSort.map (·.1)).Nodup ∧ ∀ x, x ∈ c.toSort.map (·.1) ↔ IsElem c x := by
  rw [toSort_eqV h]
  have h0 : (((iasOf c).map fun kv => (kv.1, Comp.fn kv.2)).map (·.1)).Nodup := by
    rw [keys_map_snd Comp.fn]; exact (iasOf_keys h).1
  obtain ⟨h1, h2⟩ := keys_omUnion_nodup (c.derived.map fun kv => (kv.1, Comp.fn kv.2)) _ h0
  obtain ⟨h3, h4⟩ := keys_omUnion_nodup (c.rxns.map fun kv => (kv.1, Comp.fn kv.2.rate)) _ h1
  refine ⟨h3, fun x => ?_⟩
  rw [h4 x, h2 x, keys_map_snd (fun r : Rxn => Comp.fn r.rate), keys_map_snd Comp.fn, keys_map_snd Comp.fn,
    (iasOf_keys h).2 x]
  simp [IsElem, omKeys, or_assoc]

theorem order_factsV {c : Content} (h : OkV c) {order : List Name}
    (hs : sortDeps c.available c.deps = .ok order) :
    order.Nodup ∧ (∀ k, k ∈ order ↔ IsElem c k) := by
  have hp := sortDeps_perm hs
  have hnames : c.deps.map (·.name) = c.toSort.map (·.1) := by
    simp [Content.deps, List.map_map, Function.comp_def]
  rw [hnames] at hp
  obtain ⟨h1, h2⟩ := toSort_keysV h
  exact ⟨hp.nodup_iff.mpr h1, fun k => by rw [hp.mem_iff, h2 k]⟩

theorem defOfE_some_of_mem {c : Content} (h : OkV c) {k : Name} (hk : IsElem c k) :
    ∃ f, defOfE c k = some f := by
  have hn := h.names
  unfold defOfE
  rcases hk with hk | hk | hk | hk
  · have hv : k ∈ omKeys c.vars := keys_iaOf_sub _ _ hk
    rw [lookup_none_of_not_mem (hn.vr k hv), lookup_none_of_not_mem (hn.vd k hv)]
    exact lookup_some_of_mem_keys (((iasOf_keys h).2 k).mpr (Or.inl hk))
  · have hp : k ∈ omKeys c.pars := keys_iaOf_sub _ _ hk
    rw [lookup_none_of_not_mem (hn.pr k hp), lookup_none_of_not_mem (hn.pd k hp)]
    exact lookup_some_of_mem_keys (((iasOf_keys h).2 k).mpr (Or.inr hk))
  · rw [lookup_none_of_not_mem (hn.dr k hk)]
    obtain ⟨f, hf⟩ := lookup_some_of_mem_keys (m := c.derived) hk
    exact ⟨f, by rw [hf]⟩
  · obtain ⟨r, hr⟩ := lookup_some_of_mem_keys (m := c.rxns) hk
    exact ⟨r.rate, by rw [hr]⟩

theorem mapM_defOfE {c : Content} (h : OkV c) : ∀ {o : List Name},
    (∀ k ∈ o, IsElem c k) →
    o.mapM (fun k => (defOfE c k).map fun f => (k, f)) = some (defsE c o) ∧ (defsE c o).map (·.1) = o := by
  intro o; induction o with
  | nil => intro _; exact ⟨rfl, rfl⟩
  | cons k ks ih =>
    intro ho
    obtain ⟨f, hf⟩ := defOfE_some_of_mem h (ho k List.mem_cons_self)
    obtain ⟨h1, h2⟩ := ih (fun k' hk' => ho k' (List.mem_cons_of_mem _ hk'))
    constructor
    · simp [List.mapM_cons, hf, h1, defsE]
    · simp only [defsE, List.filterMap_cons, hf, Option.map_some, List.map_cons] at h2 ⊢
      rw [h2]

theorem evalInOrder_defsE {c : Content} (h : OkV c) {o : List Name}
    (ho : ∀ k ∈ o, IsElem c k) (env : Env) :
    evalInOrder c.toSort o env = evalSeq (defsE c o) env := by
  have := evalInOrder_eq_evalSeq c.toSort (defOfE c) (toSort_lookupV h) o env
  rw [(mapM_defOfE h ho).1] at this
  exact this

/-! ### the names of the order, their classification -/

theorem order_kinds {c : Content} (hok : OkV c) {order : List Name} (homem : ∀ k, k ∈ order ↔ IsElem c k) :
    (∀ k ∈ order, k ∈ omKeys c.vars ∨ k ∈ omKeys c.pars ∨
        (k ∉ omKeys c.vars ∧ k ∉ omKeys c.pars ∧ (k ∈ omKeys c.derived ∨ k ∈ omKeys c.rxns)))
    ∧ (∀ k ∈ order, k ≠ "time") := by
  have hn := hok.names
  have h1 : ∀ k ∈ order, k ∈ omKeys c.vars ∨ k ∈ omKeys c.pars ∨
        (k ∉ omKeys c.vars ∧ k ∉ omKeys c.pars ∧ (k ∈ omKeys c.derived ∨ k ∈ omKeys c.rxns)) := by
    intro k hk
    rcases (homem k).mp hk with h | h | h | h
    · exact Or.inl (keys_iaOf_sub _ _ h)
    · exact Or.inr (Or.inl (keys_iaOf_sub _ _ h))
    · exact Or.inr (Or.inr ⟨fun hv => hn.vd k hv h, fun hp => hn.pd k hp h, Or.inl h⟩)
    · exact Or.inr (Or.inr ⟨fun hv => hn.vr k hv h, fun hp => hn.pr k hp h, Or.inr h⟩)
  refine ⟨h1, ?_⟩
  intro k hk ht
  rcases h1 k hk with h | h | ⟨_, _, h | h⟩
  · exact hn.time_v (ht ▸ h)
  · exact hn.time_p (ht ▸ h)
  · exact hn.time_d (ht ▸ h)
  · exact hn.time_r (ht ▸ h)

theorem classify_order {c : Content} (hok : OkV c) {order : List Name} (hond : order.Nodup)
    (homem : ∀ k, k ∈ order ↔ IsElem c k) :
    ∃ apn', classify c order [] [] (omKeys c.pars)
        = (order.filter (fun k => (omKeys c.vars).contains k || apn'.contains k),
           order.filter (fun k => !((omKeys c.vars).contains k || apn'.contains k)), apn')
      ∧ (∀ a, a ∈ omKeys c.pars → a ∈ apn')
      ∧ (∀ a, a ∈ apn' → a ∈ omKeys c.pars ∨ (a ∈ order ∧ a ∉ omKeys c.vars ∧ a ∉ omKeys c.pars))
      ∧ (∀ k ∈ order, k ∈ apn' → k ∈ omKeys c.pars ∨ (k ∉ omKeys c.rxns ∧ k ∉ omKeys c.vars ∧
            ∃ d, c.derived.lookup k = some d ∧ ∀ a ∈ d.args, a ∈ apn')) := by
  have hn := hok.names
  obtain ⟨hk, _⟩ := order_kinds hok homem
  obtain ⟨apn', h1, h2, h3, h4⟩ := classify_specP c hok.surs order [] [] (omKeys c.pars) hond
    (fun a ha => ha) (fun k _ h => h)
    (fun k _ h => h.elim (hn.vr k) (hn.pr k))
    (fun k _ hv => hn.vp k hv)
    (fun k hko => by
      rcases hk k hko with h | h | ⟨_, _, h | h⟩
      · exact Or.inr (Or.inl h)
      · exact Or.inr (Or.inr (Or.inl h))
      · exact Or.inr (Or.inr (Or.inr (lookup_some_of_mem_keys h)))
      · exact Or.inl h)
  exact ⟨apn', by simpa using h1, h2, h3, h4⟩

/-- a name that is written as an input or as a constant, not as an assignment of the body -/
def isFixed (c : Content) (k : Name) : Bool := (omKeys c.vars).contains k || (omKeys c.pars).contains k

/-- the generated body = the sort elements without the variables and the parameters -/
theorem defsOf_eq_filter {c : Content} (h : OkV c) : ∀ (o : List Name),
    defsOf c o = (defsE c o).filter fun kf => !isFixed c kf.1 := by
  have hn := h.names
  intro o; induction o with
  | nil => rfl
  | cons k ks ih =>
    simp only [defsOf, defsE, List.filterMap_cons] at ih ⊢
    by_cases hv : k ∈ omKeys c.vars ∨ k ∈ omKeys c.pars
    · have hd : defOf c k = none := by
        rcases hv with hv | hv
        · simp [defOf, lookup_none_of_not_mem (hn.vr k hv), lookup_none_of_not_mem (hn.vd k hv)]
        · simp [defOf, lookup_none_of_not_mem (hn.pr k hv), lookup_none_of_not_mem (hn.pd k hv)]
      rw [hd]
      cases he : defOfE c k with
      | none => simpa using ih
      | some f =>
        have hc : isFixed c k = true := by simpa [isFixed] using hv
        simp only [Option.map_some, Option.map_none, List.filter_cons, hc, Bool.not_true, Bool.false_eq_true, if_false]
        exact ih
    · have hd : defOfE c k = defOf c k := by
        unfold defOfE defOf
        cases c.rxns.lookup k with
        | some r => rfl
        | none =>
          cases c.derived.lookup k with
          | some f => rfl
          | none => exact lookup_none_of_not_mem (fun hm => hv (iasOf_sub h hm))
      rw [hd]
      cases defOf c k with
      | none => simpa using ih
      | some f =>
        have hc : isFixed c k = false := by simpa [isFixed] using hv
        simp only [Option.map_some, List.filter_cons, hc, Bool.not_false, if_true]
        rw [ih]

end Mxl.C07
