/-
C10 helper lemmas, part 1: `mapE`, `zipWithE`, the pointwise relation `All₂`,
the dict-by-time collapse, normalisation.
-/
import MxlVerif.Model.C10Spec
namespace Mxl.C10

/-- pointwise relation between two lists of equal length -/
inductive All₂ {α β} (R : α → β → Prop) : List α → List β → Prop
  | nil : All₂ R [] []
  | cons {a b as bs} : R a b → All₂ R as bs → All₂ R (a :: as) (b :: bs)

theorem All₂.length_eq {α β} {R : α → β → Prop} {l : List α} {m : List β}
    (h : All₂ R l m) : l.length = m.length := by
  induction h with
  | nil => rfl
  | cons _ _ ih => simp [ih]

theorem All₂.mono {α β} {R S : α → β → Prop} {l : List α} {m : List β}
    (h : All₂ R l m) (hs : ∀ a b, R a b → S a b) : All₂ S l m := by
  induction h with
  | nil => exact .nil
  | cons h _ ih => exact .cons (hs _ _ h) ih

theorem All₂.get {α β} {R : α → β → Prop} {l : List α} {m : List β}
    (h : All₂ R l m) : ∀ (i : Nat) (a : α), l[i]? = some a → ∃ b, m[i]? = some b ∧ R a b := by
  induction h with
  | nil => intro i a hi; simp at hi
  | cons hab _ ih =>
    intro i a hi
    cases i with
    | zero => simp at hi; subst hi; exact ⟨_, by simp, hab⟩
    | succ i => simp at hi; simpa using ih i a hi

/-- `mapE` succeeds exactly with the pointwise images -/
theorem mapE_ok_iff {α β} (f : α → Except Err β) (l : List α) (out : List β) :
    mapE f l = .ok out ↔ All₂ (fun a b => f a = .ok b) l out := by
  induction l generalizing out with
  | nil =>
    constructor
    · intro h; simp [mapE] at h; subst h; exact .nil
    · intro h; cases h; rfl
  | cons a as ih =>
    constructor
    · intro h
      unfold mapE at h
      split at h
      · cases h
      · rename_i b hb
        split at h
        · cases h
        · rename_i bs hbs
          cases h
          exact .cons hb ((ih bs).1 hbs)
    · intro h
      cases h with
      | cons hab hrest =>
        unfold mapE
        rw [hab]
        simp only
        rw [(ih _).2 hrest]

theorem mapE_length {α β} {f : α → Except Err β} {l : List α} {out : List β}
    (h : mapE f l = .ok out) : out.length = l.length :=
  ((mapE_ok_iff f l out).1 h).length_eq.symm

/-- a total `f`: `mapE` is `map` -/
theorem mapE_pure {α β} (f : α → β) (l : List α) :
    mapE (fun a => (.ok (f a) : Except Err β)) l = .ok (l.map f) := by
  induction l with
  | nil => rfl
  | cons a as ih => simp [mapE, ih]

theorem mapE_congr {α β} {f g : α → Except Err β} {l : List α}
    (h : ∀ a ∈ l, f a = g a) : mapE f l = mapE g l := by
  induction l with
  | nil => rfl
  | cons a as ih =>
    unfold mapE
    rw [h a (by simp), ih (fun x hx => h x (by simp [hx]))]

theorem zipWithE_ok_iff {α β γ} (f : α → β → Except Err γ) (l : List α) (m : List β)
    (out : List γ) :
    zipWithE f l m = .ok out ↔
      l.length = m.length ∧ All₂ (fun ab c => f ab.1 ab.2 = .ok c) (l.zip m) out := by
  induction l generalizing m out with
  | nil =>
    cases m with
    | nil =>
      constructor
      · intro h; simp [zipWithE] at h; subst h; exact ⟨rfl, .nil⟩
      · intro ⟨_, h⟩; cases h; rfl
    | cons b bs =>
      constructor
      · intro h; simp [zipWithE] at h
      · intro ⟨h, _⟩; simp at h
  | cons a as ih =>
    cases m with
    | nil =>
      constructor
      · intro h; simp [zipWithE] at h
      · intro ⟨h, _⟩; simp at h
    | cons b bs =>
      constructor
      · intro h
        unfold zipWithE at h
        split at h
        · cases h
        · rename_i c hc
          split at h
          · cases h
          · rename_i cs hcs
            cases h
            obtain ⟨hl, hr⟩ := (ih bs cs).1 hcs
            exact ⟨by simp [hl], .cons hc hr⟩
      · intro ⟨hl, h⟩
        cases h with
        | cons hc hrest =>
          unfold zipWithE
          simp only at hc
          rw [hc]
          simp only
          rw [(ih bs _).2 ⟨by simpa using hl, hrest⟩]

/-! ### the dict keyed by time -/

theorem tInsert_fresh {β} (m : List (Rat × β)) (t : Rat) (v : β)
    (h : t ∉ m.map (·.1)) : tInsert m t v = m ++ [(t, v)] := by
  induction m with
  | nil => rfl
  | cons x xs ih =>
    obtain ⟨t', v'⟩ := x
    simp at h
    unfold tInsert
    have : ¬ t' = t := fun e => h.1 e.symm
    simp [this]
    exact ih (by simpa using h.2)

theorem foldl_tInsert_nodup {β} (l acc : List (Rat × β))
    (hn : (acc.map (·.1) ++ l.map (·.1)).Nodup) :
    l.foldl (fun acc r => tInsert acc r.1 r.2) acc = acc ++ l := by
  induction l generalizing acc with
  | nil => simp
  | cons x xs ih =>
    simp only [List.foldl_cons]
    have hx : x.1 ∉ acc.map (·.1) := by
      intro hmem
      rw [List.nodup_append] at hn
      exact hn.2.2 _ hmem _ (by simp) rfl
    rw [tInsert_fresh acc x.1 x.2 hx]
    rw [ih]
    · simp
    · simpa [List.nodup_append, List.nodup_cons, and_assoc, and_left_comm, or_imp, forall_and] using hn

/-- rows with pairwise distinct times are kept as they are -/
theorem byTime_nodup {β} (l : List (Rat × β)) (hn : (l.map (·.1)).Nodup) : byTime l = l := by
  unfold byTime
  rw [foldl_tInsert_nodup l [] (by simpa using hn)]
  simp

end Mxl.C10
