/-
The one-pass static / dynamic classification of `_create_cache` (`model.py:512-526`)
and the restriction of a schedule to the dynamic components.
-/
import MxlVerif.Lemmas.Init
namespace Mxl

def isRS (c : Content) (k : Name) : Bool := (omKeys c.rxns).contains k || (omKeys c.surs).contains k
def isVP (c : Content) (k : Name) : Bool := (omKeys c.vars).contains k || (omKeys c.pars).contains k

/-- a derived quantity that depends, through any chain, only on parameters -/
inductive OnlyParams (c : Content) : Name → Prop
  | mk (k : Name) (d : Fn) : c.derived.lookup k = some d →
      (∀ a ∈ d.args, a ∉ omKeys c.pars → OnlyParams c a) → OnlyParams c k

theorem OnlyParams.intro' {c : Content} (k : Name) (d : Fn) (h : c.derived.lookup k = some d)
    (hargs : ∀ a ∈ d.args, a ∈ omKeys c.pars ∨ OnlyParams c a) : OnlyParams c k :=
  OnlyParams.mk k d h (fun a ha hn => (hargs a ha).resolve_left hn)

theorem classify_spec (c : Content) : ∀ (ks st dy apn : List Name),
    (∀ a ∈ apn, a ∈ omKeys c.pars ∨ OnlyParams c a) →
    ∃ S D A, classify c ks st dy apn = (st.reverse ++ S, dy.reverse ++ D, A ++ apn) ∧
      S.Sublist ks ∧ D.Sublist ks ∧
      (∀ k ∈ ks, k ∈ S ∨ k ∈ D ∨
        (isRS c k = false ∧ isVP c k = false ∧ c.derived.lookup k = none)) ∧
      (∀ k ∈ D, isRS c k = true ∨ (isVP c k = false ∧ ∃ d, c.derived.lookup k = some d ∧
        ∃ a ∈ d.args, a ∉ apn)) ∧
      (∀ k ∈ S, isRS c k = false ∧ (isVP c k = true ∨
        ∃ d, c.derived.lookup k = some d ∧ ∀ a ∈ d.args, a ∈ A ++ apn)) ∧
      (∀ a ∈ A, a ∈ S ∧ isRS c a = false ∧ isVP c a = false) ∧
      (∀ a ∈ A ++ apn, a ∈ omKeys c.pars ∨ OnlyParams c a) ∧
      (ks.Nodup → ∀ k ∈ S, k ∉ D) := by
  intro ks
  induction ks with
  | nil =>
    intro st dy apn hgood
    refine ⟨[], [], [], by simp [classify], List.Sublist.refl _, List.Sublist.refl _,
      ?_, ?_, ?_, ?_, by simpa using hgood, ?_⟩
    · intro k hk; cases hk
    · intro k hk; cases hk
    · intro k hk; cases hk
    · intro k hk; cases hk
    · intro _ k hk; cases hk
  | cons k ks ih =>
    intro st dy apn hgood
    unfold classify
    by_cases hrs : isRS c k = true
    · have hrs' : ((omKeys c.rxns).contains k || (omKeys c.surs).contains k) = true := hrs
      simp only [hrs', if_true]
      obtain ⟨S, D, A, heq, hS, hD, hcov, hdyn, hstat, hnew, hg, hdisj⟩ := ih st (k :: dy) apn hgood
      refine ⟨S, k :: D, A, by simp [heq], hS.cons _, hD.cons_cons _, ?_, ?_, hstat, hnew, hg, ?_⟩
      rotate_left 2
      · intro hnd x hxS hxD
        simp only [List.nodup_cons] at hnd
        rcases List.mem_cons.mp hxD with rfl | h
        · exact hnd.1 (hS.subset hxS)
        · exact hdisj hnd.2 x hxS h
      · intro x hx
        rcases List.mem_cons.mp hx with rfl | hx'
        · exact Or.inr (Or.inl (by simp))
        · rcases hcov x hx' with h | h | h
          · exact Or.inl h
          · exact Or.inr (Or.inl (List.mem_cons_of_mem _ h))
          · exact Or.inr (Or.inr h)
      · intro x hx
        rcases List.mem_cons.mp hx with rfl | hx'
        · exact Or.inl hrs
        · rcases hdyn x hx' with h | ⟨h1, d, h2, a, h3, h4⟩
          · exact Or.inl h
          · exact Or.inr ⟨h1, d, h2, a, h3, h4⟩
    · have hrs0 : isRS c k = false := by simpa using hrs
      have hrs' : ((omKeys c.rxns).contains k || (omKeys c.surs).contains k) = false := hrs0
      simp only [hrs', Bool.false_eq_true, if_false]
      by_cases hvp : isVP c k = true
      · have hvp' : ((omKeys c.vars).contains k || (omKeys c.pars).contains k) = true := hvp
        simp only [hvp', if_true]
        obtain ⟨S, D, A, heq, hS, hD, hcov, hdyn, hstat, hnew, hg, hdisj⟩ := ih (k :: st) dy apn hgood
        refine ⟨k :: S, D, A, by simp [heq], hS.cons_cons _, hD.cons _, ?_, hdyn, ?_, ?_, hg, ?_⟩
        rotate_left 3
        · intro hnd x hxS hxD
          simp only [List.nodup_cons] at hnd
          rcases List.mem_cons.mp hxS with rfl | h
          · exact hnd.1 (hD.subset hxD)
          · exact hdisj hnd.2 x h hxD
        · intro x hx
          rcases List.mem_cons.mp hx with rfl | hx'
          · exact Or.inl (by simp)
          · rcases hcov x hx' with h | h | h
            · exact Or.inl (List.mem_cons_of_mem _ h)
            · exact Or.inr (Or.inl h)
            · exact Or.inr (Or.inr h)
        · intro x hx
          rcases List.mem_cons.mp hx with rfl | hx'
          · exact ⟨hrs0, Or.inl hvp⟩
          · exact hstat x hx'
        · intro a ha
          obtain ⟨h1, h2, h3⟩ := hnew a ha
          exact ⟨List.mem_cons_of_mem _ h1, h2, h3⟩
      · have hvp0 : isVP c k = false := by simpa using hvp
        have hvp' : ((omKeys c.vars).contains k || (omKeys c.pars).contains k) = false := hvp0
        simp only [hvp', Bool.false_eq_true, if_false]
        cases hd : c.derived.lookup k with
        | none =>
          simp only
          obtain ⟨S, D, A, heq, hS, hD, hcov, hdyn, hstat, hnew, hg, hdisj⟩ := ih st dy apn hgood
          refine ⟨S, D, A, heq, hS.cons _, hD.cons _, ?_, hdyn, hstat, hnew, hg, ?_⟩
          rotate_left 1
          · intro hnd x hxS hxD
            simp only [List.nodup_cons] at hnd
            exact hdisj hnd.2 x hxS hxD
          intro x hx
          rcases List.mem_cons.mp hx with rfl | hx'
          · exact Or.inr (Or.inr ⟨hrs0, hvp0, hd⟩)
          · exact hcov x hx'
        | some d =>
          simp only
          by_cases hall : (d.args.all fun a => apn.contains a) = true
          · simp only [hall, if_true]
            have hargs : ∀ a ∈ d.args, a ∈ apn := by
              intro a ha
              have := List.all_eq_true.mp hall a ha
              simpa using this
            have hgood' : ∀ a ∈ k :: apn, a ∈ omKeys c.pars ∨ OnlyParams c a := by
              intro a ha
              rcases List.mem_cons.mp ha with rfl | ha'
              · exact Or.inr (OnlyParams.intro' a d hd (fun x hx => hgood x (hargs x hx)))
              · exact hgood a ha'
            obtain ⟨S, D, A, heq, hS, hD, hcov, hdyn, hstat, hnew, hg, hdisj⟩ :=
              ih (k :: st) dy (k :: apn) hgood'
            refine ⟨k :: S, D, A ++ [k], by simp [heq], hS.cons_cons _, hD.cons _, ?_, ?_, ?_, ?_, ?_, ?_⟩
            rotate_left 5
            · intro hnd x hxS hxD
              simp only [List.nodup_cons] at hnd
              rcases List.mem_cons.mp hxS with rfl | h
              · exact hnd.1 (hD.subset hxD)
              · exact hdisj hnd.2 x h hxD
            · intro x hx
              rcases List.mem_cons.mp hx with rfl | hx'
              · exact Or.inl (by simp)
              · rcases hcov x hx' with h | h | h
                · exact Or.inl (List.mem_cons_of_mem _ h)
                · exact Or.inr (Or.inl h)
                · exact Or.inr (Or.inr h)
            · intro x hx
              rcases hdyn x hx with h | ⟨h1, d', h2, a, h3, h4⟩
              · exact Or.inl h
              · exact Or.inr ⟨h1, d', h2, a, h3, fun hmem => h4 (List.mem_cons_of_mem _ hmem)⟩
            · intro x hx
              rcases List.mem_cons.mp hx with rfl | hx'
              · refine ⟨hrs0, Or.inr ⟨d, hd, ?_⟩⟩
                intro a ha
                exact List.mem_append_right _ (hargs a ha)
              · obtain ⟨h1, h2⟩ := hstat x hx'
                refine ⟨h1, ?_⟩
                rcases h2 with h | ⟨d', h3, h4⟩
                · exact Or.inl h
                · refine Or.inr ⟨d', h3, ?_⟩
                  intro a ha
                  have := h4 a ha
                  simpa [List.append_assoc] using this
            · intro a ha
              rcases List.mem_append.mp ha with h | h
              · obtain ⟨h1, h2, h3⟩ := hnew a h
                exact ⟨List.mem_cons_of_mem _ h1, h2, h3⟩
              · simp at h; subst h
                exact ⟨by simp, hrs0, hvp0⟩
            · intro a ha
              apply hg
              simpa [List.append_assoc] using ha
          · have hall0 : (d.args.all fun a => apn.contains a) = false := by simpa using hall
            simp only [hall0, Bool.false_eq_true, if_false]
            obtain ⟨S, D, A, heq, hS, hD, hcov, hdyn, hstat, hnew, hg, hdisj⟩ := ih st (k :: dy) apn hgood
            refine ⟨S, k :: D, A, by simp [heq], hS.cons _, hD.cons_cons _, ?_, ?_, hstat, hnew, hg, ?_⟩
            rotate_left 2
            · intro hnd x hxS hxD
              simp only [List.nodup_cons] at hnd
              rcases List.mem_cons.mp hxD with rfl | h
              · exact hnd.1 (hS.subset hxS)
              · exact hdisj hnd.2 x hxS h
            · intro x hx
              rcases List.mem_cons.mp hx with rfl | hx'
              · exact Or.inr (Or.inl (by simp))
              · rcases hcov x hx' with h | h | h
                · exact Or.inl h
                · exact Or.inr (Or.inl (List.mem_cons_of_mem _ h))
                · exact Or.inr (Or.inr h)
            · intro x hx
              rcases List.mem_cons.mp hx with rfl | hx'
              · refine Or.inr ⟨hvp0, d, hd, ?_⟩
                have hex := List.all_eq_false.mp hall0
                obtain ⟨a, ha, hna⟩ := hex
                exact ⟨a, ha, by simpa using hna⟩
              · exact hdyn x hx'

end Mxl
