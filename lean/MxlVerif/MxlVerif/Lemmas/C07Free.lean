/-
C07: free parameters.  `genRun [] c L free t xs ps` (the generated function with the free parameters as
extra arguments) equals `callRhs (setPars c free ps) t xs` (the model with those parameters set).
Core Lean only.
-/
import MxlVerif.Lemmas.C07MainV
namespace Mxl.C07
open Mxl

/-! ### errors and success of sequential evaluation depend on the bound names only -/

def SameKeys (e1 e2 : Env) : Prop := ∀ a, (e1.lookup a).isSome = (e2.lookup a).isSome

theorem SameKeys.set {e1 e2 : Env} (h : SameKeys e1 e2) (k : Name) (v w : Rat) :
    SameKeys (e1.set k v) (e2.set k w) := by
  intro a
  rw [Env.lookup_set, Env.lookup_set]
  cases hak : a == k <;> simp [h a]

theorem lookupArgs_sameKeys {e1 e2 : Env} (h : SameKeys e1 e2) : ∀ (args : List Name),
    (∃ v1 v2, lookupArgs e1 args = .ok v1 ∧ lookupArgs e2 args = .ok v2) ∨
    (∃ err, lookupArgs e1 args = .error err ∧ lookupArgs e2 args = .error err) := by
  intro args; induction args with
  | nil => exact Or.inl ⟨[], [], rfl, rfl⟩
  | cons a rest ih =>
    have ha := h a
    cases h1 : e1.lookup a with
    | none =>
      have h2 : e2.lookup a = none := by
        cases h2 : e2.lookup a with
        | none => rfl
        | some w => rw [h1, h2] at ha; simp at ha
      exact Or.inr ⟨.keyError a, by simp [lookupArgs, List.mapM_cons, Env.get, h1, bind, Except.bind],
        by simp [lookupArgs, List.mapM_cons, Env.get, h2, bind, Except.bind]⟩
    | some v =>
      have ⟨w, h2⟩ : ∃ w, e2.lookup a = some w := by
        cases h2 : e2.lookup a with
        | none => rw [h1, h2] at ha; simp at ha
        | some w => exact ⟨w, rfl⟩
      rcases ih with ⟨v1, v2, hv1, hv2⟩ | ⟨err, he1, he2⟩
      · refine Or.inl ⟨v :: v1, w :: v2, ?_, ?_⟩
        · simp only [lookupArgs] at hv1 ⊢
          simp [List.mapM_cons, Env.get, h1, hv1, bind, Except.bind, pure, Except.pure]
        · simp only [lookupArgs] at hv2 ⊢
          simp [List.mapM_cons, Env.get, h2, hv2, bind, Except.bind, pure, Except.pure]
      · refine Or.inr ⟨err, ?_, ?_⟩
        · simp only [lookupArgs] at he1 ⊢
          simp [List.mapM_cons, Env.get, h1, he1, bind, Except.bind]
        · simp only [lookupArgs] at he2 ⊢
          simp [List.mapM_cons, Env.get, h2, he2, bind, Except.bind]

theorem calc_sameKeys {e1 e2 : Env} (h : SameKeys e1 e2) (f : Fn) :
    (∃ v1 v2, f.calc e1 = .ok v1 ∧ f.calc e2 = .ok v2) ∨
    (∃ err, f.calc e1 = .error err ∧ f.calc e2 = .error err) := by
  rcases lookupArgs_sameKeys h f.args with ⟨v1, v2, h1, h2⟩ | ⟨err, h1, h2⟩
  · exact Or.inl ⟨f.fn v1, f.fn v2, by simp [Fn.calc, h1, bind, Except.bind, pure, Except.pure],
      by simp [Fn.calc, h2, bind, Except.bind, pure, Except.pure]⟩
  · exact Or.inr ⟨err, by simp [Fn.calc, h1, bind, Except.bind], by simp [Fn.calc, h2, bind, Except.bind]⟩

theorem evalSeq_sameKeys : ∀ (defs : List (Name × Fn)) {e1 e2 : Env}, SameKeys e1 e2 →
    (∃ r1 r2, evalSeq defs e1 = .ok r1 ∧ evalSeq defs e2 = .ok r2 ∧ SameKeys r1 r2) ∨
    (∃ err, evalSeq defs e1 = .error err ∧ evalSeq defs e2 = .error err) := by
  intro defs; induction defs with
  | nil => intro e1 e2 h; exact Or.inl ⟨e1, e2, rfl, rfl, h⟩
  | cons kf rest ih =>
    intro e1 e2 h
    obtain ⟨k, f⟩ := kf
    rcases calc_sameKeys h f with ⟨v1, v2, h1, h2⟩ | ⟨err, h1, h2⟩
    · rcases ih (h.set k v1 v2) with ⟨r1, r2, hr1, hr2, hs⟩ | ⟨err, he1, he2⟩
      · exact Or.inl ⟨r1, r2, by simp [evalSeq, h1, hr1, bind, Except.bind],
          by simp [evalSeq, h2, hr2, bind, Except.bind], hs⟩
      · exact Or.inr ⟨err, by simp [evalSeq, h1, he1, bind, Except.bind],
          by simp [evalSeq, h2, he2, bind, Except.bind]⟩
    · exact Or.inr ⟨err, by simp [evalSeq, h1, bind, Except.bind], by simp [evalSeq, h2, bind, Except.bind]⟩

/-- environments with the same lookups give the same results -/
def SameVals (e1 e2 : Env) : Prop := ∀ a, e1.lookup a = e2.lookup a

theorem SameVals.set {e1 e2 : Env} (h : SameVals e1 e2) (k : Name) (v : Rat) :
    SameVals (e1.set k v) (e2.set k v) := by
  intro a; rw [Env.lookup_set, Env.lookup_set, h a]

theorem evalRhs_sameVals {e1 e2 : Env} (h : SameVals e1 e2) : ∀ (r : Rhs), evalRhs e1 r = evalRhs e2 r := by
  intro r
  cases r with
  | const q => rfl
  | app f => exact Fn.calc_congr (fun a _ => h a)
  | lin ts =>
    simp only [evalRhs]
    generalize (0 : Rat) = acc
    induction ts generalizing acc with
    | nil => rfl
    | cons rc rest ih =>
      obtain ⟨r, cf⟩ := rc
      have h1 : evalCoef e1 cf = evalCoef e2 cf := by
        cases cf with
        | num q => rfl
        | dyn f => exact Fn.calc_congr (fun a _ => h a)
      have h2 : e1.get r = e2.get r := by simp [Env.get, h r]
      simp only [evalLin, h1, h2, bind, Except.bind]
      cases evalCoef e2 cf with
      | error e => rfl
      | ok n =>
        simp only
        cases e2.get r with
        | error e => rfl
        | ok v => exact ih _

theorem runAssigns_sameVals : ∀ (asg : List (Name × Rhs)) {e1 e2 : Env}, SameVals e1 e2 →
    (∃ r1 r2, runAssigns asg e1 = .ok r1 ∧ runAssigns asg e2 = .ok r2 ∧ SameVals r1 r2) ∨
    (∃ err, runAssigns asg e1 = .error err ∧ runAssigns asg e2 = .error err) := by
  intro asg; induction asg with
  | nil => intro e1 e2 h; exact Or.inl ⟨e1, e2, rfl, rfl, h⟩
  | cons kr rest ih =>
    intro e1 e2 h
    obtain ⟨k, r⟩ := kr
    have hr := evalRhs_sameVals h r
    cases hv : evalRhs e2 r with
    | error err =>
      exact Or.inr ⟨err, by simp [runAssigns, hr, hv, bind, Except.bind], by simp [runAssigns, hv, bind, Except.bind]⟩
    | ok v =>
      rcases ih (h.set k v) with ⟨r1, r2, h1, h2, hs⟩ | ⟨err, h1, h2⟩
      · exact Or.inl ⟨r1, r2, by simp [runAssigns, hr, hv, h1, bind, Except.bind],
          by simp [runAssigns, hv, h2, bind, Except.bind], hs⟩
      · exact Or.inr ⟨err, by simp [runAssigns, hr, hv, h1, bind, Except.bind],
          by simp [runAssigns, hv, h2, bind, Except.bind]⟩

theorem mapM_get_sameVals {e1 e2 : Env} (h : SameVals e1 e2) (l : List Name) :
    l.mapM e1.get = l.mapM e2.get := by
  have : e1.get = e2.get := by funext a; simp [Env.get, h a]
  rw [this]

/-! ### when `createCache` fails and what it returns, for contents inside the hypothesis -/

theorem evalSeq_keys_mono : ∀ {defs : List (Name × Fn)} {e e' : Env} {a : Name},
    evalSeq defs e = .ok e' → (∃ v, e.lookup a = some v) → ∃ w, e'.lookup a = some w := by
  intro defs; induction defs with
  | nil => intro e e' a h hv; simp [evalSeq, pure, Except.pure] at h; subst h; exact hv
  | cons kf rest ih =>
    intro e e' a h ⟨v, hv⟩
    obtain ⟨k, f⟩ := kf
    obtain ⟨x, _, hr⟩ := evalSeq_cons_ok h
    refine ih hr ?_
    rw [Env.lookup_set]
    cases hak : a == k with
    | true => exact ⟨x, by simp⟩
    | false => exact ⟨v, by simp [hv]⟩

theorem evalSeq_sets : ∀ {defs : List (Name × Fn)} {e e' : Env},
    evalSeq defs e = .ok e' → ∀ kf ∈ defs, ∃ w, e'.lookup kf.1 = some w := by
  intro defs; induction defs with
  | nil => intro e e' _ kf hkf; cases hkf
  | cons kf0 rest ih =>
    intro e e' h kf hkf
    obtain ⟨k, f⟩ := kf0
    obtain ⟨x, _, hr⟩ := evalSeq_cons_ok h
    cases List.mem_cons.mp hkf with
    | inl h1 => subst h1; exact evalSeq_keys_mono hr ⟨x, by rw [Env.lookup_set]; simp⟩
    | inr h1 => exact ih hr kf h1

theorem mapM_getPairs_ok {e : Env} : ∀ (l : List Name), (∀ k ∈ l, ∃ v, e.lookup k = some v) →
    ∃ r, l.mapM (fun k => (do pure (k, ← e.get k) : Except Err (Name × Rat))) = .ok r := by
  intro l; induction l with
  | nil => intro _; exact ⟨[], rfl⟩
  | cons k ks ih =>
    intro h
    obtain ⟨v, hv⟩ := h k List.mem_cons_self
    obtain ⟨r, hr⟩ := ih (fun k' hk' => h k' (List.mem_cons_of_mem _ hk'))
    refine ⟨(k, v) :: r, ?_⟩
    simp only [List.mapM_cons, Env.get_of_lookup hv, bind, Except.bind, pure, Except.pure] at hr ⊢
    simp [hr]

/-- the outcome of `createCache` in terms of the sort and the time-zero evaluation -/
theorem emitted_noIA {c : Content} (hok : OkV c) {extra : List (Name × Rat)}
    (hnd : (extra.map (·.1)).Nodup) (hsub : ∀ a ∈ extra.map (·.1), a ∈ omKeys c.derived) :
    (omUnion (plainOf c.pars) extra).filter (fun kv => !(omKeys c.derived).contains kv.1) = plainOf c.pars := by
  have hn := hok.names
  rw [omUnion_fresh extra _ hnd (fun a ha hp => hn.pd a (keys_plainOf_sub _ _ hp) (hsub a ha)),
    List.filter_append]
  have h1 : (plainOf c.pars).filter (fun kv => !(omKeys c.derived).contains kv.1) = plainOf c.pars := by
    apply List.filter_eq_self.mpr
    intro kv hkv
    have : kv.1 ∉ omKeys c.derived :=
      hn.pd kv.1 (keys_plainOf_sub _ _ (List.mem_map_of_mem (f := (·.1)) hkv))
    simpa using this
  have h2 : extra.filter (fun kv => !(omKeys c.derived).contains kv.1) = [] := by
    apply List.filter_eq_nil_iff.mpr
    intro kv hkv
    have := hsub kv.1 (List.mem_map_of_mem (f := (·.1)) hkv)
    simpa using this
  rw [h1, h2, List.append_nil]

theorem createCache_cases {c : Content} (hok : OkV c) (hia : noIAB c.pars = true) :
    (∀ e, sortDeps c.available c.deps = .error e → createCache c = .error e) ∧
    (∀ order e, sortDeps c.available c.deps = .ok order →
        evalSeq (defsE c order) (baseEnv (plainOf c.pars) (plainOf c.vars) [] 0) = .error e →
        createCache c = .error e) ∧
    (∀ order dep, sortDeps c.available c.deps = .ok order →
        evalSeq (defsE c order) (baseEnv (plainOf c.pars) (plainOf c.vars) [] 0) = .ok dep →
        ∃ cache, createCache c = .ok cache ∧ cache.order = order ∧ cache.basePars = plainOf c.pars
          ∧ omKeys cache.init = omKeys c.vars ∧ emittedPars c cache = plainOf c.pars) := by
  have hn := hok.names
  refine ⟨?_, ?_, ?_⟩
  · intro e h
    simp [createCache, h, bind, Except.bind]
  · intro order e hs he
    obtain ⟨_, homem⟩ := order_factsV hok hs
    have := evalInOrder_defsE hok (fun k hk => (homem k).mp hk)
      (baseEnv (plainOf c.pars) (plainOf c.vars) c.data 0)
    rw [hok.data, he] at this
    simp [createCache, hs, hok.data, this, bind, Except.bind]
  · intro order dep hs he
    obtain ⟨hond, homem⟩ := order_factsV hok hs
    have hokind : ∀ k ∈ order, IsElem c k := fun k hk => (homem k).mp hk
    have hev := evalInOrder_defsE hok hokind (baseEnv (plainOf c.pars) (plainOf c.vars) c.data 0)
    rw [hok.data, he] at hev
    have hdE : (defsE c order).map (·.1) = order := (mapM_defOfE hok hokind).2
    have hord_np : ∀ k ∈ order, k ∉ omKeys c.pars := by
      intro k hk hp
      rcases hokind k hk with h | h | h | h
      · exact hn.vp k (keys_iaOf_sub _ _ h) hp
      · rw [(plainOf_noIA hia).2] at h; cases h
      · exact hn.pd k hp h
      · exact hn.pr k hp h
    obtain ⟨apn', hcls, _, _, hap2⟩ := classify_order hok hond homem
    have hall : c.allStoich = c.rxns.map fun kv => (kv.1, kv.2.stoich) := by
      simp [Content.allStoich, hok.surs]
    obtain ⟨tab, htab1, _⟩ := addRxns_num apn' dep (c.rxns.map fun kv => (kv.1, kv.2.stoich)) []
      (by rw [List.all_map]; exact hok.num)
    have hdep_order : ∀ k ∈ order, ∃ w, dep.lookup k = some w := by
      intro k hk
      have : k ∈ (defsE c order).map (·.1) := by rw [hdE]; exact hk
      obtain ⟨kf, hkf, hke⟩ := List.mem_map.mp this
      exact hke ▸ evalSeq_sets he kf hkf
    have hdep_vars : ∀ k ∈ omKeys c.vars, ∃ w, dep.lookup k = some w := by
      intro k hk
      rcases keys_split c.vars k hk with h | h
      · refine evalSeq_keys_mono he ?_
        rw [lookup_isSome_iff]
        simp only [baseEnv, List.reverse_nil, List.nil_append, List.map_cons, List.map_append, List.map_reverse,
          List.mem_cons, List.mem_append, List.mem_reverse]
        exact Or.inr (Or.inl h)
      · exact hdep_order k ((homem k).mpr (Or.inl h))
    obtain ⟨init, hinit⟩ := mapM_getPairs_ok (e := dep) (omKeys c.vars) hdep_vars
    obtain ⟨extra, hextra⟩ := mapM_getPairs_ok (e := dep)
      ((order.filter fun k => (omKeys c.vars).contains k || apn'.contains k).filter
        fun k => !(omKeys c.vars).contains k)
      (fun k hk => hdep_order k (List.mem_filter.mp (List.mem_filter.mp hk).1).1)
    refine ⟨Cache.mk order (omKeys c.vars)
              (order.filter fun k => !((omKeys c.vars).contains k || apn'.contains k)) (plainOf c.pars)
              (omUnion (plainOf c.pars) extra) tab [] init, ?_, rfl, rfl, ?_, ?_⟩
    · simp only [createCache, hs, hok.data, hev, hcls, hall, htab1, bind, Except.bind, List.reverse_nil,
        List.nil_append]
      simp only [bind, Except.bind, pure, Except.pure] at hinit hextra ⊢
      simp only [hinit, hextra]
    · exact (mapM_getPairs hinit).1
    · have hexk := (mapM_getPairs hextra).1
      refine emitted_noIA hok (by
        rw [hexk]; exact (hond.sublist List.filter_sublist).sublist List.filter_sublist) ?_
      intro a ha
      rw [hexk] at ha
      obtain ⟨h1, h2⟩ := List.mem_filter.mp ha
      obtain ⟨hao, h3⟩ := List.mem_filter.mp h1
      have hnv : a ∉ omKeys c.vars := by simpa using h2
      have haa : a ∈ apn' := by
        have : a ∈ omKeys c.vars ∨ a ∈ apn' := by simpa using h3
        exact this.resolve_left hnv
      rcases hap2 a hao haa with hp | ⟨_, _, d, hd, _⟩
      · exact absurd hp (hord_np a hao)
      · exact lookup_some_mem_keys hd

/-! ### setting parameters -/

structure FreeOk (c : Content) (free : List Name) (ps : List Rat) : Prop where
  nd : free.Nodup
  sub : ∀ k ∈ free, k ∈ omKeys c.pars
  len : ps.length = free.length

theorem omInsert_keys_of_mem {β} : ∀ (m : List (Name × β)) (k : Name) (v : β), k ∈ m.map (·.1) →
    (omInsert m k v).map (·.1) = m.map (·.1) := by
  intro m; induction m with
  | nil => intro k v h; cases h
  | cons kv rest ih =>
    intro k v h
    obtain ⟨k', v'⟩ := kv
    by_cases hk : k' = k
    · subst hk; simp [omInsert]
    · have hk' : (k' == k) = false := by simpa using hk
      simp only [List.map_cons, List.mem_cons] at h
      have hr : k ∈ rest.map (·.1) := h.resolve_left (fun h' => hk h'.symm)
      simp [omInsert, hk', ih k v hr]

def setParsList (pars : List (Name × Val)) (kvs : List (Name × Rat)) : List (Name × Val) :=
  kvs.foldl (fun m kv => omInsert m kv.1 (Val.plain kv.2)) pars

theorem setParsList_spec : ∀ (kvs : List (Name × Rat)) (pars : List (Name × Val)),
    (kvs.map (·.1)).Nodup → (∀ k ∈ kvs.map (·.1), k ∈ pars.map (·.1)) → noIAB pars = true →
    (setParsList pars kvs).map (·.1) = pars.map (·.1) ∧ noIAB (setParsList pars kvs) = true ∧
    ∀ a, (setParsList pars kvs).lookup a
      = match kvs.lookup a with | some v => some (Val.plain v) | none => pars.lookup a := by
  intro kvs; induction kvs with
  | nil => intro pars _ _ h; exact ⟨rfl, h, fun a => rfl⟩
  | cons kv rest ih =>
    intro pars hnd hsub hia
    obtain ⟨k, v⟩ := kv
    simp only [List.map_cons, List.nodup_cons] at hnd
    have hk : k ∈ pars.map (·.1) := hsub k (by simp)
    have hkeys := omInsert_keys_of_mem pars k (Val.plain v) hk
    have hia' : noIAB (omInsert pars k (Val.plain v)) = true := by
      simp only [noIAB, List.all_eq_true] at hia ⊢
      intro x hx
      rcases mem_omInsert _ _ _ _ hx with h1 | h1
      · exact hia x h1
      · subst h1; rfl
    obtain ⟨h1, h2, h3⟩ := ih (omInsert pars k (Val.plain v)) hnd.2
      (fun k' hk' => by rw [hkeys]; exact hsub k' (by simp [hk'])) hia'
    refine ⟨by rw [show setParsList pars ((k, v) :: rest) = setParsList (omInsert pars k (Val.plain v)) rest from rfl, h1, hkeys],
      h2, fun a => ?_⟩
    rw [show setParsList pars ((k, v) :: rest) = setParsList (omInsert pars k (Val.plain v)) rest from rfl, h3 a,
      lookup_omInsert, lookup_cons_eq]
    by_cases hak : a = k
    · subst hak
      simp [lookup_none_of_not_mem hnd.1]
    · simp [hak]

theorem setPars_pars (c : Content) (free : List Name) (ps : List Rat) :
    (setPars c free ps).pars = setParsList c.pars (free.zip ps) := rfl

theorem keys_zip' {free : List Name} {ps : List Rat} (h : ps.length = free.length) :
    (free.zip ps).map (·.1) = free := List.map_fst_zip (Nat.le_of_eq h.symm)

theorem setPars_ok {c : Content} (hok : OkV c) (hia : noIAB c.pars = true) {free : List Name} {ps : List Rat}
    (hf : FreeOk c free ps) :
    OkV (setPars c free ps) ∧ omKeys (setPars c free ps).pars = omKeys c.pars
      ∧ noIAB (setPars c free ps).pars = true := by
  obtain ⟨h1, h2, _⟩ := setParsList_spec (free.zip ps) c.pars (by rw [keys_zip' hf.len]; exact hf.nd)
    (by rw [keys_zip' hf.len]; exact hf.sub) hia
  have hk : omKeys (setPars c free ps).pars = omKeys c.pars := by rw [setPars_pars]; exact h1
  refine ⟨?_, hk, by rw [setPars_pars]; exact h2⟩
  exact { surs := hok.surs, data := hok.data,
          num := hok.num, nd := by rw [hk]; exact hok.nd, stNd := hok.stNd, hasEq := hok.hasEq,
          onVars := hok.onVars, nonempty := hok.nonempty }

theorem setPars_static {c : Content} (hok : OkV c) (hia : noIAB c.pars = true) {free : List Name} {ps : List Rat}
    (hf : FreeOk c free ps) :
    (setPars c free ps).available = c.available ∧ (setPars c free ps).deps = c.deps := by
  obtain ⟨hok', hk, hia'⟩ := setPars_ok hok hia hf
  refine ⟨?_, ?_⟩
  · have h1 : omKeys (plainOf (setPars c free ps).pars) = omKeys (plainOf c.pars) := by
      have a := keys_plainOf hia'
      have b := keys_plainOf hia
      simp only [omKeys] at a b hk ⊢
      rw [a, b, hk]
    simp only [Content.available, h1]
    rfl
  · have h1 : iaOf (setPars c free ps).pars = iaOf c.pars := by
      rw [(plainOf_noIA hia').2, (plainOf_noIA hia).2]
    simp only [Content.deps, Content.toSort, h1]
    rfl

/-! ### `parameters.pop(key)` -/

theorem lookup_omErase {β} : ∀ (m : List (Name × β)) (k a : Name),
    (omErase m k).lookup a = if a = k then none else m.lookup a := by
  intro m; induction m with
  | nil => intro k a; simp [omErase]
  | cons kv rest ih =>
    intro k a
    obtain ⟨k', v'⟩ := kv
    have ih' := ih k a
    simp only [omErase] at ih' ⊢
    by_cases hk : k' = k
    · subst hk
      simp only [List.filter_cons, bne_self_eq_false, Bool.false_eq_true, if_false, ih', lookup_cons_eq]
      by_cases ha : a = k' <;> simp [ha]
    · have : (k' != k) = true := by simpa using hk
      simp only [List.filter_cons, this, if_true, lookup_cons_eq, ih']
      by_cases ha : a = k'
      · subst ha; simp [hk]
      · simp [ha]

theorem popAll_ok : ∀ (free : List Name) (m : List (Name × Rat)), free.Nodup →
    (∀ k ∈ free, k ∈ m.map (·.1)) →
    ∃ m', popAll m free = .ok m' ∧ ∀ a, m'.lookup a = if a ∈ free then none else m.lookup a := by
  intro free; induction free with
  | nil => intro m _ _; exact ⟨m, rfl, fun a => by simp⟩
  | cons k ks ih =>
    intro m hnd hsub
    simp only [List.nodup_cons] at hnd
    have hk : k ∈ omKeys m := hsub k List.mem_cons_self
    obtain ⟨m', h1, h2⟩ := ih (omErase m k) hnd.2 (by
      intro k' hk'
      have hne : k' ≠ k := fun h => hnd.1 (h ▸ hk')
      obtain ⟨v, hv⟩ := lookup_some_of_mem_keys (hsub k' (List.mem_cons_of_mem _ hk'))
      exact lookup_some_mem_keys (v := v) (by rw [lookup_omErase]; simp [hne, hv]))
    refine ⟨m', by simp [popAll, hk, h1], fun a => ?_⟩
    rw [h2 a, lookup_omErase]
    by_cases hak : a = k
    · subst hak; simp
    · by_cases haks : a ∈ ks <;> simp [hak, haks]

/-! ### the generated function with free parameters -/

/-- the program `genModel` emits, as a function of the remaining parameter constants -/
def progOf (c : Content) (L : Lang) (order : List Name) (free : List Name) (consts : List (Name × Rat)) : SLP :=
  { lang := L
    unpack := (templateOf L).unpack L
    inputs := omKeys c.vars
    extra := free
    assigns := (consts.map fun kv => (kv.1, Rhs.const kv.2))
      ++ (((defsOf c order).map fun kf => (kf.1, Rhs.app kf.2))
      ++ (((diffEqs c.rxns).map fun vs => (dName vs.1, Rhs.lin vs.2))
      ++ ((zeroRows c).map fun kv => (dName kv.1, Rhs.const kv.2))))
    ret := (omKeys c.vars).map dName
    retUnit := (diffEqs c.rxns).isEmpty
    retBracket := (templateOf L).retBracket
    retLen := if (templateOf L).sizedRet then some (omKeys c.vars).length else none }

theorem genModel_free_ok {c : Content} (hok : OkV c) {L : Lang} (hL : L ≠ .jl) {cache : Cache}
    (hcc : createCache c = .ok cache) (hinit : omKeys cache.init = omKeys c.vars) (hia : noIAB c.pars = true)
    {free : List Name} {prem : List (Name × Rat)} (hpop : popAll (emittedPars c cache) free = .ok prem) :
    genModel [] c L free = .ok (progOf c L cache.order free prem) := by
  have hia' : noIA c.pars = true := hia
  unfold genModel progOf
  simp only [hcc, bind, Except.bind, hpop, emitBody_nil hok, pure, Except.pure, hinit, List.map_map,
    Function.comp_def, target_id hL, zeroVars_of_ok hok, retNames_of_ok hok, zeroRows, no_derivative_name_taken hok,
    List.append_assoc, hia', Bool.not_true, Bool.and_false, Bool.false_eq_true,
    if_false]

/-- the tail of the program: derived values, reactions, differential equations -/
def tailOf (c : Content) (order : List Name) : List (Name × Rhs) :=
  ((defsOf c order).map fun kf => (kf.1, Rhs.app kf.2))
    ++ (((diffEqs c.rxns).map fun vs => (dName vs.1, Rhs.lin vs.2))
    ++ ((zeroRows c).map fun kv => (dName kv.1, Rhs.const kv.2)))

theorem runSLP_progOf {c : Content} (hok : OkV c) {L : Lang} (hL : L ≠ .jl) (order free : List Name)
    (consts : List (Name × Rat)) (t : Rat) (xs ps : List Rat)
    (hxs : xs.length = c.vars.length) (hps : ps.length = free.length)
    (hne : (diffEqs c.rxns).isEmpty = false) :
    runSLP (progOf c L order free consts) t xs ps
      = (runAssigns (tailOf c order)
          (consts.reverse ++ (((omKeys c.vars).zip xs).reverse ++ ((free.zip ps).reverse ++ [("time", t)])))).bind
        fun env => (((omKeys c.vars).map dName).mapM env.get).bind
          (checkRet (progOf c L order free consts)) := by
  obtain ⟨hunp, hretb⟩ := tmpl_facts hL
  have hlen : (omKeys c.vars).length = xs.length := by simp [omKeys, hxs]
  have hvne : (omKeys c.vars).isEmpty = false := by
    cases hv : c.vars with
    | nil => exact absurd hv hok.nonempty
    | cons a as => simp [omKeys]
  have hpl : (ps.length != free.length) = false := by simp [hps]
  simp only [runSLP, progOf, SLP.static, hunp, hretb, hvne, hne, bindInputs, zipBind_ok hlen, hpl,
    Env.setMany_eq, bind, Except.bind, Bool.false_eq_true, if_false, pure, Except.pure, Bool.not_false,
    Bool.true_and, Bool.false_and, Bool.and_true, Bool.not_true, Bool.and_false]
  rw [runAssigns_append, runAssigns_consts]
  simp only [Except.bind, tailOf, List.append_assoc]
  rfl

theorem diffEqs_nonempty {c : Content} (hok : OkV c) : (diffEqs c.rxns).isEmpty = false := hok.hasEq

theorem baseEnv_sameKeys {P P' V : List (Name × Rat)} (h : P.map (·.1) = P'.map (·.1)) :
    SameKeys (baseEnv P V [] 0) (baseEnv P' V [] 0) := by
  intro a
  have key : ∀ (e1 e2 : Env), e1.map (·.1) = e2.map (·.1) → (e1.lookup a).isSome = (e2.lookup a).isSome := by
    intro e1 e2 hk
    by_cases hm : a ∈ e1.map (·.1)
    · obtain ⟨v, hv⟩ := lookup_some_of_mem_keys hm
      obtain ⟨w, hw⟩ := lookup_some_of_mem_keys (hk ▸ hm)
      rw [hv, hw]; rfl
    · rw [lookup_none_of_not_mem hm, lookup_none_of_not_mem (hk ▸ hm)]
  apply key
  simp [baseEnv, List.map_reverse, h]

/-- the generated function with free parameters = the generated function of the model with those parameters set -/
theorem genRun_free (c : Content) (L : Lang) (free : List Name) (t : Rat) (xs ps : List Rat)
    (hL : L ≠ .jl) (hok : OkV c) (hia : noIAB c.pars = true) (hf : FreeOk c free ps)
    (hxs : xs.length = c.vars.length) :
    genRun [] c L free t xs ps = genRun [] (setPars c free ps) L [] t xs [] := by
  obtain ⟨hok', hk', hia'⟩ := setPars_ok hok hia hf
  obtain ⟨hav, hdeps⟩ := setPars_static hok hia hf
  have hias : iasOf (setPars c free ps) = iasOf c := by
    show omUnion (iaOf c.vars) (iaOf (setPars c free ps).pars) = omUnion (iaOf c.vars) (iaOf c.pars)
    rw [(plainOf_noIA hia').2, (plainOf_noIA hia).2]
  have hdefOf : ∀ k, defOfE (setPars c free ps) k = defOfE c k := by
    intro k
    unfold defOfE
    rw [hias]
    rfl
  have hdefs : ∀ o, defsE (setPars c free ps) o = defsE c o := by
    intro o
    simp only [defsE, hdefOf]
  obtain ⟨c1, c2, c3⟩ := createCache_cases hok hia
  obtain ⟨d1, d2, d3⟩ := createCache_cases hok' hia'
  rw [hav, hdeps] at d1 d2 d3
  have hPk : (plainOf c.pars).map (·.1) = omKeys c.pars := keys_plainOf hia
  have hPk' : (plainOf (setPars c free ps).pars).map (·.1) = omKeys c.pars := by
    rw [keys_plainOf hia', hk']
  cases hs : sortDeps c.available c.deps with
  | error e =>
    simp [genRun, genModel, c1 e hs, d1 e hs, bind, Except.bind]
  | ok order =>
    rcases evalSeq_sameKeys (defsE c order)
      (baseEnv_sameKeys (P := plainOf c.pars) (P' := plainOf (setPars c free ps).pars) (V := plainOf c.vars)
        (by rw [hPk, hPk'])) with ⟨dep, dep', he, he', _⟩ | ⟨err, he, he'⟩
    · obtain ⟨cache, hcc, hord, hbp, hinit, hem⟩ := c3 order dep hs he
      obtain ⟨cache', hcc', hord', hbp', hinit', hem'⟩ := d3 order dep' hs (by rw [hdefs]; exact he')
      have hn := hok.names
      -- pop the free parameters
      obtain ⟨prem, hpop, hprem⟩ := popAll_ok free (plainOf c.pars) hf.nd (by rw [hPk]; exact hf.sub)
      have hne := diffEqs_nonempty hok
      unfold genRun
      rw [genModel_free_ok hok hL hcc hinit hia (by rw [hem]; exact hpop),
        genModel_free_ok hok' hL hcc' hinit' hia'
          (show popAll (emittedPars (setPars c free ps) cache') [] = .ok (emittedPars (setPars c free ps) cache')
            from rfl)]
      simp only [bind, Except.bind]
      rw [runSLP_progOf hok hL _ _ _ t xs ps hxs hf.len hne,
        runSLP_progOf hok' hL _ _ _ t xs [] hxs rfl hne, hord, hord', hem']
      -- the two start environments have the same lookups
      have hsv : SameVals (prem.reverse ++ (((omKeys c.vars).zip xs).reverse ++ ((free.zip ps).reverse ++ [("time", t)])))
          ((plainOf (setPars c free ps).pars).reverse ++ (((omKeys c.vars).zip xs).reverse
            ++ ((([] : List Name).zip ([] : List Rat)).reverse ++ [("time", t)]))) := by
        intro a
        obtain ⟨_, _, hl⟩ := setParsList_spec (free.zip ps) c.pars (by rw [keys_zip' hf.len]; exact hf.nd)
          (by rw [keys_zip' hf.len]; exact hf.sub) hia
        have hlen : (omKeys c.vars).length = xs.length := by simp [omKeys, hxs]
        have hP'nd : ((plainOf (setPars c free ps).pars).map (·.1)).Nodup := by rw [hPk']; exact hn.pNd
        have hprem_nd : (prem.map (·.1)).Nodup ∨ True := Or.inr trivial
        -- lookups on the right
        have hR : ∀ v, (plainOf (setPars c free ps).pars).lookup a = some v →
            ((plainOf (setPars c free ps).pars).reverse ++ (((omKeys c.vars).zip xs).reverse
              ++ ((([] : List Name).zip ([] : List Rat)).reverse ++ [("time", t)]))).lookup a = some v := by
          intro v hv
          rw [lookup_append_left (by rw [keys_reverse]; exact lookup_some_mem_keys hv),
            lookup_reverse_nodup _ _ hP'nd, hv]
        have hplain' : (plainOf (setPars c free ps).pars).lookup a
            = ((setParsList c.pars (free.zip ps)).lookup a).map plainVal := by
          rw [(plainOf_noIA hia').1, lookup_map_snd plainVal, setPars_pars]
        have hplain : (plainOf c.pars).lookup a = (c.pars.lookup a).map plainVal := by
          rw [(plainOf_noIA hia).1, lookup_map_snd plainVal]
        by_cases hfree : a ∈ free
        · -- a free parameter: bound as an argument on the left, as a constant on the right
          have hap : a ∈ omKeys c.pars := hf.sub a hfree
          obtain ⟨v, hv⟩ := lookup_some_of_mem_keys (m := free.zip ps) (by rw [keys_zip' hf.len]; exact hfree)
          have hnv : a ∉ omKeys c.vars := fun h => hn.vp a h hap
          rw [lookup_append_right (by
                intro hm; rw [keys_reverse] at hm
                obtain ⟨w, hw⟩ := lookup_some_of_mem_keys hm
                rw [hprem a] at hw; simp [hfree] at hw),
            lookup_append_right (by rw [keys_reverse, keys_zip hlen]; exact hnv),
            lookup_append_left (by rw [keys_reverse, keys_zip' hf.len]; exact hfree),
            lookup_reverse_nodup _ _ (by rw [keys_zip' hf.len]; exact hf.nd), hv]
          symm
          apply hR
          rw [hplain', hl a, hv]; rfl
        · have hz : (free.zip ps).lookup a = none :=
            lookup_none_of_not_mem (by rw [keys_zip' hf.len]; exact hfree)
          have hpp : (plainOf (setPars c free ps).pars).lookup a = (plainOf c.pars).lookup a := by
            rw [hplain', hl a, hz, hplain]
          by_cases hap : a ∈ omKeys c.pars
          · obtain ⟨v, hv⟩ := lookup_some_of_mem_keys (m := plainOf c.pars) (by rw [hPk]; exact hap)
            have hpv : prem.lookup a = some v := by rw [hprem a]; simp [hfree, hv]
            rw [lookup_append_left (by rw [keys_reverse]; exact lookup_some_mem_keys hpv)]
            rw [hR v (by rw [hpp, hv])]
            -- prem has distinct keys? use: reverse lookup of prem equals lookup when the key occurs once; avoid by
            -- showing any binding of `a` in prem has value v
            have hall : ∀ kv ∈ prem, kv.1 = a → kv.2 = v := by
              intro kv hkv hka
              -- prem is a sublist of plainOf c.pars (repeated filtering), whose keys are distinct
              have hsub : ∀ (fr : List Name) (m m' : List (Name × Rat)), popAll m fr = .ok m' → ∀ x ∈ m', x ∈ m := by
                intro fr; induction fr with
                | nil => intro m m' h x hx; simp [popAll, pure, Except.pure] at h; subst h; exact hx
                | cons k ks ih =>
                  intro m m' h x hx
                  simp only [popAll] at h
                  split at h
                  · exact (List.mem_filter.mp (ih _ _ h x hx)).1
                  · cases h
              have hmem := hsub free _ _ hpop kv hkv
              have hnd : ((plainOf c.pars).map (·.1)).Nodup := by rw [hPk]; exact hn.pNd
              have hlk : (plainOf c.pars).lookup kv.1 = some kv.2 := by
                clear hsub
                revert hmem hnd
                generalize plainOf c.pars = m
                intro hmem hnd
                induction m with
                | nil => cases hmem
                | cons y ys ihm =>
                  obtain ⟨k0, v0⟩ := y
                  simp only [List.map_cons, List.nodup_cons] at hnd
                  rw [lookup_cons_eq]
                  cases List.mem_cons.mp hmem with
                  | inl h1 => rw [h1]; simp
                  | inr h1 =>
                    have : kv.1 ≠ k0 := fun h2 => hnd.1 (h2 ▸ List.mem_map_of_mem (f := (·.1)) h1)
                    simp [this]; exact ihm h1 hnd.2
              rw [hka, hv] at hlk
              exact (Option.some.inj hlk).symm
            have hrev : ∀ (l : List (Name × Rat)), (∀ kv ∈ l, kv.1 = a → kv.2 = v) → a ∈ l.map (·.1) →
                l.reverse.lookup a = some v := by
              intro l hl' hm
              obtain ⟨w, hw⟩ := lookup_some_of_mem_keys (m := l.reverse) (by rw [keys_reverse]; exact hm)
              have := lookup_some_mem_pair hw
              rw [List.mem_reverse] at this
              have hwv : w = v := hl' (a, w) this rfl
              rw [hw, hwv]
            exact hrev prem hall (lookup_some_mem_keys hpv)
          · have hpn : a ∉ prem.map (·.1) := by
              intro hm
              obtain ⟨w, hw⟩ := lookup_some_of_mem_keys hm
              rw [hprem a] at hw
              simp only [hfree, if_false] at hw
              exact hap (hPk ▸ lookup_some_mem_keys hw)
            have hL1 : (prem.reverse ++ (((omKeys c.vars).zip xs).reverse ++ ((free.zip ps).reverse ++ [("time", t)]))).lookup a
                = (((omKeys c.vars).zip xs).reverse ++ ((free.zip ps).reverse ++ [("time", t)])).lookup a :=
              lookup_append_right (by rw [keys_reverse]; exact hpn)
            have hR1 : ((plainOf (setPars c free ps).pars).reverse ++ (((omKeys c.vars).zip xs).reverse
                  ++ ((([] : List Name).zip ([] : List Rat)).reverse ++ [("time", t)]))).lookup a
                = (((omKeys c.vars).zip xs).reverse ++ ((([] : List Name).zip ([] : List Rat)).reverse ++ [("time", t)])).lookup a :=
              lookup_append_right (by rw [keys_reverse, hPk']; exact hap)
            rw [hL1, hR1]
            by_cases hav2 : a ∈ omKeys c.vars
            · rw [lookup_append_left (by rw [keys_reverse, keys_zip hlen]; exact hav2),
                lookup_append_left (by rw [keys_reverse, keys_zip hlen]; exact hav2)]
            · have hL2 : (((omKeys c.vars).zip xs).reverse ++ ((free.zip ps).reverse ++ [("time", t)])).lookup a
                  = ((free.zip ps).reverse ++ [("time", t)]).lookup a :=
                lookup_append_right (by rw [keys_reverse, keys_zip hlen]; exact hav2)
              have hR2 : (((omKeys c.vars).zip xs).reverse ++ ((([] : List Name).zip ([] : List Rat)).reverse ++ [("time", t)])).lookup a
                  = ((([] : List Name).zip ([] : List Rat)).reverse ++ [("time", t)]).lookup a :=
                lookup_append_right (by rw [keys_reverse, keys_zip hlen]; exact hav2)
              rw [hL2, hR2, lookup_append_right (by rw [keys_reverse, keys_zip' hf.len]; exact hfree)]
              simp
      have hv' : (setPars c free ps).vars = c.vars := rfl
      have hr' : (setPars c free ps).rxns = c.rxns := rfl
      have ht : tailOf (setPars c free ps) order = tailOf c order := rfl
      have hck : checkRet (progOf (setPars c free ps) L order [] (plainOf (setPars c free ps).pars))
          = checkRet (progOf c L order free prem) := rfl
      simp only [hv', hr', ht, hck]
      rcases runAssigns_sameVals (tailOf c order) hsv with ⟨r1, r2, h1, h2, hs12⟩ | ⟨err, h1, h2⟩
      · rw [h1, h2]
        simp only [Except.bind]
        rw [mapM_get_sameVals hs12]
      · rw [h1, h2]
    · simp [genRun, genModel, c2 order err hs he, d2 order err hs (by rw [hdefs]; exact he'), bind, Except.bind]

theorem FreeOk.of_B {c : Content} {free : List Name} {ps : List Rat} (h : freeOkB c free ps = true) :
    FreeOk c free ps := by
  simp only [freeOkB, Bool.and_eq_true, List.all_eq_true] at h
  obtain ⟨⟨h1, h2⟩, h3⟩ := h
  exact ⟨(nodupB_iff _).mp h1, fun k hk => by simpa using h2 k hk, by simpa using h3⟩

/-- **free parameters**: the generated function called with values for the free parameters returns what the
    model returns after `update_parameters` with those values -/
theorem equiv_free (c : Content) (L : Lang) (free : List Name) (t : Rat) (xs ps : List Rat)
    (hL : L ≠ .jl) (hok : OkV c) (hia : noIAB c.pars = true) (hf : FreeOk c free ps)
    (hxs : xs.length = c.vars.length) :
    genRun [] c L free t xs ps = callRhs (setPars c free ps) t xs := by
  rw [genRun_free c L free t xs ps hL hok hia hf hxs]
  exact equiv_mainV _ L t xs hL (setPars_ok hok hia hf).1 hxs

/-- free parameters together with a parameter defined by an initial assignment: refused -/
theorem genModel_free_refused (c : Content) (L : Lang) (free : List Name) {cache : Cache}
    (hcc : createCache c = .ok cache) (hfree : free ≠ []) (hia : noIA c.pars = false) :
    genModel [] c L free = .error (.other "NotImplementedError") := by
  have : free.isEmpty = false := by cases free with | nil => exact absurd rfl hfree | cons a as => rfl
  simp [genModel, hcc, this, hia, bind, Except.bind, throw, throwThe, MonadExceptOf.throw]

end Mxl.C07
