/- C12 — well-formedness facts and what the numeric core's containers look up for a symbolic content (core Lean only). -/
import MxlVerif.Lemmas.C12Assemble
namespace Mxl.C12
open Mxl

/-- what `SContent.wf` provides, spelled out -/
structure WFacts (c : SContent) : Prop where
  vN : (omKeys c.vars).Nodup
  pN : (omKeys c.pars).Nodup
  dataN : (omKeys c.data).Nodup
  dN : (omKeys c.derived).Nodup
  rN : (omKeys c.rxns).Nodup
  v_p : ∀ k ∈ omKeys c.vars, k ∉ omKeys c.pars
  v_data : ∀ k ∈ omKeys c.vars, k ∉ omKeys c.data
  v_d : ∀ k ∈ omKeys c.vars, k ∉ omKeys c.derived
  v_r : ∀ k ∈ omKeys c.vars, k ∉ omKeys c.rxns
  p_data : ∀ k ∈ omKeys c.pars, k ∉ omKeys c.data
  p_d : ∀ k ∈ omKeys c.pars, k ∉ omKeys c.derived
  p_r : ∀ k ∈ omKeys c.pars, k ∉ omKeys c.rxns
  data_d : ∀ k ∈ omKeys c.data, k ∉ omKeys c.derived
  data_r : ∀ k ∈ omKeys c.data, k ∉ omKeys c.rxns
  d_r : ∀ k ∈ omKeys c.derived, k ∉ omKeys c.rxns
  time_v : "time" ∉ omKeys c.vars
  time_p : "time" ∉ omKeys c.pars
  time_data : "time" ∉ omKeys c.data
  time_d : "time" ∉ omKeys c.derived
  time_r : "time" ∉ omKeys c.rxns
  surs : c.surs = []
  stN : ∀ kv ∈ c.rxns, (omKeys kv.2.stoich).Nodup

theorem wf_facts (c : SContent) (h : c.wf = true) : WFacts c := by
  unfold SContent.wf at h
  simp only [Bool.and_eq_true, decide_eq_true_eq, List.isEmpty_iff, List.all_eq_true] at h
  obtain ⟨⟨hn, hs⟩, hst⟩ := h
  unfold SContent.names at hn
  simp only [List.nodup_append, List.mem_append, List.mem_singleton, List.nodup_cons,
    List.not_mem_nil, not_false_eq_true, List.nodup_nil, and_true, true_and] at hn
  constructor <;> grind

end Mxl.C12
namespace Mxl.C12
open Mxl

theorem omUnion_nil {β} (a : List (Name × β)) : omUnion a [] = a := rfl

section toContent
variable (sc : SContent)

theorem keys_vars : omKeys sc.toContent.vars = omKeys sc.vars := omKeys_map_val _ _
theorem keys_pars : omKeys sc.toContent.pars = omKeys sc.pars := omKeys_map_val _ _
theorem keys_derived : omKeys sc.toContent.derived = omKeys sc.derived := omKeys_map_val _ _
theorem keys_rxns : omKeys sc.toContent.rxns = omKeys sc.rxns := omKeys_map_val _ _

theorem derived_lookup (k : Name) :
    sc.toContent.derived.lookup k = (sc.derived.lookup k).map SFn.toFn := lookup_map_val _ _ _
theorem rxns_lookup (k : Name) :
    sc.toContent.rxns.lookup k = (sc.rxns.lookup k).map SRxn.toRxn := lookup_map_val _ _ _

end toContent

theorem mem_keys_plainOf (m : List (Name × Val)) (k : Name) (h : k ∈ omKeys (plainOf m)) :
    k ∈ omKeys m := by
  unfold plainOf omKeys at *
  simp only [List.mem_map, List.mem_filterMap] at h
  obtain ⟨⟨k', v⟩, ⟨⟨k2, val⟩, hm, hf⟩, hk⟩ := h
  cases val with
  | plain w => simp at hf; exact List.mem_map.mpr ⟨(k2, .plain w), hm, by simp at hk; rw [← hk, ← hf.1]⟩
  | ia f => simp at hf

theorem mem_keys_iaOf (m : List (Name × Val)) (k : Name) (h : k ∈ omKeys (iaOf m)) :
    k ∈ omKeys m := by
  unfold iaOf omKeys at *
  simp only [List.mem_map, List.mem_filterMap] at h
  obtain ⟨⟨k', v⟩, ⟨⟨k2, val⟩, hm, hf⟩, hk⟩ := h
  cases val with
  | plain w => simp at hf
  | ia f => simp at hf; exact List.mem_map.mpr ⟨(k2, .ia f), hm, by simp at hk; rw [← hk, ← hf.1]⟩

theorem keys_plainOf_sublist (m : List (Name × Val)) : (omKeys (plainOf m)).Sublist (omKeys m) := by
  induction m with
  | nil => simp [plainOf, omKeys]
  | cons kv m ih =>
    obtain ⟨k, val⟩ := kv
    cases val with
    | plain w => simpa [plainOf, omKeys, List.filterMap_cons] using ih
    | ia f =>
      simp only [plainOf, omKeys, List.filterMap_cons, List.map_cons]
      exact List.Sublist.cons _ (by simpa [plainOf, omKeys] using ih)

theorem nodup_keys_plainOf (m : List (Name × Val)) (h : (omKeys m).Nodup) :
    (omKeys (plainOf m)).Nodup := (keys_plainOf_sublist m).nodup h

theorem plain_not_ia (m : List (Name × Val)) (h : (omKeys m).Nodup) (k : Name)
    (hp : k ∈ omKeys (plainOf m)) : k ∉ omKeys (iaOf m) := by
  induction m with
  | nil => simp [plainOf, omKeys] at hp
  | cons kv m ih =>
    obtain ⟨k', val⟩ := kv
    simp only [omKeys, List.map_cons, List.nodup_cons] at h
    cases val with
    | plain w =>
      simp only [plainOf, iaOf, List.filterMap_cons, omKeys, List.map_cons, List.mem_cons] at hp ⊢
      rcases hp with hp | hp
      · subst hp
        intro hia
        exact h.1 (mem_keys_iaOf m _ (by simpa [iaOf, omKeys] using hia))
      · exact ih h.2 (by simpa [plainOf, omKeys] using hp)
    | ia f =>
      simp only [plainOf, iaOf, List.filterMap_cons, omKeys, List.map_cons, List.mem_cons] at hp ⊢
      intro hia
      rcases hia with hia | hia
      · subst hia
        exact h.1 (mem_keys_plainOf m _ (by simpa [plainOf, omKeys] using hp))
      · exact ih h.2 (by simpa [plainOf, omKeys] using hp) (by simpa [iaOf, omKeys] using hia)

/-- what `to_sort[k]` can be in a surrogate-free, well-formed model -/
theorem toSort_lookup (sc : SContent) (w : WFacts sc) (k : Name) (comp : Comp)
    (h : sc.toContent.toSort.lookup k = some comp) :
    (∃ r, sc.rxns.lookup k = some r ∧ comp = .fn r.rate.toFn) ∨
    (k ∉ omKeys sc.rxns ∧ ∃ f, sc.derived.lookup k = some f ∧ comp = .fn f.toFn) ∨
    (k ∉ omKeys sc.rxns ∧ k ∉ omKeys sc.derived ∧ (∃ fn, comp = .fn fn) ∧
      (k ∈ omKeys (iaOf sc.toContent.vars) ∨ k ∈ omKeys (iaOf sc.toContent.pars))) := by
  unfold Content.toSort at h
  have hs : sc.toContent.surs = [] := w.surs
  simp only [hs, List.map_nil, omUnion_nil] at h
  rw [lookup_omUnion, lookup_reverse _ _ (by
      rw [omKeys_map_val (fun r : Rxn => Comp.fn r.rate), keys_rxns]; exact w.rN),
    lookup_map_val (fun r : Rxn => Comp.fn r.rate), rxns_lookup] at h
  cases hr : sc.rxns.lookup k with
  | some r =>
    left
    simp [hr] at h
    exact ⟨r, rfl, by rw [← h]; rfl⟩
  | none =>
    right
    have hnr : k ∉ omKeys sc.rxns := (lookup_none_iff _ _).mp hr
    simp only [hr, Option.map_none, Option.none_or] at h
    rw [lookup_omUnion, lookup_reverse _ _ (by rw [omKeys_map_val, keys_derived]; exact w.dN),
      lookup_map_val, derived_lookup] at h
    cases hd : sc.derived.lookup k with
    | some f =>
      left
      simp [hd] at h
      exact ⟨hnr, f, rfl, h.symm⟩
    | none =>
      right
      have hnd : k ∉ omKeys sc.derived := (lookup_none_iff _ _).mp hd
      simp only [hd, Option.map_none, Option.none_or] at h
      rw [lookup_map_val] at h
      cases hi : (omUnion (iaOf sc.toContent.vars) (iaOf sc.toContent.pars)).lookup k with
      | none => simp [hi] at h
      | some fn =>
        simp [hi] at h
        refine ⟨hnr, hnd, ⟨fn, h.symm⟩, ?_⟩
        exact (mem_keys_omUnion _ _ _).mp (mem_keys_of_lookup _ _ _ hi)

theorem containers_lookup (sc : SContent) (w : WFacts sc) (k : Name) (comp : Comp)
    (h : sc.toContent.containers.lookup k = some comp) :
    (∃ r, sc.rxns.lookup k = some r ∧ comp = .fn r.rate.toFn) ∨
    (k ∉ omKeys sc.rxns ∧ ∃ f, sc.derived.lookup k = some f ∧ comp = .fn f.toFn) := by
  unfold Content.containers at h
  have hs : sc.toContent.surs = [] := w.surs
  simp only [hs, List.map_nil, omUnion_nil] at h
  rw [lookup_omUnion, lookup_reverse _ _ (by
      rw [omKeys_map_val (fun r : Rxn => Comp.fn r.rate), keys_rxns]; exact w.rN),
    lookup_map_val (fun r : Rxn => Comp.fn r.rate), rxns_lookup] at h
  cases hr : sc.rxns.lookup k with
  | some r =>
    left
    simp [hr] at h
    exact ⟨r, rfl, by rw [← h]; rfl⟩
  | none =>
    right
    have hnr : k ∉ omKeys sc.rxns := (lookup_none_iff _ _).mp hr
    simp only [hr, Option.map_none, Option.none_or] at h
    rw [lookup_map_val, derived_lookup] at h
    cases hd : sc.derived.lookup k with
    | some f => simp [hd] at h; exact ⟨hnr, f, rfl, h.symm⟩
    | none => simp [hd] at h

end Mxl.C12
