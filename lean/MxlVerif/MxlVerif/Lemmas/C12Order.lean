/- C12 — the order `_sort_dependencies` returns respects dependencies (core Lean only). -/
import MxlVerif.Lemmas.C12Main
namespace Mxl.C12
open Mxl

/-- `order` can be produced by repeatedly taking an element of `els` all of whose requirements
    are available -/
inductive Sorted (els : List Dep) : List Name → List Name → Prop
  | nil {av} : Sorted els av []
  | cons {av d rest} : d ∈ els → (∀ r ∈ d.required, r ∈ av) → Sorted els (d.provided ++ av) rest →
      Sorted els av (d.name :: rest)

theorem ready_iff (av : List Name) (d : Dep) : ready av d = true ↔ ∀ r ∈ d.required, r ∈ av := by
  simp [ready, List.all_eq_true, List.contains_iff_mem]

theorem sortLoop_sorted (els : List Dep) :
    ∀ (b : Nat) (av : List Name) (q : List Dep) (last : Option Name) (acc order : List Name),
      sortLoop els b av q last acc = .ok order → (∀ d ∈ q, d ∈ els) →
      ∃ new, order = acc.reverse ++ new ∧ Sorted els av new ∧ ∀ d ∈ q, d.name ∈ new := by
  intro b
  induction b with
  | zero =>
    intro av q last acc order h hq
    cases q with
    | nil =>
      simp [sortLoop] at h; subst h
      exact ⟨[], by simp, .nil, by simp⟩
    | cons d rest =>
      simp only [sortLoop] at h
      split at h
      · simp at h
      · split at h <;> simp at h
  | succ b ih =>
    intro av q last acc order h hq
    cases q with
    | nil =>
      simp [sortLoop] at h; subst h
      exact ⟨[], by simp, .nil, by simp⟩
    | cons d rest =>
      simp only [sortLoop] at h
      split at h
      · rename_i hready
        obtain ⟨new, ho, hs, hall⟩ := ih _ _ _ _ _ h (fun d' hd' => hq d' (List.mem_cons_of_mem _ hd'))
        refine ⟨d.name :: new, by simp [ho], ?_, ?_⟩
        · exact .cons (hq d List.mem_cons_self) ((ready_iff av d).mp hready) hs
        · intro d' hd'
          rcases List.mem_cons.mp hd' with h1 | h1
          · subst h1; exact List.mem_cons_self
          · exact List.mem_cons_of_mem _ (hall d' h1)
      · split at h
        · simp at h
        · obtain ⟨new, ho, hs, hall⟩ := ih _ _ _ _ _ h (by
            intro d' hd'
            rcases List.mem_append.mp hd' with h1 | h1
            · exact hq d' (List.mem_cons_of_mem _ h1)
            · simp at h1; subst h1; exact hq d' List.mem_cons_self)
          refine ⟨new, ho, hs, ?_⟩
          intro d' hd'
          apply hall
          rcases List.mem_cons.mp hd' with h1 | h1
          · subst h1; simp
          · exact List.mem_append_left _ h1

theorem sortDeps_sorted (av : List Name) (els : List Dep) (order : List Name)
    (h : sortDeps av els = .ok order) : Sorted els av order ∧ ∀ d ∈ els, d.name ∈ order := by
  unfold sortDeps at h
  simp only [bind, Except.bind] at h
  cases hc : checkSortable av els with
  | error err => simp [hc] at h
  | ok u =>
    simp only [hc] at h
    obtain ⟨new, ho, hs, hall⟩ := sortLoop_sorted els _ _ _ _ _ _ h (fun _ hd => hd)
    simp at ho; subst ho
    exact ⟨hs, hall⟩

end Mxl.C12
