/- helper lemmas for the naming / glue stage (Model/C17Codegen.lean) -/
import MxlVerif.Model.C17Codegen
namespace Mxl.C17
open Mxl

/-! ### `_free_name` terminates within `len(taken) + 1` rounds and returns a name that is not taken -/

theorem freeName_not_taken (t : List String) :
    ∀ (fuel : Nat) (name r : String), freeName t name fuel = some r → t.contains r = false := by
  intro fuel
  induction fuel with
  | zero => intro name r h; simp [freeName] at h
  | succ fuel ih =>
    intro name r h
    simp only [freeName] at h
    by_cases ht : t.contains name = true
    · rw [if_pos ht] at h; exact ih _ _ h
    · rw [if_neg ht] at h
      simp only [Option.some.injEq] at h
      subst h; simpa using ht

/-- the loop only asks about names at least as long as the one it starts from -/
theorem freeName_congr (t t' : List String) :
    ∀ (fuel : Nat) (name : String), (∀ x : String, name.length ≤ x.length → t.contains x = t'.contains x) →
      freeName t name fuel = freeName t' name fuel := by
  intro fuel
  induction fuel with
  | zero => intro name _; rfl
  | succ fuel ih =>
    intro name h
    simp only [freeName]
    rw [h name (Nat.le_refl _)]
    rw [ih (name ++ "_") (fun x hx => h x (by
      have h1 : "_".length = 1 := by decide
      have : (name ++ "_").length = name.length + 1 := by rw [String.length_append, h1]
      omega))]

theorem freeName_isSome :
    ∀ (fuel : Nat) (t : List String) (name : String), t.length < fuel → (freeName t name fuel).isSome = true := by
  intro fuel
  induction fuel with
  | zero => intro t name h; omega
  | succ fuel ih =>
    intro t name h
    simp only [freeName]
    by_cases ht : t.contains name = true
    · rw [if_pos ht]
      have hm : name ∈ t := by simpa using ht
      have hlen : (t.erase name).length < fuel := by
        rw [List.length_erase_of_mem hm]
        have : 0 < t.length := List.length_pos_of_mem hm
        omega
      rw [freeName_congr t (t.erase name) fuel (name ++ "_") (fun x hx => by
        have h1 : "_".length = 1 := by decide
        have hl : (name ++ "_").length = name.length + 1 := by rw [String.length_append, h1]
        have hne : x ≠ name := by
          intro e; subst e; omega
        have : x ∈ t.erase name ↔ x ∈ t := List.mem_erase_of_ne hne
        by_cases hx' : x ∈ t
        · simp [hx', this.mpr hx']
        · have h2 : x ∉ t.erase name := fun hh => hx' (this.mp hh)
          simp [hx', h2])]
      exact ih _ _ hlen
    · rw [if_neg ht]; rfl

theorem freshName_spec (t : List String) (name : String) :
    freeName t name (t.length + 1) = some (freshName t name) := by
  have h := freeName_isSome (t.length + 1) t name (Nat.lt_succ_self _)
  unfold freshName
  cases hf : freeName t name (t.length + 1) with
  | none => rw [hf] at h; cases h
  | some r => rfl

theorem freshName_not_taken (t : List String) (name : String) : freshName t name ∉ t := by
  have := freeName_not_taken t _ _ _ (freshName_spec t name)
  simpa using this

/-! ### Python dict assignment with a key that is not present appends -/

theorem omInsert_fresh {β} (m : List (Name × β)) (k : Name) (v : β) (h : k ∉ omKeys m) :
    omInsert m k v = m ++ [(k, v)] := by
  induction m with
  | nil => rfl
  | cons kv rest ih =>
    obtain ⟨k', v'⟩ := kv
    simp only [omKeys, List.map_cons, List.mem_cons, not_or] at h
    have hne : (k' == k) = false := by
      have : k' ≠ k := fun e => h.1 e.symm
      simpa using this
    simp only [omInsert, hne, Bool.false_eq_true, if_false, List.cons_append]
    rw [ih (by simpa [omKeys] using h.2)]

theorem lookup_none_of_not_key {β} (m : List (Name × β)) (k : Name) (h : k ∉ omKeys m) : m.lookup k = none := by
  induction m with
  | nil => rfl
  | cons kv rest ih =>
    obtain ⟨k', v'⟩ := kv
    simp only [omKeys, List.map_cons, List.mem_cons, not_or] at h
    have hne : (k == k') = false := by simpa using h.1
    simp only [List.lookup, hne]
    exact ih (by simpa [omKeys] using h.2)

theorem lookup_append_fresh {β} (m : List (Name × β)) (k : Name) (v : β) (h : k ∉ omKeys m) :
    (m ++ [(k, v)]).lookup k = some v := by
  rw [List.lookup_append, lookup_none_of_not_key m k h]
  simp [List.lookup]

theorem lookup_prefix {β} {m m' : List (Name × β)} {k : Name} {v : β} (hp : m <+: m') (h : m.lookup k = some v) :
    m'.lookup k = some v := by
  obtain ⟨l, rfl⟩ := hp
  rw [List.lookup_append, h]; rfl

/-! ### the invariant of the generator's state -/

/-- `rem`: the function names of the components that are still to be registered -/
structure Inv (st : GState) (rem : List String) : Prop where
  remTaken : ∀ c ∈ rem, c ∈ st.taken
  keysTaken : ∀ k ∈ omKeys st.fns, k ∈ st.taken
  disj : ∀ c ∈ rem, c ∉ omKeys st.fns
  remNodup : rem.Nodup
  keysNodup : (omKeys st.fns).Nodup

theorem omKeys_append {β} (m l : List (Name × β)) : omKeys (m ++ l) = omKeys m ++ omKeys l := by
  simp [omKeys]

theorem regGenerated_spec {st : GState} {rem : List String} (hI : Inv st rem) (req : String) (f : SymFn) :
    Inv (regGenerated true st req f).1 rem ∧
    (regGenerated true st req f).1.fns = st.fns ++ [((regGenerated true st req f).2, (f.expr, f.args))] ∧
    (regGenerated true st req f).2 ∉ omKeys st.fns := by
  have hnt := freshName_not_taken st.taken req
  have hnk : freshName st.taken req ∉ omKeys st.fns := fun h => hnt (hI.keysTaken _ h)
  have hfns : (regGenerated true st req f).1.fns = st.fns ++ [(freshName st.taken req, (f.expr, f.args))] := by
    simp only [regGenerated]; exact omInsert_fresh _ _ _ hnk
  refine ⟨?_, hfns, hnk⟩
  constructor
  · intro c hc; simp only [regGenerated, if_true]; exact List.mem_cons_of_mem _ (hI.remTaken c hc)
  · intro k hk
    rw [hfns, omKeys_append] at hk
    simp only [regGenerated, if_true]
    rcases List.mem_append.mp hk with h | h
    · exact List.mem_cons_of_mem _ (hI.keysTaken k h)
    · simp [omKeys] at h; subst h; exact List.mem_cons_self
  · intro c hc hk
    rw [hfns, omKeys_append] at hk
    rcases List.mem_append.mp hk with h | h
    · exact hI.disj c hc h
    · simp [omKeys] at h; subst h; exact hnt (hI.remTaken _ hc)
  · exact hI.remNodup
  · rw [hfns, omKeys_append]
    refine List.nodup_append.mpr ⟨hI.keysNodup, by simp [omKeys], ?_⟩
    intro a ha b hb e
    simp [omKeys] at hb; subst hb; subst e; exact hnk ha

theorem regComponent_spec {st : GState} {rem : List String} (f : SymFn) (hI : Inv st (f.fnName :: rem)) :
    Inv (regComponent st f) rem ∧ (regComponent st f).fns = st.fns ++ [(f.fnName, (f.expr, f.args))] ∧
    f.fnName ∉ omKeys st.fns := by
  have hnk : f.fnName ∉ omKeys st.fns := hI.disj _ List.mem_cons_self
  have hfns : (regComponent st f).fns = st.fns ++ [(f.fnName, (f.expr, f.args))] := by
    simp only [regComponent]; exact omInsert_fresh _ _ _ hnk
  have hnd := List.nodup_cons.mp hI.remNodup
  refine ⟨?_, hfns, hnk⟩
  constructor
  · intro c hc; exact hI.remTaken c (List.mem_cons_of_mem _ hc)
  · intro k hk
    rw [hfns, omKeys_append] at hk
    show k ∈ st.taken
    rcases List.mem_append.mp hk with h | h
    · exact hI.keysTaken k h
    · simp [omKeys] at h; subst h; exact hI.remTaken _ List.mem_cons_self
  · intro c hc hk
    rw [hfns, omKeys_append] at hk
    rcases List.mem_append.mp hk with h | h
    · exact hI.disj c (List.mem_cons_of_mem _ hc) h
    · simp [omKeys] at h; subst h; exact hnd.1 hc
  · exact hnd.2
  · rw [hfns, omKeys_append]
    refine List.nodup_append.mpr ⟨hI.keysNodup, by simp [omKeys], ?_⟩
    intro a ha b hb e
    simp [omKeys] at hb; subst hb; subst e; exact hnk ha

/-! ### the loops -/

theorem genQty_spec {st : GState} {rem : List String} (kw : String) (q : SymQty) (hI : Inv st rem) :
    Inv (genQty true kw st q).1 rem ∧ st.fns <+: (genQty true kw st q).1.fns ∧
    (genQty true kw st q).1.fns.length = st.fns.length + isFnVal q.value ∧
    ∀ fs, (genQty true kw st q).1.fns <+: fs → resolveVal fs (genQty true kw st q).2 = specQty kw q := by
  cases hv : q.value with
  | num v =>
    simp only [genQty, hv, specQty, isFnVal, resolveVal]
    exact ⟨hI, List.prefix_refl _, by simp, fun _ _ => trivial⟩
  | fn f =>
    obtain ⟨hI', hfns, hnk⟩ := regGenerated_spec hI ("init_" ++ f.fnName) f
    simp only [genQty, hv, specQty, isFnVal, resolveVal]
    refine ⟨hI', ?_, ?_, ?_⟩
    · rw [hfns]; exact List.prefix_append _ _
    · rw [hfns]; simp
    · intro fs hp
      have := lookup_prefix hp (by rw [hfns]; exact lookup_append_fresh _ _ _ hnk)
      simp [resolveRef, specRef, this]

theorem genQtys_spec (kw : String) (mk : String → EVal → Call) (rmk : String → RVal → RCall)
    (hmk : ∀ fs k v, resolveCall fs (mk k v) = rmk k (resolveVal fs v)) :
    ∀ (l : List (String × SymQty)) (st : GState) (rem : List String), Inv st rem →
      Inv (genQtys true kw mk l st).1 rem ∧ st.fns <+: (genQtys true kw mk l st).1.fns ∧
      (genQtys true kw mk l st).1.fns.length = st.fns.length + (l.map fun kv => isFnVal kv.2.value).sum ∧
      ∀ fs, (genQtys true kw mk l st).1.fns <+: fs →
        (genQtys true kw mk l st).2.map (resolveCall fs) = l.map fun kv => rmk kv.1 (specQty kw kv.2) := by
  intro l
  induction l with
  | nil => intro st rem hI; exact ⟨hI, List.prefix_refl _, by simp [genQtys], fun _ _ => rfl⟩
  | cons kq rest ih =>
    intro st rem hI
    obtain ⟨k, q⟩ := kq
    obtain ⟨h1, p1, l1, r1⟩ := genQty_spec kw q hI
    obtain ⟨h2, p2, l2, r2⟩ := ih (genQty true kw st q).1 rem h1
    simp only [genQtys]
    refine ⟨h2, p1.trans p2, ?_, ?_⟩
    · rw [l2, l1]; simp [Nat.add_assoc]
    · intro fs hp
      simp only [List.map_cons, hmk, r1 fs (p2.trans hp), r2 fs hp]

theorem genDerived_spec :
    ∀ (l : List (String × SymFn)) (st : GState) (rem : List String), Inv st (l.map (·.2.fnName) ++ rem) →
      Inv (genDerived l st).1 rem ∧ st.fns <+: (genDerived l st).1.fns ∧
      (genDerived l st).1.fns.length = st.fns.length + l.length ∧
      ∀ fs, (genDerived l st).1.fns <+: fs →
        (genDerived l st).2.map (resolveCall fs) = l.map fun kv => .addDerived kv.1 (specRef kv.2) := by
  intro l
  induction l with
  | nil => intro st rem hI; exact ⟨by simpa [genDerived] using hI, List.prefix_refl _, by simp [genDerived], fun _ _ => rfl⟩
  | cons kf rest ih =>
    intro st rem hI
    obtain ⟨k, f⟩ := kf
    obtain ⟨h1, hfns, hnk⟩ := regComponent_spec f (rem := rest.map (·.2.fnName) ++ rem) (by simpa using hI)
    obtain ⟨h2, p2, l2, r2⟩ := ih (regComponent st f) rem h1
    have p1 : st.fns <+: (regComponent st f).fns := by rw [hfns]; exact List.prefix_append _ _
    simp only [genDerived]
    refine ⟨h2, p1.trans p2, ?_, ?_⟩
    · rw [l2, hfns]; simp; omega
    · intro fs hp
      have := lookup_prefix (p2.trans hp) (by rw [hfns]; exact lookup_append_fresh _ _ _ hnk)
      simp only [List.map_cons, resolveCall, resolveRef, specRef, this, r2 fs hp]

theorem genCoef_spec {st : GState} {rem : List String} (rxn : String) (c : SymCoef) (hI : Inv st rem) :
    Inv (genCoef true rxn st c).1 rem ∧ st.fns <+: (genCoef true rxn st c).1.fns ∧
    (genCoef true rxn st c).1.fns.length = st.fns.length + isFnCoef c ∧
    ∀ fs, (genCoef true rxn st c).1.fns <+: fs → resolveCoef fs (genCoef true rxn st c).2 = specCoef c := by
  cases c with
  | num v => exact ⟨hI, List.prefix_refl _, rfl, fun _ _ => rfl⟩
  | name s => exact ⟨hI, List.prefix_refl _, rfl, fun _ _ => rfl⟩
  | fn f =>
    obtain ⟨hI', hfns, hnk⟩ := regGenerated_spec hI (rxn ++ "_stoich_" ++ f.fnName) f
    simp only [genCoef, specCoef, isFnCoef, resolveCoef]
    refine ⟨hI', ?_, ?_, ?_⟩
    · rw [hfns]; exact List.prefix_append _ _
    · rw [hfns]; simp
    · intro fs hp
      have := lookup_prefix hp (by rw [hfns]; exact lookup_append_fresh _ _ _ hnk)
      simp [resolveRef, specRef, this]

theorem genStoich_spec (rxn : String) :
    ∀ (l : List (String × SymCoef)) (st : GState) (rem : List String), Inv st rem →
      Inv (genStoich true rxn l st).1 rem ∧ st.fns <+: (genStoich true rxn l st).1.fns ∧
      (genStoich true rxn l st).1.fns.length = st.fns.length + (l.map fun sv => isFnCoef sv.2).sum ∧
      ∀ fs, (genStoich true rxn l st).1.fns <+: fs →
        (genStoich true rxn l st).2.map (fun sv => (sv.1, resolveCoef fs sv.2)) = l.map fun sv => (sv.1, specCoef sv.2) := by
  intro l
  induction l with
  | nil => intro st rem hI; exact ⟨hI, List.prefix_refl _, by simp [genStoich], fun _ _ => rfl⟩
  | cons vc rest ih =>
    intro st rem hI
    obtain ⟨var, c⟩ := vc
    obtain ⟨h1, p1, l1, r1⟩ := genCoef_spec rxn c hI
    obtain ⟨h2, p2, l2, r2⟩ := ih (genCoef true rxn st c).1 rem h1
    simp only [genStoich]
    refine ⟨h2, p1.trans p2, ?_, ?_⟩
    · rw [l2, l1]; simp [Nat.add_assoc]
    · intro fs hp
      simp only [List.map_cons, r1 fs (p2.trans hp), r2 fs hp]

theorem genReactions_spec :
    ∀ (l : List (String × SymRxn)) (st : GState) (rem : List String), Inv st (l.map (·.2.fn.fnName) ++ rem) →
      Inv (genReactions true l st).1 rem ∧ st.fns <+: (genReactions true l st).1.fns ∧
      (genReactions true l st).1.fns.length = st.fns.length + rxnFns l ∧
      ∀ fs, (genReactions true l st).1.fns <+: fs →
        (genReactions true l st).2.map (resolveCall fs) =
          l.map fun kv => .addReaction kv.1 (specRef kv.2.fn) (kv.2.stoich.map fun sv => (sv.1, specCoef sv.2)) := by
  intro l
  induction l with
  | nil => intro st rem hI; exact ⟨by simpa [genReactions] using hI, List.prefix_refl _, by simp [genReactions, rxnFns], fun _ _ => rfl⟩
  | cons kr rest ih =>
    intro st rem hI
    obtain ⟨k, r⟩ := kr
    obtain ⟨h1, hfns, hnk⟩ := regComponent_spec r.fn (rem := rest.map (·.2.fn.fnName) ++ rem) (by simpa using hI)
    obtain ⟨h2, p2, l2, r2⟩ := genStoich_spec k r.stoich (regComponent st r.fn) _ h1
    obtain ⟨h3, p3, l3, r3⟩ := ih (genStoich true k r.stoich (regComponent st r.fn)).1 rem h2
    have p1 : st.fns <+: (regComponent st r.fn).fns := by rw [hfns]; exact List.prefix_append _ _
    simp only [genReactions]
    refine ⟨h3, (p1.trans p2).trans p3, ?_, ?_⟩
    · rw [l3, l2, hfns]; simp [rxnFns]; omega
    · intro fs hp
      have := lookup_prefix ((p2.trans p3).trans hp) (by rw [hfns]; exact lookup_append_fresh _ _ _ hnk)
      simp only [List.map_cons, resolveCall, resolveRef, specRef, this, r2 fs (p3.trans hp), r3 fs hp]

theorem genState_spec (s : SymRepr) (hnd : (takenOf s).Nodup) :
    (omKeys (genState true s).1.fns).Nodup ∧ (genState true s).1.fns.length = fnsAsked s ∧
    (genState true s).2.map (resolveCall (genState true s).1.fns) = specCalls s := by
  have h0 : Inv { fns := [], taken := takenOf s } (s.derived.map (·.2.fnName) ++ s.reactions.map (·.2.fn.fnName)) :=
    ⟨fun c hc => hc, fun k hk => by simp [omKeys] at hk, fun c _ hk => by simp [omKeys] at hk, hnd,
     by simp [omKeys]⟩
  obtain ⟨h1, p1, l1, r1⟩ := genQtys_spec "initial_value" Call.addVariable RCall.addVariable (fun _ _ _ => rfl)
    s.variables _ _ h0
  obtain ⟨h2, p2, l2, r2⟩ := genQtys_spec "value" Call.addParameter RCall.addParameter (fun _ _ _ => rfl)
    s.parameters _ _ h1
  obtain ⟨h3, p3, l3, r3⟩ := genDerived_spec s.derived _ _ h2
  obtain ⟨h4, p4, l4, r4⟩ := genReactions_spec s.reactions _ [] (by simpa using h3)
  simp only [genState]
  refine ⟨h4.keysNodup, ?_, ?_⟩
  · rw [l4, l3, l2, l1]; simp [fnsAsked]
  · simp only [List.map_append, specCalls]
    rw [r1 _ ((p2.trans p3).trans p4), r2 _ (p3.trans p4), r3 _ p4, r4 _ (List.prefix_refl _)]

/-! ### `_codegen`: initial assignments -/

theorem lookup_setValue_ne (d : List (String × SymQty)) (key k : String) (v : SymVal) (h : k ≠ key) :
    (setValue d key v).lookup k = d.lookup k := by
  induction d with
  | nil => rfl
  | cons kq rest ih =>
    obtain ⟨k', q⟩ := kq
    simp only [setValue, List.map_cons] at ih ⊢
    by_cases hk : k' = key
    · subst hk
      have : (k == k') = false := by simpa using h
      simp only [beq_self_eq_true, if_true, List.lookup, this]
      exact ih
    · have hk' : (k' == key) = false := by simpa using hk
      simp only [hk', Bool.false_eq_true, if_false, List.lookup]
      rw [ih]

theorem lookup_setValue_self (d : List (String × SymQty)) (key : String) (v : SymVal) :
    (setValue d key v).lookup key = (d.lookup key).map fun q => { q with value := v } := by
  induction d with
  | nil => rfl
  | cons kq rest ih =>
    obtain ⟨k', q⟩ := kq
    simp only [setValue, List.map_cons] at ih ⊢
    by_cases hk : k' = key
    · subst hk; simp [List.lookup]
    · have hk' : (k' == key) = false := by simpa using hk
      have hk2 : (key == k') = false := by simpa using fun e : key = k' => hk e.symm
      simp only [hk', Bool.false_eq_true, if_false, List.lookup, hk2]
      exact ih

theorem keys_setValue (d : List (String × SymQty)) (key : String) (v : SymVal) :
    (setValue d key v).map (·.1) = d.map (·.1) := by
  induction d with
  | nil => rfl
  | cons kq rest ih =>
    simp only [setValue, List.map_cons] at ih ⊢
    rw [ih]; split <;> rfl

theorem applyInits_frame (pm : PModel) (key : String) :
    ∀ (l : List (String × PExpr)) (s : SymRepr), key ∉ l.map (·.1) →
      (applyInits pm l s).parameters.lookup key = s.parameters.lookup key ∧
      (applyInits pm l s).variables.lookup key = s.variables.lookup key := by
  intro l
  induction l with
  | nil => intro s _; exact ⟨rfl, rfl⟩
  | cons ke rest ih =>
    intro s h
    obtain ⟨k, e⟩ := ke
    simp only [List.map_cons, List.mem_cons, not_or] at h
    have hne : key ≠ k := h.1
    simp only [applyInits]
    split
    · obtain ⟨a, b⟩ := ih _ h.2
      exact ⟨by rw [a]; exact lookup_setValue_ne _ _ _ _ hne, by rw [b]⟩
    · split
      · obtain ⟨a, b⟩ := ih _ h.2
        exact ⟨by rw [a], by rw [b]; exact lookup_setValue_ne _ _ _ _ hne⟩
      · exact ih _ h.2

theorem applyInits_keys (pm : PModel) :
    ∀ (l : List (String × PExpr)) (s : SymRepr),
      (applyInits pm l s).parameters.map (·.1) = s.parameters.map (·.1) ∧
      (applyInits pm l s).variables.map (·.1) = s.variables.map (·.1) ∧
      (applyInits pm l s).derived = s.derived ∧ (applyInits pm l s).reactions = s.reactions := by
  intro l
  induction l with
  | nil => intro s; exact ⟨rfl, rfl, rfl, rfl⟩
  | cons ke rest ih =>
    intro s
    obtain ⟨k, e⟩ := ke
    simp only [applyInits]
    split
    · obtain ⟨a, b, c, d⟩ := ih { s with parameters := setValue s.parameters k (.fn { fnName := k, expr := e.expr, args := e.free }) }
      exact ⟨by rw [a]; exact keys_setValue _ _ _, b, c, d⟩
    · split
      · obtain ⟨a, b, c, d⟩ := ih { s with variables := setValue s.variables k (.fn { fnName := k, expr := e.expr, args := e.free }) }
        exact ⟨a, by rw [b]; exact keys_setValue _ _ _, c, d⟩
      · exact ih s

/-- an initial assignment whose key is a parameter decides that parameter's value (keys of a dict are unique) -/
theorem applyInits_parameter (pm : PModel) (key : String) (e : PExpr) (hp : hasKey pm.parameters key = true) :
    ∀ (l : List (String × PExpr)) (s : SymRepr), (l.map (·.1)).Nodup → (key, e) ∈ l →
      (applyInits pm l s).parameters.lookup key =
        (s.parameters.lookup key).map fun q => { q with value := .fn { fnName := key, expr := e.expr, args := e.free } } := by
  intro l
  induction l with
  | nil => intro s _ h; cases h
  | cons ke rest ih =>
    intro s hnd hmem
    obtain ⟨k, e'⟩ := ke
    simp only [List.map_cons, List.nodup_cons] at hnd
    rcases List.mem_cons.mp hmem with heq | hin
    · simp only [Prod.mk.injEq] at heq
      obtain ⟨rfl, rfl⟩ := heq
      simp only [applyInits, hp, if_true]
      rw [(applyInits_frame pm key rest _ hnd.1).1]
      exact lookup_setValue_self _ _ _
    · have hne : key ≠ k := by
        intro h; subst h
        exact hnd.1 (List.mem_map.mpr ⟨(key, e), hin, rfl⟩)
      simp only [applyInits]
      split
      · rw [ih _ hnd.2 hin, lookup_setValue_ne _ _ _ _ hne]
      · split
        · rw [ih _ hnd.2 hin]
        · exact ih _ hnd.2 hin

/-- … and one whose key is a variable but no parameter decides that variable's initial value -/
theorem applyInits_variable (pm : PModel) (key : String) (e : PExpr) (hp : hasKey pm.parameters key = false)
    (hv : hasKey pm.variables key = true) :
    ∀ (l : List (String × PExpr)) (s : SymRepr), (l.map (·.1)).Nodup → (key, e) ∈ l →
      (applyInits pm l s).variables.lookup key =
        (s.variables.lookup key).map fun q => { q with value := .fn { fnName := key, expr := e.expr, args := e.free } } := by
  intro l
  induction l with
  | nil => intro s _ h; cases h
  | cons ke rest ih =>
    intro s hnd hmem
    obtain ⟨k, e'⟩ := ke
    simp only [List.map_cons, List.nodup_cons] at hnd
    rcases List.mem_cons.mp hmem with heq | hin
    · simp only [Prod.mk.injEq] at heq
      obtain ⟨rfl, rfl⟩ := heq
      simp only [applyInits, hp, hv, if_true, Bool.false_eq_true, if_false]
      rw [(applyInits_frame pm key rest _ hnd.1).2]
      exact lookup_setValue_self _ _ _
    · have hne : key ≠ k := by
        intro h; subst h
        exact hnd.1 (List.mem_map.mpr ⟨(key, e), hin, rfl⟩)
      simp only [applyInits]
      split
      · rw [ih _ hnd.2 hin]
      · split
        · rw [ih _ hnd.2 hin, lookup_setValue_ne _ _ _ _ hne]
        · exact ih _ hnd.2 hin

theorem takenOf_importSym (pm : PModel) :
    takenOf (importSym pm) = pm.derived.map (·.1) ++ pm.reactions.map (·.1) := by
  obtain ⟨_, _, c, d⟩ := applyInits_keys pm pm.inits
    { variables := pm.variables.map fun kv => (kv.1, { value := .num kv.2.1, unit := kv.2.2 })
      parameters := pm.parameters.map fun kv => (kv.1, { value := .num kv.2.1, unit := kv.2.2 })
      derived := pm.derived.map fun kv => (kv.1, { fnName := kv.1, expr := kv.2.expr, args := kv.2.free })
      reactions := pm.reactions.map fun kv =>
        (kv.1, { fn := { fnName := kv.1, expr := kv.2.expr.expr, args := kv.2.expr.free }
                 stoich := kv.2.stoich.map fun sv => (sv.1, transformStoich sv.1 sv.2) }) }
  simp only [takenOf, importSym, c, d, List.map_map]
  congr 1

theorem eq_of_name_eq_of_nodup : ∀ (l : List SymFn), (l.map (·.fnName)).Nodup →
    ∀ f ∈ l, ∀ g ∈ l, g.fnName = f.fnName → g = f := by
  intro l
  induction l with
  | nil => intro _ f hf; cases hf
  | cons a rest ih =>
    intro hnd f hf g hg hname
    simp only [List.map_cons, List.nodup_cons, List.mem_map, not_exists, not_and] at hnd
    rcases List.mem_cons.mp hf with rfl | hf' <;> rcases List.mem_cons.mp hg with rfl | hg'
    · rfl
    · exact absurd hname (hnd.1 g hg')
    · exact absurd hname.symm (hnd.1 f hf')
    · exact ih hnd.2 f hf' g hg' hname


theorem shadowGo_spec (called : List String) :
    ∀ (args taken : List String), (∀ c ∈ called, c ∈ taken) →
      (shadowGo called taken args).length = args.length ∧
      (∀ x ∈ shadowGo called taken args, called.contains x = false) ∧
      ((∀ a ∈ args, called.contains a = false) → shadowGo called taken args = args) := by
  intro args
  induction args with
  | nil => intro taken _; simp [shadowGo]
  | cons a as ih =>
    intro taken hsub
    by_cases hc : called.contains a = true
    · have hfresh := freshName_not_taken taken (a ++ "_")
      obtain ⟨h1, h2, _⟩ := ih (freshName taken (a ++ "_") :: taken) (fun c hcm => List.mem_cons_of_mem _ (hsub c hcm))
      have hm : a ∈ called := by simpa using hc
      refine ⟨by simp [shadowGo, hm, h1], ?_, ?_⟩
      · intro x hx
        simp only [shadowGo, hc, if_true, List.mem_cons] at hx
        rcases hx with rfl | hx
        · cases hcc : called.contains (freshName taken (a ++ "_")) with
          | false => rfl
          | true => exact absurd (hsub _ (by simpa using hcc)) hfresh
        · exact h2 x hx
      · intro hall
        have := hall a (List.mem_cons_self ..)
        rw [hc] at this; cases this
    · have hc' : called.contains a = false := by simpa using hc
      obtain ⟨h1, h2, h3⟩ := ih taken hsub
      have hm : a ∉ called := by simpa using hc'
      refine ⟨by simp [shadowGo, hm, h1], ?_, ?_⟩
      · intro x hx
        simp only [shadowGo, hc', Bool.false_eq_true, if_false, List.mem_cons] at hx
        rcases hx with rfl | hx
        · exact hc'
        · exact h2 x hx
      · intro hall
        simp only [shadowGo, hc', Bool.false_eq_true, if_false]
        rw [h3 (fun x hx => hall x (List.mem_cons_of_mem _ hx))]

end Mxl.C17
