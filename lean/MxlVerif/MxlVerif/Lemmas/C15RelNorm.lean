import Mathlib.Topology.MetricSpace.Pseudo.Defs
import Mathlib.Tactic.Linarith
import Mathlib.Tactic.Ring
import MxlVerif.Lemmas.C15Metric
/-! the relative criterion in absolute terms (component-wise), and the weighted small-step lemma -/
namespace Mxl.C15

theorem foldl_add_shift (l : List Rat) (a : Rat) : l.foldl (· + ·) a = a + l.foldl (· + ·) 0 := by
  induction l generalizing a with
  | nil => simp
  | cons x l ih =>
    simp only [List.foldl_cons]
    rw [ih (a + x), ih (0 + x)]
    ring

theorem normSq_cons (x : Rat) (l : List Rat) : normSq (x :: l) = x * x + normSq l := by
  simp only [normSq, List.map_cons, List.foldl_cons]
  rw [foldl_add_shift]
  ring

theorem normSq_nonneg (l : List Rat) : 0 ≤ normSq l := by
  induction l with
  | nil => simp [normSq]
  | cons x l ih => rw [normSq_cons]; nlinarith [mul_self_nonneg x]

/-- the largest squared component (0 for the empty vector) -/
def maxSq : List Rat → Rat
  | [] => 0
  | x :: l => max (x * x) (maxSq l)

theorem maxSq_nonneg (l : List Rat) : 0 ≤ maxSq l := by
  cases l with
  | nil => simp [maxSq]
  | cons x l => exact le_trans (mul_self_nonneg x) (le_max_left _ _)

/-- component-wise: ‖y2 − y1‖² ≤ ‖(y2 − y1)/y1‖² · max_i y1_i² when no component of y1 is 0 -/
theorem normSq_vsub_le : ∀ (y2 y1 : List Rat), (∀ a ∈ y1, a ≠ 0) →
    normSq (vsub y2 y1) ≤ normSq (vdiv (vsub y2 y1) y1) * maxSq y1
  | [], _, _ => by simp [vsub, vdiv, normSq]
  | _ :: _, [], _ => by simp [vsub, vdiv, normSq]
  | b :: y2, a :: y1, h => by
    have ha : a ≠ 0 := h a (by simp)
    have ih := normSq_vsub_le y2 y1 (fun x hx => h x (by simp [hx]))
    simp only [vsub, vdiv, List.zipWith_cons_cons] at ih ⊢
    rw [normSq_cons, normSq_cons]
    simp only [maxSq]
    have h1 : (b - a) * (b - a) = ((b - a) / a) * ((b - a) / a) * (a * a) := by
      field_simp
    have hq : 0 ≤ ((b - a) / a) * ((b - a) / a) := mul_self_nonneg _
    have hn := normSq_nonneg (List.zipWith (· / ·) (List.zipWith (· - ·) y2 y1) y1)
    have hm1 : a * a ≤ max (a * a) (maxSq y1) := le_max_left _ _
    have hm2 : maxSq y1 ≤ max (a * a) (maxSq y1) := le_max_right _ _
    have hmn := maxSq_nonneg y1
    nlinarith [mul_le_mul_of_nonneg_left hm1 hq, mul_le_mul_of_nonneg_left hm2 hn]

/-- what the driver's relative criterion gives in absolute terms: `‖(y2−y1)/y1‖ < tol` ⇒ `‖y2−y1‖² ≤ tol²·max_i y1_i²` -/
theorem smallRel_weighted (tol : Rat) (y2 y1 : List Rat) (h : smallRel tol y2 y1 = true) :
    normSq (vsub y2 y1) ≤ tol * tol * maxSq y1 := by
  unfold smallRel at h
  by_cases hz : y1.any (· == 0) = true
  · simp [hz] at h
  · simp only [hz, if_false, Bool.and_eq_true, decide_eq_true_eq, Bool.false_eq_true] at h
    have hne : ∀ a ∈ y1, a ≠ 0 := by
      intro a ha h0
      apply hz
      rw [List.any_eq_true]
      exact ⟨a, ha, by simp [h0]⟩
    have h1 := normSq_vsub_le y2 y1 hne
    have h2 := maxSq_nonneg y1
    nlinarith [h.2]

/-- small step + contraction ⇒ close, with a state-dependent threshold `tol · w y` (the relative criterion's form) -/
theorem close_of_small_step_weighted {E : Type} [PseudoMetricSpace E] (f : E → E) (xs y : E) (c thr : ℝ)
    (hc0 : 0 ≤ c) (hc1 : c < 1) (hcontr : ∀ z, dist (f z) xs ≤ c * dist z xs)
    (hstep : dist (f y) y < thr) : dist (f y) xs ≤ c / (1 - c) * thr :=
  close_of_small_step f xs y c thr hc0 hc1 hcontr hstep

end Mxl.C15
