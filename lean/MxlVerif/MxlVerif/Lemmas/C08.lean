/- helper lemmas for Props/C08.lean -/
import MxlVerif.Model.C08Doc
namespace Mxl.C08
open Gen

theorem except_bind_ok {ε α β : Type} {x : Except ε α} {f : α → Except ε β} {b : β}
    (h : (x >>= f) = .ok b) : ∃ a, x = .ok a ∧ f a = .ok b := by
  cases x with
  | error e => simp [bind, Except.bind] at h
  | ok a => exact ⟨a, rfl, by simpa [bind, Except.bind] using h⟩

def isErr {ε α : Type} : Except ε α → Bool
  | .error _ => true
  | .ok _ => false

theorem exists_err {ε α : Type} {x : Except ε α} (h : isErr x = true) : ∃ err, x = .error err := by
  cases x with
  | error e => exact ⟨e, rfl⟩
  | ok a => simp [isErr] at h

theorem option_bind_some {α β : Type} {x : Option α} {f : α → Option β} {b : β}
    (h : (x >>= f) = some b) : ∃ a, x = some a ∧ f a = some b := by
  cases x with
  | none => simp at h
  | some a => exact ⟨a, rfl, by simpa using h⟩

def isLazy (t : MType) : Bool := t == .fnPiecewise || t == .logicalAnd || t == .logicalOr

theorem evalMath_strict (I : Interp) (env : VEnv) (t : MType) (cs : List MathML) (h : isLazy t = false) :
    evalMath I env (.apply t cs) = (evalMathList I env cs >>= applyStrict I t) := by
  cases t <;> simp [isLazy] at h <;> simp [evalMath]

/-! ### the operator tables, as functions (fails to check when the generated table changes) -/

theorem evalMath_and (I : Interp) (env : VEnv) (cs : List MathML) :
    evalMath I env (.apply .logicalAnd cs) = evalAnd I env cs := by simp [evalMath]

theorem evalMath_piecewise (I : Interp) (env : VEnv) (cs : List MathML) :
    evalMath I env (.apply .fnPiecewise cs) = evalPieces I env cs := by simp [evalMath]

theorem evalAnd_cons (I : Interp) (env : VEnv) (c : MathML) (rest : List MathML) :
    evalAnd I env (c :: rest) =
      (evalMath I env c >>= fun b => if b.truthy then evalAnd I env rest else some (.bool false)) := by
  simp [evalAnd]

theorem evalPieces_three (I : Interp) (env : VEnv) (x c y : MathML) :
    evalPieces I env [x, c, y] =
      (evalMath I env c >>= fun b => if b.truthy then evalMath I env x else evalMath I env y) := by
  simp [evalPieces]

theorem unaryOpTable_lookup (op : UOp) :
    unaryOpTable.lookup op = (match op with
      | .usub => some .minus
      | .not => some .logicalNot
      | _ => none) := by
  cases op <;> rfl

theorem binOpTable_lookup (op : BOp) :
    binOpTable.lookup op = (match op with
      | .add => some .plus
      | .sub => some .minus
      | .mult => some .times
      | .div => some .divide
      | .pow => some .power
      | .floordiv => some .fnQuotient
      | _ => none) := by
  cases op <;> rfl

theorem cmpOpTable_lookup (op : COp) :
    cmpOpTable.lookup op = (match op with
      | .eq => some .relEq
      | .ne => some .relNeq
      | .lt => some .relLt
      | .le => some .relLeq
      | .gt => some .relGt
      | .ge => some .relGeq
      | _ => none) := by
  cases op <;> rfl

theorem unaryOp_sound (I : Interp) {op : UOp} {w : String} {t : MType} {v1 v : Val}
    (h : lookupE unaryOpTable op w = .ok t) (hv : pyUnary op v1 = some v) :
    isLazy t = false ∧ applyStrict I t [v1] = some v := by
  cases op <;> simp [lookupE, unaryOpTable_lookup] at h <;> subst h <;>
    simp [pyUnary] at hv <;> subst hv <;> simp [isLazy, applyStrict]

theorem binOp_sound (I : Interp) {op : BOp} {w : String} {t : MType} {a b : Val} {q : Rat}
    (h : lookupE binOpTable op w = .ok t) (hv : pyBin I op a.toNum b.toNum = some q) :
    isLazy t = false ∧ applyStrict I t [a, b] = some (.num q) := by
  cases op <;> simp [lookupE, binOpTable_lookup] at h <;> subst h <;>
    simp [pyBin] at hv <;> simp [isLazy, applyStrict, relOp, mathFn, mathSem, Sem.eval, hv] <;> (try grind)

theorem cmpOp_sound (I : Interp) {op : COp} {w : String} {t : MType} {a b : Val} {r : Bool}
    (h : lookupE cmpOpTable op w = .ok t) (hv : pyCmp op a.toNum b.toNum = some r) :
    isLazy t = false ∧ applyStrict I t [a, b] = some (.bool r) := by
  cases op <;> simp [lookupE, cmpOpTable_lookup] at h <;> subst h <;>
    simp [pyCmp] at hv <;> subst hv <;> simp [isLazy, applyStrict, relOp, relChain]

/-! ### the function tables -/

theorem mem_of_lookup {α β : Type} [BEq α] [LawfulBEq α] {l : List (α × β)} {k : α} {v : β}
    (h : l.lookup k = some v) : (k, v) ∈ l := by
  induction l with
  | nil => simp [List.lookup] at h
  | cons kv rest ih =>
    obtain ⟨k', v'⟩ := kv
    simp only [List.lookup] at h
    split at h
    · rename_i heq
      have : k = k' := by simpa using heq
      simp at h
      subst this; subst h
      exact List.mem_cons_self
    · exact List.mem_cons_of_mem _ (ih h)

theorem unary_entry_sound (I : Interp) {fn : String} {t : MType} {v1 : Val} {q : Rat}
    (hm : (fn, t) ∈ unaryTable) (hv : (pySem fn).bind (·.eval I [v1.toNum]) = some q) :
    isLazy t = false ∧
      applyStrict I t (if logWithBase && t == .fnLog then [.num 10, v1] else [v1]) = some (.num q) := by
  simp only [unaryTable, List.mem_cons, List.mem_nil_iff, Prod.mk.injEq, or_false] at hm
  rcases hm with ⟨rfl, rfl⟩ | ⟨rfl, rfl⟩ | ⟨rfl, rfl⟩ | ⟨rfl, rfl⟩ | ⟨rfl, rfl⟩ | ⟨rfl, rfl⟩ | ⟨rfl, rfl⟩ |
    ⟨rfl, rfl⟩ | ⟨rfl, rfl⟩ | ⟨rfl, rfl⟩ | ⟨rfl, rfl⟩ | ⟨rfl, rfl⟩ | ⟨rfl, rfl⟩ | ⟨rfl, rfl⟩ | ⟨rfl, rfl⟩ |
    ⟨rfl, rfl⟩ | ⟨rfl, rfl⟩ <;>
    simp +decide [pySem, Sem.eval] at hv <;>
    simp +decide [isLazy, applyStrict, relOp, mathFn, mathSem, Sem.eval, logWithBase, hv]

theorem binary_entry_sound (I : Interp) {fn : String} {t : MType} {a b : Val} {q : Rat}
    (hm : (fn, t) ∈ binaryTable) (hv : (pySem fn).bind (·.eval I [a.toNum, b.toNum]) = some q) :
    isLazy t = false ∧ applyStrict I t [a, b] = some (.num q) := by
  simp only [binaryTable, List.mem_cons, List.mem_nil_iff, Prod.mk.injEq, or_false] at hm
  rcases hm with ⟨rfl, rfl⟩ | ⟨rfl, rfl⟩ <;>
    simp +decide [pySem, Sem.eval] at hv <;>
    simp +decide [isLazy, applyStrict, relOp, mathFn, mathSem, Sem.eval, hv]

theorem nary_entry_sound (I : Interp) {fn : String} {t : MType} {vs : List Val} {q : Rat}
    (hm : (fn, t) ∈ naryTable) (hv : (pySem fn).bind (·.eval I (vs.map Val.toNum)) = some q) :
    isLazy t = false ∧ applyStrict I t vs = some (.num q) := by
  simp only [naryTable, List.mem_cons, List.mem_nil_iff, Prod.mk.injEq, or_false] at hm
  rcases hm with ⟨rfl, rfl⟩ | ⟨rfl, rfl⟩ <;>
    simp +decide [pySem] at hv <;>
    simp +decide [isLazy, applyStrict, relOp, mathFn, mathSem, hv]

theorem libParents_sub {p : String} (h : libParents.contains p = true) : p ∈ pyLibs := by
  simp [libParents] at h
  simp [pyLibs, h]

theorem libParents_sub' {p : String} (h : p ∈ libParents) : p ∈ pyLibs := by
  simp [libParents] at h
  simp [pyLibs, h]

/-- what an accepted call looks like (uses `unknownCallRaises = true`, `arityChecked = true`) -/
theorem callKind_ok {name : Option String} {n : Nat} {t : MType} {k : Option Nat} {u : Bool}
    (h : callKind name n = .ok (t, k, u)) :
    k = none ∧ ∃ fn, name = some fn ∧
      ((u = true ∧ n = 1 ∧ (fn, t) ∈ unaryTable) ∨ (u = false ∧ n = 2 ∧ (fn, t) ∈ binaryTable) ∨
       (u = false ∧ (fn, t) ∈ naryTable)) := by
  cases name with
  | none => simp [callKind, unknownCallRaises] at h
  | some fn =>
    simp only [callKind, unknownCallRaises, arityChecked, if_true, ↓reduceIte] at h
    cases hu : unaryTable.lookup fn with
    | some t' =>
      simp only [hu] at h
      by_cases hn : n = 1
      · simp [hn] at h
        obtain ⟨rfl, rfl, rfl⟩ := h
        exact ⟨rfl, fn, rfl, .inl ⟨rfl, hn, mem_of_lookup hu⟩⟩
      · simp [hn] at h
    | none =>
      simp only [hu] at h
      cases hb : binaryTable.lookup fn with
      | some t' =>
        simp only [hb] at h
        by_cases hn : n = 2
        · simp [hn] at h
          obtain ⟨rfl, rfl, rfl⟩ := h
          exact ⟨rfl, fn, rfl, .inr (.inl ⟨rfl, hn, mem_of_lookup hb⟩)⟩
        · simp [hn] at h
      | none =>
        simp only [hb] at h
        cases hx : naryTable.lookup fn with
        | some t' =>
          simp [hx] at h
          obtain ⟨rfl, rfl, rfl⟩ := h
          exact ⟨rfl, fn, rfl, .inr (.inr ⟨rfl, mem_of_lookup hx⟩)⟩
        | none => simp [hx] at h

theorem convertList_length {es : List PyExpr} {ms : List MathML} (h : convertList es = .ok ms) :
    ms.length = es.length := by
  induction es generalizing ms with
  | nil => simp [convertList] at h; subst h; rfl
  | cons e es ih =>
    simp only [convertList] at h
    obtain ⟨m1, _, h⟩ := except_bind_ok h
    obtain ⟨ms1, hms1, h⟩ := except_bind_ok h
    simp only [pure, Except.pure, Except.ok.injEq] at h
    subst h
    simp [ih hms1]

theorem evalPyList_length {I : Interp} {env : VEnv} {es : List PyExpr} {vs : List Val}
    (h : evalPyList I env es = some vs) : vs.length = es.length := by
  induction es generalizing vs with
  | nil => simp [evalPyList] at h; subst h; rfl
  | cons e es ih =>
    simp only [evalPyList] at h
    obtain ⟨v1, _, h⟩ := option_bind_some h
    obtain ⟨vs1, hvs1, h⟩ := option_bind_some h
    simp only [Option.some.injEq] at h
    subst h
    simp [ih hvs1]

/-- an accepted call names a function the Python semantics knows, with the right number of arguments -/
theorem callKind_known {fn : String} {n : Nat} {r : MType × Option Nat × Bool}
    (h : callKind (some fn) n = .ok r) : knownCall fn n = true := by
  obtain ⟨t, k, u⟩ := r
  obtain ⟨_, fn', hfn, hc⟩ := callKind_ok h
  simp only [Option.some.injEq] at hfn
  subst hfn
  rcases hc with ⟨_, hn, hm⟩ | ⟨_, hn, hm⟩ | ⟨_, hm⟩
  · subst hn
    simp only [unaryTable, List.mem_cons, List.mem_nil_iff, Prod.mk.injEq, or_false] at hm
    rcases hm with ⟨rfl, rfl⟩ | ⟨rfl, rfl⟩ | ⟨rfl, rfl⟩ | ⟨rfl, rfl⟩ | ⟨rfl, rfl⟩ | ⟨rfl, rfl⟩ | ⟨rfl, rfl⟩ |
      ⟨rfl, rfl⟩ | ⟨rfl, rfl⟩ | ⟨rfl, rfl⟩ | ⟨rfl, rfl⟩ | ⟨rfl, rfl⟩ | ⟨rfl, rfl⟩ | ⟨rfl, rfl⟩ | ⟨rfl, rfl⟩ |
      ⟨rfl, rfl⟩ | ⟨rfl, rfl⟩ <;> simp +decide [knownCall, pySem, Sem.arity]
  · subst hn
    simp only [binaryTable, List.mem_cons, List.mem_nil_iff, Prod.mk.injEq, or_false] at hm
    rcases hm with ⟨rfl, rfl⟩ | ⟨rfl, rfl⟩ <;> simp +decide [knownCall, pySem, Sem.arity]
  · simp only [naryTable, List.mem_cons, List.mem_nil_iff, Prod.mk.injEq, or_false] at hm
    rcases hm with ⟨rfl, rfl⟩ | ⟨rfl, rfl⟩ <;> simp +decide [knownCall, pySem, Sem.arity]

theorem callKind_none_error (n : Nat) : ∃ err, callKind none n = .error err := by
  simp [callKind, unknownCallRaises]

end Mxl.C08
