/- helper lemmas for Props/C08.lean -/
import MxlVerif.Model.C08Doc
namespace Mxl.C08
open Gen

theorem except_bind_ok {ε α β : Type} {x : Except ε α} {f : α → Except ε β} {b : β}
    (h : (x >>= f) = .ok b) : ∃ a, x = .ok a ∧ f a = .ok b := by
  cases x with
  | error e => simp [bind, Except.bind] at h
  | ok a => exact ⟨a, rfl, by simpa [bind, Except.bind] using h⟩

def isErr {ε α : Type} : Except ε α → Bool
  | .error _ => true
  | .ok _ => false

theorem exists_err {ε α : Type} {x : Except ε α} (h : isErr x = true) : ∃ err, x = .error err := by
  cases x with
  | error e => exact ⟨e, rfl⟩
  | ok a => simp [isErr] at h

theorem option_bind_some {α β : Type} {x : Option α} {f : α → Option β} {b : β}
    (h : (x >>= f) = some b) : ∃ a, x = some a ∧ f a = some b := by
  cases x with
  | none => simp at h
  | some a => exact ⟨a, rfl, by simpa using h⟩

def isLazy (t : MType) : Bool := t == .fnPiecewise || t == .logicalAnd || t == .logicalOr

theorem evalMath_strict (I : Interp) (env : VEnv) (t : MType) (cs : List MathML) (h : isLazy t = false) :
    evalMath I env (.apply t cs) = (evalMathList I env cs >>= applyStrict I t) := by
  cases t <;> simp [isLazy] at h <;> simp [evalMath]

/-! ### the operator tables, as functions (fails to check when the generated table changes) -/

theorem evalMath_and (I : Interp) (env : VEnv) (cs : List MathML) :
    evalMath I env (.apply .logicalAnd cs) = evalAnd I env cs := by simp [evalMath]

theorem evalMath_piecewise (I : Interp) (env : VEnv) (cs : List MathML) :
    evalMath I env (.apply .fnPiecewise cs) = evalPieces I env cs := by simp [evalMath]

theorem evalAnd_cons (I : Interp) (env : VEnv) (c : MathML) (rest : List MathML) :
    evalAnd I env (c :: rest) =
      (evalMath I env c >>= fun b => if b.truthy then evalAnd I env rest else some (.bool false)) := by
  simp [evalAnd]

theorem evalPieces_three (I : Interp) (env : VEnv) (x c y : MathML) :
    evalPieces I env [x, c, y] =
      (evalMath I env c >>= fun b => if b.truthy then evalMath I env x else evalMath I env y) := by
  simp [evalPieces]

theorem unaryOpTable_lookup (op : UOp) :
    unaryOpTable.lookup op = (match op with
      | .usub => some .minus
      | .not => some .logicalNot
      | _ => none) := by
  cases op <;> rfl

theorem binOpTable_lookup (op : BOp) :
    binOpTable.lookup op = (match op with
      | .add => some .plus
      | .sub => some .minus
      | .mult => some .times
      | .div => some .divide
      | .pow => some .power
      | .floordiv => some .fnQuotient
      | _ => none) := by
  cases op <;> rfl

theorem cmpOpTable_lookup (op : COp) :
    cmpOpTable.lookup op = (match op with
      | .eq => some .relEq
      | .ne => some .relNeq
      | .lt => some .relLt
      | .le => some .relLeq
      | .gt => some .relGt
      | .ge => some .relGeq
      | _ => none) := by
  cases op <;> rfl

theorem unaryOp_sound (I : Interp) {op : UOp} {w : String} {t : MType} {v1 v : Val}
    (h : lookupE unaryOpTable op w = .ok t) (hv : pyUnary op v1 = some v) :
    isLazy t = false ∧ applyStrict I t [v1] = some v := by
  cases op <;> simp [lookupE, unaryOpTable_lookup] at h <;> subst h <;>
    simp [pyUnary] at hv <;> subst hv <;> simp [isLazy, applyStrict]

theorem binOp_sound (I : Interp) {op : BOp} {w : String} {t : MType} {a b : Val} {q : Rat}
    (h : lookupE binOpTable op w = .ok t) (hv : pyBin I op a.toNum b.toNum = some q) :
    isLazy t = false ∧ applyStrict I t [a, b] = some (.num q) := by
  cases op <;> simp [lookupE, binOpTable_lookup] at h <;> subst h <;>
    simp [pyBin] at hv <;> simp [isLazy, applyStrict, relOp, mathFn, mathSem, Sem.eval, hv] <;> (try grind)

theorem cmpOp_sound (I : Interp) {op : COp} {w : String} {t : MType} {a b : Val} {r : Bool}
    (h : lookupE cmpOpTable op w = .ok t) (hv : pyCmp op a.toNum b.toNum = some r) :
    isLazy t = false ∧ applyStrict I t [a, b] = some (.bool r) := by
  cases op <;> simp [lookupE, cmpOpTable_lookup] at h <;> subst h <;>
    simp [pyCmp] at hv <;> subst hv <;> simp [isLazy, applyStrict, relOp, relChain]

/-! ### the function tables -/

theorem mem_of_lookup {α β : Type} [BEq α] [LawfulBEq α] {l : List (α × β)} {k : α} {v : β}
    (h : l.lookup k = some v) : (k, v) ∈ l := by
  induction l with
  | nil => simp [List.lookup] at h
  | cons kv rest ih =>
    obtain ⟨k', v'⟩ := kv
    simp only [List.lookup] at h
    split at h
    · rename_i heq
      have : k = k' := by simpa using heq
      simp at h
      subst this; subst h
      exact List.mem_cons_self
    · exact List.mem_cons_of_mem _ (ih h)

theorem unary_entry_sound (I : Interp) {fn : String} {t : MType} {v1 : Val} {q : Rat}
    (hm : (fn, t) ∈ unaryTable) (hv : (pySem fn).bind (·.eval I [v1.toNum]) = some q) :
    isLazy t = false ∧
      applyStrict I t (if logWithBase && t == .fnLog then [.num 10, v1] else [v1]) = some (.num q) := by
  simp only [unaryTable, List.mem_cons, List.mem_nil_iff, Prod.mk.injEq, or_false] at hm
  rcases hm with ⟨rfl, rfl⟩ | ⟨rfl, rfl⟩ | ⟨rfl, rfl⟩ | ⟨rfl, rfl⟩ | ⟨rfl, rfl⟩ | ⟨rfl, rfl⟩ | ⟨rfl, rfl⟩ |
    ⟨rfl, rfl⟩ | ⟨rfl, rfl⟩ | ⟨rfl, rfl⟩ | ⟨rfl, rfl⟩ | ⟨rfl, rfl⟩ | ⟨rfl, rfl⟩ | ⟨rfl, rfl⟩ | ⟨rfl, rfl⟩ |
    ⟨rfl, rfl⟩ | ⟨rfl, rfl⟩ <;>
    simp +decide [pySem, Sem.eval] at hv <;>
    simp +decide [isLazy, applyStrict, relOp, mathFn, mathSem, Sem.eval, logWithBase, hv]

theorem binary_entry_sound (I : Interp) {fn : String} {t : MType} {a b : Val} {q : Rat}
    (hm : (fn, t) ∈ binaryTable) (hv : (pySem fn).bind (·.eval I [a.toNum, b.toNum]) = some q) :
    isLazy t = false ∧ applyStrict I t [a, b] = some (.num q) := by
  simp only [binaryTable, List.mem_cons, List.mem_nil_iff, Prod.mk.injEq, or_false] at hm
  rcases hm with ⟨rfl, rfl⟩ | ⟨rfl, rfl⟩ <;>
    simp +decide [pySem, Sem.eval] at hv <;>
    simp +decide [isLazy, applyStrict, relOp, mathFn, mathSem, Sem.eval, hv]

theorem nary_entry_sound (I : Interp) {fn : String} {t : MType} {vs : List Val} {q : Rat}
    (hm : (fn, t) ∈ naryTable) (hv : (pySem fn).bind (·.eval I (vs.map Val.toNum)) = some q) :
    isLazy t = false ∧ applyStrict I t vs = some (.num q) := by
  simp only [naryTable, List.mem_cons, List.mem_nil_iff, Prod.mk.injEq, or_false] at hm
  rcases hm with ⟨rfl, rfl⟩ | ⟨rfl, rfl⟩ <;>
    simp +decide [pySem] at hv <;>
    simp +decide [isLazy, applyStrict, relOp, mathFn, mathSem, hv]

theorem libParents_sub {p : String} (h : libParents.contains p = true) : p ∈ pyLibs := by
  simp [libParents] at h
  simp [pyLibs, h]

theorem libParents_sub' {p : String} (h : p ∈ libParents) : p ∈ pyLibs := by
  simp [libParents] at h
  simp [pyLibs, h]

/-- what an accepted call looks like (uses `unknownCallRaises = true`, `arityChecked = true`,
    `binaryNumpyOnly = true`) -/
theorem callKind_ok {name : Option String} {isMath : Bool} {n : Nat} {t : MType} {k : Option Nat} {u : Bool}
    (h : callKind name isMath n = .ok (t, k, u)) :
    k = none ∧ ∃ fn, name = some fn ∧
      ((u = true ∧ n = 1 ∧ (fn, t) ∈ unaryTable) ∨
       (u = false ∧ n = 2 ∧ isMath = false ∧ (fn, t) ∈ binaryTable) ∨
       (u = false ∧ (fn, t) ∈ naryTable)) := by
  cases name with
  | none => simp [callKind, unknownCallRaises] at h
  | some fn =>
    simp only [callKind, unknownCallRaises, arityChecked, binaryNumpyOnly, if_true, ↓reduceIte,
      Bool.true_and] at h
    cases hu : unaryTable.lookup fn with
    | some t' =>
      simp only [hu] at h
      by_cases hn : n = 1
      · simp [hn] at h
        obtain ⟨rfl, rfl, rfl⟩ := h
        exact ⟨rfl, fn, rfl, .inl ⟨rfl, hn, mem_of_lookup hu⟩⟩
      · simp [hn] at h
    | none =>
      simp only [hu] at h
      cases hm : isMath with
      | true =>
        simp only [hm, if_true] at h
        cases hx : naryTable.lookup fn with
        | some t' =>
          simp [hx] at h
          obtain ⟨rfl, rfl, rfl⟩ := h
          exact ⟨rfl, fn, rfl, .inr (.inr ⟨rfl, mem_of_lookup hx⟩)⟩
        | none => simp [hx] at h
      | false =>
        simp only [hm, Bool.false_eq_true, if_false] at h
        cases hb : binaryTable.lookup fn with
        | some t' =>
          simp only [hb] at h
          by_cases hn : n = 2
          · simp [hn] at h
            obtain ⟨rfl, rfl, rfl⟩ := h
            exact ⟨rfl, fn, rfl, .inr (.inl ⟨rfl, hn, rfl, mem_of_lookup hb⟩)⟩
          · simp [hn] at h
        | none =>
          simp only [hb] at h
          cases hx : naryTable.lookup fn with
          | some t' =>
            simp [hx] at h
            obtain ⟨rfl, rfl, rfl⟩ := h
            exact ⟨rfl, fn, rfl, .inr (.inr ⟨rfl, mem_of_lookup hx⟩)⟩
          | none => simp [hx] at h

/-- `remainder` is in the binary table only -/
theorem remainder_not_unary_nary (t : MType) : ("remainder", t) ∉ unaryTable ∧ ("remainder", t) ∉ naryTable := by
  simp [unaryTable, naryTable]

theorem pySemLib_eq {p a : String} (h : ¬ (p = "math" ∧ a = "remainder")) : pySemLib p a = pySem a := by
  simp [pySemLib, h]

theorem convertList_length {es : List PyExpr} {ms : List MathML} (h : convertList es = .ok ms) :
    ms.length = es.length := by
  induction es generalizing ms with
  | nil => simp [convertList] at h; subst h; rfl
  | cons e es ih =>
    simp only [convertList] at h
    obtain ⟨m1, _, h⟩ := except_bind_ok h
    obtain ⟨ms1, hms1, h⟩ := except_bind_ok h
    simp only [pure, Except.pure, Except.ok.injEq] at h
    subst h
    simp [ih hms1]

theorem evalPyList_length {I : Interp} {env : VEnv} {es : List PyExpr} {vs : List Val}
    (h : evalPyList I env es = some vs) : vs.length = es.length := by
  induction es generalizing vs with
  | nil => simp [evalPyList] at h; subst h; rfl
  | cons e es ih =>
    simp only [evalPyList] at h
    obtain ⟨v1, _, h⟩ := option_bind_some h
    obtain ⟨vs1, hvs1, h⟩ := option_bind_some h
    simp only [Option.some.injEq] at h
    subst h
    simp [ih hvs1]

/-- an accepted call names a function the Python semantics knows, with the right number of arguments -/
theorem callKind_known {fn : String} {isMath : Bool} {n : Nat} {r : MType × Option Nat × Bool}
    (h : callKind (some fn) isMath n = .ok r) : knownCall fn n = true := by
  obtain ⟨t, k, u⟩ := r
  obtain ⟨_, fn', hfn, hc⟩ := callKind_ok h
  simp only [Option.some.injEq] at hfn
  subst hfn
  rcases hc with ⟨_, hn, hm⟩ | ⟨_, hn, _, hm⟩ | ⟨_, hm⟩
  · subst hn
    simp only [unaryTable, List.mem_cons, List.mem_nil_iff, Prod.mk.injEq, or_false] at hm
    rcases hm with ⟨rfl, rfl⟩ | ⟨rfl, rfl⟩ | ⟨rfl, rfl⟩ | ⟨rfl, rfl⟩ | ⟨rfl, rfl⟩ | ⟨rfl, rfl⟩ | ⟨rfl, rfl⟩ |
      ⟨rfl, rfl⟩ | ⟨rfl, rfl⟩ | ⟨rfl, rfl⟩ | ⟨rfl, rfl⟩ | ⟨rfl, rfl⟩ | ⟨rfl, rfl⟩ | ⟨rfl, rfl⟩ | ⟨rfl, rfl⟩ |
      ⟨rfl, rfl⟩ | ⟨rfl, rfl⟩ <;> simp +decide [knownCall, pySem, Sem.arity]
  · subst hn
    simp only [binaryTable, List.mem_cons, List.mem_nil_iff, Prod.mk.injEq, or_false] at hm
    rcases hm with ⟨rfl, rfl⟩ | ⟨rfl, rfl⟩ <;> simp +decide [knownCall, pySem, Sem.arity]
  · simp only [naryTable, List.mem_cons, List.mem_nil_iff, Prod.mk.injEq, or_false] at hm
    rcases hm with ⟨rfl, rfl⟩ | ⟨rfl, rfl⟩ <;> simp +decide [knownCall, pySem, Sem.arity]

theorem callKind_none_error (b : Bool) (n : Nat) : ∃ err, callKind none b n = .error err := by
  simp [callKind, unknownCallRaises]

/-! ### argument renaming -/

def calleeOk (ps : List String) : Callee → Bool
  | .direct f => !ps.contains f
  | .lib p _ => !ps.contains p
  | _ => true

mutual
/-- no parameter of the function is used as a function or module name inside the expression -/
def calleeFree (ps : List String) : PyExpr → Bool
  | .unary _ e => calleeFree ps e
  | .binop _ l r => calleeFree ps l && calleeFree ps r
  | .compare l _ r rest => calleeFree ps l && calleeFree ps r && calleeFreeLinks ps rest
  | .ifexp t b o => calleeFree ps t && calleeFree ps b && calleeFree ps o
  | .call f args => calleeOk ps f && calleeFreeList ps args
  | .attr p _ => !ps.contains p
  | .boolop _ vals => calleeFreeList ps vals
  | _ => true
def calleeFreeList (ps : List String) : List PyExpr → Bool
  | [] => true
  | e :: es => calleeFree ps e && calleeFreeList ps es
def calleeFreeLinks (ps : List String) : List (COp × PyExpr) → Bool
  | [] => true
  | (_, e) :: rest => calleeFree ps e && calleeFreeLinks ps rest
end

/-- … in any statement of a function body -/
def calleeFreeBody (ps : List String) (body : List PyStmt) : Bool :=
  body.all fun
    | .ret (some e) => calleeFree ps e
    | _ => true

theorem zipStrict_eq {ps as : List String} {σ : List (String × String)} (h : zipStrict ps as = .ok σ) :
    σ = ps.zip as := by
  induction ps generalizing as σ with
  | nil => cases as <;> simp [zipStrict] at h; subst h; rfl
  | cons p ps ih =>
    cases as with
    | nil => simp [zipStrict] at h
    | cons a as =>
      simp only [zipStrict] at h
      obtain ⟨rest, hr, h⟩ := except_bind_ok h
      simp only [pure, Except.pure, Except.ok.injEq] at h
      subst h
      simp [ih hr]

theorem lookup_zip_none {ps as : List String} {f : String} (h : ps.contains f = false) :
    (ps.zip as).lookup f = none := by
  induction ps generalizing as with
  | nil => simp
  | cons p ps ih =>
    cases as with
    | nil => simp
    | cons a as =>
      simp only [List.contains_cons, Bool.or_eq_false_iff] at h
      simp only [List.zip_cons_cons, List.lookup]
      have : (f == p) = false := h.1
      simp [this, ih h.2]

theorem renameId_free {ps as : List String} {f : String} (h : ps.contains f = false) :
    renameId (ps.zip as) f = f := by
  simp [renameId, lookup_zip_none h]

/-- evaluating the body with the parameters bound to the values of the model names is evaluating the
    renamed body in the model's environment -/
theorem rename_sound (I : Interp) (env : VEnv) (ps as : List String) :
    ∀ e v, calleeFree ps e = true → evalPy I (bindArgs env ps as) e = some v →
      evalPy I env (renameExpr (ps.zip as) e) = some v := by
  refine (renameExpr.mutual_induct
    (motive_1 := fun e => ∀ v, calleeFree ps e = true → evalPy I (bindArgs env ps as) e = some v →
      evalPy I env (renameExpr (ps.zip as) e) = some v)
    (motive_2 := fun es => calleeFreeList ps es = true →
      (∀ vs, evalPyList I (bindArgs env ps as) es = some vs →
        evalPyList I env (renameList (ps.zip as) es) = some vs) ∧
      (∀ b v, evalPyBool I (bindArgs env ps as) b es = some v →
        evalPyBool I env b (renameList (ps.zip as) es) = some v))
    (motive_3 := fun rest => ∀ pv v, calleeFreeLinks ps rest = true →
      evalPyLinks I (bindArgs env ps as) pv rest = some v →
      evalPyLinks I env pv (renameLinks (ps.zip as) rest) = some v)
    ?name ?const ?unary ?binop ?compare ?ifexp ?call ?attr ?attrDeep ?boolop ?callKw ?other
    ?lnil ?lcons ?nil ?cons).1
  case name =>
    intro id v _ h
    simp only [evalPy, bindArgs] at h
    simp only [renameExpr, evalPy, renameId]
    cases hl : (ps.zip as).lookup id with
    | none => simp [hl] at h
    | some a => simpa [hl] using h
  case const => intro c v _ h; cases c <;> simpa [renameExpr, evalPy] using h
  case unary =>
    intro op e ih v hf h
    simp only [calleeFree] at hf
    simp only [evalPy] at h
    obtain ⟨v1, h1, h⟩ := option_bind_some h
    simp [renameExpr, evalPy, ih v1 hf h1, h]
  case binop =>
    intro op l r ihl ihr v hf h
    simp only [calleeFree, Bool.and_eq_true] at hf
    simp only [evalPy] at h
    obtain ⟨a, ha, h⟩ := option_bind_some h
    obtain ⟨b, hb, h⟩ := option_bind_some h
    simp [renameExpr, evalPy, ihl a hf.1 ha, ihr b hf.2 hb, h]
  case compare =>
    intro l op r rest ihl ihr ihrest v hf h
    simp only [calleeFree, Bool.and_eq_true] at hf
    simp only [evalPy] at h
    obtain ⟨a, ha, h⟩ := option_bind_some h
    obtain ⟨b, hb, h⟩ := option_bind_some h
    obtain ⟨ok, hok, h⟩ := option_bind_some h
    simp only [renameExpr, evalPy, ihl a hf.1.1 ha, ihr b hf.1.2 hb]
    cases ok with
    | false => simpa [hok] using h
    | true =>
      simp only [if_true] at h
      simp [hok, ihrest b v hf.2 h]
  case ifexp =>
    intro t b o iht ihb iho v hf h
    simp only [calleeFree, Bool.and_eq_true] at hf
    simp only [evalPy] at h
    obtain ⟨c, hc, h⟩ := option_bind_some h
    simp only [renameExpr, evalPy, iht c hf.1.1 hc]
    show (if c.truthy = true then _ else _) = some v
    by_cases htr : c.truthy = true
    · rw [if_pos htr] at h ⊢; exact ihb v hf.1.2 h
    · rw [if_neg htr] at h ⊢; exact iho v hf.2 h
  case call =>
    intro f args ih v hf h
    simp only [calleeFree, Bool.and_eq_true] at hf
    simp only [evalPy] at h
    obtain ⟨vs, hvs, h⟩ := option_bind_some h
    have hc : renameCallee (ps.zip as) f = f := by
      cases f with
      | direct f' =>
        simp only [calleeOk, Bool.not_eq_true'] at hf
        simp [renameCallee, renameId_free hf.1]
      | lib p a =>
        simp only [calleeOk, Bool.not_eq_true'] at hf
        simp [renameCallee, renameId_free hf.1]
      | libDeep => rfl
      | other => rfl
    simp [renameExpr, evalPy, hc, (ih hf.2).1 vs hvs, h]
  case attr =>
    intro p a v hf h
    simp only [calleeFree, Bool.not_eq_true'] at hf
    simpa [renameExpr, evalPy, renameId_free hf] using h
  case attrDeep => intro v _ h; simpa [renameExpr, evalPy] using h
  case boolop =>
    intro b vals ih v hf h
    simp only [calleeFree] at hf
    simp only [evalPy] at h
    simpa [renameExpr, evalPy] using (ih hf).2 b v h
  case callKw => intro v _ h; simpa [renameExpr, evalPy] using h
  case other => intro v _ h; simpa [renameExpr, evalPy] using h
  case lnil => intro pv v _ h; simpa [renameLinks, evalPyLinks] using h
  case lcons =>
    intro op e rest ihe ihrest pv v hf h
    simp only [calleeFreeLinks, Bool.and_eq_true] at hf
    simp only [evalPyLinks] at h
    obtain ⟨b, hb, h⟩ := option_bind_some h
    obtain ⟨ok, hok, h⟩ := option_bind_some h
    simp only [renameLinks, evalPyLinks, ihe b hf.1 hb]
    cases ok with
    | false => simpa [hok] using h
    | true =>
      simp only [if_true] at h
      simp [hok, ihrest b v hf.2 h]
  case nil =>
    intro _
    exact ⟨fun vs h => by simpa [renameList, evalPyList] using h,
           fun b v h => by simp [evalPyBool] at h⟩
  case cons =>
    intro e es ihe ihes hf
    simp only [calleeFreeList, Bool.and_eq_true] at hf
    refine ⟨fun vs h => ?_, fun b v h => ?_⟩
    · simp only [evalPyList] at h
      obtain ⟨v1, h1, h⟩ := option_bind_some h
      obtain ⟨vs1, hvs1, h⟩ := option_bind_some h
      simp [renameList, evalPyList, ihe v1 hf.1 h1, (ihes hf.2).1 vs1 hvs1, h]
    · cases es with
      | nil =>
        simp only [evalPyBool] at h
        simpa [renameList, evalPyBool] using ihe v hf.1 h
      | cons e' es' =>
        simp only [evalPyBool] at h
        obtain ⟨v1, h1, h⟩ := option_bind_some h
        simp only [renameList, evalPyBool, ihe v1 hf.1 h1]
        show (if (v1.truthy == b) = true then _ else _) = some v
        by_cases hb : (v1.truthy == b) = true
        · rw [if_pos hb] at h ⊢
          have := (ihes hf.2).2 b v h
          simpa [renameList] using this
        · rw [if_neg hb] at h ⊢
          exact h

/-! ### identifiers -/

/-- `[A-Za-z][A-Za-z0-9_]*` -/
def isPlainName (s : String) : Bool :=
  match s.toList with
  | [] => false
  | c :: cs => isAsciiAlpha c && cs.all isWordChar

theorem escapeChars_word {cs : List Char} (h : cs.all isWordChar = true) : escapeChars cs = cs := by
  induction cs with
  | nil => rfl
  | cons c cs ih =>
    simp only [List.all_cons, Bool.and_eq_true] at h
    simp [escapeChars, escapeChar, h.1, ih h.2]

theorem escapeId_plain {s : String} (pre : String) (h : isPlainName s = true) : escapeId s pre = .ok s := by
  unfold isPlainName at h
  unfold escapeId
  cases hs : s.toList with
  | nil => simp [hs] at h
  | cons c cs =>
    simp only [hs, Bool.and_eq_true] at h
    have hw : (c :: cs).all isWordChar = true := by
      simp only [List.all_cons, Bool.and_eq_true]
      exact ⟨by simp [isWordChar, h.1], h.2⟩
    rw [escapeChars_word hw]
    simp only [h.1, if_true]
    rw [← hs, String.ofList_toList]

theorem isPlainName_append_ref {x : String} (h : isPlainName x = true) : isPlainName (x ++ "ref") = true := by
  unfold isPlainName at h ⊢
  rw [String.toList_append]
  cases hs : x.toList with
  | nil => simp [hs] at h
  | cons c cs =>
    simp only [hs, Bool.and_eq_true] at h
    simp only [List.cons_append, Bool.and_eq_true, List.all_append]
    exact ⟨h.1, h.2, by decide⟩

/-! ### species references -/

theorem filter_fresh {l : List SRef} {sx : String} (h : ∀ s ∈ l, s.species ≠ sx) :
    l.filter (·.species == sx) = [] := by
  induction l with
  | nil => rfl
  | cons s l ih =>
    have h1 : s.species ≠ sx := h s List.mem_cons_self
    have h2 : ∀ t ∈ l, t.species ≠ sx := fun t ht => h t (List.mem_cons_of_mem _ ht)
    have h3 : (s.species == sx) = false := by simpa using h1
    simp [List.filter, h3, ih h2]

theorem sideSum_fresh (env : VEnv) (d : SDoc) {l : List SRef} {sx : String}
    (h : ∀ s ∈ l, s.species ≠ sx) : sideSum env d sx l = some 0 := by
  simp [sideSum, filter_fresh h, sumOpt]

theorem sideSum_fresh_add (env : VEnv) (d : SDoc) {l : List SRef} {sx : String} (s : SRef)
    (h : ∀ s ∈ l, s.species ≠ sx) (hs : s.species = sx) :
    sideSum env d sx (l ++ [s]) = (refCoef env d s).map (· + 0) := by
  simp only [sideSum, List.filter_append, filter_fresh h, List.nil_append]
  simp only [List.filter, hs, beq_self_eq_true, List.map, sumOpt]
  cases refCoef env d s <;> simp

theorem lookupLast_append_self {β : Type} (l : List (String × β)) (k : String) (v : β) :
    lookupLast (l ++ [(k, v)]) k = some v := by
  simp [lookupLast, List.lookup]

/-! ### pysbml's identifier mapping on plain names -/

/-- no two consecutive underscores -/
def noDU : List Char → Bool
  | '_' :: '_' :: _ => false
  | _ :: rest => noDU rest
  | [] => true

theorem wordChar_ne (c d : Char) (h : isWordChar c = true) (hd : isWordChar d = false) : c ≠ d := by
  intro e; subst e; simp [h] at hd

theorem replaceChar_word (c : Char) (h : isWordChar c = true) : replaceChar c = [c] := by
  have n1 := wordChar_ne c ' ' h (by decide)
  have n2 := wordChar_ne c '-' h (by decide)
  have n3 := wordChar_ne c '(' h (by decide)
  have n4 := wordChar_ne c ')' h (by decide)
  have n5 := wordChar_ne c '[' h (by decide)
  have n6 := wordChar_ne c ']' h (by decide)
  have n7 := wordChar_ne c '.' h (by decide)
  have n8 := wordChar_ne c ',' h (by decide)
  have n9 := wordChar_ne c ':' h (by decide)
  have n10 := wordChar_ne c ';' h (by decide)
  have n11 := wordChar_ne c '"' h (by decide)
  have n12 := wordChar_ne c '\'' h (by decide)
  have n13 := wordChar_ne c '^' h (by decide)
  have n14 := wordChar_ne c '|' h (by decide)
  have n15 := wordChar_ne c '=' h (by decide)
  have n16 := wordChar_ne c '>' h (by decide)
  have n17 := wordChar_ne c '<' h (by decide)
  have n18 := wordChar_ne c '+' h (by decide)
  have n19 := wordChar_ne c '*' h (by decide)
  have n20 := wordChar_ne c '/' h (by decide)
  simp [replaceChar, *]

theorem isAlpha_of_ascii (c : Char) (h : isAsciiAlpha c = true) : c.isAlpha = true := by
  simp [isAsciiAlpha, Char.isAlpha, Char.isUpper, Char.isLower] at *
  rcases h with ⟨h1, h2⟩ | ⟨h1, h2⟩
  · right; exact ⟨h1, h2⟩
  · left; exact ⟨h1, h2⟩

theorem matchEscape_none (c : Char) (cs : List Char) (h : noDU (c :: cs) = true) : matchEscape (c :: cs) = none := by
  unfold matchEscape
  split
  · rename_i rest heq
    simp only [List.cons.injEq] at heq
    obtain ⟨rfl, rfl⟩ := heq
    simp [noDU] at h
  · rfl

theorem noDU_tail (c : Char) (cs : List Char) (h : noDU (c :: cs) = true) : noDU cs = true := by
  unfold noDU at h
  split at h
  · simp at h
  · rename_i heq; simp only [List.cons.injEq] at heq; obtain ⟨_, rfl⟩ := heq; exact h
  · simp at *

theorem unescape_noDU (cs : List Char) (h : noDU cs = true) : ∀ fuel, unescapeChars fuel cs = cs := by
  induction cs with
  | nil => intro fuel; cases fuel <;> rfl
  | cons c cs ih =>
    intro fuel
    cases fuel with
    | zero => rfl
    | succ fuel =>
      simp only [unescapeChars, matchEscape_none c cs h]
      rw [ih (noDU_tail c cs h)]

theorem dropSubstr_noDU (cs : List Char) (h : noDU cs = true) :
    ∀ fuel, dropSubstr sbmlDot fuel cs = cs := by
  induction cs with
  | nil => intro fuel; cases fuel <;> rfl
  | cons c cs ih =>
    intro fuel
    cases fuel with
    | zero => rfl
    | succ fuel =>
      have hp : sbmlDot.isPrefixOf (c :: cs) = false := by
        cases cs with
        | nil => by_cases h1 : c = '_' <;> simp [sbmlDot, List.isPrefixOf, h1]
        | cons c2 cs2 =>
          by_cases h1 : c = '_'
          · by_cases h2 : c2 = '_'
            · subst h1; subst h2; simp [noDU] at h
            · simp only [sbmlDot, List.isPrefixOf, Bool.and_eq_false_imp, beq_iff_eq]
              intro _ e2; exact absurd e2.symm h2
          · simp only [sbmlDot, List.isPrefixOf, Bool.and_eq_false_imp, beq_iff_eq]
            intro e1; exact absurd e1.symm h1
      simp only [dropSubstr, hp]
      rw [ih (noDU_tail c cs h)]
      simp

theorem flatMap_word (cs : List Char) (h : cs.all isWordChar = true) : cs.flatMap replaceChar = cs := by
  induction cs with
  | nil => rfl
  | cons c cs ih =>
    simp only [List.all_cons, Bool.and_eq_true] at h
    simp [List.flatMap_cons, replaceChar_word c h.1, ih h.2]

def isRoundTripName (s : String) : Bool :=
  isPlainName s && noDU s.toList && !pyKeywords.contains s

theorem nameToPy_plain (s : String) (h : isRoundTripName s = true) : nameToPy s = s := by
  simp only [isRoundTripName, Bool.and_eq_true, Bool.not_eq_true'] at h
  obtain ⟨⟨hp, hd⟩, hk⟩ := h
  unfold isPlainName at hp
  cases hs : s.toList with
  | nil => simp [hs] at hp
  | cons c cs =>
    simp only [hs, Bool.and_eq_true] at hp
    have hw : (c :: cs).all isWordChar = true := by
      simp only [List.all_cons, Bool.and_eq_true]
      exact ⟨by simp [isWordChar, hp.1], hp.2⟩
    rw [hs] at hd
    have hof : String.ofList (c :: cs) = s := by rw [← hs, String.ofList_toList]
    unfold nameToPy
    simp only [hs]
    rw [unescape_noDU (c :: cs) hd]
    simp only [hof, hk, Bool.false_eq_true, if_false]
    rw [dropSubstr_noDU (c :: cs) hd, flatMap_word (c :: cs) hw]
    simp [isAlpha_of_ascii c hp.1, hof]

end Mxl.C08
