/-
Helper lemmas for the model-level statements of C16 (core Lean only): what a successful
`linearBuild` consists of, additivity of `linRhs` over the per-reaction groups, and the
re-indexing of the two models' sums (the linear mapper iterates `label_maps`, the isotopomer
mapper the base model's reactions).
-/
import MxlVerif.Lemmas.C16
namespace Mxl.C16
open Mxl.C05

/-! ### what `linearBuild` returns -/

/-- the initial state `build_model` writes: zeros, then `1/len` on the requested positions -/
def linInitVars (lv : List (Name × Nat)) (initLabels : List (Name × List Nat)) : List (Slot × Rat) :=
  initLabels.foldl (fun vs kp =>
    kp.2.foldl (fun vs pos => setSlot vs (Slot.pos kp.1 pos) (1 / (kp.2.length : Rat))) vs)
    (((isosOf lv).flatMap (·.2)).map fun s => (s, (0 : Rat)))

theorem isos_mapM_ok {lv : List (Name × Nat)} {isos : List (Name × List Slot)}
    (h : (lv.mapM fun kn => do pure (kn.1, ← isotopeLabels kn.1 kn.2)) = .ok isos) :
    (∀ kn ∈ lv, kn.2 > 0) ∧ isos = isosOf lv := by
  have hpos : ∀ kn ∈ lv, kn.2 > 0 := by
    intro kn hk
    by_cases hp : kn.2 > 0
    · exact hp
    · exfalso
      have hfa := mapM_ok_forall₂ _ _ _ h
      have : ∀ (l : List (Name × Nat)) (ys : List (Name × List Slot)),
          Fa2 (fun x y => (do pure (x.1, ← isotopeLabels x.1 x.2) : Except LErr _) = .ok y) l ys →
          kn ∈ l → False := by
        intro l ys hf
        induction hf with
        | nil => simp
        | cons hxy _ ih =>
          intro hm
          rcases List.mem_cons.mp hm with e | e
          · subst e
            simp [isotopeLabels, hp, bind, Except.bind] at hxy
          · exact ih e
      exact this _ _ hfa hk
  refine ⟨hpos, ?_⟩
  rw [isos_mapM lv hpos] at h
  cases h; rfl

/-- a successful `build_model` of the linear mapper: every listed compound has at least one
    position, every `label_maps` entry produced its group of per-position reactions, the model's
    reactions are the groups in `label_maps` order -/
theorem linearBuild_ok {baseRxns : List (Name × List (Name × Int))} {lv : List (Name × Nat)}
    {maps : List (Name × List Nat)} {il : List (Name × List Nat)} {lmod : LinModel}
    (h : linearBuild baseRxns lv maps il = .ok lmod) :
    (∀ kn ∈ lv, kn.2 > 0) ∧
    ∃ groups, (maps.mapM fun km => linRxnsOf (isosOf lv) baseRxns km.1 km.2) = .ok groups ∧
      lmod.rxns = groups.flatten ∧ lmod.vars = linInitVars lv il := by
  unfold linearBuild at h
  cases hi : (lv.mapM fun kn => do pure (kn.1, ← isotopeLabels kn.1 kn.2)) with
  | error e => rw [hi] at h; simp [bind, Except.bind] at h
  | ok isos =>
    obtain ⟨hpos, rfl⟩ := isos_mapM_ok hi
    rw [hi] at h
    simp only [bind, Except.bind] at h
    cases hg : (maps.mapM fun km => linRxnsOf (isosOf lv) baseRxns km.1 km.2) with
    | error e => rw [hg] at h; simp at h
    | ok groups =>
      rw [hg] at h
      simp only [pure, Except.pure, Except.ok.injEq] at h
      subst h
      exact ⟨hpos, groups, rfl, rfl, rfl⟩

/-- `build_model` of the linear mapper fails exactly with the first error of its stages -/
theorem linearBuild_zero_labels {baseRxns : List (Name × List (Name × Int))} {lv : List (Name × Nat)}
    {maps : List (Name × List Nat)} {il : List (Name × List Nat)}
    (h : ∃ kn ∈ lv, kn.2 = 0) : linearBuild baseRxns lv maps il = .error .valueError := by
  unfold linearBuild
  cases hi : (lv.mapM fun kn => do pure (kn.1, ← isotopeLabels kn.1 kn.2)) with
  | ok isos =>
    obtain ⟨hpos, _⟩ := isos_mapM_ok hi
    obtain ⟨kn, hk, h0⟩ := h
    have := hpos kn hk
    omega
  | error e =>
    obtain ⟨kn, _, hk⟩ := mapM_error_exists _ _ _ hi
    have : e = .valueError := by
      unfold isotopeLabels at hk
      split at hk
      · simp [bind, Except.bind, pure, Except.pure] at hk
      · simp [bind, Except.bind] at hk; exact hk.symm
    subst this
    simp [bind, Except.bind]

/-! ### reactions of a group belong to their base reaction -/

theorem slotRxns_rxn (rxn : Name) (i : Nat) (subs prods : List Slot) :
    ∀ rx ∈ slotRxns rxn i subs prods, rx.rxn = rxn := by
  induction subs generalizing i prods with
  | nil => simp [slotRxns]
  | cons s ss ih =>
    cases prods with
    | nil => simp [slotRxns]
    | cons p ps =>
      simp only [slotRxns]
      split
      · exact ih _ _
      · intro rx hrx
        rcases List.mem_cons.mp hrx with e | e
        · subst e; rfl
        · exact ih _ _ rx e

theorem linRxnsOf_rxn {isos : List (Name × List Slot)} {baseRxns : List (Name × List (Name × Int))}
    {rxn : Name} {lm : List Nat} {lrs : List LinRxn}
    (h : linRxnsOf isos baseRxns rxn lm = .ok lrs) : ∀ rx ∈ lrs, rx.rxn = rxn := by
  unfold linRxnsOf at h
  split at h
  · cases h
  · rename_i st _
    simp only [bind, Except.bind] at h
    split at h
    · cases h
    · split at h
      · cases h
      · split at h
        · cases h
        · split at h
          · cases h
          · simp only [pure, Except.pure, Except.ok.injEq] at h
            subst h
            exact slotRxns_rxn _ _ _ _

theorem linRxnsOf_known {isos : List (Name × List Slot)} {baseRxns : List (Name × List (Name × Int))}
    {rxn : Name} {lm : List Nat} {lrs : List LinRxn}
    (h : linRxnsOf isos baseRxns rxn lm = .ok lrs) : ∃ st, baseRxns.lookup rxn = some st := by
  unfold linRxnsOf at h
  split at h
  · cases h
  · rename_i st hst; exact ⟨st, hst⟩

/-- an unknown reaction name in `label_maps` is a `KeyError` -/
theorem linRxnsOf_unknown (isos : List (Name × List Slot)) (baseRxns : List (Name × List (Name × Int)))
    (rxn : Name) (lm : List Nat) (h : baseRxns.lookup rxn = none) :
    linRxnsOf isos baseRxns rxn lm = .error (.keyError rxn) := by
  simp [linRxnsOf, h]

theorem linRhs_congr_v (lrs : List LinRxn) (E : Slot → Rat) (v v' : Name → Rat) (C : Name → Rat)
    (x : Slot) (h : ∀ rx ∈ lrs, v rx.rxn = v' rx.rxn) :
    linRhs lrs E v C x = linRhs lrs E v' C x := by
  unfold linRhs
  apply congrArg
  apply List.map_congr_left
  intro rx hrx
  simp only [LinRxn.rate, h rx hrx]

theorem linRhs_flatten (gs : List (List LinRxn)) (E : Slot → Rat) (v C : Name → Rat) (x : Slot) :
    linRhs gs.flatten E v C x = (gs.map fun g => linRhs g E v C x).sum := by
  induction gs with
  | nil => simp [linRhs]
  | cons g gs ih =>
    simp only [List.flatten_cons, List.map_cons, List.sum_cons, ← ih]
    simp [linRhs, List.map_append, List.sum_append]

/-! ### re-indexing sums -/

theorem perm_sum_rat {α} {l₁ l₂ : List α} (h : l₁.Perm l₂) (f : α → Rat) :
    (l₁.map f).sum = (l₂.map f).sum := by
  induction h with
  | nil => rfl
  | cons a _ ih => simp only [List.map_cons, List.sum_cons, ih]
  | swap a b l => simp only [List.map_cons, List.sum_cons]; grind
  | trans _ _ ih₁ ih₂ => rw [ih₁, ih₂]

theorem lookup_of_mem_nodup {α β} [DecidableEq α] {l : List (α × β)} (hnd : (l.map (·.1)).Nodup)
    {kv : α × β} (h : kv ∈ l) : l.lookup kv.1 = some kv.2 := by
  induction l with
  | nil => simp at h
  | cons a l ih =>
    simp only [List.map_cons, List.nodup_cons] at hnd
    rcases List.mem_cons.mp h with e | e
    · subst e; simp [List.lookup]
    · have hne : kv.1 ≠ a.1 := by
        intro e'
        exact hnd.1 (e' ▸ List.mem_map_of_mem (f := (·.1)) e)
      have : (kv.1 == a.1) = false := by simpa using hne
      obtain ⟨a1, a2⟩ := a
      simp only [List.lookup, this]
      exact ih hnd.2 e

theorem find_of_mem_nodup {rs : List BRxn} (hnd : (rs.map (·.name)).Nodup) {r : BRxn} (h : r ∈ rs) :
    rs.find? (fun r' => r'.name == r.name) = some r := by
  induction rs with
  | nil => simp at h
  | cons a rs ih =>
    simp only [List.map_cons, List.nodup_cons] at hnd
    rcases List.mem_cons.mp h with e | e
    · subst e; simp [List.find?]
    · have hne : a.name ≠ r.name := by
        intro e'
        exact hnd.1 (e' ▸ List.mem_map_of_mem (f := (·.name)) e)
      have : (a.name == r.name) = false := by simpa using hne
      simp only [List.find?, this]
      exact ih hnd.2 e

theorem lookup_baseRxns {rs : List BRxn} (hnd : (rs.map (·.name)).Nodup) {r : BRxn} (h : r ∈ rs) :
    (rs.map fun r => (r.name, r.stoich)).lookup r.name = some r.stoich := by
  have := lookup_of_mem_nodup (l := rs.map fun r => (r.name, r.stoich)) (kv := (r.name, r.stoich))
    (by simpa [List.map_map, Function.comp_def] using hnd)
    (List.mem_map.mpr ⟨r, h, rfl⟩)
  simpa using this

theorem lookup_baseRxns_some {rs : List BRxn} {n : Name} {st : List (Name × Int)}
    (h : (rs.map fun r => (r.name, r.stoich)).lookup n = some st) : ∃ r ∈ rs, r.name = n := by
  induction rs with
  | nil => simp at h
  | cons a rs ih =>
    simp only [List.map_cons, List.lookup] at h
    by_cases e : n = a.name
    · exact ⟨a, List.mem_cons_self, e.symm⟩
    · have : (n == a.name) = false := by simpa using e
      simp only [this] at h
      obtain ⟨r, hr, hn⟩ := ih h
      exact ⟨r, List.mem_cons_of_mem _ hr, hn⟩

/-! ### the model-level marginal identity -/

theorem slotsOf_ok_labelled {isos : List (Name × List Slot)} {cs : List Name} {l : List Slot}
    (h : slotsOf isos cs = .ok l) : ∀ c ∈ cs, (isos.lookup c).isSome := by
  induction cs generalizing l with
  | nil => simp
  | cons c cs ih =>
    simp only [slotsOf] at h
    split at h
    · cases h
    · rename_i l0 hl0
      simp only [bind, Except.bind] at h
      split at h
      · cases h
      · rename_i rest hrest
        intro c' hc'
        rcases List.mem_cons.mp hc' with e | e
        · subst e; simp [hl0]
        · exact ih hrest c' e

/-- a reaction the linear mapper accepts has label positions on every compound (an unlabelled
    compound is a `KeyError`) -/
theorem linRxnsOf_labelled {lv : List (Name × Nat)} {baseRxns : List (Name × List (Name × Int))}
    {r : BRxn} {lm : List Nat} {lrs : List LinRxn}
    (hlk : baseRxns.lookup r.name = some r.stoich)
    (h : linRxnsOf (isosOf lv) baseRxns r.name lm = .ok lrs) :
    ∀ c ∈ subsOf r ++ prodsOf r, (lv.lookup c).isSome := by
  have hd := dupList_subs r.stoich
  simp only [linRxnsOf, hlk, bind, Except.bind] at h
  rw [hd.1, hd.2] at h
  have key : ∀ c, ((isosOf lv).lookup c).isSome → (lv.lookup c).isSome := by
    intro c hc
    rw [lookup_isosOf] at hc
    cases hl : lv.lookup c with
    | none => rw [hl] at hc; simp at hc
    | some n => simp
  split at h
  · cases h
  · rename_i ls hls
    split at h
    · cases h
    · rename_i lp hlp
      intro c hc
      rcases List.mem_append.mp hc with e | e
      · exact key c (slotsOf_ok_labelled hls c e)
      · exact key c (slotsOf_ok_labelled hlp c e)

theorem forall₂_exists_right {α β} {R : α → β → Prop} {l : List α} {ys : List β}
    (h : Fa2 R l ys) : ∀ x ∈ l, ∃ y ∈ ys, R x y := by
  induction h with
  | nil => simp
  | cons hxy _ ih =>
    intro x hx
    rcases List.mem_cons.mp hx with rfl | hx
    · exact ⟨_, List.mem_cons_self, hxy⟩
    · obtain ⟨y, hy, hr⟩ := ih x hx
      exact ⟨y, List.mem_cons_of_mem _ hy, hr⟩

theorem mem_of_lookup {α β} [DecidableEq α] {l : List (α × β)} {k : α} {v : β}
    (h : l.lookup k = some v) : (k, v) ∈ l := by
  induction l with
  | nil => simp at h
  | cons a l ih =>
    obtain ⟨a1, a2⟩ := a
    simp only [List.lookup] at h
    by_cases e : k = a1
    · subst e; simp at h; subst h; exact List.mem_cons_self
    · have : (k == a1) = false := by simpa using e
      simp only [this] at h
      exact List.mem_cons_of_mem _ (ih h)

/-- the per-reaction marginal identity (`C16_marginal`) -/
theorem marginal_of_groups (lv : List (Name × Nat)) (r : BRxn) (lm : List Nat)
    (baseRxns : List (Name × List (Name × Int))) (rs : List LRxn) (lrs : List LinRxn)
    (hlk : baseRxns.lookup r.name = some r.stoich)
    (hlab : ∀ c ∈ subsOf r ++ prodsOf r, (lv.lookup c).isSome)
    (hiso : isotopomerReactions lv r lm = .ok rs)
    (hlin : linRxnsOf (isosOf lv) baseRxns r.name lm = .ok lrs)
    (hm : MassAction lv r)
    (hpm : PermMap (max (nSub lv r) (nProd lv r)) lm) (σ : LName → Rat)
    (hC : ∀ c ∈ subsOf r, labelsOf lv c > 0 → totalOf σ c (labelsOf lv c) ≠ 0)
    (C : Name → Rat) (x : Name) (i : Nat) :
    linRhs lrs (enrichOf lv σ) (fun _ => r.rate (totalsEnv lv σ)) C (Slot.pos x i)
      = (1 / C x) * ((labelledAt x (labelsOf lv x) i).map (rhsOf rs σ)).sum := by
  rw [linRxnsOf_eq lv r lm baseRxns hlk hlab, if_neg (by rw [hpm.length]; omega)] at hlin
  have hpm' : PermMap (paddedSubs lv r).length lm := by rw [paddedSubs_length]; exact hpm
  rw [mapLabelmapToSubstrates_perm _ lm hpm'] at hlin
  simp only [Except.map, Except.ok.injEq] at hlin
  subst hlin
  exact marginal_full hiso hm hpm σ hC C x i

/-- what the model-level statements ask of a base reaction: it has a map, the map is a permutation
    of the padded positions, the rate law is mass action (that every compound of it carries labels
    follows from the linear mapper accepting it: `linRxnsOf_labelled`) -/
def LinOk (lv : List (Name × Nat)) (maps : List (Name × List Nat)) (r : BRxn) : Prop :=
  ∃ l, maps.lookup r.name = some l ∧ PermMap (max (nSub lv r) (nProd lv r)) l ∧ MassAction lv r

/-- the contribution of the base reaction called `n` to the marginal of `(x, i)` in the isotopomer
    model, divided by the pool -/
def isoTerm (b : Base) (lv : List (Name × Nat)) (maps : List (Name × List Nat)) (σ : LName → Rat)
    (C : Name → Rat) (x : Name) (i : Nat) (n : Name) : Rat :=
  match b.rxns.find? (fun r => r.name == n), maps.lookup n with
  | some r, some l =>
    match isotopomerReactions lv r l with
    | .ok rs => (1 / C x) * ((labelledAt x (labelsOf lv x) i).map (rhsOf rs σ)).sum
    | .error _ => 0
  | _, _ => 0

theorem model_marginal {b : Base} {lv : List (Name × Nat)} {maps : List (Name × List Nat)}
    {il il' : List (Name × List Nat)} {m : LModel} {lmod : LinModel}
    (hiso : buildModel b lv maps il = .ok m)
    (hlin : linearBuild (b.rxns.map fun r => (r.name, r.stoich)) lv maps il' = .ok lmod)
    (hnd : (b.rxns.map (·.name)).Nodup) (hkd : (maps.map (·.1)).Nodup)
    (hall : ∀ r ∈ b.rxns, LinOk lv maps r)
    (σ : LName → Rat) (hC : ∀ c, labelsOf lv c > 0 → totalOf σ c (labelsOf lv c) ≠ 0)
    (C : Name → Rat) (x : Name) (i : Nat) :
    linRhs lmod.rxns (enrichOf lv σ) (fluxAtTotals b lv σ) C (Slot.pos x i)
      = (1 / C x) * ((labelledAt x (labelsOf lv x) i).map (rhsOf m.rxns σ)).sum := by
  obtain ⟨_, lgroups, hlg, hlr, _⟩ := linearBuild_ok hlin
  obtain ⟨igroups, hig, hir, _, _⟩ := buildModel_rxns hiso
  have hfl := mapM_ok_forall₂ _ _ _ hlg
  have hfi := mapM_ok_forall₂ _ _ _ hig
  -- the isotopomer side, reaction by reaction
  have hI : (1 / C x) * ((labelledAt x (labelsOf lv x) i).map (rhsOf m.rxns σ)).sum
      = (b.rxns.map fun r => isoTerm b lv maps σ C x i r.name).sum := by
    rw [hir, rhsOf_flatten_sum, ← sum_map_mul_left]
    refine forall₂_map_sum _ _ hfi ?_
    intro r grp hr hgr
    obtain ⟨l, hl, _, _⟩ := hall r hr
    simp only [buildRxn, hl] at hgr
    simp only [isoTerm, find_of_mem_nodup hnd hr, hl, hgr]
  -- the linear side, `label_maps` entry by entry
  have hL : linRhs lmod.rxns (enrichOf lv σ) (fluxAtTotals b lv σ) C (Slot.pos x i)
      = (maps.map fun km => isoTerm b lv maps σ C x i km.1).sum := by
    rw [hlr, linRhs_flatten]
    refine forall₂_map_sum _ _ hfl ?_
    intro km lrs hkm hlrs
    obtain ⟨st, hst⟩ := linRxnsOf_known hlrs
    obtain ⟨r, hr, hrn⟩ := lookup_baseRxns_some hst
    obtain ⟨l, hl, hpm, hma⟩ := hall r hr
    have hkl : maps.lookup km.1 = some km.2 := lookup_of_mem_nodup hkd hkm
    have hl2 : l = km.2 := by
      rw [← hrn, hl] at hkl; exact Option.some.inj hkl
    subst hl2
    have hgi : ∃ rs, isotopomerReactions lv r km.2 = .ok rs := by
      obtain ⟨grp, hgm, hgr⟩ := forall₂_exists_right hfi r hr
      simp only [buildRxn, hl] at hgr
      exact ⟨grp, hgr⟩
    obtain ⟨rs, hrs⟩ := hgi
    rw [← hrn] at hlrs ⊢
    have hlab := linRxnsOf_labelled (lookup_baseRxns hnd hr) hlrs
    have hv : linRhs lrs (enrichOf lv σ) (fluxAtTotals b lv σ) C (Slot.pos x i)
        = linRhs lrs (enrichOf lv σ) (fun _ => r.rate (totalsEnv lv σ)) C (Slot.pos x i) := by
      apply linRhs_congr_v
      intro rx hrx
      rw [linRxnsOf_rxn hlrs rx hrx]
      simp only [fluxAtTotals, find_of_mem_nodup hnd hr]
    rw [hv]
    simp only [isoTerm, find_of_mem_nodup hnd hr, hl, hrs]
    exact marginal_of_groups lv r km.2 _ rs lrs (lookup_baseRxns hnd hr) hlab hrs hlrs hma hpm σ
      (fun c _ hc => hC c hc) C x i
  rw [hI, hL]
  -- both index sets are the reaction names
  have hperm : (maps.map (·.1)).Perm (b.rxns.map (·.name)) := by
    rw [List.perm_ext_iff_of_nodup hkd hnd]
    intro n
    constructor
    · intro hn
      obtain ⟨km, hkm, rfl⟩ := List.mem_map.mp hn
      obtain ⟨lrs, _, hlrs⟩ := forall₂_exists_right hfl km hkm
      obtain ⟨st, hst⟩ := linRxnsOf_known hlrs
      obtain ⟨r, hr, hrn⟩ := lookup_baseRxns_some hst
      exact List.mem_map.mpr ⟨r, hr, hrn⟩
    · intro hn
      obtain ⟨r, hr, rfl⟩ := List.mem_map.mp hn
      obtain ⟨l, hl, _⟩ := hall r hr
      have := mem_of_lookup hl
      exact List.mem_map.mpr ⟨(r.name, l), this, rfl⟩
  have := perm_sum_rat hperm (isoTerm b lv maps σ C x i)
  simpa [List.map_map, Function.comp_def] using this

end Mxl.C16
