/- C06 helper lemmas, part 3: soundness of the translator model under `TablesOk` (what the generated tables
   must satisfy) and `progOk` (the decidable side condition).  One induction on the translator's fuel proves
   the statements for expressions, argument lists, the statement loop and whole functions together. -/
import MxlVerif.Lemmas.C06Py
namespace Mxl.C06

inductive All2 {α β} (R : α → β → Prop) : List α → List β → Prop
  | nil : All2 R [] []
  | cons {a b as bs} : R a b → All2 R as bs → All2 R (a :: as) (b :: bs)

/-- What soundness needs from the tables read out of `source_tools.py`. -/
structure TablesOk (T : Tables) : Prop where
  unops : ∀ op s, (op, s) ∈ T.unops → ∀ x v, pyUn op x = some v → symUn s x = v
  binops : ∀ op s, (op, s) ∈ T.binops → ∀ a b v, pyBin op a b = some v → symBin s a b = some v
  cmpops : ∀ op tr, (op, tr) ∈ T.cmpops → ∃ r, tr = .rel r ∧ ∀ a b v, pyCmp op a b = some v → symRel r a b = v
  cmpComplete : ∀ op, T.cmpops.lookup op = none → ∀ a b, pyCmp op a b = none
  knownFns : ∀ k s m, (k, s) ∈ T.knownFns → symMeaning s = some m →
    (isExactFn m = true ∨ isOpaqueFn m = true) → pyMeaning k = some m
  substSim : T.substSimultaneous = true
  tupleSim : T.tupleSimultaneous = true
  stmtRefused : T.unknownStmtRefused = true
  branchCopies : T.branchCopies = true
  fallChecked : T.fallThroughChecked = true
  testsBool : T.testsBoolean = true
  chainAll : T.chainAssignAll = true
  unpackRefused : T.unpackRefused = true
  importsStrict : T.importsStrict = true
  importsCopied : T.importsCopied = true
  sigStrict : T.sigStrict = true
  cmpStrict : T.cmpStrict = true

/-- the symbol context describes the Python environment: every bound local's symbolic value evaluates
(at the argument valuation `ρ`) to its current Python value -/
def Agree (ctx : Syms) (env : PyEnv) (ρ : SEnv) : Prop :=
  ∀ n v, List.lookup n env = some v → (∃ g, v = .obj g) ∨ ∃ s, List.lookup n ctx = some s ∧ evalS ρ s = some v

def DomL (ctx : Syms) (L : List String) : Prop := ∀ n s, List.lookup n ctx = some s → L.contains n = true

def DomB (env : PyEnv) (bound : List String) : Prop := ∀ n v, List.lookup n env = some v → n ∈ bound

theorem Agree.cons {ctx env ρ} (h : Agree ctx env ρ) (x : String) (s : SExpr) (v : Val)
    (hs : evalS ρ s = some v) : Agree ((x, s) :: ctx) ((x, v) :: env) ρ := by
  intro n w hn
  rw [lookup_cons] at hn ⊢
  by_cases hx : n = x
  · simp only [hx, ↓reduceIte] at hn ⊢
    cases hn
    exact Or.inr ⟨s, rfl, hs⟩
  · simp only [hx, ↓reduceIte] at hn ⊢
    exact h n w hn

theorem DomL.cons {ctx L} (h : DomL ctx L) (x : String) (s : SExpr) (hx : L.contains x = true) :
    DomL ((x, s) :: ctx) L := by
  intro n t hn
  rw [lookup_cons] at hn
  by_cases hnx : n = x
  · rw [hnx]; exact hx
  · simp only [hnx, ↓reduceIte] at hn
    exact h n t hn

theorem DomB.cons {env bound} (h : DomB env bound) (x : String) (v : Val) : DomB ((x, v) :: env) (x :: bound) := by
  intro n w hn
  rw [lookup_cons] at hn
  by_cases hnx : n = x
  · simp [hnx]
  · simp only [hnx, ↓reduceIte] at hn
    exact List.mem_cons_of_mem _ (h n w hn)

theorem agree_bindAll {ρ : SEnv} : ∀ (xs : List String) (ss : List SExpr) (vs : List Val) (ctx : Syms) (env : PyEnv),
    Agree ctx env ρ → All2 (fun s v => evalS ρ s = some v) ss vs →
    Agree (bindAll ctx xs ss) (setAll env xs vs) ρ
  | [], _, _, _, _, h, _ => by simpa [bindAll, setAll] using h
  | _ :: _, _, _, _, _, h, .nil => by simpa [bindAll, setAll] using h
  | x :: xs, s :: ss, v :: vs, ctx, env, h, .cons hsv hrest => by
    simp only [bindAll, setAll]
    exact agree_bindAll xs ss vs _ _ (h.cons x s v hsv) hrest

theorem domL_bindAll {L : List String} : ∀ (xs : List String) (ss : List SExpr) (ctx : Syms),
    DomL ctx L → (∀ x ∈ xs, L.contains x = true) → DomL (bindAll ctx xs ss) L
  | [], _, _, h, _ => by simpa [bindAll] using h
  | _ :: _, [], _, h, _ => by simpa [bindAll] using h
  | x :: xs, s :: ss, ctx, h, hx => by
    simp only [bindAll]
    exact domL_bindAll xs ss _ (h.cons x s (hx x (by simp))) (fun y hy => hx y (List.mem_cons_of_mem _ hy))

theorem domB_setAll : ∀ (xs : List String) (vs : List Val) (env : PyEnv) (bound : List String),
    DomB env bound → DomB (setAll env xs vs) (xs ++ bound)
  | [], _, _, _, h => by simpa [setAll] using h
  | x :: xs, [], _, _, h => by
    simp only [setAll]
    intro n w hn
    exact List.mem_append_right _ (h n w hn)
  | x :: xs, v :: vs, env, bound, h => by
    simp only [setAll]
    intro n w hn
    have := domB_setAll xs vs _ _ (h.cons x v) n w hn
    simp only [List.mem_append, List.mem_cons] at this ⊢
    rcases this with h1 | h2 | h3
    · exact Or.inl (Or.inr h1)
    · exact Or.inl (Or.inl h2)
    · exact Or.inr h3

/-! ### comparison chains -/

theorem evalS_and_true {ρ : SEnv} {a b : SExpr} {y : Bool} (ha : evalS ρ a = some (.bool true))
    (hb : evalS ρ b = some (.bool y)) : evalS ρ (.and a b) = some (.bool y) := by
  simp [evalS, ha, hb]

theorem evalS_rel {ρ : SEnv} {a b : SExpr} {x y : Rat} (r : SRel) (ha : evalS ρ a = some (.num x))
    (hb : evalS ρ b = some (.num y)) : evalS ρ (.rel r a b) = some (.bool (symRel r x y)) := by
  simp [evalS, ha, hb]

theorem cmpChain_sound_acc {T : Tables} (hT : TablesOk T) (ρ : SEnv) (ev : PyExpr → Option Val) :
    ∀ (ops : List CmpOp) (rs : List PyExpr) (rights : List SExpr) (prev : SExpr) (x : Rat) (cs : List SExpr)
      (b : Val) (acc : SExpr),
      All2 (fun e s => ∀ v, ev e = some v → evalS ρ s = some v) rs rights →
      evalS ρ prev = some (.num x) →
      cmpChain T prev ops rights = .ok cs →
      cmpFold ev x ops rs = some b →
      evalS ρ acc = some (.bool true) →
      evalS ρ (andAll acc cs) = some b
  | [], [], rights, prev, x, cs, b, acc, _, _, hc, hf, hacc => by
    cases rights <;> simp [cmpChain, pure, Except.pure] at hc <;> simp [cmpFold] at hf <;> subst hc <;> subst hf <;>
      simpa [andAll] using hacc
  | [], _ :: _, _, _, _, _, _, _, _, _, _, hf, _ => by simp [cmpFold] at hf
  | _ :: _, [], _, _, _, _, _, _, _, _, _, hf, _ => by simp [cmpFold] at hf
  | op :: ops, r :: rs, rights, prev, x, cs, b, acc, hall, hprev, hc, hf, hacc => by
    cases hall with
    | @cons _ s _ ss hrs hrest =>
      simp only [cmpFold] at hf
      cases hr : ev r with
      | none => simp [hr] at hf
      | some yv =>
        rw [hr] at hf
        cases yv with
        | bool _ => simp at hf
        | obj _ => simp at hf
        | num y =>
          simp only at hf
          have hs : evalS ρ s = some (.num y) := hrs _ hr
          simp only [cmpChain] at hc
          rw [bind_ok] at hc
          obtain ⟨c, hc1, hc⟩ := hc
          rw [bind_ok] at hc
          obtain ⟨cs', hc2, hc⟩ := hc
          -- the table entry
          unfold cmpOne at hc1
          cases hl : T.cmpops.lookup op with
          | none =>
            have := hT.cmpComplete op hl x y
            simp [this] at hf
          | some tr =>
            obtain ⟨sr, htr, hsem⟩ := hT.cmpops op tr (lookup_mem _ _ _ hl)
            subst htr
            rw [hl] at hc1
            simp only at hc1
            split at hc1
            · cases hc1
              simp only [pure_ok] at hc
              subst hc
              simp only [andAll]
              cases hp : pyCmp op x y with
              | none => simp [hp] at hf
              | some bb =>
                have hrel : evalS ρ (.rel sr prev s) = some (.bool bb) := by
                  rw [evalS_rel sr hprev hs, hsem x y bb hp]
                rw [hp] at hf
                cases bb with
                | false =>
                  simp only [Option.some.injEq] at hf
                  subst hf
                  exact evalS_andAll_false ρ cs' _ (evalS_and_true hacc hrel)
                | true =>
                  simp only at hf
                  exact cmpChain_sound_acc hT ρ ev ops rs ss s y cs' b _ hrest hs hc2 hf
                    (evalS_and_true hacc hrel)
            · cases hc1

theorem cmpFold_bool (ev : PyExpr → Option Val) : ∀ (ops : List CmpOp) (rs : List PyExpr) (x : Rat) (b : Val),
    cmpFold ev x ops rs = some b → ∃ bb, b = .bool bb
  | [], [], _, b, h => by simp [cmpFold] at h; exact ⟨true, h.symm⟩
  | [], _ :: _, _, _, h => by simp [cmpFold] at h
  | _ :: _, [], _, _, h => by simp [cmpFold] at h
  | op :: ops, r :: rs, x, b, h => by
    simp only [cmpFold] at h
    split at h
    · split at h
      · exact cmpFold_bool ev ops rs _ b h
      · exact ⟨false, by simpa using h.symm⟩
      · cases h
    · cases h

theorem cmp_sound {T : Tables} (hT : TablesOk T) (ρ : SEnv) (ev : PyExpr → Option Val)
    (ops : List CmpOp) (rs : List PyExpr) (rights : List SExpr) (prev : SExpr) (x : Rat) (cs : List SExpr) (b : Val)
    (hall : All2 (fun e s => ∀ v, ev e = some v → evalS ρ s = some v) rs rights)
    (hprev : evalS ρ prev = some (.num x)) (hne : ops.isEmpty = false)
    (hc : cmpChain T prev ops rights = .ok cs) (hf : cmpFold ev x ops rs = some b) :
    ∃ c cs', cs = c :: cs' ∧ evalS ρ (andAll c cs') = some b := by
  cases ops with
  | nil => simp at hne
  | cons op ops =>
    cases rs with
    | nil => simp [cmpFold] at hf
    | cons r rs =>
      cases hall with
      | @cons _ s _ ss hrs hrest =>
        simp only [cmpFold] at hf
        cases hr : ev r with
        | none => simp [hr] at hf
        | some yv =>
          rw [hr] at hf
          cases yv with
          | bool _ => simp at hf
          | obj _ => simp at hf
          | num y =>
            simp only at hf
            have hs : evalS ρ s = some (.num y) := hrs _ hr
            simp only [cmpChain] at hc
            rw [bind_ok] at hc
            obtain ⟨c, hc1, hc⟩ := hc
            rw [bind_ok] at hc
            obtain ⟨cs', hc2, hc⟩ := hc
            unfold cmpOne at hc1
            cases hl : T.cmpops.lookup op with
            | none =>
              have := hT.cmpComplete op hl x y
              simp [this] at hf
            | some tr =>
              obtain ⟨sr, htr, hsem⟩ := hT.cmpops op tr (lookup_mem _ _ _ hl)
              subst htr
              rw [hl] at hc1
              simp only at hc1
              split at hc1
              · cases hc1
                simp only [pure_ok] at hc
                subst hc
                refine ⟨_, _, rfl, ?_⟩
                cases hp : pyCmp op x y with
                | none => simp [hp] at hf
                | some bb =>
                  have hrel : evalS ρ (.rel sr prev s) = some (.bool bb) := by
                    rw [evalS_rel sr hprev hs, hsem x y bb hp]
                  rw [hp] at hf
                  cases bb with
                  | false =>
                    simp only [Option.some.injEq] at hf
                    subst hf
                    exact evalS_andAll_false ρ cs' _ hrel
                  | true =>
                    simp only at hf
                    exact cmpChain_sound_acc hT ρ ev ops rs ss s y cs' b _ hrest hs hc2 hf hrel
              · cases hc1

/-! ### substitution -/

def substEnv (ρ' : SEnv) (σ : Syms) : SEnv :=
  fun n => match List.lookup n σ with
    | some s => evalS ρ' s
    | none => ρ' n

theorem evalS_substSim (ρ' : SEnv) (σ : Syms) : ∀ e : SExpr, evalS ρ' (substSim σ e) = evalS (substEnv ρ' σ) e
  | .num _ => by simp [substSim, evalS]
  | .sym n => by
    simp only [substSim, evalS, substEnv]
    cases List.lookup n σ <;> simp [evalS]
  | .const _ => by simp [substSim, evalS]
  | .boolLit _ => by simp [substSim, evalS]
  | .un _ a => by simp [substSim, evalS, evalS_substSim ρ' σ a]
  | .bin _ a b => by simp [substSim, evalS, evalS_substSim ρ' σ a, evalS_substSim ρ' σ b]
  | .rel _ a b => by simp [substSim, evalS, evalS_substSim ρ' σ a, evalS_substSim ρ' σ b]
  | .and a b => by simp [substSim, evalS, evalS_substSim ρ' σ a, evalS_substSim ρ' σ b]
  | .pw e c r => by
    simp [substSim, evalS, evalS_substSim ρ' σ e, evalS_substSim ρ' σ c, evalS_substSim ρ' σ r]
  | .pwEnd => by simp [substSim, evalS]
  | .app1 _ a => by simp [substSim, evalS, evalS_substSim ρ' σ a]
  | .app2 _ a b => by simp [substSim, evalS, evalS_substSim ρ' σ a, evalS_substSim ρ' σ b]

theorem lookup_zip_all2 {R : SExpr → Val → Prop} : ∀ (ps : List String) (ms : List SExpr) (vs : List Val),
    All2 R ms vs → ∀ n x, List.lookup n (ps.zip vs) = some x → ∃ m, List.lookup n (ps.zip ms) = some m ∧ R m x
  | [], _, _, _, n, x, h => by simp at h
  | _ :: _, _, _, .nil, n, x, h => by simp at h
  | p :: ps, m :: ms, v :: vs, .cons hmv hrest, n, x, h => by
    simp only [List.zip_cons_cons] at h ⊢
    rw [lookup_cons] at h ⊢
    by_cases hn : n = p
    · simp only [hn, ↓reduceIte] at h ⊢
      cases h
      exact ⟨m, rfl, hmv⟩
    · simp only [hn, ↓reduceIte] at h ⊢
      exact lookup_zip_all2 ps ms vs hrest n x h

theorem lookup_map_sym (n : String) : ∀ (ps : List String) {s : SExpr},
    List.lookup n (ps.map (fun p => (p, SExpr.sym p))) = some s → s = .sym n ∧ n ∈ ps
  | [], _, h => by simp at h
  | p :: ps, s, h => by
    simp only [List.map_cons] at h
    rw [lookup_cons] at h
    by_cases hn : n = p
    · simp only [hn, ↓reduceIte] at h
      cases h
      exact ⟨by rw [hn], by simp [hn]⟩
    · simp only [hn, ↓reduceIte] at h
      obtain ⟨h1, h2⟩ := lookup_map_sym n ps h
      exact ⟨h1, List.mem_cons_of_mem _ h2⟩

theorem lookup_zip_mem {β} (n : String) : ∀ (ps : List String) (vs : List β) {x : β},
    List.lookup n (ps.zip vs) = some x → n ∈ ps
  | [], _, _, h => by simp at h
  | _ :: _, [], _, h => by simp at h
  | p :: ps, v :: vs, x, h => by
    simp only [List.zip_cons_cons] at h
    rw [lookup_cons] at h
    by_cases hn : n = p
    · simp [hn]
    · simp only [hn, ↓reduceIte] at h
      exact List.mem_cons_of_mem _ (lookup_zip_mem n ps vs h)

theorem lookup_map_sym_of_mem (n : String) : ∀ (ps : List String), n ∈ ps →
    List.lookup n (ps.map (fun p => (p, SExpr.sym p))) = some (.sym n)
  | [], h => by simp at h
  | p :: ps, h => by
    simp only [List.map_cons]
    rw [lookup_cons]
    by_cases hn : n = p
    · simp [hn]
    · simp only [hn, ↓reduceIte]
      exact lookup_map_sym_of_mem n ps (by simpa [hn] using h)

/-! ### tests are Booleans; plain-assignment branches -/

theorem boolSorted_val {ρ : SEnv} {s : SExpr} {v : Val} (hs : isBoolSorted s = true) (h : evalS ρ s = some v) :
    ∃ b, v = .bool b := by
  cases s <;> simp [isBoolSorted] at hs
  · -- boolLit
    simp [evalS] at h; exact ⟨_, h.symm⟩
  · -- rel
    rename_i op a b
    simp only [evalS] at h
    split at h
    · simp at h; exact ⟨_, h.symm⟩
    · cases h
  · -- and
    rename_i a b
    simp only [evalS] at h
    split at h
    · simp at h; exact ⟨_, h.symm⟩
    · split at h
      · simp at h; exact ⟨_, h.symm⟩
      · cases h
    · cases h

/-- every statement is a plain single-name assignment (possibly none) -/
def allAssign : List PyStmt → Bool
  | [] => true
  | .assign _ _ :: rest => allAssign rest
  | _ => false

theorem allAssign_of_assignOnly : ∀ b : List PyStmt, assignOnly b = true → allAssign b = true
  | [], h => by simp [assignOnly] at h
  | [.assign _ _], _ => by simp [allAssign]
  | .assign _ _ :: s2 :: rest, h => by
    simp only [assignOnly] at h
    simp only [allAssign]
    exact allAssign_of_assignOnly (s2 :: rest) h
  | .tupleAssign _ _ :: _, h => by simp [assignOnly] at h
  | .augAssign _ _ _ :: _, h => by simp [assignOnly] at h
  | .ifs _ _ _ :: _, h => by simp [assignOnly] at h
  | .ret _ :: _, h => by simp [assignOnly] at h
  | .retNone :: _, h => by simp [assignOnly] at h
  | .skip :: _, h => by simp [assignOnly] at h
  | .unhandled :: _, h => by simp [assignOnly] at h
  | .multiAssign _ _ :: _, h => by simp [assignOnly] at h
  | .unpackAssign _ _ :: _, h => by simp [assignOnly] at h
  | .importS _ :: _, h => by simp [assignOnly] at h

theorem lastAssigned_mem : ∀ (b : List PyStmt) (x : String), lastAssigned b = some x → x ∈ bodyAssigned b
  | [], x, h => by simp [lastAssigned] at h
  | s :: rest, x, h => by
    simp only [lastAssigned] at h
    rw [bodyAssigned_cons]
    cases hr : lastAssigned rest with
    | some y =>
      rw [hr] at h
      simp only [Option.some.injEq] at h
      subst h
      exact List.mem_append_right _ (lastAssigned_mem rest y hr)
    | none =>
      rw [hr] at h
      cases s with
      | assign y e => simp at h; subst h; simp [stmtAssigned]
      | multiAssign xs e =>
        cases xs with
        | nil => simp at h
        | cons y ys => simp at h; subst h; simp [stmtAssigned]
      | _ => simp at h

end Mxl.C06
