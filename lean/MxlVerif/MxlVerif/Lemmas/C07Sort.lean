/-
Facts about `sortDeps` needed by C07: a successful sort returns a permutation of the element names.
(Stated about the shared `Model/Sort.lean` definitions; core Lean only.)
-/
import MxlVerif.Model.Sort
namespace Mxl

theorem sortLoop_perm (els : List Dep) :
    ∀ (b : Nat) (av : List Name) (q : List Dep) (last : Option Name) (order res : List Name),
      sortLoop els b av q last order = .ok res →
      res.Perm (order.reverse ++ q.map (·.name)) := by
  intro b av q last order
  fun_induction sortLoop els b av q last order with
  | case1 => intro res h; simp at h; subst h; simp
  | case2 => intro res h; simp at h
  | case3 b av d rest last order hr ih =>
    intro res h
    have := ih res h
    simpa using this
  | case4 => intro res h; simp at h
  | case5 => intro res h; simp at h
  | case6 b av d rest last order hr hl ih =>
    intro res h
    have := ih res h
    refine this.trans ?_
    simp only [List.map_append, List.map_cons, List.map_nil]
    exact List.Perm.append_left _ (List.perm_append_comm)

theorem sortDeps_perm {av : List Name} {els : List Dep} {res : List Name}
    (h : sortDeps av els = .ok res) : res.Perm (els.map (·.name)) := by
  unfold sortDeps at h
  cases hc : checkSortable av els with
  | error e => simp [hc, bind, Except.bind] at h
  | ok u =>
    simp [hc, bind, Except.bind] at h
    simpa using sortLoop_perm els _ _ _ _ _ _ h

end Mxl
