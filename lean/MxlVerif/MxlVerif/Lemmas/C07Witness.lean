/- concrete models used as witnesses / non-vacuity examples in Props/C07.lean -/
import MxlVerif.Lemmas.C07Main
namespace Mxl.C07
open Mxl

def fMul (a b : Name) : Fn := { args := [a, b], fn := fun vs => vs.getD 0 0 * vs.getD 1 0 }
def fAdd (a b : Name) : Fn := { args := [a, b], fn := fun vs => vs.getD 0 0 + vs.getD 1 0 }
def fId (a : Name) : Fn := { args := [a], fn := fun vs => vs.getD 0 0 }

/-- inside the hypotheses: two variables, a parameter, a derived parameter (static), a derived value declared
    *before* the one it depends on, a derived value that reads a reaction rate, two reactions -/
def wOk : Content :=
  { vars := [("x", .plain 1), ("y", .plain 2)], pars := [("k", .plain 2)]
    derived := [("d2", fId "d1"), ("d1", fAdd "x" "kk"), ("kk", fMul "k" "k"), ("d3", fAdd "r1" "y")]
    rxns := [("r1", { rate := fMul "d2" "y", stoich := [("x", .num (-1)), ("y", .num 1)] }),
             ("r2", { rate := fMul "d3" "k", stoich := [("y", .num (-3))] })] }

/-- inside the hypotheses, with a variable defined by an initial assignment that reads a derived value -/
def wOkIA : Content :=
  { vars := [("x", .plain 1), ("y", .ia (fAdd "d1" "k"))], pars := [("k", .plain 2)]
    derived := [("d1", fMul "x" "k"), ("d2", fAdd "y" "d1")]
    rxns := [("r1", { rate := fMul "d2" "y", stoich := [("x", .num (-1)), ("y", .num 1)] })] }

/-- former part of F-C07-3 (repaired): `z` occurs in no reaction, `x` does -/
def wNoEq : Content :=
  { vars := [("x", .plain 1), ("z", .plain 1)], pars := [("k", .plain 2)]
    rxns := [("r", { rate := fMul "x" "k", stoich := [("x", .num (-1))] })] }

/-- F-C07-3 as it is now: no reaction changes any variable, the generated function returns `()` / `[()]` -/
def wNoEqAtAll : Content :=
  { vars := [("x", .plain 1), ("z", .plain 1)], pars := [("k", .plain 2)]
    derived := [("d", fMul "x" "k")] }

/-- former F-C07-5 witness (repaired): parameter `q` is defined by an initial assignment -/
def wIAPar : Content :=
  { vars := [("x", .plain 1), ("y", .plain 1)], pars := [("k", .plain 2), ("q", .ia (fAdd "k" "k"))]
    rxns := [("r", { rate := fMul "x" "q", stoich := [("x", .num (-1)), ("y", .num 1)] })] }

/-- a parameter defined by an initial assignment that reads a variable's initial value, a derived parameter
    that reads it, a variable whose initial assignment reads it -/
def wIAPar2 : Content :=
  { vars := [("x", .plain 1), ("y", .ia (fAdd "q" "k"))], pars := [("k", .plain 2), ("q", .ia (fMul "x" "k"))]
    derived := [("d2", fMul "x" "dq"), ("dq", fAdd "q" "k")]
    rxns := [("r", { rate := fMul "d2" "q", stoich := [("x", .num (-1)), ("y", .num 1)] })] }

def isNameError : Except Err (List Rat) → Bool
  | .error (.keyError _) => true
  | _ => false

def isErrOther (s : String) : Except Err (List Rat) → Bool
  | .error (.other m) => m == s
  | _ => false

def isValueError {α} : Except Err α → Bool
  | .error (.valueError _) => true
  | _ => false

end Mxl.C07
