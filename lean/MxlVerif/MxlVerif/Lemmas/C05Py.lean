/-
Lemmas for `Model/C05Py.lean` (core Lean only).
-/
import MxlVerif.Model.C05Py
import MxlVerif.Lemmas.C05Int
namespace Mxl.C05

theorem contains_natPositions (pos : List Int) (idx : Nat) :
    pos.contains (Int.ofNat idx) = (natPositions pos).contains idx := by
  rw [Bool.eq_iff_iff]
  simp only [List.contains_iff_mem, natPositions, List.mem_filterMap]
  constructor
  · intro h
    exact ⟨Int.ofNat idx, h, by simp⟩
  · rintro ⟨a, ha, h⟩
    split at h
    · simp only [Option.some.injEq] at h
      have : a = Int.ofNat idx := by simp only [Int.ofNat_eq_natCast]; omega
      rw [← this]; exact ha
    · cases h

theorem flatMap_congr_mem {α β} (l : List α) (f g : α → List β) (h : ∀ x ∈ l, f x = g x) :
    l.flatMap f = l.flatMap g := by
  induction l with
  | nil => rfl
  | cons x xs ih =>
    simp only [List.flatMap_cons, h x List.mem_cons_self,
      ih (fun z hz => h z (List.mem_cons_of_mem _ hz))]

/-- integer positions: only `0 ≤ p` can match, and they match as natural numbers -/
theorem initSuffixI_eq (n : Nat) (pos : List Int) :
    initSuffixI n pos = initSuffix n (natPositions pos) := by
  unfold initSuffixI initSuffix
  apply List.map_congr_left
  intro idx _
  exact contains_natPositions pos idx

/-- positions `≥ n` are ignored -/
theorem initSuffix_filter (n : Nat) (pos : List Nat) :
    initSuffix n pos = initSuffix n (pos.filter (· < n)) := by
  unfold initSuffix
  apply List.map_congr_left
  intro idx hidx
  have hlt := List.mem_range.mp hidx
  induction pos with
  | nil => rfl
  | cons p ps ih =>
    by_cases hp : p < n
    · simp only [List.filter_cons, hp, decide_true, if_true, List.contains_cons, ih]
    · simp only [List.filter_cons, hp, decide_false, List.contains_cons, ih]
      have : (idx == p) = false := by simp only [beq_eq_false_iff_ne, ne_eq]; omega
      simp [this]

/-- `initial_labels` is read per base variable, through `initial_labels.get(k)`: an entry for a name
    that is no base variable is never read, an entry for a base variable without label positions
    is ignored -/
theorem buildVars_congr (lv : List (Name × Nat)) (il il' : List (Name × List Nat))
    (vars : List (Name × Rat))
    (h : ∀ kv ∈ vars, (lv.lookup kv.1).isSome → il.lookup kv.1 = il'.lookup kv.1) :
    buildVars lv il vars = buildVars lv il' vars := by
  unfold buildVars
  apply flatMap_congr_mem
  intro kv hkv
  unfold initBlock
  cases hl : lv.lookup kv.1 with
  | none => rfl
  | some n => simp only []; rw [h kv hkv (by simp [hl])]

theorem combos_short (xs : List Nat) (k : Nat) (h : xs.length < k) : combos xs k = [] := by
  induction xs generalizing k with
  | nil =>
    cases k with
    | zero => simp at h
    | succ k => rfl
  | cons x xs ih =>
    cases k with
    | zero => simp at h
    | succ k =>
      simp only [List.length_cons, Nat.add_lt_add_iff_right] at h
      simp only [combos, ih k h, ih (k + 1) (by omega), List.map_nil, List.append_nil]

theorem atPositionI_unknown (lv : List (Name × Nat)) (x : Name) (ps : List Int)
    (h : lv.lookup x = none) : isotopomersAtPositionI lv x ps = .error (.keyError x) := by
  simp [isotopomersAtPositionI, labelCount, h, bind, Except.bind]

theorem atPositionI_known (lv : List (Name × Nat)) (x : Name) (ps : List Int) (n : Nat)
    (h : lv.lookup x = some n) :
    isotopomersAtPositionI lv x ps = (normMap n ps).bind (isotopomersAtPosition lv x) := by
  simp only [isotopomersAtPositionI, labelCount, h, bind, Except.bind, normMap]

theorem withNLabelsI_spec (lv : List (Name × Nat)) (x : Name) (k : Int) :
    (lv.lookup x = none → isotopomersWithNLabelsI lv x k = .error (.keyError x)) ∧
    (∀ n, lv.lookup x = some n →
      (k < 0 → isotopomersWithNLabelsI lv x k = .error .valueError) ∧
      (0 ≤ k → isotopomersWithNLabelsI lv x k = isotopomersWithNLabels lv x k.toNat) ∧
      ((n : Int) < k → isotopomersWithNLabelsI lv x k = .ok [])) := by
  refine ⟨?_, ?_⟩
  · intro h; simp [isotopomersWithNLabelsI, labelCount, h, bind, Except.bind]
  · intro n h
    refine ⟨?_, ?_, ?_⟩
    · intro hk; simp [isotopomersWithNLabelsI, labelCount, h, bind, Except.bind, hk]
    · intro hk
      have : ¬ k < 0 := by omega
      simp [isotopomersWithNLabelsI, labelCount, h, bind, Except.bind, this]
    · intro hk
      have h0 : ¬ k < 0 := by omega
      have hs : (List.range n).length < k.toNat := by simp; omega
      simp [isotopomersWithNLabelsI, isotopomersWithNLabels, labelCount, h, bind, Except.bind, h0,
        combos_short _ _ hs, pure, Except.pure]

/-! ### reactions without a label map that change a labelled compound -/

theorem mem_danglingOf (lv : List (Name × Nat)) (st : List (Name × Coef)) (c : Name) :
    c ∈ danglingOf lv st ↔ c ∈ st.map (·.1) ∧ labelsOf lv c > 0 := by
  simp [danglingOf, List.mem_filter]

theorem initBlock_names (lv : List (Name × Nat)) (il : List (Name × List Nat)) (k : Name) (v : Rat) :
    (initBlock lv il k v).map (·.1) = binaryLabels k (labelsOf lv k) := by
  obtain ⟨target, hmem, heq, _, _⟩ := initBlock_eq lv il k v
  rw [heq]; simp [Function.comp_def]

/-- a compound with label positions is no variable of the labelled model (only its isotopomers are) -/
theorem plain_not_var (lv : List (Name × Nat)) (il : List (Name × List Nat)) (vars : List (Name × Rat))
    (c : Name) (hc : labelsOf lv c > 0) : plain c ∉ (buildVars lv il vars).map (·.1) := by
  intro hmem
  unfold buildVars at hmem
  rw [List.map_flatMap] at hmem
  obtain ⟨kv, _, hin⟩ := List.mem_flatMap.mp hmem
  rw [initBlock_names] at hin
  unfold binaryLabels at hin
  split at hin
  · obtain ⟨w, _, hw⟩ := List.mem_map.mp hin
    simp [plain] at hw
  · rename_i h0
    simp only [List.mem_singleton, plain, LName.mk.injEq, and_true] at hin
    subst hin
    exact h0 hc

end Mxl.C05
