/-
C14: histories with protocol calls refine the specification machine (protocol = explicit calls).
-/
import MxlVerif.Lemmas.C14
namespace Mxl.C14
open Mxl.C04

def simLike : Op → Bool
  | .updPars _ => true
  | .simulate _ _ => true
  | .timeCourse _ => true
  | _ => false

theorem expandProtocol_simLike (T : Rat) (n : Nat) (steps : List PStep) :
    (expandProtocol T n steps).all simLike = true := by
  induction steps generalizing T with
  | nil => rfl
  | cons s rest ih => obtain ⟨d, p⟩ := s; simp [expandProtocol, simLike, ih]

theorem expandProtocolTC_simLike (pts : List Rat) (T : Rat) (steps : List PStep) :
    (expandProtocolTC pts T steps).all simLike = true := by
  induction steps generalizing T with
  | nil => rfl
  | cons s rest ih => obtain ⟨d, p⟩ := s; simp [expandProtocolTC, simLike, ih]

theorem runStop_refines {σ} (S : Sys σ) : ∀ (ops : List Op) (s : Sim σ) (a : Spec σ),
    Rel s a →
    (runStop S s ops).2 = (Spec.runStop S a ops).2 ∧
      Rel (runStop S s ops).1 (Spec.runStop S a ops).1
  | [], _, _, r => ⟨rfl, r⟩
  | op :: rest, s, a, r => by
    obtain ⟨he, hr⟩ := step_refines S r op
    simp only [runStop, Spec.runStop]
    rcases hi : step S s op with ⟨s1, _ | e⟩
    · rcases hsp : Spec.step S a op with ⟨a1, _ | e'⟩
      · rw [hi, hsp] at hr
        simp only
        exact runStop_refines S rest s1 a1 hr
      · rw [hi, hsp] at he; cases he
    · rcases hsp : Spec.step S a op with ⟨a1, _ | e'⟩
      · rw [hi, hsp] at he; cases he
      · rw [hi, hsp] at he hr
        simp only at he
        cases he
        exact ⟨rfl, hr⟩

theorem errors_of_live {σ} {s : Sim σ} {a : Spec σ} (r : Rel s a) (hf : a.failed = false) :
    s.errors = 0 := by
  have := r.failed; rw [hf] at this
  simp only [gt_iff_lt, decide_eq_false_iff_not, Nat.not_lt, Nat.le_zero_eq] at this
  exact this

/-! ### a solver failure inside a protocol call -/


theorem protoLoopF_none {σ} (S : Sys σ) (T : Rat) (n : Option Nat) : ∀ (prot : Protocol) (s : Sim σ),
    protoLoopF S T n none s prot = protoLoop S T n s prot
  | [], _ => rfl
  | (tEnd, p) :: rest, s => by
    simp only [protoLoopF, protoLoop, decFail]
    rcases updPars s p with ⟨s1, _ | e⟩
    · simp only [reduceCtorEq, if_false]
      rcases simulate S s1 (T + tEnd) n with ⟨s2, _ | e⟩
      · simp only
        split
        · rfl
        · exact protoLoopF_none S T n rest s2
      · rfl
    · rfl

theorem expandProtocolF_none (T : Rat) (n : Nat) : ∀ (steps : List PStep),
    expandProtocolF T n none steps = expandProtocol T n steps := by
  intro steps
  induction steps generalizing T with
  | nil => rfl
  | cons st rest ih => obtain ⟨d, p⟩ := st; simp [expandProtocolF, expandProtocol, decFail, ih]

/-- on a FAILED simulator that holds results the rest of the loop only applies the parameter values -/
theorem protoLoopF_failed {σ} (S : Sys σ) (T : Rat) (n : Nat) : ∀ (steps : List PStep) (T0 : Rat) (s : Sim σ),
    s.errors > 0 → s.segs.isSome = true →
    protoLoopF S T (some n) none s (cumRows T0 steps) = runStop S s (expandProtocolF (T + T0) n none steps)
  | [], _, _, _, _ => rfl
  | (d, p) :: rest, T0, s, he, hs => by
    have e1 : T + (T0 + d) = T + T0 + d := by grind
    simp only [cumRows, protoLoopF, expandProtocolF, runStop, step, decFail, reduceCtorEq, if_false, e1]
    have hu : (updPars s p).1.errors > 0 := he
    have hu2 : (updPars s p).1.segs.isSome = true := hs
    rcases hup : updPars s p with ⟨s1, _ | e⟩
    · rw [hup] at hu hu2
      simp only
      have hsim : simulate S s1 (T + T0 + d) (some n) = (s1, none) := by simp [simulate, hu]
      rw [hsim]
      have hnone : s1.segs.isNone = false := by cases hh : s1.segs <;> simp [hh] at hu2 ⊢
      simp only [hnone, Bool.false_eq_true, if_false]
      have := protoLoopF_failed S T n rest (T0 + d) s1 hu hu2
      rw [this, e1]
    · rfl

theorem failInstead_cases {σ} (s : Sim σ) (x : Out (Sim σ)) (he : s.errors = 0) :
    (∃ e, x.2 = some e ∧ failInstead s x = (s, some e)) ∨
    (x.2 = none ∧ failInstead s x = ({ s with errors := s.errors + 1 }, none)) := by
  unfold failInstead
  cases hx : x.2 with
  | some e => exact Or.inl ⟨e, rfl, rfl⟩
  | none => right; simp [he]

theorem protoLoopF_eq {σ} (S : Sys σ) (T : Rat) (n : Nat) : ∀ (steps : List PStep) (T0 : Rat) (s : Sim σ)
    (k : Option Nat), s.errors = 0 → (k = some 0 → s.segs.isSome = true) →
    protoLoopF S T (some n) k s (cumRows T0 steps) = runStop S s (expandProtocolF (T + T0) n k steps)
  | [], _, _, _, _, _ => rfl
  | (d, p) :: rest, T0, s, none, he, _ => by
    rw [protoLoopF_none, expandProtocolF_none]
    exact protoLoop_eq S T n ((d, p) :: rest) T0 s he
  | (d, p) :: rest, T0, s, some 0, he, hk => by
    have hs := hk rfl
    have e1 : T + (T0 + d) = T + T0 + d := by grind
    simp only [cumRows, protoLoopF, expandProtocolF, runStop, step, decFail, if_true, e1]
    have hu : (updPars s p).1.errors = 0 := he
    have hu2 : (updPars s p).1.segs.isSome = true := hs
    rcases hup : updPars s p with ⟨s1, _ | e⟩
    · rw [hup] at hu hu2
      simp only
      rw [simulateF_eq]
      rcases failInstead_cases s1 (simulate S s1 (T + T0 + d) (some n)) hu with ⟨e, _, hfi⟩ | ⟨_, hfi⟩
      · rw [hfi]
      · rw [hfi]
        have hnone : s1.segs.isNone = false := by cases hh : s1.segs <;> simp [hh] at hu2 ⊢
        simp only [hnone, Bool.false_eq_true, if_false]
        have := protoLoopF_failed S T n rest (T0 + d) { s1 with errors := s1.errors + 1 }
          (Nat.succ_pos _) hu2
        rw [this, e1]
    · rfl
  | (d, p) :: rest, T0, s, some (j + 1), he, _ => by
    have e1 : T + (T0 + d) = T + T0 + d := by grind
    have hne : (some (j + 1) = some 0) = False := by simp
    simp only [cumRows, protoLoopF, expandProtocolF, runStop, step, decFail, hne, if_false, e1]
    have hu : (updPars s p).1.errors = 0 := he
    rcases hup : updPars s p with ⟨s1, _ | e⟩
    · rw [hup] at hu
      simp only
      have hs := simulate_ok S s1 (T + T0 + d) (some n) hu
      rcases hsim : simulate S s1 (T + T0 + d) (some n) with ⟨s2, _ | e⟩
      · rw [hsim] at hs
        have hsome : s2.segs.isNone = false := by
          have := hs.2 rfl
          cases hh : s2.segs <;> simp [hh] at this ⊢
        simp only [hsome, Bool.false_eq_true, if_false]
        have := protoLoopF_eq S T n rest (T0 + d) s2 (some j) hs.1 (fun _ => hs.2 rfl)
        rw [this, e1]
      · rfl
    · rfl

/-- FRESH simulator, the FIRST step fails: nothing is stored, `if self.variables is None: break` leaves the loop — the
    later steps' values are not applied -/

theorem protoLoopF_break {σ} (S : Sys σ) (T : Rat) (n : Nat) (d : Rat) (p : Upd) (rest : List PStep) (T0 : Rat)
    (s : Sim σ) (he : s.errors = 0) (hs : s.segs = none) :
    protoLoopF S T (some n) (some 0) s (cumRows T0 ((d, p) :: rest)) =
      runStop S s [.updPars p, .simulateF (T + T0 + d) (some n)] := by
  have e1 : T + (T0 + d) = T + T0 + d := by grind
  simp only [cumRows, protoLoopF, runStop, step, if_true, e1]
  have hu : (updPars s p).1.errors = 0 := he
  have hu2 : (updPars s p).1.segs = none := hs
  rcases hup : updPars s p with ⟨s1, _ | e⟩
  · rw [hup] at hu hu2
    simp only
    rw [simulateF_eq]
    rcases failInstead_cases s1 (simulate S s1 (T + T0 + d) (some n)) hu with ⟨e, _, hfi⟩ | ⟨_, hfi⟩
    · rw [hfi]
    · rw [hfi]
      have hu3 : s1.segs = none := hu2
      simp only [hu3, Option.isNone_none, if_true]
  · rfl


theorem simulateProtocolF_eq {σ} (S : Sys σ) (s : Sim σ) (steps : List PStep) (n k : Nat) (T : Rat)
    (hwf : wfSteps steps = true) (he : s.errors = 0) (hT : reached? s.segs = .ok T) :
    simulateProtocolF S s (makeProtocol steps) n k =
      runStop S s (if k == 0 && s.segs.isNone then (expandProtocolF T n (some k) (normSteps steps)).take 2
        else expandProtocolF T n (some k) (normSteps steps)) := by
  unfold simulateProtocolF
  simp only [he, Nat.lt_irrefl, if_false, gt_iff_lt, hT, makeProtocol_wf steps hwf]
  have e0 : T + 0 = T := by grind
  by_cases hb : (k == 0 && s.segs.isNone) = true
  · simp only [hb, if_true]
    simp only [Bool.and_eq_true, beq_iff_eq] at hb
    obtain ⟨hk, hsn⟩ := hb
    subst hk
    have hsn' : s.segs = none := by cases hh : s.segs <;> simp [hh] at hsn ⊢
    cases hns : normSteps steps with
    | nil => rfl
    | cons st rest =>
      obtain ⟨d, p⟩ := st
      rw [protoLoopF_break S T n d p rest 0 s he hsn']
      simp [expandProtocolF, e0]
  · simp only [hb, Bool.false_eq_true, if_false]
    rw [protoLoopF_eq S T n (normSteps steps) 0 s (some k) he ?_, e0]
    intro hk
    simp only [Option.some.injEq] at hk
    subst hk
    cases hh : s.segs <;> simp [hh] at hb ⊢

theorem protocolF_refines {σ} (S : Sys σ) {s : Sim σ} {a : Spec σ} (r : Rel s a) (steps : List PStep) (n k : Nat)
    (hwf : wfSteps steps = true) :
    (simulateProtocolF S s (makeProtocol steps) n k).2 = (Spec.protocolF S a steps n k).2 ∧
      Rel (simulateProtocolF S s (makeProtocol steps) n k).1 (Spec.protocolF S a steps n k).1 := by
  simp only [Spec.protocolF]
  by_cases hf : a.failed = true
  · simp [simulateProtocolF, hf, r.errors_pos hf, r]
  · have hf' : a.failed = false := by simpa using hf
    rw [simulateProtocolF_eq S s steps n k a.now hwf (errors_of_live r hf') r.reached]
    simp only [hf', Bool.false_eq_true, if_false, r.segs]
    exact runStop_refines S _ s a r

/-! ### the time-course form -/

theorem ptcLoopF_none {σ} (S : Sys σ) (full : List Rat) : ∀ (prot : Protocol) (T : Rat) (s : Sim σ),
    ptcLoopF S full none T s prot = ptcLoop S full T s prot
  | [], _, _ => rfl
  | (tEnd, p) :: rest, T, s => by
    simp only [ptcLoopF, ptcLoop, decFail]
    rcases updPars s p with ⟨s1, _ | e⟩
    · simp only [reduceCtorEq, if_false]
      rcases timeCourse S s1 (select full T tEnd) with ⟨s2, _ | e⟩
      · simp only
        split
        · rfl
        · exact ptcLoopF_none S full rest tEnd s2
      · rfl
    · rfl

theorem expandProtocolTCF_none (pts : List Rat) : ∀ (steps : List PStep) (T : Rat),
    expandProtocolTCF pts none T steps = expandProtocolTC pts T steps := by
  intro steps
  induction steps with
  | nil => intro T; rfl
  | cons st rest ih => intro T; obtain ⟨d, p⟩ := st; simp [expandProtocolTCF, expandProtocolTC, decFail, ih]

theorem ptcLoopF_failed {σ} (S : Sys σ) (pts idx : List Rat) (hnd : idx.Nodup) :
    ∀ (steps : List PStep) (T : Rat) (s : Sim σ) (pre : List Rat),
    s.errors > 0 → s.segs.isSome = true → steps.all (fun s => decide (0 < s.1)) = true →
    idx = pre ++ (cumRows T steps).map (·.1) → (∀ b ∈ pre, b ≤ T) →
    ptcLoopF S (outerJoin idx pts) none T s (cumRows T steps) = runStop S s (expandProtocolTCF pts none T steps)
  | [], _, _, _, _, _, _, _, _ => rfl
  | (d, p) :: rest, T, s, pre, he, hs, hpos, hidx, hpre => by
    have hpos' := hpos
    simp only [List.all_cons, Bool.and_eq_true, decide_eq_true_eq] at hpos'
    have hsel : select (outerJoin idx pts) T (T + d) = stepPoints pts T (T + d) := by
      apply select_outerJoin idx pts T (T + d) _ hnd (by grind)
      · intro b hb h1 h2
        rw [hidx] at hb
        simp only [cumRows, List.map_cons, List.mem_append, List.mem_cons] at hb
        rcases hb with h | h | h
        · have := hpre b h; grind
        · exact h
        · obtain ⟨r, hr, rfl⟩ := List.mem_map.mp h
          have := cumRows_gt (T + d) rest hpos'.2 r hr
          grind
      · rw [hidx]; simp [cumRows]
    simp only [cumRows, ptcLoopF, expandProtocolTCF, runStop, step, hsel, decFail, reduceCtorEq, if_false]
    have hu : (updPars s p).1.errors > 0 := he
    have hu2 : (updPars s p).1.segs.isSome = true := hs
    rcases hup : updPars s p with ⟨s1, _ | e⟩
    · rw [hup] at hu hu2
      simp only
      have htc : timeCourse S s1 (stepPoints pts T (T + d)) = (s1, none) := by simp [timeCourse, hu]
      rw [htc]
      have hnone : s1.segs.isNone = false := by cases hh : s1.segs <;> simp [hh] at hu2 ⊢
      simp only [hnone, Bool.false_eq_true, if_false]
      exact ptcLoopF_failed S pts idx hnd rest (T + d) s1 (pre ++ [T + d]) hu hu2 hpos'.2
        (by rw [hidx]; simp [cumRows])
        (by
          intro b hb
          rcases List.mem_append.mp hb with h | h
          · have := hpre b h; grind
          · simp at h; subst h; exact Rat.le_refl)
    · rfl

theorem ptcLoopF_eq {σ} (S : Sys σ) (pts idx : List Rat) (hnd : idx.Nodup) :
    ∀ (steps : List PStep) (T : Rat) (s : Sim σ) (pre : List Rat) (k : Option Nat),
    s.errors = 0 → (k = some 0 → s.segs.isSome = true) → steps.all (fun s => decide (0 < s.1)) = true →
    idx = pre ++ (cumRows T steps).map (·.1) → (∀ b ∈ pre, b ≤ T) →
    ptcLoopF S (outerJoin idx pts) k T s (cumRows T steps) = runStop S s (expandProtocolTCF pts k T steps)
  | [], _, _, _, _, _, _, _, _, _ => rfl
  | (d, p) :: rest, T, s, pre, none, he, _, hpos, hidx, hpre => by
    rw [ptcLoopF_none, expandProtocolTCF_none]
    exact ptcLoop_eq S pts idx hnd ((d, p) :: rest) T s pre he hpos hidx hpre
  | (d, p) :: rest, T, s, pre, some 0, he, hk, hpos, hidx, hpre => by
    have hs := hk rfl
    have hpos' := hpos
    simp only [List.all_cons, Bool.and_eq_true, decide_eq_true_eq] at hpos'
    have hsel : select (outerJoin idx pts) T (T + d) = stepPoints pts T (T + d) := by
      apply select_outerJoin idx pts T (T + d) _ hnd (by grind)
      · intro b hb h1 h2
        rw [hidx] at hb
        simp only [cumRows, List.map_cons, List.mem_append, List.mem_cons] at hb
        rcases hb with h | h | h
        · have := hpre b h; grind
        · exact h
        · obtain ⟨r, hr, rfl⟩ := List.mem_map.mp h
          have := cumRows_gt (T + d) rest hpos'.2 r hr
          grind
      · rw [hidx]; simp [cumRows]
    simp only [cumRows, ptcLoopF, expandProtocolTCF, runStop, step, hsel, decFail, if_true]
    have hu : (updPars s p).1.errors = 0 := he
    have hu2 : (updPars s p).1.segs.isSome = true := hs
    rcases hup : updPars s p with ⟨s1, _ | e⟩
    · rw [hup] at hu hu2
      simp only
      rw [timeCourseF_eq]
      rcases failInstead_cases s1 (timeCourse S s1 (stepPoints pts T (T + d))) hu with ⟨e, _, hfi⟩ | ⟨_, hfi⟩
      · rw [hfi]
      · rw [hfi]
        have hnone : s1.segs.isNone = false := by cases hh : s1.segs <;> simp [hh] at hu2 ⊢
        simp only [hnone, Bool.false_eq_true, if_false]
        exact ptcLoopF_failed S pts idx hnd rest (T + d) { s1 with errors := s1.errors + 1 } (pre ++ [T + d])
          (Nat.succ_pos _) hu2 hpos'.2
          (by rw [hidx]; simp [cumRows])
          (by
            intro b hb
            rcases List.mem_append.mp hb with h | h
            · have := hpre b h; grind
            · simp at h; subst h; exact Rat.le_refl)
    · rfl
  | (d, p) :: rest, T, s, pre, some (j + 1), he, _, hpos, hidx, hpre => by
    have hpos' := hpos
    simp only [List.all_cons, Bool.and_eq_true, decide_eq_true_eq] at hpos'
    have hsel : select (outerJoin idx pts) T (T + d) = stepPoints pts T (T + d) := by
      apply select_outerJoin idx pts T (T + d) _ hnd (by grind)
      · intro b hb h1 h2
        rw [hidx] at hb
        simp only [cumRows, List.map_cons, List.mem_append, List.mem_cons] at hb
        rcases hb with h | h | h
        · have := hpre b h; grind
        · exact h
        · obtain ⟨r, hr, rfl⟩ := List.mem_map.mp h
          have := cumRows_gt (T + d) rest hpos'.2 r hr
          grind
      · rw [hidx]; simp [cumRows]
    have hne : (some (j + 1) = some 0) = False := by simp
    simp only [cumRows, ptcLoopF, expandProtocolTCF, runStop, step, hsel, decFail, hne, if_false]
    have hu : (updPars s p).1.errors = 0 := he
    rcases hup : updPars s p with ⟨s1, _ | e⟩
    · rw [hup] at hu
      simp only
      have hs := timeCourse_ok S s1 (stepPoints pts T (T + d)) hu
      rcases htc : timeCourse S s1 (stepPoints pts T (T + d)) with ⟨s2, _ | e⟩
      · rw [htc] at hs
        have hsome : s2.segs.isNone = false := by
          have := hs.2 rfl
          cases hh : s2.segs <;> simp [hh] at this ⊢
        simp only [hsome, Bool.false_eq_true, if_false]
        exact ptcLoopF_eq S pts idx hnd rest (T + d) s2 (pre ++ [T + d]) (some j) hs.1 (fun _ => hs.2 rfl) hpos'.2
          (by rw [hidx]; simp [cumRows])
          (by
            intro b hb
            rcases List.mem_append.mp hb with h | h
            · have := hpre b h; grind
            · simp at h; subst h; exact Rat.le_refl)
      · rfl
    · rfl

theorem ptcLoopF_break {σ} (S : Sys σ) (pts idx : List Rat) (hnd : idx.Nodup) (d : Rat) (p : Upd)
    (rest : List PStep) (T : Rat) (s : Sim σ) (pre : List Rat) (he : s.errors = 0) (hs : s.segs = none)
    (hpos : ((d, p) :: rest).all (fun s => decide (0 < s.1)) = true)
    (hidx : idx = pre ++ (cumRows T ((d, p) :: rest)).map (·.1)) (hpre : ∀ b ∈ pre, b ≤ T) :
    ptcLoopF S (outerJoin idx pts) (some 0) T s (cumRows T ((d, p) :: rest)) =
      runStop S s [.updPars p, .timeCourseF (stepPoints pts T (T + d))] := by
    have hpos' := hpos
    simp only [List.all_cons, Bool.and_eq_true, decide_eq_true_eq] at hpos'
    have hsel : select (outerJoin idx pts) T (T + d) = stepPoints pts T (T + d) := by
      apply select_outerJoin idx pts T (T + d) _ hnd (by grind)
      · intro b hb h1 h2
        rw [hidx] at hb
        simp only [cumRows, List.map_cons, List.mem_append, List.mem_cons] at hb
        rcases hb with h | h | h
        · have := hpre b h; grind
        · exact h
        · obtain ⟨r, hr, rfl⟩ := List.mem_map.mp h
          have := cumRows_gt (T + d) rest hpos'.2 r hr
          grind
      · rw [hidx]; simp [cumRows]
    simp only [cumRows, ptcLoopF, runStop, step, hsel, if_true]
    have hu : (updPars s p).1.errors = 0 := he
    have hu2 : (updPars s p).1.segs = none := hs
    rcases hup : updPars s p with ⟨s1, _ | e⟩
    · rw [hup] at hu hu2
      simp only
      rw [timeCourseF_eq]
      rcases failInstead_cases s1 (timeCourse S s1 (stepPoints pts T (T + d))) hu with ⟨e, _, hfi⟩ | ⟨_, hfi⟩
      · rw [hfi]
      · rw [hfi]
        have hu3 : s1.segs = none := hu2
        simp only [hu3, Option.isNone_none, if_true]
    · rfl

theorem simulateProtocolTCF_eq {σ} (S : Sys σ) (s : Sim σ) (steps : List PStep) (pts : List Rat)
    (rel : Bool) (k : Nat) (T : Rat) (hwf : wfSteps steps = true) (he : s.errors = 0)
    (hT : reached? s.segs = .ok T) :
    simulateProtocolTCF S s (makeProtocol steps) pts rel k =
      (if steps.isEmpty then (s, some .typeError) else
       match (if rel then pts.map (· + T) else pts).getLast? with
       | none => (s, some .indexError)
       | some last =>
         if last ≤ T then (s, some .valueError) else
         runStop S s (if k == 0 && s.segs.isNone
           then (expandProtocolTCF (if rel then pts.map (· + T) else pts) (some k) T (normSteps steps)).take 2
           else expandProtocolTCF (if rel then pts.map (· + T) else pts) (some k) T (normSteps steps))) := by
  have hpos : (normSteps steps).all (fun s => decide (0 < s.1)) = true := normSteps_pos steps hwf
  unfold simulateProtocolTCF
  simp only [he, Nat.lt_irrefl, if_false, gt_iff_lt, hT, makeProtocol_wf steps hwf, gen_protocolTCRefusal,
    decide_eq_true_eq, cumRows_isEmpty, normSteps_isEmpty]
  split
  · rfl
  · rename_i hemp
    have hshift : (cumRows 0 (normSteps steps)).map (fun r => (r.1 + T, r.2)) = cumRows T (normSteps steps) := by
      rw [cumRows_shift]
      have : (0 : Rat) + T = T := by grind
      rw [this]
    rw [hshift]
    cases (if rel then pts.map (· + T) else pts).getLast? with
    | none => rfl
    | some last =>
      simp only
      split
      · rfl
      · have hemp' : (normSteps steps).isEmpty = false := by rw [normSteps_isEmpty]; simpa using hemp
        generalize normSteps steps = ns at hpos hemp'
        cases ns with
        | nil => simp at hemp'
        | cons st rest =>
          have hne : (cumRows T (st :: rest)).getLast? ≠ none := by
            obtain ⟨d, p⟩ := st
            simp [cumRows]
          have hnd := (cumRows_pairwise T (st :: rest) hpos).imp (R := (· < ·)) (S := (· ≠ ·)) (by intro a b hab; grind)
          cases hgl : (cumRows T (st :: rest)).getLast? with
          | none => exact absurd hgl hne
          | some r =>
            simp only
            by_cases hb : (k == 0 && s.segs.isNone) = true
            · simp only [hb, if_true]
              simp only [Bool.and_eq_true, beq_iff_eq] at hb
              obtain ⟨hk, hsn⟩ := hb
              subst hk
              have hsn' : s.segs = none := by cases hh : s.segs <;> simp [hh] at hsn ⊢
              obtain ⟨d, p⟩ := st
              rw [ptcLoopF_break S _ _ hnd d p rest T s [] he hsn' hpos (by simp) (by intro b hb; simp at hb)]
              simp [expandProtocolTCF]
            · simp only [hb, Bool.false_eq_true, if_false]
              refine ptcLoopF_eq S _ _ hnd (st :: rest) T s [] (some k) he ?_ hpos (by simp) (by intro b hb; simp at hb)
              intro hk
              simp only [Option.some.injEq] at hk
              subst hk
              cases hh : s.segs <;> simp [hh] at hb ⊢

theorem protocolTCF_refines {σ} (S : Sys σ) {s : Sim σ} {a : Spec σ} (r : Rel s a) (steps : List PStep)
    (pts : List Rat) (rel : Bool) (k : Nat) (hwf : wfSteps steps = true) :
    (simulateProtocolTCF S s (makeProtocol steps) pts rel k).2 = (Spec.protocolTCF S a steps pts rel k).2 ∧
      Rel (simulateProtocolTCF S s (makeProtocol steps) pts rel k).1 (Spec.protocolTCF S a steps pts rel k).1 := by
  simp only [Spec.protocolTCF]
  by_cases hf : a.failed = true
  · simp [simulateProtocolTCF, hf, r.errors_pos hf, r]
  · have hf' : a.failed = false := by simpa using hf
    rw [simulateProtocolTCF_eq S s steps pts rel k a.now hwf (errors_of_live r hf') r.reached]
    simp only [hf', Bool.false_eq_true, if_false, r.segs]
    split
    · exact ⟨rfl, r⟩
    · cases (if rel then pts.map (· + a.now) else pts).getLast? with
      | none => exact ⟨rfl, r⟩
      | some last =>
        simp only
        split
        · exact ⟨rfl, r⟩
        · exact runStop_refines S _ s a r

theorem stepP_refines {σ} (S : Sys σ) {s : Sim σ} {a : Spec σ} (r : Rel s a) (op : OpP)
    (hwf : wfOp op = true) :
    (stepP S s op).2 = (Spec.stepP S a op).2 ∧ Rel (stepP S s op).1 (Spec.stepP S a op).1 := by
  cases op with
  | basic op => exact step_refines S r op
  | protocol steps n =>
    simp only [stepP, Spec.stepP, Spec.protocol]
    by_cases hf : a.failed = true
    · simp [simulateProtocol, hf, r.errors_pos hf, r]
    · have hf' : a.failed = false := by simpa using hf
      rw [simulateProtocol_eq S s steps n a.now hwf (errors_of_live r hf') r.reached]
      simp only [hf', Bool.false_eq_true, if_false]
      exact runStop_refines S _ s a r
  | protocolTC steps pts rel =>
    simp only [stepP, Spec.stepP, Spec.protocolTC]
    by_cases hf : a.failed = true
    · simp [simulateProtocolTC, hf, r.errors_pos hf, r]
    · have hf' : a.failed = false := by simpa using hf
      rw [simulateProtocolTC_eq S s steps pts rel a.now hwf (errors_of_live r hf') r.reached]
      simp only [hf', Bool.false_eq_true, if_false]
      split
      · exact ⟨rfl, r⟩
      · cases (if rel then pts.map (· + a.now) else pts).getLast? with
        | none => exact ⟨rfl, r⟩
        | some last =>
          simp only
          split
          · exact ⟨rfl, r⟩
          · exact runStop_refines S _ s a r
  | protocolF steps n k => exact protocolF_refines S r steps n k hwf
  | protocolTCF steps pts rel k => exact protocolTCF_refines S r steps pts rel k hwf

theorem runP_refines {σ} (S : Sys σ) : ∀ (ops : List OpP) (s : Sim σ) (a : Spec σ),
    Rel s a → ops.all wfOp = true →
    (runP S s ops).2 = (Spec.runP S a ops).2 ∧ Rel (runP S s ops).1 (Spec.runP S a ops).1
  | [], _, _, r, _ => ⟨rfl, r⟩
  | op :: rest, s, a, r, hok => by
    simp only [List.all_cons, Bool.and_eq_true] at hok
    obtain ⟨he, hr⟩ := stepP_refines S r op hok.1
    obtain ⟨hes, hrs⟩ := runP_refines S rest _ _ hr hok.2
    simp only [runP, Spec.runP]
    exact ⟨by rw [he, hes], hrs⟩

/-! ### the axis of histories with protocols -/

theorem Spec.runStop_axis {σ} (S : Sys σ) : ∀ (ops : List Op) (a : Spec σ), Spec.Axis a →
    Spec.Axis (Spec.runStop S a ops).1
  | [], _, ax => ax
  | op :: rest, a, ax => by
    have h1 := Spec.step_axis S a op ax
    simp only [Spec.runStop]
    rcases hs : Spec.step S a op with ⟨a1, _ | e⟩
    · rw [hs] at h1
      exact Spec.runStop_axis S rest a1 h1
    · rw [hs] at h1
      exact h1

theorem Spec.stepP_axis {σ} (S : Sys σ) (a : Spec σ) (op : OpP) (ax : Spec.Axis a) :
    Spec.Axis (Spec.stepP S a op).1 := by
  cases op with
  | basic op => exact Spec.step_axis S a op ax
  | protocol steps n =>
    simp only [Spec.stepP, Spec.protocol]
    split
    · exact ax
    · exact Spec.runStop_axis S _ a ax
  | protocolTC steps pts rel =>
    simp only [Spec.stepP, Spec.protocolTC]
    split
    · exact ax
    · split
      · exact ax
      · cases (if rel then pts.map (· + a.now) else pts).getLast? with
        | none => exact ax
        | some last =>
          simp only
          split
          · exact ax
          · exact Spec.runStop_axis S _ a ax
  | protocolF steps n k =>
    simp only [Spec.stepP, Spec.protocolF]
    split
    · exact ax
    · exact Spec.runStop_axis S _ a ax
  | protocolTCF steps pts rel k =>
    simp only [Spec.stepP, Spec.protocolTCF]
    split
    · exact ax
    · split
      · exact ax
      · cases (if rel then pts.map (· + a.now) else pts).getLast? with
        | none => exact ax
        | some last =>
          simp only
          split
          · exact ax
          · exact Spec.runStop_axis S _ a ax

theorem Spec.runP_axis {σ} (S : Sys σ) : ∀ (ops : List OpP) (a : Spec σ), Spec.Axis a →
    Spec.Axis (Spec.runP S a ops).1
  | [], _, ax => ax
  | op :: rest, a, ax => Spec.runP_axis S rest _ (Spec.stepP_axis S a op ax)

end Mxl.C14
