/-
C14: histories with protocol calls refine the specification machine (protocol = explicit calls).
-/
import MxlVerif.Lemmas.C14
namespace Mxl.C14
open Mxl.C04

def simLike : Op → Bool
  | .updPars _ => true
  | .simulate _ _ => true
  | .timeCourse _ => true
  | _ => false

theorem expandProtocol_simLike (T : Rat) (n : Nat) (steps : List PStep) :
    (expandProtocol T n steps).all simLike = true := by
  induction steps generalizing T with
  | nil => rfl
  | cons s rest ih => obtain ⟨d, p⟩ := s; simp [expandProtocol, simLike, ih]

theorem expandProtocolTC_simLike (pts : List Rat) (T : Rat) (steps : List PStep) :
    (expandProtocolTC pts T steps).all simLike = true := by
  induction steps generalizing T with
  | nil => rfl
  | cons s rest ih => obtain ⟨d, p⟩ := s; simp [expandProtocolTC, simLike, ih]

theorem runStop_refines {σ} (S : Sys σ) : ∀ (ops : List Op) (s : Sim σ) (a : Spec σ),
    Rel s a →
    (runStop S s ops).2 = (Spec.runStop S a ops).2 ∧
      Rel (runStop S s ops).1 (Spec.runStop S a ops).1
  | [], _, _, r => ⟨rfl, r⟩
  | op :: rest, s, a, r => by
    obtain ⟨he, hr⟩ := step_refines S r op
    simp only [runStop, Spec.runStop]
    rcases hi : step S s op with ⟨s1, _ | e⟩
    · rcases hsp : Spec.step S a op with ⟨a1, _ | e'⟩
      · rw [hi, hsp] at hr
        simp only
        exact runStop_refines S rest s1 a1 hr
      · rw [hi, hsp] at he; cases he
    · rcases hsp : Spec.step S a op with ⟨a1, _ | e'⟩
      · rw [hi, hsp] at he; cases he
      · rw [hi, hsp] at he hr
        simp only at he
        cases he
        exact ⟨rfl, hr⟩

theorem errors_of_live {σ} {s : Sim σ} {a : Spec σ} (r : Rel s a) (hf : a.failed = false) :
    s.errors = 0 := by
  have := r.failed; rw [hf] at this
  simp only [gt_iff_lt, decide_eq_false_iff_not, Nat.not_lt, Nat.le_zero_eq] at this
  exact this

theorem stepP_refines {σ} (S : Sys σ) {s : Sim σ} {a : Spec σ} (r : Rel s a) (op : OpP)
    (hwf : wfOp op = true) :
    (stepP S s op).2 = (Spec.stepP S a op).2 ∧ Rel (stepP S s op).1 (Spec.stepP S a op).1 := by
  cases op with
  | basic op => exact step_refines S r op
  | protocol steps n =>
    simp only [stepP, Spec.stepP, Spec.protocol]
    by_cases hf : a.failed = true
    · simp [simulateProtocol, hf, r.errors_pos hf, r]
    · have hf' : a.failed = false := by simpa using hf
      rw [simulateProtocol_eq S s steps n a.now hwf (errors_of_live r hf') r.reached]
      simp only [hf', Bool.false_eq_true, if_false]
      exact runStop_refines S _ s a r
  | protocolTC steps pts rel =>
    simp only [stepP, Spec.stepP, Spec.protocolTC]
    by_cases hf : a.failed = true
    · simp [simulateProtocolTC, hf, r.errors_pos hf, r]
    · have hf' : a.failed = false := by simpa using hf
      rw [simulateProtocolTC_eq S s steps pts rel a.now hwf (errors_of_live r hf') r.reached]
      simp only [hf', Bool.false_eq_true, if_false]
      split
      · exact ⟨rfl, r⟩
      · cases (if rel then pts.map (· + a.now) else pts).getLast? with
        | none => exact ⟨rfl, r⟩
        | some last =>
          simp only
          split
          · exact ⟨rfl, r⟩
          · exact runStop_refines S _ s a r

theorem runP_refines {σ} (S : Sys σ) : ∀ (ops : List OpP) (s : Sim σ) (a : Spec σ),
    Rel s a → ops.all wfOp = true →
    (runP S s ops).2 = (Spec.runP S a ops).2 ∧ Rel (runP S s ops).1 (Spec.runP S a ops).1
  | [], _, _, r, _ => ⟨rfl, r⟩
  | op :: rest, s, a, r, hok => by
    simp only [List.all_cons, Bool.and_eq_true] at hok
    obtain ⟨he, hr⟩ := stepP_refines S r op hok.1
    obtain ⟨hes, hrs⟩ := runP_refines S rest _ _ hr hok.2
    simp only [runP, Spec.runP]
    exact ⟨by rw [he, hes], hrs⟩

/-! ### the axis of histories with protocols -/

theorem Spec.runStop_axis {σ} (S : Sys σ) : ∀ (ops : List Op) (a : Spec σ), Spec.Axis a →
    Spec.Axis (Spec.runStop S a ops).1
  | [], _, ax => ax
  | op :: rest, a, ax => by
    have h1 := Spec.step_axis S a op ax
    simp only [Spec.runStop]
    rcases hs : Spec.step S a op with ⟨a1, _ | e⟩
    · rw [hs] at h1
      exact Spec.runStop_axis S rest a1 h1
    · rw [hs] at h1
      exact h1

theorem Spec.stepP_axis {σ} (S : Sys σ) (a : Spec σ) (op : OpP) (ax : Spec.Axis a) :
    Spec.Axis (Spec.stepP S a op).1 := by
  cases op with
  | basic op => exact Spec.step_axis S a op ax
  | protocol steps n =>
    simp only [Spec.stepP, Spec.protocol]
    split
    · exact ax
    · exact Spec.runStop_axis S _ a ax
  | protocolTC steps pts rel =>
    simp only [Spec.stepP, Spec.protocolTC]
    split
    · exact ax
    · split
      · exact ax
      · cases (if rel then pts.map (· + a.now) else pts).getLast? with
        | none => exact ax
        | some last =>
          simp only
          split
          · exact ax
          · exact Spec.runStop_axis S _ a ax

theorem Spec.runP_axis {σ} (S : Sys σ) : ∀ (ops : List OpP) (a : Spec σ), Spec.Axis a →
    Spec.Axis (Spec.runP S a ops).1
  | [], _, ax => ax
  | op :: rest, a, ax => Spec.runP_axis S rest _ (Spec.stepP_axis S a op ax)

end Mxl.C14
