/-
C14: histories with protocol calls refine the specification machine (protocol = explicit calls).
-/
import MxlVerif.Lemmas.C14
namespace Mxl.C14
open Mxl.C04

def simLike : Op → Bool
  | .updPars _ => true
  | .simulate _ _ => true
  | .timeCourse _ => true
  | _ => false

theorem expandProtocol_simLike (T : Rat) (n : Nat) (steps : List PStep) :
    (expandProtocol T n steps).all simLike = true := by
  induction steps generalizing T with
  | nil => rfl
  | cons s rest ih => obtain ⟨d, p⟩ := s; simp [expandProtocol, simLike, ih]

theorem expandProtocolTC_simLike (pts : List Rat) (T : Rat) (steps : List PStep) :
    (expandProtocolTC pts T steps).all simLike = true := by
  induction steps generalizing T with
  | nil => rfl
  | cons s rest ih => obtain ⟨d, p⟩ := s; simp [expandProtocolTC, simLike, ih]

theorem runStop_refines {σ} (S : Sys σ) : ∀ (ops : List Op) (h : HSt) (s : Sim σ) (a : Spec σ),
    Rel h s a → h.simOK = true → ops.all simLike = true →
    (runStop S s ops).2 = (Spec.runStop S a ops).2 ∧
      ∃ h', h'.simOK = true ∧ Rel h' (runStop S s ops).1 (Spec.runStop S a ops).1
  | [], h, _, _, r, hs, _ => ⟨rfl, h, hs, r⟩
  | op :: rest, h, s, a, r, hs, hall => by
    simp only [List.all_cons, Bool.and_eq_true] at hall
    obtain ⟨h', hn, hs'⟩ : ∃ h', h.next op = some h' ∧ h'.simOK = true := by
      cases op with
      | updPars kvs => exact ⟨h, rfl, hs⟩
      | simulate t n => exact ⟨⟨false, true⟩, by simp [HSt.next, hs], rfl⟩
      | timeCourse pts => exact ⟨⟨false, true⟩, by simp [HSt.next, hs], rfl⟩
      | steady res => simp [simLike] at hall
      | updVars ov => simp [simLike] at hall
      | clear => simp [simLike] at hall
    obtain ⟨he, hr⟩ := step_refines S r op hn
    simp only [runStop, Spec.runStop]
    rcases hi : step S s op with ⟨s1, _ | e⟩
    · rcases hsp : Spec.step S a op with ⟨a1, _ | e'⟩
      · rw [hi, hsp] at hr
        simp only
        exact runStop_refines S rest h' s1 a1 hr hs' hall.2
      · rw [hi, hsp] at he; cases he
    · rcases hsp : Spec.step S a op with ⟨a1, _ | e'⟩
      · rw [hi, hsp] at he; cases he
      · rw [hi, hsp] at he hr
        simp only at he
        cases he
        exact ⟨rfl, h', hs', hr⟩

theorem errors_of_live {σ} {h : HSt} {s : Sim σ} {a : Spec σ} (r : Rel h s a) (hf : a.failed = false) :
    s.errors = 0 := by
  have := r.failed; rw [hf] at this
  simp only [gt_iff_lt, decide_eq_false_iff_not, Nat.not_lt, Nat.le_zero_eq] at this
  exact this

theorem stepP_refines {σ} (S : Sys σ) {h h' : HSt} {s : Sim σ} {a : Spec σ} (r : Rel h s a) (op : OpP)
    (hn : nextP h op = some h') :
    (stepP S s op).2 = (Spec.stepP S a op).2 ∧ Rel h' (stepP S s op).1 (Spec.stepP S a op).1 := by
  cases op with
  | basic op => exact step_refines S r op hn
  | protocol steps n =>
    simp only [nextP] at hn
    split at hn
    · rename_i hc
      cases hn
      simp only [Bool.and_eq_true] at hc
      have hw : Rel ⟨false, true⟩ s a := r.weaken (fun _ => hc.1) (fun x => by simp at x)
      simp only [stepP, Spec.stepP, Spec.protocol]
      by_cases hf : a.failed = true
      · simp [simulateProtocol, hf, r.errors_pos hf, hw]
      · have hf' : a.failed = false := by simpa using hf
        rw [simulateProtocol_eq S s steps n a.now hc.2 (errors_of_live r hf') r.reached]
        simp only [hf', Bool.false_eq_true, if_false]
        obtain ⟨he, h2, hs2, r2⟩ := runStop_refines S _ h s a r hc.1 (expandProtocol_simLike a.now n steps)
        exact ⟨he, r2.weaken (fun _ => hs2) (fun x => by simp at x)⟩
    · cases hn
  | protocolTC steps pts rel =>
    simp only [nextP] at hn
    split at hn
    · rename_i hc
      cases hn
      simp only [Bool.and_eq_true] at hc
      have hw : Rel ⟨false, true⟩ s a := r.weaken (fun _ => hc.1) (fun x => by simp at x)
      simp only [stepP, Spec.stepP, Spec.protocolTC]
      by_cases hf : a.failed = true
      · simp [simulateProtocolTC, hf, r.errors_pos hf, hw]
      · have hf' : a.failed = false := by simpa using hf
        rw [simulateProtocolTC_eq S s steps pts rel a.now hc.2 (errors_of_live r hf') r.reached]
        simp only [hf', Bool.false_eq_true, if_false]
        cases (if rel then pts.map (· + a.now) else pts).getLast? with
        | none => exact ⟨rfl, hw⟩
        | some last =>
          simp only
          split
          · exact ⟨rfl, hw⟩
          · split
            · exact ⟨rfl, hw⟩
            · obtain ⟨he, h2, hs2, r2⟩ :=
                runStop_refines S _ h s a r hc.1 (expandProtocolTC_simLike _ a.now steps)
              exact ⟨he, r2.weaken (fun _ => hs2) (fun x => by simp at x)⟩
    · cases hn

theorem runP_refines {σ} (S : Sys σ) : ∀ (ops : List OpP) (h : HSt) (s : Sim σ) (a : Spec σ),
    Rel h s a → okHistP h ops = true →
    (runP S s ops).2 = (Spec.runP S a ops).2 ∧ ∃ h', Rel h' (runP S s ops).1 (Spec.runP S a ops).1
  | [], h, _, _, r, _ => ⟨rfl, h, r⟩
  | op :: rest, h, s, a, r, hok => by
    simp only [okHistP] at hok
    cases hn : nextP h op with
    | none => simp [hn] at hok
    | some h' =>
      simp only [hn] at hok
      obtain ⟨he, hr⟩ := stepP_refines S r op hn
      obtain ⟨hes, hrs⟩ := runP_refines S rest h' _ _ hr hok
      simp only [runP, Spec.runP]
      exact ⟨by rw [he, hes], hrs⟩

/-! ### the axis of histories with protocols -/

def steadyPosP : OpP → Bool
  | .basic op => steadyPos op
  | _ => true

theorem simLike_steadyPos (ops : List Op) (h : ops.all simLike = true) : ops.all steadyPos = true := by
  induction ops with
  | nil => rfl
  | cons op rest ih =>
    simp only [List.all_cons, Bool.and_eq_true] at h ⊢
    refine ⟨?_, ih h.2⟩
    cases op <;> simp [simLike] at h <;> rfl

theorem Spec.runStop_axis {σ} (S : Sys σ) : ∀ (ops : List Op) (a : Spec σ), Spec.Axis a →
    ops.all steadyPos = true → Spec.Axis (Spec.runStop S a ops).1
  | [], _, ax, _ => ax
  | op :: rest, a, ax, h => by
    simp only [List.all_cons, Bool.and_eq_true] at h
    have h1 := Spec.step_axis S a op ax h.1
    simp only [Spec.runStop]
    rcases hs : Spec.step S a op with ⟨a1, _ | e⟩
    · rw [hs] at h1
      exact Spec.runStop_axis S rest a1 h1 h.2
    · rw [hs] at h1
      exact h1

theorem Spec.stepP_axis {σ} (S : Sys σ) (a : Spec σ) (op : OpP) (ax : Spec.Axis a)
    (hop : steadyPosP op = true) : Spec.Axis (Spec.stepP S a op).1 := by
  cases op with
  | basic op => exact Spec.step_axis S a op ax hop
  | protocol steps n =>
    simp only [Spec.stepP, Spec.protocol]
    split
    · exact ax
    · exact Spec.runStop_axis S _ a ax (simLike_steadyPos _ (expandProtocol_simLike a.now n steps))
  | protocolTC steps pts rel =>
    simp only [Spec.stepP, Spec.protocolTC]
    split
    · exact ax
    · cases (if rel then pts.map (· + a.now) else pts).getLast? with
      | none => exact ax
      | some last =>
        simp only
        split
        · exact ax
        · split
          · exact ax
          · exact Spec.runStop_axis S _ a ax (simLike_steadyPos _ (expandProtocolTC_simLike _ a.now steps))

theorem Spec.runP_axis {σ} (S : Sys σ) : ∀ (ops : List OpP) (a : Spec σ), Spec.Axis a →
    ops.all steadyPosP = true → Spec.Axis (Spec.runP S a ops).1
  | [], _, ax, _ => ax
  | op :: rest, a, ax, h => by
    simp only [List.all_cons, Bool.and_eq_true] at h
    exact Spec.runP_axis S rest _ (Spec.stepP_axis S a op ax h.1) h.2

theorem okHistP_steadyPos : ∀ (ops : List OpP) (h : HSt), okHistP h ops = true → ops.all steadyPosP = true
  | [], _, _ => rfl
  | op :: rest, h, hok => by
    simp only [okHistP] at hok
    cases hn : nextP h op with
    | none => simp [hn] at hok
    | some h' =>
      simp only [hn] at hok
      simp only [List.all_cons, Bool.and_eq_true]
      refine ⟨?_, okHistP_steadyPos rest h' hok⟩
      cases op with
      | basic o =>
        have := okHist_steadyPos [o] h (by simp only [okHist]; simp only [nextP] at hn; rw [hn])
        simpa [steadyPosP] using this
      | protocol _ _ => rfl
      | protocolTC _ _ _ => rfl

end Mxl.C14
