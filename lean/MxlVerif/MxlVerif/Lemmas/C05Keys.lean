/-
Helper lemmas for C05 (core Lean only): the product-of-sums collapse over an arbitrary type of
keys, and the numbering of repeated names (`the j-th mention of a compound`).  Used for reactions
in which a labelled compound takes part more than once (2 A → B with rate k·A·A).
-/
import MxlVerif.Lemmas.C05
namespace Mxl.C05

/-! ### keys: a block of label bits per key -/

/-- the block that belongs to key `a` when the keys `bs` carry the blocks `blocks` -/
def lookupBlock {κ} [DecidableEq κ] : List κ → List Label → κ → Option Label
  | s :: ss, b :: bl, a => if s = a then some b else lookupBlock ss bl a
  | _, _, _ => none

theorem lookupBlock_not_mem {κ} [DecidableEq κ] {bs : List κ} {bl : List Label} {a : κ}
    (h : a ∉ bs) : lookupBlock bs bl a = none := by
  induction bs generalizing bl with
  | nil => simp [lookupBlock]
  | cons s ss ih =>
    cases bl with
    | nil => simp [lookupBlock]
    | cons b bl =>
      simp only [List.mem_cons, not_or] at h
      simp only [lookupBlock]
      rw [if_neg (fun e => h.1 e.symm), ih h.2]

/-- a product in which exactly one factor depends on `u` is linear in that factor (any key type) -/
theorem prod_linear_once_key {κ} [DecidableEq κ] (args : List κ) (s : κ) (hc : args.count s = 1)
    (l : List Label) (x : Label → Rat) (K : κ → Rat) :
    sumMap l (fun u => listProd (args.map fun a => if a = s then x u else K a))
      = listProd (args.map fun a => if a = s then sumMap l x else K a) := by
  induction args with
  | nil => simp at hc
  | cons a as ih =>
    by_cases h : a = s
    · subst h
      have h0 : as.count a = 0 := by simpa using hc
      have hna : ∀ b ∈ as, b ≠ a := by
        intro b hb e; subst e
        exact absurd (List.count_pos_iff.mpr hb) (by omega)
      have e1 : ∀ v : Rat, (as.map fun b => if b = a then v else K b) = as.map K := by
        intro v; apply List.map_congr_left; intro b hb; simp [hna b hb]
      simp only [List.map_cons, listProd_cons, if_true, e1]
      rw [sumMap_mul_right]
    · have hc' : as.count s = 1 := by
        rw [List.count_cons] at hc; simpa [h] using hc
      simp only [List.map_cons, listProd_cons, if_neg h]
      rw [sumMap_mul_left, ih hc']

/-- **product-of-sums collapse over keys**: every key of `bs` (pairwise distinct) carries a block of
    `sz key` bits; a factor naming a key of `bs` reads `val key block`, any other factor is a
    constant.  If every key with a non-empty block is named by exactly one factor, summing the
    product over all blocks replaces each such factor by the sum of its values. -/
theorem collapse_keys {κ} [DecidableEq κ] (bs : List κ) (hnd : bs.Nodup) (sz : κ → Nat)
    (args : List κ) (val : κ → Label → Rat) (K : κ → Rat)
    (honce : ∀ k ∈ bs, sz k > 0 → args.count k = 1) :
    sumBlocks (bs.map sz) (fun blocks => listProd (args.map fun a =>
        match lookupBlock bs blocks a with
        | some u => val a u
        | none => K a))
      = listProd (args.map fun a =>
          if a ∈ bs then sumMap (patterns (sz a)) (val a) else K a) := by
  induction bs generalizing K with
  | nil => simp [sumBlocks, lookupBlock]
  | cons s ss ih =>
    simp only [List.nodup_cons] at hnd
    have honce' : ∀ k ∈ ss, sz k > 0 → args.count k = 1 :=
      fun k hk => honce k (List.mem_cons_of_mem _ hk)
    simp only [List.map_cons, sumBlocks]
    have step : ∀ u : Label,
        sumBlocks (ss.map sz) (fun rest => listProd (args.map fun a =>
            match lookupBlock (s :: ss) (u :: rest) a with
            | some v => val a v
            | none => K a))
          = listProd (args.map fun a =>
              if a = s then val s u else
                (if a ∈ ss then sumMap (patterns (sz a)) (val a) else K a)) := by
      intro u
      have e1 : (fun rest => listProd (args.map fun a =>
            match lookupBlock (s :: ss) (u :: rest) a with
            | some v => val a v
            | none => K a))
          = (fun rest => listProd (args.map fun a =>
              match lookupBlock ss rest a with
              | some v => val a v
              | none => (fun b => if b = s then val s u else K b) a)) := by
        funext rest
        congr 1
        apply List.map_congr_left
        intro a _
        simp only [lookupBlock]
        by_cases e : s = a
        · subst e
          simp [lookupBlock_not_mem hnd.1]
        · have e' : ¬ a = s := fun h => e h.symm
          simp only [e, if_false, e']
      rw [e1, ih hnd.2 (fun b => if b = s then val s u else K b) honce']
      congr 1
      apply List.map_congr_left
      intro a _
      by_cases e : a = s
      · subst e; simp [hnd.1]
      · simp [e]
    rw [sumMap_congr (fun u _ => step u)]
    by_cases hz : sz s = 0
    · rw [hz]
      simp only [patterns, sumMap_single]
      congr 1
      apply List.map_congr_left
      intro a _
      by_cases e : a = s
      · subst e; simp [hz, patterns, sumMap_single]
      · simp [e]
    · have hpos : sz s > 0 := Nat.pos_of_ne_zero hz
      rw [prod_linear_once_key args s (honce s List.mem_cons_self hpos)]
      congr 1
      apply List.map_congr_left
      intro a _
      by_cases e : a = s
      · subst e; simp
      · simp [e]

/-! ### numbering repeated names -/

/-- every name paired with the number of its earlier mentions (`seen` lists the names before) -/
def idxAux (seen : List Name) : List Name → List (Name × Nat)
  | [] => []
  | k :: rest => (k, seen.count k) :: idxAux (k :: seen) rest

theorem idxAux_map_fst (seen l : List Name) : (idxAux seen l).map (·.1) = l := by
  induction l generalizing seen with
  | nil => rfl
  | cons k rest ih => simp [idxAux, ih]

theorem idxAux_length (seen l : List Name) : (idxAux seen l).length = l.length := by
  have := congrArg List.length (idxAux_map_fst seen l)
  simpa using this

theorem mem_idxAux {seen l : List Name} {a : Name} {c : Nat} :
    (a, c) ∈ idxAux seen l ↔ seen.count a ≤ c ∧ c < seen.count a + l.count a := by
  induction l generalizing seen with
  | nil => simp [idxAux]
  | cons k rest ih =>
    simp only [idxAux, List.mem_cons, Prod.mk.injEq, ih, List.count_cons]
    by_cases e : k = a
    · subst e
      simp only [beq_self_eq_true, if_true]
      constructor
      · rintro (⟨_, rfl⟩ | h) <;> omega
      · intro h
        by_cases hc : c = seen.count k
        · exact Or.inl ⟨trivial, hc⟩
        · right; omega
    · have hb : (k == a) = false := by simpa using e
      have e' : ¬ a = k := fun h => e h.symm
      simp only [hb, e', false_and, false_or, Bool.false_eq_true, if_false, Nat.add_zero]

theorem idxAux_nodup (seen l : List Name) : (idxAux seen l).Nodup := by
  induction l generalizing seen with
  | nil => simp [idxAux]
  | cons k rest ih =>
    simp only [idxAux, List.nodup_cons]
    refine ⟨?_, ih _⟩
    intro h
    have := (mem_idxAux.mp h).1
    simp at this
    omega

theorem count_idxAux (seen l : List Name) (a : Name) (c : Nat) :
    (idxAux seen l).count (a, c) = if seen.count a ≤ c ∧ c < seen.count a + l.count a then 1 else 0 := by
  by_cases h : (a, c) ∈ idxAux seen l
  · rw [if_pos (mem_idxAux.mp h)]
    rw [(idxAux_nodup seen l).count, if_pos h]
  · rw [if_neg (fun hh => h (mem_idxAux.mpr hh))]
    exact List.count_eq_zero.mpr h

theorem count_one_of_nodup_mem {α} [DecidableEq α] {l : List α} (h : l.Nodup) {a : α} (ha : a ∈ l) :
    l.count a = 1 := by
  rw [h.count, if_pos ha]

/-- the blocks of the occurrences of `a`, in order -/
def occBlocks : List Name → List Label → Name → List Label
  | s :: ss, b :: bl, a => if s = a then b :: occBlocks ss bl a else occBlocks ss bl a
  | _, _, _ => []

theorem occBlocks_length_le (bs : List Name) (bl : List Label) (a : Name) :
    (occBlocks bs bl a).length ≤ bs.count a := by
  induction bs generalizing bl with
  | nil => simp [occBlocks]
  | cons s ss ih =>
    cases bl with
    | nil => simp [occBlocks]
    | cons b bl =>
      simp only [occBlocks, List.count_cons]
      have := ih bl
      by_cases e : s = a
      · subst e; simp; omega
      · have hb : (s == a) = false := by simpa using e
        simp [e, hb]; omega

theorem occBlocks_length (bs : List Name) (bl : List Label) (a : Name) (h : bl.length = bs.length) :
    (occBlocks bs bl a).length = bs.count a := by
  induction bs generalizing bl with
  | nil => simp [occBlocks]
  | cons s ss ih =>
    cases bl with
    | nil => simp at h
    | cons b bl =>
      simp only [List.length_cons, Nat.add_right_cancel_iff] at h
      simp only [occBlocks, List.count_cons]
      have := ih bl h
      by_cases e : s = a
      · subst e; simp; omega
      · have hb : (s == a) = false := by simpa using e
        simp [e, hb]; omega

theorem occBlocks_mem {bs : List Name} {bl : List Label} {a : Name} {u : Label}
    (h : u ∈ occBlocks bs bl a) : (a, u) ∈ bs.zip bl := by
  induction bs generalizing bl with
  | nil => simp [occBlocks] at h
  | cons s ss ih =>
    cases bl with
    | nil => simp [occBlocks] at h
    | cons b bl =>
      simp only [occBlocks] at h
      simp only [List.zip_cons_cons, List.mem_cons, Prod.mk.injEq]
      by_cases e : s = a
      · subst e
        simp only [if_true, List.mem_cons] at h
        rcases h with rfl | h
        · exact Or.inl ⟨rfl, rfl⟩
        · exact Or.inr (ih h)
      · rw [if_neg e] at h
        exact Or.inr (ih h)

/-- the block of the numbered occurrence `(a, c)` is the `(c − offset)`-th block of `a` -/
theorem lookupBlock_idxAux (seen bs : List Name) (bl : List Label) (a : Name) (c : Nat)
    (hc : seen.count a ≤ c) :
    lookupBlock (idxAux seen bs) bl (a, c) = (occBlocks bs bl a)[c - seen.count a]? := by
  induction bs generalizing seen bl with
  | nil => simp [idxAux, lookupBlock, occBlocks]
  | cons s ss ih =>
    cases bl with
    | nil => simp [idxAux, lookupBlock, occBlocks]
    | cons b bl =>
      simp only [idxAux, lookupBlock, occBlocks, Prod.mk.injEq]
      by_cases e : s = a
      · subst e
        by_cases hcc : seen.count s = c
        · subst hcc; simp
        · have hlt : seen.count s < c := by omega
          simp only [true_and, hcc, if_false, if_true]
          rw [ih (s :: seen) bl (by simp; omega)]
          simp only [List.count_cons_self]
          have : c - seen.count s = (c - (seen.count s + 1)) + 1 := by omega
          rw [this, List.getElem?_cons_succ]
      · have hb : (s == a) = false := by simpa using e
        simp only [e, false_and, if_false]
        rw [ih (s :: seen) bl (by simp [List.count_cons, hb]; exact hc)]
        simp [List.count_cons, hb]


/-! ### the rate arguments of an isotopomer reaction -/

theorem occurrencesOf_assign (bs : List Name) (bl : List Label) (k : Name) :
    occurrencesOf bs (assignLabels bs bl) k = (occBlocks bs bl k).map (assignLabel k) := by
  induction bs generalizing bl with
  | nil => simp [occurrencesOf, occBlocks]
  | cons s ss ih =>
    cases bl with
    | nil => simp [occurrencesOf, occBlocks, assignLabels]
    | cons b bl =>
      have := ih bl
      simp only [assignLabels] at this
      simp only [assignLabels, List.zipWith_cons_cons, occurrencesOf, occBlocks]
      by_cases e : s = k
      · subst e; simp [this]
      · simp [e, this]

/-- a name without label positions is only ever bound to itself in the products' dict -/
theorem productName_unlabelled (lv : List (Name × Nat)) (bp : List Name) (pl : List Label) (k : Name)
    (H2 : ∀ p ∈ bp.zip pl, p.2.length ≤ labelsOf lv p.1) (hk : labelsOf lv k = 0) :
    productName bp (assignLabels bp pl) k = plain k := by
  unfold productName
  have c1 := lookup_const_of_forall (bp.zip (assignLabels bp pl)).reverse k (plain k) (by
    intro q hq e
    rw [zip_assignLabels] at hq
    simp only [List.mem_reverse, List.mem_map] at hq
    obtain ⟨p, hp, rfl⟩ := hq
    simp only at e ⊢
    have := H2 p hp
    rw [e, hk] at this
    have hnil : p.2 = [] := List.eq_nil_of_length_eq_zero (by omega)
    rw [hnil, e]; simp [assignLabel, plain])
  rcases c1 with c1 | c1 <;> simp [c1]

/-- what a numbered mention reads: its own occurrence's isotopomer, else the plain name -/
def keyVal (σ : LName → Rat) (keys : List (Name × Nat)) (bl : List Label) (key : Name × Nat) : Rat :=
  match lookupBlock keys bl key with
  | some u => σ (assignLabel key.1 u)
  | none => σ (plain key.1)

theorem getD_mem_or_default {α} (l : List α) (i : Nat) (d : α) : l.getD i d = d ∨ l.getD i d ∈ l := by
  rw [List.getD_eq_getElem?_getD]
  cases h : l[i]? with
  | none => left; rfl
  | some x => right; exact List.mem_of_getElem? h

/-- the values the rewritten rate arguments read: the `c`-th mention of a compound reads the block of
    its `c`-th substrate occurrence (for a labelled compound mentioned no more often than it occurs),
    everything else reads its plain name -/
theorem replaceArgs_eval (lv : List (Name × Nat)) (bs bp : List Name) (bl pl : List Label)
    (σ : LName → Rat) (seen args : List Name)
    (hlen : bl.length = bs.length)
    (H1 : ∀ p ∈ bs.zip bl, p.2.length = labelsOf lv p.1)
    (H2 : ∀ p ∈ bp.zip pl, p.2.length ≤ labelsOf lv p.1)
    (H3 : ∀ a, labelsOf lv a > 0 → seen.count a + args.count a ≤ bs.count a) :
    (replaceArgs bs (assignLabels bs bl) bp (assignLabels bp pl) seen args).map σ
      = (idxAux seen args).map (keyVal σ (idxAux [] bs) bl) := by
  induction args generalizing seen with
  | nil => simp [replaceArgs, idxAux]
  | cons k rest ih =>
    simp only [replaceArgs, idxAux, List.map_cons]
    have htail := ih (k :: seen) (by
      intro a ha
      have := H3 a ha
      simp only [List.count_cons] at this ⊢
      omega)
    rw [htail]
    congr 1
    rw [occurrencesOf_assign]
    unfold keyVal
    rw [lookupBlock_idxAux [] bs bl k (seen.count k) (by simp)]
    simp only [List.count_nil, Nat.sub_zero]
    have hocc_len := occBlocks_length bs bl k hlen
    by_cases hl : labelsOf lv k = 0
    · have hplain : ∀ u ∈ occBlocks bs bl k, assignLabel k u = plain k := by
        intro u hu
        have := H1 _ (occBlocks_mem hu)
        simp only [hl] at this
        rw [List.eq_nil_of_length_eq_zero this]; simp [assignLabel, plain]
      cases hob : occBlocks bs bl k with
      | nil => simp [productName_unlabelled lv bp pl k H2 hl]
      | cons u0 us =>
        rw [hob] at hplain
        simp only [List.map_cons]
        have hall : ∀ n ∈ (assignLabel k u0 :: us.map (assignLabel k)), n = plain k := by
          intro n hn
          rcases List.mem_cons.mp hn with rfl | hn
          · exact hplain u0 List.mem_cons_self
          · obtain ⟨u, hu, rfl⟩ := List.mem_map.mp hn
            exact hplain u (List.mem_cons_of_mem _ hu)
        have hL : ((assignLabel k u0 :: us.map (assignLabel k)).getD
            (min (seen.count k) (us.map (assignLabel k)).length) (assignLabel k u0)) = plain k := by
          rcases getD_mem_or_default (assignLabel k u0 :: us.map (assignLabel k))
            (min (seen.count k) (us.map (assignLabel k)).length) (assignLabel k u0) with h | h
          · rw [h]; exact hplain u0 List.mem_cons_self
          · exact hall _ h
        rw [hL]
        cases hg : (u0 :: us)[seen.count k]? with
        | none => rfl
        | some u => simp only; rw [hplain u (List.mem_of_getElem? hg)]
    · have hpos : labelsOf lv k > 0 := Nat.pos_of_ne_zero hl
      have h3 := H3 k hpos
      simp only [List.count_cons_self] at h3
      cases hob : occBlocks bs bl k with
      | nil => rw [hob] at hocc_len; simp at hocc_len; omega
      | cons u0 us =>
        rw [hob] at hocc_len
        simp only [List.length_cons] at hocc_len
        have hc : seen.count k ≤ us.length := by omega
        simp only [List.map_cons, List.length_map, Nat.min_eq_left hc]
        have hlt : seen.count k < (u0 :: us).length := by simp; omega
        rw [List.getElem?_eq_getElem hlt]
        simp only
        rw [← List.map_cons, List.getD_eq_getElem?_getD, List.getElem?_map,
          List.getElem?_eq_getElem hlt]
        rfl

theorem idxAux_sz (lv : List (Name × Nat)) (bs : List Name) :
    (idxAux [] bs).map (fun key => labelsOf lv key.1) = labelsPer lv bs := by
  have := congrArg (List.map (labelsOf lv)) (idxAux_map_fst [] bs)
  simpa [labelsPer, List.map_map, Function.comp_def] using this

/-- rate of the reaction generated for pattern `w` (mass action), as a product over the numbered
    mentions -/
theorem rate_isoRxnOf_keys {lv : List (Name × Nat)} {r : BRxn} (hm : MassAction lv r)
    (σ : LName → Rat) (w ps : Label) (hw : w ∈ patterns (nSub lv r)) :
    (isoRxnOf r (subsOf r) (prodsOf r) (labelsPer lv (subsOf r)) (labelsPer lv (prodsOf r))
        (extOf lv r) w ps).rate σ
      = listProd ((idxAux [] r.args).map
          (keyVal σ (idxAux [] (subsOf r)) (splitLabel w (labelsPer lv (subsOf r))))) := by
  have hlen : w.length = nSub lv r := mem_patterns.mp hw
  simp only [LRxn.rate, isoRxnOf, hm.fn_prod]
  rw [splitLabel_append w _ _ (by rw [hlen]; exact Nat.le_refl _)]
  congr 1
  apply replaceArgs_eval lv
  · simp [splitLabel_length, labelsPer]
  · exact splitLabel_zip_eq (labelsOf lv) (subsOf r) w (by
      show (labelsPer lv (subsOf r)).sum ≤ _; rw [hlen]; exact Nat.le_refl _)
  · exact splitLabel_zip_le (labelsOf lv) (prodsOf r) ps
  · intro a ha
    have := hm.order a ha
    simp; omega

/-- **collapse** without any restriction on repeated compounds -/
theorem collapse_full {lv : List (Name × Nat)} {r : BRxn} {lm : List Nat} {rs : List LRxn}
    (hok : isotopomerReactions lv r lm = .ok rs) (hm : MassAction lv r) (σ : LName → Rat) :
    (rs.map (·.rate σ)).sum = r.rate (totalsEnv lv σ) := by
  obtain ⟨_, hfa⟩ := isotopomerReactions_ok hok
  rw [forall₂_map_sum (fun rx => rx.rate σ)
    (fun w => listProd ((idxAux [] r.args).map
      (keyVal σ (idxAux [] (subsOf r)) (splitLabel w (labelsPer lv (subsOf r)))))) hfa
    (by rintro w rx hw ⟨ps, _, rfl⟩; exact rate_isoRxnOf_keys hm σ w ps hw)]
  have hs := sum_split (labelsPer lv (subsOf r))
    (fun blocks => listProd ((idxAux [] r.args).map (keyVal σ (idxAux [] (subsOf r)) blocks)))
  simp only [sumMap, nSub] at hs ⊢
  rw [hs]
  have hck := collapse_keys (idxAux [] (subsOf r)) (idxAux_nodup [] _) (fun key => labelsOf lv key.1)
    (idxAux [] r.args) (fun key u => σ (assignLabel key.1 u)) (fun key => σ (plain key.1)) (by
      rintro ⟨a, c⟩ hmem hpos
      have hc := mem_idxAux.mp hmem
      have := hm.order a hpos
      exact count_one_of_nodup_mem (idxAux_nodup [] _) (mem_idxAux.mpr (by simp at hc ⊢; omega)))
  rw [idxAux_sz] at hck
  have hfun : (fun blocks => listProd ((idxAux [] r.args).map
        (keyVal σ (idxAux [] (subsOf r)) blocks)))
      = (fun blocks => listProd ((idxAux [] r.args).map fun a =>
          match lookupBlock (idxAux [] (subsOf r)) blocks a with
          | some u => σ (assignLabel a.1 u)
          | none => σ (plain a.1))) := by
    funext blocks; rfl
  rw [hfun, hck]
  simp only [BRxn.rate, hm.fn_prod]
  congr 1
  have hargs : r.args.map (totalsEnv lv σ)
      = (idxAux [] r.args).map (fun key => totalsEnv lv σ key.1) := by
    have := congrArg (List.map (totalsEnv lv σ)) (idxAux_map_fst [] r.args)
    simpa [List.map_map, Function.comp_def] using this.symm
  rw [hargs]
  apply List.map_congr_left
  rintro ⟨a, c⟩ hmem
  have hc := mem_idxAux.mp hmem
  simp only [totalsEnv]
  by_cases hl : labelsOf lv a > 0
  · have hcnt := hm.order a hl
    have hin : (a, c) ∈ idxAux [] (subsOf r) := mem_idxAux.mpr (by simp at hc ⊢; omega)
    rw [if_pos hin, if_pos hl, totalOf_pos _ _ hl]
    apply sumMap_congr
    intro u hu
    have : u ≠ [] := by
      have := mem_patterns.mp hu
      intro e; subst e; simp at this; omega
    simp [assignLabel, this]
  · have h0 : labelsOf lv a = 0 := by omega
    rw [if_neg hl]
    split
    · simp [h0, patterns, sumMap_single, assignLabel, plain]
    · rfl

/-! ### the special case of distinct labelled occurrences (used by C16) -/

theorem argOf_eq_head (bs : List Name) (bl : List Label) (a : Name)
    (h : ∀ p ∈ bs.zip bl, p.1 = a → p.2 ≠ []) :
    argOf bs bl a = match (occBlocks bs bl a)[0]? with
      | some b => ⟨a, some b⟩
      | none => plain a := by
  induction bs generalizing bl with
  | nil => simp [argOf, occBlocks]
  | cons s ss ih =>
    cases bl with
    | nil => simp [argOf, occBlocks]
    | cons b bl =>
      simp only [argOf, occBlocks]
      by_cases e : s = a
      · subst e
        have hb : b ≠ [] := h (s, b) (by simp) rfl
        simp [hb]
      · simp only [e, false_and, if_false]
        exact ih bl (fun p hp => h p (by simp [hp]))

/-- rate of the reaction generated for pattern `w`, when no labelled compound named by the rate law
    is repeated -/
theorem rate_isoRxnOf {lv : List (Name × Nat)} {r : BRxn} (hd : DistinctOccurrences lv r)
    (hm : MassAction lv r) (σ : LName → Rat) (w ps : Label) (hw : w ∈ patterns (nSub lv r)) :
    (isoRxnOf r (subsOf r) (prodsOf r) (labelsPer lv (subsOf r)) (labelsPer lv (prodsOf r))
        (extOf lv r) w ps).rate σ
      = listProd (r.args.map fun a =>
          σ (argOf (subsOf r) (splitLabel w (labelsPer lv (subsOf r))) a)) := by
  have hlen : w.length = nSub lv r := mem_patterns.mp hw
  rw [rate_isoRxnOf_keys hm σ w ps hw]
  congr 1
  have hargs : (r.args.map fun a => σ (argOf (subsOf r) (splitLabel w (labelsPer lv (subsOf r))) a))
      = (idxAux [] r.args).map (fun key =>
          σ (argOf (subsOf r) (splitLabel w (labelsPer lv (subsOf r))) key.1)) := by
    have := congrArg (List.map fun a => σ (argOf (subsOf r) (splitLabel w (labelsPer lv (subsOf r))) a))
      (idxAux_map_fst [] r.args)
    simpa [List.map_map, Function.comp_def] using this.symm
  rw [hargs]
  apply List.map_congr_left
  rintro ⟨a, c⟩ hmem
  have hc := mem_idxAux.mp hmem
  have hamem : a ∈ r.args := List.count_pos_iff.mp (by simp at hc; omega)
  have H1 := splitLabel_zip_eq (labelsOf lv) (subsOf r) w (by
      show (labelsPer lv (subsOf r)).sum ≤ _; rw [hlen]; exact Nat.le_refl _)
  unfold keyVal
  rw [lookupBlock_idxAux [] _ _ a c (by simp)]
  simp only [List.count_nil, Nat.sub_zero]
  by_cases hl : labelsOf lv a > 0
  · have h1 := distinct_spec hd hamem hl
    have h2 := hm.order a hl
    rw [List.count_append] at h1
    have hc0 : c = 0 := by simp at hc; omega
    subst hc0
    rw [argOf_eq_head _ _ a (by
      intro p hp e hnil
      have := H1 p hp
      rw [e, hnil] at this
      simp at this; omega)]
    cases hg : (occBlocks (subsOf r) (splitLabel w (labelsPer lv (subsOf r))) a)[0]? with
    | none => rfl
    | some u =>
      have hu := H1 _ (occBlocks_mem (List.mem_of_getElem? hg))
      have : u ≠ [] := by intro e; subst e; simp at hu; omega
      simp [assignLabel, this]
  · have h0 : labelsOf lv a = 0 := by omega
    rw [argOf_of_empty _ _ a (by
      intro p hp e
      have := H1 p hp
      rw [e, h0] at this
      exact List.eq_nil_of_length_eq_zero this)]
    cases hg : (occBlocks (subsOf r) (splitLabel w (labelsPer lv (subsOf r))) a)[c]? with
    | none => rfl
    | some u =>
      have hu := H1 _ (occBlocks_mem (List.mem_of_getElem? hg))
      simp only [h0] at hu
      simp only
      rw [List.eq_nil_of_length_eq_zero hu]; simp [assignLabel, plain]

theorem collapse_core {lv : List (Name × Nat)} {r : BRxn} {lm : List Nat} {rs : List LRxn}
    (hok : isotopomerReactions lv r lm = .ok rs)
    (_hd : DistinctOccurrences lv r) (hm : MassAction lv r) (σ : LName → Rat) :
    (rs.map (·.rate σ)).sum = r.rate (totalsEnv lv σ) :=
  collapse_full hok hm σ

/-! ### dynamics -/

theorem dynamics_full {lv : List (Name × Nat)} {r : BRxn} {lm : List Nat} {rs : List LRxn}
    (hok : isotopomerReactions lv r lm = .ok rs) (hwf : nProd lv r ≤ lm.length)
    (hm : MassAction lv r) (σ : LName → Rat) (x : Name) :
    ((binaryLabels x (labelsOf lv x)).map (rhsOf rs σ)).sum
      = (netStoich r.stoich x : Rat) * r.rate (totalsEnv lv σ) := by
  have hr : rhsOf rs σ = fun n => (rs.map fun rx => (coefOf rx.stoich n : Rat) * rx.rate σ).sum := by
    funext n; rfl
  rw [hr, sum_swap]
  have : ∀ rx ∈ rs, ((binaryLabels x (labelsOf lv x)).map fun n =>
      ((coefOf rx.stoich n : Int) : Rat) * rx.rate σ).sum
        = (netStoich r.stoich x : Rat) * rx.rate σ := by
    intro rx hrx
    rw [sum_map_mul_right, ← unit_stoich_mem hok hwf rx hrx x, intCast_sum, List.map_map]
    rfl
  rw [List.map_congr_left this, sum_map_mul_left, collapse_full hok hm σ]

theorem group_dynamics {lv : List (Name × Nat)} {maps : List (Name × List Nat)} {r : BRxn}
    {grp : List LRxn} (hg : buildRxn lv maps r = .ok grp) (hr : RxnOk lv maps r)
    (σ : LName → Rat)
    (hσ : ∀ k n, lv.lookup k = some n → σ (plain (k ++ "__total")) = totalOf σ k n) (x : Name) :
    ((binaryLabels x (labelsOf lv x)).map (rhsOf grp σ)).sum
      = (netStoich r.stoich x : Rat) * r.rate (fun a => σ (totalName lv a)) := by
  have henv : totalsEnv lv σ = fun a => σ (totalName lv a) :=
    funext (totalsEnv_eq_totalName lv σ hσ)
  unfold buildRxn at hg
  unfold RxnOk at hr
  cases hl : maps.lookup r.name with
  | some lm =>
    rw [hl] at hg hr
    simp only at hg hr
    rw [dynamics_full hg hr.1 hr.2 σ x, henv]
  | none =>
    rw [hl] at hg hr
    simp only [pure, Except.pure, Except.ok.injEq] at hg hr
    subst hg
    have hrate : rhsOf [unmappedRxn lv r] σ
        = fun n => ((coefOf (r.stoich.map fun kv => (plain kv.1, kv.2)) n : Int) : Rat)
            * r.rate (fun a => σ (totalName lv a)) := by
      funext n
      simp [rhsOf, unmappedRxn, LRxn.rate, BRxn.rate, List.map_map, Function.comp_def, Rat.add_zero]
    rw [hrate]
    rw [sum_map_mul_right]
    congr 1
    cases hx : lv.lookup x with
    | some n =>
      have hz : netStoich r.stoich x = 0 := by
        apply netStoich_zero_of_not_mem
        intro kv hkv e
        have := hr.1 kv hkv
        rw [e, hx] at this; cases this
      rw [hz]
      have : ∀ n' ∈ binaryLabels x (labelsOf lv x),
          ((coefOf (r.stoich.map fun kv => (plain kv.1, kv.2)) n' : Int) : Rat) = 0 := by
        intro n' hn'
        unfold binaryLabels at hn'
        split at hn'
        · obtain ⟨w, _, rfl⟩ := List.mem_map.mp hn'
          simp [coefOf, lookup_map_plain_some]
        · simp only [List.mem_singleton] at hn'
          subst hn'
          have hnone : r.stoich.lookup x = none := by
            apply lookup_none_of_forall
            intro p hp e
            have := hr.1 p hp
            rw [e, hx] at this; cases this
          have := lookup_map_plain r.stoich x
          show (((coefOf (r.stoich.map fun kv => (plain kv.1, kv.2)) (plain x) : Int)) : Rat) = 0
          simp [coefOf, this, hnone]
      rw [List.map_congr_left this, sum_map_zero]; simp
    | none =>
      rw [binaryLabels_labelsOf lv x hx]
      simp only [List.map_cons, List.map_nil, List.sum_cons, List.sum_nil, Rat.add_zero]
      rw [netStoich_eq_lookup _ _ hr.2]
      simp [coefOf, lookup_map_plain]



end Mxl.C05
