/-
C07: the equivalence for contents whose variables and parameters may be defined by initial assignments.
Core Lean only.
-/
import MxlVerif.Lemmas.C07GenV
namespace Mxl.C07
open Mxl

structure EnvCtxV (c : Content) (names : List Name) (xs : List Rat) (P : List (Name × Rat)) : Prop where
  nm : Names c
  names_eq : names = omKeys c.vars
  len : names.length = xs.length
  pmem : ∀ a, a ∈ P.map (·.1) ↔ a ∈ omKeys c.pars
  pnd : (P.map (·.1)).Nodup

theorem envRV_lookup_par {c names xs P} (h : EnvCtxV c names xs P) (t : Rat) {a : Name}
    (ha : a ∈ omKeys c.pars) : (envR P names xs t).lookup a = P.lookup a := by
  unfold envR
  rw [lookup_append_left (by rw [keys_reverse]; exact (h.pmem a).mpr ha),
    lookup_reverse_nodup _ _ h.pnd]

theorem envRV_lookup_notpar {c names xs P} (h : EnvCtxV c names xs P) (t : Rat) {a : Name}
    (ha : a ∉ omKeys c.pars) :
    (envR P names xs t).lookup a = ((names.zip xs).reverse ++ [("time", t)]).lookup a := by
  unfold envR
  rw [lookup_append_right (by rw [keys_reverse]; exact fun hm => ha ((h.pmem a).mp hm))]

theorem envRV_lookup_none {c names xs P} (h : EnvCtxV c names xs P) (t : Rat) {a : Name}
    (hp : a ∉ omKeys c.pars) (hv : a ∉ omKeys c.vars) (ht : a ≠ "time") :
    (envR P names xs t).lookup a = none := by
  rw [envRV_lookup_notpar h t hp,
    lookup_append_right (by rw [keys_reverse, keys_zip h.len, h.names_eq]; exact hv)]
  simp [lookup_cons_eq, ht]

/-- the constants the generator writes: keys and values -/
theorem emitted_facts {c : Content} (hok : OkV c) {order : List Name} {apn' : List Name}
    {extra : List (Name × Rat)} {dependent : Env}
    (hond : order.Nodup) (homem : ∀ k, k ∈ order ↔ IsElem c k)
    (hap0 : ∀ a, a ∈ omKeys c.pars → a ∈ apn')
    (hap1 : ∀ a, a ∈ apn' → a ∈ omKeys c.pars ∨ (a ∈ order ∧ a ∉ omKeys c.vars ∧ a ∉ omKeys c.pars))
    (hap2 : ∀ k ∈ order, k ∈ apn' → k ∈ omKeys c.pars ∨ (k ∉ omKeys c.rxns ∧ k ∉ omKeys c.vars ∧
            ∃ d, c.derived.lookup k = some d ∧ ∀ a ∈ d.args, a ∈ apn'))
    (hexk : extra.map (·.1) = order.filter fun k => apn'.contains k)
    (hexl : ∀ a, a ∈ (order.filter fun k => apn'.contains k) → extra.lookup a = dependent.lookup a) :
    (((omUnion (plainOf c.pars) extra).filter fun kv => !(omKeys c.derived).contains kv.1).map (·.1)).Nodup
    ∧ (∀ a, a ∈ ((omUnion (plainOf c.pars) extra).filter fun kv => !(omKeys c.derived).contains kv.1).map (·.1)
        ↔ a ∈ omKeys c.pars)
    ∧ (∀ a, a ∉ omKeys c.derived →
        ((omUnion (plainOf c.pars) extra).filter fun kv => !(omKeys c.derived).contains kv.1).lookup a
          = (omUnion (plainOf c.pars) extra).lookup a)
    ∧ (∀ a, a ∈ omKeys c.derived →
        ((omUnion (plainOf c.pars) extra).filter fun kv => !(omKeys c.derived).contains kv.1).lookup a = none)
    ∧ (∀ a, a ∈ (plainOf c.pars).map (·.1) →
        (omUnion (plainOf c.pars) extra).lookup a = (plainOf c.pars).lookup a)
    ∧ (∀ a, a ∈ order → a ∈ omKeys c.pars →
        a ∉ (plainOf c.pars).map (·.1) ∧ (omUnion (plainOf c.pars) extra).lookup a = dependent.lookup a) := by
  have hn := hok.names
  obtain ⟨hkinds, _⟩ := order_kinds hok homem
  have hplNd : ((plainOf c.pars).map (·.1)).Nodup := keys_plainOf_nodup _ hn.pNd
  have hU := keys_omUnion_nodup extra (plainOf c.pars) hplNd
  have hexNd : (extra.map (·.1)).Nodup := by rw [hexk]; exact hond.sublist List.filter_sublist
  have hex_keys : ∀ a, a ∈ extra.map (·.1) ↔ (a ∈ order ∧ a ∈ apn') := by
    intro a; rw [hexk, List.mem_filter]; simp
  -- a parameter that the sort places is defined by an initial assignment
  have hpar_ia : ∀ a, a ∈ order → a ∈ omKeys c.pars → a ∈ (iaOf c.pars).map (·.1) := by
    intro a hao hap
    rcases (homem a).mp hao with h | h | h | h
    · exact absurd hap (hn.vp a (keys_iaOf_sub _ _ h))
    · exact h
    · exact absurd h (hn.pd a hap)
    · exact absurd h (hn.pr a hap)
  have h5 : ∀ a, a ∈ (plainOf c.pars).map (·.1) →
      (omUnion (plainOf c.pars) extra).lookup a = (plainOf c.pars).lookup a := by
    intro a hpl
    rw [lookup_omUnion _ _ _ hexNd]
    have hap := keys_plainOf_sub _ _ hpl
    have : extra.lookup a = none := by
      apply lookup_none_of_not_mem
      intro hm
      obtain ⟨hao, _⟩ := (hex_keys a).mp hm
      exact plain_ia_disjoint c.pars a hn.pNd hpl (hpar_ia a hao hap)
    rw [this]
  have h6 : ∀ a, a ∈ order → a ∈ omKeys c.pars →
      a ∉ (plainOf c.pars).map (·.1) ∧ (omUnion (plainOf c.pars) extra).lookup a = dependent.lookup a := by
    intro a hao hap
    have hia := hpar_ia a hao hap
    have hnpl : a ∉ (plainOf c.pars).map (·.1) := fun h => plain_ia_disjoint c.pars a hn.pNd h hia
    refine ⟨hnpl, ?_⟩
    rw [lookup_omUnion _ _ _ hexNd, hexl a (List.mem_filter.mpr ⟨hao, by simpa using hap0 a hap⟩)]
    cases dependent.lookup a with
    | some v => rfl
    | none => exact lookup_none_of_not_mem hnpl
  generalize omUnion (plainOf c.pars) extra = U at hU h5 h6 ⊢
  have hPl : ∀ a, (U.filter fun kv => !(omKeys c.derived).contains kv.1).lookup a
      = if !(omKeys c.derived).contains a then U.lookup a else none :=
    lookup_filter_key (fun a => !(omKeys c.derived).contains a) U
  have hPk : (U.filter fun kv => !(omKeys c.derived).contains kv.1).map (·.1)
      = (U.map (·.1)).filter fun a => !(omKeys c.derived).contains a :=
    keys_filter_key (fun a => !(omKeys c.derived).contains a) U
  generalize (U.filter fun kv => !(omKeys c.derived).contains kv.1) = P at hPl hPk ⊢
  refine ⟨?_, ?_, ?_, ?_, ?_, ?_⟩
  · rw [hPk]; exact hU.1.sublist List.filter_sublist
  · intro a
    rw [hPk, List.mem_filter, hU.2 a]
    constructor
    · rintro ⟨h | h, hnd⟩
      · exact keys_plainOf_sub _ _ h
      · have hnd' : a ∉ omKeys c.derived := by simpa using hnd
        obtain ⟨hao, haa⟩ := (hex_keys a).mp h
        rcases hap2 a hao haa with hp | ⟨hnr, _, _⟩
        · exact hp
        · rcases hkinds a hao with hv | hp | ⟨_, _, hd | hr⟩
          · rcases hap1 a haa with hp | ⟨_, hnv, _⟩
            · exact hp
            · exact absurd hv hnv
          · exact hp
          · exact absurd hd hnd'
          · exact absurd hr hnr
    · intro hap
      refine ⟨?_, by simpa using hn.pd a hap⟩
      rcases keys_split c.pars a hap with h | h
      · exact Or.inl h
      · exact Or.inr ((hex_keys a).mpr ⟨(homem a).mpr (Or.inr (Or.inl h)), hap0 a hap⟩)
  · intro a hnd
    rw [hPl]
    have : (omKeys c.derived).contains a = false := by simpa using hnd
    simp only [this, Bool.not_false, if_true]
  · intro a hd
    rw [hPl]
    have : (omKeys c.derived).contains a = true := by simpa using hd
    simp only [this, Bool.not_true, Bool.false_eq_true, if_false]
  · exact h5
  · exact h6

theorem equiv_mainV (c : Content) (L : Lang) (t : Rat) (xs : List Rat)
    (hL : L ≠ .jl) (hok : OkV c) (hxs : xs.length = c.vars.length) :
    genRun [] c L [] t xs [] = callRhs c t xs := by
  cases hcc : createCache c with
  | error e => simp [genRun, genModel, callRhs, hcc, bind, Except.bind]
  | ok cache =>
    obtain ⟨order, dependent, st, dy, apn, stoich, dst, init, extra, hsort, hE0, hcl, hadd, hinit, hextra,
      hcache⟩ := createCache_ok hcc
    have hn := hok.names
    have hVsub : ∀ a ∈ (plainOf c.vars).map (·.1), a ∈ omKeys c.vars := keys_plainOf_sub c.vars
    have hlen : (omKeys c.vars).length = xs.length := by simp [omKeys, hxs]
    obtain ⟨hond, homem⟩ := order_factsV hok hsort
    have hokind : ∀ k ∈ order, IsElem c k := fun k hk => (homem k).mp hk
    obtain ⟨hord_cases, hord_nt⟩ := order_kinds hok homem
    -- the emitted definitions: the order without the variables and the parameters
    have hdefs_eq := defsOf_eq_filter hok order
    have hdE : (defsE c order).map (·.1) = order := (mapM_defOfE hok hokind).2
    have hfixed : ∀ k, isFixed c k = true ↔ (k ∈ omKeys c.vars ∨ k ∈ omKeys c.pars) := by
      intro k; simp [isFixed]
    have hdk_sub : ∀ kf ∈ defsOf c order, kf.1 ∈ order ∧ kf.1 ∉ omKeys c.vars ∧ kf.1 ∉ omKeys c.pars := by
      intro kf hkf
      rw [hdefs_eq] at hkf
      obtain ⟨h1, h2⟩ := List.mem_filter.mp hkf
      have h2' : ¬ (kf.1 ∈ omKeys c.vars ∨ kf.1 ∈ omKeys c.pars) := by
        rw [← hfixed]; simpa using h2
      refine ⟨?_, fun h => h2' (Or.inl h), fun h => h2' (Or.inr h)⟩
      rw [← hdE]; exact List.mem_map_of_mem (f := (·.1)) h1
    have hdk_nd : ((defsOf c order).map (·.1)).Nodup := by
      rw [hdefs_eq]
      have hndE : ((defsE c order).map (·.1)).Nodup := by rw [hdE]; exact hond
      exact hndE.sublist (List.Sublist.map _ List.filter_sublist)
    have hdk_mem : ∀ k ∈ order, k ∉ omKeys c.vars → k ∉ omKeys c.pars → k ∈ (defsOf c order).map (·.1) := by
      intro k hk hv hp
      have : k ∈ (defsE c order).map (·.1) := by rw [hdE]; exact hk
      obtain ⟨kf, hkf, hke⟩ := List.mem_map.mp this
      rw [hdefs_eq]
      refine List.mem_map.mpr ⟨kf, List.mem_filter.mpr ⟨hkf, ?_⟩, hke⟩
      have : ¬ isFixed c kf.1 = true := by rw [hfixed, hke]; exact fun h => h.elim hv hp
      simpa using this
    -- the time-zero pass as sequential evaluation
    rw [evalInOrder_defsE hok hokind, hok.data] at hE0
    -- classification
    obtain ⟨apn', hcls, hap0, hap1, hap2⟩ := classify_order hok hond homem
    rw [hcls] at hcl
    simp only [Prod.mk.injEq] at hcl
    obtain ⟨hst, hdy, hapn⟩ := hcl
    subst hapn
    have hapn_nv : ∀ a ∈ apn', a ∉ omKeys c.vars := by
      intro a ha hv
      rcases hap1 a ha with h | h
      · exact hn.vp a hv h
      · exact h.2.1 hv
    -- static values the cache keeps: the static names that are no variables
    have hstf : (st.filter fun k => !(omKeys c.vars).contains k) = order.filter fun k => apn'.contains k := by
      rw [← hst, List.filter_filter]
      apply List.filter_congr
      intro k _
      by_cases hv : k ∈ omKeys c.vars
      · have hna : k ∉ apn' := fun h => hapn_nv k h hv
        simp [hv, hna]
      · simp [hv]
    rw [hstf] at hextra
    obtain ⟨hexk, hexl⟩ := mapM_getPairs hextra
    obtain ⟨hinitk, _⟩ := mapM_getPairs hinit
    -- the constants
    have hP : emittedPars c cache
        = (omUnion (plainOf c.pars) extra).filter fun kv => !(omKeys c.derived).contains kv.1 := by
      rw [hcache]; rfl
    obtain ⟨hPnd, hPmem, hP_nd, hP_d, hU_plain, hU_ia⟩ :=
      emitted_facts hok hond homem hap0 hap1 hap2 hexk hexl
    generalize hPdef : ((omUnion (plainOf c.pars) extra).filter fun kv => !(omKeys c.derived).contains kv.1) = P
      at hP hPnd hPmem hP_nd hP_d
    have hctx : EnvCtxV c (omKeys c.vars) xs P := ⟨hn, rfl, hlen, hPmem, hPnd⟩
    -- ===== the run environment succeeds on the emitted definitions
    have hkeysB : ∀ a, (∃ v, (baseEnv (plainOf c.pars) (plainOf c.vars) [] 0).lookup a = some v) →
        ∃ w, (envR P (omKeys c.vars) xs t).lookup a = some w := by
      intro a ⟨v, hv⟩
      rw [lookup_isSome_iff]
      have hm := lookup_some_mem_keys hv
      simp only [baseEnv, List.reverse_nil, List.nil_append, List.map_cons, List.map_append, List.mem_cons,
        List.mem_append, List.map_reverse, List.mem_reverse] at hm
      simp only [envR, List.map_append, List.map_reverse, List.mem_append, List.mem_reverse,
        keys_zip hlen, List.map_cons, List.map_nil, List.mem_singleton]
      rcases hm with h | h | h
      · exact Or.inr (Or.inr h)
      · exact Or.inr (Or.inl (hVsub a h))
      · exact Or.inl ((hPmem a).mpr (keys_plainOf_sub _ _ h))
    obtain ⟨erun, herun'⟩ := evalSeq_ok_filter (fun k => !isFixed c k) hE0 hkeysB (by
      intro kf hkf hkeep
      have hv : kf.1 ∈ omKeys c.vars ∨ kf.1 ∈ omKeys c.pars := by
        rw [← hfixed]; simpa using hkeep
      rw [lookup_isSome_iff]
      simp only [envR, List.map_append, List.map_reverse, List.mem_append, List.mem_reverse, keys_zip hlen]
      rcases hv with hv | hv
      · exact Or.inr (Or.inl hv)
      · exact Or.inl ((hPmem _).mpr hv))
    have herun : evalSeq (defsOf c order) (envR P (omKeys c.vars) xs t) = .ok erun := by
      rw [hdefs_eq]; exact herun'
    -- ===== static names agree between the run and the time-zero pass
    have hbase_par : ∀ a, a ∈ omKeys c.pars →
        (baseEnv (plainOf c.pars) (plainOf c.vars) [] 0).lookup a = (plainOf c.pars).lookup a := by
      intro a hp
      have hat : a ≠ "time" := fun h => hn.time_p (h ▸ hp)
      have havp : a ∉ (plainOf c.vars).map (·.1) := fun h => hn.vp a (hVsub a h) hp
      simp only [baseEnv, List.reverse_nil, List.nil_append, lookup_cons_eq, hat, if_false]
      rw [lookup_append_right (by rw [keys_reverse]; exact havp),
        lookup_reverse_nodup _ _ (keys_plainOf_nodup _ hn.pNd)]
    have hstatic : ∀ a, a ∈ apn' → erun.lookup a = dependent.lookup a := by
      intro a ha
      refine (evalSeq_agree_closed_filter2 (fun a => a ∈ apn') (fun k => !isFixed c k) dependent
        (by rw [hdE]; exact hond) hE0 herun' ?_ ?_ ?_ a ha).symm
      · -- kept static definitions read static names
        intro kf hkf hka hkeep
        have hko : kf.1 ∈ order := by rw [← hdE]; exact List.mem_map_of_mem (f := (·.1)) hkf
        have hnf : ¬ (kf.1 ∈ omKeys c.vars ∨ kf.1 ∈ omKeys c.pars) := by
          rw [← hfixed]; simpa using hkeep
        rcases hap2 kf.1 hko hka with hp | ⟨hnr, hnv, d, hd, hargs⟩
        · exact absurd (Or.inr hp) hnf
        · simp only [defsE, List.mem_filterMap] at hkf
          obtain ⟨k, _, hm⟩ := hkf
          cases hde : defOfE c k with
          | none => simp [hde] at hm
          | some f =>
            simp [hde] at hm; subst hm
            have : defOfE c k = some d := by
              simp [defOfE, lookup_none_of_not_mem hnr, hd]
            rw [this] at hde
            simp only [Option.some.injEq] at hde
            intro a ha
            exact hargs a (hde ▸ ha)
      · -- a dropped static name is a parameter defined by an initial assignment
        intro kf hkf hka hdrop
        have hko : kf.1 ∈ order := by rw [← hdE]; exact List.mem_map_of_mem (f := (·.1)) hkf
        have hf : kf.1 ∈ omKeys c.vars ∨ kf.1 ∈ omKeys c.pars := by
          rw [← hfixed]; simpa using hdrop
        have hp : kf.1 ∈ omKeys c.pars := hf.resolve_left (hapn_nv _ hka)
        obtain ⟨hnpl, hUd⟩ := hU_ia kf.1 hko hp
        refine ⟨?_, ?_⟩
        · rw [hbase_par _ hp]; exact lookup_none_of_not_mem hnpl
        · rw [envRV_lookup_par hctx t hp, hP_nd _ (hn.pd _ hp), hUd]
      · -- the other static names: plain parameters, or defined by a kept definition
        intro a ha hnot
        rcases hap1 a ha with hp | ⟨hao, hav, hanp⟩
        · rw [envRV_lookup_par hctx t hp, hP_nd _ (hn.pd _ hp), hbase_par _ hp]
          rcases keys_split c.pars a hp with hpl | hia
          · rw [hU_plain a hpl]
          · exfalso
            have hao : a ∈ order := (homem a).mpr (Or.inr (Or.inl hia))
            have : a ∈ (defsE c order).map (·.1) := by rw [hdE]; exact hao
            obtain ⟨kf, hkf, hke⟩ := List.mem_map.mp this
            refine hnot kf hkf ?_ hke
            have : isFixed c kf.1 = true := by rw [hfixed, hke]; exact Or.inr hp
            simp [this]
        · have havp : a ∉ (plainOf c.vars).map (·.1) := fun h => hav (hVsub a h)
          rw [envRV_lookup_none hctx t hanp hav (hord_nt a hao)]
          simp only [baseEnv, List.reverse_nil, List.nil_append, lookup_cons_eq, hord_nt a hao, if_false]
          rw [lookup_append_right (by rw [keys_reverse]; exact havp)]
          exact lookup_none_of_not_mem (by rw [keys_reverse]; exact fun h => hanp (keys_plainOf_sub _ _ h))
    -- ===== the dynamic pass of `_get_args`
    have hex_keys : ∀ a, a ∈ extra.map (·.1) ↔ (a ∈ order ∧ a ∈ apn') := by
      intro a; rw [hexk, List.mem_filter]; simp
    have hex_nd : ((omUnion (plainOf c.pars) extra).map (·.1)).Nodup :=
      (keys_omUnion_nodup extra (plainOf c.pars) (keys_plainOf_nodup _ hn.pNd)).1
    have hexNd : (extra.map (·.1)).Nodup := by rw [hexk]; exact hond.sublist List.filter_sublist
    have hrun_np : ∀ a, a ∉ omKeys c.vars → a ≠ "time" →
        (envR P (omKeys c.vars) xs t).lookup a = P.lookup a := by
      intro a hav hat
      by_cases hap : a ∈ omKeys c.pars
      · exact envRV_lookup_par hctx t hap
      · rw [envRV_lookup_none hctx t hap hav hat]
        exact (lookup_none_of_not_mem (fun h => hap ((hPmem a).mp h))).symm
    have hD0 : ∀ a, (∀ kf ∈ defsOf c order, apn'.contains kf.1 = true → kf.1 ≠ a) →
        (envR P (omKeys c.vars) xs t).lookup a
          = (("time", t) :: (([] : Env).reverse ++ ((omKeys c.vars).zip xs).reverse
              ++ (omUnion (plainOf c.pars) extra).reverse)).lookup a := by
      intro a hnot
      simp only [List.reverse_nil, List.nil_append, lookup_cons_eq]
      by_cases hat : a = "time"
      · subst hat
        simp only [if_true]
        rw [envRV_lookup_notpar hctx t hn.time_p,
          lookup_append_right (by rw [keys_reverse, keys_zip hlen]; exact hn.time_v)]
        simp
      · simp only [hat, if_false]
        by_cases hav : a ∈ omKeys c.vars
        · rw [envRV_lookup_notpar hctx t (hn.vp a hav),
            lookup_append_left (by rw [keys_reverse, keys_zip hlen]; exact hav),
            lookup_append_left (by rw [keys_reverse, keys_zip hlen]; exact hav)]
        · rw [lookup_append_right (by rw [keys_reverse, keys_zip hlen]; exact hav),
            lookup_reverse_nodup _ _ hex_nd, hrun_np a hav hat]
          by_cases had : a ∈ omKeys c.derived
          · rw [hP_d a had, lookup_omUnion _ _ _ hexNd]
            have hex_none : extra.lookup a = none := by
              apply lookup_none_of_not_mem
              intro hm
              obtain ⟨hao, haa⟩ := (hex_keys a).mp hm
              obtain ⟨kf, hkf, hka⟩ := List.mem_map.mp (hdk_mem a hao hav (fun hp => hn.pd a hp had))
              exact hnot kf hkf (by simpa [hka] using haa) hka
            rw [hex_none]
            exact (lookup_none_of_not_mem (fun h => hn.pd a (keys_plainOf_sub _ _ h) had)).symm
          · exact hP_nd a had
    have hD1 : ∀ kf ∈ defsOf c order, apn'.contains kf.1 = true →
        (("time", t) :: (([] : Env).reverse ++ ((omKeys c.vars).zip xs).reverse
              ++ (omUnion (plainOf c.pars) extra).reverse)).lookup kf.1 = erun.lookup kf.1 := by
      intro kf hkf hs
      obtain ⟨hko, hknv, hknp⟩ := hdk_sub kf hkf
      have hka : kf.1 ∈ apn' := by simpa using hs
      have hkex : kf.1 ∈ order.filter fun k => apn'.contains k := List.mem_filter.mpr ⟨hko, hs⟩
      simp only [List.reverse_nil, List.nil_append, lookup_cons_eq, hord_nt _ hko, if_false]
      rw [lookup_append_right (by rw [keys_reverse, keys_zip hlen]; exact hknv),
        lookup_reverse_nodup _ _ hex_nd,
        lookup_omUnion _ _ _ hexNd,
        hexl _ hkex, hstatic _ hka]
      cases dependent.lookup kf.1 with
      | some v => rfl
      | none => exact lookup_none_of_not_mem (fun h => hknp (keys_plainOf_sub _ _ h))
    obtain ⟨edyn, hedyn, hfull⟩ := evalSeq_agree_sub (fun k => apn'.contains k) herun hdk_nd
      (fun kf hkf => by
        obtain ⟨hko, hknv, hknp⟩ := hdk_sub kf hkf
        exact envRV_lookup_none hctx t hknp hknv (hord_nt _ hko))
      hD0 hD1
    -- the dynamic order as definitions
    have hdyd : defsOf c dy = (defsOf c order).filter fun kf => !apn'.contains kf.1 := by
      rw [← hdy, defsOf_filter]
      apply List.filter_congr
      intro kf hkf
      have hknv : (omKeys c.vars).contains kf.1 = false := by simpa using (hdk_sub kf hkf).2.1
      show (!((omKeys c.vars).contains kf.1 || apn'.contains kf.1)) = !apn'.contains kf.1
      rw [hknv]; rfl
    rw [← hdyd] at hedyn
    have hdy_kind : ∀ k ∈ dy, k ∈ omKeys c.derived ∨ k ∈ omKeys c.rxns := by
      intro k hk
      rw [← hdy] at hk
      obtain ⟨hko, hkp⟩ := List.mem_filter.mp hk
      have hkp' : ¬ k ∈ omKeys c.vars ∧ ¬ k ∈ apn' := by simpa using hkp
      rcases hord_cases k hko with h | h | ⟨_, _, h⟩
      · exact absurd h hkp'.1
      · exact absurd (hap0 k h) hkp'.2
      · exact h
    exact equiv_tail c L t xs hL hok hxs hcc hadd hinitk hcache hdy_kind hP herun hedyn hfull

end Mxl.C07
