/-
C07: the equivalence for contents whose variables may be defined by initial assignments.
Core Lean only.
-/
import MxlVerif.Lemmas.C07GenV
namespace Mxl.C07
open Mxl

structure EnvCtxV (c : Content) (names : List Name) (xs : List Rat) (P : List (Name × Rat)) : Prop where
  nm : Names c
  names_eq : names = omKeys c.vars
  len : names.length = xs.length
  pkeys : P.map (·.1) = omKeys c.pars

theorem envRV_lookup_par {c names xs P} (h : EnvCtxV c names xs P) (t : Rat) {a : Name}
    (ha : a ∈ omKeys c.pars) : (envR P names xs t).lookup a = P.lookup a := by
  unfold envR
  rw [lookup_append_left (by rw [keys_reverse, h.pkeys]; exact ha),
    lookup_reverse_nodup _ _ (by rw [h.pkeys]; exact h.nm.pNd)]

theorem envRV_lookup_notpar {c names xs P} (h : EnvCtxV c names xs P) (t : Rat) {a : Name}
    (ha : a ∉ omKeys c.pars) :
    (envR P names xs t).lookup a = ((names.zip xs).reverse ++ [("time", t)]).lookup a := by
  unfold envR
  rw [lookup_append_right (by rw [keys_reverse, h.pkeys]; exact ha)]

theorem envRV_lookup_none {c names xs P} (h : EnvCtxV c names xs P) (t : Rat) {a : Name}
    (hp : a ∉ omKeys c.pars) (hv : a ∉ omKeys c.vars) (ht : a ≠ "time") :
    (envR P names xs t).lookup a = none := by
  rw [envRV_lookup_notpar h t hp,
    lookup_append_right (by rw [keys_reverse, keys_zip h.len, h.names_eq]; exact hv)]
  simp [lookup_cons_eq, ht]

theorem equiv_mainV (c : Content) (L : Lang) (t : Rat) (xs : List Rat)
    (hL : L ≠ .jl) (hok : OkV c) (hxs : xs.length = c.vars.length) :
    genRun [] c L [] t xs [] = callRhs c t xs := by
  cases hcc : createCache c with
  | error e => simp [genRun, genModel, callRhs, hcc, bind, Except.bind]
  | ok cache =>
    obtain ⟨order, dependent, st, dy, apn, stoich, dst, init, extra, hsort, hE0, hcl, hadd, hinit, hextra,
      hcache⟩ := createCache_ok hcc
    have hn := hok.names
    have hPk : (plainOf c.pars).map (·.1) = omKeys c.pars := keys_plainOf hok.iaP
    have hVsub : ∀ a ∈ (plainOf c.vars).map (·.1), a ∈ omKeys c.vars := keys_plainOf_sub c.vars
    have hlen : (omKeys c.vars).length = xs.length := by simp [omKeys, hxs]
    have hctx : EnvCtxV c (omKeys c.vars) xs (plainOf c.pars) := ⟨hn, rfl, hlen, hPk⟩
    obtain ⟨hond, homem⟩ := order_factsV hok hsort
    have hokind : ∀ k ∈ order, k ∈ (iaOf c.vars).map (·.1) ∨ k ∈ omKeys c.derived ∨ k ∈ omKeys c.rxns :=
      fun k hk => (homem k).mp hk
    -- a name of the order is a variable (initial assignment) or a derived / reaction name that is no variable
    have hord_cases : ∀ k ∈ order, k ∈ omKeys c.vars ∨
        (k ∉ omKeys c.vars ∧ (k ∈ omKeys c.derived ∨ k ∈ omKeys c.rxns)) := by
      intro k hk
      rcases hokind k hk with h | h | h
      · exact Or.inl (keys_iaOf_sub _ _ h)
      · exact Or.inr ⟨fun hv => hn.vd k hv h, Or.inl h⟩
      · exact Or.inr ⟨fun hv => hn.vr k hv h, Or.inr h⟩
    have hord_np : ∀ k ∈ order, k ∉ omKeys c.pars := by
      intro k hk hp
      rcases hord_cases k hk with h | ⟨_, h | h⟩
      · exact hn.vp k h hp
      · exact hn.pd k hp h
      · exact hn.pr k hp h
    have hord_nt : ∀ k ∈ order, k ≠ "time" := by
      intro k hk ht
      rcases hord_cases k hk with h | ⟨_, h | h⟩
      · exact hn.time_v (ht ▸ h)
      · exact hn.time_d (ht ▸ h)
      · exact hn.time_r (ht ▸ h)
    -- the emitted definitions: the order without the variables
    have hdefs_eq := defsOf_eq_filter hok order
    have hdE : (defsE c order).map (·.1) = order := (mapM_defOfE hok hokind).2
    have hdk_sub : ∀ kf ∈ defsOf c order, kf.1 ∈ order ∧ kf.1 ∉ omKeys c.vars := by
      intro kf hkf
      rw [hdefs_eq] at hkf
      obtain ⟨h1, h2⟩ := List.mem_filter.mp hkf
      refine ⟨?_, by simpa using h2⟩
      rw [← hdE]; exact List.mem_map_of_mem (f := (·.1)) h1
    have hdk_nd : ((defsOf c order).map (·.1)).Nodup := by
      rw [hdefs_eq]
      have hndE : ((defsE c order).map (·.1)).Nodup := by rw [hdE]; exact hond
      exact hndE.sublist (List.Sublist.map _ List.filter_sublist)
    have hdk_mem : ∀ k ∈ order, k ∉ omKeys c.vars → k ∈ (defsOf c order).map (·.1) := by
      intro k hk hv
      have : k ∈ (defsE c order).map (·.1) := by rw [hdE]; exact hk
      obtain ⟨kf, hkf, hke⟩ := List.mem_map.mp this
      rw [hdefs_eq]
      exact List.mem_map.mpr ⟨kf, List.mem_filter.mpr ⟨hkf, by simpa [hke] using hv⟩, hke⟩
    -- the time-zero pass as sequential evaluation
    rw [evalInOrder_defsE hok hokind, hok.data] at hE0
    -- classification
    obtain ⟨apn', hcls, hap0, hap1, hap2⟩ := classify_specV c hok.surs order [] [] (omKeys c.pars) hond
      (fun k hk => ⟨hord_np k hk, hord_np k hk⟩)
      (fun k _ hv => hn.vr k hv)
      (fun k hk => by
        rcases hokind k hk with h | h | h
        · exact Or.inr (Or.inl (keys_iaOf_sub _ _ h))
        · exact Or.inr (Or.inr (lookup_some_of_mem_keys h))
        · exact Or.inl h)
    rw [hcls] at hcl
    simp only [List.reverse_nil, List.nil_append, Prod.mk.injEq] at hcl
    obtain ⟨hst, hdy, hapn⟩ := hcl
    subst hapn
    have hapn_nv : ∀ a ∈ apn', a ∉ omKeys c.vars := by
      intro a ha hv
      rcases hap1 a ha with h | h
      · exact hn.vp a hv h
      · exact h.2 hv
    -- static values the cache keeps: the static names that are no variables
    have hstf : (st.filter fun k => !(omKeys c.vars).contains k) = order.filter fun k => apn'.contains k := by
      rw [← hst, List.filter_filter]
      apply List.filter_congr
      intro k _
      by_cases hv : k ∈ omKeys c.vars
      · have hna : k ∉ apn' := fun h => hapn_nv k h hv
        simp [hv, hna]
      · simp [hv]
    rw [hstf] at hextra
    obtain ⟨hexk, hexl⟩ := mapM_getPairs hextra
    obtain ⟨hinitk, _⟩ := mapM_getPairs hinit
    -- ===== the run environment succeeds on the emitted definitions
    have hkeysB : ∀ a, (∃ v, (baseEnv (plainOf c.pars) (plainOf c.vars) [] 0).lookup a = some v) →
        ∃ w, (envR (plainOf c.pars) (omKeys c.vars) xs t).lookup a = some w := by
      intro a ⟨v, hv⟩
      rw [lookup_isSome_iff]
      have hm := lookup_some_mem_keys hv
      simp only [baseEnv, List.reverse_nil, List.nil_append, List.map_cons, List.map_append, List.mem_cons,
        List.mem_append, List.map_reverse, List.mem_reverse, hPk] at hm
      simp only [envR, List.map_append, List.map_reverse, List.mem_append, List.mem_reverse, hPk,
        keys_zip hlen, List.map_cons, List.map_nil, List.mem_singleton]
      rcases hm with h | h | h
      · exact Or.inr (Or.inr h)
      · exact Or.inr (Or.inl (hVsub a h))
      · exact Or.inl h
    obtain ⟨erun, herun'⟩ := evalSeq_ok_filter (fun k => !(omKeys c.vars).contains k) hE0 hkeysB (by
      intro kf hkf hkeep
      have hv : kf.1 ∈ omKeys c.vars := by simpa using hkeep
      rw [lookup_isSome_iff]
      simp only [envR, List.map_append, List.map_reverse, List.mem_append, List.mem_reverse, keys_zip hlen]
      exact Or.inr (Or.inl hv))
    have herun : evalSeq (defsOf c order) (envR (plainOf c.pars) (omKeys c.vars) xs t) = .ok erun := by
      rw [hdefs_eq]; exact herun'
    -- ===== static names agree between the run and the time-zero pass
    have hdefs_static : ∀ kf ∈ defsE c order, kf.1 ∈ apn' →
        (!(omKeys c.vars).contains kf.1) = true ∧ ∀ a ∈ kf.2.args, a ∈ apn' := by
      intro kf hkf hka
      have hko : kf.1 ∈ order := by rw [← hdE]; exact List.mem_map_of_mem (f := (·.1)) hkf
      obtain ⟨hnr, hnv, d, hd, hargs⟩ := hap2 kf.1 hko hka
      refine ⟨by simpa using hnv, ?_⟩
      simp only [defsE, List.mem_filterMap] at hkf
      obtain ⟨k, _, hm⟩ := hkf
      cases hde : defOfE c k with
      | none => simp [hde] at hm
      | some f =>
        simp [hde] at hm; subst hm
        have : defOfE c k = some d := by
          simp [defOfE, lookup_none_of_not_mem hnr, hd]
        rw [this] at hde
        simp only [Option.some.injEq] at hde
        intro a ha
        exact hargs a (hde ▸ ha)
    have hagree0 : ∀ a, a ∈ apn' → (baseEnv (plainOf c.pars) (plainOf c.vars) [] 0).lookup a
        = (envR (plainOf c.pars) (omKeys c.vars) xs t).lookup a := by
      intro a ha
      have hav : a ∉ omKeys c.vars := hapn_nv a ha
      have havp : a ∉ (plainOf c.vars).map (·.1) := fun h => hav (hVsub a h)
      rcases hap1 a ha with hp | ho
      · rw [envRV_lookup_par hctx t hp]
        have hat : a ≠ "time" := fun h => hn.time_p (h ▸ hp)
        simp only [baseEnv, List.reverse_nil, List.nil_append, lookup_cons_eq, hat, if_false]
        rw [lookup_append_right (by rw [keys_reverse]; exact havp),
          lookup_reverse_nodup _ _ (by rw [hPk]; exact hn.pNd)]
      · rw [envRV_lookup_none hctx t (hord_np a ho.1) hav (hord_nt a ho.1)]
        simp only [baseEnv, List.reverse_nil, List.nil_append, lookup_cons_eq, hord_nt a ho.1, if_false]
        rw [lookup_append_right (by rw [keys_reverse]; exact havp)]
        exact lookup_none_of_not_mem (by rw [keys_reverse, hPk]; exact hord_np a ho.1)
    have hstatic : ∀ a, a ∈ apn' → erun.lookup a = dependent.lookup a := fun a ha =>
      (evalSeq_agree_closed_filter (fun a => a ∈ apn') (fun k => !(omKeys c.vars).contains k)
        hE0 herun' hdefs_static hagree0 a ha).symm
    -- ===== the dynamic pass of `_get_args`
    have hex_keys : ∀ a, a ∈ extra.map (·.1) ↔ (a ∈ order ∧ a ∈ apn') := by
      intro a; rw [hexk, List.mem_filter]; simp
    have hD0 : ∀ a, (∀ kf ∈ defsOf c order, apn'.contains kf.1 = true → kf.1 ≠ a) →
        (envR (plainOf c.pars) (omKeys c.vars) xs t).lookup a
          = (("time", t) :: (([] : Env).reverse ++ ((omKeys c.vars).zip xs).reverse
              ++ (omUnion (plainOf c.pars) extra).reverse)).lookup a := by
      intro a hnot
      have hex_none : extra.lookup a = none := by
        apply lookup_none_of_not_mem
        intro hm
        obtain ⟨hao, haa⟩ := (hex_keys a).mp hm
        obtain ⟨kf, hkf, hka⟩ := List.mem_map.mp (hdk_mem a hao (hapn_nv a haa))
        exact hnot kf hkf (by simpa [hka] using haa) hka
      have hex_nd : ((omUnion (plainOf c.pars) extra).map (·.1)).Nodup :=
        (keys_omUnion_nodup extra (plainOf c.pars) (by rw [hPk]; exact hn.pNd)).1
      simp only [List.reverse_nil, List.nil_append, lookup_cons_eq]
      by_cases hat : a = "time"
      · subst hat
        simp only [if_true]
        rw [envRV_lookup_notpar hctx t hn.time_p,
          lookup_append_right (by rw [keys_reverse, keys_zip hlen]; exact hn.time_v)]
        simp
      · simp only [hat, if_false]
        by_cases hav : a ∈ omKeys c.vars
        · rw [envRV_lookup_notpar hctx t (hn.vp a hav),
            lookup_append_left (by rw [keys_reverse, keys_zip hlen]; exact hav),
            lookup_append_left (by rw [keys_reverse, keys_zip hlen]; exact hav)]
        · rw [lookup_append_right (by rw [keys_reverse, keys_zip hlen]; exact hav),
            lookup_reverse_nodup _ _ hex_nd,
            lookup_omUnion _ _ _ (by rw [hexk]; exact hond.sublist List.filter_sublist), hex_none]
          by_cases hap : a ∈ omKeys c.pars
          · rw [envRV_lookup_par hctx t hap]
          · rw [envRV_lookup_none hctx t hap hav hat]
            exact (lookup_none_of_not_mem (by rw [hPk]; exact hap)).symm
    have hD1 : ∀ kf ∈ defsOf c order, apn'.contains kf.1 = true →
        (("time", t) :: (([] : Env).reverse ++ ((omKeys c.vars).zip xs).reverse
              ++ (omUnion (plainOf c.pars) extra).reverse)).lookup kf.1 = erun.lookup kf.1 := by
      intro kf hkf hs
      obtain ⟨hko, hknv⟩ := hdk_sub kf hkf
      have hka : kf.1 ∈ apn' := by simpa using hs
      have hkex : kf.1 ∈ order.filter fun k => apn'.contains k := List.mem_filter.mpr ⟨hko, hs⟩
      have hex_nd : ((omUnion (plainOf c.pars) extra).map (·.1)).Nodup :=
        (keys_omUnion_nodup extra (plainOf c.pars) (by rw [hPk]; exact hn.pNd)).1
      simp only [List.reverse_nil, List.nil_append, lookup_cons_eq, hord_nt _ hko, if_false]
      rw [lookup_append_right (by rw [keys_reverse, keys_zip hlen]; exact hknv),
        lookup_reverse_nodup _ _ hex_nd,
        lookup_omUnion _ _ _ (by rw [hexk]; exact hond.sublist List.filter_sublist),
        hexl _ hkex, hstatic _ hka]
      cases dependent.lookup kf.1 with
      | some v => rfl
      | none => exact lookup_none_of_not_mem (by rw [hPk]; exact hord_np _ hko)
    obtain ⟨edyn, hedyn, hfull⟩ := evalSeq_agree_sub (fun k => apn'.contains k) herun hdk_nd
      (fun kf hkf => by
        obtain ⟨hko, hknv⟩ := hdk_sub kf hkf
        exact envRV_lookup_none hctx t (hord_np _ hko) hknv (hord_nt _ hko))
      hD0 hD1
    -- the dynamic order as definitions
    have hdyd : defsOf c dy = (defsOf c order).filter fun kf => !apn'.contains kf.1 := by
      rw [← hdy, defsOf_filter]
      apply List.filter_congr
      intro kf hkf
      have hknv : (omKeys c.vars).contains kf.1 = false := by simpa using (hdk_sub kf hkf).2
      show (!((omKeys c.vars).contains kf.1 || apn'.contains kf.1)) = !apn'.contains kf.1
      rw [hknv]; rfl
    rw [← hdyd] at hedyn
    have hdy_kind : ∀ k ∈ dy, k ∈ omKeys c.derived ∨ k ∈ omKeys c.rxns := by
      intro k hk
      rw [← hdy] at hk
      obtain ⟨hko, hkp⟩ := List.mem_filter.mp hk
      have hknv : k ∉ omKeys c.vars := by
        have hkp' : ¬ k ∈ omKeys c.vars ∧ ¬ k ∈ apn' := by simpa using hkp
        exact hkp'.1
      rcases hord_cases k hko with h | ⟨_, h⟩
      · exact absurd h hknv
      · exact h
    exact equiv_tail c L t xs hL hok hxs hcc hadd hinitk hcache hdy_kind herun hedyn hfull

end Mxl.C07
