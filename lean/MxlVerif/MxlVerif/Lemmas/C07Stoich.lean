/-
C07: numeric stoichiometry — the table `_create_cache` builds equals the generator's `diff_eqs`,
and summing a row the model's way equals evaluating the emitted linear expression.  Core Lean only.
-/
import MxlVerif.Lemmas.C07Gen
namespace Mxl.C07
open Mxl

def liftRow (row : List (Name × Rat)) : List (Name × Coef) := row.map fun rq => (rq.1, Coef.num rq.2)
def liftTab (m : List (Name × List (Name × Rat))) : List (Name × List (Name × Coef)) :=
  m.map fun cr => (cr.1, liftRow cr.2)

theorem map_omInsert {β γ} (g : β → γ) : ∀ (m : List (Name × β)) (k : Name) (v : β),
    (omInsert m k v).map (fun kv => (kv.1, g kv.2)) = omInsert (m.map fun kv => (kv.1, g kv.2)) k (g v) := by
  intro m; induction m with
  | nil => intro k v; rfl
  | cons kv rest ih =>
    intro k v
    obtain ⟨k', v'⟩ := kv
    simp only [omInsert, List.map_cons]
    by_cases hk : (k' == k) = true
    · simp [hk]
    · have : (k' == k) = false := by simpa using hk
      simp [this, ih]

theorem omInsert_append_of_not_mem {β} : ∀ (m l : List (Name × β)) (k : Name) (v : β),
    k ∉ m.map (·.1) → omInsert (m ++ l) k v = m ++ omInsert l k v := by
  intro m; induction m with
  | nil => intro l k v _; rfl
  | cons kv rest ih =>
    intro l k v hk
    obtain ⟨k', v'⟩ := kv
    simp only [List.map_cons, List.mem_cons, not_or] at hk
    have : (k' == k) = false := by simpa using fun h => hk.1 h.symm
    simp [omInsert, this, ih l k v hk.2]

theorem setNested_touch {β} (m : List (Name × List (Name × β))) (cpd rxn : Name) (v : β) :
    setNested (touchNested m cpd) cpd rxn v = setNested m cpd rxn v := by
  unfold touchNested
  cases hl : m.lookup cpd with
  | some row => rfl
  | none =>
    have hk : cpd ∉ m.map (·.1) := by
      intro hm; obtain ⟨w, hw⟩ := lookup_some_of_mem_keys hm; rw [hl] at hw; cases hw
    simp only [setNested, hl, Option.getD_none]
    have h1 : (m ++ [(cpd, ([] : List (Name × β)))]).lookup cpd = some [] := by
      rw [List.lookup_append, hl]; simp
    rw [h1, omInsert_append_of_not_mem _ _ _ _ hk]
    have h2 : omInsert m cpd (omInsert [] rxn v) = m ++ [(cpd, omInsert [] rxn v)] := by
      have := omInsert_append_of_not_mem m [] cpd (omInsert [] rxn v) hk
      simpa [omInsert] using this
    rw [h2]; simp [omInsert]

theorem liftTab_setNested (m : List (Name × List (Name × Rat))) (cpd rxn : Name) (q : Rat) :
    liftTab (setNested m cpd rxn q) = setNested (liftTab m) cpd rxn (Coef.num q) := by
  simp only [setNested, liftTab]
  rw [map_omInsert liftRow, lookup_map_snd liftRow]
  congr 1
  cases m.lookup cpd with
  | none => rfl
  | some row => simp [liftRow, map_omInsert Coef.num]

/-- `diffEqs` with an accumulator -/
def deFold (acc : List (Name × List (Name × Coef))) (rxns : List (Name × List (Name × Coef))) :
    List (Name × List (Name × Coef)) :=
  rxns.foldl (fun acc kv => kv.2.foldl (fun acc vf => setNested acc vf.1 kv.1 vf.2) acc) acc

theorem diffEqs_eq (rxns : List (Name × Rxn)) :
    diffEqs rxns = deFold [] (rxns.map fun kv => (kv.1, kv.2.stoich)) := by
  simp [diffEqs, deFold, List.foldl_map]

def allNum (st : List (Name × Coef)) : Bool :=
  st.all fun vc => match vc.2 with | .num _ => true | .dyn _ => false

theorem addCoefs_num (apn : List Name) (dep : Env) (rxn : Name) : ∀ (st : List (Name × Coef))
    (acc : List (Name × List (Name × Rat))), allNum st = true →
    ∃ acc', addCoefs apn dep rxn st (acc, []) = .ok (acc', [])
      ∧ liftTab acc' = st.foldl (fun a vf => setNested a vf.1 rxn vf.2) (liftTab acc) := by
  intro st; induction st with
  | nil => intro acc _; exact ⟨acc, rfl, rfl⟩
  | cons vc rest ih =>
    intro acc h
    obtain ⟨cpd, f⟩ := vc
    simp only [allNum, List.all_cons, Bool.and_eq_true] at h
    cases f with
    | dyn g => simp at h
    | num q =>
      obtain ⟨acc', h1, h2⟩ := ih (setNested acc cpd rxn q) (by simpa [allNum] using h.2)
      refine ⟨acc', ?_, ?_⟩
      · simp only [addCoefs, addCoef, setNested_touch, bind, Except.bind, pure, Except.pure]
        exact h1
      · rw [h2, liftTab_setNested]; rfl

theorem addRxns_num (apn : List Name) (dep : Env) : ∀ (rxns : List (Name × List (Name × Coef)))
    (acc : List (Name × List (Name × Rat))), (rxns.all fun kv => allNum kv.2) = true →
    ∃ acc', addRxns apn dep rxns (acc, []) = .ok (acc', []) ∧ liftTab acc' = deFold (liftTab acc) rxns := by
  intro rxns; induction rxns with
  | nil => intro acc _; exact ⟨acc, rfl, rfl⟩
  | cons kv rest ih =>
    intro acc h
    obtain ⟨rxn, st⟩ := kv
    simp only [List.all_cons, Bool.and_eq_true] at h
    obtain ⟨acc1, h1, h2⟩ := addCoefs_num apn dep rxn st acc h.1
    obtain ⟨acc', h3, h4⟩ := ih acc1 h.2
    refine ⟨acc', ?_, ?_⟩
    · simp only [addRxns, h1, bind, Except.bind]; exact h3
    · rw [h4, h2]; rfl

/-! ### invariants of the table: compounds once, rows keyed by reaction names -/

structure TabInv (R : List Name) (acc : List (Name × List (Name × Coef))) : Prop where
  nd : (acc.map (·.1)).Nodup
  rows : ∀ cr ∈ acc, ∀ rq ∈ cr.2, rq.1 ∈ R

theorem setNested_inv {R : List Name} {acc : List (Name × List (Name × Coef))} (h : TabInv R acc)
    {rxn : Name} (hr : rxn ∈ R) (cpd : Name) (v : Coef) : TabInv R (setNested acc cpd rxn v) := by
  refine ⟨(keys_omInsert_nodup _ _ _ h.nd).1, ?_⟩
  intro cr hcr rq hrq
  rcases mem_omInsert _ _ _ _ hcr with h1 | h1
  · exact h.rows cr h1 rq hrq
  · subst h1
    rcases mem_omInsert _ _ _ _ hrq with h2 | h2
    · cases hl : acc.lookup cpd with
      | none => simp [hl] at h2
      | some row =>
        simp only [hl, Option.getD_some] at h2
        exact h.rows _ (lookup_some_mem_pair hl) rq h2
    · subst h2; exact hr

theorem deFold_inv {R : List Name} : ∀ (rxns : List (Name × List (Name × Coef)))
    (acc : List (Name × List (Name × Coef))), TabInv R acc → (∀ kv ∈ rxns, kv.1 ∈ R) →
    TabInv R (deFold acc rxns) := by
  intro rxns; induction rxns with
  | nil => intro acc h _; exact h
  | cons kv rest ih =>
    intro acc h hR
    obtain ⟨rxn, st⟩ := kv
    have hr : rxn ∈ R := hR (rxn, st) List.mem_cons_self
    have hinner : ∀ (st : List (Name × Coef)) (acc : List (Name × List (Name × Coef))), TabInv R acc →
        TabInv R (st.foldl (fun acc vf => setNested acc vf.1 rxn vf.2) acc) := by
      intro st; induction st with
      | nil => intro acc h; exact h
      | cons vf st' ih' => intro acc h; exact ih' _ (setNested_inv h hr vf.1 vf.2)
    exact ih _ (hinner st acc h) (fun kv hkv => hR kv (List.mem_cons_of_mem _ hkv))

theorem diffEqs_inv (rxns : List (Name × Rxn)) : TabInv (omKeys rxns) (diffEqs rxns) := by
  rw [diffEqs_eq]
  refine deFold_inv _ [] ⟨by simp, by intro cr h; cases h⟩ ?_
  intro kv hkv
  simp only [List.mem_map] at hkv
  obtain ⟨x, hx, rfl⟩ := hkv
  exact List.mem_map_of_mem (f := (·.1)) hx

/-! ### summing a row -/

theorem evalLin_liftRow_congr {e1 e2 : Env} : ∀ {row : List (Name × Rat)} (acc : Rat),
    (∀ rq ∈ row, e1.lookup rq.1 = e2.lookup rq.1) →
    evalLin e1 (liftRow row) acc = evalLin e2 (liftRow row) acc := by
  intro row; induction row with
  | nil => intro acc _; rfl
  | cons rq rest ih =>
    intro acc h
    obtain ⟨r, q⟩ := rq
    have h1 : e1.get r = e2.get r := by simp [Env.get, h (r, q) List.mem_cons_self]
    simp only [liftRow, List.map_cons, evalLin, evalCoef, h1, bind, Except.bind, pure, Except.pure]
    cases e2.get r with
    | error e => rfl
    | ok v => exact ih _ (fun rq hrq => h rq (List.mem_cons_of_mem _ hrq))

theorem omInsert_self {β} : ∀ (m : List (Name × β)) (k : Name) (v : β),
    m.lookup k = some v → omInsert m k v = m := by
  intro m; induction m with
  | nil => intro k v h; simp at h
  | cons kv rest ih =>
    intro k v h
    obtain ⟨k', v'⟩ := kv
    rw [lookup_cons_eq] at h
    by_cases hk : k = k'
    · subst hk; simp at h; subst h; simp [omInsert]
    · simp [hk] at h
      have : (k' == k) = false := by simpa using fun h' => hk h'.symm
      simp [omInsert, this, ih k v h]

theorem omInsert_omInsert {β} : ∀ (m : List (Name × β)) (k : Name) (a b : β),
    omInsert (omInsert m k a) k b = omInsert m k b := by
  intro m; induction m with
  | nil => intro k a b; simp [omInsert]
  | cons kv rest ih =>
    intro k a b
    obtain ⟨k', v'⟩ := kv
    by_cases hk : (k' == k) = true
    · simp [omInsert, hk]
    · have : (k' == k) = false := by simpa using hk
      simp [omInsert, this, ih]

def mapOk {α β} (f : α → β) : Except Err α → Except Err β
  | .ok a => .ok (f a)
  | .error e => .error e

theorem accStatic_eq (dep : Env) (k : Name) : ∀ (row : List (Name × Rat)) (dxdt : List (Name × Rat)) (old : Rat),
    dxdt.lookup k = some old →
    accStatic dep k row dxdt = mapOk (fun s => omInsert dxdt k s) (evalLin dep (liftRow row) old) := by
  intro row; induction row with
  | nil =>
    intro dxdt old h
    simp [accStatic, liftRow, evalLin, mapOk, pure, Except.pure, omInsert_self _ _ _ h]
  | cons rq rest ih =>
    intro dxdt old h
    obtain ⟨flux, n⟩ := rq
    simp only [accStatic, liftRow, List.map_cons, evalLin, evalCoef, bind, Except.bind, pure, Except.pure]
    cases hg : dep.get flux with
    | error e => simp [mapOk]
    | ok fv =>
      simp only [accumulate, h, pure, Except.pure]
      have hl : (omInsert dxdt k (old + n * fv)).lookup k = some (old + n * fv) := by
        rw [lookup_omInsert]; simp
      have := ih (omInsert dxdt k (old + n * fv)) (old + n * fv) hl
      simp only [liftRow] at this
      rw [this]
      cases evalLin dep (List.map (fun rq => (rq.1, Coef.num rq.2)) rest) (old + n * fv) with
      | error e => rfl
      | ok s => simp [mapOk, omInsert_omInsert]

/-- the per-compound sums, computed in the model's argument environment -/
def rowSums (dep : Env) (tab : List (Name × List (Name × Rat))) : Except Err (List (Name × Rat)) :=
  tab.mapM fun cr => (do pure (cr.1, ← evalLin dep (liftRow cr.2) 0) : Except Err (Name × Rat))

theorem rowSums_cons (dep : Env) (k : Name) (row : List (Name × Rat)) (rest : List (Name × List (Name × Rat))) :
    rowSums dep ((k, row) :: rest) = (match evalLin dep (liftRow row) 0 with
      | .error e => .error e
      | .ok s => match rowSums dep rest with
        | .error e => .error e
        | .ok ss => .ok ((k, s) :: ss)) := by
  simp only [rowSums, List.mapM_cons, bind, Except.bind, pure, Except.pure]
  cases evalLin dep (liftRow row) 0 with
  | error e => rfl
  | ok s =>
    simp only
    generalize (List.mapM (m := Except Err) _ rest) = m
    cases m <;> rfl

theorem accStaticAll_eq (dep : Env) : ∀ (tab : List (Name × List (Name × Rat))) (dxdt : List (Name × Rat)),
    (tab.map (·.1)).Nodup → (∀ cr ∈ tab, dxdt.lookup cr.1 = some 0) →
    accStaticAll dep tab dxdt
      = mapOk (fun ss => ss.foldl (fun d ks => omInsert d ks.1 ks.2) dxdt) (rowSums dep tab) := by
  intro tab; induction tab with
  | nil => intro dxdt _ _; rfl
  | cons cr rest ih =>
    intro dxdt hnd h0
    obtain ⟨k, row⟩ := cr
    simp only [List.map_cons, List.nodup_cons] at hnd
    rw [rowSums_cons]
    simp only [accStaticAll, accStatic_eq dep k row dxdt 0 (h0 (k, row) List.mem_cons_self), bind, Except.bind]
    cases evalLin dep (liftRow row) 0 with
    | error e => rfl
    | ok s =>
      simp only [mapOk]
      rw [ih (omInsert dxdt k s) hnd.2 (by
        intro cr hcr
        rw [lookup_omInsert]
        have : cr.1 ≠ k := fun heq => hnd.1 (heq ▸ List.mem_map_of_mem hcr)
        simp [this]; exact h0 cr (List.mem_cons_of_mem _ hcr))]
      cases rowSums dep rest with
      | error e => rfl
      | ok ss => rfl

/-- the emitted `d<x>dt = …` assignments, run in an environment that agrees with `dep` on the rate names -/
theorem runAssigns_lins (dep : Env) : ∀ (tab : List (Name × List (Name × Rat))) (env : Env),
    (∀ cr ∈ tab, ∀ rq ∈ cr.2, env.lookup rq.1 = dep.lookup rq.1 ∧ ∀ cr' ∈ tab, rq.1 ≠ dName cr'.1) →
    runAssigns (tab.map fun cr => (dName cr.1, Rhs.lin (liftRow cr.2))) env
      = mapOk (fun ss => (ss.map fun ks => (dName ks.1, ks.2)).reverse ++ env) (rowSums dep tab) := by
  intro tab; induction tab with
  | nil => intro env _; rfl
  | cons cr rest ih =>
    intro env h
    obtain ⟨k, row⟩ := cr
    rw [rowSums_cons]
    have hc : evalLin env (liftRow row) 0 = evalLin dep (liftRow row) 0 :=
      evalLin_liftRow_congr 0 (fun rq hrq => (h (k, row) List.mem_cons_self rq hrq).1)
    simp only [List.map_cons, runAssigns, evalRhs, hc, bind, Except.bind]
    cases evalLin dep (liftRow row) 0 with
    | error e => rfl
    | ok s =>
      simp only
      rw [ih (env.set (dName k) s) (by
        intro cr hcr rq hrq
        obtain ⟨h1, h2⟩ := h cr (List.mem_cons_of_mem _ hcr) rq hrq
        refine ⟨?_, fun cr' hcr' => h2 cr' (List.mem_cons_of_mem _ hcr')⟩
        rw [Env.lookup_set]
        have : (rq.1 == dName k) = false := by simpa using h2 (k, row) List.mem_cons_self
        simp [this]; exact h1)]
      cases rowSums dep rest with
      | error e => rfl
      | ok ss => simp [mapOk, Env.set]

end Mxl.C07
