/- C06 helper lemmas, part 1: lists / lookup, Piecewise and And chains, shape of the translator's output,
   the frame property of the shared symbol context.  Core Lean only. -/
import MxlVerif.Model.C06
namespace Mxl.C06

/-! ### lookup -/

theorem lookup_cons {β} (k a : String) (b : β) (l : List (String × β)) :
    List.lookup k ((a, b) :: l) = if k = a then some b else List.lookup k l := by
  simp only [List.lookup]
  by_cases h : k = a
  · simp [h]
  · have : (k == a) = false := by simp [h]
    simp [this, h]

theorem lookup_mem {α β} [BEq α] [LawfulBEq α] (k : α) (v : β) :
    ∀ l : List (α × β), List.lookup k l = some v → (k, v) ∈ l
  | [], h => by simp [List.lookup] at h
  | (a, b) :: l, h => by
    simp only [List.lookup] at h
    split at h
    · rename_i heq
      have : k = a := by simpa using heq
      cases h; subst this; simp
    · exact List.mem_cons_of_mem _ (lookup_mem k v l h)

/-! ### Piecewise -/

theorem mkPiecewise_ok {ps : List (SExpr × SExpr)} {r : SExpr} (h : mkPiecewise ps = .ok r) : r = pwOf ps := by
  unfold mkPiecewise at h
  split at h
  · cases h; rfl
  · cases h

theorem evalS_pwOf_skip (ρ : SEnv) :
    ∀ (ps qs : List (SExpr × SExpr)), (∀ p ∈ ps, evalS ρ p.2 = some (.bool false)) →
      evalS ρ (pwOf (ps ++ qs)) = evalS ρ (pwOf qs)
  | [], qs, _ => by simp
  | (e, c) :: ps, qs, h => by
    have hc : evalS ρ c = some (.bool false) := h (e, c) (by simp)
    have ih := evalS_pwOf_skip ρ ps qs (fun p hp => h p (List.mem_cons_of_mem _ hp))
    simp [pwOf, evalS, hc, ih]

theorem evalS_pwOf_hit (ρ : SEnv) (e c : SExpr) (qs : List (SExpr × SExpr)) (hc : evalS ρ c = some (.bool true)) :
    evalS ρ (pwOf ((e, c) :: qs)) = evalS ρ e := by
  simp [pwOf, evalS, hc]

/-! ### And chains -/

theorem evalS_andAll_false (ρ : SEnv) : ∀ (cs : List SExpr) (acc : SExpr),
    evalS ρ acc = some (.bool false) → evalS ρ (andAll acc cs) = some (.bool false)
  | [], _, h => by simpa [andAll] using h
  | c :: cs, acc, h => by
    simp only [andAll]
    exact evalS_andAll_false ρ cs (.and acc c) (by simp [evalS, h])

end Mxl.C06

namespace Mxl.C06

theorem bind_ok {ε α β} {x : Except ε α} {f : α → Except ε β} {b : β} :
    (x >>= f) = .ok b ↔ ∃ a, x = .ok a ∧ f a = .ok b := by
  cases x <;> simp [bind, Except.bind]

theorem pure_ok {ε α} {a b : α} : (pure a : Except ε α) = .ok b ↔ a = b := by
  simp [pure, Except.pure]

/-! ### one step of the loop at an `if` -/

theorem trLoop_ifs_inv {T : Tables} {P : Prog} {f : Nat} {G : List (String × GVal)} {I : Imps} {body : List PyStmt}
    {pieces : List (SExpr × SExpr)} {c : PyExpr} {t e rest : List PyStmt} {isElif : Bool} {ctx : Syms}
    {r : SExpr × Syms}
    (h : trLoop T P (f+1) G I body pieces (.ifs c t e :: rest) isElif ctx = .ok r) :
    ∃ cond ifE ctxB, trExpr T P f G I ctx c = .ok cond ∧
      (T.testsBoolean = true → isBoolSorted cond = true) ∧
      (T.fallThroughChecked = true → branchOk rest t = true) ∧
      trLoop T P f G I t [] t false ctx = .ok (ifE, ctxB) ∧
      ((e = [] ∧ trLoop T P f G I body (pieces ++ [(ifE, cond)]) rest false (if T.branchCopies then ctx else ctxB) = .ok r) ∨
       (∃ c2 t2 e2, e = [.ifs c2 t2 e2] ∧
          trLoop T P f G I body (pieces ++ [(ifE, cond)]) (.ifs c2 t2 e2 :: rest) true
            (if T.branchCopies then ctx else ctxB) = .ok r) ∨
       (e ≠ [] ∧ (∀ c2 t2 e2, e ≠ [.ifs c2 t2 e2]) ∧ (T.fallThroughChecked = true → branchOk rest e = true) ∧
          ∃ elseE ctxE, trLoop T P f G I e [] e false (if T.branchCopies then ctx else ctxB) = .ok (elseE, ctxE) ∧
            r = (pwOf (pieces ++ [(ifE, cond)] ++ [(elseE, .boolLit true)]),
                 if T.branchCopies then (if T.branchCopies then ctx else ctxB) else ctxE))) := by
  simp only [trLoop] at h
  rw [bind_ok] at h
  obtain ⟨cond, hcond, h⟩ := h
  split at h
  · cases h
  · rename_i htb
    split at h
    · cases h
    · rename_i hft
      rw [bind_ok] at h
      obtain ⟨⟨ifE, ctxB⟩, hb, h⟩ := h
      simp only at h
      refine ⟨cond, ifE, ctxB, hcond, ?_, ?_, hb, ?_⟩
      · intro ht; simpa [ht] using htb
      · intro ht; simpa [ht] using hft
      · split at h
        · split at h
          · cases h
          · exact Or.inl ⟨rfl, h⟩
        · exact Or.inr (Or.inl ⟨_, _, _, rfl, h⟩)
        · rename_i hne1 hne2
          split at h
          · cases h
          · rename_i hfe
            rw [bind_ok] at h
            obtain ⟨⟨elseE, ctxE⟩, hb2, h⟩ := h
            rw [bind_ok] at h
            obtain ⟨r', hr, h⟩ := h
            rw [pure_ok] at h
            refine Or.inr (Or.inr ⟨fun he => hne1 he, fun c2 t2 e2 he => hne2 c2 t2 e2 he, ?_, elseE, ctxE, hb2, ?_⟩)
            · intro ht; simpa [ht] using hfe
            · rw [← h, mkPiecewise_ok hr]

/-! ### shape of the loop's result: once a piece exists, the result is a Piecewise extending the pieces -/

theorem trLoop_shape (T : Tables) (P : Prog) : ∀ (f : Nat) (G : List (String × GVal)) (I : Imps) (body : List PyStmt)
    (pieces : List (SExpr × SExpr)) (rem : List PyStmt) (isElif : Bool) (ctx : Syms) (s : SExpr) (ctx' : Syms),
    pieces ≠ [] → trLoop T P f G I body pieces rem isElif ctx = .ok (s, ctx') →
    ∃ more, s = pwOf (pieces ++ more) := by
  intro f
  induction f with
  | zero => intro G I body pieces rem isElif ctx s ctx' _ h; simp [trLoop] at h
  | succ f ih =>
    intro G I body pieces rem isElif ctx s ctx' hne h
    cases rem with
    | nil =>
      simp only [trLoop] at h
      have : pieces.isEmpty = false := by cases pieces <;> simp_all
      simp only [this, Bool.not_false, if_true] at h
      rw [bind_ok] at h
      obtain ⟨r, hr, h⟩ := h
      rw [pure_ok] at h
      cases h
      exact ⟨[], by simpa using mkPiecewise_ok hr⟩
    | cons st rest =>
      cases st with
      | assign x v =>
        simp only [trLoop] at h
        rw [bind_ok] at h
        obtain ⟨sv, _, h⟩ := h
        exact ih _ _ _ _ _ _ _ _ _ hne h
      | tupleAssign xs es =>
        simp only [trLoop] at h
        split at h
        · cases h
        · split at h
          · rw [bind_ok] at h
            obtain ⟨ss, _, h⟩ := h
            exact ih _ _ _ _ _ _ _ _ _ hne h
          · rw [bind_ok] at h
            obtain ⟨c2, _, h⟩ := h
            exact ih _ _ _ _ _ _ _ _ _ hne h
      | augAssign x op v =>
        simp only [trLoop] at h
        split at h
        · cases h
        · exact ih _ _ _ _ _ _ _ _ _ hne h
      | multiAssign xs v =>
        simp only [trLoop] at h
        rw [bind_ok] at h
        obtain ⟨sv, _, h⟩ := h
        split at h
        · exact ih _ _ _ _ _ _ _ _ _ hne h
        · split at h
          · exact ih _ _ _ _ _ _ _ _ _ hne h
          · exact ih _ _ _ _ _ _ _ _ _ hne h
      | unpackAssign xs v =>
        simp only [trLoop] at h
        split at h
        · cases h
        · rw [bind_ok] at h
          obtain ⟨sv, _, h⟩ := h
          exact ih _ _ _ _ _ _ _ _ _ hne h
      | importS items =>
        simp only [trLoop] at h
        rw [bind_ok] at h
        obtain ⟨⟨c2, I2⟩, _, h⟩ := h
        exact ih _ _ _ _ _ _ _ _ _ hne h
      | ifs c t e =>
        obtain ⟨cond, ifE, ctxB, _, _, _, _, hcases⟩ := trLoop_ifs_inv h
        have hne1 : pieces ++ [(ifE, cond)] ≠ [] := by simp
        rcases hcases with ⟨_, h'⟩ | ⟨c2, t2, e2, _, h'⟩ | ⟨_, _, _, elseE, ctxE, _, hr⟩
        · obtain ⟨more, hm⟩ := ih _ _ _ _ _ _ _ _ _ hne1 h'
          exact ⟨(ifE, cond) :: more, by simpa using hm⟩
        · obtain ⟨more, hm⟩ := ih _ _ _ _ _ _ _ _ _ hne1 h'
          exact ⟨(ifE, cond) :: more, by simpa using hm⟩
        · cases hr
          exact ⟨[(ifE, cond), (elseE, .boolLit true)], by simp⟩
      | ret v =>
        simp only [trLoop] at h
        rw [bind_ok] at h
        obtain ⟨sv, _, h⟩ := h
        have : pieces.isEmpty = false := by cases pieces <;> simp_all
        simp only [this, Bool.false_eq_true, ↓reduceIte] at h
        rw [bind_ok] at h
        obtain ⟨r, hr, h⟩ := h
        rw [pure_ok] at h
        cases h
        exact ⟨[(sv, .boolLit true)], mkPiecewise_ok hr⟩
      | retNone => simp [trLoop] at h
      | skip =>
        simp only [trLoop] at h
        exact ih _ _ _ _ _ _ _ _ _ hne h
      | unhandled =>
        simp only [trLoop] at h
        split at h
        · cases h
        · exact ih _ _ _ _ _ _ _ _ _ hne h

end Mxl.C06

namespace Mxl.C06

theorem bodyAssigned_cons (s : PyStmt) (r : List PyStmt) :
    bodyAssigned (s :: r) = stmtAssigned s ++ bodyAssigned r := by
  simp [bodyAssigned]

end Mxl.C06
