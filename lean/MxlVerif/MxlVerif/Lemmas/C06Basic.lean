/- C06 helper lemmas, part 1: lists / lookup, Piecewise and And chains, shape of the translator's output,
   the frame property of the shared symbol context.  Core Lean only. -/
import MxlVerif.Model.C06Hyp
namespace Mxl.C06

/-! ### lookup -/

theorem lookup_cons {β} (k a : String) (b : β) (l : List (String × β)) :
    List.lookup k ((a, b) :: l) = if k = a then some b else List.lookup k l := by
  simp only [List.lookup]
  by_cases h : k = a
  · simp [h]
  · have : (k == a) = false := by simp [h]
    simp [this, h]

theorem lookup_mem {α β} [BEq α] [LawfulBEq α] (k : α) (v : β) :
    ∀ l : List (α × β), List.lookup k l = some v → (k, v) ∈ l
  | [], h => by simp [List.lookup] at h
  | (a, b) :: l, h => by
    simp only [List.lookup] at h
    split at h
    · rename_i heq
      have : k = a := by simpa using heq
      cases h; subst this; simp
    · exact List.mem_cons_of_mem _ (lookup_mem k v l h)

/-! ### Piecewise -/

theorem mkPiecewise_ok {ps : List (SExpr × SExpr)} {r : SExpr} (h : mkPiecewise ps = .ok r) : r = pwOf ps := by
  unfold mkPiecewise at h
  split at h
  · cases h; rfl
  · cases h

theorem evalS_pwOf_skip (ρ : SEnv) :
    ∀ (ps qs : List (SExpr × SExpr)), (∀ p ∈ ps, evalS ρ p.2 = some (.bool false)) →
      evalS ρ (pwOf (ps ++ qs)) = evalS ρ (pwOf qs)
  | [], qs, _ => by simp
  | (e, c) :: ps, qs, h => by
    have hc : evalS ρ c = some (.bool false) := h (e, c) (by simp)
    have ih := evalS_pwOf_skip ρ ps qs (fun p hp => h p (List.mem_cons_of_mem _ hp))
    simp [pwOf, evalS, hc, ih]

theorem evalS_pwOf_hit (ρ : SEnv) (e c : SExpr) (qs : List (SExpr × SExpr)) (hc : evalS ρ c = some (.bool true)) :
    evalS ρ (pwOf ((e, c) :: qs)) = evalS ρ e := by
  simp [pwOf, evalS, hc]

/-! ### And chains -/

theorem evalS_andAll_false (ρ : SEnv) : ∀ (cs : List SExpr) (acc : SExpr),
    evalS ρ acc = some (.bool false) → evalS ρ (andAll acc cs) = some (.bool false)
  | [], _, h => by simpa [andAll] using h
  | c :: cs, acc, h => by
    simp only [andAll]
    exact evalS_andAll_false ρ cs (.and acc c) (by simp [evalS, h])

end Mxl.C06

namespace Mxl.C06

theorem bind_ok {ε α β} {x : Except ε α} {f : α → Except ε β} {b : β} :
    (x >>= f) = .ok b ↔ ∃ a, x = .ok a ∧ f a = .ok b := by
  cases x <;> simp [bind, Except.bind]

theorem pure_ok {ε α} {a b : α} : (pure a : Except ε α) = .ok b ↔ a = b := by
  simp [pure, Except.pure]

/-! ### shape of the loop's result: once a piece exists, the result is a Piecewise extending the pieces -/

theorem trLoop_shape (T : Tables) (P : Prog) : ∀ (f : Nat) (G : List (String × GVal)) (body : List PyStmt)
    (pieces : List (SExpr × SExpr)) (rem : List PyStmt) (isElif : Bool) (ctx : Syms) (s : SExpr) (ctx' : Syms),
    pieces ≠ [] → trLoop T P f G body pieces rem isElif ctx = .ok (s, ctx') →
    ∃ more, s = pwOf (pieces ++ more) := by
  intro f
  induction f with
  | zero => intro G body pieces rem isElif ctx s ctx' _ h; simp [trLoop] at h
  | succ f ih =>
    intro G body pieces rem isElif ctx s ctx' hne h
    cases rem with
    | nil =>
      simp only [trLoop] at h
      have : pieces.isEmpty = false := by cases pieces <;> simp_all
      simp only [this, Bool.not_false, if_true] at h
      rw [bind_ok] at h
      obtain ⟨r, hr, h⟩ := h
      rw [pure_ok] at h
      cases h
      exact ⟨[], by simpa using mkPiecewise_ok hr⟩
    | cons st rest =>
      cases st with
      | assign x v =>
        simp only [trLoop] at h
        rw [bind_ok] at h
        obtain ⟨sv, _, h⟩ := h
        exact ih _ _ _ _ _ _ _ _ hne h
      | tupleAssign xs es =>
        simp only [trLoop] at h
        split at h
        · cases h
        · split at h
          · rw [bind_ok] at h
            obtain ⟨ss, _, h⟩ := h
            exact ih _ _ _ _ _ _ _ _ hne h
          · rw [bind_ok] at h
            obtain ⟨c2, _, h⟩ := h
            exact ih _ _ _ _ _ _ _ _ hne h
      | augAssign x op v =>
        simp only [trLoop] at h
        split at h
        · cases h
        · exact ih _ _ _ _ _ _ _ _ hne h
      | ifs c t e =>
        simp only [trLoop] at h
        rw [bind_ok] at h
        obtain ⟨cond, _, h⟩ := h
        rw [bind_ok] at h
        obtain ⟨⟨ifE, ctx1⟩, _, h⟩ := h
        simp only at h
        have hne1 : pieces ++ [(ifE, cond)] ≠ [] := by simp
        split at h
        · split at h
          · cases h
          · obtain ⟨more, hm⟩ := ih _ _ _ _ _ _ _ _ hne1 h
            exact ⟨(ifE, cond) :: more, by simpa using hm⟩
        · obtain ⟨more, hm⟩ := ih _ _ _ _ _ _ _ _ hne1 h
          exact ⟨(ifE, cond) :: more, by simpa using hm⟩
        · rw [bind_ok] at h
          obtain ⟨⟨elseE, ctx2⟩, _, h⟩ := h
          rw [bind_ok] at h
          obtain ⟨r, hr, h⟩ := h
          rw [pure_ok] at h
          cases h
          exact ⟨[(ifE, cond), (elseE, .boolLit true)], by simpa using mkPiecewise_ok hr⟩
      | ret v =>
        simp only [trLoop] at h
        rw [bind_ok] at h
        obtain ⟨sv, _, h⟩ := h
        have : pieces.isEmpty = false := by cases pieces <;> simp_all
        simp only [this, Bool.false_eq_true, ↓reduceIte] at h
        rw [bind_ok] at h
        obtain ⟨r, hr, h⟩ := h
        rw [pure_ok] at h
        cases h
        exact ⟨[(sv, .boolLit true)], mkPiecewise_ok hr⟩
      | retNone => simp [trLoop] at h
      | skip =>
        simp only [trLoop] at h
        exact ih _ _ _ _ _ _ _ _ hne h
      | unhandled =>
        simp only [trLoop] at h
        split at h
        · cases h
        · exact ih _ _ _ _ _ _ _ _ hne h

end Mxl.C06

namespace Mxl.C06

/-! ### frame: translating a statement list changes the symbol context only at the names it assigns -/

theorem bindAll_frame (n : String) : ∀ (xs : List String) (ss : List SExpr) (ctx : Syms),
    n ∉ xs → List.lookup n (bindAll ctx xs ss) = List.lookup n ctx
  | [], _, _, _ => by simp [bindAll]
  | _ :: _, [], _, _ => by simp [bindAll]
  | x :: xs, s :: ss, ctx, h => by
    simp only [bindAll]
    have hx : n ≠ x := fun e => h (by simp [e])
    have hxs : n ∉ xs := fun e => h (by simp [e])
    rw [bindAll_frame n xs ss _ hxs, lookup_cons, if_neg hx]

theorem trTuple_frame (T : Tables) (P : Prog) (n : String) : ∀ (f : Nat) (G : List (String × GVal)) (ctx : Syms)
    (xs : List String) (es : List PyExpr) (ctx' : Syms),
    trTuple T P f G ctx xs es = .ok ctx' → n ∉ xs → List.lookup n ctx' = List.lookup n ctx := by
  intro f
  induction f with
  | zero => intro G ctx xs es ctx' h; simp [trTuple] at h
  | succ f ih =>
    intro G ctx xs es ctx' h hn
    cases xs with
    | nil => simp [trTuple] at h; rw [h]
    | cons x xs =>
      cases es with
      | nil => simp [trTuple] at h; rw [h]
      | cons e es =>
        simp only [trTuple] at h
        rw [bind_ok] at h
        obtain ⟨s, _, h⟩ := h
        have hx : n ≠ x := fun e => hn (by simp [e])
        have hxs : n ∉ xs := fun e => hn (by simp [e])
        rw [ih _ _ _ _ _ h hxs, lookup_cons, if_neg hx]

theorem bodyAssigned_cons (s : PyStmt) (r : List PyStmt) :
    bodyAssigned (s :: r) = stmtAssigned s ++ bodyAssigned r := by
  simp [bodyAssigned]

theorem trLoop_frame (T : Tables) (P : Prog) (n : String) : ∀ (f : Nat) (G : List (String × GVal))
    (body : List PyStmt) (pieces : List (SExpr × SExpr)) (rem : List PyStmt) (isElif : Bool) (ctx : Syms)
    (s : SExpr) (ctx' : Syms),
    trLoop T P f G body pieces rem isElif ctx = .ok (s, ctx') → n ∉ bodyAssigned rem →
    List.lookup n ctx' = List.lookup n ctx := by
  intro f
  induction f with
  | zero => intro G body pieces rem isElif ctx s ctx' h; simp [trLoop] at h
  | succ f ih =>
    intro G body pieces rem isElif ctx s ctx' h hn
    cases rem with
    | nil =>
      simp only [trLoop] at h
      split at h
      · rw [bind_ok] at h
        obtain ⟨r, _, h⟩ := h
        rw [pure_ok] at h
        cases h; rfl
      · split at h
        · split at h
          · cases h; rfl
          · cases h
        · cases h
    | cons st rest =>
      rw [bodyAssigned_cons] at hn
      have hrest : n ∉ bodyAssigned rest := fun e => hn (by simp [e])
      have hst : n ∉ stmtAssigned st := fun e => hn (by simp [e])
      cases st with
      | assign x v =>
        simp only [trLoop] at h
        rw [bind_ok] at h
        obtain ⟨sv, _, h⟩ := h
        have hx : n ≠ x := fun e => hst (by simp [stmtAssigned, e])
        rw [ih _ _ _ _ _ _ _ _ h hrest, lookup_cons, if_neg hx]
      | tupleAssign xs es =>
        have hxs : n ∉ xs := fun e => hst (by simpa [stmtAssigned] using e)
        simp only [trLoop] at h
        split at h
        · cases h
        · split at h
          · rw [bind_ok] at h
            obtain ⟨ss, _, h⟩ := h
            rw [ih _ _ _ _ _ _ _ _ h hrest, bindAll_frame n xs ss ctx hxs]
          · rw [bind_ok] at h
            obtain ⟨c2, hc2, h⟩ := h
            rw [ih _ _ _ _ _ _ _ _ h hrest, trTuple_frame T P n _ _ _ _ _ _ hc2 hxs]
      | augAssign x op v =>
        simp only [trLoop] at h
        split at h
        · cases h
        · exact ih _ _ _ _ _ _ _ _ h hrest
      | ifs c t e =>
        have ht : n ∉ bodyAssigned t := fun e' => hst (by simp [stmtAssigned, e'])
        have he : n ∉ bodyAssigned e := fun e' => hst (by simp [stmtAssigned, e'])
        simp only [trLoop] at h
        rw [bind_ok] at h
        obtain ⟨cond, _, h⟩ := h
        rw [bind_ok] at h
        obtain ⟨⟨ifE, ctx1⟩, hb, h⟩ := h
        simp only at h
        have h1 : List.lookup n ctx1 = List.lookup n ctx := ih _ _ _ _ _ _ _ _ hb ht
        split at h
        · split at h
          · cases h
          · rw [ih _ _ _ _ _ _ _ _ h hrest, h1]
        · rename_i c2 t2 e2
          have hn2 : n ∉ bodyAssigned (PyStmt.ifs c2 t2 e2 :: rest) := by
            rw [bodyAssigned_cons]
            simp only [bodyAssigned_cons, List.mem_append, not_or] at he ⊢
            exact ⟨he.1, hrest⟩
          rw [ih _ _ _ _ _ _ _ _ h hn2, h1]
        · rw [bind_ok] at h
          obtain ⟨⟨elseE, ctx2⟩, hb2, h⟩ := h
          rw [bind_ok] at h
          obtain ⟨r, _, h⟩ := h
          rw [pure_ok] at h
          cases h
          rw [ih _ _ _ _ _ _ _ _ hb2 he, h1]
      | ret v =>
        simp only [trLoop] at h
        rw [bind_ok] at h
        obtain ⟨sv, _, h⟩ := h
        split at h
        · rw [pure_ok] at h; cases h; rfl
        · rw [bind_ok] at h
          obtain ⟨r, _, h⟩ := h
          rw [pure_ok] at h; cases h; rfl
      | retNone => simp [trLoop] at h
      | skip =>
        simp only [trLoop] at h
        exact ih _ _ _ _ _ _ _ _ h hrest
      | unhandled =>
        simp only [trLoop] at h
        split at h
        · cases h
        · exact ih _ _ _ _ _ _ _ _ h hrest

end Mxl.C06
