/-
The readout pass after the repair of F-C01-3: `_sort_dependencies` orders the readouts, so every readout
holds in the final scope whatever the declaration order.
-/
import MxlVerif.Lemmas.ArgsSel
namespace Mxl

theorem name_inj : ∀ (els : List Dep), (els.map (·.name)).Nodup →
    ∀ d ∈ els, ∀ d' ∈ els, d.name = d'.name → d = d' := by
  intro els
  induction els with
  | nil => intro _ d hd; cases hd
  | cons e rest ih =>
    intro hnd d hd d' hd' hn
    simp only [List.map_cons, List.nodup_cons] at hnd
    rcases List.mem_cons.mp hd with h1 | h1
    · rcases List.mem_cons.mp hd' with h2 | h2
      · rw [h1, h2]
      · exfalso; apply hnd.1
        exact List.mem_map.mpr ⟨d', h2, by rw [← hn, h1]⟩
    · rcases List.mem_cons.mp hd' with h2 | h2
      · exfalso; apply hnd.1
        exact List.mem_map.mpr ⟨d, h1, by rw [hn, h2]⟩
      · exact ih hnd.2 d h1 d' h2 hn

theorem sched_args_before (els : List Dep) (hnd : (els.map (·.name)).Nodup)
    (hprov : ∀ d ∈ els, d.provided = [d.name]) :
    ∀ (av o : List Name), Sched els av o → ∀ (pre : List Name) (k : Name) (suf : List Name),
      o = pre ++ k :: suf → ∀ d ∈ els, d.name = k → ∀ a ∈ d.required, a ∈ av ∨ a ∈ pre := by
  intro av o hs
  induction hs with
  | nil av => intro pre k suf h; cases pre <;> cases h
  | cons av d rest hd hready _ ih =>
    intro pre k suf heq d' hd' hname a ha
    cases pre with
    | nil =>
      simp only [List.nil_append, List.cons.injEq] at heq
      have : d' = d := name_inj els hnd d' hd' d hd (by rw [hname, heq.1])
      subst this
      left
      exact (ready_iff av d').mp hready a ha
    | cons p pre' =>
      simp only [List.cons_append, List.cons.injEq] at heq
      rcases ih pre' k suf heq.2 d' hd' hname a ha with h | h
      · rw [hprov d hd] at h
        rcases List.mem_append.mp h with h | h
        · simp only [List.mem_singleton] at h
          right; rw [h, heq.1]; simp
        · exact Or.inl h
      · exact Or.inr (List.mem_cons_of_mem _ h)

/-- **after the repair of F-C01-3 every readout holds**: if the readout pass (dependency order)
    returns, then — readout names being distinct from each other and from everything in the scope —
    there is a final scope, differing from `raw | data` only on the readouts, in which EVERY readout is
    its function applied to the values its arguments have there, whatever the declaration order -/
theorem readoutPass_all_hold {c : Content} {raw raw' : Env} {f : ArgFlags}
    (hro : (omKeys c.readouts).Nodup)
    (hfresh : ∀ k ∈ omKeys c.readouts, k ∉ (raw ++ c.data).map (·.1))
    (hf : f.readouts = true) (h : readoutPass c f raw = .ok raw') :
    ∃ scope' : Env,
      (∀ n, n ∉ omKeys c.readouts →
        scope'.lookup n = (raw ++ c.data).lookup n ∧ raw'.lookup n = raw.lookup n) ∧
      (∀ k ∈ omKeys c.readouts, raw'.lookup k = scope'.lookup k ∧ (scope'.lookup k).isSome) ∧
      (∀ k ro, c.readouts.lookup k = some ro → (Comp.fn ro).Holds k scope') := by
  unfold readoutPass at h
  rw [if_pos hf] at h
  obtain ⟨ros, h1, h2⟩ := bind_ok h
  obtain ⟨hperm, hnd, hlook, hsched⟩ := sortedReadouts_spec hro h1
  obtain ⟨scope', hfr, hro', hholds⟩ := evalReadouts_spec ros _ _ _ hnd h2
  have hmem : ∀ n, n ∈ omKeys ros ↔ n ∈ omKeys c.readouts := fun n => hperm.mem_iff
  refine ⟨scope', fun n hn => hfr n (fun hm => hn ((hmem n).mp hm)),
    fun k hk => hro' k ((hmem k).mpr hk), ?_⟩
  intro k ro hk
  have hkin : k ∈ omKeys ros := (hmem k).mpr (List.mem_map.mpr ⟨(k, ro), mem_of_lookup hk, rfl⟩)
  obtain ⟨⟨k', ro'⟩, hmemkv, hk'⟩ := List.mem_map.mp hkin
  simp only at hk'; subst hk'
  have hro'' : ro' = ro := by
    have := hlook (k', ro') hmemkv
    simp only at this
    rw [hk] at this; exact (Option.some.inj this).symm
  subst hro''
  obtain ⟨pre, suf, hsplit⟩ := List.append_of_mem hmemkv
  apply hholds pre k' ro' suf hsplit
  intro a ha
  let els : List Dep := c.readouts.map fun kv =>
    { name := kv.1, required := kv.2.args, provided := [kv.1] }
  have hnames : els.map (·.name) = omKeys c.readouts := by
    simp [els, omKeys, List.map_map, Function.comp_def]
  have hkeys : omKeys ros = omKeys pre ++ k' :: omKeys suf := by rw [hsplit]; simp [omKeys]
  have hd : ({ name := k', required := ro'.args, provided := [k'] } : Dep) ∈ els :=
    List.mem_map.mpr ⟨(k', ro'), mem_of_lookup hk, rfl⟩
  have := sched_args_before els (by rw [hnames]; exact hro)
    (by intro d hd; obtain ⟨kv, _, rfl⟩ := List.mem_map.mp hd; rfl)
    _ _ hsched (omKeys pre) k' (omKeys suf) hkeys _ hd rfl a ha
  rw [hkeys] at hnd
  have hnd' := List.nodup_append.mp hnd
  rcases this with hav | hpre
  · have hnr : a ∉ omKeys c.readouts := fun hm => hfresh a hm hav
    have hnros : a ∉ omKeys ros := fun hm => hnr ((hmem a).mp hm)
    rw [hkeys] at hnros
    simp only [List.mem_append, List.mem_cons, not_or] at hnros
    exact ⟨hnros.2.1, hnros.2.2⟩
  · have hdis := hnd'.2.2 a hpre
    have hnk : a ≠ k' := fun he => hdis k' (by simp) he
    have hns : a ∉ omKeys suf := fun hm => hdis a (List.mem_cons_of_mem _ hm) rfl
    exact ⟨hnk, hns⟩

end Mxl
