/-
C11: what the builder calls of the generated program declare (kind, name, argument lists, stoichiometry compounds) is
what the model's components declare, in the same order - for every model, also when function names collide.
Core Lean only.
-/
import MxlVerif.Lemmas.C11Keys
namespace Mxl.C11

theorem initCalls_heads (c : NContent) (mk : Name → BVal → Call) (kind : String)
    (hmk : ∀ k b, (mk k b).head = (kind, k, b.argsOf, [])) :
    ∀ (l : List (Name × NVal)) (t : List String),
    (initCalls mk (l.map fun kv => (kv.1, symValOf c kv.2)) t).2.map Call.head
      = l.map fun kv => (kind, kv.1, kv.2.argsOf, []) := by
  intro l; induction l with
  | nil => intro t; rfl
  | cons kv rest ih =>
    intro t
    obtain ⟨k, v⟩ := kv
    cases v with
    | plain q =>
      have := ih t
      simp only [List.map_cons, symValOf, initCalls, hmk, BVal.argsOf, NVal.argsOf]
      exact congrArg _ this
    | ia u =>
      have := ih (freeName t ("init_" ++ (symFnOf c u).fnName) :: t)
      simp only [List.map_cons, symValOf, initCalls, hmk, BVal.argsOf, NVal.argsOf, symFnOf] at this ⊢
      exact congrArg _ this

theorem stoichVals_heads (c : NContent) (rxn : Name) : ∀ (l : List (Name × NCoef)) (t : List String),
    (stoichVals rxn (l.map fun vc => (vc.1, symCoefOf c vc.2)) t).2.map (fun vc => (vc.1, vc.2.argsOf))
      = l.map fun vc => (vc.1, vc.2.argsOf) := by
  intro l; induction l with
  | nil => intro t; rfl
  | cons vc rest ih =>
    intro t
    obtain ⟨v, cf⟩ := vc
    cases cf with
    | num q =>
      have := ih t
      simp only [List.map_cons, symCoefOf, stoichVals, BVal.argsOf, NCoef.argsOf]
      exact congrArg _ this
    | dyn u =>
      have := ih (freeName t (rxn ++ "_stoich_" ++ (symFnOf c u).fnName) :: t)
      simp only [List.map_cons, symCoefOf, stoichVals, BVal.argsOf, NCoef.argsOf, symFnOf] at this ⊢
      exact congrArg _ this

theorem rxnCalls_heads (c : NContent) : ∀ (l : List (Name × NRxn)) (t : List String),
    (rxnCalls (l.map fun kv => (kv.1, symRxnOf c kv.2)) t).2.map Call.head
      = l.map fun kv => ("reaction", kv.1, some kv.2.rate.args, kv.2.stoich.map fun vc => (vc.1, vc.2.argsOf)) := by
  intro l; induction l with
  | nil => intro t; rfl
  | cons kv rest ih =>
    intro t
    obtain ⟨k, r⟩ := kv
    have h1 := stoichVals_heads c k r.stoich t
    have h2 := ih (stoichVals k (symRxnOf c r).stoich t).1
    simp only [List.map_cons, rxnCalls, Call.head, symRxnOf, symFnOf] at h1 h2 ⊢
    rw [h1, h2]

theorem build_heads (c : NContent) : (genProgram (symOf c)).build.map Call.head = heads c := by
  have e0 : (symOf c).variables = c.vars.map fun kv => (kv.1, symValOf c kv.2) := rfl
  have e0' : (symOf c).parameters = c.pars.map fun kv => (kv.1, symValOf c kv.2) := rfl
  have e0'' : (symOf c).derived = c.derived.map fun kv => (kv.1, symFnOf c kv.2) := rfl
  rw [genMxlpy_build, e0, e0', e0'', symOf_rxns]
  simp only [List.map_append, heads]
  rw [initCalls_heads c Call.addVariable "variable" (fun _ _ => rfl),
    initCalls_heads c Call.addParameter "parameter" (fun _ _ => rfl), rxnCalls_heads]
  simp [derivedCalls, Call.head, symFnOf, List.map_map, Function.comp_def]
end Mxl.C11
