/-
Static derived quantities ("derived parameters") also hold in the per-state environment of
`_get_args`: the value frozen in the cache at time zero equals the function applied to the
environment's values of its arguments, because those arguments are plain parameters,
assignment-defined parameters or other derived parameters, all frozen the same way.

`WFd` alone does not give this (it allows a name that is both a variable with an initial
assignment and a derived quantity: such a name is classified static and then bound to the
supplied state, and `WFd` says nothing about repeated parameter keys), so the hypothesis is the
shared name space `WFnames`, from which `WFd` follows.
-/
import MxlVerif.Lemmas.Total
namespace Mxl

/-- a parameter binding is what the base dict `pars | vars | data | {"time": t}` returns when
    nothing shadows it -/
theorem baseEnv_lookup_pars (pars vars data : List (Name × Rat)) (t : Rat) {n : Name} {v : Rat}
    (hnd : (omKeys pars).Nodup) (hm : (n, v) ∈ pars) (hv : n ∉ omKeys vars)
    (hd : n ∉ omKeys data) (ht : n ≠ "time") :
    (baseEnv pars vars data t).lookup n = some v := by
  have h1 : data.reverse.lookup n = none :=
    lookup_none_of_not_mem_keys (by simpa [omKeys] using hd)
  have h2 : vars.reverse.lookup n = none :=
    lookup_none_of_not_mem_keys (by simpa [omKeys] using hv)
  have h3 : pars.reverse.lookup n = some v :=
    lookup_of_mem (by rw [List.map_reverse]; exact (List.reverse_perm _).nodup_iff.mpr hnd) (by simpa using hm)
  unfold baseEnv
  rw [List.lookup_cons]
  have : (n == "time") = false := by simpa using ht
  simp only [this, List.lookup_append, h1, h2, h3, Option.none_or]

theorem exists_mem_of_mem_keys {β} {l : List (Name × β)} {k : Name} (h : k ∈ omKeys l) :
    ∃ v, (k, v) ∈ l := by
  obtain ⟨kv, hkv, rfl⟩ := List.mem_map.mp h
  exact ⟨kv.2, hkv⟩

/-- **frozen values.**  Every entry of the cache's parameter table (plain parameters, and every
    static component that is not a variable: assignment-defined parameters and derived
    parameters) has, in the per-state environment of any state and time, exactly the value it
    had in the time-zero environment `_create_cache` evaluated. -/
theorem allPars_frozen {c : Content} (hn : WFnames c) {cache : Cache}
    (hc : createCache c = .ok cache) (vars : List (Name × Rat))
    (hv : vars.map (·.1) = omKeys c.vars) (t : Rat) {env : Env}
    (h : getArgsEnv c cache vars t = .ok env) :
    ∃ dep : Env,
      evalInOrder c.toSort cache.order
        (baseEnv (plainOf c.pars) (plainOf c.vars) c.data 0) = .ok dep ∧
      (∀ k comp, c.toSort.lookup k = some comp → comp.Holds k dep) ∧
      (omKeys cache.allPars).Nodup ∧
      (∀ n, n ∈ omKeys cache.allPars ↔ n ∈ omKeys (plainOf c.pars) ∨
        (n ∈ cache.order ∧ n ∉ cache.dynOrder ∧ n ∉ omKeys c.vars)) ∧
      (∀ n v, (n, v) ∈ cache.allPars → env.lookup n = some v ∧ dep.lookup n = some v) := by
  have hwf := WFd_of_names c hn
  obtain ⟨dep, hholds0, hframe0, _, _, heval, hperm, _⟩ := createCache_consistent hwf.toWFc hc
  obtain ⟨order, dependent, st, dst, init, extra, _, h2, _, _, h5, hcache⟩ := createCache_ok hc
  obtain ⟨S, D, A, heq, hS, hD, hcov, hdyn, hstat, hnew, _, hdisj⟩ :=
    classify_spec c order [] [] (omKeys c.pars) (fun a ha => Or.inl ha)
  have horder : cache.order = order := by rw [hcache]
  rw [horder] at hperm heval
  have hdep : dep = dependent := by
    rw [h2] at heval; cases heval; rfl
  subst hdep
  have hdynO : cache.dynOrder = D := by rw [hcache, heq]; simp
  have hstatO : (classify c order [] [] (omKeys c.pars)).1 = S := by rw [heq]; simp
  have hallP : cache.allPars = omUnion (plainOf c.pars) extra := by rw [hcache]
  obtain ⟨hextraK, hextraV⟩ := mapM_get_spec dep _ _ h5
  rw [hstatO] at hextraK
  have hextraK' : omKeys extra = S.filter fun k => !(omKeys c.vars).contains k := hextraK
  have hordNd : order.Nodup := hperm.nodup_iff.mpr hwf.keysNodup
  -- counts: extra keys ⊆ S ⊆ order ~ keys of to_sort
  have hcntE : ∀ k, (omKeys extra).count k ≤ (omKeys c.toSort).count k := by
    intro k
    rw [hextraK', ← hperm.count_eq k]
    exact Nat.le_trans ((List.filter_sublist).count_le k) (hS.count_le k)
  have hcntT : ∀ k, (omKeys c.toSort).count k =
      (omKeys (iaOf c.vars)).count k + (omKeys (iaOf c.pars)).count k +
        (omKeys c.derived).count k + (omKeys c.rxns).count k + (omKeys c.surs).count k := by
    intro k; rw [hn.keys_toSort]; simp only [List.count_append]
  have hnd : (omKeys (plainOf c.pars) ++ omKeys extra).Nodup := by
    apply nodup_of_count
    intro k
    have := hn.count_le k
    have := hcntE k
    have := hcntT k
    simp only [List.count_append]
    omega
  have hallP' : cache.allPars = plainOf c.pars ++ extra := by
    rw [hallP, omUnion_eq_append _ _ hnd]
  have hndAll : (omKeys cache.allPars).Nodup := by rw [hallP', omKeys_append]; exact hnd
  obtain ⟨env', he, _, hframeE, hfreshE, _⟩ := getArgs_core hwf hc vars hv t
  have henv : env = env' := by rw [h] at he; cases he; rfl
  subst henv
  rw [hdynO] at hframeE hfreshE
  have hkeysV : omKeys vars = omKeys c.vars := hv
  refine ⟨dep, by rw [horder]; exact heval, hholds0, hndAll, ?_, ?_⟩
  · intro n
    rw [hallP', omKeys_append, List.mem_append, hextraK', List.mem_filter, horder, hdynO]
    constructor
    · rintro (h1 | ⟨h1, h2'⟩)
      · exact Or.inl h1
      · exact Or.inr ⟨hS.subset h1, hdisj hordNd n h1, by simpa using h2'⟩
    · rintro (h1 | ⟨h1, h2', h3⟩)
      · exact Or.inl h1
      · right
        refine ⟨?_, by simpa using h3⟩
        rcases hcov n h1 with h4 | h4 | ⟨h4, h5', h6⟩
        · exact h4
        · exact absurd h4 h2'
        · exfalso
          rcases hwf.keysKinds n (hperm.mem_iff.mp h1) with h7 | h7 | ⟨d, h7⟩
          · rw [h4] at h7; cases h7
          · rw [h5'] at h7; cases h7
          · rw [h6] at h7; cases h7
  · intro n v hmem
    have hkey : n ∈ omKeys cache.allPars := mem_keys_of_mem hmem
    have hcnt : 0 < (omKeys (plainOf c.pars)).count n + (omKeys extra).count n := by
      have := cpos hkey
      rw [hallP', omKeys_append, List.count_append] at this
      exact this
    have hc1 := hn.count_le n
    have hc2 := hcntE n
    have hc3 := hcntT n
    -- the name is no variable, no data set, not `time`
    have hnotV : n ∉ omKeys c.vars := by
      apply not_mem_of_count
      rw [count_keys_split]
      by_cases hp : 0 < (omKeys (plainOf c.pars)).count n
      · omega
      · have hx : n ∈ omKeys extra := List.count_pos_iff.mp (by omega)
        rw [hextraK', List.mem_filter] at hx
        have : n ∉ omKeys c.vars := by simpa using hx.2
        have := count_zero this
        rw [count_keys_split] at this
        omega
    have hcV := count_zero hnotV
    rw [count_keys_split] at hcV
    have hnotData : n ∉ omKeys c.data := by apply not_mem_of_count; omega
    have hnotTime : n ≠ "time" := by
      intro ht; rw [if_pos ht] at hc1; omega
    have hnotPV : n ∉ omKeys (plainOf c.vars) := by apply not_mem_of_count; omega
    constructor
    · -- per-state environment
      have hsome := baseEnv_lookup_pars cache.allPars vars c.data t hndAll hmem
        (by rw [hkeysV]; exact hnotV) hnotData hnotTime
      have hnotD : n ∉ D.flatMap (providedOf c.containers) := by
        intro hp
        rw [hfreshE n hp] at hsome; cases hsome
      rw [hframeE n hnotD]; exact hsome
    · -- time-zero environment
      rw [hallP'] at hmem
      rcases List.mem_append.mp hmem with h1 | h1
      · have havail : n ∈ c.available := by
          simp [Content.available, mem_keys_of_mem h1]
        have hnp : n ∉ (omKeys c.toSort).flatMap (providedOf c.toSort) :=
          fun hp => hwf.provFresh n hp havail
        rw [hframe0 n hnp]
        have hndP : (omKeys (plainOf c.pars)).Nodup := by
          apply nodup_of_count
          intro k
          have := hn.count_le k
          omega
        exact baseEnv_lookup_pars _ _ _ 0 hndP h1 hnotPV hnotData hnotTime
      · exact hextraV (n, v) h1

/-- **static derived quantities hold for every state.**  A derived quantity that
    `_create_cache` classified as a parameter (it is not in `dyn_order`) has, in the argument
    table of any state and time, the value of its function on the table's values of its
    arguments — although `_get_args` never re-evaluates it. -/
theorem static_holds {c : Content} (hn : WFnames c) {cache : Cache}
    (hc : createCache c = .ok cache) (vars : List (Name × Rat))
    (hv : vars.map (·.1) = omKeys c.vars) (t : Rat) {env : Env}
    (h : getArgsEnv c cache vars t = .ok env) (k : Name) (d : Fn)
    (hd : c.derived.lookup k = some d) (hk : k ∉ cache.dynOrder) :
    (Comp.fn d).Holds k env := by
  have hwf := WFd_of_names c hn
  obtain ⟨dep, heval, hholds0, _, hkeys, hfrozen⟩ := allPars_frozen hn hc vars hv t h
  obtain ⟨order, dependent, st, dst, init, extra, _, _, _, _, _, hcache⟩ := createCache_ok hc
  obtain ⟨S, D, A, heq, hS, hD, hcov, hdyn, hstat, hnew, _, hdisj⟩ :=
    classify_spec c order [] [] (omKeys c.pars) (fun a ha => Or.inl ha)
  obtain ⟨_, _, _, _, _, _, hperm, _⟩ := createCache_consistent hwf.toWFc hc
  have horder : cache.order = order := by rw [hcache]
  have hdynO : cache.dynOrder = D := by rw [hcache, heq]; simp
  rw [horder] at hperm
  rw [horder, hdynO] at hkeys
  rw [hdynO] at hk
  have hordNd : order.Nodup := hperm.nodup_iff.mpr hwf.keysNodup
  have eqOf : ∀ n, n ∈ omKeys cache.allPars → env.lookup n = dep.lookup n := by
    intro n hmem
    obtain ⟨v, hv'⟩ := exists_mem_of_mem_keys hmem
    obtain ⟨h1, h2⟩ := hfrozen n v hv'
    rw [h1, h2]
  -- `k` is a derived quantity only
  have hkD : k ∈ omKeys c.derived := mem_keys_of_mem (mem_of_lookup hd)
  have hck := hn.count_le k
  have hposk := cpos hkD
  have hvp : isVP c k = false := by
    rw [isVP_false_iff]
    constructor <;> apply not_mem_of_count <;> rw [count_keys_split] <;> omega
  have hkT : k ∈ omKeys c.toSort := by
    rw [hn.keys_toSort]; simp [hkD]
  have hkO : k ∈ order := hperm.mem_iff.mpr hkT
  have hkS : k ∈ S := by
    rcases hcov k hkO with h1 | h1 | ⟨_, _, h1⟩
    · exact h1
    · exact absurd h1 hk
    · rw [hd] at h1; cases h1
  obtain ⟨hrs, hk2⟩ := hstat k hkS
  have hargs : ∀ a ∈ d.args, a ∈ A ++ omKeys c.pars := by
    rcases hk2 with h1 | ⟨d', hd', h1⟩
    · rw [hvp] at h1; cases h1
    · rw [hd] at hd'; cases hd'; exact h1
  have hT : c.toSort.lookup k = some (.fn d) := hwf.derivedIn k d hd hvp hrs
  obtain ⟨vs, hvs, hval⟩ := hholds0 k (.fn d) hT
  have inS : ∀ n ∈ S, isVP c n = false → n ∈ omKeys cache.allPars := by
    intro n hnS hnvp
    rw [hkeys]
    exact Or.inr ⟨hS.subset hnS, hdisj hordNd n hnS, ((isVP_false_iff c n).mp hnvp).1⟩
  have hargsIn : ∀ a ∈ d.args, a ∈ omKeys cache.allPars := by
    intro a ha
    rcases List.mem_append.mp (hargs a ha) with h1 | h1
    · obtain ⟨h2, _, h3⟩ := hnew a h1
      exact inS a h2 h3
    · rcases mem_keys_split h1 with h2 | h2
      · rw [hkeys]; exact Or.inl h2
      · have hca := hn.count_le a
        have hpa := cpos h2
        have haT : a ∈ omKeys c.toSort := by rw [hn.keys_toSort]; simp [h2]
        have haO : a ∈ order := hperm.mem_iff.mpr haT
        have hvpa : isVP c a = true := (isVP_iff c a).mpr (Or.inr h1)
        have hnotV : a ∉ omKeys c.vars := by
          apply not_mem_of_count; rw [count_keys_split]; omega
        rw [hkeys]
        refine Or.inr ⟨haO, ?_, hnotV⟩
        intro haD
        rcases hdyn a haD with h3 | ⟨h3, _⟩
        · have := hwf.rsNotVP a h3; rw [hvpa] at this; cases this
        · rw [hvpa] at h3; cases h3
  refine ⟨vs, ?_, ?_⟩
  · rw [lookupArgs_congr d.args (fun a ha => eqOf a (hargsIn a ha))]
    exact hvs
  · rw [eqOf k (inS k hkS hvp)]
    exact hval

/-- the same for a whole model run: whatever `_get_args` returns, every derived quantity —
    dynamic or static — equals its function on the table's values of its arguments -/
theorem derived_holds {c : Content} (hn : WFnames c) {cache : Cache}
    (hc : createCache c = .ok cache) (vars : List (Name × Rat))
    (hv : vars.map (·.1) = omKeys c.vars) (t : Rat) {env : Env}
    (h : getArgsEnv c cache vars t = .ok env) (k : Name) (d : Fn)
    (hd : c.derived.lookup k = some d) : (Comp.fn d).Holds k env := by
  by_cases hk : k ∈ cache.dynOrder
  · have hwf := WFd_of_names c hn
    have hkD : k ∈ omKeys c.derived := mem_keys_of_mem (mem_of_lookup hd)
    have hck := hn.count_le k
    have hposk := cpos hkD
    have hvp : isVP c k = false := by
      rw [isVP_false_iff]
      constructor <;> apply not_mem_of_count <;> rw [count_keys_split] <;> omega
    have hrs : isRS c k = false := by
      rw [isRS_false_iff]
      constructor <;> apply not_mem_of_count <;> omega
    have hT : c.containers.lookup k = some (.fn d) := by
      rw [hwf.contOfNonVP k hvp]; exact hwf.derivedIn k d hd hvp hrs
    exact (getArgs_consistent hwf hc vars hv t h).1 k hk (.fn d) hT
  · exact static_holds hn hc vars hv t h k d hd hk

end Mxl
