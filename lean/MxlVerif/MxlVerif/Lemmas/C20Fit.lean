import MxlVerif.Model.C20
/-! Lemmas for the fit-driver part of Props/C20 (core Lean only): the order on `Ext`, the scripted minimiser's
fold, assignment by name. -/
namespace Mxl.C20

theorem Ext.le_refl' (a : Ext) : a ≤ a := by
  cases a with
  | fin x => show Ext.le _ _ = true; simp [Ext.le]
  | inf => rfl

theorem Ext.le_total' (a b : Ext) : a ≤ b ∨ b ≤ a := by
  cases a with
  | inf => right; cases b <;> rfl
  | fin x =>
    cases b with
    | inf => left; rfl
    | fin y =>
      rcases Rat.le_total (a := x) (b := y) with h | h
      · left; show Ext.le _ _ = true; simp [Ext.le, h]
      · right; show Ext.le _ _ = true; simp [Ext.le, h]

theorem Ext.le_trans' (a b c : Ext) (h1 : a ≤ b) (h2 : b ≤ c) : a ≤ c := by
  cases c with
  | inf => cases a <;> rfl
  | fin z =>
    cases b with
    | inf => exact absurd h2 (by show ¬ (Ext.le _ _ = true); simp [Ext.le])
    | fin y =>
      cases a with
      | inf => exact absurd h1 (by show ¬ (Ext.le _ _ = true); simp [Ext.le])
      | fin x =>
        have h1' : x ≤ y := by have : Ext.le (.fin x) (.fin y) = true := h1; simpa [Ext.le] using this
        have h2' : y ≤ z := by have : Ext.le (.fin y) (.fin z) = true := h2; simpa [Ext.le] using this
        show Ext.le _ _ = true
        simp [Ext.le, Rat.le_trans h1' h2']

/-- nothing infinite is below something finite -/
theorem Ext.le_fin_is_fin (a : Ext) (x : Rat) (h : a ≤ .fin x) : ∃ y, a = .fin y := by
  cases a with
  | fin y => exact ⟨y, rfl⟩
  | inf => exact absurd h (by show ¬ (Ext.le _ _ = true); simp [Ext.le])

section fold
variable {α : Type} [LE α] [DecidableLE α]

/-- invariant of the scripted minimiser's fold: the incumbent's value is the objective at the incumbent, it is not
above the start's, and the incumbent has the start's dimension -/
theorem scripted_fold_inv (hrefl : ∀ a : α, a ≤ a) (htot : ∀ a b : α, a ≤ b ∨ b ≤ a)
    (htrans : ∀ a b c : α, a ≤ b → b ≤ c → a ≤ c) (g : List α → α) (n : Nat) (bound : α) :
    ∀ (L : List (List α)) (best : List α × α), (∀ c ∈ L, c.length = n) →
      best.2 = g best.1 → best.2 ≤ bound → best.1.length = n →
      let r := L.foldl (fun best x => if best.2 ≤ g x then best else (x, g x)) best
      r.2 = g r.1 ∧ r.2 ≤ bound ∧ r.1.length = n := by
  intro L
  induction L with
  | nil => intro best _ h1 h2 h3; exact ⟨h1, h2, h3⟩
  | cons c L ih =>
    intro best hL h1 h2 h3
    simp only [List.foldl_cons]
    by_cases hc : best.2 ≤ g c
    · simp only [hc, if_true]
      exact ih best (fun c' hc' => hL c' (by simp [hc'])) h1 h2 h3
    · simp only [hc, if_false]
      refine ih (c, g c) (fun c' hc' => hL c' (by simp [hc'])) rfl ?_ (hL c (by simp))
      rcases htot best.2 (g c) with h | h
      · exact absurd h hc
      · exact htrans _ _ _ h h2

theorem scriptedMinimise_contract (hrefl : ∀ a : α, a ≤ a) (htot : ∀ a b : α, a ≤ b ∨ b ≤ a)
    (htrans : ∀ a b c : α, a ≤ b → b ≤ c → a ≤ c) (cands : List (List α)) :
    MinimiserContract (scriptedMinimise cands) := by
  intro g x0 x f h
  simp only [scriptedMinimise, Option.some.injEq] at h
  have := scripted_fold_inv hrefl htot htrans g x0.length (g x0)
    (cands.filter fun c => c.length == x0.length) (x0, g x0)
    (fun c hc => by simpa using (List.mem_filter.mp hc).2) rfl (hrefl _) rfl
  simp only at this
  rw [h] at this
  exact this

/-- `min(fits, key=loss)`: the fold keeps a member of the list whose loss is below every loss seen -/
theorem bestFit_fold_inv (hrefl : ∀ a : α, a ≤ a) (htot : ∀ a b : α, a ≤ b ∨ b ≤ a)
    (htrans : ∀ a b c : α, a ≤ b → b ≤ c → a ≤ c) :
    ∀ (rest : List (Fit α)) (best : Fit α) (seen : List (Fit α)), best ∈ seen → (∀ g ∈ seen, best.loss ≤ g.loss) →
      let r := rest.foldl (fun best x => if best.loss ≤ x.loss then best else x) best
      r ∈ seen ++ rest ∧ ∀ g ∈ seen ++ rest, r.loss ≤ g.loss := by
  intro rest
  induction rest with
  | nil => intro best seen hm hall; simpa using ⟨hm, hall⟩
  | cons x rest ih =>
    intro best seen hm hall
    simp only [List.foldl_cons]
    by_cases hc : best.loss ≤ x.loss
    · simp only [hc, if_true]
      have := ih best (seen ++ [x]) (by simp [hm]) (by
        intro g hg
        rcases List.mem_append.mp hg with h | h
        · exact hall g h
        · simp at h; subst h; exact hc)
      simpa [List.append_assoc] using this
    · simp only [hc, if_false]
      have hx : x.loss ≤ best.loss := by
        rcases htot best.loss x.loss with h | h
        · exact absurd h hc
        · exact h
      have := ih x (seen ++ [x]) (by simp) (by
        intro g hg
        rcases List.mem_append.mp hg with h | h
        · exact htrans _ _ _ hx (hall g h)
        · simp at h; subst h; exact hrefl _)
      simpa [List.append_assoc] using this

end fold

/-! ### assignment by name -/
section setval
variable {α : Type}

theorem hasName_setVal (l : List (String × α)) (p n : String) (v : α) : hasName (setVal l p v) n = hasName l n := by
  induction l with
  | nil => rfl
  | cons kv l ih =>
    simp only [setVal, hasName, List.map_cons, List.any_cons] at *
    rw [ih]
    by_cases h : kv.1 == p <;> simp [h]

theorem lookup_setVal_self (l : List (String × α)) (n : String) (v : α) (h : hasName l n = true) :
    (setVal l n v).lookup n = some v := by
  induction l with
  | nil => simp [hasName] at h
  | cons kv l ih =>
    obtain ⟨k, w⟩ := kv
    simp only [hasName, List.any_cons, Bool.or_eq_true, beq_iff_eq] at h
    by_cases hk : k = n
    · subst hk
      simp [setVal, List.lookup_cons]
    · have hk' : ¬ n = k := fun e => hk e.symm
      rcases h with h | h
      · exact absurd h hk
      · have := ih (by simpa [hasName] using h)
        have hnk : (n == k) = false := by simp [hk']
        simp only [setVal, List.map_cons, hk, beq_iff_eq, if_false, List.lookup_cons, hnk] at this ⊢
        exact this

theorem lookup_setVal_other (l : List (String × α)) (p n : String) (v : α) (h : n ≠ p) :
    (setVal l p v).lookup n = l.lookup n := by
  induction l with
  | nil => rfl
  | cons kv l ih =>
    obtain ⟨k, w⟩ := kv
    simp only [setVal, beq_iff_eq] at ih
    by_cases hk : k = p
    · subst hk
      have hnk : (n == k) = false := by simp [h]
      simp only [setVal, List.map_cons, beq_iff_eq, if_true, List.lookup_cons, hnk]
      exact ih
    · cases hnk : n == k with
      | true => simp only [setVal, List.map_cons, beq_iff_eq, hk, if_false, List.lookup_cons, hnk]
      | false =>
        simp only [setVal, List.map_cons, beq_iff_eq, hk, if_false, List.lookup_cons, hnk]
        exact ih

/-- the assignment loop of a residual function: afterwards every listed name the table has carries the candidate's
value, every other name is what it was -/
theorem setAll_lookup (u : List (String × α)) :
    ∀ (names : List String) (l l' : List (String × α)), setAll u names l = some l' →
      ∀ n, (n ∈ names → hasName l n = true → l'.lookup n = u.lookup n) ∧
           (n ∉ names → l'.lookup n = l.lookup n) ∧ hasName l' n = hasName l n := by
  intro names
  induction names with
  | nil =>
    intro l l' h n
    simp only [setAll, List.foldlM_nil] at h
    cases h
    simp
  | cons p rest ih =>
    intro l l' h n
    simp only [setAll, List.foldlM_cons] at h
    cases hp : u.lookup p with
    | none => simp [hp] at h
    | some v =>
      simp only [hp, Option.map_some, Option.bind_eq_bind, Option.bind_some] at h
      have hr := ih (setVal l p v) l' h n
      refine ⟨?_, ?_, ?_⟩
      · intro hn hl
        by_cases hrest : n ∈ rest
        · exact hr.1 hrest (by rw [hasName_setVal]; exact hl)
        · have hnp : n = p := by
            rcases List.mem_cons.mp hn with e | e
            · exact e
            · exact absurd e hrest
          subst hnp
          rw [hr.2.1 hrest, lookup_setVal_self l n v hl, hp]
      · intro hn
        have hnp : n ≠ p := fun e => hn (by simp [e])
        have hrest : n ∉ rest := fun e => hn (by simp [e])
        rw [hr.2.1 hrest, lookup_setVal_other l p n v hnp]
      · rw [hr.2.2, hasName_setVal]

end setval
section env
variable {M P : Type}

theorem FitEnv.run_copy (update : M → P → M) : ∀ (ps : List P) (e : FitEnv M), e.aliased = false →
    (e.run update ps).caller = e.caller ∧ (e.run update ps).aliased = false := by
  intro ps
  induction ps with
  | nil => intro e he; exact ⟨rfl, he⟩
  | cons p ps ih =>
    intro e he
    have := ih (FitEnv.evalResidual update e p) (by simp [FitEnv.evalResidual, he])
    simp only [FitEnv.run, List.foldl_cons] at this ⊢
    rw [this.1, this.2]
    simp [FitEnv.evalResidual, he]

theorem FitEnv.run_alias (update : M → P → M) : ∀ (ps : List P) (e : FitEnv M), e.aliased = true → e.caller = e.work →
    (e.run update ps).caller = (e.run update ps).work ∧ (e.run update ps).aliased = true := by
  intro ps
  induction ps with
  | nil => intro e he hw; exact ⟨hw, he⟩
  | cons p ps ih =>
    intro e he hw
    have := ih (FitEnv.evalResidual update e p) (by simp [FitEnv.evalResidual, he]) (by simp [FitEnv.evalResidual, he])
    simpa only [FitEnv.run, List.foldl_cons] using this

end env

theorem hasName_updateVariables {α : Type} : ∀ (y : List (String × α)) (m m' : ModelVals α),
    updateVariables m y = some m' → m'.pars = m.pars ∧ ∀ n, hasName m'.vars n = hasName m.vars n := by
  intro y
  induction y with
  | nil => intro m m' h; simp only [updateVariables, Option.some.injEq] at h; subst h; exact ⟨rfl, fun _ => rfl⟩
  | cons kv y ih =>
    intro m m' h
    obtain ⟨k, v⟩ := kv
    simp only [updateVariables] at h
    split at h
    · have := ih _ _ h
      exact ⟨this.1, fun n => by rw [this.2 n]; exact hasName_setVal _ _ _ _⟩
    · cases h

end Mxl.C20
namespace Mxl.C20

theorem lookup_isSome_of_mem_keys {α : Type} : ∀ (l : List (String × α)) (n : String), n ∈ l.map (·.1) →
    (l.lookup n).isSome = true := by
  intro l
  induction l with
  | nil => intro n h; simp at h
  | cons kv l ih =>
    intro n h
    obtain ⟨k, w⟩ := kv
    by_cases hk : n = k
    · subst hk; simp [List.lookup_cons]
    · have hnk : (n == k) = false := by simp [hk]
      simp only [List.map_cons, List.mem_cons] at h
      rcases h with h | h
      · exact absurd h hk
      · simp only [List.lookup_cons, hnk]; exact ih n h

/-- the assignment loop succeeds when the updates name every listed name -/
theorem setAll_isSome {α : Type} (u : List (String × α)) : ∀ (names : List String) (l : List (String × α)),
    (∀ p ∈ names, (u.lookup p).isSome = true) → (setAll u names l).isSome = true := by
  intro names
  induction names with
  | nil => intro l _; simp [setAll]
  | cons p rest ih =>
    intro l h
    simp only [setAll, List.foldlM_cons]
    cases hp : u.lookup p with
    | none => have := h p (by simp); simp [hp] at this
    | some v =>
      simp only [Option.map_some, Option.bind_eq_bind, Option.bind_some]
      exact ih (setVal l p v) (fun q hq => h q (by simp [hq]))

/-- one residual evaluation (as the drivers run it: a failing assignment leaves the model as it was) keeps the names of
the model's parameters and variables -/
theorem applyUpdates_getD_names {α : Type} (y0 : Option (List (String × α))) (pN vN : List String) (m : ModelVals α)
    (u : List (String × α)) (n : String) :
    hasName ((applyUpdates y0 pN vN m u).getD m).pars n = hasName m.pars n ∧
    hasName ((applyUpdates y0 pN vN m u).getD m).vars n = hasName m.vars n := by
  cases h : applyUpdates y0 pN vN m u with
  | none => simp
  | some m' =>
    simp only [Option.getD_some]
    have main : ∀ m1 : ModelVals α, m1.pars = m.pars → (∀ n, hasName m1.vars n = hasName m.vars n) →
        ((setAll u pN m1.pars).bind fun pars => (setAll u vN m1.vars).bind fun vars =>
          some ({ pars := pars, vars := vars } : ModelVals α)) = some m' →
        hasName m'.pars n = hasName m.pars n ∧ hasName m'.vars n = hasName m.vars n := by
      intro m1 hp hv hh
      cases h2 : setAll u pN m1.pars with
      | none => simp [h2] at hh
      | some pars =>
        simp only [h2, Option.bind_some] at hh
        cases h3 : setAll u vN m1.vars with
        | none => simp [h3] at hh
        | some vars =>
          simp only [h3, Option.bind_some, Option.some.injEq] at hh
          subst hh
          exact ⟨by rw [(setAll_lookup u pN m1.pars pars h2 n).2.2, hp],
                 by rw [(setAll_lookup u vN m1.vars vars h3 n).2.2, hv]⟩
    cases y0 with
    | none =>
      simp only [applyUpdates, Option.bind_eq_bind, Option.bind_some] at h
      exact main m rfl (fun _ => rfl) h
    | some y =>
      simp only [applyUpdates, Option.bind_eq_bind] at h
      cases h1 : updateVariables m y with
      | none => simp [h1] at h
      | some m1 =>
        simp only [h1, Option.bind_some] at h
        have := hasName_updateVariables y m m1 h1
        exact main m1 this.1 this.2 h

/-- … and so does any number of evaluations, on the working model of a fit -/
theorem FitEnv.run_work_names {α : Type} (y0 : Option (List (String × α))) (pN vN : List String) (n : String) :
    ∀ (ps : List (List (String × α))) (e : FitEnv (ModelVals α)),
      hasName ((e.run (fun m u => (applyUpdates y0 pN vN m u).getD m) ps).work).pars n = hasName e.work.pars n ∧
      hasName ((e.run (fun m u => (applyUpdates y0 pN vN m u).getD m) ps).work).vars n = hasName e.work.vars n := by
  intro ps
  induction ps with
  | nil => intro e; exact ⟨rfl, rfl⟩
  | cons p ps ih =>
    intro e
    have h1 := ih (FitEnv.evalResidual (fun m u => (applyUpdates y0 pN vN m u).getD m) e p)
    have h2 := applyUpdates_getD_names y0 pN vN e.work p n
    simp only [FitEnv.run, List.foldl_cons] at h1 ⊢
    simp only [FitEnv.evalResidual] at h1 h2 ⊢
    exact ⟨h1.1.trans h2.1, h1.2.trans h2.2⟩

/-- what `fitDriver` reports is the wrapper chain around the minimiser -/
theorem fitDriver_fit {α : Type} [LE α] [DecidableLE α] (sb dc : Bool) (y0 : Option (List (String × α)))
    (model : ModelVals α) (p0 : List (String × α)) (cands : List (List α)) (fail : Bool)
    (residual : List (String × α) → α) :
    (fitDriver sb dc y0 model p0 cands fail residual).fit =
      fitWrap (localScipyCall (if fail then fun _ _ => none else scriptedMinimise cands)) residual p0 := by
  unfold fitDriver
  simp only
  split <;> simp_all

/-- without `_set_best` the returned model is the working model after the last evaluation -/
theorem fitDriver_false_work {α : Type} [LE α] [DecidableLE α] (dc : Bool) (y0 : Option (List (String × α)))
    (model : ModelVals α) (p0 : List (String × α)) (cands : List (List α)) (fail : Bool)
    (residual : List (String × α) → α) :
    (fitDriver false dc y0 model p0 cands fail residual).work =
      ((FitEnv.start dc model).run
        (fun m u => (applyUpdates y0 (routeNames model (p0.map (·.1))).1 (routeNames model (p0.map (·.1))).2 m u).getD m)
        (scriptedTrace (p0.map (·.1)) cands (p0.map (·.2)))).work := by
  unfold fitDriver
  simp only
  split <;> simp

end Mxl.C20
