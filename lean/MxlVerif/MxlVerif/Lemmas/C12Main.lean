/- C12 — soundness of the symbolic equations against the numeric core (core Lean only). -/
import MxlVerif.Lemmas.C12Dyn
namespace Mxl.C12
open Mxl

theorem semClosed_base (sc : SContent) (w : WFacts sc) (cache : Cache) (ρ : Name → Rat)
    (hInit : omKeys cache.init = omKeys sc.vars) (hBase : cache.basePars = plainOf sc.toContent.pars) :
    SemClosed sc.derived ρ (baseSymbols sc cache) := by
  intro k f e hf hl
  exfalso
  have hd := mem_keys_of_lookup _ _ _ hf
  obtain ⟨_, hk⟩ := baseSymbols_lookup sc cache k e hl
  rw [hInit, hBase] at hk
  rcases hk with h1 | h1 | h1
  · exact w.v_d k h1 hd
  · have := mem_keys_plainOf _ _ h1; rw [keys_pars] at this; exact w.p_d k this hd
  · exact w.data_d k h1 hd

theorem eqRel_init (ρ : Name → Rat) (vn : List Name) :
    EqRel ρ [] (vn.map fun k => (k, (0 : Rat))) := by
  intro k v hv
  have := lookup_some_mem _ _ _ hv
  obtain ⟨k', _, he⟩ := List.mem_map.mp this
  simp at he
  simp [eqGet, evalS, he.2]

/-- **soundness of the symbolic equations**: whenever the conversion succeeds and the numeric
    right-hand side is defined at `(t, xs)`, the equations evaluate, in the environment that
    gives every variable symbol its state value and every parameter symbol its value, to the
    numeric derivatives, in `var_names` order. -/
theorem eqs_sound (sc : SContent) (hwf : sc.wf = true) (t : Rat) (xs : List Rat)
    (es : List SExpr) (ds : List Rat)
    (hs : toSymbolic sc = .ok es) (hn : callRhs sc.toContent t xs = .ok ds) :
    ∃ cache, createCache sc.toContent = .ok cache ∧ es.map (evalS (symEnv sc cache xs)) = ds := by
  have w := wf_facts sc hwf
  unfold toSymbolic at hs
  unfold callRhs at hn
  cases hcache : createCache sc.toContent with
  | error err => simp [hcache, bind, Except.bind] at hs
  | ok cache =>
    refine ⟨cache, rfl, ?_⟩
    simp only [hcache, bind, Except.bind] at hs hn
    obtain ⟨order, dependent, so, dyo, apnF, st, dst, init, extra, horder, hdep, hcl, hst, hinit, hextra, hc⟩ :=
      createCache_inv _ _ hcache
    -- symbolic side
    unfold toSymbolicWith at hs
    simp only [bind, Except.bind] at hs
    cases hS : derivedLoop sc.derived cache.order (baseSymbols sc cache) with
    | error err => simp [hS] at hs
    | ok S =>
      simp only [hS] at hs
      cases hrx : rxnLoop S sc.rxns [] with
      | error err => simp [hrx] at hs
      | ok rx =>
        simp only [hrx] at hs
        cases he1 : eqStaticAll rx cache.stoich [] with
        | error err => simp [he1] at hs
        | ok eqs1 =>
          simp only [he1] at hs
          cases he2 : eqDynAll sc S rx cache.dynStoich eqs1 with
          | error err => simp [he2] at hs
          | ok eqs2 =>
            simp only [he2] at hs
            -- numeric side
            split at hn
            · simp at hn
            · cases hdp : getArgsEnv sc.toContent cache (cache.varNames.zip xs) t with
              | error err => simp [hdp] at hn
              | ok dep =>
                simp only [hdp] at hn
                cases hr : rhsFromArgs cache cache.varNames dep with
                | error err => simp [hr] at hn
                | ok dxdt =>
                  simp only [hr] at hn
                  unfold rhsFromArgs at hr
                  simp only [bind, Except.bind] at hr
                  cases hd1 : accStaticAll dep cache.stoich (cache.varNames.map fun k => (k, (0 : Rat))) with
                  | error err => simp [hd1] at hr
                  | ok d1 =>
                    simp only [hd1] at hr
                    -- facts about the cache
                    have hVar : cache.varNames = omKeys sc.vars := by rw [hc, keys_vars]
                    have hInit : omKeys cache.init = omKeys sc.vars := by
                      rw [hc]; simp only; rw [(pairs_mapM dependent _ _ hinit).1, keys_vars]
                    have hBase : cache.basePars = plainOf sc.toContent.pars := by rw [hc]
                    have hOrder : cache.order = order := by rw [hc]
                    have hDyo : cache.dynOrder = dyo := by rw [hc]
                    have hAll : cache.allPars = omUnion cache.basePars extra := by rw [hc]
                    have hDst : cache.dynStoich = dst := by rw [hc]
                    let ρ := symEnv sc cache xs
                    obtain ⟨hclosed, _, hother, hkeys⟩ :=
                      derivedLoop_sound sc.derived ρ cache.order _ S hS (semClosed_base sc w cache ρ hInit hBase)
                    have ctx : SymCtx sc cache ρ S rx :=
                      { w := w, closed := hclosed, sbase := hother, skeys := hkeys,
                        rxs := by
                          intro k e hk
                          rcases rxnLoop_sound S sc.rxns [] rx hrx w.rN k e hk with h1 | ⟨_, h2⟩
                          · exact h1
                          · simp at h2
                        cVar := hVar, cInit := hInit, cBase := hBase }
                    -- classification
                    obtain ⟨_, hcl2, hcl3⟩ := classify_spec _ _ _ _ _ _ _ _ hcl
                    have hclP : ∀ k ∈ apnF, k ∈ omKeys sc.pars ∨
                        ∃ f, sc.toContent.derived.lookup k = some f ∧ ∀ a ∈ f.args, a ∈ apnF := by
                      intro k hk
                      rcases hcl2 k hk with h1 | h1
                      · left; rwa [keys_pars] at h1
                      · exact Or.inr h1
                    have hdefd := evalInOrder_defined _ _ _ _ hdep
                    have hdepA : AgreeOn (· ∈ apnF) S ρ dependent := by
                      refine evalInOrder_inv _ (AgreeOn (· ∈ apnF) S ρ) order _ _ ?_ ?_ hdep
                      · intro k _ comp E1 E2 hl hP hcalc
                        exact dep_step ctx apnF hclP k comp E1 E2 hl hP hcalc
                      · apply base_agree ctx
                        intro k hk
                        rcases hclP k hk with h1 | ⟨f, hf, _⟩
                        · exact Or.inl h1
                        · right
                          have := mem_keys_of_lookup _ _ _ hf
                          rwa [keys_derived] at this
                    have pf : ParFacts sc cache S ρ extra dependent apnF :=
                      { hall := hAll
                        hextra := by
                          intro k v hm
                          obtain ⟨hkeys', hvals⟩ := pairs_mapM dependent _ _ hextra
                          have hkin : k ∈ so.filter fun k => !(omKeys sc.toContent.vars).contains k := by
                            rw [← hkeys']; exact List.mem_map.mpr ⟨(k, v), hm, rfl⟩
                          simp only [List.mem_filter, Bool.not_eq_true'] at hkin
                          obtain ⟨hkso, hnv0⟩ := hkin
                          have hnv : k ∉ omKeys sc.vars := by
                            rw [← keys_vars]; intro hin
                            have : (omKeys sc.toContent.vars).contains k = true := List.contains_iff_mem.mpr hin
                            rw [this] at hnv0; exact Bool.noConfusion hnv0
                          rcases hcl3 k hkso with h1 | ⟨ho, hnr, hcls⟩
                          · simp at h1
                          · rw [keys_rxns] at hnr
                            rw [keys_vars, keys_pars] at hcls
                            exact ⟨hnv, hvals k v hm, hnr, hdefd k ho, hcls⟩
                        hdep := hdepA }
                    -- `_get_args`
                    have hdepP : Agree S ρ dep ∧ Agree rx ρ dep := by
                      unfold getArgsEnv at hdp
                      rw [hDyo] at hdp
                      refine evalInOrder_inv _ (fun E => Agree S ρ E ∧ Agree rx ρ E) dyo _ _ ?_ ?_ hdp
                      · intro k _ comp E1 E2 hl hP hcalc
                        exact args_step ctx k comp E1 E2 hl hP hcalc
                      · exact ⟨E0_agree_S ctx pf t, E0_agree_rx ctx pf t⟩
                    -- assembly
                    have hrel1 := staticAll_sound ρ rx dep hdepP.2 cache.stoich _ _ _ _ hd1 he1
                      (eqRel_init ρ cache.varNames)
                    have hinv : DynInv sc.toContent.allStoich dst := by
                      have := addRxns_dyn sc.toContent.allStoich apnF dependent sc.toContent.allStoich
                        ([], []) (st, dst) (fun _ hx => hx) hst
                      exact this (by intro _ _ _ _ hm; simp at hm)
                    have hrel2 := dynAll_sound sc ρ S rx dep hdepP.1 hdepP.2 cache.dynStoich _ _ _ _
                      (by rw [hDst]; intro k st' hm; exact dynLinked_of_inv sc w dst hinv k st' hm) hr he2 hrel1
                    exact collect_sound ρ eqs2 dxdt hrel2 cache.varNames es ds hs hn

end Mxl.C12
