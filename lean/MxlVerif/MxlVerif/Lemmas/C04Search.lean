/-
C04 ∘ C15: the answer of the steady-state solver, which the C04 machine takes as an INPUT of `Op.steady`
(`res` = the loop iteration at which it stopped), is the answer of the C15 loop run on the flow sampled every
`step_size` from the integrator's current state.
-/
import Mathlib.Tactic.Linarith
import Mathlib.Tactic.Ring
import MxlVerif.Lemmas.C04Hist
import MxlVerif.Lemmas.C15
import MxlVerif.Generated.C15Loop
namespace Mxl.C04

/-- the C15 loop's answer as `Op.steady`'s input: success at step `n` (1-based) = loop iteration `n - 1`;
`NoSteadyState` and `IntegrationFailure` = no answer -/
def resOfSearch {σ} : Mxl.C15.Outcome σ → Option Nat
  | .steady n _ => some (n - 1)
  | _ => none

/-- the two translators read the same `step_size` / `max_steps` defaults -/
theorem gen_search_agree : Gen.stepSize = Mxl.C15.Gen.stepSize ∧ Gen.maxSteps = Mxl.C15.Gen.maxSteps := by decide

/-- `n` solver steps of length `d` are the flow over `n·d` -/
theorem flow_iter {σ} (S : Sys σ) (hS : IsFlow S) (p : Pars) (d : Rat) (hd : 0 ≤ d) : ∀ (n : Nat) (y : σ),
    Mxl.C15.iter (S.flow p d) n y = S.flow p ((n : Rat) * d) y
  | 0, y => by simp [Mxl.C15.iter, hS.zero]
  | n + 1, y => by
    rw [Mxl.C15.iter, flow_iter S hS p d hd n (S.flow p d y)]
    have h1 : ((n + 1 : Nat) : Rat) * d = d + (n : Rat) * d := by push_cast; ring
    have h2 : (0 : Rat) ≤ (n : Rat) * d := mul_nonneg (Nat.cast_nonneg n) hd
    rw [h1, hS.add p d _ y hd h2]

end Mxl.C04
