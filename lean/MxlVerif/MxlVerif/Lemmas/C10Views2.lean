/-
C10 helper lemmas, part 6: the remaining readers refine the specification.
-/
import MxlVerif.Lemmas.C10Views
namespace Mxl.C10

theorem getVariablesV_spec {res : Res} {m0 : Content} {k0 : Cache} {st st' : St}
    {dv ro sv : Bool} {n : Norm} {cc : Bool} {v : View}
    (wf : WF res m0) (hm0 : createCache m0 = .ok k0) (hi : Inv res m0 st)
    (h : getVariablesV res dv ro sv n cc st = .ok (v, st')) :
    specVariables res m0 dv ro sv n cc = .ok v ∧ Inv res m0 st' ∧ st'.model = st.model := by
  unfold getVariablesV at h
  unfold specVariables
  split at h
  · rename_i hf
    rw [if_pos hf]
    split at h
    · cases h
    · rename_i v' hv
      cases h
      exact ⟨adjust_spec hv, hi, rfl⟩
  · rename_i hf
    rw [if_neg hf]
    exact getArgsV_spec wf hm0 hi h

theorem getFluxesV_spec {res : Res} {m0 : Content} {k0 : Cache} {st st' : St}
    {sur : Bool} {n : Norm} {cc : Bool} {v : View}
    (wf : WF res m0) (hm0 : createCache m0 = .ok k0) (hi : Inv res m0 st)
    (h : getFluxesV res sur n cc st = .ok (v, st')) :
    specFluxes res m0 sur n cc = .ok v ∧ Inv res m0 st' ∧ st'.model = st.model :=
  getArgsV_spec wf hm0 hi h

theorem getCombinedV_spec {res : Res} {m0 : Content} {k0 : Cache} {st st' : St} {v : View}
    (wf : WF res m0) (hm0 : createCache m0 = .ok k0) (hi : Inv res m0 st)
    (h : getCombinedV res st = .ok (v, st')) :
    specCombined res m0 = .ok v ∧ Inv res m0 st' ∧ st'.model = st.model := by
  unfold getCombinedV at h
  split at h
  · cases h
  · rename_i a st1 hv
    obtain ⟨hs1, hi1, hm1⟩ := getVariablesV_spec wf hm0 hi hv
    split at h
    · cases h
    · rename_i b st2 hf
      obtain ⟨hs2, hi2, hm2⟩ := getFluxesV_spec wf hm0 hi1 hf
      cases h
      refine ⟨?_, hi2, hm2.trans hm1⟩
      unfold specCombined
      rw [hs1]; simp only
      rw [hs2]
    · cases h
  · cases h

theorem getNewY0V_spec {res : Res} {m0 : Content} {st st' : St} {v : View}
    (hi : Inv res m0 st) (h : getNewY0V res st = .ok (v, st')) :
    specNewY0 res = .ok v ∧ Inv res m0 st' ∧ st'.model = st.model := by
  unfold getNewY0V getVariablesV at h
  simp only [Bool.or_self, Bool.not_false, if_true] at h
  unfold adjust at h
  simp only [normSplit, if_true] at h
  unfold specNewY0
  split at h
  · cases h
  · rename_i t st1 hx
    split at hx
    · cases hx
    · rename_i v' hv
      split at hv
      · cases hv
      · rename_i hne
        cases hv
        cases hx
        rw [if_neg hne]
        split at h
        · cases h
        · rename_i r hr
          cases h
          rw [hr]
          exact ⟨rfl, hi, rfl⟩
  · rename_i hx
    split at hx
    · cases hx
    · rename_i v' hv
      split at hv
      · cases hv
      · cases hv
        cases hx
        rename_i hcontra
        exact (hcontra _ _ rfl).elim

/-! ### derivatives -/

/-- the per-row function of the derivative view -/
def specRhsRowFn (c : Content) (cache : Cache) (r : Rat × Row) : Except Err (Rat × Row) :=
  match pointRow c r.1 r.2 with
  | .error e => .error e
  | .ok row =>
    match rhsFromArgs cache (omKeys c.vars) ((("time", r.1) :: row) ++ c.data) with
    | .error e => .error e
    | .ok d => .ok (r.1, d)

theorem specSegRhs_eq (m0 : Content) (tbl : Table) (p : Pars) :
    specSegRhs m0 tbl p =
      match withPars m0 p with
      | .error e => .error e
      | .ok c =>
        match createCache c with
        | .error e => .error e
        | .ok cache => mapE (specRhsRowFn c cache) tbl := rfl

theorem rhsTimeCourse_spec {c : Content} {cache : Cache} {tbl a d : Table}
    (hn : (tbl.map (·.1)).Nodup) (hc : createCache c = .ok cache)
    (ha : mapE (specRowFn c) tbl = .ok a) (h : rhsTimeCourse c a = .ok d) :
    mapE (specRhsRowFn c cache) tbl = .ok d := by
  unfold rhsTimeCourse at h
  rw [hc] at h
  simp only at h
  split at h
  · cases h
  · rename_i rows hrows
    cases h
    have h0 := (mapE_ok_iff _ _ _).1 ha
    have h1 := (mapE_ok_iff _ _ _).1 hrows
    have ht0 : tbl.map (·.1) = a.map (·.1) := by
      apply h0.map_fst_eq
      intro r o hro
      unfold specRowFn at hro
      split at hro
      · cases hro
      · cases hro; rfl
    have ht1 : a.map (·.1) = rows.map (·.1) := by
      apply h1.map_fst_eq
      intro r o hro
      split at hro
      · cases hro
      · cases hro; rfl
    rw [byTime_nodup rows (ht1 ▸ ht0 ▸ hn)]
    apply (mapE_ok_iff _ _ _).2
    apply (h0.comp h1).mono
    intro r o ⟨b, hb, ho⟩
    unfold specRowFn at hb
    unfold specRhsRowFn
    split at hb
    · cases hb
    · rename_i row hrow
      cases hb
      rw [hrow]
      exact ho

theorem rhsLoop_spec {m0 : Content} :
    ∀ (tabs : List Table) (ps : List Pars) (T : List Table) (c : Content) (ds : List Table)
      (c' : Content),
      PlainEq m0 c → (∀ p ∈ ps, Covers m0 p) → (∀ p ∈ ps, PlainOnly m0 p) →
      (∀ tbl ∈ tabs, (tbl.map (·.1)).Nodup) →
      zipWithE (specSegArgs m0) tabs ps = .ok T →
      rhsLoop c T ps = .ok (ds, c') →
      zipWithE (specSegRhs m0) tabs ps = .ok ds ∧ PlainEq m0 c' := by
  intro tabs
  induction tabs with
  | nil =>
    intro ps T c ds c' hc _ _ _ hT h
    cases ps with
    | nil =>
      simp [zipWithE] at hT; subst hT
      simp [rhsLoop] at h; obtain ⟨rfl, rfl⟩ := h
      exact ⟨rfl, hc⟩
    | cons p ps => simp [zipWithE] at hT
  | cons tbl ts ih =>
    intro ps T c ds c' hc hcov hpo hnd hT h
    cases ps with
    | nil => simp [zipWithE] at hT
    | cons p ps =>
      unfold zipWithE at hT
      split at hT
      · cases hT
      · rename_i a ha
        split at hT
        · cases hT
        · rename_i as has
          cases hT
          unfold rhsLoop at h
          split at h
          · cases h
          · rename_i c1 hw
            split at h
            · cases h
            · rename_i d hd
              split at h
              · cases h
              · rename_i rest c2 hrest
                cases h
                have hc1 : PlainEq m0 c1 := withPars_plainEq (hpo p (by simp)) hc hw
                have hw0 : withPars m0 p = .ok c1 := by
                  rw [← withPars_absorb hc (hcov p (by simp))]; exact hw
                obtain ⟨hz, hc2⟩ := ih ps as c1 rest c' hc1
                  (fun q hq => hcov q (by simp [hq])) (fun q hq => hpo q (by simp [hq]))
                  (fun t ht => hnd t (by simp [ht])) has hrest
                refine ⟨?_, hc2⟩
                rw [specSegArgs_eq, hw0] at ha
                simp only at ha
                -- the cache of this segment exists, since `rhsTimeCourse` succeeded
                have : ∃ cache, createCache c1 = .ok cache := by
                  unfold rhsTimeCourse at hd
                  split at hd
                  · cases hd
                  · exact ⟨_, by assumption⟩
                obtain ⟨cache, hcache⟩ := this
                unfold zipWithE
                rw [specSegRhs_eq, hw0]
                simp only
                rw [hcache]
                simp only
                rw [rhsTimeCourse_spec (hnd tbl (by simp)) hcache ha hd]
                simp only
                rw [hz]

theorem getRhsV_spec {res : Res} {m0 : Content} {st st' : St} {n : Norm} {cc : Bool} {v : View}
    (wf : WF res m0) (hi : Inv res m0 st) (h : getRhsV res n cc st = .ok (v, st')) :
    specRhs res m0 n cc = .ok v ∧ Inv res m0 st' ∧ st'.model = st.model := by
  unfold getRhsV at h
  split at h
  · cases h
  · rename_i T st1 hca
    obtain ⟨hs, hi1, _, hmod⟩ := computeArgs_spec wf hi hca
    split at h
    · cases h
    · rename_i ds c hl
      split at h
      · cases h
      · rename_i v' hv
        cases h
        obtain ⟨hz, _⟩ := rhsLoop_spec res.rawVars res.rawPars T st'.model ds c hi1.model
          wf.covers wf.plainOnly wf.nodup hs hl
        refine ⟨?_, hi1, hmod⟩
        unfold specRhs
        rw [hz]
        exact adjust_spec hv

end Mxl.C10
