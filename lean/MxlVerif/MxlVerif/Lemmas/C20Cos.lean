import MxlVerif.Lemmas.C20Real
/-! Lemmas for the cosine loss of Props/C20: Cauchy–Schwarz for lists, norms of scaled vectors. -/
namespace Mxl.C20

theorem vsquare_nonneg (l : List ℝ) : ∀ z ∈ vsquare l, 0 ≤ z := by
  intro z hz
  simp only [vsquare, List.mem_map] at hz
  obtain ⟨w, _, rfl⟩ := hz
  exact mul_self_nonneg w

theorem vsum_vsquare_nonneg (l : List ℝ) : 0 ≤ vsum (vsquare l) := vsum_nonneg _ (vsquare_nonneg l)

/-- a vector with a non-zero entry has a positive sum of squares -/
theorem vsum_vsquare_pos (d : List ℝ) (hd : ∃ x ∈ d, x ≠ 0) : 0 < vsum (vsquare d) := by
  rcases lt_or_eq_of_le (vsum_vsquare_nonneg d) with h | h
  · exact h
  · exfalso
    obtain ⟨x, hx, hx0⟩ := hd
    have := (vsum_eq_zero_iff _ (vsquare_nonneg d)).mp h.symm (x * x)
      (by simp only [vsquare, List.mem_map]; exact ⟨x, hx, rfl⟩)
    exact hx0 (mul_self_eq_zero.mp this)

theorem vmul_self (d : List ℝ) : vmul d d = vsquare d := by
  induction d with
  | nil => rfl
  | cons x d ih => simp only [vmul, vsquare, List.zipWith_cons_cons, List.map_cons] at *; rw [ih]

/-- Cauchy–Schwarz for lists: `(Σ aᵢbᵢ)² ≤ (Σ aᵢ²)(Σ bᵢ²)` (`zipWith` stops at the shorter list; the inequality
survives that) -/
theorem cauchy_schwarz_list : ∀ (a b : List ℝ),
    vsum (vmul a b) * vsum (vmul a b) ≤ vsum (vsquare a) * vsum (vsquare b) := by
  intro a
  induction a with
  | nil => intro b; simp [vmul, vsquare, vsum]
  | cons x a ih =>
    intro b
    cases b with
    | nil => simp [vmul, vsquare, vsum]
    | cons y b =>
      have hA := vsum_vsquare_nonneg a
      have hB := vsum_vsquare_nonneg b
      have h := ih b
      simp only [vmul, vsquare, List.zipWith_cons_cons, List.map_cons, vsum_cons] at *
      generalize vsum (List.zipWith (fun x1 x2 => x1 * x2) a b) = S at *
      generalize vsum (List.map (fun x => x * x) a) = A at *
      generalize vsum (List.map (fun x => x * x) b) = B at *
      have key : 2 * (x * y) * S ≤ x * x * B + y * y * A := by
        by_contra hc
        have hc := not_le.mp hc
        have h0 : 0 ≤ x * x * B + y * y * A :=
          add_nonneg (mul_nonneg (mul_self_nonneg x) hB) (mul_nonneg (mul_self_nonneg y) hA)
        have h1 : (x * x * B + y * y * A) * (x * x * B + y * y * A) < (2 * (x * y) * S) * (2 * (x * y) * S) :=
          mul_lt_mul'' hc hc h0 h0
        have h2 : 0 ≤ (x * y) * (x * y) * (A * B - S * S) := mul_nonneg (mul_self_nonneg _) (by linarith)
        nlinarith [mul_self_nonneg (x * x * B - y * y * A)]
      nlinarith

/-- the inner product is at most the product of the norms -/
theorem inner_le_norm_mul_norm (a b : List ℝ) : vsum (vmul a b) ≤ norm2 a * norm2 b := by
  show _ ≤ Real.sqrt _ * Real.sqrt _
  rw [← Real.sqrt_mul (vsum_vsquare_nonneg a)]
  have h := cauchy_schwarz_list a b
  calc vsum (vmul a b) ≤ |vsum (vmul a b)| := le_abs_self _
    _ ≤ Real.sqrt (vsum (vsquare a) * vsum (vsquare b)) := Real.abs_le_sqrt (by rw [sq]; exact h)

theorem norm2_pos (d : List ℝ) (hd : ∃ x ∈ d, x ≠ 0) : 0 < norm2 d :=
  Real.sqrt_pos.mpr (vsum_vsquare_pos d hd)

theorem norm2_mul_self (d : List ℝ) : norm2 d * norm2 d = vsum (vsquare d) :=
  Real.mul_self_sqrt (vsum_vsquare_nonneg d)

theorem norm2_scale (lam : ℝ) (hlam : 0 ≤ lam) (d : List ℝ) : norm2 (vmap (lam * ·) d) = lam * norm2 d := by
  show Real.sqrt _ = lam * Real.sqrt _
  rw [vsum_vsquare_scale, Real.sqrt_mul (mul_self_nonneg lam), Real.sqrt_mul_self hlam]

theorem vsum_vmul_scale (lam : ℝ) : ∀ (a b : List ℝ),
    vsum (vmul a (vmap (lam * ·) b)) = lam * vsum (vmul a b) := by
  intro a
  induction a with
  | nil => intro b; simp [vmul, vsum]
  | cons x a ih =>
    intro b
    cases b with
    | nil => simp [vmul, vmap, vsum]
    | cons y b =>
      have := ih b
      simp only [vmul, vmap, List.map_cons, List.zipWith_cons_cons, vsum_cons] at *
      rw [this]; ring

end Mxl.C20
