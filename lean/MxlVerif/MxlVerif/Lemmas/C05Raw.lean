/-
Raw stoichiometric coefficients (`int | float | Derived`) in the two mappers: what
`_unpack_stoichiometries` of `label_map.py` accepts (Python `int`s only, anything else a
`TypeError`) and what the one of `linear_label_map.py` does (`Derived` → `NotImplementedError`,
`float` → `int()` truncation).  Core Lean only.
-/
import MxlVerif.Lemmas.C16Int
namespace Mxl.C05

theorem pyTrunc_int (v : Int) : pyTrunc (v : Rat) = v := by
  unfold pyTrunc
  split
  · exact Rat.floor_intCast v
  · have : (-(v : Rat)) = ((-v : Int) : Rat) := by simp
    rw [this, Rat.floor_intCast]; omega

/-- an integer coefficient written as a Python `int` or as a `float` with that value -/
def asRaw (kv : Name × Int) (asFloat : Bool) : Name × Coef :=
  if asFloat then (kv.1, .float (kv.2 : Rat)) else (kv.1, .int kv.2)

/-- the only errors: `TypeError` (a `Derived`) and `ValueError` (a fractional float) -/
theorem intCoefs_error {st : List (Name × Coef)} {e : LErr} (h : intCoefs st = .error e) :
    e = .typeError ∨ e = .valueError := by
  induction st with
  | nil => simp [intCoefs] at h
  | cons kc rest ih =>
    obtain ⟨k, c⟩ := kc
    cases c with
    | derived => simp [intCoefs] at h; exact Or.inl h.symm
    | int v =>
      simp only [intCoefs, bind, Except.bind] at h
      cases hr : intCoefs rest with
      | error e' => rw [hr] at h; simp only [Except.error.injEq] at h; subst h; exact ih hr
      | ok r => rw [hr] at h; simp [pure, Except.pure] at h
    | float q =>
      simp only [intCoefs] at h
      split at h
      · simp only [bind, Except.bind] at h
        cases hr : intCoefs rest with
        | error e' => rw [hr] at h; simp only [Except.error.injEq] at h; subst h; exact ih hr
        | ok r => rw [hr] at h; simp [pure, Except.pure] at h
      · simp at h; exact Or.inr h.symm

/-- whole numbers, written as `int` or as `float`, are read as the integers -/
theorem intCoefs_integral (l : List ((Name × Int) × Bool)) :
    intCoefs (l.map fun x => asRaw x.1 x.2) = .ok (l.map (·.1)) := by
  induction l with
  | nil => rfl
  | cons x l ih =>
    obtain ⟨⟨k, v⟩, fl⟩ := x
    cases fl with
    | false =>
      have hh : asRaw (k, v) false = (k, Coef.int v) := rfl
      rw [List.map_cons, List.map_cons, hh]
      simp only [intCoefs, ih, bind, Except.bind, pure, Except.pure]
    | true =>
      have hh : asRaw (k, v) true = (k, Coef.float (v : Rat)) := rfl
      rw [List.map_cons, List.map_cons, hh]
      simp only [intCoefs, ih, bind, Except.bind, pure, Except.pure, pyTrunc_int, if_true]

/-- success means: every entry is a whole number, and the result lists their values in order -/
theorem intCoefs_ok {st : List (Name × Coef)} {ist : List (Name × Int)} (h : intCoefs st = .ok ist) :
    ∃ fl : List Bool, fl.length = ist.length ∧ st = (ist.zip fl).map fun x => asRaw x.1 x.2 := by
  induction st generalizing ist with
  | nil =>
    simp only [intCoefs, Except.ok.injEq] at h
    subst h; exact ⟨[], rfl, rfl⟩
  | cons kc rest ih =>
    obtain ⟨k, c⟩ := kc
    cases c with
    | derived => simp [intCoefs] at h
    | int v =>
      simp only [intCoefs, bind, Except.bind] at h
      cases hr : intCoefs rest with
      | error e' => rw [hr] at h; cases h
      | ok r =>
        rw [hr] at h
        simp only [pure, Except.pure, Except.ok.injEq] at h
        subst h
        obtain ⟨fl, hl, hst⟩ := ih hr
        refine ⟨false :: fl, by simp [hl], ?_⟩
        simp only [List.zip_cons_cons, List.map_cons, asRaw, Bool.false_eq_true, if_false]
        rw [hst]
        simp [asRaw]
    | float q =>
      simp only [intCoefs] at h
      split at h
      · rename_i hq
        simp only [bind, Except.bind] at h
        cases hr : intCoefs rest with
        | error e' => rw [hr] at h; cases h
        | ok r =>
          rw [hr] at h
          simp only [pure, Except.pure, Except.ok.injEq] at h
          subst h
          obtain ⟨fl, hl, hst⟩ := ih hr
          refine ⟨true :: fl, by simp [hl], ?_⟩
          simp only [List.zip_cons_cons, List.map_cons, asRaw, if_true, hq]
          rw [hst]
          simp [asRaw]
      · cases h

/-- a `Derived` met before any fractional float is a `TypeError`, a fractional float met before any
    `Derived` a `ValueError` (first offending entry) -/
theorem intCoefs_first_bad (pre : List ((Name × Int) × Bool)) (k : Name) (c : Coef)
    (post : List (Name × Coef)) :
    (c = .derived → intCoefs ((pre.map fun x => asRaw x.1 x.2) ++ (k, c) :: post) = .error .typeError) ∧
    (∀ q, c = .float q → ((pyTrunc q : Int) : Rat) ≠ q →
      intCoefs ((pre.map fun x => asRaw x.1 x.2) ++ (k, c) :: post) = .error .valueError) := by
  induction pre with
  | nil =>
    refine ⟨?_, ?_⟩
    · rintro rfl; rfl
    · rintro q rfl hq; simp [intCoefs, hq]
  | cons x pre ih =>
    obtain ⟨⟨k', v⟩, fl⟩ := x
    refine ⟨?_, ?_⟩
    · intro hc
      cases fl with
      | false =>
        have hh : asRaw (k', v) false = (k', Coef.int v) := rfl
        rw [List.map_cons, List.cons_append, hh]
        simp only [intCoefs, ih.1 hc, bind, Except.bind]
      | true =>
        have hh : asRaw (k', v) true = (k', Coef.float (v : Rat)) := rfl
        rw [List.map_cons, List.cons_append, hh]
        simp only [intCoefs, ih.1 hc, bind, Except.bind, pyTrunc_int, if_true]
    · intro q hc hq
      cases fl with
      | false =>
        have hh : asRaw (k', v) false = (k', Coef.int v) := rfl
        rw [List.map_cons, List.cons_append, hh]
        simp only [intCoefs, ih.2 q hc hq, bind, Except.bind]
      | true =>
        have hh : asRaw (k', v) true = (k', Coef.float (v : Rat)) := rfl
        rw [List.map_cons, List.cons_append, hh]
        simp only [intCoefs, ih.2 q hc hq, bind, Except.bind, pyTrunc_int, if_true]

theorem buildModelP_nil (b : Base) (lv : List (Name × Nat)) (maps : List (Name × List Int))
    (il : List (Name × List Nat)) : buildModelP b lv maps [] il = buildModelI b lv maps il := by
  unfold buildModelP buildModelI
  have : buildRxnP lv maps [] = buildRxnI lv maps := by
    funext r
    unfold buildRxnP buildRxnI
    cases maps.lookup r.name <;> rfl
  rw [this]

end Mxl.C05

namespace Mxl.C16
open Mxl.C05

theorem unpackLinRaw_error {st : List (Name × Coef)} {e : LErr} (h : unpackLinRaw st = .error e) :
    e = .notImplementedError ∨ e = .valueError := by
  induction st with
  | nil => simp [unpackLinRaw] at h
  | cons kc rest ih =>
    obtain ⟨k, c⟩ := kc
    cases c with
    | derived => simp [unpackLinRaw] at h; exact Or.inl h.symm
    | int v =>
      simp only [unpackLinRaw, bind, Except.bind] at h
      cases hr : unpackLinRaw rest with
      | error e' => rw [hr] at h; simp only [Except.error.injEq] at h; subst h; exact ih hr
      | ok r => rw [hr] at h; simp only at h; split at h <;> simp [pure, Except.pure] at h
    | float q =>
      simp only [unpackLinRaw] at h
      split at h
      · simp only [bind, Except.bind] at h
        cases hr : unpackLinRaw rest with
        | error e' => rw [hr] at h; simp only [Except.error.injEq] at h; subst h; exact ih hr
        | ok r => rw [hr] at h; simp only at h; split at h <;> simp [pure, Except.pure] at h
      · simp at h; exact Or.inr h.symm

/-- whole numbers, written as `int` or as `float`, are read as the integers: the linear mapper reads
    `{"A": -1.0, "B": 2.0}` as `{"A": -1, "B": 2}` -/
theorem unpackLinRaw_integral (l : List ((Name × Int) × Bool)) :
    unpackLinRaw (l.map fun x => asRaw x.1 x.2) = .ok (unpackLin (l.map (·.1))) := by
  induction l with
  | nil => rfl
  | cons x l ih =>
    obtain ⟨⟨k, v⟩, fl⟩ := x
    cases fl with
    | false =>
      have hh : asRaw (k, v) false = (k, Coef.int v) := rfl
      rw [List.map_cons, List.map_cons, hh]
      simp only [unpackLinRaw, ih, bind, Except.bind, unpackLin, pure, Except.pure]
      split <;> rfl
    | true =>
      have hh : asRaw (k, v) true = (k, Coef.float (v : Rat)) := rfl
      rw [List.map_cons, List.map_cons, hh]
      simp only [unpackLinRaw, ih, bind, Except.bind, unpackLin, pure, Except.pure, pyTrunc_int, if_true]
      split <;> rfl

/-- a `Derived` coefficient met before any fractional float is a `NotImplementedError`, a fractional
    float met first a `ValueError` -/
theorem unpackLinRaw_first_bad (pre : List ((Name × Int) × Bool)) (k : Name) (c : Coef)
    (post : List (Name × Coef)) :
    (c = .derived →
      unpackLinRaw ((pre.map fun x => asRaw x.1 x.2) ++ (k, c) :: post) = .error .notImplementedError) ∧
    (∀ q, c = .float q → ((pyTrunc q : Int) : Rat) ≠ q →
      unpackLinRaw ((pre.map fun x => asRaw x.1 x.2) ++ (k, c) :: post) = .error .valueError) := by
  induction pre with
  | nil =>
    refine ⟨?_, ?_⟩
    · rintro rfl; rfl
    · rintro q rfl hq; simp [unpackLinRaw, hq]
  | cons x pre ih =>
    obtain ⟨⟨k', v⟩, fl⟩ := x
    refine ⟨?_, ?_⟩
    · intro hc
      cases fl with
      | false =>
        have hh : asRaw (k', v) false = (k', Coef.int v) := rfl
        rw [List.map_cons, List.cons_append, hh]
        simp only [unpackLinRaw, ih.1 hc, bind, Except.bind]
      | true =>
        have hh : asRaw (k', v) true = (k', Coef.float (v : Rat)) := rfl
        rw [List.map_cons, List.cons_append, hh]
        simp only [unpackLinRaw, ih.1 hc, bind, Except.bind, pyTrunc_int, if_true]
    · intro q hc hq
      cases fl with
      | false =>
        have hh : asRaw (k', v) false = (k', Coef.int v) := rfl
        rw [List.map_cons, List.cons_append, hh]
        simp only [unpackLinRaw, ih.2 q hc hq, bind, Except.bind]
      | true =>
        have hh : asRaw (k', v) true = (k', Coef.float (v : Rat)) := rfl
        rw [List.map_cons, List.cons_append, hh]
        simp only [unpackLinRaw, ih.2 q hc hq, bind, Except.bind, pyTrunc_int, if_true]

theorem linearBuildP_nil (baseRxns : List (Name × List (Name × Int))) (lv : List (Name × Nat))
    (maps : List (Name × List Int)) (il : List (Name × List Nat)) :
    linearBuildP baseRxns lv maps [] il = linearBuildI baseRxns lv maps il := by
  unfold linearBuildP linearBuildI
  have : ∀ isos, (fun km : Name × List Int => linRxnsOfP isos baseRxns [] km.1 km.2)
      = fun km => linRxnsOfI isos baseRxns km.1 km.2 := by
    intro isos; funext km; rfl
  simp only [this]

end Mxl.C16
