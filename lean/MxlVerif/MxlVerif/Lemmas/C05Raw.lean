/-
Raw stoichiometric coefficients (`int | float | Derived`) in the two mappers: what
`_unpack_stoichiometries` of `label_map.py` accepts (Python `int`s only, anything else a
`TypeError`) and what the one of `linear_label_map.py` does (`Derived` → `NotImplementedError`,
`float` → `int()` truncation).  Core Lean only.
-/
import MxlVerif.Lemmas.C16Int
namespace Mxl.C05

theorem intCoefs_error {st : List (Name × Coef)} {e : LErr} (h : intCoefs st = .error e) :
    e = .typeError := by
  induction st with
  | nil => simp [intCoefs] at h
  | cons kc rest ih =>
    obtain ⟨k, c⟩ := kc
    cases c with
    | int v =>
      simp only [intCoefs, bind, Except.bind] at h
      cases hr : intCoefs rest with
      | error e' => rw [hr] at h; simp only [Except.error.injEq] at h; subst h; exact ih hr
      | ok r => rw [hr] at h; simp [pure, Except.pure] at h
    | float q => simp [intCoefs] at h; exact h.symm
    | derived => simp [intCoefs] at h; exact h.symm

theorem intCoefs_ok_iff (st : List (Name × Coef)) (ist : List (Name × Int)) :
    intCoefs st = .ok ist ↔ st = ist.map fun kv => (kv.1, Coef.int kv.2) := by
  induction st generalizing ist with
  | nil =>
    simp only [intCoefs, Except.ok.injEq]
    constructor
    · intro h; subst h; rfl
    · intro h; cases ist with
      | nil => rfl
      | cons a l => simp at h
  | cons kc rest ih =>
    obtain ⟨k, c⟩ := kc
    cases c with
    | int v =>
      simp only [intCoefs, bind, Except.bind]
      cases hr : intCoefs rest with
      | error e =>
        simp only [reduceCtorEq, false_iff]
        intro h
        cases ist with
        | nil => simp at h
        | cons a l =>
          simp only [List.map_cons, List.cons.injEq] at h
          have := (ih l).mpr h.2
          rw [hr] at this; cases this
      | ok r =>
        simp only [pure, Except.pure, Except.ok.injEq]
        have hrr := (ih r).mp hr
        constructor
        · intro h; subst h; simp [hrr]
        · intro h
          cases ist with
          | nil => simp at h
          | cons a l =>
            simp only [List.map_cons, List.cons.injEq, Prod.mk.injEq, Coef.int.injEq] at h
            obtain ⟨⟨h1, h2⟩, h3⟩ := h
            have := (ih l).mpr h3
            rw [hr] at this
            cases this
            obtain ⟨a1, a2⟩ := a
            simp_all
    | float q =>
      simp only [intCoefs, reduceCtorEq, false_iff]
      intro h
      cases ist with
      | nil => simp at h
      | cons a l => simp at h
    | derived =>
      simp only [intCoefs, reduceCtorEq, false_iff]
      intro h
      cases ist with
      | nil => simp at h
      | cons a l => simp at h

theorem buildModelP_nil (b : Base) (lv : List (Name × Nat)) (maps : List (Name × List Int))
    (il : List (Name × List Nat)) : buildModelP b lv maps [] il = buildModelI b lv maps il := by
  unfold buildModelP buildModelI
  have : buildRxnP lv maps [] = buildRxnI lv maps := by
    funext r
    unfold buildRxnP buildRxnI
    cases maps.lookup r.name <;> rfl
  rw [this]

end Mxl.C05

namespace Mxl.C16
open Mxl.C05

theorem pyTrunc_int (v : Int) : pyTrunc (v : Rat) = v := by
  unfold pyTrunc
  split
  · exact Rat.floor_intCast v
  · have : (-(v : Rat)) = ((-v : Int) : Rat) := by simp
    rw [this, Rat.floor_intCast]; omega

theorem unpackLinRaw_error {st : List (Name × Coef)} {e : LErr} (h : unpackLinRaw st = .error e) :
    e = .notImplementedError := by
  induction st with
  | nil => simp [unpackLinRaw] at h
  | cons kc rest ih =>
    obtain ⟨k, c⟩ := kc
    cases c with
    | derived => simp [unpackLinRaw] at h; exact h.symm
    | int v =>
      simp only [unpackLinRaw, bind, Except.bind] at h
      cases hr : unpackLinRaw rest with
      | error e' => rw [hr] at h; simp only [Except.error.injEq] at h; subst h; exact ih hr
      | ok r => rw [hr] at h; simp only at h; split at h <;> simp [pure, Except.pure] at h
    | float q =>
      simp only [unpackLinRaw, bind, Except.bind] at h
      cases hr : unpackLinRaw rest with
      | error e' => rw [hr] at h; simp only [Except.error.injEq] at h; subst h; exact ih hr
      | ok r => rw [hr] at h; simp only at h; split at h <;> simp [pure, Except.pure] at h

/-- an integer coefficient written as a Python `int` or as a `float` with that value -/
def asRaw (kv : Name × Int) (asFloat : Bool) : Name × Coef :=
  if asFloat then (kv.1, .float (kv.2 : Rat)) else (kv.1, .int kv.2)

/-- `int(-v)` / `int(v)` give back an integer-valued float: the linear mapper reads `{"A": -1.0,
    "B": 2.0}` as `{"A": -1, "B": 2}` -/
theorem unpackLinRaw_integral (l : List ((Name × Int) × Bool)) :
    unpackLinRaw (l.map fun x => asRaw x.1 x.2) = .ok (unpackLin (l.map (·.1))) := by
  induction l with
  | nil => rfl
  | cons x l ih =>
    obtain ⟨⟨k, v⟩, fl⟩ := x
    cases fl with
    | false =>
      have hh : asRaw (k, v) false = (k, Coef.int v) := rfl
      rw [List.map_cons, List.map_cons, hh]
      simp only [unpackLinRaw, ih, bind, Except.bind, unpackLin, pure, Except.pure]
      split <;> rfl
    | true =>
      have hh : asRaw (k, v) true = (k, Coef.float (v : Rat)) := rfl
      rw [List.map_cons, List.map_cons, hh]
      simp only [unpackLinRaw, ih, bind, Except.bind, unpackLin, pure, Except.pure]
      have hlt : ((v : Rat) < 0) ↔ v < 0 := by
        have : ((0 : Int) : Rat) = 0 := by simp
        rw [← this, Rat.intCast_lt_intCast]
      have hneg : (-(v : Rat)) = ((-v : Int) : Rat) := by simp
      by_cases hv : v < 0
      · rw [if_pos (hlt.mpr hv), if_pos hv, hneg, pyTrunc_int]
      · rw [if_neg (fun h => hv (hlt.mp h)), if_neg hv, pyTrunc_int]

/-- a `Derived` coefficient anywhere in the reaction is a `NotImplementedError` -/
theorem unpackLinRaw_derived (st : List (Name × Coef)) (h : ∃ kc ∈ st, kc.2 = .derived) :
    unpackLinRaw st = .error .notImplementedError := by
  induction st with
  | nil => obtain ⟨_, h, _⟩ := h; simp at h
  | cons kc rest ih =>
    obtain ⟨k, c⟩ := kc
    cases c with
    | derived => rfl
    | int v =>
      have : ∃ kc ∈ rest, kc.2 = .derived := by
        obtain ⟨kc, hm, hd⟩ := h
        rcases List.mem_cons.mp hm with e | e
        · subst e; cases hd
        · exact ⟨kc, e, hd⟩
      simp only [unpackLinRaw, ih this, bind, Except.bind]
    | float q =>
      have : ∃ kc ∈ rest, kc.2 = .derived := by
        obtain ⟨kc, hm, hd⟩ := h
        rcases List.mem_cons.mp hm with e | e
        · subst e; cases hd
        · exact ⟨kc, e, hd⟩
      simp only [unpackLinRaw, ih this, bind, Except.bind]

theorem linearBuildP_nil (baseRxns : List (Name × List (Name × Int))) (lv : List (Name × Nat))
    (maps : List (Name × List Int)) (il : List (Name × List Nat)) :
    linearBuildP baseRxns lv maps [] il = linearBuildI baseRxns lv maps il := by
  unfold linearBuildP linearBuildI
  have : ∀ isos, (fun km : Name × List Int => linRxnsOfP isos baseRxns [] km.1 km.2)
      = fun km => linRxnsOfI isos baseRxns km.1 km.2 := by
    intro isos; funext km; rfl
  simp only [this]

end Mxl.C16
