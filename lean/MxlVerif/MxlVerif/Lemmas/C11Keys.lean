/-
C11: `_free_name` hands out names that are not taken (its loop never runs out of fuel), so the definitions generated
for initial assignments and computed coefficients are never confused, for every model; and the program-level
hypothesis `refsResolve` follows from two conditions on the input model alone: no `__name__` is shared by two
different derived / reaction function objects, and no use repeats an argument.  Core Lean only.
-/
import MxlVerif.Lemmas.C11
namespace Mxl.C11

theorem lookup_some_of_keys {β} : ∀ {m : List (String × β)} {a : String},
    a ∈ m.map (·.1) → ∃ v, m.lookup a = some v := by
  intro m; induction m with
  | nil => intro a h; cases h
  | cons kv rest ih =>
    intro a h
    obtain ⟨k, w⟩ := kv
    by_cases hak : a = k
    · subst hak; exact ⟨w, by simp [List.lookup_cons]⟩
    · simp only [List.map_cons, List.mem_cons] at h
      obtain ⟨v, hv⟩ := ih (h.resolve_left hak)
      have : (a == k) = false := by simpa using hak
      exact ⟨v, by simp [List.lookup_cons, this, hv]⟩

def keysOf (fs : Fns) : List String := fs.map (·.1)

theorem mem_keys_put (fs : Fns) (key : String) (f : SymFn) (k : String) :
    k ∈ keysOf (fs.put key f) ↔ (k = key ∨ k ∈ keysOf fs) := by
  unfold keysOf Fns.put
  induction fs with
  | nil => simp [omInsert]
  | cons kv rest ih =>
    obtain ⟨k', v'⟩ := kv
    simp only [omInsert]
    by_cases hk : (k' == key) = true
    · have : k' = key := by simpa using hk
      subst this
      simp
    · have hk' : (k' == key) = false := by simpa using hk
      simp only [hk', Bool.false_eq_true, if_false, List.map_cons, List.mem_cons, ih]
      constructor
      · rintro (h | h | h) <;> simp_all
      · rintro (h | h | h) <;> simp_all

theorem lookup_put (fs : Fns) (key : String) (f : SymFn) (a : String) :
    (fs.put key f).lookup a
      = if a = key then some { params := f.args, body := f.expr, src := f.src } else fs.lookup a := by
  unfold Fns.put
  induction fs with
  | nil =>
    by_cases h : a = key
    · subst h; simp [omInsert, List.lookup_cons]
    · have : (a == key) = false := by simpa using h
      simp [omInsert, List.lookup_cons, this, h]
  | cons kv rest ih =>
    obtain ⟨k', v'⟩ := kv
    simp only [omInsert]
    by_cases hk : k' = key
    · subst hk
      by_cases h : a = k'
      · subst h; simp [List.lookup_cons]
      · have : (a == k') = false := by simpa using h
        simp [List.lookup_cons, this, h]
    · have hk' : (k' == key) = false := by simpa using hk
      simp only [hk', Bool.false_eq_true, if_false]
      by_cases h : a = k'
      · subst h; simp [List.lookup_cons, hk]
      · have : (a == k') = false := by simpa using h
        simp only [List.lookup_cons, this, ih]

theorem refOk_put (fs : Fns) (key : String) (f : SymFn) (r : Ref) :
    refOk (fs.put key f) r = if r.key = key then f.src == r.src else refOk fs r := by
  unfold refOk
  rw [lookup_put]
  by_cases h : r.key = key <;> simp [h]

theorem refOk_key_mem {fs : Fns} {r : Ref} (h : refOk fs r = true) : r.key ∈ keysOf fs := by
  unfold refOk at h
  cases hl : fs.lookup r.key with
  | none => simp [hl] at h
  | some d =>
    have := lookup_some_mem _ _ _ hl
    exact List.mem_map.mpr ⟨_, this, rfl⟩

/-! ### `_free_name` returns a name that is not taken: the loop's fuel is never used up -/

theorem filter_length_lt {α} (p q : α → Bool) : ∀ (l : List α), (∀ x, p x = true → q x = true) →
    (∃ x ∈ l, q x = true ∧ p x = false) → (l.filter p).length < (l.filter q).length := by
  intro l; induction l with
  | nil => intro _ h; obtain ⟨x, hx, _⟩ := h; cases hx
  | cons a rest ih =>
    intro hpq h
    have hle : (rest.filter p).length ≤ (rest.filter q).length := by
      clear ih h
      induction rest with
      | nil => simp
      | cons b rest ih2 =>
        simp only [List.filter_cons]
        cases hp : p b with
        | true => simp [hpq b hp]; exact ih2
        | false =>
          cases hq : q b with
          | true => simp; omega
          | false => simpa using ih2
    obtain ⟨x, hx, hqx, hpx⟩ := h
    simp only [List.filter_cons]
    cases List.mem_cons.mp hx with
    | inl h1 =>
      subst h1
      simp [hqx, hpx]; omega
    | inr h1 =>
      have := ih hpq ⟨x, h1, hqx, hpx⟩
      cases hp : p a with
      | true => simp [hpq a hp]; exact this
      | false =>
        cases hq : q a with
        | true => simp; omega
        | false => simpa using this

/-- number of taken names at least as long as `name` -/
def longer (taken : List String) (name : String) : Nat :=
  (taken.filter fun t => decide (name.length ≤ t.length)).length

theorem freeNameLoop_not_mem (taken : List String) : ∀ (fuel : Nat) (name : String),
    longer taken name ≤ fuel → freeNameLoop taken fuel name ∉ taken := by
  intro fuel; induction fuel with
  | zero =>
    intro name h hm
    simp only [freeNameLoop] at hm
    have : 0 < longer taken name := by
      unfold longer
      apply List.length_pos_of_mem (a := name)
      simp [List.mem_filter, hm]
    omega
  | succ fuel ih =>
    intro name h
    simp only [freeNameLoop]
    by_cases hc : taken.contains name = true
    · simp only [hc, if_true]
      apply ih
      have hm : name ∈ taken := by simpa using hc
      have : longer taken (name ++ "_") < longer taken name := by
        unfold longer
        apply filter_length_lt
        · intro x hx
          have hl : (name ++ "_").length = name.length + 1 := by rw [String.length_append]; rfl
          simp only [decide_eq_true_eq] at hx ⊢
          omega
        · refine ⟨name, hm, by simp, ?_⟩
          have hl : (name ++ "_").length = name.length + 1 := by rw [String.length_append]; rfl
          simp only [decide_eq_false_iff_not]
          omega
      omega
    · have hc' : taken.contains name = false := by simpa using hc
      simp only [hc', Bool.false_eq_true, if_false]
      simpa using hc'

/-- **`_free_name` is fresh** -/
theorem freeName_not_mem (taken : List String) (name : String) : freeName taken name ∉ taken := by
  apply freeNameLoop_not_mem
  unfold longer
  have := List.length_filter_le (fun t => decide (name.length ≤ t.length)) taken
  omega

/-! ### what the generator keeps true of (`taken`, `functions`, the references emitted so far) -/

structure Inv (c : NContent) (st : GenSt) (rs : List Ref) : Prop where
  base : ∀ k ∈ takenOf (symOf c), k ∈ st.1
  keys : ∀ k ∈ keysOf st.2, k ∈ st.1
  defsComp : ∀ kd ∈ st.2, kd.1 ∈ takenOf (symOf c) → (kd.1, (⟨kd.2.src, kd.2.params⟩ : Use)) ∈ compEntries c
  present : ∀ r ∈ rs, r.key ∈ keysOf st.2
  refsComp : ∀ r ∈ rs, r.key ∈ takenOf (symOf c) → (r.key, (⟨r.src, r.args⟩ : Use)) ∈ compEntries c
  genOk : ∀ r ∈ rs, r.key ∉ takenOf (symOf c) → refOk st.2 r = true
  allOk : keysInjective c = true → ∀ r ∈ rs, refOk st.2 r = true

theorem Inv.mono {c : NContent} {st : GenSt} {rs rs' : List Ref} (h : Inv c st rs) (hs : ∀ r ∈ rs', r ∈ rs) :
    Inv c st rs' :=
  ⟨h.base, h.keys, h.defsComp, fun r hr => h.present r (hs r hr), fun r hr => h.refsComp r (hs r hr),
   fun r hr => h.genOk r (hs r hr), fun hk r hr => h.allOk hk r (hs r hr)⟩

/-- a step that files a definition under a generated key -/
theorem Inv.gen {c : NContent} {st : GenSt} {rs : List Ref} (h : Inv c st rs) (name : String) (f : SymFn) :
    Inv c (freeName st.1 name :: st.1, st.2.put (freeName st.1 name) f)
      ({ key := freeName st.1 name, args := f.args, src := f.src } :: rs) := by
  have hfresh := freeName_not_mem st.1 name
  have hnk : ∀ r : Ref, refOk st.2 r = true → r.key ≠ freeName st.1 name := by
    intro r hr heq
    exact hfresh (heq ▸ h.keys _ (refOk_key_mem hr))
  refine ⟨fun k hk => List.mem_cons_of_mem _ (h.base k hk), ?_, ?_, ?_, ?_, ?_, ?_⟩
  · intro k hk
    rcases (mem_keys_put _ _ _ _).mp hk with h1 | h1
    · subst h1; exact List.mem_cons_self
    · exact List.mem_cons_of_mem _ (h.keys k h1)
  · intro kd hkd hT
    rcases mem_omInsert _ _ _ _ hkd with h1 | h1
    · exact h.defsComp kd h1 hT
    · subst h1; exact absurd (h.base _ hT) hfresh
  · intro r hr
    cases List.mem_cons.mp hr with
    | inl h1 => subst h1; exact (mem_keys_put _ _ _ _).mpr (Or.inl rfl)
    | inr h1 => exact (mem_keys_put _ _ _ _).mpr (Or.inr (h.present r h1))
  · intro r hr hT
    cases List.mem_cons.mp hr with
    | inl h1 => subst h1; exact absurd (h.base _ hT) hfresh
    | inr h1 => exact h.refsComp r h1 hT
  · intro r hr hT
    cases List.mem_cons.mp hr with
    | inl h1 => subst h1; simp [refOk_put]
    | inr h1 =>
      have := h.genOk r h1 hT
      rw [refOk_put]; simp [hnk r this, this]
  · intro hk r hr
    cases List.mem_cons.mp hr with
    | inl h1 => subst h1; simp [refOk_put]
    | inr h1 =>
      have := h.allOk hk r h1
      rw [refOk_put]; simp [hnk r this, this]

/-- a step that files the definition of a derived quantity's / reaction's function under its `__name__` -/
theorem Inv.comp {c : NContent} {st : GenSt} {rs : List Ref} (h : Inv c st rs) (f : SymFn)
    (hT : f.fnName ∈ takenOf (symOf c)) (hf : (f.fnName, (⟨f.src, f.args⟩ : Use)) ∈ compEntries c) :
    Inv c (st.1, st.2.put f.fnName f) ({ key := f.fnName, args := f.args, src := f.src } :: rs) := by
  refine ⟨h.base, ?_, ?_, ?_, ?_, ?_, ?_⟩
  · intro k hk
    rcases (mem_keys_put _ _ _ _).mp hk with h1 | h1
    · subst h1; exact h.base _ hT
    · exact h.keys k h1
  · intro kd hkd hkT
    rcases mem_omInsert _ _ _ _ hkd with h1 | h1
    · exact h.defsComp kd h1 hkT
    · subst h1; exact hf
  · intro r hr
    cases List.mem_cons.mp hr with
    | inl h1 => subst h1; exact (mem_keys_put _ _ _ _).mpr (Or.inl rfl)
    | inr h1 => exact (mem_keys_put _ _ _ _).mpr (Or.inr (h.present r h1))
  · intro r hr hrT
    cases List.mem_cons.mp hr with
    | inl h1 => subst h1; exact hf
    | inr h1 => exact h.refsComp r h1 hrT
  · intro r hr hrT
    cases List.mem_cons.mp hr with
    | inl h1 => subst h1; exact absurd hT hrT
    | inr h1 =>
      have hne : r.key ≠ f.fnName := fun heq => hrT (heq ▸ hT)
      rw [refOk_put]; simp [hne, h.genOk r h1 hrT]
  · intro hk r hr
    cases List.mem_cons.mp hr with
    | inl h1 => subst h1; simp [refOk_put]
    | inr h1 =>
      rw [refOk_put]
      by_cases heq : r.key = f.fnName
      · have hin := h.refsComp r h1 (heq ▸ hT)
        rw [heq] at hin
        have := List.all_eq_true.mp (List.all_eq_true.mp hk _ hf) _ hin
        simp only [bne_self_eq_false, Bool.false_or, beq_iff_eq] at this
        simp [heq, this]
      · simp [heq, h.allOk hk r h1]

theorem genInits_inv {c : NContent} (mk : Name → BVal → Call) (hmk : ∀ k b, (mk k b).refs = b.refs) :
    ∀ (l : List (Name × SymVal)) (st : GenSt) (rs : List Ref), Inv c st rs →
    Inv c (genInits mk l st).1 ((genInits mk l st).2.flatMap Call.refs ++ rs) := by
  intro l; induction l with
  | nil => intro st rs h; exact h
  | cons kv rest ih =>
    intro st rs h
    obtain ⟨k, v⟩ := kv
    cases v with
    | num q =>
      simp only [genInits, genInit, List.flatMap_cons, hmk, BVal.refs, List.nil_append]
      exact ih st rs h
    | fn f =>
      have := ih _ _ (h.gen ("init_" ++ f.fnName) f)
      simp only [genInits, genInit, List.flatMap_cons, hmk, BVal.refs]
      refine this.mono ?_
      intro r hr
      simp only [List.mem_append, List.mem_cons, List.mem_singleton, List.not_mem_nil, or_false] at hr ⊢
      rcases hr with (h1 | h1) | h1
      · exact Or.inr (Or.inl h1)
      · exact Or.inl h1
      · exact Or.inr (Or.inr h1)

theorem genDerived_inv {c : NContent} : ∀ (l : List (Name × SymFn)) (st : GenSt) (rs : List Ref),
    (∀ kv ∈ l, kv.2.fnName ∈ takenOf (symOf c) ∧ (kv.2.fnName, (⟨kv.2.src, kv.2.args⟩ : Use)) ∈ compEntries c) →
    Inv c st rs → Inv c (genDerived l st).1 ((genDerived l st).2.flatMap Call.refs ++ rs) := by
  intro l; induction l with
  | nil => intro st rs _ h; exact h
  | cons kv rest ih =>
    intro st rs hl h
    obtain ⟨k, f⟩ := kv
    have hf := hl (k, f) List.mem_cons_self
    have := ih _ _ (fun kv hkv => hl kv (List.mem_cons_of_mem _ hkv)) (h.comp f hf.1 hf.2)
    simp only [genDerived, List.flatMap_cons, Call.refs]
    refine this.mono ?_
    intro r hr
    simp only [List.mem_append, List.mem_cons, List.mem_singleton, List.not_mem_nil, or_false] at hr ⊢
    rcases hr with (h1 | h1) | h1
    · exact Or.inr (Or.inl h1)
    · exact Or.inl h1
    · exact Or.inr (Or.inr h1)

theorem genStoich_inv {c : NContent} (rxn : Name) : ∀ (l : List (Name × SymVal)) (st : GenSt) (rs : List Ref),
    Inv c st rs →
    Inv c (genStoich rxn l st).1 ((genStoich rxn l st).2.flatMap (fun vc => vc.2.refs) ++ rs) := by
  intro l; induction l with
  | nil => intro st rs h; exact h
  | cons kv rest ih =>
    intro st rs h
    obtain ⟨k, v⟩ := kv
    cases v with
    | num q =>
      simp only [genStoich, List.flatMap_cons, BVal.refs, List.nil_append]
      exact ih st rs h
    | fn f =>
      have := ih _ _ (h.gen (rxn ++ "_stoich_" ++ f.fnName) f)
      simp only [genStoich, List.flatMap_cons, BVal.refs]
      refine this.mono ?_
      intro r hr
      simp only [List.mem_append, List.mem_cons, List.mem_singleton, List.not_mem_nil, or_false] at hr ⊢
      rcases hr with (h1 | h1) | h1
      · exact Or.inr (Or.inl h1)
      · exact Or.inl h1
      · exact Or.inr (Or.inr h1)

theorem genReactions_inv {c : NContent} : ∀ (l : List (Name × SymRxn)) (st : GenSt) (rs : List Ref),
    (∀ kv ∈ l, kv.2.fn.fnName ∈ takenOf (symOf c)
      ∧ (kv.2.fn.fnName, (⟨kv.2.fn.src, kv.2.fn.args⟩ : Use)) ∈ compEntries c) →
    Inv c st rs → Inv c (genReactions l st).1 ((genReactions l st).2.flatMap Call.refs ++ rs) := by
  intro l; induction l with
  | nil => intro st rs _ h; exact h
  | cons kv rest ih =>
    intro st rs hl h
    obtain ⟨k, r⟩ := kv
    have hf := hl (k, r) List.mem_cons_self
    have h1 := genStoich_inv k r.stoich _ _ (h.comp r.fn hf.1 hf.2)
    have := ih _ _ (fun kv hkv => hl kv (List.mem_cons_of_mem _ hkv)) h1
    simp only [genReactions, List.flatMap_cons, Call.refs]
    refine this.mono ?_
    intro x hx
    simp only [List.mem_append, List.mem_cons] at hx ⊢
    rcases hx with ((h2 | h2) | h2) | h2
    · exact Or.inr (Or.inr (Or.inl h2))
    · exact Or.inr (Or.inl h2)
    · exact Or.inl h2
    · exact Or.inr (Or.inr (Or.inr h2))

/-! ### the component functions of the symbolic representation are the component entries of the model -/

theorem takenOf_symOf (c : NContent) :
    takenOf (symOf c) = c.derived.map (fun kv => (c.pyfn kv.2.fid).name)
      ++ c.rxns.map (fun kv => (c.pyfn kv.2.rate.fid).name) := by
  simp [takenOf, symOf, symFnOf, List.map_map, Function.comp_def]

theorem compEntries_keys (c : NContent) : (compEntries c).map (·.1) = takenOf (symOf c) := by
  rw [takenOf_symOf]
  simp [compEntries, List.map_map, Function.comp_def]

theorem symOf_comp (c : NContent) :
    (∀ kv ∈ (symOf c).derived, kv.2.fnName ∈ takenOf (symOf c)
      ∧ (kv.2.fnName, (⟨kv.2.src, kv.2.args⟩ : Use)) ∈ compEntries c)
    ∧ (∀ kv ∈ (symOf c).reactions, kv.2.fn.fnName ∈ takenOf (symOf c)
      ∧ (kv.2.fn.fnName, (⟨kv.2.fn.src, kv.2.fn.args⟩ : Use)) ∈ compEntries c) := by
  constructor
  · intro kv h
    simp only [symOf, List.mem_map] at h
    obtain ⟨⟨k, u⟩, hm, rfl⟩ := h
    have hin : ((c.pyfn u.fid).name, u) ∈ compEntries c := by
      simp only [compEntries, List.mem_append, List.mem_map]
      exact Or.inl ⟨_, hm, rfl⟩
    refine ⟨?_, hin⟩
    rw [← compEntries_keys]
    exact List.mem_map.mpr ⟨_, hin, rfl⟩
  · intro kv h
    simp only [symOf, List.mem_map] at h
    obtain ⟨⟨k, r⟩, hm, rfl⟩ := h
    have hin : ((c.pyfn r.rate.fid).name, r.rate) ∈ compEntries c := by
      simp only [compEntries, List.mem_append, List.mem_map]
      exact Or.inr ⟨_, hm, rfl⟩
    refine ⟨?_, hin⟩
    rw [← compEntries_keys]
    exact List.mem_map.mpr ⟨_, hin, rfl⟩

/-- the invariant holds of the finished program -/
theorem program_inv (c : NContent) :
    ∃ t, Inv c (t, (genProgram (symOf c)).defs) ((genProgram (symOf c)).build.flatMap Call.refs) := by
  have h0 : Inv c (takenOf (symOf c), []) [] :=
    ⟨fun k hk => hk, fun k hk => (by cases hk), fun kd hkd => (by cases hkd), fun r hr => (by cases hr),
     fun r hr => (by cases hr), fun r hr => (by cases hr), fun _ r hr => (by cases hr)⟩
  have h1 := genInits_inv (c := c) Call.addVariable (fun _ _ => rfl) (symOf c).variables _ _ h0
  have h2 := genInits_inv (c := c) Call.addParameter (fun _ _ => rfl) (symOf c).parameters _ _ h1
  have h3 := genDerived_inv (symOf c).derived _ _ (symOf_comp c).1 h2
  have h4 := genReactions_inv (symOf c).reactions _ _ (symOf_comp c).2 h3
  refine ⟨_, h4.mono ?_⟩
  intro r hr
  simp only [genProgram, List.flatMap_append, List.mem_append, List.append_nil] at hr ⊢
  rcases hr with ((h | h) | h) | h
  · exact Or.inr (Or.inr (Or.inr h))
  · exact Or.inr (Or.inr (Or.inl h))
  · exact Or.inr (Or.inl h)
  · exact Or.inl h

/-- **the definitions generated for initial assignments and computed coefficients are never confused**, for every
    model: a builder reference whose key is not the `__name__` of a derived quantity's / reaction's function
    finds the definition generated from its own function object -/
theorem generated_refs_ok (c : NContent) :
    ∀ call ∈ (genProgram (symOf c)).build, ∀ r ∈ call.refs, r.key ∉ takenOf (symOf c) →
      refOk (genProgram (symOf c)).defs r = true := by
  obtain ⟨t, h⟩ := program_inv c
  intro call hcall r hr hT
  exact h.genOk r (List.mem_flatMap.mpr ⟨call, hcall, hr⟩) hT

/-- no two different derived / reaction functions share a `__name__` ⇒ every reference finds its own definition -/
theorem srcOk_of_input (c : NContent) (hk : keysInjective c = true) : (genProgram (symOf c)).srcOk = true := by
  obtain ⟨t, h⟩ := program_inv c
  simp only [Program.srcOk, List.all_eq_true]
  intro call hcall r hr
  exact h.allOk hk r (List.mem_flatMap.mpr ⟨call, hcall, hr⟩)

/-- no use repeats an argument ⇒ no emitted definition repeats a parameter -/
theorem defs_nodup_of_input (c : NContent) (ha : argsNoDup c = true) :
    ((genProgram (symOf c)).defs.all fun kd => !hasDup kd.2.params) = true := by
  simp only [List.all_eq_true]
  intro kd hkd
  have h1 := (symOf_defs_ok c kd hkd).2
  have := List.all_eq_true.mp ha _ h1
  simpa using this

/-! ### the names check (`_check_function_names`) -/

theorem compFns_symOf (c : NContent) : compFns (symOf c) = (compEntries c).map fun e => symFnOf c e.2 := by
  simp [compFns, symOf, compEntries, List.map_map, Function.comp_def]

theorem compEntries_name {c : NContent} {e : String × Use} (h : e ∈ compEntries c) :
    (c.pyfn e.2.fid).name = e.1 := by
  simp only [compEntries, List.mem_append, List.mem_map] at h
  rcases h with ⟨kv, _, rfl⟩ | ⟨kv, _, rfl⟩ <;> rfl

theorem consistent_entry {c : NContent} (hcons : namesConsistent (symOf c) = true) {e : String × Use}
    (he : e ∈ compEntries c) {g : SymFn} (hr : refFn (compFns (symOf c)) e.1 = some g) : g.src = e.2.fid := by
  simp only [namesConsistent, List.all_eq_true] at hcons
  have hm : symFnOf c e.2 ∈ compFns (symOf c) := by
    rw [compFns_symOf]; exact List.mem_map_of_mem (f := fun e => symFnOf c e.2) he
  have := hcons _ hm
  have hn : (symFnOf c e.2).fnName = e.1 := compEntries_name he
  rw [hn, hr] at this
  simpa [symFnOf] using this

theorem refFn_some {c : NContent} {e : String × Use} (he : e ∈ compEntries c) (hd : hasDup e.2.args = false) :
    ∃ g, refFn (compFns (symOf c)) e.1 = some g := by
  cases hr : refFn (compFns (symOf c)) e.1 with
  | some g => exact ⟨g, rfl⟩
  | none =>
    exfalso
    have hm : symFnOf c e.2 ∈ compFns (symOf c) := by
      rw [compFns_symOf]; exact List.mem_map_of_mem (f := fun e => symFnOf c e.2) he
    have := List.find?_eq_none.mp hr _ hm
    have hn : (c.pyfn e.2.fid).name = e.1 := compEntries_name he
    simp [symFnOf, hd] at this
    exact this hn

/-- no two different derived / reaction functions share a `__name__` ⇒ the names check passes -/
theorem consistent_of_input (c : NContent) (hk : keysInjective c = true) : namesConsistent (symOf c) = true := by
  simp only [namesConsistent, List.all_eq_true]
  intro f hf
  cases hr : refFn (compFns (symOf c)) f.fnName with
  | none => rfl
  | some g =>
    have hp := List.find?_some hr
    have hgm := List.mem_of_find?_eq_some hr
    rw [compFns_symOf] at hf hgm
    obtain ⟨e1, he1, rfl⟩ := List.mem_map.mp hf
    obtain ⟨e2, he2, rfl⟩ := List.mem_map.mp hgm
    have hn1 : (symFnOf c e1.2).fnName = e1.1 := compEntries_name he1
    have hn2 : (symFnOf c e2.2).fnName = e2.1 := compEntries_name he2
    have hname : e2.1 = e1.1 := by
      rw [hn1, hn2] at hp
      simp only [Bool.and_eq_true, beq_iff_eq] at hp
      exact hp.1
    have := List.all_eq_true.mp (List.all_eq_true.mp hk e2 he2) e1 he1
    simp only [hname, bne_self_eq_false, Bool.false_or, beq_iff_eq] at this
    simp [symFnOf, this]

/-- the names check passes and no emitted definition repeats a parameter ⇒ every reference finds the definition of
    its own function object -/
theorem srcOk_of_consistent (c : NContent) (hcons : namesConsistent (symOf c) = true)
    (hnd : ((genProgram (symOf c)).defs.all fun kd => !hasDup kd.2.params) = true) :
    (genProgram (symOf c)).srcOk = true := by
  obtain ⟨t, h⟩ := program_inv c
  simp only [Program.srcOk, List.all_eq_true]
  intro call hcall r hr
  have hmem : r ∈ (genProgram (symOf c)).build.flatMap Call.refs := List.mem_flatMap.mpr ⟨call, hcall, hr⟩
  by_cases hT : r.key ∈ takenOf (symOf c)
  · obtain ⟨d, hd⟩ := lookup_some_of_keys (h.present r hmem)
    have hdm := lookup_some_mem _ _ _ hd
    have hde := h.defsComp _ hdm hT
    have hre := h.refsComp r hmem hT
    have hdn : hasDup d.params = false := by
      have := List.all_eq_true.mp hnd _ hdm
      simpa using this
    obtain ⟨g, hg⟩ := refFn_some hde hdn
    have h1 := consistent_entry hcons hde hg
    have h2 := consistent_entry hcons hre hg
    simp only at h1 h2
    simp [refOk, hd, ← h1, h2]
  · exact h.genOk r hmem hT

/-- **input-level sufficient condition** for the hypothesis of the round-trip theorem -/
theorem refsResolve_of_input (c : NContent) (hk : keysInjective c = true) (ha : argsNoDup c = true) :
    refsResolve c = true := by
  unfold refsResolve
  rw [toSymbolicRepr_nil]
  have h2 : ((genProgram (symOf c)).build.all fun call => call.refs.all (refOk (genProgram (symOf c)).defs)) = true :=
    srcOk_of_input c hk
  simp only [Program.refsOk, Bool.and_eq_true]
  exact ⟨consistent_of_input c hk, defs_nodup_of_input c ha, h2⟩

/-- … and for the weaker hypothesis that allows repeated arguments -/
theorem refsSrcOk_of_input (c : NContent) (hk : keysInjective c = true) : refsSrcOk c = true := by
  unfold refsSrcOk
  rw [toSymbolicRepr_nil]
  simp only [Bool.and_eq_true]
  exact ⟨consistent_of_input c hk, srcOk_of_input c hk⟩

/-- **round trip, every model**: the model is rebuilt, or generation raises ValueError (two different functions with
    one name, or a repeated argument) -/
theorem roundTrip_or_raises_all (c : NContent) (hc : Canonical c) :
    roundTrip [] c = .ok c.toContent ∨ ∃ m, roundTrip [] c = .error (.valueError m) := by
  cases hcons : namesConsistent (symOf c) with
  | false =>
    right
    refine ⟨"two different functions have the same name", ?_⟩
    unfold roundTrip
    rw [toSymbolicRepr_nil]
    simp [bind, Except.bind, genMxlpy, hcons]
  | true =>
    cases hnd : ((genProgram (symOf c)).defs.all fun kd => !hasDup kd.2.params) with
    | true =>
      left
      refine roundTrip_ok c hc ?_
      unfold refsResolve
      rw [toSymbolicRepr_nil]
      simp only [Program.refsOk, Bool.and_eq_true]
      exact ⟨hcons, hnd, srcOk_of_consistent c hcons hnd⟩
    | false =>
      right
      refine ⟨"an argument is repeated", ?_⟩
      unfold roundTrip
      rw [toSymbolicRepr_nil]
      simp [bind, Except.bind, genMxlpy, hcons, hnd]

/-- (kept for the older statement: the hypothesis is no longer needed) -/
theorem roundTrip_or_raises (c : NContent) (hc : Canonical c) (_h : refsSrcOk c = true) :
    roundTrip [] c = .ok c.toContent ∨ ∃ m, roundTrip [] c = .error (.valueError m) :=
  roundTrip_or_raises_all c hc

end Mxl.C11
