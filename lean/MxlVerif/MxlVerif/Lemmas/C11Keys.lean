/-
C11: the program-level hypothesis `refsResolve` follows from two conditions on the input model alone:
no key is shared by two different function objects, and no use repeats an argument.  Core Lean only.
-/
import MxlVerif.Lemmas.C11
namespace Mxl.C11

theorem lookup_some_of_keys {β} : ∀ {m : List (String × β)} {a : String},
    a ∈ m.map (·.1) → ∃ v, m.lookup a = some v := by
  intro m; induction m with
  | nil => intro a h; cases h
  | cons kv rest ih =>
    intro a h
    obtain ⟨k, w⟩ := kv
    by_cases hak : a = k
    · subst hak; exact ⟨w, by simp [List.lookup_cons]⟩
    · simp only [List.map_cons, List.mem_cons] at h
      obtain ⟨v, hv⟩ := ih (h.resolve_left hak)
      have : (a == k) = false := by simpa using hak
      exact ⟨v, by simp [List.lookup_cons, this, hv]⟩

/-- every definition in the dict was put there by an entry of the model with that key -/
def FromEntries (c : NContent) (fs : Fns) : Prop :=
  ∀ kd ∈ fs, (kd.1, (⟨kd.2.src, kd.2.params⟩ : Use)) ∈ entries c

def keysOf (fs : Fns) : List String := fs.map (·.1)

theorem mem_keys_put (fs : Fns) (key : String) (f : SymFn) (k : String) :
    k ∈ keysOf (fs.put key f) ↔ (k = key ∨ k ∈ keysOf fs) := by
  unfold keysOf Fns.put
  induction fs with
  | nil => simp [omInsert]
  | cons kv rest ih =>
    obtain ⟨k', v'⟩ := kv
    simp only [omInsert]
    by_cases hk : (k' == key) = true
    · have : k' = key := by simpa using hk
      subst this
      simp
    · have hk' : (k' == key) = false := by simpa using hk
      simp only [hk', Bool.false_eq_true, if_false, List.map_cons, List.mem_cons, ih]
      constructor
      · rintro (h | h | h) <;> simp_all
      · rintro (h | h | h) <;> simp_all

theorem FromEntries.put {c : NContent} {fs : Fns} (h : FromEntries c fs) {key : String} {f : SymFn}
    (hf : (key, (⟨f.src, f.args⟩ : Use)) ∈ entries c) : FromEntries c (fs.put key f) := by
  intro kd hkd
  rcases mem_omInsert _ _ _ _ hkd with h1 | h1
  · exact h _ h1
  · subst h1; exact hf

/-- what one generator step guarantees: old keys stay, emitted references have their key in the dict, and the
    dict keeps coming from entries -/
structure StepOk (c : NContent) (fs fs' : Fns) (refs : List Ref) : Prop where
  mono : ∀ k ∈ keysOf fs, k ∈ keysOf fs'
  present : ∀ r ∈ refs, r.key ∈ keysOf fs'
  from_entries : FromEntries c fs → FromEntries c fs'
  refs_in : ∀ r ∈ refs, (r.key, (⟨r.src, r.args⟩ : Use)) ∈ entries c

def SymValIn (c : NContent) (key : String → String) : SymVal → Prop
  | .num _ => True
  | .fn f => (key f.fnName, (⟨f.src, f.args⟩ : Use)) ∈ entries c

theorem genInits_step {c : NContent} (taken : List String) (mk : Name → BVal → Call)
    (hmk : ∀ k b, (mk k b).refs = b.refs) : ∀ (l : List (Name × SymVal)) (fs : Fns),
    (∀ kv ∈ l, SymValIn c (fun n => freeName taken ("init_" ++ n)) kv.2) →
    StepOk c fs (genInits taken mk l fs).1 ((genInits taken mk l fs).2.flatMap Call.refs) := by
  intro l; induction l with
  | nil => intro fs _; exact ⟨fun k h => h, fun r h => (by cases h), fun h => h, fun r h => (by cases h)⟩
  | cons kv rest ih =>
    intro fs hl
    obtain ⟨k, v⟩ := kv
    have hrest : ∀ kv ∈ rest, SymValIn c (fun n => freeName taken ("init_" ++ n)) kv.2 :=
      fun kv hkv => hl kv (List.mem_cons_of_mem _ hkv)
    cases v with
    | num q =>
      have s := ih fs hrest
      simp only [genInits, genInit, List.flatMap_cons, hmk, BVal.refs, List.nil_append]
      exact s
    | fn f =>
      have hf : (freeName taken ("init_" ++ f.fnName), (⟨f.src, f.args⟩ : Use)) ∈ entries c :=
        hl (k, .fn f) List.mem_cons_self
      have s := ih (fs.put (freeName taken ("init_" ++ f.fnName)) f) hrest
      simp only [genInits, genInit, List.flatMap_cons, hmk, BVal.refs, List.cons_append, List.nil_append]
      refine ⟨fun k' hk' => s.mono k' ((mem_keys_put _ _ _ _).mpr (Or.inr hk')), ?_, fun h => s.from_entries (h.put hf), ?_⟩
      · intro r hr
        cases List.mem_cons.mp hr with
        | inl h1 => subst h1; exact s.mono _ ((mem_keys_put _ _ _ _).mpr (Or.inl rfl))
        | inr h1 => exact s.present r h1
      · intro r hr
        cases List.mem_cons.mp hr with
        | inl h1 => subst h1; exact hf
        | inr h1 => exact s.refs_in r h1

theorem genDerived_step {c : NContent} : ∀ (l : List (Name × SymFn)) (fs : Fns),
    (∀ kv ∈ l, (kv.2.fnName, (⟨kv.2.src, kv.2.args⟩ : Use)) ∈ entries c) →
    StepOk c fs (genDerived l fs).1 ((genDerived l fs).2.flatMap Call.refs) := by
  intro l; induction l with
  | nil => intro fs _; exact ⟨fun k h => h, fun r h => (by cases h), fun h => h, fun r h => (by cases h)⟩
  | cons kv rest ih =>
    intro fs hl
    obtain ⟨k, f⟩ := kv
    have hf := hl (k, f) List.mem_cons_self
    have s := ih (fs.put f.fnName f) (fun kv hkv => hl kv (List.mem_cons_of_mem _ hkv))
    simp only [genDerived, List.flatMap_cons, Call.refs, List.cons_append, List.nil_append]
    refine ⟨fun k' hk' => s.mono k' ((mem_keys_put _ _ _ _).mpr (Or.inr hk')), ?_, fun h => s.from_entries (h.put hf), ?_⟩
    · intro r hr
      cases List.mem_cons.mp hr with
      | inl h1 => subst h1; exact s.mono _ ((mem_keys_put _ _ _ _).mpr (Or.inl rfl))
      | inr h1 => exact s.present r h1
    · intro r hr
      cases List.mem_cons.mp hr with
      | inl h1 => subst h1; exact hf
      | inr h1 => exact s.refs_in r h1

theorem genStoich_step {c : NContent} (taken : List String) (rxn : Name) : ∀ (l : List (Name × SymVal)) (fs : Fns),
    (∀ kv ∈ l, SymValIn c (fun n => freeName taken (rxn ++ "_stoich_" ++ n)) kv.2) →
    StepOk c fs (genStoich taken rxn l fs).1 ((genStoich taken rxn l fs).2.flatMap fun vc => vc.2.refs) := by
  intro l; induction l with
  | nil => intro fs _; exact ⟨fun k h => h, fun r h => (by cases h), fun h => h, fun r h => (by cases h)⟩
  | cons kv rest ih =>
    intro fs hl
    obtain ⟨k, v⟩ := kv
    have hrest : ∀ kv ∈ rest, SymValIn c (fun n => freeName taken (rxn ++ "_stoich_" ++ n)) kv.2 :=
      fun kv hkv => hl kv (List.mem_cons_of_mem _ hkv)
    cases v with
    | num q =>
      have s := ih fs hrest
      simp only [genStoich, List.flatMap_cons, BVal.refs, List.nil_append]
      exact s
    | fn f =>
      have hf : (freeName taken (rxn ++ "_stoich_" ++ f.fnName), (⟨f.src, f.args⟩ : Use)) ∈ entries c :=
        hl (k, .fn f) List.mem_cons_self
      have s := ih (fs.put (freeName taken (rxn ++ "_stoich_" ++ f.fnName)) f) hrest
      simp only [genStoich, List.flatMap_cons, BVal.refs, List.cons_append, List.nil_append]
      refine ⟨fun k' hk' => s.mono k' ((mem_keys_put _ _ _ _).mpr (Or.inr hk')), ?_, fun h => s.from_entries (h.put hf), ?_⟩
      · intro r hr
        cases List.mem_cons.mp hr with
        | inl h1 => subst h1; exact s.mono _ ((mem_keys_put _ _ _ _).mpr (Or.inl rfl))
        | inr h1 => exact s.present r h1
      · intro r hr
        cases List.mem_cons.mp hr with
        | inl h1 => subst h1; exact hf
        | inr h1 => exact s.refs_in r h1

theorem genReactions_step {c : NContent} (taken : List String) : ∀ (l : List (Name × SymRxn)) (fs : Fns),
    (∀ kv ∈ l, (kv.2.fn.fnName, (⟨kv.2.fn.src, kv.2.fn.args⟩ : Use)) ∈ entries c
       ∧ ∀ vs ∈ kv.2.stoich, SymValIn c (fun n => freeName taken (kv.1 ++ "_stoich_" ++ n)) vs.2) →
    StepOk c fs (genReactions taken l fs).1 ((genReactions taken l fs).2.flatMap Call.refs) := by
  intro l; induction l with
  | nil => intro fs _; exact ⟨fun k h => h, fun r h => (by cases h), fun h => h, fun r h => (by cases h)⟩
  | cons kv rest ih =>
    intro fs hl
    obtain ⟨k, r⟩ := kv
    obtain ⟨hf, hst⟩ := hl (k, r) List.mem_cons_self
    have s1 := genStoich_step (c := c) taken k r.stoich (fs.put r.fn.fnName r.fn) hst
    have s2 := ih (genStoich taken k r.stoich (fs.put r.fn.fnName r.fn)).1
      (fun kv hkv => hl kv (List.mem_cons_of_mem _ hkv))
    simp only [genReactions, List.flatMap_cons, Call.refs, List.cons_append]
    refine ⟨fun k' hk' => s2.mono k' (s1.mono k' ((mem_keys_put _ _ _ _).mpr (Or.inr hk'))), ?_,
      fun h => s2.from_entries (s1.from_entries (h.put hf)), ?_⟩
    · intro x hx
      cases List.mem_cons.mp hx with
      | inl h1 => subst h1; exact s2.mono _ (s1.mono _ ((mem_keys_put _ _ _ _).mpr (Or.inl rfl)))
      | inr h1 =>
        cases List.mem_append.mp h1 with
        | inl h2 => exact s2.mono _ (s1.present x h2)
        | inr h2 => exact s2.present x h2
    · intro x hx
      cases List.mem_cons.mp hx with
      | inl h1 => subst h1; exact hf
      | inr h1 =>
        cases List.mem_append.mp h1 with
        | inl h2 => exact s1.refs_in x h2
        | inr h2 => exact s2.refs_in x h2

/-! ### the entries of the symbolic representation are the entries of the model -/

theorem takenOf_symOf (c : NContent) :
    takenOf (symOf c) = c.derived.map (fun kv => (c.pyfn kv.2.fid).name)
      ++ c.rxns.map (fun kv => (c.pyfn kv.2.rate.fid).name) := by
  simp [takenOf, symOf, symFnOf, List.map_map, Function.comp_def]

theorem entries_var {c : NContent} {k : Name} {u : Use} (h : (k, NVal.ia u) ∈ c.vars) :
    (freeName (takenOf (symOf c)) ("init_" ++ (c.pyfn u.fid).name), u) ∈ entries c := by
  rw [takenOf_symOf]
  simp only [entries, List.mem_append, List.mem_filterMap]
  exact Or.inl (Or.inl (Or.inl ⟨_, h, rfl⟩))

theorem entries_par {c : NContent} {k : Name} {u : Use} (h : (k, NVal.ia u) ∈ c.pars) :
    (freeName (takenOf (symOf c)) ("init_" ++ (c.pyfn u.fid).name), u) ∈ entries c := by
  rw [takenOf_symOf]
  simp only [entries, List.mem_append, List.mem_filterMap]
  exact Or.inl (Or.inl (Or.inr ⟨_, h, rfl⟩))

theorem entries_derived {c : NContent} {k : Name} {u : Use} (h : (k, u) ∈ c.derived) :
    ((c.pyfn u.fid).name, u) ∈ entries c := by
  simp only [entries, List.mem_append, List.mem_map]
  exact Or.inl (Or.inr ⟨_, h, rfl⟩)

theorem entries_rate {c : NContent} {k : Name} {r : NRxn} (h : (k, r) ∈ c.rxns) :
    ((c.pyfn r.rate.fid).name, r.rate) ∈ entries c := by
  simp only [entries, List.mem_append, List.mem_flatMap]
  exact Or.inr ⟨_, h, List.mem_cons_self⟩

theorem entries_coef {c : NContent} {k v : Name} {r : NRxn} {u : Use} (h : (k, r) ∈ c.rxns)
    (hv : (v, NCoef.dyn u) ∈ r.stoich) :
    (freeName (takenOf (symOf c)) (k ++ "_stoich_" ++ (c.pyfn u.fid).name), u) ∈ entries c := by
  rw [takenOf_symOf]
  simp only [entries, List.mem_append, List.mem_flatMap]
  refine Or.inr ⟨_, h, List.mem_cons_of_mem _ ?_⟩
  simp only [List.mem_filterMap]
  exact ⟨_, hv, rfl⟩

/-- **input-level sufficient condition** for the hypothesis of the round-trip theorem -/
theorem input_facts (c : NContent) (hk : keysInjective c = true) :
    (argsNoDup c = true → ((genProgram (symOf c)).defs.all fun kd => !hasDup kd.2.params) = true)
    ∧ (genProgram (symOf c)).srcOk = true := by
  -- the four generator steps on the symbolic representation of c
  have hV : ∀ kv ∈ (symOf c).variables,
      SymValIn c (fun n => freeName (takenOf (symOf c)) ("init_" ++ n)) kv.2 := by
    intro kv h
    simp only [symOf, List.mem_map] at h
    obtain ⟨⟨k, v⟩, hm, rfl⟩ := h
    cases v with
    | plain q => trivial
    | ia u => exact entries_var hm
  have hP : ∀ kv ∈ (symOf c).parameters,
      SymValIn c (fun n => freeName (takenOf (symOf c)) ("init_" ++ n)) kv.2 := by
    intro kv h
    simp only [symOf, List.mem_map] at h
    obtain ⟨⟨k, v⟩, hm, rfl⟩ := h
    cases v with
    | plain q => trivial
    | ia u => exact entries_par hm
  have hD : ∀ kv ∈ (symOf c).derived, (kv.2.fnName, (⟨kv.2.src, kv.2.args⟩ : Use)) ∈ entries c := by
    intro kv h
    simp only [symOf, List.mem_map] at h
    obtain ⟨⟨k, u⟩, hm, rfl⟩ := h
    exact entries_derived hm
  have hR : ∀ kv ∈ (symOf c).reactions, (kv.2.fn.fnName, (⟨kv.2.fn.src, kv.2.fn.args⟩ : Use)) ∈ entries c
      ∧ ∀ vs ∈ kv.2.stoich, SymValIn c (fun n => freeName (takenOf (symOf c)) (kv.1 ++ "_stoich_" ++ n)) vs.2 := by
    intro kv h
    simp only [symOf, List.mem_map] at h
    obtain ⟨⟨k, r⟩, hm, rfl⟩ := h
    refine ⟨entries_rate hm, ?_⟩
    intro vs hvs
    simp only [List.mem_map] at hvs
    obtain ⟨⟨v, cf⟩, hm2, rfl⟩ := hvs
    cases cf with
    | num q => trivial
    | dyn u => exact entries_coef hm hm2
  have s1 := genInits_step (c := c) (takenOf (symOf c)) Call.addVariable (fun _ _ => rfl) (symOf c).variables [] hV
  have s2 := genInits_step (c := c) (takenOf (symOf c)) Call.addParameter (fun _ _ => rfl) (symOf c).parameters
    (genInits (takenOf (symOf c)) Call.addVariable (symOf c).variables []).1 hP
  have s3 := genDerived_step (c := c) (symOf c).derived
    (genInits (takenOf (symOf c)) Call.addParameter (symOf c).parameters
      (genInits (takenOf (symOf c)) Call.addVariable (symOf c).variables []).1).1 hD
  have s4 := genReactions_step (c := c) (takenOf (symOf c)) (symOf c).reactions
    (genDerived (symOf c).derived
      (genInits (takenOf (symOf c)) Call.addParameter (symOf c).parameters
        (genInits (takenOf (symOf c)) Call.addVariable (symOf c).variables []).1).1).1 hR
  have hfrom : FromEntries c (genProgram (symOf c)).defs :=
    s4.from_entries (s3.from_entries (s2.from_entries (s1.from_entries (by intro kd h; cases h))))
  have hinj : ∀ e1 ∈ entries c, ∀ e2 ∈ entries c, e1.1 = e2.1 → e1.2.fid = e2.2.fid := by
    intro e1 h1 e2 h2 heq
    have := List.all_eq_true.mp (List.all_eq_true.mp hk e1 h1) e2 h2
    simpa [heq] using this
  simp only [Program.srcOk, List.all_eq_true]
  constructor
  · intro ha kd hkd
    have := List.all_eq_true.mp ha _ (hfrom kd hkd)
    simpa using this
  · intro call hcall r hr
    -- r is one of the references of the four segments
    have hmem : r ∈ (genProgram (symOf c)).build.flatMap Call.refs :=
      List.mem_flatMap.mpr ⟨call, hcall, hr⟩
    have hsplit : (genProgram (symOf c)).build.flatMap Call.refs
        = (genInits (takenOf (symOf c)) Call.addVariable (symOf c).variables []).2.flatMap Call.refs
          ++ (genInits (takenOf (symOf c)) Call.addParameter (symOf c).parameters
              (genInits (takenOf (symOf c)) Call.addVariable (symOf c).variables []).1).2.flatMap Call.refs
          ++ (genDerived (symOf c).derived
              (genInits (takenOf (symOf c)) Call.addParameter (symOf c).parameters
                (genInits (takenOf (symOf c)) Call.addVariable (symOf c).variables []).1).1).2.flatMap Call.refs
          ++ (genReactions (takenOf (symOf c)) (symOf c).reactions
              (genDerived (symOf c).derived
                (genInits (takenOf (symOf c)) Call.addParameter (symOf c).parameters
                  (genInits (takenOf (symOf c)) Call.addVariable (symOf c).variables []).1).1).1).2.flatMap Call.refs := by
      simp [genProgram, List.flatMap_append]
    rw [hsplit] at hmem
    have hpresent : r.key ∈ keysOf (genProgram (symOf c)).defs ∧ (r.key, (⟨r.src, r.args⟩ : Use)) ∈ entries c := by
      have hdefs : (genProgram (symOf c)).defs = (genReactions (takenOf (symOf c)) (symOf c).reactions
              (genDerived (symOf c).derived
                (genInits (takenOf (symOf c)) Call.addParameter (symOf c).parameters
                  (genInits (takenOf (symOf c)) Call.addVariable (symOf c).variables []).1).1).1).1 := by
        simp [genProgram]
      rw [hdefs]
      rcases List.mem_append.mp hmem with h | h
      · rcases List.mem_append.mp h with h | h
        · rcases List.mem_append.mp h with h | h
          · exact ⟨s4.mono _ (s3.mono _ (s2.mono _ (s1.present r h))), s1.refs_in r h⟩
          · exact ⟨s4.mono _ (s3.mono _ (s2.present r h)), s2.refs_in r h⟩
        · exact ⟨s4.mono _ (s3.present r h), s3.refs_in r h⟩
      · exact ⟨s4.present r h, s4.refs_in r h⟩
    obtain ⟨hkey, hin⟩ := hpresent
    obtain ⟨d, hd⟩ := lookup_some_of_keys hkey
    have hde := hfrom (r.key, d) (lookup_some_mem _ _ _ hd)
    have := hinj _ hde _ hin rfl
    simp only at this
    simp [refOk, hd, this]

/-- **input-level sufficient condition** for the hypothesis of the round-trip theorem -/
theorem refsResolve_of_input (c : NContent) (hk : keysInjective c = true) (ha : argsNoDup c = true) :
    refsResolve c = true := by
  unfold refsResolve
  rw [toSymbolicRepr_nil]
  have h := input_facts c hk
  have h2 : ((genProgram (symOf c)).build.all fun call => call.refs.all (refOk (genProgram (symOf c)).defs)) = true := h.2
  simp only [Program.refsOk, Bool.and_eq_true]
  exact ⟨h.1 ha, h2⟩

/-- … and for the weaker hypothesis that only excludes F-C11-1 -/
theorem refsSrcOk_of_input (c : NContent) (hk : keysInjective c = true) : refsSrcOk c = true := by
  unfold refsSrcOk
  rw [toSymbolicRepr_nil]
  exact (input_facts c hk).2

/-- **round trip, repeated arguments allowed**: the model is rebuilt, or generation raises ValueError -/
theorem roundTrip_or_raises (c : NContent) (hc : Canonical c) (h : refsSrcOk c = true) :
    roundTrip [] c = .ok c.toContent ∨ ∃ m, roundTrip [] c = .error (.valueError m) := by
  cases hnd : ((genProgram (symOf c)).defs.all fun kd => !hasDup kd.2.params) with
  | true =>
    left
    refine roundTrip_ok c hc ?_
    unfold refsSrcOk at h
    unfold refsResolve
    rw [toSymbolicRepr_nil] at h ⊢
    simp only [Program.refsOk, Bool.and_eq_true]
    exact ⟨hnd, h⟩
  | false =>
    right
    refine ⟨"an argument is repeated", ?_⟩
    unfold roundTrip
    rw [toSymbolicRepr_nil]
    simp [bind, Except.bind, genMxlpy, hnd]

end Mxl.C11
