/- C06 helper lemmas, part 2: the fuel-indexed Python semantics — more fuel never changes a result;
   a body that returns on every path never falls through. -/
import MxlVerif.Lemmas.C06Basic
namespace Mxl.C06

theorem cmpFold_mono (ev ev' : PyExpr → Option Val) (hev : ∀ e v, ev e = some v → ev' e = some v) :
    ∀ (ops : List CmpOp) (rs : List PyExpr) (x : Rat) (v : Val),
      cmpFold ev x ops rs = some v → cmpFold ev' x ops rs = some v
  | [], [], _, _, h => by simpa [cmpFold] using h
  | [], _ :: _, _, _, h => by simp [cmpFold] at h
  | _ :: _, [], _, _, h => by simp [cmpFold] at h
  | op :: ops, r :: rs, x, v, h => by
    simp only [cmpFold] at h ⊢
    cases hr : ev r with
    | none => simp [hr] at h
    | some y =>
      rw [hev r y hr]
      rw [hr] at h
      cases y with
      | bool b => simp at h
      | obj _ => simp at h
      | num y =>
        simp only at h ⊢
        cases hc : pyCmp op x y with
        | none => simp [hc] at h
        | some b =>
          rw [hc] at h
          cases b with
          | true => exact cmpFold_mono ev ev' hev ops rs y v h
          | false => simpa using h

structure Mono1 (P : Prog) (f : Nat) : Prop where
  expr : ∀ G L env e v, evalExpr P f G L env e = some v → evalExpr P (f+1) G L env e = some v
  args : ∀ G L env es vs, evalArgs P f G L env es = some vs → evalArgs P (f+1) G L env es = some vs
  stmt : ∀ G L env s r, execStmt P f G L env s = some r → execStmt P (f+1) G L env s = some r
  body : ∀ G L env b r, execBody P f G L env b = some r → execBody P (f+1) G L env b = some r
  call : ∀ d vs v, callFn P f d vs = some v → callFn P (f+1) d vs = some v

theorem mono1 (P : Prog) : ∀ f, Mono1 P f := by
  intro f
  induction f with
  | zero =>
    constructor <;> intros <;> simp_all [evalExpr, evalArgs, execStmt, execBody, callFn]
  | succ f ih =>
    constructor
    · -- expr
      intro G L env e v h
      cases e with
      | num q => simpa [evalExpr] using h
      | name n => simpa [evalExpr] using h
      | attr p => simpa [evalExpr] using h
      | un op a =>
        rw [evalExpr] at h ⊢
        cases ha : evalExpr P f G L env a with
        | none => simp [ha] at h
        | some x => rw [ih.expr _ _ _ _ _ ha]; rw [ha] at h; exact h
      | bin op a b =>
        rw [evalExpr] at h ⊢
        cases ha : evalExpr P f G L env a with
        | none => simp [ha] at h
        | some x =>
          cases hb : evalExpr P f G L env b with
          | none => rw [ha, hb] at h; cases x <;> simp at h
          | some y => rw [ih.expr _ _ _ _ _ ha, ih.expr _ _ _ _ _ hb]; rw [ha, hb] at h; exact h
      | cmp l ops rs =>
        rw [evalExpr] at h ⊢
        cases hl : evalExpr P f G L env l with
        | none => simp [hl] at h
        | some x =>
          rw [ih.expr _ _ _ _ _ hl]; rw [hl] at h
          cases x with
          | bool b => simp at h
          | obj _ => simp at h
          | num x =>
            simp only at h ⊢
            split at h
            · cases h
            · rename_i hne
              simp only [hne, Bool.false_eq_true, ↓reduceIte]
              exact cmpFold_mono _ _ (fun e v hv => ih.expr _ _ _ _ _ hv) ops rs x v h
      | ife c t e =>
        rw [evalExpr] at h ⊢
        cases hc : evalExpr P f G L env c with
        | none => simp [hc] at h
        | some cv =>
          rw [ih.expr _ _ _ _ _ hc]; rw [hc] at h
          simp only at h ⊢
          split at h
          · rename_i ht; simp only [ht, ↓reduceIte]; exact ih.expr _ _ _ _ _ h
          · rename_i ht; simp only [ht]; exact ih.expr _ _ _ _ _ h
      | call tgt args =>
        rw [evalExpr] at h ⊢
        cases ha : evalArgs P f G L env args with
        | none => simp [ha] at h
        | some vs =>
          rw [ih.args _ _ _ _ _ ha]; rw [ha] at h
          simp only at h ⊢
          generalize pyResolve G L env tgt = tgt' at h ⊢
          cases tgt' with
          | unresolved => simp at h
          | known key => exact h
          | user g =>
            simp only at h ⊢
            cases hg : P.find g with
            | none => simp [hg] at h
            | some d => rw [hg] at h; simp only at h ⊢; exact ih.call _ _ _ h
      | callKw tgt args => simp [evalExpr] at h
      | unsupported => simp [evalExpr] at h
    · -- args
      intro G L env es vs h
      cases es with
      | nil => simpa [evalArgs] using h
      | cons a as =>
        rw [evalArgs] at h ⊢
        cases ha : evalExpr P f G L env a with
        | none => simp [ha] at h
        | some x =>
          cases hb : evalArgs P f G L env as with
          | none => simp [ha, hb] at h
          | some y => rw [ih.expr _ _ _ _ _ ha, ih.args _ _ _ _ _ hb]; rw [ha, hb] at h; exact h
    · -- stmt
      intro G L env s r h
      cases s with
      | assign x e =>
        rw [execStmt] at h ⊢
        cases he : evalExpr P f G L env e with
        | none => simp [he] at h
        | some v => rw [ih.expr _ _ _ _ _ he]; rw [he] at h; exact h
      | tupleAssign xs es =>
        rw [execStmt] at h ⊢
        split at h
        · cases h
        · rename_i hl
          simp only [hl, ↓reduceIte]
          cases he : evalArgs P f G L env es with
          | none => simp [he] at h
          | some v => rw [ih.args _ _ _ _ _ he]; rw [he] at h; exact h
      | augAssign x op e =>
        rw [execStmt] at h ⊢
        cases he : evalExpr P f G L env e with
        | none => rw [he] at h; split at h <;> simp_all
        | some v => rw [ih.expr _ _ _ _ _ he]; rw [he] at h; exact h
      | multiAssign xs e =>
        rw [execStmt] at h ⊢
        cases he : evalExpr P f G L env e with
        | none => simp [he] at h
        | some v => rw [ih.expr _ _ _ _ _ he]; rw [he] at h; exact h
      | unpackAssign xs e => simp [execStmt] at h
      | importS items => simpa [execStmt] using h
      | ifs c t e =>
        rw [execStmt] at h ⊢
        cases hc : evalExpr P f G L env c with
        | none => simp [hc] at h
        | some cv => rw [ih.expr _ _ _ _ _ hc]; rw [hc] at h; exact ih.body _ _ _ _ _ h
      | ret e =>
        rw [execStmt] at h ⊢
        cases he : evalExpr P f G L env e with
        | none => simp [he] at h
        | some v => rw [ih.expr _ _ _ _ _ he]; rw [he] at h; exact h
      | retNone => simp [execStmt] at h
      | skip => simpa [execStmt] using h
      | unhandled => simp [execStmt] at h
    · -- body
      intro G L env b r h
      cases b with
      | nil => simpa [execBody] using h
      | cons s rest =>
        rw [execBody] at h ⊢
        cases hs : execStmt P f G L env s with
        | none => simp [hs] at h
        | some o =>
          rw [ih.stmt _ _ _ _ _ hs]; rw [hs] at h
          cases o with
          | ret v => exact h
          | fall env' => exact ih.body _ _ _ _ _ h
    · -- call
      intro d vs v h
      rw [callFn] at h ⊢
      split at h
      · cases h
      · rename_i hl
        simp only [hl, ↓reduceIte]
        cases hb : execBody P f d.globals d.locals (d.params.zip vs) d.body with
        | none => simp [hb] at h
        | some o => rw [ih.body _ _ _ _ _ hb]; rw [hb] at h; exact h

theorem evalExpr_mono (P : Prog) {f f' : Nat} (hle : f ≤ f') {G L env e v}
    (h : evalExpr P f G L env e = some v) : evalExpr P f' G L env e = some v := by
  induction hle with
  | refl => exact h
  | step _ ih => exact (mono1 P _).expr _ _ _ _ _ ih

theorem execStmt_mono (P : Prog) {f f' : Nat} (hle : f ≤ f') {G L env s r}
    (h : execStmt P f G L env s = some r) : execStmt P f' G L env s = some r := by
  induction hle with
  | refl => exact h
  | step _ ih => exact (mono1 P _).stmt _ _ _ _ _ ih

theorem execBody_mono (P : Prog) {f f' : Nat} (hle : f ≤ f') {G L env b r}
    (h : execBody P f G L env b = some r) : execBody P f' G L env b = some r := by
  induction hle with
  | refl => exact h
  | step _ ih => exact (mono1 P _).body _ _ _ _ _ ih

/-! ### a body that returns on every path never falls through -/

theorem no_fall (P : Prog) : ∀ (f : Nat),
    (∀ G L env b env', bodyReturns b = true → execBody P f G L env b ≠ some (.fall env')) ∧
    (∀ G L env s env', stmtReturns s = true → execStmt P f G L env s ≠ some (.fall env')) := by
  intro f
  induction f with
  | zero => constructor <;> intros <;> simp [execBody, execStmt]
  | succ f ih =>
    constructor
    · intro G L env b env' hb h
      cases b with
      | nil => simp [bodyReturns] at hb
      | cons s rest =>
        rw [execBody] at h
        cases hs : execStmt P f G L env s with
        | none => simp [hs] at h
        | some o =>
          rw [hs] at h
          cases o with
          | ret v => simp at h
          | fall env1 =>
            simp only at h
            simp only [bodyReturns, Bool.or_eq_true] at hb
            cases hb with
            | inl hs' => exact ih.2 _ _ _ _ _ hs' hs
            | inr hr => exact ih.1 _ _ _ _ _ hr h
    · intro G L env s env' hs h
      cases s with
      | ret e =>
        rw [execStmt] at h
        cases he : evalExpr P f G L env e with
        | none => simp [he] at h
        | some v => simp [he] at h
      | ifs c t e =>
        rw [execStmt] at h
        simp only [stmtReturns, Bool.and_eq_true] at hs
        cases hc : evalExpr P f G L env c with
        | none => simp [hc] at h
        | some cv =>
          rw [hc] at h
          simp only at h
          split at h
          · exact ih.1 _ _ _ _ _ hs.1 h
          · exact ih.1 _ _ _ _ _ hs.2 h
      | assign x e => simp [stmtReturns] at hs
      | tupleAssign xs es => simp [stmtReturns] at hs
      | augAssign x op e => simp [stmtReturns] at hs
      | retNone => rw [execStmt] at h; simp at h
      | skip => simp [stmtReturns] at hs
      | unhandled => simp [stmtReturns] at hs
      | multiAssign xs e => simp [stmtReturns] at hs
      | unpackAssign xs e => simp [stmtReturns] at hs
      | importS items => simp [stmtReturns] at hs

end Mxl.C06
