/- C12 — the symbolic Jacobian is the derivative of the numeric right-hand side (core Lean only). -/
import MxlVerif.Lemmas.C12Perm
namespace Mxl.C12
open Mxl

theorem zip_set {α β} : ∀ (l : List α) (xs : List β) (j : Nat) (v : β) (hj : j < l.length),
    l.zip (xs.set j v) = (l.zip xs).set j (l[j], v) := by
  intro l
  induction l with
  | nil => intro xs j v hj; simp at hj
  | cons a l ih =>
    intro xs j v hj
    cases xs with
    | nil => simp
    | cons x xs =>
      cases j with
      | zero => simp
      | succ j => simp [ih xs j v (by simpa using hj)]

theorem lookup_set_nodup {β} : ∀ (l : List (Name × β)) (j : Nat) (k : Name) (v : β) (n : Name),
    (omKeys l).Nodup → (hj : j < l.length) → l[j].1 = k →
    (l.set j (k, v)).lookup n = if n = k then some v else l.lookup n := by
  intro l
  induction l with
  | nil => intro j k v n _ hj; simp at hj
  | cons kv l ih =>
    obtain ⟨k', v'⟩ := kv
    intro j k v n hn hj hk
    have hn' : k' ∉ omKeys l ∧ (omKeys l).Nodup := by simpa [omKeys, List.nodup_cons] using hn
    cases j with
    | zero =>
      simp at hk; subst hk
      simp only [List.set_cons_zero, lookup_cons_eq]
      by_cases h1 : n = k' <;> simp [h1]
    | succ j =>
      simp only [List.set_cons_succ, lookup_cons_eq]
      have hj' : j < l.length := by simpa using hj
      have hk' : l[j].1 = k := by simpa using hk
      rw [ih j k v n hn'.2 hj' hk']
      have hkin : k ∈ omKeys l := by
        rw [← hk']; exact List.mem_map.mpr ⟨l[j], List.getElem_mem _, rfl⟩
      by_cases h1 : n = k'
      · subst h1
        have : n ≠ k := fun h => hn'.1 (h ▸ hkin)
        simp [this]
      · simp [h1]

theorem keys_zip_eq {β} (l : List Name) (xs : List β) (h : l.length = xs.length) :
    omKeys (l.zip xs) = l := by
  unfold omKeys
  exact List.map_fst_zip (Nat.le_of_eq h)

/-- displacing the `j`-th state value is updating the `j`-th variable symbol -/
theorem symEnv_set (sc : SContent) (hwf : sc.wf = true) (cache : Cache)
    (hc : createCache sc.toContent = .ok cache) (xs : List Rat) (j : Nat) (v : Rat)
    (hlen : cache.varNames.length = xs.length) (hj : j < cache.varNames.length) :
    symEnv sc cache (xs.set j v) = upd (symEnv sc cache xs) cache.varNames[j] v := by
  have w := wf_facts sc hwf
  obtain ⟨hVar, hBase⟩ := cache_facts sc cache hc
  funext n
  unfold symEnv symEnvL upd
  simp only []
  have hvN : (omKeys (cache.varNames.zip xs)).Nodup := by
    rw [keys_zip_eq _ _ hlen, hVar]; exact w.vN
  have hvN' : (omKeys (cache.varNames.zip (xs.set j v))).Nodup := by
    rw [keys_zip_eq _ _ (by simpa using hlen), hVar]; exact w.vN
  have hjz : j < (cache.varNames.zip xs).length := by simp [List.length_zip, ← hlen, hj]
  rw [List.lookup_append, List.lookup_append, List.lookup_append, List.lookup_append,
    lookup_reverse _ _ hvN, lookup_reverse _ _ hvN', zip_set _ _ _ _ hj,
    lookup_set_nodup _ j cache.varNames[j] v n hvN hjz (by simp)]
  by_cases hn : n = cache.varNames[j]
  · have hin : n ∈ omKeys sc.vars := by rw [hn, ← hVar]; exact List.getElem_mem _
    rw [lookup_reverse_none _ _ (w.v_data n hin)]
    simp [hn]
  · have : (n == cache.varNames[j]) = false := by simpa using hn
    simp [hn, this]

theorem symEnv_var (sc : SContent) (hwf : sc.wf = true) (cache : Cache)
    (hc : createCache sc.toContent = .ok cache) (xs : List Rat) (j : Nat)
    (hlen : cache.varNames.length = xs.length) (hj : j < cache.varNames.length) :
    symEnv sc cache xs cache.varNames[j] = xs[j]'(hlen ▸ hj) := by
  have w := wf_facts sc hwf
  obtain ⟨hVar, hBase⟩ := cache_facts sc cache hc
  unfold symEnv symEnvL
  have hvN : (omKeys (cache.varNames.zip xs)).Nodup := by
    rw [keys_zip_eq _ _ hlen, hVar]; exact w.vN
  have hin : cache.varNames[j] ∈ omKeys sc.vars := by rw [← hVar]; exact List.getElem_mem _
  rw [List.lookup_append, List.lookup_append, lookup_reverse_none _ _ (w.v_data _ hin),
    lookup_reverse _ _ hvN]
  have hjz : j < (cache.varNames.zip xs).length := by simp [List.length_zip, ← hlen, hj]
  have hm : (cache.varNames[j], xs[j]'(hlen ▸ hj)) ∈ cache.varNames.zip xs := by
    have := List.getElem_mem hjz
    simpa using this
  rw [lookup_of_mem_nodup _ _ _ hvN hm]
  simp

theorem callRhs_len (c : Content) (t : Rat) (xs ds : List Rat) (cache : Cache)
    (hc : createCache c = .ok cache) (h : callRhs c t xs = .ok ds) :
    cache.varNames.length = xs.length := by
  unfold callRhs at h
  simp only [hc, bind, Except.bind] at h
  split at h
  · simp at h
  · rename_i hne
    simp at hne
    exact hne.symm

end Mxl.C12
namespace Mxl.C12
open Mxl

/-- row `i`, column `j` of the symbolic Jacobian is the derivative of component `i` of the numeric
    right-hand side with respect to the `j`-th state value -/
theorem jac_of_rhs (sc : SContent) (hwf : sc.wf = true) (t : Rat) (xs : List Rat) (j : Nat) (h : Rat)
    (es : List SExpr) (ds0 dsh : List Rat) (hj : j < xs.length)
    (hs : toSymbolic sc = .ok es)
    (h0 : callRhs sc.toContent t xs = .ok ds0)
    (hh : callRhs sc.toContent t (xs.set j (xs[j] + h)) = .ok dsh) :
    ∃ cache x, createCache sc.toContent = .ok cache ∧ cache.varNames[j]? = some x ∧
      ∀ (i : Nat) (e : SExpr), es[i]? = some e →
        DenOK (symEnv sc cache xs) e → DenOK (upd (symEnv sc cache xs) x (xs[j] + h)) e →
        ds0[i]? = some (evalS (symEnv sc cache xs) e) ∧
        dsh[i]? = some (evalS (symEnv sc cache xs) e + h * evalS (symEnv sc cache xs) (D x e)
                          + h * h * remV (symEnv sc cache xs) x h e) := by
  obtain ⟨cache, hc, hv0⟩ := eqs_sound sc hwf t xs es ds0 hs h0
  obtain ⟨cache', hc', hvh⟩ := eqs_sound sc hwf t _ es dsh hs hh
  rw [hc] at hc'
  have hcc : cache' = cache := by injection hc' with h'; exact h'.symm
  rw [hcc] at hvh
  have hlen := callRhs_len _ _ _ _ _ hc h0
  have hjv : j < cache.varNames.length := hlen ▸ hj
  refine ⟨cache, cache.varNames[j], hc, by simp [hjv], ?_⟩
  intro i e hie hd0 hdh
  have hρx : symEnv sc cache xs cache.varNames[j] = xs[j] := symEnv_var sc hwf cache hc xs j hlen hjv
  have hset := symEnv_set sc hwf cache hc xs j (xs[j] + h) hlen hjv
  constructor
  · rw [← hv0, List.getElem?_map, hie]; rfl
  · rw [← hvh, List.getElem?_map, hie, hset]
    simp only [Option.map_some]
    have := taylor2 (symEnv sc cache xs) cache.varNames[j] h e hd0 (by rw [hρx]; exact hdh)
    rw [hρx] at this
    rw [this]

end Mxl.C12
