/-
C10 helper lemmas, part 10: the reported row agrees with the core's environment on every
name that is a reported column and neither a readout nor a data set; `time` is what the
row's index says.  This discharges the hypothesis of `rhsFromArgs_congr` from structural
facts about the model.
-/
import MxlVerif.Lemmas.C10Misc
namespace Mxl.C10

theorem selectRow_get {names : List Name} {env : Env} {row : Row}
    (h : selectRow names env = .ok row) {k : Name} (hk : k ∈ names) :
    Env.get row k = Env.get env k := by
  unfold selectRow at h
  have h2 := (mapE_ok_iff _ _ _).1 h
  clear h
  induction h2 with
  | nil => simp at hk
  | @cons a b as bs hab _ ih =>
    split at hab
    · cases hab
    · rename_i v hv
      cases hab
      by_cases hak : k = a
      · subst hak
        simp [Env.get, List.lookup] at hv ⊢
        cases hl : List.lookup k env with
        | none => simp [hl] at hv
        | some x => simp [hl] at hv; simp [hv]
      · have : k ∈ as := by
          simp at hk
          rcases hk with hk | hk
          · exact absurd hk hak
          · exact hk
        have hne : (k == a) = false := by simpa using hak
        simp only [Env.get, List.lookup, hne] at ih ⊢
        exact ih this

theorem readoutsInpl_get {ros : List (Name × Fn)} {env env' : Env}
    (h : readoutsInpl ros env = .ok env') {k : Name} (hk : k ∉ omKeys ros) :
    Env.get env' k = Env.get env k := by
  induction ros generalizing env with
  | nil => simp [readoutsInpl] at h; subst h; rfl
  | cons x xs ih =>
    obtain ⟨n, f⟩ := x
    unfold readoutsInpl at h
    split at h
    · cases h
    · rename_i v _
      simp [omKeys] at hk
      rw [ih h (by simpa [omKeys] using hk.2)]
      have hne : (k == n) = false := by simpa using hk.1
      simp [Env.get, Env.set, List.lookup, hne]

/-- appending entries under other names does not change what a name reads -/
theorem get_append_of_not_key (l m : Env) {k : Name} (hk : k ∉ omKeys m) :
    Env.get (l ++ m) k = Env.get l k := by
  induction l with
  | nil =>
    simp only [List.nil_append]
    induction m with
    | nil => rfl
    | cons x xs ih =>
      obtain ⟨n, v⟩ := x
      simp only [omKeys, List.map_cons, List.mem_cons, not_or] at hk
      have hne : (k == n) = false := by simpa using hk.1
      simp only [Env.get, List.lookup, hne] at ih ⊢
      exact ih (by simpa [omKeys] using hk.2)
  | cons x xs ih =>
    obtain ⟨n, v⟩ := x
    by_cases h : (k == n) = true
    · simp [Env.get, List.lookup, h]
    · have hne : (k == n) = false := by simpa using h
      simp only [List.cons_append, Env.get, List.lookup, hne] at ih ⊢
      exact ih

theorem evalReadouts_get {ros : List (Name × Fn)} {scope raw env' : Env}
    (h : evalReadouts ros scope raw = .ok env') {k : Name} (hk : k ∉ omKeys ros) :
    Env.get env' k = Env.get raw k := by
  induction ros generalizing scope raw with
  | nil => simp [evalReadouts, pure, Except.pure] at h; subst h; rfl
  | cons x xs ih =>
    obtain ⟨n, f⟩ := x
    simp only [evalReadouts, bind, Except.bind] at h
    split at h
    · cases h
    · rename_i v _
      simp [omKeys] at hk
      rw [ih h (by simpa [omKeys] using hk.2)]
      have hne : (k == n) = false := by simpa using hk.1
      simp [Env.get, Env.set, List.lookup, hne]

/-- the readouts in dependency order are readouts of the model -/
theorem mapM_lookup_keys {ros : List (Name × Fn)} {decl : List (Name × Fn)} :
    ∀ (order : List Name), order.mapM (fun k => match decl.lookup k with
        | some f => (pure (k, f) : Except Err (Name × Fn))
        | none => .error (.keyError k)) = .ok ros → ∀ k ∈ omKeys ros, k ∈ omKeys decl := by
  intro order
  induction order generalizing ros with
  | nil => intro h k hk; simp [pure, Except.pure] at h; subst h; simp [omKeys] at hk
  | cons a as ih =>
    intro h k hk
    simp only [List.mapM_cons, bind, Except.bind] at h
    split at h
    · cases h
    · rename_i x hx
      split at h
      · cases h
      · rename_i rest hrest
        simp only [pure, Except.pure, Except.ok.injEq] at h
        subst h
        simp only [omKeys, List.map_cons, List.mem_cons] at hk
        rcases hk with hk | hk
        · subst hk
          cases hl : decl.lookup a with
          | none => simp [hl] at hx
          | some f =>
            simp only [hl, pure, Except.pure, Except.ok.injEq] at hx
            subst hx
            obtain ⟨k', hm⟩ := (show ∃ k', (k', f) ∈ decl from by
              clear ih hrest
              induction decl with
              | nil => simp [List.lookup] at hl
              | cons y ys ihd =>
                obtain ⟨n, w⟩ := y
                simp only [List.lookup] at hl
                split at hl
                · cases hl; exact ⟨n, by simp⟩
                · obtain ⟨k', hk'⟩ := ihd hl; exact ⟨k', by simp [hk']⟩)
            clear hm k'
            -- the key found by lookup is `a` itself
            have : a ∈ omKeys decl := by
              clear ih hrest
              induction decl with
              | nil => simp [List.lookup] at hl
              | cons y ys ihd =>
                obtain ⟨n, w⟩ := y
                simp only [List.lookup] at hl
                split at hl
                · rename_i heq
                  have : a = n := by simpa using heq
                  simp [omKeys, this]
                · simp only [omKeys, List.map_cons, List.mem_cons]
                  exact .inr (ihd hl)
            exact this
        · exact ih hrest k (by simpa [omKeys] using hk)

theorem filter_get (dk : List Name) (env : Env) {k : Name} (hk : k ∉ dk) :
    Env.get (env.filter fun kv => !dk.contains kv.1) k = Env.get env k := by
  induction env with
  | nil => rfl
  | cons x xs ih =>
    obtain ⟨n, v⟩ := x
    simp only [List.filter_cons]
    by_cases hn : dk.contains n = true
    · simp only [hn, Bool.not_true, Bool.false_eq_true, if_false]
      have hne : (k == n) = false := by
        simp only [beq_eq_false_iff_ne, ne_eq]
        intro e; subst e
        exact hk (by simpa using hn)
      simp only [Env.get, List.lookup, hne] at ih ⊢
      exact ih
    · simp only [hn, Bool.not_false, if_true]
      by_cases hkn : (k == n) = true
      · simp [Env.get, List.lookup, hkn]
      · have hkn' : (k == n) = false := by simpa using hkn
        simp only [Env.get, List.lookup, hkn'] at ih ⊢
        exact ih

theorem setMany_get (kvs : List (Name × Rat)) (env : Env) {x : Name}
    (hx : x ∉ kvs.map (·.1)) : Env.get (env.setMany kvs) x = Env.get env x := by
  induction kvs generalizing env with
  | nil => rfl
  | cons kv rest ih =>
    obtain ⟨k, v⟩ := kv
    simp at hx
    simp only [Env.setMany]
    rw [ih (env.set k v) (by simpa using hx.2)]
    have hne : (x == k) = false := by simpa using hx.1
    simp [Env.get, Env.set, List.lookup, hne]

theorem evalInOrder_get {ts : List (Name × Comp)} {x : Name}
    (hsur : ∀ k' s, ts.lookup k' = some (.sur s) → x ∉ s.outs) :
    ∀ (ks : List Name) (env env' : Env), (∀ k' ∈ ks, k' ≠ x) →
      evalInOrder ts ks env = .ok env' → Env.get env' x = Env.get env x := by
  intro ks
  induction ks with
  | nil => intro env env' _ h; simp [evalInOrder] at h; subst h; rfl
  | cons k ks ih =>
    intro env env' hks h
    unfold evalInOrder at h
    split at h
    · cases h
    · rename_i comp hcomp
      simp only [bind, Except.bind] at h
      split at h
      · cases h
      · rename_i env1 h1
        rw [ih env1 env' (fun k' hk' => hks k' (by simp [hk'])) h]
        have hkx : k ≠ x := hks k (by simp)
        cases comp with
        | fn f =>
          simp only [Comp.calcInpl, bind, Except.bind] at h1
          split at h1
          · cases h1
          · simp only [pure, Except.pure] at h1
            cases h1
            have hne : (x == k) = false := by
              simp only [beq_eq_false_iff_ne, ne_eq]; exact fun e => hkx e.symm
            simp [Env.get, Env.set, List.lookup, hne]
        | sur s =>
          simp only [Comp.calcInpl, bind, Except.bind] at h1
          split at h1
          · cases h1
          · split at h1
            · simp only [pure, Except.pure] at h1
              cases h1
              apply setMany_get
              intro hmem
              have hx := hsur k s hcomp
              apply hx
              have : ∀ (a : List Name) (b : List Rat), x ∈ (a.zip b).map (·.1) → x ∈ a := by
                intro a
                induction a with
                | nil => intro b h; simp at h
                | cons y ys iha =>
                  intro b h
                  cases b with
                  | nil => simp at h
                  | cons z zs =>
                    simp at h
                    rcases h with h | h
                    · simp [h]
                    · obtain ⟨w, hw⟩ := h
                      exact List.mem_cons_of_mem _ (iha zs (by
                        simp; exact ⟨w, hw⟩))
              exact this _ _ hmem
            · cases h1

/-- structural facts under which the reported row carries everything the stoichiometry
    reads: every such name is `time` or a reported column, none is a readout or a data set,
    and nothing computed is itself called `time` -/
structure RhsNamesOk (c : Content) (cache : Cache) : Prop where
  reported : ∀ k ∈ rhsNames cache, k = "time" ∨ k ∈ argNames c cache Flags.all
  notReadout : ∀ k ∈ rhsNames cache, k ∉ omKeys c.readouts
  notData : ∀ k ∈ rhsNames cache, k ∉ omKeys c.data
  timeFree : ∀ k ∈ cache.dynOrder, k ≠ "time"
  timeFreeSur : ∀ k s, c.containers.lookup k = some (.sur s) → "time" ∉ s.outs

/-- the same as a computable check -/
def rhsNamesOkB (c : Content) (cache : Cache) : Bool :=
  (rhsNames cache).all (fun k => k == "time" || (argNames c cache Flags.all).contains k) &&
  (rhsNames cache).all (fun k => !(omKeys c.readouts).contains k) &&
  (rhsNames cache).all (fun k => !(omKeys c.data).contains k) &&
  cache.dynOrder.all (fun k => k != "time") &&
  c.containers.all (fun kv => match kv.2 with
    | .sur s => !s.outs.contains "time"
    | .fn _ => true)

theorem lookup_mem {β} {l : List (Name × β)} {k : Name} {v : β} (h : l.lookup k = some v) :
    ∃ k', (k', v) ∈ l := by
  induction l with
  | nil => simp [List.lookup] at h
  | cons x xs ih =>
    obtain ⟨n, w⟩ := x
    simp only [List.lookup] at h
    split at h
    · cases h; exact ⟨n, by simp⟩
    · obtain ⟨k', hk'⟩ := ih h
      exact ⟨k', by simp [hk']⟩

theorem rhsNamesOk_of_B {c : Content} {cache : Cache} (h : rhsNamesOkB c cache = true) :
    RhsNamesOk c cache := by
  simp only [rhsNamesOkB, Bool.and_eq_true, List.all_eq_true] at h
  obtain ⟨⟨⟨⟨h1, h2⟩, h3⟩, h4⟩, h5⟩ := h
  refine ⟨?_, ?_, ?_, ?_, ?_⟩
  · intro k hk
    have := h1 k hk
    simp only [Bool.or_eq_true, beq_iff_eq, List.contains_iff_mem] at this
    exact this
  · intro k hk; simpa using h2 k hk
  · intro k hk; simpa using h3 k hk
  · intro k hk; simpa using h4 k hk
  · intro k s hl
    obtain ⟨k', hm⟩ := lookup_mem hl
    have := h5 (k', .sur s) hm
    simpa using this

theorem row_agrees {c : Content} {cache : Cache} {t : Rat} {s full : Row} {dep : Env}
    (hok : RhsNamesOk c cache) (hc : createCache c = .ok cache)
    (hdep : getArgsEnv c cache s t = .ok dep) (hfull : pointRow c t s = .ok full) :
    ∀ k ∈ rhsNames cache, Env.get (("time", t) :: full) k = Env.get dep k := by
  intro k hk
  unfold pointRow at hfull
  rw [hc] at hfull
  simp only at hfull
  unfold pointEnv at hfull
  rw [hdep] at hfull
  simp only at hfull
  by_cases hkt : k = "time"
  · subst hkt
    have : Env.get dep "time" = .ok t := by
      unfold getArgsEnv at hdep
      rw [evalInOrder_get hok.timeFreeSur _ _ _ hok.timeFree hdep]
      simp [Env.get, List.lookup]
    rw [this]
    simp [Env.get, List.lookup]
  · have hne : (k == "time") = false := by simpa using hkt
    have hrep : k ∈ argNames c cache Flags.all := by
      rcases hok.reported k hk with h | h
      · exact absurd h hkt
      · exact h
    split at hfull
    · cases hfull
    · rename_i env2 henv
      split at henv
      · cases henv
      · rename_i ros hros
        have hkros : k ∉ omKeys ros := by
          intro hin
          unfold sortedReadouts at hros
          simp only [bind, Except.bind] at hros
          split at hros
          · cases hros
          · exact hok.notReadout k hk (mapM_lookup_keys _ hros k hin)
        have e1 : Env.get (("time", t) :: full) k = Env.get full k := by
          simp [Env.get, List.lookup, hne]
        rw [e1, selectRow_get hfull hrep, evalReadouts_get henv hkros,
          filter_get _ _ (hok.notData k hk)]

end Mxl.C10
